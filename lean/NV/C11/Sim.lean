/-
C11 — the simulation: every step of the index-based model is matched by the index-free reference semantics
of the specification oracle, which therefore never reports a violation on a model trace.
-/
import NV.C11.Bridge

namespace NV.C11

/-- state correspondence that holds at every event boundary -/
structure R0 (w : World) (j : JState) : Prop where
  hbs : w.hbs = j.done ++ j.pend ++ j.late
  known : w.known = j.known
  nofn : w.nofn = j.nofn
  dead : w.dead = j.dead
  flag : w.flag = j.trunc
  cur : w.cur = j.cur
  ok : w.crashed = false
  cap : w.hbs.length ≤ w.cap
  sub : ∀ x, w.dead.contains x = true → w.known.contains x = true

/-- cursor correspondence while a heart_beat function runs: heart_beat_index is the last served entry -/
def Pos (w : World) (j : JState) : Prop :=
  w.idx + 1 = (j.done.length : Int) ∧ w.todo = (j.done.length : Int) + (j.pend.length : Int)

def RP (w : World) (j : JState) : Prop := R0 w j ∧ (j.inRound = true → Pos w j)

/-- what operations leave untouched in the oracle state -/
structure Frame (j j' : JState) : Prop where
  bad : j'.bad = j.bad
  inRound : j'.inRound = j.inRound
  expect : j'.expect = j.expect
  pend : j'.pend.length ≤ j.pend.length

theorem Frame.refl (j : JState) : Frame j j := ⟨rfl, rfl, rfl, Nat.le_refl _⟩

theorem Frame.trans {a b c : JState} (h1 : Frame a b) (h2 : Frame b c) : Frame a c :=
  ⟨h2.bad.trans h1.bad, h2.inRound.trans h1.inRound, h2.expect.trans h1.expect, Nat.le_trans h2.pend h1.pend⟩

theorem jDisable_frame (j : JState) (x : Nat) : Frame j (jDisable j x) := by
  unfold jDisable
  split
  · exact ⟨rfl, rfl, rfl, Nat.le_refl _⟩
  · split
    · exact ⟨rfl, rfl, rfl, rmFirst_length_le _ _⟩
    · exact ⟨rfl, rfl, rfl, Nat.le_refl _⟩

theorem jDisable_fields (j : JState) (x : Nat) :
    (jDisable j x).known = j.known ∧ (jDisable j x).nofn = j.nofn ∧ (jDisable j x).dead = j.dead ∧
    (jDisable j x).trunc = j.trunc ∧ (jDisable j x).cur = j.cur := by
  unfold jDisable
  split
  · simp
  · split <;> simp

/-- removal: the compensation of heart_beat_index / num_hb_to_do is exactly "remove it from whichever of
    done / pend / late holds it" -/
theorem sim_disable {w : World} {j : JState} (h : RP w j) (x : Nat) (hx : w.dead.contains x = false) :
    RP (setHeartBeat w x 0) (jDisable j x) := by
  obtain ⟨h0, hp⟩ := h
  have hsm : ¬ ((0 : Int) > shrtMax) := by decide
  have hfr := jDisable_frame j x
  have hfl := jDisable_fields j x
  rw [setHeartBeat_eq_ref]
  unfold setHeartBeatRef
  simp only [hx, hsm, if_false, Bool.false_eq_true, if_true]
  cases hi : idxOf x w.hbs with
  | none =>
    have hn : hasOb x w.hbs = false := by
      cases hh : hasOb x w.hbs with
      | false => rfl
      | true => obtain ⟨i, hi', _⟩ := idxOf_some_of_has hh; rw [hi] at hi'; cases hi'
    rw [h0.hbs, hasOb_append, hasOb_append] at hn
    simp only [Bool.or_eq_false_iff] at hn
    have hj : jDisable j x = j := by
      unfold jDisable
      simp [hn.1.1, hn.1.2, rmFirst_of_not_has hn.2]
    rw [hj]
    exact ⟨h0, hp⟩
  | some i =>
    have hlt := idxOf_lt hi
    have her := eraseIdx_idxOf hi
    simp only
    by_cases hd : hasOb x j.done = true
    · -- the entry was already served in this round
      have hjd : jDisable j x = { j with done := rmFirst x j.done } := by unfold jDisable; simp [hd]
      have hi2 : idxOf x j.done = some i := by
        rw [h0.hbs, List.append_assoc, idxOf_append_left hd] at hi; exact hi
      have hil := idxOf_lt hi2
      have hlen := rmFirst_length hd
      refine ⟨⟨?_, ?_, ?_, ?_, ?_, ?_, ?_, ?_, ?_⟩, ?_⟩
      · rw [hjd]; split <;> simp only [her] <;> rw [h0.hbs, List.append_assoc, rmFirst_append_left hd, List.append_assoc]
      · split <;> simp [hfl, h0.known]
      · split <;> simp [hfl, h0.nofn]
      · split <;> simp [hfl, h0.dead]
      · split <;> simp [hfl, h0.flag]
      · split <;> simp [hfl, h0.cur]
      · split <;> simp [h0.ok]
      · have := h0.cap
        have hle : (w.hbs.eraseIdx i).length ≤ w.hbs.length := by
          rw [List.length_eraseIdx]; split <;> omega
        split <;> (simp only; omega)
      · split <;> exact h0.sub
      · intro hr
        rw [hfr.inRound] at hr
        obtain ⟨p1, p2⟩ := hp hr
        rw [hjd]
        have htodo : w.todo ≠ 0 := by omega
        simp only [htodo, ne_eq, not_false_eq_true, if_true]
        unfold Pos
        simp only
        constructor
        · split <;> omega
        · split <;> omega
    · simp only [Bool.not_eq_true] at hd
      by_cases hpd : hasOb x j.pend = true
      · -- still to be served in this round
        have hjd : jDisable j x = { j with pend := rmFirst x j.pend } := by unfold jDisable; simp [hd, hpd]
        have hi2 : ∃ k, idxOf x j.pend = some k ∧ i = k + j.done.length := by
          rw [h0.hbs, List.append_assoc, idxOf_append_right hd, idxOf_append_left hpd] at hi
          cases hk : idxOf x j.pend with
          | none => rw [hk] at hi; simp at hi
          | some k => rw [hk] at hi; simp at hi; exact ⟨k, rfl, hi.symm⟩
        obtain ⟨k, hk, hik⟩ := hi2
        have hkl := idxOf_lt hk
        have hlen := rmFirst_length hpd
        refine ⟨⟨?_, ?_, ?_, ?_, ?_, ?_, ?_, ?_, ?_⟩, ?_⟩
        · rw [hjd]; split <;> simp only [her] <;>
            rw [h0.hbs, List.append_assoc, rmFirst_append_right hd, rmFirst_append_left hpd, List.append_assoc]
        · split <;> simp [hfl, h0.known]
        · split <;> simp [hfl, h0.nofn]
        · split <;> simp [hfl, h0.dead]
        · split <;> simp [hfl, h0.flag]
        · split <;> simp [hfl, h0.cur]
        · split <;> simp [h0.ok]
        · have := h0.cap
          have hle : (w.hbs.eraseIdx i).length ≤ w.hbs.length := by
            rw [List.length_eraseIdx]; split <;> omega
          split <;> (simp only; omega)
        · split <;> exact h0.sub
        · intro hr
          rw [hfr.inRound] at hr
          obtain ⟨p1, p2⟩ := hp hr
          rw [hjd]
          have htodo : w.todo ≠ 0 := by omega
          simp only [htodo, ne_eq, not_false_eq_true, if_true]
          unfold Pos
          simp only
          constructor
          · split <;> omega
          · split <;> omega
      · -- enabled during this round (or between rounds): the cursor is not affected
        simp only [Bool.not_eq_true] at hpd
        have hjd : jDisable j x = { j with late := rmFirst x j.late } := by unfold jDisable; simp [hd, hpd]
        have hi2 : ∃ k, idxOf x j.late = some k ∧ i = k + j.pend.length + j.done.length := by
          rw [h0.hbs, List.append_assoc, idxOf_append_right hd, idxOf_append_right hpd] at hi
          cases hk : idxOf x j.late with
          | none => rw [hk] at hi; simp at hi
          | some k => rw [hk] at hi; simp at hi; exact ⟨k, rfl, hi.symm⟩
        obtain ⟨k, hk, hik⟩ := hi2
        refine ⟨⟨?_, ?_, ?_, ?_, ?_, ?_, ?_, ?_, ?_⟩, ?_⟩
        · rw [hjd]; split <;> simp only [her] <;>
            rw [h0.hbs, List.append_assoc, rmFirst_append_right hd, rmFirst_append_right hpd, List.append_assoc]
        · split <;> simp [hfl, h0.known]
        · split <;> simp [hfl, h0.nofn]
        · split <;> simp [hfl, h0.dead]
        · split <;> simp [hfl, h0.flag]
        · split <;> simp [hfl, h0.cur]
        · split <;> simp [h0.ok]
        · have := h0.cap
          have hle : (w.hbs.eraseIdx i).length ≤ w.hbs.length := by
            rw [List.length_eraseIdx]; split <;> omega
          split <;> (simp only; omega)
        · split <;> exact h0.sub
        · intro hr
          rw [hfr.inRound] at hr
          obtain ⟨p1, p2⟩ := hp hr
          rw [hjd]
          unfold Pos
          simp only
          split
          · have h1 : ¬ ((i : Int) ≤ w.idx) := by omega
            have h2 : ¬ ((i : Int) < w.todo) := by omega
            simp only [h1, h2, if_false]
            exact ⟨p1, p2⟩
          · exact ⟨p1, p2⟩

theorem jSet_frame (j : JState) (x : Nat) (n : Int) : Frame j (jSet j x n) := by
  unfold jSet
  simp only
  split
  · exact jDisable_frame j x
  · split
    · split
      · exact Frame.refl j
      · split
        · exact ⟨rfl, rfl, rfl, Nat.le_refl _⟩
        · split
          · exact ⟨rfl, rfl, rfl, by simp [retune_length]⟩
          · exact ⟨rfl, rfl, rfl, Nat.le_refl _⟩
    · exact ⟨rfl, rfl, rfl, Nat.le_refl _⟩

/-- enabling / retuning: append goes to `late`, retune rewrites the entry where it is; the `(short)` cast is the
    identity on the clamped argument -/
theorem sim_set {w : World} {j : JState} (h : RP w j) (x : Nat) (n : Int) (hx : w.dead.contains x = false) :
    RP (setHeartBeat w x (satEfun n)) (jSet j x n) := by
  have hr := satEfun_range n
  have hsmv : shrtMax = 32767 := by decide
  by_cases hz : satEfun n = 0
  · have : jSet j x n = jDisable j x := by unfold jSet; simp [hz]
    rw [this, hz]
    exact sim_disable h x hx
  · obtain ⟨h0, hp⟩ := h
    have hfr := jSet_frame j x n
    have hgt : ¬ (satEfun n > shrtMax) := by omega
    have hall : hasOb x w.hbs = hasOb x j.all := by rw [h0.hbs]; rfl
    rw [setHeartBeat_eq_ref]
    unfold setHeartBeatRef
    simp only [hx, hgt, hz, if_false, Bool.false_eq_true]
    unfold jSet
    simp only [hz, if_false]
    rw [← hall]
    by_cases hon : hasOb x w.hbs = true
    · simp only [hon, if_true]
      by_cases hneg : satEfun n < 0
      · simp only [hneg, if_true]
        exact ⟨h0, hp⟩
      · simp only [hneg, if_false]
        obtain ⟨i, hi, _⟩ := idxOf_some_of_has hon
        have hw : wrap16 (satEfun n) = satEfun n := wrap16_id (by omega) hr.2
        simp only [hi, hw]
        rw [set_idxOf _ hi]
        by_cases hd : hasOb x j.done = true
        · simp only [hd, if_true]
          refine ⟨⟨?_, h0.known, h0.nofn, h0.dead, h0.flag, h0.cur, h0.ok, ?_, h0.sub⟩, ?_⟩
          · simp only; rw [h0.hbs, List.append_assoc, retune_append_left _ hd, List.append_assoc]
          · simp only [retune_length]; exact h0.cap
          · intro hr'; have := hp hr'; unfold Pos at *; simp only [retune_length]; exact this
        · simp only [Bool.not_eq_true] at hd
          simp only [hd, Bool.false_eq_true, if_false]
          by_cases hpd : hasOb x j.pend = true
          · simp only [hpd, if_true]
            refine ⟨⟨?_, h0.known, h0.nofn, h0.dead, h0.flag, h0.cur, h0.ok, ?_, h0.sub⟩, ?_⟩
            · simp only
              rw [h0.hbs, List.append_assoc, retune_append_right _ hd, retune_append_left _ hpd, List.append_assoc]
            · simp only [retune_length]; exact h0.cap
            · intro hr'; have := hp hr'; unfold Pos at *; simp only [retune_length]; exact this
          · simp only [Bool.not_eq_true] at hpd
            simp only [hpd, Bool.false_eq_true, if_false]
            refine ⟨⟨?_, h0.known, h0.nofn, h0.dead, h0.flag, h0.cur, h0.ok, ?_, h0.sub⟩, ?_⟩
            · simp only
              rw [h0.hbs, List.append_assoc, retune_append_right _ hd, retune_append_right _ hpd, List.append_assoc]
            · simp only [retune_length]; exact h0.cap
            · intro hr'; exact hp hr'
    · simp only [Bool.not_eq_true] at hon
      simp only [hon, Bool.false_eq_true, if_false]
      have hcap := h0.cap
      have hch : 0 < chunk := by decide
      have hlt : w.hbs.length < (if w.cap = 0 then chunk else if w.hbs.length = w.cap then w.cap + chunk else w.cap) := by
        split
        · omega
        · split <;> omega
      simp only [hlt, if_true]
      have hw : wrap16 (if satEfun n < 0 then 1 else satEfun n) = (if satEfun n < 0 then 1 else satEfun n) := by
        apply wrap16_id <;> split <;> omega
      simp only [hw]
      refine ⟨⟨?_, h0.known, h0.nofn, h0.dead, h0.flag, h0.cur, h0.ok, ?_, h0.sub⟩, ?_⟩
      · simp only; rw [h0.hbs]; simp [List.append_assoc]
      · simp only [List.length_append, List.length_cons, List.length_nil]; omega
      · intro hr'; exact hp hr'

theorem jDisableAlive_frame (j : JState) (x : Nat) : Frame j (jDisableAlive j x) := by
  unfold jDisableAlive
  split
  · exact Frame.refl j
  · exact jDisable_frame j x

theorem jDisableAlive_known (j : JState) (x : Nat) : (jDisableAlive j x).known = j.known := by
  unfold jDisableAlive
  split
  · rfl
  · exact (jDisable_fields j x).1

theorem sim_disableAlive {w : World} {j : JState} (h : RP w j) (x : Nat) :
    RP (setHeartBeat w x 0) (jDisableAlive j x) := by
  cases hd : w.dead.contains x with
  | false =>
    have : jDisableAlive j x = jDisable j x := by unfold jDisableAlive; rw [← h.1.dead, hd]; simp
    rw [this]; exact sim_disable h x hd
  | true =>
    have h1 : setHeartBeat w x 0 = w := by rw [setHeartBeat_eq_ref]; unfold setHeartBeatRef; rw [if_pos hd]
    have h2 : jDisableAlive j x = j := by unfold jDisableAlive; rw [← h.1.dead, hd]; simp
    rw [h1, h2]; exact h

theorem alive_eq {w : World} {j : JState} (h : R0 w j) (x : Nat) : w.alive x = j.alive x := by
  unfold World.alive JState.alive; rw [h.known, h.dead]

theorem alive_not_dead {w : World} {x : Nat} (h : w.alive x = true) : w.dead.contains x = false := by
  unfold World.alive at h
  simp only [Bool.and_eq_true, Bool.not_eq_true'] at h
  exact h.2

theorem query_eq {w : World} {j : JState} (h : R0 w j) (x : Nat) : queryHeartBeat w x = jQuery j x := by
  unfold queryHeartBeat jQuery JState.all; rw [h.hbs]
  cases lookup x (j.done ++ j.pend ++ j.late) <;> rfl

/-- oracle state after an uncaught error, before the round is declared abandoned -/
def jErr1 (j : JState) : JState :=
  match j.cur with
  | some c => { jDisableAlive j c with cur := none }
  | none => j

def jErr (j : JState) : JState :=
  if (jErr1 j).inRound then { jErr1 j with expect := .abort } else jErr1 j

theorem judge1_err (j : JState) (o : Nat) : judge1 j (.err o) = jErr j := rfl

theorem judge1_errR (j : JState) : judge1 j .errR = jErr j := rfl

theorem sim_err1 {w : World} {j : JState} (h : RP w j) :
    R0 (errorHandler w) (jErr1 j) ∧ Frame j (jErr1 j) := by
  cases hc : w.cur with
  | none =>
    have hjc : j.cur = none := by rw [← h.1.cur, hc]
    have e1 : errorHandler w = w := by rw [errorHandler_eq_ref]; unfold errorHandlerRef; rw [hc]
    have e2 : jErr1 j = j := by unfold jErr1; rw [hjc]
    rw [e1, e2]; exact ⟨h.1, Frame.refl j⟩
  | some c =>
    have hjc : j.cur = some c := by rw [← h.1.cur, hc]
    have e1 : errorHandler w = { setHeartBeat w c 0 with cur := none } := by
      rw [errorHandler_eq_ref]; unfold errorHandlerRef; rw [hc]
    have e2 : jErr1 j = { jDisableAlive j c with cur := none } := by unfold jErr1; rw [hjc]
    have h0 := (sim_disableAlive h c).1
    have hf := jDisableAlive_frame j c
    rw [e1, e2]
    exact ⟨⟨h0.hbs, h0.known, h0.nofn, h0.dead, h0.flag, rfl, h0.ok, h0.cap, h0.sub⟩, ⟨hf.bad, hf.inRound, hf.expect, hf.pend⟩⟩

/-- error_handler: exactly the running object's heart beat is switched off -/
theorem sim_err0 {w : World} {j : JState} (h : RP w j) :
    R0 (errorHandler w) (jErr j) ∧ (jErr j).bad = j.bad ∧ (jErr j).inRound = j.inRound ∧
    (jErr j).expect = (if j.inRound then .abort else j.expect) ∧ (jErr j).cur = none := by
  obtain ⟨h0, hf⟩ := sim_err1 h
  have hcn : (jErr1 j).cur = none := by
    unfold jErr1
    cases hjc : j.cur with
    | none => exact hjc
    | some c => rfl
  cases hr : j.inRound with
  | true =>
    have hr1 : (jErr1 j).inRound = true := by rw [hf.inRound, hr]
    have e : jErr j = { jErr1 j with expect := .abort } := by unfold jErr; rw [if_pos hr1]
    rw [e]
    exact ⟨⟨h0.hbs, h0.known, h0.nofn, h0.dead, h0.flag, h0.cur, h0.ok, h0.cap, h0.sub⟩, hf.bad, hr1, rfl, hcn⟩
  | false =>
    have hr1 : (jErr1 j).inRound = false := by rw [hf.inRound, hr]
    have e : jErr j = jErr1 j := by unfold jErr; rw [if_neg (by rw [hr1]; decide)]
    rw [e]
    exact ⟨h0, hf.bad, hr1, hf.expect, hcn⟩

/-- error_handler from its first statement (restrict_destruct reset, then the switch-off) -/
theorem sim_err {w : World} {j : JState} (h : RP w j) :
    R0 (errorEntry w) (jErr j) ∧ (jErr j).bad = j.bad ∧ (jErr j).inRound = j.inRound ∧
    (jErr j).expect = (if j.inRound then .abort else j.expect) ∧ (jErr j).cur = none :=
  sim_err0 (w := { w with restrict := none })
    ⟨⟨h.1.hbs, h.1.known, h.1.nofn, h.1.dead, h.1.flag, h.1.cur, h.1.ok, h.1.cap, h.1.sub⟩, h.2⟩

/-- what `sim_stepOp` / `sim_runOps` conclude -/
def StepOK (w : World) (j : JState) (r : World × List Ev × Status) : Prop :=
  if r.2.2 = .err then
    R0 (errorEntry r.1) (r.2.1.foldl judge1 j) ∧ (r.2.1.foldl judge1 j).bad = j.bad ∧
      (r.2.1.foldl judge1 j).inRound = j.inRound ∧
      (r.2.1.foldl judge1 j).expect = (if j.inRound then .abort else j.expect) ∧
      (r.2.1.foldl judge1 j).cur = none
  else RP r.1 (r.2.1.foldl judge1 j) ∧ Frame j (r.2.1.foldl judge1 j)

theorem stepOK_one {w w' : World} {j j' : JState} {e : Ev} {st : Status} (hst : st ≠ .err)
    (hj : judge1 j e = j') (h : RP w' j') (hf : Frame j j') : StepOK w j (w', [e], st) := by
  unfold StepOK
  simp only [List.foldl, hst, if_false, hj]
  exact ⟨h, hf⟩

/-- destruct of an object without inventory: set_heart_beat (ob, 0) then O_DESTRUCTED -/
theorem sim_destLeaf {w : World} {j : JState} (h : RP w j) (t : Nat) (hat : w.alive t = true) :
    RP (destructLeaf w t) { jDisable j t with dead := t :: j.dead } ∧
    Frame j { jDisable j t with dead := t :: j.dead } := by
  have hs := sim_disable h t (alive_not_dead hat)
  have hfl := jDisable_fields j t
  have hfr := jDisable_frame j t
  have hknown : w.known.contains t = true := by
    unfold World.alive at hat; simp only [Bool.and_eq_true] at hat; exact hat.1
  rw [destructLeaf_ref]
  refine ⟨⟨⟨hs.1.hbs, hs.1.known, hs.1.nofn, ?_, hs.1.flag, hs.1.cur, hs.1.ok, hs.1.cap, ?_⟩, ?_⟩,
    ⟨hfr.bad, hfr.inRound, hfr.expect, hfr.pend⟩⟩
  · show t :: (setHeartBeat w t 0).dead = t :: j.dead
    rw [hs.1.dead, hfl.2.2.1]
  · intro x hx
    show (setHeartBeat w t 0).known.contains x = true
    have hx' : (t :: (setHeartBeat w t 0).dead).contains x = true := hx
    simp only [List.contains_cons, Bool.or_eq_true, beq_iff_eq] at hx'
    rcases hx' with hx' | hx'
    · subst hx'; rw [hs.1.known, hfl.1, ← h.1.known]; exact hknown
    · exact hs.1.sub x hx'
  · intro hr; exact hs.2 hr

/-- reload_object: O_ENABLE_COMMANDS and the variables are cleared, the heart beat is switched off, create() enables it
    again: for the heart-beat list this is "disable, then set_heart_beat(n)" -/
theorem sim_reload {w : World} {j : JState} (h : RP w j) (t : Nat) (n : Int) (hat : w.alive t = true)
    (lv : List Nat) (nb : Nat → Nat) (co : List (Nat × List Op)) :
    RP (setHeartBeat (setHeartBeat { w with living := lv, nb := nb, co := co } t 0) t (satEfun n)) (jSet (jDisable j t) t n) := by
  have hR0 : RP { w with living := lv, nb := nb, co := co } j :=
    ⟨⟨h.1.hbs, h.1.known, h.1.nofn, h.1.dead, h.1.flag, h.1.cur, h.1.ok, h.1.cap, h.1.sub⟩, h.2⟩
  have hd0 : ({ w with living := lv, nb := nb, co := co } : World).dead.contains t = false := alive_not_dead hat
  have hs1 := sim_disable hR0 t hd0
  have hd1 : (setHeartBeat { w with living := lv, nb := nb, co := co } t 0).dead.contains t = false := by
    rw [hs1.1.dead, (jDisable_fields j t).2.2.1, ← h.1.dead]; exact alive_not_dead hat
  exact sim_set hs1 t n hd1

theorem sim_stepOpBasic {w : World} {j : JState} (h : RP w j) (ha : opAllowed j = true) (self : Nat) (op : Op) :
    StepOK w j (stepOpBasic w self op) := by
  have hal := alive_eq h.1
  cases op with
  | shb t n =>
    cases hat : w.alive t with
    | false =>
      have hjt : j.alive t = false := by rw [← hal, hat]
      have hst : stepOpBasic w self (.shb t n) = (w, [.shbDead self t n], .ok) := by simp [stepOpBasic, hat]
      rw [hst]
      exact stepOK_one (by decide) (by simp [judge1, hjt]) h (Frame.refl j)
    | true =>
      have hjt : j.alive t = true := by rw [← hal, hat]
      have hs := sim_set h t n (alive_not_dead hat)
      have hq := query_eq hs.1 t
      have hst : stepOpBasic w self (.shb t n) =
          (setHeartBeat w t (satEfun n), [.shb self t n (jQuery (jSet j t n) t)], .ok) := by
        simp [stepOpBasic, hat, hq, gen_efunSat_eq]
      rw [hst]
      exact stepOK_one (by decide) (by simp [judge1, ha, hjt]) hs (jSet_frame j t n)
  | q t =>
    cases hat : w.alive t with
    | false =>
      have hjt : j.alive t = false := by rw [← hal, hat]
      have hst : stepOpBasic w self (.q t) = (w, [.queryDead self t], .ok) := by simp [stepOpBasic, hat]
      rw [hst]
      exact stepOK_one (by decide) (by simp [judge1, hjt]) h (Frame.refl j)
    | true =>
      have hjt : j.alive t = true := by rw [← hal, hat]
      have hst : stepOpBasic w self (.q t) = (w, [.query self t (jQuery j t)], .ok) := by
        simp [stepOpBasic, hat, query_eq h.1 t]
      rw [hst]
      exact stepOK_one (by decide) (by simp [judge1, hjt]) h (Frame.refl j)
  | dest t =>
    by_cases hc : (!w.alive t || decide (t < 2)) = true
    · have hc' : (j.alive t && !decide (t < 2)) = false := by
        rw [← hal]; cases hx : w.alive t <;> cases hy : decide (t < 2) <;> simp_all
      have hst : stepOpBasic w self (.dest t) = (w, [.destNone self t], .ok) := by
        simp only [stepOpBasic]; rw [if_pos hc]
      rw [hst]
      exact stepOK_one (by decide) (by simp only [judge1]; rw [if_neg (by rw [hc']; decide)]) h (Frame.refl j)
    · by_cases hrs : restricted w t = true
      · have hst : stepOpBasic w self (.dest t) = (w, [.errR], .err) := by
          simp only [stepOpBasic]; rw [if_neg hc, if_pos hrs]
        rw [hst]
        unfold StepOK
        simp only [List.foldl, judge1_errR, if_true]
        exact sim_err h
      have hst : stepOpBasic w self (.dest t) = (destructLeaf w t, [.dest self t], if (destructLeaf w t).alive self then .ok else .stop) := by
        simp only [stepOpBasic]; rw [if_neg hc, if_neg hrs]
      simp only [Bool.not_eq_true] at hc
      have hat : w.alive t = true := by cases hx : w.alive t <;> simp_all
      have ht2 : decide (t < 2) = false := by cases hy : decide (t < 2) <;> simp_all
      have hjt : j.alive t = true := by rw [← hal, hat]
      obtain ⟨hR, hF⟩ := sim_destLeaf h t hat
      have hjd : judge1 j (.dest self t) = { jDisable j t with dead := t :: j.dead } := by
        simp [judge1, ha, hjt, ht2]
      rw [hst]
      exact stepOK_one (by split <;> decide) hjd hR hF
  | clone new kind n =>
    cases hk : w.known.contains new with
    | true =>
      have hjk : j.known.contains new = true := by rw [← h.1.known, hk]
      have hst : stepOpBasic w self (.clone new kind n) = (w, [.cloneDup self new], .ok) := by
        simp only [stepOpBasic]; rw [if_pos hk]
      rw [hst]
      exact stepOK_one (by decide) (by simp only [judge1]; rw [if_pos hjk]) h (Frame.refl j)
    | false =>
      have hjk : j.known.contains new = false := by rw [← h.1.known, hk]
      have h1 := sim_disableAlive h (if kind = 0 then 0 else 1)
      have hf1 := jDisableAlive_frame j (if kind = 0 then 0 else 1)
      have hst : stepOpBasic w self (.clone new kind n) =
          (setHeartBeat { setHeartBeat w (if kind = 0 then 0 else 1) 0 with
              known := new :: (setHeartBeat w (if kind = 0 then 0 else 1) 0).known,
              nofn := if kind = 0 then (setHeartBeat w (if kind = 0 then 0 else 1) 0).nofn
                      else new :: (setHeartBeat w (if kind = 0 then 0 else 1) 0).nofn } new (satEfun n),
           [.clone self new (if kind = 0 then 0 else 1) n
              (queryHeartBeat (setHeartBeat { setHeartBeat w (if kind = 0 then 0 else 1) 0 with
              known := new :: (setHeartBeat w (if kind = 0 then 0 else 1) 0).known,
              nofn := if kind = 0 then (setHeartBeat w (if kind = 0 then 0 else 1) 0).nofn
                      else new :: (setHeartBeat w (if kind = 0 then 0 else 1) 0).nofn } new (satEfun n)) new)], .ok) := by
        simp only [stepOpBasic, gen_efunSat_eq]; rw [if_neg (by rw [hk]; decide)]
      rw [hst]
      generalize setHeartBeat w (if kind = 0 then 0 else 1) 0 = w1 at h1 ⊢
      generalize hj1 : jDisableAlive j (if kind = 0 then 0 else 1) = j1 at h1 hf1
      have hk1 : j1.known = j.known := by rw [← hj1]; exact jDisableAlive_known j _
      have h2 : RP { w1 with known := new :: w1.known, nofn := if kind = 0 then w1.nofn else new :: w1.nofn }
          { j1 with known := new :: j1.known, nofn := if kind = 0 then j1.nofn else new :: j1.nofn } := by
        refine ⟨⟨h1.1.hbs, ?_, ?_, h1.1.dead, h1.1.flag, h1.1.cur, h1.1.ok, h1.1.cap, ?_⟩, h1.2⟩
        · show new :: w1.known = new :: j1.known
          rw [h1.1.known]
        · show (if kind = 0 then w1.nofn else new :: w1.nofn) = (if kind = 0 then j1.nofn else new :: j1.nofn)
          rw [h1.1.nofn]
        · intro x hx
          have := h1.1.sub x hx
          show (new :: w1.known).contains x = true
          simp only [List.contains_cons, Bool.or_eq_true]
          exact Or.inr this
      have hnd : w1.dead.contains new = false := by
        cases hx : w1.dead.contains new with
        | false => rfl
        | true =>
          have := h1.1.sub new hx
          rw [h1.1.known, hk1, hjk] at this; cases this
      have h3 := sim_set h2 new n hnd
      have hq := query_eq h3.1 new
      have hf3 := jSet_frame { j1 with known := new :: j1.known, nofn := if kind = 0 then j1.nofn else new :: j1.nofn } new n
      have hF : Frame j (jSet { j1 with known := new :: j1.known, nofn := if kind = 0 then j1.nofn else new :: j1.nofn } new n) :=
        Frame.trans hf1 ⟨hf3.bad, hf3.inRound, hf3.expect, hf3.pend⟩
      rw [hq]
      refine stepOK_one (by decide) ?_ h3 hF
      have hkk : (if (if kind = 0 then 0 else 1) = 0 then (0 : Nat) else 1) = (if kind = 0 then 0 else 1) := by
        split <;> simp
      have hk0 : ((if kind = 0 then (0 : Nat) else 1) = 0) = (kind = 0) := by
        split <;> simp_all
      simp only [judge1, ha, hjk, hkk, hj1, hk0]
      simp
  | err =>
    unfold stepOpBasic StepOK
    simp only [List.foldl, judge1_err, if_true]
    exact sim_err h
  | flag =>
    have hst : stepOpBasic w self .flag = ({ w with flag := true }, [.flag self], .ok) := rfl
    rw [hst]
    exact stepOK_one (by decide) rfl
      ⟨⟨h.1.hbs, h.1.known, h.1.nofn, h.1.dead, rfl, h.1.cur, h.1.ok, h.1.cap, h.1.sub⟩, h.2⟩
      ⟨rfl, rfl, rfl, Nat.le_refl _⟩
  | hbs =>
    have hst : stepOpBasic w self .hbs = (w, [.hbs self (j.all.map (·.ob)).reverse], .ok) := by
      simp only [stepOpBasic]; rw [h.1.hbs]; rfl
    rw [hst]
    exact stepOK_one (by decide) (by simp [judge1]) h (Frame.refl j)
  | take i =>
    simp only [stepOpBasic]
    split
    · exact stepOK_one (by decide) rfl
        ⟨⟨h.1.hbs, h.1.known, h.1.nofn, h.1.dead, h.1.flag, h.1.cur, h.1.ok, h.1.cap, h.1.sub⟩, h.2⟩ (Frame.refl j)
    · exact stepOK_one (by decide) rfl h (Frame.refl j)
  | zshb n =>
    cases hk : w.known.contains self with
    | false =>
      have hjk : j.alive self = false := by unfold JState.alive; rw [← h.1.known, hk]; rfl
      have hst : stepOpBasic w self (.zshb n) = (w, [.zshb self n], .ok) := by
        simp only [stepOpBasic]; rw [if_pos (by rw [hk]; rfl)]
      rw [hst]
      exact stepOK_one (by decide) (by simp [judge1, ha, hjk]) h (Frame.refl j)
    | true =>
      have hst : stepOpBasic w self (.zshb n) = (setHeartBeat w self (satEfun n), [.zshb self n], .ok) := by
        simp only [stepOpBasic, gen_efunSat_eq]; rw [if_neg (by rw [hk]; decide)]
      rw [hst]
      cases hd : w.dead.contains self with
      | true =>
        have hjk : j.alive self = false := by unfold JState.alive; rw [← h.1.dead, hd]; simp
        have hw : setHeartBeat w self (satEfun n) = w := by
          rw [setHeartBeat_eq_ref]; unfold setHeartBeatRef; rw [if_pos hd]
        rw [hw]
        exact stepOK_one (by decide) (by simp [judge1, ha, hjk]) h (Frame.refl j)
      | false =>
        have hjk : j.alive self = true := by unfold JState.alive; rw [← h.1.known, ← h.1.dead, hk, hd]; rfl
        exact stepOK_one (by decide) (by simp [judge1, ha, hjk]) (sim_set h self n hd) (jSet_frame j self n)
  | mv x =>
    simp only [stepOpBasic]
    split
    · exact stepOK_one (by decide) rfl
        ⟨⟨h.1.hbs, h.1.known, h.1.nofn, h.1.dead, h.1.flag, h.1.cur, h.1.ok, h.1.cap, h.1.sub⟩, h.2⟩ (Frame.refl j)
    · exact stepOK_one (by decide) rfl h (Frame.refl j)
  | cerr =>
    have hst : stepOpBasic w self .cerr = (w, [.caught self], .ok) := rfl
    rw [hst]
    exact stepOK_one (by decide) rfl h (Frame.refl j)
  | reload t n =>
    by_cases hc : (!w.alive t || decide (t < 2)) = true
    · have hc' : (j.alive t && !decide (t < 2)) = false := by
        rw [← hal]; cases hx : w.alive t <;> cases hy : decide (t < 2) <;> simp_all
      have hst : stepOpBasic w self (.reload t n) = (w, [.reloadNone self t], .ok) := by
        simp only [stepOpBasic]; rw [if_pos hc]
      rw [hst]
      exact stepOK_one (by decide) (by simp only [judge1]; rw [if_neg (by rw [hc']; decide)]) h (Frame.refl j)
    · let w0 : World := { w with living := w.living.filter (fun x => x != t), nb := fun o => if o = t then 0 else w.nb o,
                                 co := w.co.filter (fun c => c.1 != t) }
      have hst : stepOpBasic w self (.reload t n) =
          (setHeartBeat (setHeartBeat w0 t 0) t (satEfun n),
           [Ev.reload self t n (queryHeartBeat (setHeartBeat (setHeartBeat w0 t 0) t (satEfun n)) t)], .ok) := by
        simp only [stepOpBasic, gen_efunSat_eq]; rw [if_neg hc]
      simp only [Bool.not_eq_true] at hc
      have hat : w.alive t = true := by cases hx : w.alive t <;> simp_all
      have ht2 : decide (t < 2) = false := by cases hy : decide (t < 2) <;> simp_all
      have hjt : j.alive t = true := by rw [← hal, hat]
      have hs2 : RP (setHeartBeat (setHeartBeat w0 t 0) t (satEfun n)) (jSet (jDisable j t) t n) :=
        sim_reload h t n hat (w.living.filter (fun x => x != t)) (fun o => if o = t then 0 else w.nb o)
          (w.co.filter (fun c => c.1 != t))
      have hq := query_eq hs2.1 t
      rw [hst, hq]
      exact stepOK_one (by decide) (by simp [judge1, ha, hjt, ht2]) hs2
        (Frame.trans (jDisable_frame j t) (jSet_frame (jDisable j t) t n))
  | living =>
    have hst : stepOpBasic w self .living = ({ w with living := self :: w.living, cg := some self }, [.living self], .ok) := rfl
    rw [hst]
    exact stepOK_one (by decide) rfl
      ⟨⟨h.1.hbs, h.1.known, h.1.nofn, h.1.dead, h.1.flag, h.1.cur, h.1.ok, h.1.cap, h.1.sub⟩, h.2⟩ (Frame.refl j)
  | burn =>
    have hst : stepOpBasic w self .burn = ({ w with ec := false }, [.burn self], .ok) := rfl
    rw [hst]
    exact stepOK_one (by decide) rfl
      ⟨⟨h.1.hbs, h.1.known, h.1.nofn, h.1.dead, h.1.flag, h.1.cur, h.1.ok, h.1.cap, h.1.sub⟩, h.2⟩ (Frame.refl j)
  | rp =>
    simp only [stepOpBasic]
    split
    · exact stepOK_one (by decide) rfl h (Frame.refl j)
    · exact stepOK_one (by decide) rfl
        ⟨⟨h.1.hbs, h.1.known, h.1.nofn, h.1.dead, h.1.flag, h.1.cur, h.1.ok, h.1.cap, h.1.sub⟩, h.2⟩ (Frame.refl j)

theorem stepOK_nil (w : World) (j : JState) (h : RP w j) : StepOK w j (w, [], .ok) := by
  unfold StepOK
  simp only [List.foldl, reduceCtorEq, if_false]
  exact ⟨h, Frame.refl j⟩

theorem opAllowed_frame {j j' : JState} (hf : Frame j j') (ha : opAllowed j = true) : opAllowed j' = true := by
  unfold opAllowed at *; rw [hf.expect]; exact ha

theorem sim_runOpsBasic (self : Nat) : ∀ (ops : List Op) (w : World) (j : JState), RP w j → opAllowed j = true →
    StepOK w j (runOpsBasic w self ops) := by
  intro ops
  induction ops with
  | nil => intro w j h _; exact stepOK_nil w j h
  | cons op rest ih =>
    intro w j h ha
    have h1 := sim_stepOpBasic h ha self op
    cases hs : stepOpBasic w self op with
    | mk w1 r =>
      cases r with
      | mk evs st =>
        rw [hs] at h1
        cases st with
        | ok =>
          unfold StepOK at h1
          simp only [reduceCtorEq, if_false] at h1
          obtain ⟨hR1, hF1⟩ := h1
          have h2 := ih w1 (evs.foldl judge1 j) hR1 (opAllowed_frame hF1 ha)
          simp only [runOpsBasic, hs]
          cases hr : runOpsBasic w1 self rest with
          | mk w2 r2 =>
            cases r2 with
            | mk evs2 st2 =>
              rw [hr] at h2
              unfold StepOK at h2 ⊢
              simp only [List.foldl_append]
              by_cases he : st2 = .err
              · simp only [he, if_true] at h2 ⊢
                obtain ⟨a, b, c, d, e⟩ := h2
                refine ⟨a, b.trans hF1.bad, c.trans hF1.inRound, ?_, e⟩
                rw [d, hF1.inRound, hF1.expect]
              · simp only [he, if_false] at h2 ⊢
                exact ⟨h2.1, Frame.trans hF1 h2.2⟩
        | err => simp only [runOpsBasic, hs]; exact h1
        | stop => simp only [runOpsBasic, hs]; exact h1

/-- what the inventory loop of destruct_object maintains: the same as one operation (`.err` = a hook raised an error) -/
def HooksOK (j : JState) (r : World × List Ev × Status) : Prop := StepOK r.1 j r

theorem sim_hookStep {j : JState} (ha : opAllowed j = true) (carrier : Nat) (acc : World × List Ev × Status)
    (h : HooksOK j acc) (i : Nat) : HooksOK j (hookStep carrier acc i) := by
  unfold hookStep
  by_cases hst : (acc.2.2 != .ok) = true
  · rw [if_pos hst]; exact h
  · rw [if_neg hst]
    have hok : acc.2.2 = .ok := by
      cases hs : acc.2.2 <;> simp_all
    have h' := h
    unfold HooksOK StepOK at h'
    rw [hok] at h'
    simp only [reduceCtorEq, if_false] at h'
    obtain ⟨hR, hF⟩ := h'
    split
    · exact h
    · have ha0 := opAllowed_frame hF ha
      have hRr : RP { acc.1 with restrict := some i } (acc.2.1.foldl judge1 j) :=
        ⟨⟨hR.1.hbs, hR.1.known, hR.1.nofn, hR.1.dead, hR.1.flag, hR.1.cur, hR.1.ok, hR.1.cap, hR.1.sub⟩, hR.2⟩
      have hs := sim_runOpsBasic i ((acc.1.hooks i).filter hookAllowed) { acc.1 with restrict := some i }
        (acc.2.1.foldl judge1 j) hRr ha0
      have hjh : judge1 (acc.2.1.foldl judge1 j) (.hook i carrier) = acc.2.1.foldl judge1 j := by
        simp [judge1, ha0]
      rcases hr : runOpsBasic { acc.1 with restrict := some i } i ((acc.1.hooks i).filter hookAllowed) with ⟨w1, e1, st⟩
      rw [hr] at hs
      have key : st ≠ .err → HooksOK j
          (if !w1.alive i then ({ w1 with restrict := none }, acc.2.1 ++ .hook i carrier :: e1 ++ [.hookGone i], Status.ok)
           else if (itemsOf w1 carrier).contains i then
             (destructLeaf { w1 with restrict := none } i, acc.2.1 ++ .hook i carrier :: e1 ++ [.hookEnd i], Status.ok)
           else ({ w1 with restrict := none }, acc.2.1 ++ .hook i carrier :: e1 ++ [.hookMoved i], Status.ok)) := by
        intro hne
        unfold StepOK at hs
        simp only [hne, if_false] at hs
        obtain ⟨hR1, hF1⟩ := hs
        have ha1 := opAllowed_frame hF1 ha0
        have hR1' : RP { w1 with restrict := none } (e1.foldl judge1 (acc.2.1.foldl judge1 j)) :=
          ⟨⟨hR1.1.hbs, hR1.1.known, hR1.1.nofn, hR1.1.dead, hR1.1.flag, hR1.1.cur, hR1.1.ok, hR1.1.cap, hR1.1.sub⟩, hR1.2⟩
        have hal := alive_eq hR1.1
        cases hat : w1.alive i with
        | false =>
          have hjt : (e1.foldl judge1 (acc.2.1.foldl judge1 j)).alive i = false := by rw [← hal, hat]
          simp only [Bool.not_false, if_true]
          unfold HooksOK StepOK
          simp only [reduceCtorEq, if_false, List.foldl_append, List.foldl_cons, List.foldl_nil, hjh]
          have hje : judge1 (e1.foldl judge1 (acc.2.1.foldl judge1 j)) (.hookGone i) = e1.foldl judge1 (acc.2.1.foldl judge1 j) := by
            simp [judge1, hjt]
          rw [hje]
          exact ⟨hR1', Frame.trans hF hF1⟩
        | true =>
          have hjt : (e1.foldl judge1 (acc.2.1.foldl judge1 j)).alive i = true := by rw [← hal, hat]
          simp only [Bool.not_true, Bool.false_eq_true, if_false]
          split
          · have hat' : ({ w1 with restrict := none } : World).alive i = true := hat
            obtain ⟨hR2, hF2⟩ := sim_destLeaf hR1' i hat'
            unfold HooksOK StepOK
            simp only [reduceCtorEq, if_false, List.foldl_append, List.foldl_cons, List.foldl_nil, hjh]
            have hje : judge1 (e1.foldl judge1 (acc.2.1.foldl judge1 j)) (.hookEnd i) =
                { jDisable (e1.foldl judge1 (acc.2.1.foldl judge1 j)) i with dead := i :: (e1.foldl judge1 (acc.2.1.foldl judge1 j)).dead } := by
              simp [judge1, ha1, hjt]
            rw [hje]
            exact ⟨hR2, Frame.trans hF (Frame.trans hF1 hF2)⟩
          · unfold HooksOK StepOK
            simp only [reduceCtorEq, if_false, List.foldl_append, List.foldl_cons, List.foldl_nil, hjh]
            have hje : judge1 (e1.foldl judge1 (acc.2.1.foldl judge1 j)) (.hookMoved i) = e1.foldl judge1 (acc.2.1.foldl judge1 j) := by
              simp [judge1, hjt]
            rw [hje]
            exact ⟨hR1', Frame.trans hF hF1⟩
      cases st with
      | err =>
        unfold StepOK at hs
        simp only [if_true] at hs
        obtain ⟨a, b, c, d, e⟩ := hs
        dsimp only
        unfold HooksOK StepOK
        simp only [if_true, List.foldl_append, List.foldl_cons, hjh]
        refine ⟨a, b.trans hF.bad, c.trans hF.inRound, ?_, e⟩
        rw [d, hF.inRound, hF.expect]
      | ok => exact key (by decide)
      | stop => exact key (by decide)

theorem sim_hooksFold {j : JState} (ha : opAllowed j = true) (carrier : Nat) : ∀ (items : List Nat) (acc : World × List Ev × Status),
    HooksOK j acc → HooksOK j (items.foldl (hookStep carrier) acc) := by
  intro items
  induction items with
  | nil => intro acc h; exact h
  | cons i r ih => intro acc h; exact ih _ (sim_hookStep ha carrier acc h i)

theorem sim_hooksPhase {w : World} {j : JState} (h : RP w j) (ha : opAllowed j = true) (t : Nat) :
    HooksOK j (hooksPhase w t) :=
  sim_hooksFold ha t _ (w, [], .ok) (stepOK_nil w j h)

/-- every operation, destruct with its inventory hooks (and an error raised by one of them) included -/
theorem sim_stepOp {w : World} {j : JState} (h : RP w j) (ha : opAllowed j = true) (self : Nat) (op : Op) :
    StepOK w j (stepOp w self op) := by
  cases op with
  | dest t =>
    have hal := alive_eq h.1
    by_cases hc : (!w.alive t || decide (t < 2)) = true
    · have hc' : (j.alive t && !decide (t < 2)) = false := by
        rw [← hal]; cases hx : w.alive t <;> cases hy : decide (t < 2) <;> simp_all
      have hst : stepOp w self (.dest t) = (w, [.destNone self t], .ok) := by
        simp only [stepOp]; rw [if_pos hc]
      rw [hst]
      exact stepOK_one (by decide) (by simp only [judge1]; rw [if_neg (by rw [hc']; decide)]) h (Frame.refl j)
    · by_cases hrs : restricted w t = true
      · have hst : stepOp w self (.dest t) = (w, [.errR], .err) := by
          simp only [stepOp]; rw [if_neg hc, if_pos hrs]
        rw [hst]
        unfold StepOK
        simp only [List.foldl, judge1_errR, if_true]
        exact sim_err h
      have ht2 : decide (t < 2) = false := by
        simp only [Bool.not_eq_true] at hc
        cases hy : decide (t < 2) <;> simp_all
      have hH := sim_hooksPhase h ha t
      simp only [stepOp]
      rw [if_neg hc, if_neg hrs, destructFull_ref]
      rcases hh : hooksPhase w t with ⟨w1, e1, st1⟩
      rw [hh] at hH
      dsimp only
      by_cases he : st1 = .err
      · subst he
        simp only [if_true]
        exact hH
      · rw [if_neg he]
        unfold HooksOK StepOK at hH
        simp only [he, if_false] at hH
        obtain ⟨hR1, hF1⟩ := hH
        have ha1 := opAllowed_frame hF1 ha
        have hal1 := alive_eq hR1.1
        have hne : ∀ b : Bool, ((if b = true then Status.ok else Status.stop) = Status.err) = False := by
          intro b; cases b <;> simp
        cases hat : w1.alive t with
        | true =>
          have hjt : (e1.foldl judge1 j).alive t = true := by rw [← hal1, hat]
          obtain ⟨hR2, hF2⟩ := sim_destLeaf hR1 t hat
          simp only [if_true]
          unfold StepOK
          simp only [hne, if_false, List.foldl_append, List.foldl_cons, List.foldl_nil]
          have hjd : judge1 (e1.foldl judge1 j) (.dest self t) =
              { jDisable (e1.foldl judge1 j) t with dead := t :: (e1.foldl judge1 j).dead } := by
            simp [judge1, ha1, hjt, ht2]
          rw [hjd]
          exact ⟨hR2, Frame.trans hF1 hF2⟩
        | false =>
          have hjt : (e1.foldl judge1 j).alive t = false := by rw [← hal1, hat]
          simp only [Bool.false_eq_true, if_false]
          unfold StepOK
          simp only [hne, if_false, List.foldl_append, List.foldl_cons, List.foldl_nil]
          have hjd : judge1 (e1.foldl judge1 j) (.destGone self t) = e1.foldl judge1 j := by
            simp [judge1, hjt]
          rw [hjd]
          exact ⟨hR1, hF1⟩
  | shb t n => exact sim_stepOpBasic h ha self _
  | q t => exact sim_stepOpBasic h ha self _
  | clone a b c => exact sim_stepOpBasic h ha self _
  | err => exact sim_stepOpBasic h ha self _
  | flag => exact sim_stepOpBasic h ha self _
  | hbs => exact sim_stepOpBasic h ha self _
  | take i => exact sim_stepOpBasic h ha self _
  | cerr => exact sim_stepOpBasic h ha self _
  | mv x => exact sim_stepOpBasic h ha self _
  | zshb n => exact sim_stepOpBasic h ha self _
  | reload t n => exact sim_stepOpBasic h ha self _
  | living => exact sim_stepOpBasic h ha self _
  | burn => exact sim_stepOpBasic h ha self _
  | rp => exact sim_stepOpBasic h ha self _

theorem stepOpBasic_zshb_ok (w : World) (self : Nat) (n : Int) : (stepOpBasic w self (.zshb n)).2.2 = .ok := by
  simp only [stepOpBasic]; split <;> rfl

/-- the rest of a script after the object destructed itself -/
theorem sim_runDead (self : Nat) : ∀ (ops : List Op) (w : World) (j : JState), RP w j → opAllowed j = true →
    StepOK w j (runDead w self ops) := by
  intro ops
  induction ops with
  | nil =>
    intro w j h _
    unfold runDead StepOK
    simp only [List.foldl, reduceCtorEq, if_false]
    exact ⟨h, Frame.refl j⟩
  | cons op rest ih =>
    intro w j h ha
    have hplain : StepOK w j (w, [], .stop) := by
      unfold StepOK
      simp only [List.foldl, reduceCtorEq, if_false]
      exact ⟨h, Frame.refl j⟩
    cases op with
    | zshb n =>
      have h1 := sim_stepOpBasic h ha self (.zshb n)
      have hok := stepOpBasic_zshb_ok w self n
      rcases hs : stepOpBasic w self (.zshb n) with ⟨w1, evs, st⟩
      rw [hs] at h1 hok
      simp only at hok
      subst hok
      unfold StepOK at h1
      simp only [reduceCtorEq, if_false] at h1
      obtain ⟨hR1, hF1⟩ := h1
      have h2 := ih w1 (evs.foldl judge1 j) hR1 (opAllowed_frame hF1 ha)
      simp only [runDead, hs]
      rcases hr : runDead w1 self rest with ⟨w2, evs2, st2⟩
      rw [hr] at h2
      unfold StepOK at h2 ⊢
      simp only [List.foldl_append]
      by_cases he : st2 = .err
      · simp only [he, if_true] at h2 ⊢
        obtain ⟨a, b, c, d, e⟩ := h2
        refine ⟨a, b.trans hF1.bad, c.trans hF1.inRound, ?_, e⟩
        rw [d, hF1.inRound, hF1.expect]
      · simp only [he, if_false] at h2 ⊢
        exact ⟨h2.1, Frame.trans hF1 h2.2⟩
    | err =>
      simp only [runDead]
      unfold StepOK
      simp only [List.foldl, judge1_err, if_true]
      exact sim_err h
    | _ => simp only [runDead]; exact hplain

theorem sim_runOps (self : Nat) : ∀ (ops : List Op) (w : World) (j : JState), RP w j → opAllowed j = true →
    StepOK w j (runOps w self ops) := by
  intro ops
  induction ops with
  | nil => intro w j h _; exact stepOK_nil w j h
  | cons op rest ih =>
    intro w j h ha
    have h1 := sim_stepOp h ha self op
    cases hs : stepOp w self op with
    | mk w1 r =>
      cases r with
      | mk evs st =>
        rw [hs] at h1
        cases st with
        | ok =>
          unfold StepOK at h1
          simp only [reduceCtorEq, if_false] at h1
          obtain ⟨hR1, hF1⟩ := h1
          have h2 := ih w1 (evs.foldl judge1 j) hR1 (opAllowed_frame hF1 ha)
          simp only [runOps, hs]
          cases hr : runOps w1 self rest with
          | mk w2 r2 =>
            cases r2 with
            | mk evs2 st2 =>
              rw [hr] at h2
              unfold StepOK at h2 ⊢
              simp only [List.foldl_append]
              by_cases he : st2 = .err
              · simp only [he, if_true] at h2 ⊢
                obtain ⟨a, b, c, d, e⟩ := h2
                refine ⟨a, b.trans hF1.bad, c.trans hF1.inRound, ?_, e⟩
                rw [d, hF1.inRound, hF1.expect]
              · simp only [he, if_false] at h2 ⊢
                exact ⟨h2.1, Frame.trans hF1 h2.2⟩
        | err => simp only [runOps, hs]; exact h1
        | stop =>
          unfold StepOK at h1
          simp only [reduceCtorEq, if_false] at h1
          obtain ⟨hR1, hF1⟩ := h1
          have h2 := sim_runDead self rest w1 (evs.foldl judge1 j) hR1 (opAllowed_frame hF1 ha)
          simp only [runOps, hs]
          rcases hr : runDead w1 self rest with ⟨w2, evs2, st2⟩
          rw [hr] at h2
          unfold StepOK at h2 ⊢
          simp only [List.foldl_append]
          by_cases he : st2 = .err
          · simp only [he, if_true] at h2 ⊢
            obtain ⟨a, b, c, d, e⟩ := h2
            refine ⟨a, b.trans hF1.bad, c.trans hF1.inRound, ?_, e⟩
            rw [d, hF1.inRound, hF1.expect]
          · simp only [he, if_false] at h2 ⊢
            exact ⟨h2.1, Frame.trans hF1 h2.2⟩

theorem advance_fire {j : JState} {x : Entry} {rest : List Entry} (hp : j.pend = x :: rest)
    (hf : (!j.nofn.contains x.ob && decide (wrap16 (x.ticks - 1) < 1)) = true) :
    advance j = { j with done := j.done ++ [{ x with ticks := x.interval }], pend := rest, cur := some x.ob,
                         expect := .beat x.ob } := by
  unfold advance; rw [hp]; simp only [advanceL, hf, if_true]

theorem advance_last {j : JState} {x : Entry} {rest : List Entry} (hp : j.pend = x :: rest)
    (hf : (!j.nofn.contains x.ob && decide (wrap16 (x.ticks - 1) < 1)) = false)
    (hl : (rest.isEmpty || j.trunc) = true) :
    advance j = { j with done := j.done ++ [{ x with ticks := wrap16 (x.ticks - 1) }], pend := rest,
                         expect := .endOfRound } := by
  unfold advance; rw [hp]; simp only [advanceL, hf, hl, if_true, Bool.false_eq_true, if_false]

theorem advance_skip {j : JState} {x : Entry} {rest : List Entry} (hp : j.pend = x :: rest)
    (hf : (!j.nofn.contains x.ob && decide (wrap16 (x.ticks - 1) < 1)) = false)
    (hl : (rest.isEmpty || j.trunc) = false) :
    advance j = advance { j with done := j.done ++ [{ x with ticks := wrap16 (x.ticks - 1) }], pend := rest } := by
  unfold advance; rw [hp]; simp only [advanceL, hf, hl, Bool.false_eq_true, if_false]

theorem advance_nil {j : JState} (hp : j.pend = []) : advance j = { j with expect := .endOfRound } := by
  unfold advance; rw [hp]; simp only [advanceL]

/-- the round is over and the oracle accepted everything -/
def Done (w' : World) (j' j : JState) : Prop :=
  R0 w' j' ∧ j'.bad = j.bad ∧ j'.inRound = false ∧ j'.expect = .idle

theorem done_end {w : World} {j : JState} (h0 : R0 w j) (he : j.expect = .endOfRound) :
    Done (finish w) (judge1 j .tickEnd) j := by
  have : judge1 j .tickEnd = endRound j := by simp [judge1, he]
  rw [this, finish_ref]
  refine ⟨⟨?_, h0.known, h0.nofn, h0.dead, h0.flag, rfl, h0.ok, h0.cap, h0.sub⟩, rfl, rfl, rfl⟩
  show w.hbs = _
  rw [h0.hbs]; simp [endRound]

theorem done_abort {w : World} {j : JState} (h0 : R0 w j) (he : j.expect = .abort) (hc : j.cur = none) :
    Done w (judge1 j .tickAbort) j := by
  have : judge1 j .tickAbort = endRound j := by simp [judge1, he]
  rw [this]
  refine ⟨⟨?_, h0.known, h0.nofn, h0.dead, h0.flag, ?_, h0.ok, h0.cap, h0.sub⟩, rfl, rfl, rfl⟩
  · rw [h0.hbs]; simp [endRound]
  · rw [h0.cur, hc]; rfl

theorem judge1_beat {j : JState} {o : Nat} (he : j.expect = .beat o) :
    judge1 j (.beat o) = { j with expect := .inBeat } := by
  simp [judge1, he]

theorem judge1_beatEnd_trunc {j : JState} {o : Nat} (he : j.expect = .inBeat) (ht : j.trunc = true) :
    judge1 j (.beatEnd o) = { j with expect := .endOfRound } := by
  simp [judge1, he, ht]

theorem judge1_beatEnd_adv {j : JState} {o : Nat} (he : j.expect = .inBeat) (ht : j.trunc = false) :
    judge1 j (.beatEnd o) = advance j := by
  simp [judge1, he, ht]

/-- the while loop of call_heart_beat against the oracle's `advance`: at the loop head heart_beat_index is the
    number of entries already served and num_hb_to_do - heart_beat_index the number still to serve -/
theorem sim_roundRef (sc : Scripts) : ∀ (fuel : Nat) (w : World) (j : JState),
    R0 w j → j.inRound = true → w.idx = (j.done.length : Int) →
    w.todo = (j.done.length : Int) + (j.pend.length : Int) → j.pend ≠ [] → j.pend.length ≤ fuel →
    Done (roundRef sc fuel w).1 ((roundRef sc fuel w).2.foldl judge1 (advance j)) j := by
  intro fuel
  induction fuel with
  | zero =>
    intro w j _ _ _ _ hne hle
    cases hp : j.pend with
    | nil => exact absurd hp hne
    | cons x r => rw [hp] at hle; simp at hle
  | succ fuel ih =>
    intro w j h0 hin hidx htodo hne hle
    cases hp : j.pend with
    | nil => exact absurd hp hne
    | cons x rest =>
      have hhbs : w.hbs = j.done ++ x :: (rest ++ j.late) := by rw [h0.hbs, hp]; simp
      have hn : w.idx.toNat = j.done.length := by omega
      have hneg : ¬ (w.idx < 0) := by omega
      have hget : w.hbs[w.idx.toNat]? = some x := by rw [hn, hhbs]; exact get_mid _ _ _
      have hlen : j.pend.length = rest.length + 1 := by rw [hp]; rfl
      unfold roundRef
      simp only [hneg, if_false, hget]
      cases hf : (!j.nofn.contains x.ob && decide (wrap16 (x.ticks - 1) < 1)) with
      | true =>
        have hfw : (!w.nofn.contains x.ob && decide (wrap16 (x.ticks - 1) < 1)) = true := by rw [h0.nofn]; exact hf
        simp only [hfw, if_true]
        -- the entry beats
        have hadv := advance_fire hp hf
        generalize hw1 : ({ w with hbs := w.hbs.set w.idx.toNat { x with ticks := x.interval }, cur := some x.ob, cg := if w.living.contains x.ob then some x.ob else none, ec := true, nb := fun o => if o = x.ob then w.nb o + 1 else w.nb o } : World) = w1
        have hset : w1.hbs = (j.done ++ [{ x with ticks := x.interval }]) ++ rest ++ j.late := by
          rw [← hw1]; show w.hbs.set w.idx.toNat _ = _
          rw [hn, hhbs, set_mid]; simp
        let j2 : JState := { j with done := j.done ++ [{ x with ticks := x.interval }], pend := rest, cur := some x.ob, expect := .inBeat }
        have hj2 : judge1 (advance j) (.beat x.ob) = j2 := by
          rw [hadv, judge1_beat rfl]
        have hjc : judge1 j2 (.ctx x.ob (w.living.contains x.ob) (if w.living.contains x.ob then some x.ob else none) true) = j2 := by
          simp [judge1, j2, ctxGiver]
        have hR2 : RP w1 j2 := by
          refine ⟨⟨hset, ?_, ?_, ?_, ?_, ?_, ?_, ?_, ?_⟩, ?_⟩
          · rw [← hw1]; exact h0.known
          · rw [← hw1]; exact h0.nofn
          · rw [← hw1]; exact h0.dead
          · rw [← hw1]; exact h0.flag
          · rw [← hw1]
          · rw [← hw1]; exact h0.ok
          · rw [hset]; have := h0.cap; rw [hhbs] at this; rw [← hw1]; simp at this ⊢; omega
          · rw [← hw1]; exact h0.sub
          · intro _
            constructor
            · show w1.idx + 1 = ((j.done ++ [{ x with ticks := x.interval }]).length : Int)
              rw [← hw1]; simp; omega
            · show w1.todo = ((j.done ++ [{ x with ticks := x.interval }]).length : Int) + (rest.length : Int)
              rw [← hw1]; simp; omega
        have hops := sim_runOps x.ob (sc x.ob (w.nb x.ob)) w1 j2 hR2 rfl
        cases hr : runOps w1 x.ob (sc x.ob (w.nb x.ob)) with
        | mk w2 r2 =>
          cases r2 with
          | mk evs st =>
            rw [hr] at hops
            unfold StepOK at hops
            cases st with
            | err =>
              -- error in the heart_beat: that object is switched off, the round is abandoned
              simp only [if_true] at hops
              obtain ⟨a, b, c, d, e⟩ := hops
              dsimp only
              simp only [List.foldl_cons, List.foldl_append, List.foldl_nil, hj2, hjc]
              have a' : R0 { errorEntry w2 with cg := none } (evs.foldl judge1 j2) :=
                ⟨a.hbs, a.known, a.nofn, a.dead, a.flag, a.cur, a.ok, a.cap, a.sub⟩
              have hd := done_abort a' (by rw [d]; simp [j2, hin]) e
              exact ⟨hd.1, hd.2.1.trans b, hd.2.2.1, hd.2.2.2⟩
            | _ =>
              simp only [reduceCtorEq, if_false] at hops
              obtain ⟨hR3, hF3⟩ := hops
              dsimp only
              generalize hj3 : evs.foldl judge1 j2 = j3 at hR3 hF3
              have hin3 : j3.inRound = true := by rw [hF3.inRound]; exact hin
              have hex3 : j3.expect = .inBeat := by rw [hF3.expect]
              obtain ⟨p1, p2⟩ := hR3.2 hin3
              have hR03 : R0 { w2 with cg := none, idx := w2.idx + 1 } j3 :=
                ⟨hR3.1.hbs, hR3.1.known, hR3.1.nofn, hR3.1.dead, hR3.1.flag, hR3.1.cur, hR3.1.ok, hR3.1.cap, hR3.1.sub⟩
              by_cases hfin : (decide (w2.idx + 1 = w2.todo) || w2.flag) = true
              · simp only [hfin, if_true]
                simp only [List.foldl_cons, List.foldl_append, List.foldl_nil, hj2, hjc, hj3]
                cases htr : j3.trunc with
                | true =>
                  rw [judge1_beatEnd_trunc hex3 htr]
                  have hd := done_end (w := { w2 with cg := none, idx := w2.idx + 1 }) (j := { j3 with expect := .endOfRound })
                    ⟨hR03.hbs, hR03.known, hR03.nofn, hR03.dead, hR03.flag, hR03.cur, hR03.ok, hR03.cap, hR03.sub⟩ rfl
                  exact ⟨hd.1, hd.2.1.trans hF3.bad, hd.2.2.1, hd.2.2.2⟩
                | false =>
                  rw [judge1_beatEnd_adv hex3 htr]
                  have hfl : w2.flag = false := by rw [hR3.1.flag]; exact htr
                  have hpe : j3.pend = [] := by
                    simp only [hfl, Bool.or_false, decide_eq_true_eq] at hfin
                    have : j3.pend.length = 0 := by omega
                    exact List.eq_nil_of_length_eq_zero this
                  rw [advance_nil hpe]
                  have hd := done_end (w := { w2 with cg := none, idx := w2.idx + 1 }) (j := { j3 with expect := .endOfRound })
                    ⟨hR03.hbs, hR03.known, hR03.nofn, hR03.dead, hR03.flag, hR03.cur, hR03.ok, hR03.cap, hR03.sub⟩ rfl
                  exact ⟨hd.1, hd.2.1.trans hF3.bad, hd.2.2.1, hd.2.2.2⟩
              · simp only [hfin, Bool.false_eq_true, if_false]
                simp only [Bool.not_eq_true, Bool.or_eq_false_iff, decide_eq_false_iff_not] at hfin
                have htr : j3.trunc = false := by rw [← hR3.1.flag]; exact hfin.2
                have hpne : j3.pend ≠ [] := by
                  intro hnil
                  have : j3.pend.length = 0 := by rw [hnil]; rfl
                  apply hfin.1; omega
                have hple : j3.pend.length ≤ fuel := by
                  have := hF3.pend
                  have h2 : j2.pend.length = rest.length := rfl
                  omega
                have hih := ih { w2 with cg := none, idx := w2.idx + 1 } j3 hR03 hin3 (by show w2.idx + 1 = _; omega)
                  (by show w2.todo = _; omega) hpne hple
                cases hrr : roundRef sc fuel { w2 with cg := none, idx := w2.idx + 1 } with
                | mk w4 evs' =>
                  rw [hrr] at hih
                  simp only [List.foldl_cons, List.foldl_append, hj2, hjc, hj3]
                  rw [judge1_beatEnd_adv hex3 htr]
                  exact ⟨hih.1, hih.2.1.trans hF3.bad, hih.2.2.1, hih.2.2.2⟩
      | false =>
        have hfw : (!w.nofn.contains x.ob && decide (wrap16 (x.ticks - 1) < 1)) = false := by rw [h0.nofn]; exact hf
        simp only [hfw, Bool.false_eq_true, if_false]
        -- the entry is served without beating
        let j1 : JState := { j with done := j.done ++ [{ x with ticks := wrap16 (x.ticks - 1) }], pend := rest }
        have hR1 : R0 { w with hbs := w.hbs.set w.idx.toNat { x with ticks := wrap16 (x.ticks - 1) }, idx := w.idx + 1 } j1 := by
          refine ⟨?_, h0.known, h0.nofn, h0.dead, h0.flag, h0.cur, h0.ok, ?_, h0.sub⟩
          · show w.hbs.set w.idx.toNat _ = (j.done ++ [{ x with ticks := wrap16 (x.ticks - 1) }]) ++ rest ++ j.late
            rw [hn, hhbs, set_mid]; simp
          · show (w.hbs.set w.idx.toNat _).length ≤ w.cap
            rw [List.length_set]; exact h0.cap
        by_cases hfin : (decide (w.idx + 1 = w.todo) || w.flag) = true
        · simp only [hfin, if_true]
          have hl : (rest.isEmpty || j.trunc) = true := by
            rw [← h0.flag]
            cases hfl : w.flag with
            | true => simp
            | false =>
              simp only [hfl, Bool.or_false, decide_eq_true_eq] at hfin
              have : rest.length = 0 := by omega
              simp [List.eq_nil_of_length_eq_zero this]
          rw [advance_last hp hf hl]
          simp only [List.foldl_cons, List.foldl_nil]
          have hd := done_end (w := { w with hbs := w.hbs.set w.idx.toNat { x with ticks := wrap16 (x.ticks - 1) }, idx := w.idx + 1 })
            (j := { j1 with expect := .endOfRound })
            ⟨hR1.hbs, hR1.known, hR1.nofn, hR1.dead, hR1.flag, hR1.cur, hR1.ok, hR1.cap, hR1.sub⟩ rfl
          exact ⟨hd.1, hd.2.1, hd.2.2.1, hd.2.2.2⟩
        · simp only [hfin, Bool.false_eq_true, if_false]
          simp only [Bool.not_eq_true, Bool.or_eq_false_iff, decide_eq_false_iff_not] at hfin
          have hl : (rest.isEmpty || j.trunc) = false := by
            rw [← h0.flag, hfin.2]
            cases rest with
            | nil => exfalso; apply hfin.1; simp at hlen; omega
            | cons y ys => rfl
          rw [advance_skip hp hf hl]
          have hpne : j1.pend ≠ [] := by
            intro hnil
            have h1 : rest = [] := hnil
            apply hfin.1; rw [h1] at hlen; simp at hlen; omega
          have hih := ih _ j1 hR1 hin (by show w.idx + 1 = ((j.done ++ [_]).length : Int); simp; omega)
            (by show w.todo = ((j.done ++ [_]).length : Int) + (rest.length : Int); simp; omega) hpne
            (by show rest.length ≤ fuel; omega)
          exact ⟨hih.1, hih.2.1, hih.2.2.1, hih.2.2.2⟩

theorem sim_round (sc : Scripts) (fuel : Nat) (w : World) (j : JState)
    (h0 : R0 w j) (hin : j.inRound = true) (hidx : w.idx = (j.done.length : Int))
    (htodo : w.todo = (j.done.length : Int) + (j.pend.length : Int)) (hne : j.pend ≠ []) (hle : j.pend.length ≤ fuel) :
    Done (round sc fuel w).1 ((round sc fuel w).2.foldl judge1 (advance j)) j := by
  rw [round_eq_ref]; exact sim_roundRef sc fuel w j h0 hin hidx htodo hne hle

/-- invariant between top-level commands -/
def Idle (w : World) (j : JState) : Prop :=
  R0 w j ∧ j.inRound = false ∧ j.expect = .idle ∧ j.bad = []

theorem idle_init (hk : Nat → List Op) : Idle { hooks := hk } {} :=
  ⟨⟨rfl, rfl, rfl, rfl, rfl, rfl, rfl, Nat.le_refl _, by intro x hx; cases hx⟩, rfl, rfl, rfl⟩

/-- call_heart_beat: the round -/
theorem sim_tickRound (sc : Scripts) {w : World} {j : JState} (h : Idle w j) :
    Idle (tickRound sc w).1 ((tickRound sc w).2.foldl judge1 j) := by
  obtain ⟨h0, hin, hex, hbad⟩ := h
  let j0 : JState := { j with done := [], pend := j.done ++ j.pend ++ j.late, late := [], inRound := true, trunc := false }
  have hjb : judge1 j .tickBegin = advance j0 := by simp [judge1, hex, j0]
  rw [tick_eq_ref]
  unfold tickRef
  cases hon : hbOn w.tflags with
  | false =>
    -- timer_flags without TIMER_FLAG_HEARTBEAT: no round, nobody beats, the list is left alone
    simp only [Bool.false_eq_true, if_false, List.foldl_cons, List.foldl_nil]
    have hjo : judge1 j .tickOff = { j with expect := .endOfRound, trunc := false } := by simp [judge1, hex]
    have hje : judge1 { j with expect := .endOfRound, trunc := false } .tickEnd =
        endRound { j with expect := .endOfRound, trunc := false } := by
      simp [judge1]
    rw [hjo, hje]
    refine ⟨⟨?_, h0.known, h0.nofn, h0.dead, rfl, rfl, h0.ok, h0.cap, h0.sub⟩, rfl, rfl, hbad⟩
    show w.hbs = _
    rw [h0.hbs]; simp [endRound]
  | true =>
  simp only [if_true]
  by_cases hpos : ((w.hbs.length : Int) > 0)
  · simp only [hpos, if_true]
    have hR : R0 { w with flag := false, idx := 0, todo := (w.hbs.length : Int) } j0 :=
      ⟨by show w.hbs = [] ++ (j.done ++ j.pend ++ j.late) ++ []; rw [h0.hbs]; simp,
       h0.known, h0.nofn, h0.dead, rfl, h0.cur, h0.ok, h0.cap, h0.sub⟩
    have hne : j0.pend ≠ [] := by
      intro hnil
      have : w.hbs = [] := by rw [h0.hbs]; exact hnil
      rw [this] at hpos; simp at hpos
    have hd := sim_round sc w.hbs.length { w with flag := false, idx := 0, todo := (w.hbs.length : Int) } j0 hR rfl
      (by show (0 : Int) = (([] : List Entry).length : Int); simp)
      (by show (w.hbs.length : Int) = (([] : List Entry).length : Int) + ((j.done ++ j.pend ++ j.late).length : Int)
          rw [h0.hbs]; simp)
      hne (by show (j.done ++ j.pend ++ j.late).length ≤ w.hbs.length; rw [h0.hbs]; exact Nat.le_refl _)
    cases hr : round sc w.hbs.length { w with flag := false, idx := 0, todo := (w.hbs.length : Int) } with
    | mk w' evs =>
      rw [hr] at hd
      dsimp only
      simp only [List.foldl_cons, hjb]
      exact ⟨hd.1, hd.2.2.1, hd.2.2.2, hd.2.1.trans hbad⟩
  · simp only [hpos, if_false]
    have hnil : w.hbs = [] := by
      cases hh : w.hbs with
      | nil => rfl
      | cons a b => rw [hh] at hpos; simp at hpos
    have hp0 : j0.pend = [] := by show j.done ++ j.pend ++ j.late = []; rw [← h0.hbs]; exact hnil
    simp only [List.foldl_cons, List.foldl_nil, hjb, advance_nil hp0]
    have hje : judge1 { j0 with expect := .endOfRound } .tickEnd = endRound { j0 with expect := .endOfRound } := by
      simp [judge1]
    rw [hje]
    refine ⟨⟨?_, h0.known, h0.nofn, h0.dead, rfl, rfl, h0.ok, h0.cap, h0.sub⟩, rfl, rfl, hbad⟩
    show w.hbs = _
    rw [h0.hbs]; simp [endRound, j0]

theorem sim_rpStep {j0 : JState} (acc : World × List Ev) (h : Idle acc.1 (acc.2.foldl judge1 j0)) (o : Nat) :
    Idle (rpStep acc o).1 ((rpStep acc o).2.foldl judge1 j0) := by
  unfold rpStep
  split
  · obtain ⟨h0, hin, hex, hbad⟩ := h
    simp only [List.foldl_append, List.foldl_cons, List.foldl_nil]
    have hj : judge1 (acc.2.foldl judge1 j0) (.rpDone o) =
        { acc.2.foldl judge1 j0 with nofn := o :: (acc.2.foldl judge1 j0).nofn } := by
      simp [judge1, hex]
    rw [hj]
    refine ⟨⟨h0.hbs, h0.known, ?_, h0.dead, h0.flag, h0.cur, h0.ok, h0.cap, h0.sub⟩, hin, hex, hbad⟩
    show o :: acc.1.nofn = o :: (acc.2.foldl judge1 j0).nofn
    rw [h0.nofn]
  · exact h

theorem sim_rpFold {j0 : JState} : ∀ (l : List Nat) (acc : World × List Ev), Idle acc.1 (acc.2.foldl judge1 j0) →
    Idle (l.foldl rpStep acc).1 ((l.foldl rpStep acc).2.foldl judge1 j0) := by
  intro l
  induction l with
  | nil => intro acc h; exact h
  | cons o r ih => intro acc h; exact ih _ (sim_rpStep acc h o)

theorem sim_applyRp {w : World} {j : JState} (h : Idle w j) : Idle (applyRp w).1 ((applyRp w).2.foldl judge1 j) := by
  unfold applyRp
  apply sim_rpFold
  obtain ⟨h0, hin, hex, hbad⟩ := h
  exact ⟨⟨h0.hbs, h0.known, h0.nofn, h0.dead, h0.flag, h0.cur, h0.ok, h0.cap, h0.sub⟩, hin, hex, hbad⟩

/-! command_giver after a pass of the loop -/

theorem roundRef_cg (sc : Scripts) : ∀ (fuel : Nat) (w : World), w.cg = none → (roundRef sc fuel w).1.cg = none := by
  intro fuel
  induction fuel with
  | zero => intro w h; exact h
  | succ f ih =>
    intro w h
    unfold roundRef
    by_cases hneg : w.idx < 0
    · rw [if_pos hneg]; exact h
    · rw [if_neg hneg]
      cases hget : w.hbs[w.idx.toNat]? with
      | none => exact h
      | some hb =>
        dsimp only
        by_cases hf : (!w.nofn.contains hb.ob && decide (wrap16 (hb.ticks - 1) < 1)) = true
        · rw [if_pos hf]
          rcases hr : runOps _ hb.ob (sc hb.ob (w.nb hb.ob)) with ⟨w2, evs, st⟩
          cases st with
          | err => rfl
          | ok =>
            dsimp only
            split
            · rw [finish_ref]
            · exact ih _ rfl
          | stop =>
            dsimp only
            split
            · rw [finish_ref]
            · exact ih _ rfl
        · rw [if_neg hf]
          split
          · rw [finish_ref]; exact h
          · exact ih _ h

theorem tickRound_cg (sc : Scripts) (w : World) (h : w.cg = none) : (tickRound sc w).1.cg = none := by
  rw [tick_eq_ref]
  unfold tickRef
  split
  · split
    · rw [round_eq_ref]
      exact roundRef_cg sc _ _ h
    · exact h
  · exact h

theorem coDispatch_cg (r : World × List Ev) : (coDispatch r).1.cg = r.1.cg := by
  unfold coDispatch
  split <;> rfl

theorem tickCore_cg (sc : Scripts) (w : World) (h : w.cg = none) : (tickCore sc w).1.cg = none := by
  unfold tickCore
  split
  · exact tickRound_cg sc w h
  · rw [coDispatch_cg]; exact tickRound_cg sc w h

/-- one call_out callback: ordinary code between rounds; an uncaught error in it goes through error_handler, which finds
    no current_heart_beat (`Idle`: the oracle's `cur` plays no part, nobody is switched off) -/
theorem sim_coStep {j0 : JState} (acc : World × List Ev) (h : Idle acc.1 (acc.2.foldl judge1 j0)) (c : Nat × List Op) :
    Idle (coStep acc c).1 ((coStep acc c).2.foldl judge1 j0) := by
  unfold coStep
  split
  · exact h
  · obtain ⟨h0, hin, hex, hbad⟩ := h
    have hRP : RP acc.1 (acc.2.foldl judge1 j0) := ⟨h0, by intro hr; rw [hin] at hr; cases hr⟩
    have hops := sim_runOps c.1 c.2 acc.1 (acc.2.foldl judge1 j0) hRP (by unfold opAllowed; rw [hex]; rfl)
    rcases hr : runOps acc.1 c.1 c.2 with ⟨w2, evs, st⟩
    rw [hr] at hops
    unfold StepOK at hops
    have hjb : judge1 (acc.2.foldl judge1 j0) (.coBegin c.1) = acc.2.foldl judge1 j0 := rfl
    cases st with
    | err =>
      simp only [if_true] at hops
      obtain ⟨a, b, c', d, e⟩ := hops
      dsimp only
      simp only [List.foldl_append, List.foldl_cons, hjb]
      refine ⟨a, c'.trans hin, ?_, b.trans hbad⟩
      rw [d, hin]; simp [hex]
    | ok =>
      simp only [reduceCtorEq, if_false] at hops
      obtain ⟨hR3, hF3⟩ := hops
      dsimp only
      simp only [List.foldl_append, List.foldl_cons, List.foldl_nil, hjb]
      have hje : judge1 (evs.foldl judge1 (acc.2.foldl judge1 j0)) (.coEnd c.1) = evs.foldl judge1 (acc.2.foldl judge1 j0) := rfl
      rw [hje]
      exact ⟨hR3.1, hF3.inRound.trans hin, hF3.expect.trans hex, hF3.bad.trans hbad⟩
    | stop =>
      simp only [reduceCtorEq, if_false] at hops
      obtain ⟨hR3, hF3⟩ := hops
      dsimp only
      simp only [List.foldl_append, List.foldl_cons, List.foldl_nil, hjb]
      have hje : judge1 (evs.foldl judge1 (acc.2.foldl judge1 j0)) (.coEnd c.1) = evs.foldl judge1 (acc.2.foldl judge1 j0) := rfl
      rw [hje]
      exact ⟨hR3.1, hF3.inRound.trans hin, hF3.expect.trans hex, hF3.bad.trans hbad⟩

theorem sim_coLoop {j0 : JState} : ∀ (fuel : Nat) (acc : World × List Ev), Idle acc.1 (acc.2.foldl judge1 j0) →
    Idle (coLoop fuel acc).1 ((coLoop fuel acc).2.foldl judge1 j0) := by
  intro fuel
  induction fuel with
  | zero => intro acc h; exact h
  | succ f ih =>
    intro acc h
    unfold coLoop
    cases hco : acc.1.co with
    | nil => exact h
    | cons c rest =>
      dsimp only
      apply ih
      apply sim_coStep
      obtain ⟨h0, hin, hex, hbad⟩ := h
      exact ⟨⟨h0.hbs, h0.known, h0.nofn, h0.dead, h0.flag, h0.cur, h0.ok, h0.cap, h0.sub⟩, hin, hex, hbad⟩

theorem sim_coDispatch {j : JState} (r : World × List Ev) (h : Idle r.1 (r.2.foldl judge1 j)) :
    Idle (coDispatch r).1 ((coDispatch r).2.foldl judge1 j) := by
  unfold coDispatch
  split
  · have h1 := sim_coLoop (j0 := r.2.foldl judge1 j) r.1.co.length (r.1, []) h
    dsimp only
    rw [List.foldl_append]
    obtain ⟨a, hin, hex, hbad⟩ := h1
    exact ⟨⟨a.hbs, a.known, a.nofn, a.dead, a.flag, a.cur, a.ok, a.cap, a.sub⟩, hin, hex, hbad⟩
  · exact h

/-- call_heart_beat: the round and the call_out dispatch behind it -/
theorem sim_tickCore (sc : Scripts) {w : World} {j : JState} (h : Idle w j) :
    Idle (tickCore sc w).1 ((tickCore sc w).2.foldl judge1 j) := by
  have h1 := sim_tickRound sc h
  unfold tickCore
  split
  · exact h1
  · exact sim_coDispatch _ h1

theorem rpStep_cg (acc : World × List Ev) (o : Nat) : (rpStep acc o).1.cg = acc.1.cg := by
  unfold rpStep; split <;> rfl

theorem applyRp_cg (w : World) : (applyRp w).1.cg = w.cg := by
  unfold applyRp
  have : ∀ (l : List Nat) (acc : World × List Ev), (l.foldl rpStep acc).1.cg = acc.1.cg := by
    intro l
    induction l with
    | nil => intro acc; rfl
    | cons o r ih => intro acc; rw [List.foldl_cons, ih, rpStep_cg]
  exact this _ _

/-- **no heart_beat object stays behind as command_giver**: after a pass of the backend loop command_giver is 0, whether
    the round completed, was truncated, abandoned by an error, or never started -/
theorem morePasses_cg (sc : Scripts) : ∀ (fuel : Nat) (w : World), w.cg = none → (morePasses sc fuel w).1.cg = none := by
  intro fuel
  induction fuel with
  | zero =>
    intro w h
    unfold morePasses
    dsimp only
    split
    · exact (applyRp_cg w).trans h
    · exact (applyRp_cg w).trans h
  | succ f ih =>
    intro w h
    have c1 : (applyRp w).1.cg = none := (applyRp_cg w).trans h
    have c2 := tickCore_cg sc _ c1
    unfold morePasses
    dsimp only
    split
    · split
      · exact ih _ c2
      · exact c2
    · exact c1

theorem sim_morePasses (sc : Scripts) : ∀ (fuel : Nat) (w : World) (j : JState), Idle w j →
    Idle (morePasses sc fuel w).1 ((morePasses sc fuel w).2.foldl judge1 j) := by
  intro fuel
  induction fuel with
  | zero =>
    intro w j h
    have i1 := sim_applyRp h
    unfold morePasses
    dsimp only
    split
    · obtain ⟨h0, hin, hex, hbad⟩ := i1
      simp only [List.foldl_append, List.foldl_cons, List.foldl_nil]
      have hj : judge1 ((applyRp w).2.foldl judge1 j) .passLimit = { (applyRp w).2.foldl judge1 j with trunc := false } := by
        simp [judge1, hex]
      rw [hj]
      exact ⟨⟨h0.hbs, h0.known, h0.nofn, h0.dead, rfl, h0.cur, h0.ok, h0.cap, h0.sub⟩, hin, hex, hbad⟩
    · exact i1
  | succ f ih =>
    intro w j h
    have i1 := sim_applyRp h
    have i2 := sim_tickCore sc i1
    unfold morePasses
    dsimp only
    split
    · split
      · have i3 := ih _ _ i2
        simp only [List.foldl_append]
        exact i3
      · simp only [List.foldl_append]
        exact i2
    · exact i1

theorem tick_cg_none (sc : Scripts) (w : World) : (tick sc w).1.cg = none := by
  have c0 := tickCore_cg sc { w with cg := none, tflags := 0 } rfl
  have c1 : (applyRp { (tickCore sc { w with cg := none, tflags := 0 }).1 with tflags := w.tflags }).1.cg = none :=
    (applyRp_cg _).trans c0
  have c2 := tickCore_cg sc _ c1
  unfold tick
  dsimp only
  split
  · exact morePasses_cg sc _ _ c2
  · exact c2

/-- one `tick` command: backend() entered (start-up call), pending program replacements, call_heart_beat, and the further
    passes after an error -/
theorem sim_tick (sc : Scripts) {w : World} {j : JState} (h : Idle w j) :
    Idle (tick sc w).1 ((tick sc w).2.foldl judge1 j) := by
  have hcg := tick_cg_none sc w
  have hs : Idle { w with cg := none, tflags := 0 } j := by
    obtain ⟨h0, hin, hex, hbad⟩ := h
    exact ⟨⟨h0.hbs, h0.known, h0.nofn, h0.dead, h0.flag, h0.cur, h0.ok, h0.cap, h0.sub⟩, hin, hex, hbad⟩
  have i0 := sim_tickCore sc hs
  have i0' : Idle { (tickCore sc { w with cg := none, tflags := 0 }).1 with tflags := w.tflags }
      ((tickCore sc { w with cg := none, tflags := 0 }).2.foldl judge1 j) := by
    obtain ⟨h0', hin, hex, hbad⟩ := i0
    exact ⟨⟨h0'.hbs, h0'.known, h0'.nofn, h0'.dead, h0'.flag, h0'.cur, h0'.ok, h0'.cap, h0'.sub⟩, hin, hex, hbad⟩
  have i1 := sim_applyRp i0'
  have i2 := sim_tickCore sc i1
  unfold tick at hcg ⊢
  dsimp only at hcg ⊢
  simp only [List.foldl_append, List.foldl_cons, List.foldl_nil]
  rw [hcg]
  show Idle _ (List.foldl judge1 _ _)
  split
  · exact sim_morePasses sc _ _ _ i2
  · exact i2

/-- one top-level command -/
theorem sim_stepCmd (sc : Scripts) {w : World} {j : JState} (h : Idle w j) (c : Cmd) :
    Idle (stepCmd sc w c).1 ((stepCmd sc w c).2.foldl judge1 j) := by
  have hok : w.crashed = false := h.1.ok
  cases c with
  | tick =>
    simp only [stepCmd, hok, Bool.false_eq_true, if_false]
    exact sim_tick sc h
  | cotick cbs =>
    simp only [stepCmd, hok, Bool.false_eq_true, if_false]
    have hs : Idle (coWorld w cbs) j := by
      obtain ⟨h0, hin, hex, hbad⟩ := h
      exact ⟨⟨h0.hbs, h0.known, h0.nofn, h0.dead, h0.flag, h0.cur, h0.ok, h0.cap, h0.sub⟩, hin, hex, hbad⟩
    have ht := sim_tick sc hs
    revert ht
    generalize tick sc (coWorld w cbs) = r
    intro ht
    obtain ⟨a, hin, hex, hbad⟩ := ht
    exact ⟨⟨a.hbs, a.known, a.nofn, a.dead, a.flag, a.cur, a.ok, a.cap, a.sub⟩, hin, hex, hbad⟩
  | tflags n =>
    obtain ⟨h0, hin, hex, hbad⟩ := h
    simp only [stepCmd, hok, Bool.false_eq_true, if_false, List.foldl_cons, List.foldl_nil]
    have : judge1 j (.tflags (n : Int)) = j := rfl
    rw [this]
    exact ⟨⟨h0.hbs, h0.known, h0.nofn, h0.dead, h0.flag, h0.cur, rfl, h0.cap, h0.sub⟩, hin, hex, hbad⟩
  | op self op =>
    obtain ⟨h0, hin, hex, hbad⟩ := h
    simp only [stepCmd, hok, Bool.false_eq_true, if_false]
    cases hk : w.known.contains self with
    | false =>
      have hjk : j.known.contains self = false := by rw [← h0.known, hk]
      simp only [Bool.not_false, if_true, List.foldl_cons, List.foldl_nil]
      have : judge1 j (.topNoObj self) = j := by simp only [judge1, hjk, Bool.false_eq_true, if_false]
      rw [this]; exact ⟨h0, hin, hex, hbad⟩
    | true =>
      simp only [Bool.not_true, Bool.false_eq_true, if_false]
      cases hd : w.dead.contains self with
      | true =>
        have hjd : j.dead.contains self = true := by rw [← h0.dead, hd]
        simp only [if_true, List.foldl_cons, List.foldl_nil]
        have : judge1 j (.topDead self) = j := by simp only [judge1, hjd, if_true]
        rw [this]; exact ⟨h0, hin, hex, hbad⟩
      | false =>
        simp only [Bool.false_eq_true, if_false]
        have hRP : RP w j := ⟨h0, by intro hr; rw [hin] at hr; cases hr⟩
        have hops := sim_runOps self [op] w j hRP (by unfold opAllowed; rw [hex]; rfl)
        cases hr : runOps w self [op] with
        | mk w2 r2 =>
          cases r2 with
          | mk evs st =>
            rw [hr] at hops
            unfold StepOK at hops
            cases st with
            | err =>
              simp only [if_true] at hops
              obtain ⟨a, b, c, d, e⟩ := hops
              dsimp only
              simp only [List.foldl_append, List.foldl_cons, List.foldl_nil]
              have : judge1 (evs.foldl judge1 j) (.topErr self) = evs.foldl judge1 j := rfl
              rw [this]
              refine ⟨a, c.trans hin, ?_, b.trans hbad⟩
              rw [d, hin]; simp [hex]
            | _ =>
              simp only [reduceCtorEq, if_false] at hops
              obtain ⟨hR3, hF3⟩ := hops
              dsimp only
              exact ⟨hR3.1, hF3.inRound.trans hin, hF3.expect.trans hex, hF3.bad.trans hbad⟩

theorem sim_runCmds (sc : Scripts) : ∀ (cs : List Cmd) (w : World) (j : JState), Idle w j →
    Idle (runCmds sc w cs).1 ((runCmds sc w cs).2.foldl judge1 j) := by
  intro cs
  induction cs with
  | nil => intro w j h; exact h
  | cons c cs ih =>
    intro w j h
    have h1 := sim_stepCmd sc h c
    cases hs : stepCmd sc w c with
    | mk w1 evs =>
      rw [hs] at h1
      have h2 := ih w1 (evs.foldl judge1 j) h1
      cases hr : runCmds sc w1 cs with
      | mk w2 evs2 =>
        rw [hr] at h2
        simp only [runCmds, hs, hr, List.foldl_append]
        exact h2

end NV.C11
