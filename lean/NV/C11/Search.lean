/-
C11 — the search loop of set_heart_beat (`index = num_hb_objs; while (index--) if (heart_beats[index].ob == ob) break;
if (index < 0) return 0;`), run on the list with the start value, the loop condition and the not-found test regenerated
from the source (`NV.Gen.C11.searchStart / searchNext / searchMiss`).

The C loop scans from the back and stops at the LAST entry of the object; the model (`idxOf`) scans from the front.
`searchBack_eq_idxOf`: on a list whose entries are unique per object (the invariant `hbs_is_service_order` / `JI.nodup`)
both give the same index, and `searchBack_none_iff`: the loop reports "not on the list" exactly when the object has
no entry.  So the direction of the scan is not observable.
-/
import NV.C11.Bridge

namespace NV.C11

/-- the loop: `i` is the value of `index` before the loop condition is evaluated -/
def searchLoop (ob : Nat) (l : List Entry) : Nat → Int → Int
  | 0, i => i
  | fuel + 1, i =>
    if (NV.Gen.C11.searchNext i).2 then
      match l[(NV.Gen.C11.searchNext i).1.toNat]? with
      | some e => if e.ob = ob then (NV.Gen.C11.searchNext i).1 else searchLoop ob l fuel (NV.Gen.C11.searchNext i).1
      | none => (NV.Gen.C11.searchNext i).1
    else (NV.Gen.C11.searchNext i).1

/-- the removal / retune branches' search: `none` = `index < 0` after the loop -/
def searchBack (ob : Nat) (l : List Entry) : Option Nat :=
  if NV.Gen.C11.searchMiss (searchLoop ob l (l.length + 1) (NV.Gen.C11.searchStart (l.length : Int))) then none
  else some (searchLoop ob l (l.length + 1) (NV.Gen.C11.searchStart (l.length : Int))).toNat

/-- index of the last entry of `ob` among the first `k` entries, -1 if there is none -/
def lastBelow (ob : Nat) (l : List Entry) : Nat → Int
  | 0 => -1
  | k + 1 =>
    match l[k]? with
    | some e => if e.ob = ob then (k : Int) else lastBelow ob l k
    | none => (k : Int)

theorem searchLoop_eq (ob : Nat) (l : List Entry) : ∀ (k fuel : Nat), k ≤ l.length → k + 1 ≤ fuel →
    searchLoop ob l fuel (k : Int) = lastBelow ob l k := by
  intro k
  induction k with
  | zero =>
    intro fuel _ hf
    cases fuel with
    | zero => omega
    | succ f =>
      unfold searchLoop
      simp only [(gen_search_eq 0 _).2.1]
      rfl
  | succ k ih =>
    intro fuel hk hf
    cases fuel with
    | zero => omega
    | succ f =>
      unfold searchLoop lastBelow
      simp only [(gen_search_eq 0 _).2.1]
      have h1 : (((k + 1 : Nat) : Int) - 1) = (k : Int) := by omega
      have h2 : ¬ (((k + 1 : Nat) : Int) = 0) := by omega
      have h3 : (k : Int).toNat = k := by omega
      rw [h1, h3]
      simp only [ne_eq, h2, not_false_eq_true, decide_true, if_true]
      have hlt : k < l.length := by omega
      rw [List.getElem?_eq_getElem hlt]
      simp only
      split
      · rfl
      · exact ih f (by omega) (by omega)

theorem idxOf_get {x : Nat} : ∀ {l : List Entry} {i : Nat}, idxOf x l = some i → ∃ e, l[i]? = some e ∧ e.ob = x := by
  intro l
  induction l with
  | nil => intro i h; cases h
  | cons a r ih =>
    intro i h
    by_cases ha : a.ob = x
    · simp [idxOf, ha] at h
      subst h
      exact ⟨a, rfl, ha⟩
    · simp only [idxOf, ha, if_false] at h
      cases hr : idxOf x r with
      | none => rw [hr] at h; cases h
      | some i' =>
        rw [hr] at h
        simp at h
        subst h
        obtain ⟨e, he, hx⟩ := ih hr
        exact ⟨e, by simpa using he, hx⟩

theorem not_has_get {x : Nat} {l : List Entry} (h : hasOb x l = false) : ∀ (j : Nat) (e : Entry), l[j]? = some e → e.ob ≠ x := by
  intro j e hj hx
  have hm : e ∈ l := List.mem_of_getElem? hj
  have : hasOb x l = true := by
    unfold hasOb
    rw [List.any_eq_true]
    exact ⟨e, hm, by simp [hx]⟩
  rw [h] at this
  cases this

/-- entries unique per object: the entry of `x` is at one index only -/
theorem idxOf_unique {x : Nat} : ∀ {l : List Entry} {i j : Nat} {e : Entry}, (l.map (·.ob)).Nodup → idxOf x l = some i →
    l[j]? = some e → e.ob = x → j = i := by
  intro l
  induction l with
  | nil => intro i j e _ h; cases h
  | cons a r ih =>
    intro i j e hnd h hj hx
    have hnd' : a.ob ∉ r.map (·.ob) ∧ (r.map (·.ob)).Nodup := by simpa using hnd
    by_cases ha : a.ob = x
    · simp [idxOf, ha] at h
      subst h
      cases j with
      | zero => rfl
      | succ j' =>
        exfalso
        have hj' : r[j']? = some e := by simpa using hj
        have hm : e ∈ r := List.mem_of_getElem? hj'
        apply hnd'.1
        rw [ha, ← hx]
        exact List.mem_map.mpr ⟨e, hm, rfl⟩
    · simp only [idxOf, ha, if_false] at h
      cases hr : idxOf x r with
      | none => rw [hr] at h; cases h
      | some i' =>
        rw [hr] at h
        simp at h
        subst h
        cases j with
        | zero =>
          exfalso
          have : a = e := by simpa using hj
          subst this
          exact ha hx
        | succ j' =>
          have hj' : r[j']? = some e := by simpa using hj
          have := ih hnd'.2 hr hj' hx
          omega

theorem lastBelow_none (ob : Nat) (l : List Entry) (h : ∀ (j : Nat) (e : Entry), l[j]? = some e → e.ob ≠ ob) :
    ∀ k, k ≤ l.length → lastBelow ob l k = -1 := by
  intro k
  induction k with
  | zero => intro _; rfl
  | succ k ih =>
    intro hk
    unfold lastBelow
    have hlt : k < l.length := by omega
    rw [List.getElem?_eq_getElem hlt]
    simp only
    have hne := h k l[k] (List.getElem?_eq_getElem hlt)
    rw [if_neg hne]
    exact ih (by omega)

theorem lastBelow_found (ob : Nat) (l : List Entry) (i : Nat) (e : Entry) (hi : l[i]? = some e) (he : e.ob = ob)
    (h : ∀ (j : Nat) (e' : Entry), l[j]? = some e' → e'.ob = ob → j = i) :
    ∀ d, i + 1 + d ≤ l.length → lastBelow ob l (i + 1 + d) = (i : Int) := by
  intro d
  induction d with
  | zero =>
    intro _
    show lastBelow ob l (i + 1) = (i : Int)
    unfold lastBelow
    rw [hi]
    simp only
    rw [if_pos he]
  | succ d ih =>
    intro hk
    show lastBelow ob l ((i + 1 + d) + 1) = (i : Int)
    unfold lastBelow
    have hlt : i + 1 + d < l.length := by omega
    rw [List.getElem?_eq_getElem hlt]
    simp only
    have hne : ¬ (l[i + 1 + d].ob = ob) := by
      intro hx
      have := h (i + 1 + d) l[i + 1 + d] (List.getElem?_eq_getElem hlt) hx
      omega
    rw [if_neg hne]
    exact ih (by omega)

theorem searchBack_unfold (ob : Nat) (l : List Entry) :
    searchBack ob l = if lastBelow ob l l.length < 0 then none else some (lastBelow ob l l.length).toNat := by
  unfold searchBack
  rw [(gen_search_eq (l.length : Int) 0).1, searchLoop_eq ob l l.length (l.length + 1) (Nat.le_refl _) (Nat.le_refl _),
    (gen_search_eq 0 _).2.2]
  by_cases h : lastBelow ob l l.length < 0
  · simp [h]
  · simp [h]

/-- **the direction of the scan is not observable**: on a list with at most one entry per object the C search (from the
    back, regenerated loop) and the model's search (from the front) find the same index or both find nothing -/
theorem searchBack_eq_idxOf (ob : Nat) (l : List Entry) (hnd : (l.map (·.ob)).Nodup) : searchBack ob l = idxOf ob l := by
  rw [searchBack_unfold]
  cases hi : idxOf ob l with
  | none =>
    have hn : hasOb ob l = false := by
      cases hh : hasOb ob l with
      | false => rfl
      | true => obtain ⟨i, hi', _⟩ := idxOf_some_of_has hh; rw [hi] at hi'; cases hi'
    rw [lastBelow_none ob l (not_has_get hn) l.length (Nat.le_refl _)]
    rfl
  | some i =>
    obtain ⟨e, hge, hx⟩ := idxOf_get hi
    have hlt := idxOf_lt hi
    have hu : ∀ (j : Nat) (e' : Entry), l[j]? = some e' → e'.ob = ob → j = i := fun j e' hj hx' => idxOf_unique hnd hi hj hx'
    have hd : i + 1 + (l.length - (i + 1)) = l.length := by omega
    have := lastBelow_found ob l i e hge hx hu (l.length - (i + 1)) (by omega)
    rw [hd] at this
    rw [this]
    have h0 : ¬ ((i : Int) < 0) := by omega
    rw [if_neg h0]
    rfl

/-- the loop says "not on the list" exactly when the object has no entry (no uniqueness needed) -/
theorem searchBack_none_iff (ob : Nat) (l : List Entry) : searchBack ob l = none ↔ hasOb ob l = false := by
  rw [searchBack_unfold]
  constructor
  · intro h
    cases hh : hasOb ob l with
    | false => rfl
    | true =>
      exfalso
      -- some entry matches: take the last one, lastBelow finds it
      have hex : ∃ (i : Nat) (e : Entry), l[i]? = some e ∧ e.ob = ob := by
        obtain ⟨i, hi, _⟩ := idxOf_some_of_has hh
        obtain ⟨e, he, hx⟩ := idxOf_get hi
        exact ⟨i, e, he, hx⟩
      have hge : ∀ k, k ≤ l.length → (∃ (i : Nat) (e : Entry), i < k ∧ l[i]? = some e ∧ e.ob = ob) → 0 ≤ lastBelow ob l k := by
        intro k
        induction k with
        | zero => intro _ ⟨i, _, hi, _⟩; omega
        | succ k ih =>
          intro hk ⟨i, e, hik, hie, hx⟩
          unfold lastBelow
          have hlt : k < l.length := by omega
          rw [List.getElem?_eq_getElem hlt]
          simp only
          split
          · omega
          · rename_i hne
            apply ih (by omega)
            refine ⟨i, e, ?_, hie, hx⟩
            by_cases hik' : i = k
            · subst hik'
              rw [List.getElem?_eq_getElem hlt] at hie
              have : l[i] = e := by simpa using hie
              rw [this] at hne
              exact absurd hx hne
            · omega
      obtain ⟨i, e, hie, hx⟩ := hex
      have hil : i < l.length := by
        cases hc : decide (i < l.length) with
        | true => simpa using hc
        | false =>
          have : l.length ≤ i := by simpa using hc
          rw [List.getElem?_eq_none this] at hie
          cases hie
      have := hge l.length (Nat.le_refl _) ⟨i, e, hil, hie, hx⟩
      split at h
      · omega
      · cases h
  · intro h
    rw [lastBelow_none ob l (not_has_get h) l.length (Nat.le_refl _)]
    rfl

example : searchBack 3 [⟨2, 1, 1⟩, ⟨3, 2, 2⟩, ⟨4, 1, 3⟩] = some 1 ∧ searchBack 9 [⟨2, 1, 1⟩] = none ∧
    searchBack 2 [⟨2, 1, 1⟩, ⟨3, 1, 1⟩, ⟨2, 5, 5⟩] = some 2 ∧ idxOf 2 [⟨2, 1, 1⟩, ⟨3, 1, 1⟩, ⟨2, 5, 5⟩] = some 0 := by decide

end NV.C11
