/-
C11 driver: parses the case lines that the harness executes against the real driver and runs the model
(`model` mode) or the specification oracle on an implementation trace (`judge` mode).

Case lines (shared with harness/c11):
  script o<k> hb:<i>|hb:* <op>;<op>;...     what the i-th (0-based) / every other heart_beat of o<k> does
  script o<k> md <op>;...                   what move_or_destruct() of o<k> does when its carrier is destructed
                                            (only shb / q / clone / flag / hbs are executed there)
  do o<k> <op>                              top-level operation executed by o<k>
  tick                                      one timer tick (the real call_heart_beat)
op syntax (comma separated):
  shb,o<t>,<n> | q,o<t> | dest,o<t> | clone,o<new>,<kind>,<n> | err | flag | hbs | take,o<item>
  cerr (error inside catch) | reload,o<t>,<n> (reload_object; create() does set_heart_beat(n)) | living (enable_commands)
  | burn (use up evaluation cost) | rp (replace_program by the inherited program without heart_beat) | mv,o<dest> (move_object into dest)
  tflags <n>                                MAIN_OPTION (timer_flags) = n
  cotick o<k>:<op>;<op>... ...              call_out callbacks (delay 1) in the named objects, then a tick with TIMER_FLAG_CALLOUT
o0 = blueprint /c11/obj (has heart_beat), o1 = blueprint /c11/nohb (no heart_beat function); both always loaded.
-/
import NV.Common.Proto
import NV.C11.Model
import NV.C11.Spec
import NV.C11.Branches

namespace NV.C11

open NV.Proto

def parseOid (s : String) : Option Nat :=
  if s.startsWith "o" then (s.drop 1).toString.toNat? else none

def parseOp (s : String) : Option Op :=
  match s.splitOn "," with
  | ["shb", t, n] => do some (.shb (← parseOid t) (← n.toInt?))
  | ["q", t] => do some (.q (← parseOid t))
  | ["dest", t] => do some (.dest (← parseOid t))
  | ["clone", o, k, n] => do some (.clone (← parseOid o) (← k.toNat?) (← n.toInt?))
  | ["err"] => some .err
  | ["flag"] => some .flag
  | ["hbs"] => some .hbs
  | ["take", i] => do some (.take (← parseOid i))
  | ["cerr"] => some .cerr
  | ["reload", t, n] => do some (.reload (← parseOid t) (← n.toInt?))
  | ["living"] => some .living
  | ["burn"] => some .burn
  | ["zshb", n] => do some (.zshb (← n.toInt?))
  | ["mv", x] => do some (.mv (← parseOid x))
  | ["rp"] => some .rp
  | _ => none

def oid (o : Nat) : String := s!"o{o}"

def render : Ev → String
  | .tickBegin => "tickbegin"
  | .tickEnd => "tickend"
  | .tickAbort => "tickabort"
  | .beat o => s!"beat {oid o}"
  | .beatEnd o => s!"beatend {oid o}"
  | .shb s t n q => s!"r shb {oid s} {oid t} {n} {q}"
  | .shbDead s t n => s!"r shb {oid s} {oid t} {n} !dead"
  | .query s t q => s!"r q {oid s} {oid t} {q}"
  | .queryDead s t => s!"r q {oid s} {oid t} !dead"
  | .dest s t => s!"r dest {oid s} {oid t}"
  | .destNone s t => s!"r dest {oid s} {oid t} !none"
  | .clone s n k i q => s!"r clone {oid s} {oid n} {k} {i} {q}"
  | .cloneDup s n => s!"r clone {oid s} {oid n} !dup"
  | .into i c => s!"r take {oid c} {oid i}"
  | .intoNone i c => s!"r take {oid c} {oid i} !none"
  | .hook i c => s!"hook {oid i} {oid c}"
  | .hookEnd i => s!"hookend {oid i}"
  | .hookGone i => s!"hookend {oid i} !gone"
  | .destGone s t => s!"r dest {oid s} {oid t} !gone"
  | .err o => s!"err *boom {oid o}"
  | .topErr o => s!"r {oid o} do_op !err"
  | .topDead o => s!"r {oid o} do_op !destructed"
  | .topNoObj o => s!"r {oid o} do_op !noobj"
  | .flag o => s!"r flag {oid o}"
  | .hbs s l => s!"r hbs {oid s} " ++ (if l.isEmpty then "-" else ",".intercalate (l.map oid))
  | .ctx o lv tp full =>
    s!"ctx {oid o} {if lv then 1 else 0} {match tp with | some p => oid p | none => "-"} {if full then "full" else "low"}"
  | .caught o => s!"caught *boom {oid o}"
  | .reload s t n q => s!"r reload {oid s} {oid t} {n} {q}"
  | .reloadNone s t => s!"r reload {oid s} {oid t} !none"
  | .living o => s!"r living {oid o}"
  | .burn o => s!"r burn {oid o}"
  | .tickOff => "tickbegin off"
  | .tflags n => s!"tflags {n}"
  | .rp o => s!"r rp {oid o}"
  | .rpNone o => s!"r rp {oid o} !none"
  | .rpDone o => s!"rpdone {oid o}"
  | .errR => "err *Only this_object() can be destructed from move_or_destruct."
  | .moved i d => s!"r mv {oid i} {oid d}"
  | .movedNone i d => s!"r mv {oid i} {oid d} !none"
  | .hookMoved i => s!"hookend {oid i} !moved"
  | .zshb o n => s!"r zshb {oid o} {n}"
  | .coBegin o => s!"cobegin {oid o}"
  | .coEnd o => s!"coend {oid o}"
  | .passLimit => "passlimit"
  | .cgAfter v => s!"cg {match v with | some p => oid p | none => "-"}"
  | .junk s => s

def parseOids (s : String) : Option (List Nat) :=
  if s == "-" then some []
  else
    let ps := (s.splitOn ",").map parseOid
    if ps.all Option.isSome then some (ps.filterMap id) else none

/-- inverse of `render` on implementation output lines; anything else is `junk` (a violation) -/
def parseEv (line : String) : Ev :=
  let r : Option Ev :=
    match toks line with
    | ["tickbegin"] => some .tickBegin
    | ["tickend"] => some .tickEnd
    | ["tickabort"] => some .tickAbort
    | ["beat", o] => do some (.beat (← parseOid o))
    | ["beatend", o] => do some (.beatEnd (← parseOid o))
    | ["r", "shb", s, t, n, "!dead"] => do some (.shbDead (← parseOid s) (← parseOid t) (← n.toInt?))
    | ["r", "shb", s, t, n, q] => do some (.shb (← parseOid s) (← parseOid t) (← n.toInt?) (← q.toInt?))
    | ["r", "q", s, t, "!dead"] => do some (.queryDead (← parseOid s) (← parseOid t))
    | ["r", "q", s, t, q] => do some (.query (← parseOid s) (← parseOid t) (← q.toInt?))
    | ["r", "dest", s, t] => do some (.dest (← parseOid s) (← parseOid t))
    | ["r", "dest", s, t, "!none"] => do some (.destNone (← parseOid s) (← parseOid t))
    | ["r", "dest", s, t, "!gone"] => do some (.destGone (← parseOid s) (← parseOid t))
    | ["r", "take", c, i] => do some (.into (← parseOid i) (← parseOid c))
    | ["r", "take", c, i, "!none"] => do some (.intoNone (← parseOid i) (← parseOid c))
    | ["hook", i, c] => do some (.hook (← parseOid i) (← parseOid c))
    | ["hookend", i] => do some (.hookEnd (← parseOid i))
    | ["hookend", i, "!gone"] => do some (.hookGone (← parseOid i))
    | ["r", "clone", s, n, "!dup"] => do some (.cloneDup (← parseOid s) (← parseOid n))
    | ["r", "clone", s, n, k, i, q] =>
      do some (.clone (← parseOid s) (← parseOid n) (← k.toNat?) (← i.toInt?) (← q.toInt?))
    | ["err", "*boom", o] => do some (.err (← parseOid o))
    | ["r", o, "do_op", "!err"] => do some (.topErr (← parseOid o))
    | ["r", o, "do_op", "!destructed"] => do some (.topDead (← parseOid o))
    | ["r", o, "do_op", "!noobj"] => do some (.topNoObj (← parseOid o))
    | ["r", "flag", o] => do some (.flag (← parseOid o))
    | ["r", "hbs", s, l] => do some (.hbs (← parseOid s) (← parseOids l))
    | ["ctx", o, lv, tp, ec] =>
      do
        let lv ← (if lv == "1" then some true else if lv == "0" then some false else none)
        let tp ← (if tp == "-" then some none else (parseOid tp).map some)
        let ec ← (if ec == "full" then some true else if ec == "low" then some false else none)
        some (.ctx (← parseOid o) lv tp ec)
    | ["caught", "*boom", o] => do some (.caught (← parseOid o))
    | ["r", "reload", s, t, "!none"] => do some (.reloadNone (← parseOid s) (← parseOid t))
    | ["r", "reload", s, t, n, q] => do some (.reload (← parseOid s) (← parseOid t) (← n.toInt?) (← q.toInt?))
    | ["r", "living", o] => do some (.living (← parseOid o))
    | ["r", "burn", o] => do some (.burn (← parseOid o))
    | ["tickbegin", "off"] => some .tickOff
    | ["tflags", n] => do some (.tflags (← n.toInt?))
    | ["r", "rp", o] => do some (.rp (← parseOid o))
    | ["r", "rp", o, "!none"] => do some (.rpNone (← parseOid o))
    | ["rpdone", o] => do some (.rpDone (← parseOid o))
    | ["err", "*Only", "this_object()", "can", "be", "destructed", "from", "move_or_destruct."] => some .errR
    | ["r", "mv", i, d] => do some (.moved (← parseOid i) (← parseOid d))
    | ["r", "mv", i, d, "!none"] => do some (.movedNone (← parseOid i) (← parseOid d))
    | ["hookend", i, "!moved"] => do some (.hookMoved (← parseOid i))
    | ["r", "zshb", o, n] => do some (.zshb (← parseOid o) (← n.toInt?))
    | ["cobegin", o] => do some (.coBegin (← parseOid o))
    | ["coend", o] => do some (.coEnd (← parseOid o))
    | ["passlimit"] => some .passLimit
    | ["cg", v] => if v == "-" then some (.cgAfter none) else (parseOid v).map (fun p => .cgAfter (some p))
    | _ => none
  match r with
  | some e => e
  | none =>
    if line.startsWith "crash" then .junk s!"crash {line}"
    else if line.startsWith "sanitizer" then .junk s!"memory-error {line}"
    else .junk s!"unexpected-line {line}"

structure Parsed where
  scripts : List ((Nat × Option Nat) × List Op) := []
  hooks : List (Nat × List Op) := []
  cmds : List Cmd := []
  bad : List String := []

def parseLine (p : Parsed) (line : String) : Parsed :=
  match toks line with
  | [] => p
  | ["script", o, key, ops] =>
    let k : Option (Option Nat) :=
      if key == "hb:*" then some none
      else if key.startsWith "hb:" then (key.drop 3).toString.toNat?.map some else none
    let parsed := (ops.splitOn ";").map parseOp
    match parseOid o, k with
    | some o, none =>
      if key == "md" && parsed.all Option.isSome then { p with hooks := (o, parsed.filterMap id) :: p.hooks }
      else { p with bad := line :: p.bad }
    | some o, some k =>
      if parsed.all Option.isSome then { p with scripts := ((o, k), parsed.filterMap id) :: p.scripts }
      else { p with bad := line :: p.bad }
    | _, _ => { p with bad := line :: p.bad }
  | ["do", o, op] =>
    match parseOid o, parseOp op with
    | some k, some op => { p with cmds := Cmd.op k op :: p.cmds }
    | _, _ => { p with bad := line :: p.bad }
  | ["tick"] => { p with cmds := Cmd.tick :: p.cmds }
  | "cotick" :: cbs =>
    let parsed : List (Option (Nat × List Op)) := cbs.map (fun c =>
      match c.splitOn ":" with
      | [o, ops] =>
        let ps := (ops.splitOn ";").map parseOp
        match parseOid o with
        | some k => if ps.all Option.isSome then some (k, ps.filterMap id) else none
        | none => none
      | _ => none)
    if parsed.all Option.isSome then { p with cmds := Cmd.cotick (parsed.filterMap id) :: p.cmds }
    else { p with bad := line :: p.bad }
  | ["tflags", n] =>
    match n.toNat? with
    | some k => { p with cmds := Cmd.tflags k :: p.cmds }
    | none => { p with bad := line :: p.bad }
  | _ => if line.startsWith "#" then p else { p with bad := line :: p.bad }

def parseCase (lines : List String) : Parsed :=
  let p := lines.foldl parseLine {}
  { p with cmds := p.cmds.reverse }

/-- the last `script` line for a key wins (the harness overwrites the mapping entry) -/
def scriptsOf (p : Parsed) : Scripts := fun o k =>
  match p.scripts.find? (fun e => e.1 == (o, some k)) with
  | some e => e.2
  | none =>
    match p.scripts.find? (fun e => e.1 == (o, none)) with
    | some e => e.2
    | none => []

/-- move_or_destruct() scripts (`script o<k> md <ops>`); the last line for an object wins -/
def hooksOf (p : Parsed) : Nat → List Op := fun o =>
  match p.hooks.find? (fun e => e.1 == o) with
  | some e => e.2
  | none => []

def runModel (lines : List String) : List String :=
  let p := parseCase lines
  if !p.bad.isEmpty then p.bad.map (fun l => s!"bad-line {l}")
  else (events (scriptsOf p) p.cmds (hooksOf p)).map render

def runJudge (body : List String) : List String :=
  let (_input, impl) := splitJudge body
  match judgeEv (impl.map parseEv) with
  | [] => ["ok"]
  | vs => vs.map (fun v => s!"bad {v}")

/-- `branches` mode: one line per branch tag taken by the case -/
def runBranches (lines : List String) : List String :=
  let p := parseCase lines
  if !p.bad.isEmpty then [] else branchTags (scriptsOf p) p.cmds (hooksOf p)

def main (mode : String) : IO Unit :=
  match mode with
  | "model" => serve runModel
  | "judge" => serve runJudge
  | "branches" => serve runBranches
  | _ => IO.eprintln s!"C11: unknown mode {mode}"

end NV.C11
