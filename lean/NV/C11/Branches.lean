/-
C11 — branch instrumentation (evidence only, nothing is proved about it): replays a case through the model and
records which branch of call_heart_beat / set_heart_beat / f_set_heart_beat / query_heart_beat / error_handler each
step takes.  The control skeleton of `runOps` / `round` / `tick` is repeated here with a tag accumulator; every state
change is made by the model's own functions (`stepOp`, `cursorStep`, `NV.Gen.C11.hbBody`, `errorHandler`), and the
driver checks that the instrumented run produces exactly the model's events (tag `INSTRUMENTATION-DIVERGED` otherwise).
-/
import NV.C11.Model

namespace NV.C11

def shbTags (w : World) (ob : Nat) (to : Int) : List String :=
  if w.dead.contains ob then ["shb.destructed-return"]
  else
    let c := NV.Gen.C11.clampTo to
    (if c ≠ to then ["shb.clamp-to-SHRT_MAX"] else []) ++
    if c = 0 then
      match idxOf ob w.hbs with
      | none => ["shb.remove.not-on-list"]
      | some i =>
        if w.todo = 0 then ["shb.remove.outside-round(num_hb_to_do=0)"]
        else
          let r := NV.Gen.C11.rmCompensate (i : Int) w.idx w.todo
          [if r.1 ≠ w.idx then "shb.remove.index<=heart_beat_index:decrement" else "shb.remove.index>heart_beat_index:keep",
           if r.2 ≠ w.todo then "shb.remove.index<num_hb_to_do:decrement" else "shb.remove.index>=num_hb_to_do:keep"]
    else if hasOb ob w.hbs then (if c < 0 then ["shb.enabled.negative-refused"] else ["shb.enabled.retune"])
    else
      (if w.cap = 0 then ["shb.append.first-allocation"] else if w.hbs.length = w.cap then ["shb.append.grow-array"]
       else ["shb.append.room"]) ++ (if c < 0 then ["shb.append.negative->1"] else [])

def efunTags (n : Int) : List String :=
  if n > shrtMax then ["efun.saturate-high"] else if n < -1 then ["efun.saturate-low"] else ["efun.pass"]

def opTags (w : World) : Op → List String
  | .shb t n => if !w.alive t then ["op.target-gone"] else efunTags n ++ shbTags w t (NV.Gen.C11.efunSat n)
  | .q t => if !w.alive t then ["op.target-gone"] else [if hasOb t w.hbs then "qhb.on-list" else "qhb.flag-off->0"]
  | .dest t =>
    if !w.alive t || t < 2 then ["op.target-gone"]
    else
      (if (itemsOf w t).isEmpty then ["destruct.no-inventory"] else ["destruct.inventory-hooks"]) ++
        (shbTags (hooksPhase w t).1 t 0).map ("destruct:" ++ ·) ++
        (if hasOb t w.hbs = false && hasOb t (hooksPhase w t).1.hbs then ["destruct.hook-enabled-the-dying-object"] else []) ++
        (if hasOb t w.hbs && !hasOb t (hooksPhase w t).1.hbs then ["destruct.hook-disabled-the-dying-object"] else [])
  | .take _ => ["take"]
  | .clone new kind n =>
    if w.known.contains new then ["op.clone-dup"]
    else
      let k := if kind = 0 then 0 else 1
      let w1 := setHeartBeat w k 0
      (if hasOb k w.hbs then ["clone.blueprint-heart-beat-switched-off"] else ["clone.blueprint-has-no-heart-beat"]) ++
        efunTags n ++ (shbTags { w1 with known := new :: w1.known } new (NV.Gen.C11.efunSat n)).map ("create:" ++ ·)
  | .err => []
  | .flag => ["timer-fired"]
  | .hbs => ["heart_beats()"]
  | .cerr => ["error.caught-by-catch"]
  | .reload t n =>
    if !w.alive t || t < 2 then ["op.target-gone"]
    else
      let w1 := setHeartBeat w t 0
      ["reload_object"] ++ (shbTags w t 0).map ("reload:" ++ ·) ++ efunTags n ++
        (shbTags w1 t (NV.Gen.C11.efunSat n)).map ("create:" ++ ·)
  | .living => ["enable_commands"]
  | .burn => ["eval_cost-used"]
  | .rp => ["replace_program"]
  | .mv _ => ["move_object"]
  | .zshb n => if w.dead.contains 0 && false then [] else ["own-set_heart_beat"] ++ efunTags n

def runOpsT (w : World) (self : Nat) : List Op → World × List Ev × Status × List String
  | [] => (w, [], .ok, [])
  | op :: rest =>
    let tg := opTags w op
    match stepOp w self op with
    | (w1, evs, .ok) =>
      match runOpsT w1 self rest with
      | (w2, evs2, st, tg2) => (w2, evs ++ evs2, st, tg ++ tg2)
    | (w1, evs, .stop) =>
      match runDead w1 self rest with
      | (w2, evs2, st) =>
        (w2, evs ++ evs2, st,
         tg ++ (if st == .err then ["error.after-self-destruct"] else []) ++
           (if evs2.any (fun e => match e with | .zshb _ _ => true | _ => false) then ["shb.destructed-return:own-call-after-self-destruct"] else []))
    | (w1, evs, st) => (w1, evs, st, tg)

def errTags (w : World) : List String :=
  match w.cur with
  | some c => ["error.in-heart_beat:switch-off" ] ++ (shbTags w c 0).map ("error:" ++ ·)
  | none => ["error.no-current_heart_beat"]

def stepTags (w : World) : List String :=
  let st := NV.Gen.C11.loopStep w.idx w.todo
  if st.2 then ["chb.exit:++index==num_hb_to_do"]
  else if !NV.Gen.C11.loopContinues (if w.flag then 1 else 0) then ["chb.exit:heart_beat_flag(truncated)"]
  else ["chb.next-entry"]

def roundT (sc : Scripts) : Nat → World → World × List Ev × List String
  | 0, w => (w, [], ["INSTRUMENTATION-DIVERGED"])
  | fuel + 1, w =>
    if w.idx < 0 then (w, [], ["INSTRUMENTATION-DIVERGED"])
    else
      match w.hbs[w.idx.toNat]? with
      | none => (w, [], ["INSTRUMENTATION-DIVERGED"])
      | some hb =>
        let nofn := w.nofn.contains hb.ob
        let b := NV.Gen.C11.hbBody (if nofn then -1 else 0) hb.ticks hb.interval
        if b.2.1 then
          let w0 : World := { w with hbs := w.hbs.set w.idx.toNat { hb with ticks := b.2.2 },
                                     nb := fun o => if o = hb.ob then w.nb o + 1 else w.nb o }
          let w1 := callSetup w0 hb.ob
          let ctg := [if w.living.contains hb.ob then "chb.call.living:command_giver=ob" else "chb.call.not-living:command_giver=0",
                      if w.ec then "chb.call.eval_cost-was-full" else "chb.call.eval_cost-reset-after-use"]
          match runOpsT w1 hb.ob (sc hb.ob (w.nb hb.ob)) with
          | (w2, evs, .err, tg) =>
            ({ errorEntry w2 with cg := none }, .beat hb.ob :: ctxEv w1 hb.ob :: evs ++ [.tickAbort],
             "chb.entry.due:call" :: ctg ++ tg ++ errTags w2 ++ ["chb.round-abandoned"])
          | (w2, evs, _, tg) =>
            let w2 := callAfter w2 hb.ob
            let tg := "chb.entry.due:call" :: ctg ++ tg ++ stepTags w2
            if (cursorStep w2).2 then (finish (cursorStep w2).1, .beat hb.ob :: ctxEv w1 hb.ob :: evs ++ [.beatEnd hb.ob, .tickEnd], tg)
            else
              match roundT sc fuel (cursorStep w2).1 with
              | (w4, evs', tg') => (w4, .beat hb.ob :: ctxEv w1 hb.ob :: evs ++ .beatEnd hb.ob :: evs', tg ++ tg')
        else
          let w1 := { w with hbs := w.hbs.set w.idx.toNat { hb with ticks := b.1 } }
          let tg := (if nofn then "chb.entry.no-heart_beat-function" else "chb.entry.not-due") :: stepTags w1
          if (cursorStep w1).2 then (finish (cursorStep w1).1, [.tickEnd], tg)
          else
            match roundT sc fuel (cursorStep w1).1 with
            | (w4, evs', tg') => (w4, evs', tg ++ tg')

def tickT (sc : Scripts) (w : World) : World × List Ev × List String :=
  let e := NV.Gen.C11.roundEntry (w.hbs.length : Int) w.idx w.todo (if w.flag then 1 else 0) w.tflags
  let begin : Ev := if hbOn w.tflags then .tickBegin else .tickOff
  let w : World := { w with flag := decide (e.2.2.1 ≠ 0), idx := e.1, todo := e.2.1 }
  if e.2.2.2 then
    match roundT sc w.hbs.length w with
    | (w', evs, tg) => (w', begin :: evs, "chb.num_hb_to_do>0" :: tg)
  else (leave w (NV.Gen.C11.roundSkip w.idx w.todo (curInt w)), [begin, .tickEnd],
        [if hbOn w.tflags then "chb.num_hb_to_do=0" else
           (if w.hbs.isEmpty then "chb.timer_flags-without-HEARTBEAT:empty" else "chb.timer_flags-without-HEARTBEAT:list-kept")])

/-- call_heart_beat with its call_out dispatch -/
def tickCoreT (sc : Scripts) (w : World) : World × List Ev × List String :=
  match tickT sc w with
  | (w2, e2, tg) =>
    if e2.contains .tickAbort then (w2, e2, tg)
    else
      ((coDispatch (w2, e2)).1, (coDispatch (w2, e2)).2,
       tg ++ (if coOn w2.tflags && !w2.co.isEmpty then ["call_out.dispatch-after-the-round"] else []) ++
         (if coOn w2.tflags && (coDispatch (w2, e2)).2.any (fun e => match e with | .err _ => true | _ => false) &&
             e2.any (fun e => match e with | .beat _ => true | _ => false)
          then ["call_out.error-after-a-round-with-beats"] else []))

def tickCmdT (sc : Scripts) (w : World) : World × List Ev × List String :=
    match tickCore sc { w with cg := none, tflags := 0 } with
    | (w0, e0) =>
      match applyRp { w0 with tflags := w.tflags } with
      | (w1, e1) =>
        match tickCoreT sc w1 with
        | (w2, e2, tg) =>
          let tg := "backend.start-up-call" :: (e1.map (fun _ => "replace_programs:program-swapped")) ++ tg
          if e2.contains .tickAbort then
            match morePasses sc maxPass w2 with
            | (w3, e3) => (w3, e0 ++ e1 ++ e2 ++ e3 ++ [.cgAfter w3.cg],
                           tg ++ "backend.further-passes-after-error" ::
                             (if e3.contains .tickBegin then ["backend.tick-served-right-after-an-abandoned-round"] else []) ++
                             (if e3.contains .passLimit then ["backend.pass-limit"] else []))
          else (w2, e0 ++ e1 ++ e2 ++ [.cgAfter w2.cg], tg)

def stepCmdT (sc : Scripts) (w : World) : Cmd → World × List Ev × List String
  | .tick => if w.crashed then (w, [], []) else tickCmdT sc w
  | .cotick cbs =>
    if w.crashed then (w, [], [])
    else
      match tickCmdT sc (coWorld w cbs) with
      | (w', evs, tg) => ({ w' with tflags := w.tflags }, evs, "cotick" :: tg)
  | .op self op =>
    if w.crashed then (w, [], [])
    else if !w.known.contains self then (w, [.topNoObj self], [])
    else if w.dead.contains self then (w, [.topDead self], [])
    else
      match runOpsT w self [op] with
      | (w', evs, .err, tg) => (errorEntry w', evs ++ [.topErr self], tg ++ errTags w')
      | (w', evs, _, tg) => (w', evs, tg)
  | .tflags n => if w.crashed then (w, [], []) else ({ w with tflags := (n : Int) }, [.tflags (n : Int)], ["timer_flags-set"])

def runCmdsT (sc : Scripts) (w : World) : List Cmd → World × List Ev × List String
  | [] => (w, [], [])
  | c :: cs =>
    match stepCmdT sc w c with
    | (w1, evs, tg) =>
      match runCmdsT sc w1 cs with
      | (w2, evs2, tg2) => (w2, evs ++ evs2, tg ++ tg2)

/-- branch tags of a run; a run whose events differ from the model's is reported as diverged -/
def branchTags (sc : Scripts) (cmds : List Cmd) (hk : Nat → List Op := fun _ => []) : List String :=
  match runCmdsT sc { hooks := hk } cmds with
  | (_, evs, tg) => if evs == events sc cmds hk then tg else ["INSTRUMENTATION-DIVERGED"]

end NV.C11
