/-
C11 — property theorems.  Helper lemmas: NV/C11/Lemmas.lean (lists), NV/C11/Sim.lean (simulation).

The model (NV/C11/Model.lean) mirrors the array + two cursors of src/backend.c; the specification oracle
(NV/C11/Spec.lean) is an index-free reference semantics that checks every clause of C11 on a trace.  The top
theorem says the oracle finds nothing to object to on any model trace - for all populations, all heart_beat
scripts, all interleavings of top-level operations and ticks, any number of ticks.
-/
import NV.C11.Sim

namespace NV.C11

/-- **Top theorem.**  On every run of the model - any scripts `sc` (what each heart_beat does, per object and
    per beat number), any command history `cmds` (top-level set_heart_beat / destruct / clone / error / timer
    operations and ticks) - the specification oracle reports no violation: beats happen exactly when the
    reference semantics predicts (at most once per tick, each object enabled since before the round and still
    enabled at its turn exactly when its countdown expires, late joiners not in this round, nothing after a
    disable / destruct, an error switches off only the failing object and abandons the round), every
    query_heart_beat() / heart_beats() answer is right, and no crash event occurs. -/
theorem model_satisfies_spec (sc : Scripts) (cmds : List Cmd) (hk : Nat → List Op := fun _ => []) :
    judgeEv (events sc cmds hk) = [] := by
  have h := sim_runCmds sc cmds { hooks := hk } {} (idle_init hk)
  unfold judgeEv events
  rw [h.2.2.2]; rfl

example : judgeEv (events (fun o k => if o = 2 ∧ k = 0 then [.shb 3 0, .shb 2 0, .clone 5 0 1, .err] else [])
    [.op 0 (.clone 2 0 1), .op 0 (.clone 3 0 2), .op 0 (.clone 4 0 1), .tick, .tick]) = [] :=
  model_satisfies_spec _ _

/-- **Memory safety of the round** (`hb_index_in_bounds`).  The model turns every `heart_beats[heart_beat_index]`
    access outside `[0, num_hb_objs)`, every append beyond `max_heart_beats` and a round whose loop would not
    terminate into the outcome `crashed`; it is never reached, whatever the heart_beat functions remove, add or
    destruct while the round is running. -/
theorem hb_index_in_bounds (sc : Scripts) (cmds : List Cmd) (hk : Nat → List Op := fun _ => []) :
    (runCmds sc { hooks := hk } cmds).1.crashed = false :=
  (sim_runCmds sc cmds { hooks := hk } {} (idle_init hk)).1.ok

/-- the state correspondence of the simulation holds after every history: the heart-beat array is exactly the
    oracle's service order, nothing is lost or duplicated by the index compensation -/
theorem hbs_is_service_order (sc : Scripts) (cmds : List Cmd) (hk : Nat → List Op := fun _ => []) :
    (runCmds sc { hooks := hk } cmds).1.hbs = ((runCmds sc { hooks := hk } cmds).2.foldl judge1 {}).all :=
  (sim_runCmds sc cmds { hooks := hk } {} (idle_init hk)).1.hbs

/-! ### Clauses, stated on the reference semantics that the model is proved to implement -/

/-- what one service of an entry with a heart_beat function does: (new entry, whether it beats) -/
def serve (e : Entry) : Entry × Bool :=
  if wrap16 (e.ticks - 1) < 1 then ({ e with ticks := e.interval }, true)
  else ({ e with ticks := wrap16 (e.ticks - 1) }, false)

/-- service of an entry by a round, including objects without heart_beat function (countdown only) -/
def served (nofn : List Nat) (e : Entry) : Entry :=
  if nofn.contains e.ob then { e with ticks := wrap16 (e.ticks - 1) } else (serve e).1

theorem advanceL_cons (nofn : List Nat) (tr : Bool) (done : List Entry) (x : Entry) (rest : List Entry) :
    advanceL nofn tr done (x :: rest) =
      if (!nofn.contains x.ob && (serve x).2) = true then (done ++ [served nofn x], rest, some x.ob)
      else if (rest.isEmpty || tr) = true then (done ++ [served nofn x], rest, none)
      else advanceL nofn tr (done ++ [served nofn x]) rest := by
  unfold served serve
  by_cases hn : x.ob ∈ nofn <;> by_cases ht : wrap16 (x.ticks - 1) < 1 <;> simp [advanceL, hn, ht]

/-- **complete_round_visits_each_once.**  A round serves a *prefix* of the entries that were enabled when it
    began, each exactly once and in order (`pend = visited ++ remaining`, `done' = done ++ visited.map served`);
    entries enabled during the round (`late`) are not an argument of the round function at all.  A round that
    is not truncated by the timer and in which nothing beats visits every entry (`remaining = []`). -/
theorem complete_round_visits_each_once (nofn : List Nat) (tr : Bool) : ∀ (pend done : List Entry),
    ∃ visited, pend = visited ++ (advanceL nofn tr done pend).2.1 ∧
      (advanceL nofn tr done pend).1 = done ++ visited.map (served nofn) ∧
      ((advanceL nofn tr done pend).2.2 = none → tr = false → (advanceL nofn tr done pend).2.1 = []) := by
  intro pend
  induction pend with
  | nil => intro done; exact ⟨[], by simp [advanceL]⟩
  | cons x rest ih =>
    intro done
    rw [advanceL_cons]
    by_cases h1 : (!nofn.contains x.ob && (serve x).2) = true
    · rw [if_pos h1]; exact ⟨[x], by simp⟩
    · rw [if_neg h1]
      by_cases h2 : (rest.isEmpty || tr) = true
      · rw [if_pos h2]
        refine ⟨[x], by simp, by simp, ?_⟩
        intro _ htr
        rw [htr] at h2
        simpa using h2
      · rw [if_neg h2]
        obtain ⟨v, hv1, hv2, hv3⟩ := ih (done ++ [served nofn x])
        exact ⟨x :: v, by simp [← hv1], by simp [hv2], hv3⟩

example : (advanceL [] false [] [⟨2, 2, 2⟩, ⟨3, 3, 3⟩]).2.1 = [] := by decide

/-- the object that a round announces as beating has a heart_beat function, was enabled since before the round
    began and not yet served (it is taken from `pend`), and its countdown expired: objects that were disabled or
    destructed (removed from `pend`), that joined late or were served already cannot be called -/
theorem beat_only_from_pending (nofn : List Nat) (tr : Bool) : ∀ (pend done : List Entry) (o : Nat),
    (advanceL nofn tr done pend).2.2 = some o →
    ∃ e, e ∈ pend ∧ e.ob = o ∧ nofn.contains o = false ∧ (serve e).2 = true := by
  intro pend
  induction pend with
  | nil => intro done o h; simp [advanceL] at h
  | cons x rest ih =>
    intro done o h
    rw [advanceL_cons] at h
    by_cases h1 : (!nofn.contains x.ob && (serve x).2) = true
    · rw [if_pos h1] at h
      simp only [Option.some.injEq] at h
      simp only [Bool.and_eq_true, Bool.not_eq_true'] at h1
      exact ⟨x, by simp, h, by rw [← h]; exact h1.1, h1.2⟩
    · rw [if_neg h1] at h
      by_cases h2 : (rest.isEmpty || tr) = true
      · rw [if_pos h2] at h; cases h
      · rw [if_neg h2] at h
        obtain ⟨e, he, h3⟩ := ih _ o h
        exact ⟨e, by simp [he], h3⟩

/-- the oracle accepts a `beat o` event only when `o` is the object announced by the round function
    (**at_most_once_per_tick**, **disabled_or_destructed_never_called**: anything else is a violation) -/
theorem beat_accepted_iff (j : JState) (o : Nat) : (judge1 j (.beat o)).bad = j.bad ↔ j.expect = .beat o := by
  by_cases h : j.expect = .beat o
  · simp [judge1, h]
  · simp [judge1, h, JState.flagV]

/-- **period_n.**  An object enabled with interval n, 1 ≤ n ≤ SHRT_MAX: the k-th service after a (re)start
    leaves the countdown at n - k without a beat for k < n ... -/
theorem period_n_countdown (ob : Nat) (n : Int) (h1 : 1 ≤ n) (h2 : n ≤ shrtMax) (k : Nat) (hk : (k : Int) < n) :
    serve { ob := ob, ticks := n - k, interval := n } =
      if (k : Int) = n - 1 then ({ ob := ob, ticks := n, interval := n }, true)
      else ({ ob := ob, ticks := n - k - 1, interval := n }, false) := by
  have hs : shrtMax = 32767 := by decide
  unfold serve wrap16
  simp only
  by_cases hl : (k : Int) = n - 1
  · have : (n - ↑k - 1 + 32768) % 65536 - 32768 < 1 := by omega
    rw [if_pos this, if_pos hl]
  · have : ¬ ((n - ↑k - 1 + 32768) % 65536 - 32768 < 1) := by omega
    rw [if_neg this, if_neg hl]
    congr 2
    omega

/-- ... so it beats exactly at the n-th service and is then back in the start state: one beat every n ticks
    in which it is served (`complete_round_visits_each_once`: every complete round) -/
theorem period_n (ob : Nat) (n : Int) (h1 : 1 ≤ n) (h2 : n ≤ shrtMax) :
    (∀ k : Nat, (k : Int) < n - 1 → (serve { ob := ob, ticks := n - k, interval := n }).2 = false) ∧
    serve { ob := ob, ticks := 1, interval := n } = ({ ob := ob, ticks := n, interval := n }, true) := by
  constructor
  · intro k hk
    rw [period_n_countdown ob n h1 h2 k (by omega)]
    have : ¬ ((k : Int) = n - 1) := by omega
    simp [this]
  · have h := period_n_countdown ob n h1 h2 (n - 1).toNat (by omega)
    have e : ((n - 1).toNat : Int) = n - 1 := by omega
    rw [e] at h
    simp only [if_true] at h
    have e2 : n - (n - 1) = 1 := by omega
    rw [e2] at h
    exact h

example : serve { ob := 2, ticks := 1, interval := 3 } = ({ ob := 2, ticks := 3, interval := 3 }, true) :=
  (period_n 2 3 (by decide) (by decide)).2

/-- what set_heart_beat(n) stores for a live object without heart beat, 1 ≤ n ≤ SHRT_MAX: exactly n -/
theorem interval_stored (w : World) (x : Nat) (n : Int) (h1 : 1 ≤ n) (h2 : n ≤ shrtMax)
    (hd : w.dead.contains x = false) (hon : hasOb x w.hbs = false) (hc : w.hbs.length ≤ w.cap) :
    (setHeartBeat w x (NV.Gen.C11.efunSat n)).hbs = w.hbs ++ [{ ob := x, ticks := n, interval := n }] := by
  have hs : shrtMax = 32767 := by decide
  have hsat : satEfun n = n := by unfold satEfun; split <;> (try split) <;> omega
  have hch : 0 < chunk := by decide
  have hlt : w.hbs.length < (if w.cap = 0 then chunk else if w.hbs.length = w.cap then w.cap + chunk else w.cap) := by
    split
    · omega
    · split <;> omega
  have h3 : ¬ (n > shrtMax) := by omega
  have h4 : ¬ (n = 0) := by omega
  have h5 : ¬ (n < 0) := by omega
  have hw : wrap16 n = n := wrap16_id (by omega) h2
  rw [gen_efunSat_eq]
  rw [setHeartBeat_eq_ref]
  unfold setHeartBeatRef
  simp only [hd, hsat, h3, h4, h5, hon, hlt, hw, if_false, if_true, Bool.false_eq_true]

/-- **error_local.**  The error handler removes exactly the entry of the object whose heart_beat was running;
    every other entry keeps its place, countdown and interval, and nobody is destructed or created. -/
theorem error_local (w : World) (c : Nat) (hc : w.cur = some c) (hd : w.dead.contains c = false) :
    (errorHandler w).hbs = rmFirst c w.hbs ∧ (errorHandler w).dead = w.dead ∧ (errorHandler w).known = w.known ∧
    (errorHandler w).cur = none := by
  have hsm : ¬ ((0 : Int) > shrtMax) := by decide
  rw [errorHandler_eq_ref]
  unfold errorHandlerRef
  rw [hc]
  simp only [setHeartBeat_eq_ref]
  unfold setHeartBeatRef
  simp only [hd, hsm, if_false, Bool.false_eq_true, if_true]
  cases hi : idxOf c w.hbs with
  | none =>
    have : hasOb c w.hbs = false := by
      cases hh : hasOb c w.hbs with
      | false => rfl
      | true => obtain ⟨i, hi', _⟩ := idxOf_some_of_has hh; rw [hi] at hi'; cases hi'
    simp [rmFirst_of_not_has this]
  | some i =>
    simp only
    refine ⟨?_, ?_, ?_, trivial⟩
    · split <;> exact eraseIdx_idxOf hi
    · split <;> rfl
    · split <;> rfl

theorem lookup_rmFirst_ne (c y : Nat) (h : y ≠ c) : ∀ l : List Entry, lookup y (rmFirst c l) = lookup y l := by
  intro l
  induction l with
  | nil => rfl
  | cons e r ih =>
    by_cases he : e.ob = c
    · have hcy : ¬ (c = y) := fun h' => h h'.symm
      simp [rmFirst, he, lookup, hcy]
    · by_cases hy : e.ob = y
      · have hyc : ¬ (y = c) := h
        simp [rmFirst, lookup, hy, hyc]
      · simp [rmFirst, he, lookup, hy, ih]

/-- ... in particular query_heart_beat of every other object is unchanged by the error -/
theorem error_local_others (w : World) (c y : Nat) (hc : w.cur = some c) (hd : w.dead.contains c = false)
    (hy : y ≠ c) : queryHeartBeat (errorHandler w) y = queryHeartBeat w y := by
  unfold queryHeartBeat
  rw [(error_local w c hc hd).1, lookup_rmFirst_ne c y hy]

example : (errorHandler { hbs := [⟨2, 1, 1⟩, ⟨3, 2, 2⟩, ⟨4, 1, 3⟩], cap := 32, cur := some 3 }).hbs = [⟨2, 1, 1⟩, ⟨4, 1, 3⟩] := by
  decide

/-- **faults stay local (call context).**  Whatever the world looked like before - another heart_beat enabled commands
    (command_giver = that object), used up its evaluation cost, or raised an error that left command_giver behind - the
    statements that call_heart_beat executes in front of the call (`NV.Gen.C11.callFrame`, regenerated from the source)
    give the called object a clean context: current_heart_beat = ob, command_giver = ob iff ob is living (else 0),
    full evaluation cost; nothing else changes. -/
theorem call_context_clean (w : World) (ob : Nat) :
    (callSetup w ob).cur = some ob ∧ (callSetup w ob).cg = ctxGiver ob (w.living.contains ob) ∧
    (callSetup w ob).ec = true ∧ (callSetup w ob).hbs = w.hbs ∧ (callSetup w ob).idx = w.idx ∧
    (callSetup w ob).todo = w.todo ∧ (callSetup w ob).living = w.living := by
  rw [callSetup_ref]
  exact ⟨rfl, rfl, rfl, rfl, rfl, rfl, rfl⟩

/-- ... and the oracle's clause `ctx` accepts exactly that context: the event the model emits at the entry of a
    heart_beat is accepted in every oracle state that expects the body of `ob`'s heart_beat -/
theorem call_context_accepted (w : World) (ob : Nat) (j : JState) (he : j.expect = .inBeat) (hc : j.cur = some ob) :
    judge1 j (ctxEv (callSetup w ob) ob) = j := by
  rw [callSetup_ref]
  simp [ctxEv, judge1, he, hc, ctxGiver]

/-- the clause is not vacuous: a living object that sees no this_player(), a stranger as this_player(), or a used-up
    evaluation cost is a violation -/
example : judgeEv [.clone 0 2 0 1 1, .tickBegin, .beat 2, .ctx 2 true none true] ≠ [] := by decide
example : judgeEv [.clone 0 2 0 1 1, .tickBegin, .beat 2, .ctx 2 false (some 3) true] ≠ [] := by decide
example : judgeEv [.clone 0 2 0 1 1, .tickBegin, .beat 2, .ctx 2 false none false] ≠ [] := by decide
example : judgeEv [.clone 0 2 0 1 1, .tickBegin, .beat 2, .ctx 2 true (some 2) true, .beatEnd 2, .tickEnd] = [] := by decide
example : (callSetup { cg := some 7, ec := false, living := [3] } 3).cg = some 3 ∧
    (callSetup { cg := some 7, ec := false, living := [3] } 2).cg = none ∧
    (callSetup { cg := some 7, ec := false, living := [3] } 2).ec = true := by decide

/-- **a caught error is not a fault of the heart beat.**  `catch (error (...))` leaves error_handler through its catch
    branch (`NV.Gen.C11.errOrder`: that branch comes first), so nothing is switched off and the script goes on -/
theorem caught_error_keeps_heart_beat (w : World) (self : Nat) :
    stepOpBasic w self .cerr = (w, [.caught self], .ok) ∧ NV.Gen.C11.errOrder.head? = some 0 := ⟨rfl, rfl⟩

/-- **timer_flags without TIMER_FLAG_HEARTBEAT**: a tick runs no round at all - nobody beats, no countdown moves, the
    list is untouched; `heart_beat_index` keeps its (possibly stale) value and `num_hb_to_do = num_hb_objs` stays
    non-zero until the next real round, so removals in between are "compensated" (harmless: `hb_index_in_bounds`) -/
theorem no_round_without_heartbeat_flag (sc : Scripts) (w : World) (h : hbOn w.tflags = false) :
    (tickRound sc w).2 = [.tickOff, .tickEnd] ∧ (tickRound sc w).1.hbs = w.hbs ∧ (tickRound sc w).1.idx = w.idx ∧
    (tickRound sc w).1.todo = (w.hbs.length : Int) ∧ (tickRound sc w).1.cur = none ∧ (tickRound sc w).1.flag = false := by
  rw [tick_eq_ref]
  unfold tickRef
  rw [h]
  exact ⟨rfl, rfl, rfl, rfl, rfl, rfl⟩

example : hbOn 0 = false ∧ hbOn 1 = false ∧ hbOn 2 = true ∧ hbOn 3 = true ∧ hbOn 4 = false ∧ hbOn 6 = true := by decide

/-- with the flag set and a non-empty list the round starts at index 0 with `num_hb_to_do = num_hb_objs` -/
theorem round_entered_iff (sc : Scripts) (w : World) :
    (tickRound sc w).2.head? = some (if hbOn w.tflags then Ev.tickBegin else Ev.tickOff) := by
  rw [tick_eq_ref]
  unfold tickRef
  cases hbOn w.tflags with
  | false => rfl
  | true =>
    simp only [if_true]
    split
    · rfl
    · rfl


/-- **an error outside every heart_beat switches off nobody** (call_out callbacks, reset()/clean_up(), commands): with
    current_heart_beat = 0 - which `NV.Gen.C11.chbTail` guarantees for everything call_heart_beat runs after the round -
    error_handler leaves the heart-beat list, the cursor and the set of objects alone -/
theorem error_outside_heart_beat_switches_off_nobody (w : World) (h : w.cur = none) :
    (errorEntry w).hbs = w.hbs ∧ (errorEntry w).idx = w.idx ∧ (errorEntry w).todo = w.todo ∧
    (errorEntry w).dead = w.dead ∧ (errorEntry w).cur = none := by
  unfold errorEntry
  rw [errorHandler_eq_ref]
  unfold errorHandlerRef
  simp [h]

/-- ... and the specification says the same: an `err` event while no heart_beat is running changes no entry -/
theorem oracle_error_outside_heart_beat (j : JState) (o : Nat) (h : j.cur = none) :
    (judge1 j (.err o)).all = j.all ∧ (judge1 j (.err o)).bad = j.bad := by
  have e : judge1 j (.err o) = (if j.inRound then { j with expect := .abort } else j) := by
    simp only [judge1, h]
  rw [e]
  split <;> exact ⟨rfl, rfl⟩

example : (errorEntry { hbs := [⟨2, 1, 1⟩, ⟨3, 2, 2⟩], cap := 32, cur := none }).hbs = [⟨2, 1, 1⟩, ⟨3, 2, 2⟩] := by decide

/-- **a destructed object is never put on the list**: set_heart_beat on a destructed object - by itself after
    destruct(this_object()), by error_handler, by anybody - changes nothing, whatever the argument (the O_DESTRUCTED test
    is the first statement: `gen_shbGuard_eq`) -/
theorem destructed_never_enabled (w : World) (x : Nat) (n : Int) (hd : w.dead.contains x = true) :
    setHeartBeat w x n = w := by
  rw [setHeartBeat_eq_ref]; unfold setHeartBeatRef; rw [if_pos hd]

/-- ... and the specification agrees: the object's own set_heart_beat after its destruct leaves every entry alone -/
theorem oracle_own_set_heart_beat_of_destructed (j : JState) (s : Nat) (n : Int) (hd : j.alive s = false) (ha : opAllowed j = true) :
    judge1 j (.zshb s n) = j := by
  simp [judge1, ha, hd]

example : (runOps { hbs := [⟨2, 1, 1⟩], cap := 32, known := [2, 0, 1] } 2 [.dest 2, .zshb 1, .zshb 5]).1.hbs = [] := by decide

end NV.C11
