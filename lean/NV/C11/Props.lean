import NV.C11.Model
import NV.C11.Spec
namespace NV.C11
end NV.C11
