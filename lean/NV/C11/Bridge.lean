/-
C11 — bridging lemmas between the definitions regenerated from the C source (NV/Gen/C11.lean, produced by
props/c11_extract.py from the clang AST of set_heart_beat / f_set_heart_beat / call_heart_beat) and the forms that the
invariant proofs use.  A change of the source that alters a compensation condition, the tick test / reset, the clamp,
the argument saturation or the loop exit changes NV/Gen/C11.lean and makes the corresponding lemma here fail
(obligation broken), while the executable model follows the changed source.
-/
import NV.C11.Lemmas

namespace NV.C11

open NV.Gen.C11 in
/-- the translator's `(short)` is the oracle's `wrap16` -/
theorem gen_trunc16_eq (x : Int) : trunc16 x = wrap16 x := rfl

theorem shrtMax_val : shrtMax = 32767 := by decide

/-- **clamp** (`if (to > SHRT_MAX) to = SHRT_MAX;` in front of `if (!to)`) -/
theorem gen_clampTo_eq (to : Int) : NV.Gen.C11.clampTo to = if to > shrtMax then shrtMax else to := by
  rw [shrtMax_val]; rfl

/-- **index compensation of the removal branch**: `if (num_hb_to_do) { if (index <= heart_beat_index)
    heart_beat_index--; if (index < num_hb_to_do) num_hb_to_do--; }` -/
theorem gen_rmCompensate_eq (index idx todo : Int) :
    NV.Gen.C11.rmCompensate index idx todo =
      if todo ≠ 0 then (if index ≤ idx then idx - 1 else idx, if index < todo then todo - 1 else todo)
      else (idx, todo) := by
  unfold NV.Gen.C11.rmCompensate
  split <;> rfl

/-- **append branch**: `if (to < 0) to = 1; hb->time_to_heart_beat = hb->heart_beat_ticks = (short)to;` -/
theorem gen_appendStore_eq (to : Int) :
    NV.Gen.C11.appendStore to = (wrap16 (if to < 0 then 1 else to), wrap16 (if to < 0 then 1 else to)) := rfl

/-- **saturation in f_set_heart_beat** = the clamp of the specification -/
theorem gen_efunSat_eq (n : Int) : NV.Gen.C11.efunSat n = satEfun n := by
  have := shrtMax_val
  unfold NV.Gen.C11.efunSat satEfun NV.Gen.C11.trunc32
  rw [this]
  split
  · rfl
  · split
    · rfl
    · omega

/-- **tick test and reset**: `ticks--; if (prog->heart_beat != -1) if (ticks < 1) { ticks = time_to_heart_beat; call }`:
    the countdown is a `short`, the entry beats iff the program has a heart_beat function and the decremented
    countdown is below 1, and the countdown is reset to the interval *before* the call -/
theorem gen_hbBody_eq (hasFn : Bool) (ticks interval : Int) :
    NV.Gen.C11.hbBody (if hasFn then 0 else -1) ticks interval =
      if hasFn && decide (wrap16 (ticks - 1) < 1) then (interval, true, interval)
      else (wrap16 (ticks - 1), false, 0) := by
  unfold NV.Gen.C11.hbBody
  cases hasFn <;> by_cases h : wrap16 (ticks - 1) < 1 <;> simp [gen_trunc16_eq, h]

/-- **loop exit**: `if (++heart_beat_index == num_hb_to_do) break;` -/
theorem gen_loopStep_eq (idx todo : Int) : NV.Gen.C11.loopStep idx todo = (idx + 1, decide (idx + 1 = todo)) := rfl

/-- **while condition**: `while (!heart_beat_flag)` -/
theorem gen_loopContinues_eq (f : Bool) : NV.Gen.C11.loopContinues (if f then 1 else 0) = !f := by
  cases f <;> decide

/-- **statement order of destruct_object**: inventory hooks, then set_heart_beat (ob, 0), then the O_DESTRUCTED store -/
theorem gen_destructOrder_eq : NV.Gen.C11.destructOrder = [0, 1, 2] := rfl

/-- **memmove of the removal branch**: `if ((num = num_hb_objs - (index + 1))) memmove (heart_beats + index, heart_beats +
    (index + 1), num * sizeof (heart_beat_t)); num_hb_objs--;` -/
theorem gen_rmMove_eq (index n : Int) :
    NV.Gen.C11.rmMove index n = (index, index + 1, n - (index + 1), decide (n - (index + 1) ≠ 0), n - 1) := rfl

/-- ... which on the list is "erase the entry at `index`" (for an index inside the array) -/
theorem applyMove_eq_erase (l : List Entry) (i : Nat) (h : i < l.length) :
    applyMove l (NV.Gen.C11.rmMove (i : Int) (l.length : Int)) = l.eraseIdx i := by
  rw [gen_rmMove_eq]
  unfold applyMove
  simp only
  have h1 : (i : Int).toNat = i := by omega
  have h2 : ((i : Int) + 1).toNat = i + 1 := by omega
  have h3 : ((l.length : Int) - ((i : Int) + 1)).toNat = l.length - (i + 1) := by omega
  have h4 : ((l.length : Int) - 1).toNat = l.length - 1 := by omega
  rw [h1, h2, h3, h4, List.eraseIdx_eq_take_drop_succ]
  by_cases hg : (l.length : Int) - ((i : Int) + 1) ≠ 0
  · rw [decide_eq_true hg, if_pos rfl]
    have ht : (l.drop (i + 1)).take (l.length - (i + 1)) = l.drop (i + 1) :=
      List.take_of_length_le (by simp)
    rw [ht]
    apply List.take_left'
    simp only [List.length_append, List.length_take, List.length_drop]
    omega
  · rw [decide_eq_false hg, if_neg (by decide)]
    have hi : i + 1 = l.length := by omega
    have hd : l.drop (i + 1) = [] := by rw [hi]; exact List.drop_length
    rw [hd, List.append_nil]
    congr 1
    omega

/-- **query_heart_beat** answers 0 for an object without O_HEART_BEAT, else the interval (`time_to_heart_beat`) of its
    entry, else 0 -/
theorem gen_queryReturns_eq : NV.Gen.C11.queryReturns = [0, 1, 0] := rfl

/-- **reload_object**: O_ENABLE_COMMANDS cleared, then `set_heart_beat (obj, 0)`, then create() -/
theorem gen_reloadOrder_eq : NV.Gen.C11.reloadOrder = [0, 1, 2] := rfl

/-- **clone_object**: the blueprint's heart beat is switched off before create() of the clone runs -/
theorem gen_cloneOrder_eq : NV.Gen.C11.cloneOrder = [0, 1] := rfl

/-- **search loop of the removal branch**: from `num_hb_objs` downwards, `while (index--)`, not found = `index < 0` -/
theorem gen_search_eq (n i : Int) :
    NV.Gen.C11.searchStart n = n ∧ NV.Gen.C11.searchNext i = (i - 1, decide (i ≠ 0)) ∧
    NV.Gen.C11.searchMiss i = decide (i < 0) := ⟨rfl, rfl, rfl⟩

/-- **entry of set_heart_beat**: the mask tested by its first statement is O_DESTRUCTED -/
theorem gen_shbGuard_eq : NV.Gen.C11.shbGuardMask = NV.Gen.C11.oDestructed := rfl

/-- **retune** (object already on the list): `if (to < 0) return 0;` then `(short)to` into both fields -/
theorem gen_retuneStore_eq (to t i : Int) :
    NV.Gen.C11.retuneStore to t i = (decide (to < 0), wrap16 to, wrap16 to) := rfl

/-- **growth of the array**: first allocation HEART_BEAT_CHUNK, `num_hb_objs == max_heart_beats` adds a chunk -/
theorem gen_growCap_eq (cap n : Nat) :
    (NV.Gen.C11.growCap (cap : Int) (n : Int)).toNat = (if cap = 0 then chunk else if n = cap then cap + chunk else cap) := by
  unfold NV.Gen.C11.growCap
  show (if ¬ ((cap : Int) ≠ 0) then ((chunk : Nat) : Int) else if (n : Int) = (cap : Int) then (cap : Int) + ((chunk : Nat) : Int) else (cap : Int)).toNat = _
  split
  · rename_i h; have : cap = 0 := by omega
    simp [this]
  · rename_i h; have hc : ¬ (cap = 0) := by omega
    rw [if_neg hc]
    split
    · rename_i h2; have : n = cap := by omega
      rw [if_pos this]; omega
    · rename_i h2; have : ¬ (n = cap) := by omega
      rw [if_neg this]; omega

/-- **save_context / restore_context** carry command_giver -/
theorem gen_ctxSaveRestore_eq : NV.Gen.C11.ctxSaveRestore = [1, 1] := rfl

/-- **efun wrappers**: query_heart_beat(ob) asks about its argument, heart_beats() returns get_heart_beats () -/
theorem gen_efunWrappers_eq : NV.Gen.C11.efunWrappers = [1, 1] := rfl

/-- **heart_beats()** answers the list in reverse order -/
theorem gen_heartBeatsReversed_eq : NV.Gen.C11.heartBeatsReversed = true := rfl

/-- **backend()**: the recovery point is set in front of the loop; the loop resets eval_cost, removes destructed objects
    (and swaps replaced programs) and then calls call_heart_beat when the flag is set - the sequence the harness command
    `tick` reproduces -/
theorem gen_backendOrder_eq : NV.Gen.C11.backendOrder = [3, 0, 1, 2] := rfl

/-- **heartbeat_timer_callback** sets heart_beat_flag to 1 -/
theorem gen_timerSetsFlag_eq (f : Int) : NV.Gen.C11.timerSetsFlag f = 1 := rfl

/-- **tail of call_heart_beat**: the round, then `current_heart_beat = 0`, then the reset()/clean_up() sweep, then the
    call_out dispatch - during the sweep and the dispatch nobody is "the object whose heart_beat is running" -/
theorem gen_chbTail_eq : NV.Gen.C11.chbTail = [0, 1, 2, 3] := rfl

theorem timerFlagHeartbeat_val : NV.Gen.C11.timerFlagHeartbeat = 2 := rfl

/-- the guard of the round: `(MAIN_OPTION (timer_flags) & TIMER_FLAG_HEARTBEAT) && (num_hb_to_do > 0)` (after
    `num_hb_to_do = num_hb_objs`); the bit test `x & F` (F a power of two) is `((x / F) % 2) * F`, F = the regenerated TIMER_FLAG_HEARTBEAT -/
abbrev enters (n tf : Int) : Prop :=
  (tf / ((NV.Gen.C11.timerFlagHeartbeat : Nat) : Int)) % 2 * ((NV.Gen.C11.timerFlagHeartbeat : Nat) : Int) ≠ 0 ∧ n > 0

/-- **entry of a round**: `heart_beat_flag = 0; num_hb_to_do = num_hb_objs; if ((timer_flags & TIMER_FLAG_HEARTBEAT) &&
    num_hb_to_do > 0) { heart_beat_index = 0; while ...`: heart_beat_index keeps its (stale) value when the round is not
    entered -/
theorem gen_roundEntry_eq (n idx todo fl tf : Int) :
    NV.Gen.C11.roundEntry n idx todo fl tf = (if enters n tf then 0 else idx, n, 0, decide (enters n tf)) := rfl

/-- **end of a round**: `heart_beat_index = num_hb_to_do = 0;` ... `current_heart_beat = 0;` -/
theorem gen_roundExit_eq (idx todo cur : Int) : NV.Gen.C11.roundExit idx todo cur = (0, 0, 0) := rfl

/-- **no round**: heart_beat_index / num_hb_to_do are left alone, `current_heart_beat = 0;` -/
theorem gen_roundSkip_eq (idx todo cur : Int) : NV.Gen.C11.roundSkip idx todo cur = (idx, todo, 0) := rfl

/-- **statements around the call of heart_beat()**: current_heart_beat, command_giver (only for living objects) and
    eval_cost are set up in front of every call; command_giver is cleared after it -/
theorem gen_callFrame_eq : NV.Gen.C11.callFrame = [1, 2, 3, 4, 0, 5, 6] := rfl

/-- **error_handler**: the catch branch leaves first, the heart-beat switch-off comes before the final longjmp -/
theorem gen_errOrder_eq : NV.Gen.C11.errOrder = [0, 1, 2] := rfl

/-- **error_handler, `if (current_heart_beat)` block**: `set_heart_beat (current_heart_beat, 0); current_heart_beat = 0;` -/
theorem gen_errBlock_eq : NV.Gen.C11.errBlock = [1, 2] := rfl

/-- error_handler in the hand-written form that the invariant proofs unfold -/
def errorHandlerRef (w : World) : World :=
  match w.cur with
  | some c => { setHeartBeat w c 0 with cur := none }
  | none => w

theorem errorHandler_eq_ref (w : World) : errorHandler w = errorHandlerRef w := by
  unfold errorHandler errorHandlerRef
  rw [gen_errBlock_eq]
  cases hc : w.cur with
  | none => rfl
  | some c => simp only [List.foldl, errStmt, hc]

theorem finish_ref (w : World) : finish w = { w with idx := 0, todo := 0, cur := none } := by
  unfold finish leave
  rw [gen_roundExit_eq]
  rfl

/-- the statements in front of the call: whatever ran before (another heart_beat that enabled commands, used up its
    evaluation cost or raised an error), the called object starts with command_giver = itself iff it is living, and a
    fresh evaluation cost -/
theorem callSetup_ref (w : World) (ob : Nat) :
    callSetup w ob = { w with cur := some ob, cg := if w.living.contains ob then some ob else none, ec := true } := by
  unfold callSetup
  rw [gen_callFrame_eq]
  have h : ([1, 2, 3, 4, 0, 5, 6] : List Nat).takeWhile (· != 0) = [1, 2, 3, 4] := by decide
  rw [h]
  simp only [List.foldl, frameStmt]
  cases hl : w.living.contains ob <;> simp

theorem callAfter_ref (w : World) (ob : Nat) : callAfter w ob = { w with cg := none } := by
  unfold callAfter
  rw [gen_callFrame_eq]
  have h : (([1, 2, 3, 4, 0, 5, 6] : List Nat).dropWhile (· != 0)).drop 1 = [5, 6] := by decide
  rw [h]
  rfl

theorem hbOn_iff (tf : Int) : hbOn tf = true ↔
    (tf / ((NV.Gen.C11.timerFlagHeartbeat : Nat) : Int)) % 2 * ((NV.Gen.C11.timerFlagHeartbeat : Nat) : Int) ≠ 0 := by
  unfold hbOn
  have hF : (0 : Int) < ((NV.Gen.C11.timerFlagHeartbeat : Nat) : Int) := by decide
  simp only [decide_eq_true_eq]
  constructor
  · intro h hx
    rcases Int.mul_eq_zero.mp hx with h1 | h2
    · exact h h1
    · omega
  · intro h hx
    apply h
    rw [hx, Int.zero_mul]

theorem destructLeaf_ref (w : World) (t : Nat) :
    destructLeaf w t = { setHeartBeat w t 0 with dead := t :: (setHeartBeat w t 0).dead,
                                                 inv := (setHeartBeat w t 0).inv.filter (fun p => p.1 != t) } := by
  unfold destructLeaf; rw [gen_destructOrder_eq]; rfl

theorem destructFull_ref (w : World) (t : Nat) :
    destructFull w t =
      if (hooksPhase w t).2.2 = .err then ((hooksPhase w t).1, (hooksPhase w t).2.1, .err)
      else if (hooksPhase w t).1.alive t then (destructLeaf (hooksPhase w t).1 t, (hooksPhase w t).2.1, .ok)
      else ((hooksPhase w t).1, (hooksPhase w t).2.1, .stop) := by
  unfold destructFull destructLeaf
  rw [gen_destructOrder_eq]
  simp only [List.foldl, fullPhase, leafPhase, if_true, List.nil_append]
  rcases hh : hooksPhase w t with ⟨w1, e1, st⟩
  cases st <;> cases hat : w1.alive t <;> simp [hat]

theorem cursorStep_ref (w : World) :
    cursorStep w = ({ w with idx := w.idx + 1 }, decide (w.idx + 1 = w.todo) || w.flag) := by
  unfold cursorStep
  simp only [gen_loopStep_eq, gen_loopContinues_eq, Bool.not_not]

/-- set_heart_beat in the hand-written form that the invariant proofs (NV/C11/Sim.lean) unfold -/
def setHeartBeatRef (w : World) (ob : Nat) (to : Int) : World :=
  if w.dead.contains ob then w
  else
    let to := if to > shrtMax then shrtMax else to
    if to = 0 then
      match idxOf ob w.hbs with
      | none => w
      | some index =>
        let w1 :=
          if w.todo ≠ 0 then
            { w with idx := if (index : Int) ≤ w.idx then w.idx - 1 else w.idx,
                     todo := if (index : Int) < w.todo then w.todo - 1 else w.todo }
          else w
        { w1 with hbs := w1.hbs.eraseIdx index }
    else if hasOb ob w.hbs then
      if to < 0 then w
      else
        match idxOf ob w.hbs with
        | none => w
        | some index => { w with hbs := w.hbs.set index { ob := ob, ticks := wrap16 to, interval := wrap16 to } }
    else
      let cap := if w.cap = 0 then chunk else if w.hbs.length = w.cap then w.cap + chunk else w.cap
      if w.hbs.length < cap then
        let to := if to < 0 then 1 else to
        { w with cap := cap, hbs := w.hbs ++ [{ ob := ob, ticks := wrap16 to, interval := wrap16 to }] }
      else { w with crashed := true }


theorem setHeartBeat_eq_ref (w : World) (ob : Nat) (to : Int) : setHeartBeat w ob to = setHeartBeatRef w ob to := by
  unfold setHeartBeat setHeartBeatRef
  simp only [gen_clampTo_eq, gen_rmCompensate_eq, gen_appendStore_eq, gen_trunc16_eq, gen_retuneStore_eq, gen_growCap_eq,
    decide_eq_true_eq]
  cases hidx : idxOf ob w.hbs with
  | none => rfl
  | some index =>
    have hmv := applyMove_eq_erase w.hbs index (idxOf_lt hidx)
    by_cases htodo : w.todo = 0
    · simp [htodo, hmv]
    · simp [htodo, hmv]

/-- the round loop in the hand-written form that the invariant proofs unfold -/
def roundRef (sc : Scripts) : Nat → World → World × List Ev
  | 0, w => crash w "round-does-not-terminate"
  | fuel + 1, w =>
    if w.idx < 0 then crash w "heart_beats-index-negative"
    else
      match w.hbs[w.idx.toNat]? with
      | none => crash w "heart_beats-index-beyond-num_hb_objs"
      | some hb =>
        let t := wrap16 (hb.ticks - 1)
        if !w.nofn.contains hb.ob && decide (t < 1) then
          let cx : Ev := .ctx hb.ob (w.living.contains hb.ob) (if w.living.contains hb.ob then some hb.ob else none) true
          let w1 := { w with hbs := w.hbs.set w.idx.toNat { hb with ticks := hb.interval }, cur := some hb.ob,
                             cg := if w.living.contains hb.ob then some hb.ob else none, ec := true,
                             nb := fun o => if o = hb.ob then w.nb o + 1 else w.nb o }
          match runOps w1 hb.ob (sc hb.ob (w.nb hb.ob)) with
          | (w2, evs, .err) => ({ errorEntry w2 with cg := none }, .beat hb.ob :: cx :: evs ++ [.tickAbort])
          | (w2, evs, _) =>
            let w3 := { w2 with cg := none, idx := w2.idx + 1 }
            if w3.idx = w3.todo || w3.flag then (finish w3, .beat hb.ob :: cx :: evs ++ [.beatEnd hb.ob, .tickEnd])
            else
              match roundRef sc fuel w3 with
              | (w4, evs') => (w4, .beat hb.ob :: cx :: evs ++ .beatEnd hb.ob :: evs')
        else
          let w1 := { w with hbs := w.hbs.set w.idx.toNat { hb with ticks := t }, idx := w.idx + 1 }
          if w1.idx = w1.todo || w1.flag then (finish w1, [.tickEnd])
          else roundRef sc fuel w1


theorem round_eq_ref (sc : Scripts) : ∀ (fuel : Nat) (w : World), round sc fuel w = roundRef sc fuel w := by
  intro fuel
  induction fuel with
  | zero => intro w; rfl
  | succ fuel ih =>
    intro w
    unfold round roundRef
    by_cases hneg : w.idx < 0
    · simp only [hneg, if_true]
    · simp only [hneg, if_false]
      cases hget : w.hbs[w.idx.toNat]? with
      | none => rfl
      | some hb =>
        have hb1 : (if w.nofn.contains hb.ob = true then (-1 : Int) else 0) = (if !w.nofn.contains hb.ob then 0 else -1) := by
          cases w.nofn.contains hb.ob <;> rfl
        simp only [hb1, gen_hbBody_eq, cursorStep_ref, ih, callSetup_ref, callAfter_ref, ctxEv]
        cases hf : (!w.nofn.contains hb.ob && decide (wrap16 (hb.ticks - 1) < 1)) with
        | false => simp [hf]
        | true =>
          simp only [hf, if_true]
          generalize runOps _ hb.ob _ = r
          rcases r with ⟨w2, evs, st⟩
          cases st <;> simp

/-- call_heart_beat in the hand-written form that the invariant proofs unfold -/
def tickRef (sc : Scripts) (w : World) : World × List Ev :=
  if hbOn w.tflags then
    if (w.hbs.length : Int) > 0 then
      match round sc w.hbs.length { w with flag := false, idx := 0, todo := (w.hbs.length : Int) } with
      | (w', evs) => (w', .tickBegin :: evs)
    else ({ w with flag := false, todo := (w.hbs.length : Int), cur := none }, [.tickBegin, .tickEnd])
  else ({ w with flag := false, todo := (w.hbs.length : Int), cur := none }, [.tickOff, .tickEnd])

theorem tick_eq_ref (sc : Scripts) (w : World) : tickRound sc w = tickRef sc w := by
  unfold tickRound tickRef leave
  simp only [gen_roundEntry_eq, gen_roundSkip_eq]
  cases hon : hbOn w.tflags with
  | true =>
    have hb := (hbOn_iff w.tflags).mp hon
    by_cases hpos : (w.hbs.length : Int) > 0
    · have he : enters (w.hbs.length : Int) w.tflags := ⟨hb, hpos⟩
      rw [decide_eq_true he, if_pos he, if_pos rfl, if_pos rfl, if_pos hpos, if_pos rfl]
      rfl
    · have he : ¬ enters (w.hbs.length : Int) w.tflags := fun h => hpos h.2
      rw [decide_eq_false he, if_neg he, if_neg (by decide), if_pos rfl, if_neg hpos, if_pos rfl]
      rfl
  | false =>
    have hb : ¬ ((w.tflags / ((NV.Gen.C11.timerFlagHeartbeat : Nat) : Int)) % 2 * ((NV.Gen.C11.timerFlagHeartbeat : Nat) : Int) ≠ 0) := by
      intro h; have := (hbOn_iff w.tflags).mpr h; rw [hon] at this; cases this
    have he : ¬ enters (w.hbs.length : Int) w.tflags := fun h => hb h.1
    rw [decide_eq_false he, if_neg he]
    simp only [Bool.false_eq_true, if_false, if_true]
    rfl

end NV.C11
