/-
C11 — negative examples: traces the specification oracle must REJECT, per clause (theorem audit: the oracle does not
accept what it should not).  Objects 2, 3, 4 are clones; `.clone 0 x 0 n q` = object 0 clones x with set_heart_beat(n).
-/
import NV.C11.Spec

namespace NV.C11

private def pop : List Ev := [.clone 0 2 0 1 1, .clone 0 3 0 1 1, .clone 0 4 0 2 2]

-- clause "at most once per tick"
example : judgeEv (pop ++ [.tickBegin, .beat 2, .beatEnd 2, .beat 2]) ≠ [] := by decide
example : judgeEv (pop ++ [.tickBegin, .beat 2, .beatEnd 2, .beat 3, .beatEnd 3, .beat 2, .beatEnd 2, .tickEnd]) ≠ [] := by decide
-- clause "exactly once every n ticks in rounds that complete": missing beat, early beat, wrong order
example : judgeEv (pop ++ [.tickBegin, .beat 2, .beatEnd 2, .tickEnd]) ≠ [] := by decide              -- 3 missed
example : judgeEv (pop ++ [.tickBegin, .beat 3, .beatEnd 3, .beat 2, .beatEnd 2, .tickEnd]) ≠ [] := by decide   -- out of turn
example : judgeEv (pop ++ [.tickBegin, .beat 2, .beatEnd 2, .beat 3, .beatEnd 3, .beat 4, .beatEnd 4, .tickEnd]) ≠ [] := by
  decide                                                                                              -- 4 (interval 2) early
example : judgeEv (pop ++ [.tickBegin, .beat 2, .beatEnd 2, .beat 3, .beatEnd 3, .tickEnd,
                           .tickBegin, .beat 2, .beatEnd 2, .beat 3, .beatEnd 3, .tickEnd]) ≠ [] := by decide   -- 4 missed in tick 2
example : judgeEv (pop ++ [.tickBegin, .tickEnd]) ≠ [] := by decide                                    -- nobody beat
-- clause "objects enabled during the round are not visited in it"
example : judgeEv (pop ++ [.tickBegin, .beat 2, .clone 2 5 0 1 1, .beatEnd 2, .beat 3, .beatEnd 3, .beat 5]) ≠ [] := by decide
-- clause "disabled / destructed is not called again"
example : judgeEv (pop ++ [.shb 0 2 0 0, .tickBegin, .beat 2]) ≠ [] := by decide
example : judgeEv (pop ++ [.dest 0 3, .tickBegin, .beat 2, .beatEnd 2, .beat 3]) ≠ [] := by decide
example : judgeEv (pop ++ [.tickBegin, .beat 2, .shb 2 3 0 0, .beatEnd 2, .beat 3]) ≠ [] := by decide  -- disabled earlier in the round
example : judgeEv (pop ++ [.into 3 2, .hook 3 2, .shb 3 2 1 1, .hookEnd 3, .dest 0 2, .tickBegin, .beat 2]) ≠ [] := by decide
example : judgeEv (pop ++ [.into 3 2, .hook 3 2, .hookEnd 3, .dest 0 2, .tickBegin, .beat 3]) ≠ [] := by decide   -- item destructed by the driver
-- clause "an error switches off only the failing object"
example : judgeEv (pop ++ [.tickBegin, .beat 2, .err 2, .tickAbort, .tickBegin, .beat 2]) ≠ [] := by decide   -- failing one beats again
example : judgeEv (pop ++ [.tickBegin, .beat 2, .err 2, .tickAbort, .hbs 0 [4]]) ≠ [] := by decide           -- 3 lost too
example : judgeEv (pop ++ [.tickBegin, .beat 2, .err 2, .beat 3]) ≠ [] := by decide                          -- round not abandoned
example : judgeEv (pop ++ [.tickBegin, .beat 2, .beatEnd 2, .tickAbort]) ≠ [] := by decide                   -- abort without error
-- clause "query_heart_beat / heart_beats answers"
example : judgeEv [.clone 0 2 0 40000 (-25536)] ≠ [] := by decide                                             -- the truncation defect
example : judgeEv [.clone 0 2 0 65536 0] ≠ [] := by decide
example : judgeEv (pop ++ [.query 0 4 1]) ≠ [] := by decide
example : judgeEv (pop ++ [.hbs 0 [2, 3, 4]]) ≠ [] := by decide                                               -- wrong order
example : judgeEv (pop ++ [.shb 0 2 (-3) 0]) ≠ [] := by decide                                                -- negative on enabled: ignored
-- clause "cloning switches off the blueprint"
example : judgeEv [.shb 0 0 1 1, .clone 0 2 0 1 1, .query 0 0 1] ≠ [] := by decide
-- timer truncation: no beat after the timer fired in this round
example : judgeEv (pop ++ [.tickBegin, .beat 2, .flag 2, .beatEnd 2, .beat 3]) ≠ [] := by decide
-- structural
example : judgeEv [.tickBegin, .tickBegin] ≠ [] := by decide
example : judgeEv [.junk "crash"] ≠ [] := by decide
example : judgeEv (pop ++ [.shb 0 9 1 1]) ≠ [] := by decide                                                    -- unknown object
-- and the corresponding good traces are accepted
example : judgeEv (pop ++ [.tickBegin, .beat 2, .beatEnd 2, .beat 3, .beatEnd 3, .tickEnd,
                           .tickBegin, .beat 2, .beatEnd 2, .beat 3, .beatEnd 3, .beat 4, .beatEnd 4, .tickEnd]) = [] := by decide
example : judgeEv (pop ++ [.tickBegin, .beat 2, .err 2, .tickAbort, .hbs 0 [4, 3], .tickBegin, .beat 3, .beatEnd 3, .tickEnd]) = [] := by
  decide

-- clause "every heart_beat starts from a clean context" (command_giver only for living objects, fresh evaluation cost)
example : judgeEv (pop ++ [.tickBegin, .beat 2, .ctx 2 false (some 2) true]) ≠ [] := by decide     -- not living, yet this_player() = itself
example : judgeEv (pop ++ [.living 3, .tickBegin, .beat 2, .ctx 2 false (some 3) true]) ≠ [] := by decide   -- a stranger leaked in
example : judgeEv (pop ++ [.living 2, .tickBegin, .beat 2, .ctx 2 true none true]) ≠ [] := by decide      -- living, but no command_giver
example : judgeEv (pop ++ [.tickBegin, .beat 2, .burn 2, .beatEnd 2, .beat 3, .ctx 3 false none false]) ≠ [] := by decide   -- cost not reset
example : judgeEv (pop ++ [.tickBegin, .beat 2, .ctx 3 false none true]) ≠ [] := by decide                 -- context of somebody else
example : judgeEv (pop ++ [.ctx 2 false none true]) ≠ [] := by decide                                      -- outside a heart_beat
-- clause "a caught error switches nothing off"
example : judgeEv (pop ++ [.tickBegin, .beat 2, .caught 2, .hbs 2 [4, 3]]) ≠ [] := by decide
example : judgeEv (pop ++ [.tickBegin, .beat 2, .caught 2, .beatEnd 2, .tickAbort]) ≠ [] := by decide      -- no abort without an uncaught error
-- clause "reload_object = switch off, then create() again"
example : judgeEv (pop ++ [.reload 0 2 1 1, .hbs 0 [4, 3, 2]]) ≠ [] := by decide                            -- kept its old place
example : judgeEv (pop ++ [.reload 0 2 0 1]) ≠ [] := by decide                                             -- still enabled
example : judgeEv (pop ++ [.tickBegin, .beat 2, .reload 2 3 1 1, .beatEnd 2, .beat 3]) ≠ [] := by decide    -- re-enabled during the round: not served in it
example : judgeEv (pop ++ [.reload 0 2 1 1, .reload 0 2 1 1, .hbs 0 [2, 2, 4, 3]]) ≠ [] := by decide          -- double entry
-- clause "a replaced program has no heart_beat: on the list, never called; swapped between rounds only"
example : judgeEv (pop ++ [.rp 2, .rpDone 2, .tickBegin, .beat 2]) ≠ [] := by decide
example : judgeEv (pop ++ [.rp 2, .rpDone 2, .hbs 0 [4, 3]]) ≠ [] := by decide                              -- must stay on the list
example : judgeEv (pop ++ [.tickBegin, .beat 2, .rp 2, .rpDone 2]) ≠ [] := by decide                        -- inside a round
-- clause "no round while timer_flags has no TIMER_FLAG_HEARTBEAT"
example : judgeEv (pop ++ [.tflags 0, .tickOff, .beat 2]) ≠ [] := by decide
example : judgeEv (pop ++ [.tflags 0, .tickOff, .tickEnd, .hbs 0 []]) ≠ [] := by decide                       -- the list is kept
example : judgeEv (pop ++ [.tickBegin, .beat 2, .tickOff]) ≠ [] := by decide
-- accepted counterparts
example : judgeEv (pop ++ [.living 2, .tickBegin, .beat 2, .ctx 2 true (some 2) true, .burn 2, .caught 2, .beatEnd 2, .beat 3,
                           .ctx 3 false none true, .reload 3 3 2 2, .rp 3, .beatEnd 3, .tickEnd, .hbs 0 [3, 4, 2]]) = [] := by
  decide
example : judgeEv (pop ++ [.rp 3, .rpDone 3, .tflags 0, .tickOff, .tickEnd, .tflags 2, .tickBegin, .beat 2,
                           .ctx 2 false none true, .beatEnd 2, .tickEnd, .hbs 0 [4, 3, 2]]) = [] := by
  decide

-- clause "no heart_beat object stays behind as command_giver after a pass of the backend loop"
example : judgeEv (pop ++ [.living 2, .tickBegin, .beat 2, .ctx 2 true (some 2) true, .beatEnd 2, .beat 3, .ctx 3 false none true,
                           .beatEnd 3, .tickEnd, .cgAfter (some 2)]) ≠ [] := by decide
example : judgeEv (pop ++ [.tickBegin, .beat 2, .err 2, .tickAbort, .cgAfter (some 2)]) ≠ [] := by decide
-- clause "a tick served right after an abandoned round is a round of its own" / "pass limit only between rounds"
example : judgeEv (pop ++ [.tickBegin, .beat 2, .flag 2, .err 2, .tickAbort, .beat 3]) ≠ [] := by decide     -- no tickBegin
example : judgeEv (pop ++ [.tickBegin, .beat 2, .passLimit]) ≠ [] := by decide
-- clause "an item that moved away in move_or_destruct() survives; one that is reported moved must exist"
example : judgeEv (pop ++ [.into 3 2, .hook 3 2, .moved 3 4, .hookMoved 3, .dest 0 2, .hbs 0 [4]]) ≠ [] := by decide   -- o3 must still beat
example : judgeEv (pop ++ [.into 3 2, .hook 3 2, .dest 3 3, .hookMoved 3]) ≠ [] := by decide
-- clause "a refused destruct inside move_or_destruct() is an uncaught error": inside a heart_beat it abandons the round
example : judgeEv (pop ++ [.into 3 2, .tickBegin, .beat 2, .beatEnd 2, .beat 4, .hook 3 2, .errR, .beatEnd 4]) ≠ [] := by decide
example : judgeEv (pop ++ [.into 3 2, .tickBegin, .beat 2, .beatEnd 2, .beat 3, .beatEnd 3, .tickEnd,
                           .tickBegin, .beat 2, .beatEnd 2, .beat 3, .beatEnd 3, .beat 4, .hook 3 2, .errR, .tickAbort, .cgAfter none,
                           .hbs 0 [3, 2]]) = [] := by decide

end NV.C11
