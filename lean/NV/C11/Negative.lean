/-
C11 — negative examples: traces the specification oracle must REJECT, per clause (theorem audit: the oracle does not
accept what it should not).  Objects 2, 3, 4 are clones; `.clone 0 x 0 n q` = object 0 clones x with set_heart_beat(n).
-/
import NV.C11.Spec

namespace NV.C11

private def pop : List Ev := [.clone 0 2 0 1 1, .clone 0 3 0 1 1, .clone 0 4 0 2 2]

-- clause "at most once per tick"
example : judgeEv (pop ++ [.tickBegin, .beat 2, .beatEnd 2, .beat 2]) ≠ [] := by decide
example : judgeEv (pop ++ [.tickBegin, .beat 2, .beatEnd 2, .beat 3, .beatEnd 3, .beat 2, .beatEnd 2, .tickEnd]) ≠ [] := by decide
-- clause "exactly once every n ticks in rounds that complete": missing beat, early beat, wrong order
example : judgeEv (pop ++ [.tickBegin, .beat 2, .beatEnd 2, .tickEnd]) ≠ [] := by decide              -- 3 missed
example : judgeEv (pop ++ [.tickBegin, .beat 3, .beatEnd 3, .beat 2, .beatEnd 2, .tickEnd]) ≠ [] := by decide   -- out of turn
example : judgeEv (pop ++ [.tickBegin, .beat 2, .beatEnd 2, .beat 3, .beatEnd 3, .beat 4, .beatEnd 4, .tickEnd]) ≠ [] := by
  decide                                                                                              -- 4 (interval 2) early
example : judgeEv (pop ++ [.tickBegin, .beat 2, .beatEnd 2, .beat 3, .beatEnd 3, .tickEnd,
                           .tickBegin, .beat 2, .beatEnd 2, .beat 3, .beatEnd 3, .tickEnd]) ≠ [] := by decide   -- 4 missed in tick 2
example : judgeEv (pop ++ [.tickBegin, .tickEnd]) ≠ [] := by decide                                    -- nobody beat
-- clause "objects enabled during the round are not visited in it"
example : judgeEv (pop ++ [.tickBegin, .beat 2, .clone 2 5 0 1 1, .beatEnd 2, .beat 3, .beatEnd 3, .beat 5]) ≠ [] := by decide
-- clause "disabled / destructed is not called again"
example : judgeEv (pop ++ [.shb 0 2 0 0, .tickBegin, .beat 2]) ≠ [] := by decide
example : judgeEv (pop ++ [.dest 0 3, .tickBegin, .beat 2, .beatEnd 2, .beat 3]) ≠ [] := by decide
example : judgeEv (pop ++ [.tickBegin, .beat 2, .shb 2 3 0 0, .beatEnd 2, .beat 3]) ≠ [] := by decide  -- disabled earlier in the round
example : judgeEv (pop ++ [.into 3 2, .hook 3 2, .shb 3 2 1 1, .hookEnd 3, .dest 0 2, .tickBegin, .beat 2]) ≠ [] := by decide
example : judgeEv (pop ++ [.into 3 2, .hook 3 2, .hookEnd 3, .dest 0 2, .tickBegin, .beat 3]) ≠ [] := by decide   -- item destructed by the driver
-- clause "an error switches off only the failing object"
example : judgeEv (pop ++ [.tickBegin, .beat 2, .err 2, .tickAbort, .tickBegin, .beat 2]) ≠ [] := by decide   -- failing one beats again
example : judgeEv (pop ++ [.tickBegin, .beat 2, .err 2, .tickAbort, .hbs 0 [4]]) ≠ [] := by decide           -- 3 lost too
example : judgeEv (pop ++ [.tickBegin, .beat 2, .err 2, .beat 3]) ≠ [] := by decide                          -- round not abandoned
example : judgeEv (pop ++ [.tickBegin, .beat 2, .beatEnd 2, .tickAbort]) ≠ [] := by decide                   -- abort without error
-- clause "query_heart_beat / heart_beats answers"
example : judgeEv [.clone 0 2 0 40000 (-25536)] ≠ [] := by decide                                             -- the truncation defect
example : judgeEv [.clone 0 2 0 65536 0] ≠ [] := by decide
example : judgeEv (pop ++ [.query 0 4 1]) ≠ [] := by decide
example : judgeEv (pop ++ [.hbs 0 [2, 3, 4]]) ≠ [] := by decide                                               -- wrong order
example : judgeEv (pop ++ [.shb 0 2 (-3) 0]) ≠ [] := by decide                                                -- negative on enabled: ignored
-- clause "cloning switches off the blueprint"
example : judgeEv [.shb 0 0 1 1, .clone 0 2 0 1 1, .query 0 0 1] ≠ [] := by decide
-- timer truncation: no beat after the timer fired in this round
example : judgeEv (pop ++ [.tickBegin, .beat 2, .flag 2, .beatEnd 2, .beat 3]) ≠ [] := by decide
-- structural
example : judgeEv [.tickBegin, .tickBegin] ≠ [] := by decide
example : judgeEv [.junk "crash"] ≠ [] := by decide
example : judgeEv (pop ++ [.shb 0 9 1 1]) ≠ [] := by decide                                                    -- unknown object
-- and the corresponding good traces are accepted
example : judgeEv (pop ++ [.tickBegin, .beat 2, .beatEnd 2, .beat 3, .beatEnd 3, .tickEnd,
                           .tickBegin, .beat 2, .beatEnd 2, .beat 3, .beatEnd 3, .beat 4, .beatEnd 4, .tickEnd]) = [] := by decide
example : judgeEv (pop ++ [.tickBegin, .beat 2, .err 2, .tickAbort, .hbs 0 [4, 3], .tickBegin, .beat 3, .beatEnd 3, .tickEnd]) = [] := by
  decide

end NV.C11
