/-
C11 — trace-level clauses.  Two predicates on event traces that mention neither the model nor the oracle state:

  beatsOnce     between two `tickBegin` no object has two `beat` events
  calledOnlyOn  after `dest _ t`, `hookEnd t` (the driver destructed the item t of a dying carrier) or `shb _ t 0 _` (t destructed / t switched its heart beat off) there is no `beat t`
                until a later `shb _ t n _` with n ≠ 0 (or t is created by a later clone event)

`accepted_trace_ok`: every trace that the oracle accepts (`judgeEv tr = []`) satisfies both - for real driver traces
as well as model traces.  With `model_satisfies_spec` this gives `at_most_once_per_tick` and
`disabled_or_destructed_never_called` for every run of the model.
-/
import NV.C11.Props
import NV.C11.Search

namespace NV.C11

/-! ### the trace predicates -/

def seenStep (seen : List Nat) : Ev → List Nat
  | .tickBegin => []
  | .tickOff => []
  | .beat o => o :: seen
  | _ => seen

def offStep (off : List Nat) : Ev → List Nat
  | .dest _ t => t :: off
  | .hookEnd t => t :: off
  | .shb _ t n _ => if n = 0 then t :: off else off.filter (· ≠ t)
  | .clone _ new _ _ _ => off.filter (· ≠ new)
  | .reload _ t n _ => if n = 0 then t :: off else off.filter (· ≠ t)
  | .zshb s _ => off.filter (· ≠ s)
  | _ => off

def beatFresh (seen : List Nat) : Ev → Bool
  | .beat o => !seen.contains o
  | _ => true

def beatAllowed (off : List Nat) : Ev → Bool
  | .beat o => !off.contains o
  | _ => true

/-- no object beats twice in one tick (`seen` = objects that already beat in the current tick) -/
def beatsOnce (seen : List Nat) : List Ev → Bool
  | [] => true
  | e :: r => beatFresh seen e && beatsOnce (seenStep seen e) r

/-- no beat of an object that is switched off or destructed according to the trace itself -/
def calledOnlyOn (off : List Nat) : List Ev → Bool
  | [] => true
  | e :: r => beatAllowed off e && calledOnlyOn (offStep off e) r

/-! ### list facts -/

theorem hasOb_iff_mem (x : Nat) (l : List Entry) : hasOb x l = true ↔ x ∈ l.map (·.ob) := by
  induction l with
  | nil => simp [hasOb]
  | cons e r ih =>
    rw [hasOb_cons]
    simp only [Bool.or_eq_true, beq_iff_eq, List.map_cons, List.mem_cons, ih]
    constructor
    · rintro (h | h)
      · exact Or.inl h.symm
      · exact Or.inr h
    · rintro (h | h)
      · exact Or.inl h.symm
      · exact Or.inr h

theorem hasOb_false_iff (x : Nat) (l : List Entry) : hasOb x l = false ↔ x ∉ l.map (·.ob) := by
  rw [← hasOb_iff_mem]; cases hasOb x l <;> simp

theorem rmFirst_obs_sublist (x : Nat) (l : List Entry) : ((rmFirst x l).map (·.ob)).Sublist (l.map (·.ob)) := by
  induction l with
  | nil => exact List.Sublist.slnil
  | cons e r ih =>
    by_cases he : e.ob = x
    · simp only [rmFirst, he, if_true, List.map_cons]; exact List.sublist_cons_self _ _
    · simp only [rmFirst, he, if_false, List.map_cons]; exact List.Sublist.cons₂ _ ih

theorem retune_obs (x : Nat) (t : Int) (l : List Entry) : (retune x t l).map (·.ob) = l.map (·.ob) := by
  induction l with
  | nil => rfl
  | cons e r ih =>
    by_cases he : e.ob = x
    · simp [retune, he]
    · simp [retune, he, ih]

theorem rmFirst_not_mem_of_nodup (x : Nat) (l : List Entry) (h : (l.map (·.ob)).Nodup) :
    x ∉ (rmFirst x l).map (·.ob) := by
  induction l with
  | nil => simp [rmFirst]
  | cons e r ih =>
    simp only [List.map_cons, List.nodup_cons] at h
    by_cases he : e.ob = x
    · simp only [rmFirst, he, if_true]; rw [← he]; exact h.1
    · simp only [rmFirst, he, if_false, List.map_cons, List.mem_cons, not_or]
      exact ⟨fun h' => he h'.symm, ih h.2⟩

/-- what a round does to the object lists: the objects of done ++ pend are unchanged as a list, the remaining
    `pend` is a suffix, and the object announced as beating is in the consumed prefix -/
theorem advanceL_obs (nofn : List Nat) (tr : Bool) : ∀ (pend done : List Entry),
    ((advanceL nofn tr done pend).1 ++ (advanceL nofn tr done pend).2.1).map (·.ob) = (done ++ pend).map (·.ob) ∧
    ∃ pre, pend.map (·.ob) = pre ++ (advanceL nofn tr done pend).2.1.map (·.ob) ∧
      (∀ o, (advanceL nofn tr done pend).2.2 = some o → o ∈ pre ∧ hasOb o (advanceL nofn tr done pend).1 = true) := by
  intro pend
  induction pend with
  | nil => intro done; exact ⟨by simp [advanceL], [], by simp [advanceL]⟩
  | cons x rest ih =>
    intro done
    rw [advanceL_cons]
    have hs : (served nofn x).ob = x.ob := by
      unfold served serve; split
      · rfl
      · split <;> rfl
    by_cases h1 : (!nofn.contains x.ob && (serve x).2) = true
    · rw [if_pos h1]
      refine ⟨by simp [hs], [x.ob], by simp, ?_⟩
      intro o ho
      simp only [Option.some.injEq] at ho
      subst ho
      refine ⟨by simp, ?_⟩
      rw [hasOb_iff_mem]; simp [hs]
    · rw [if_neg h1]
      by_cases h2 : (rest.isEmpty || tr) = true
      · rw [if_pos h2]
        exact ⟨by simp [hs], [x.ob], by simp, by intro o ho; cases ho⟩
      · rw [if_neg h2]
        obtain ⟨a, pre, b, c⟩ := ih (done ++ [served nofn x])
        refine ⟨?_, x.ob :: pre, ?_, ?_⟩
        · rw [a]; simp [hs]
        · simp [b]
        · intro o ho
          obtain ⟨c1, c2⟩ := c o ho
          exact ⟨List.mem_cons_of_mem _ c1, c2⟩

/-! ### the oracle invariant that carries both clauses -/

structure JI (j : JState) (seen off : List Nat) : Prop where
  nodup : (j.all.map (·.ob)).Nodup
  hseen : ∀ o ∈ seen, hasOb o j.pend = false
  hoff : ∀ o ∈ off, hasOb o j.all = false
  exp : ∀ o, j.expect = .beat o → o ∉ seen ∧ hasOb o j.pend = false ∧ o ∉ off

theorem hasOb_false_of_sublist {x : Nat} {l l' : List Entry} (hs : (l'.map (·.ob)).Sublist (l.map (·.ob)))
    (h : hasOb x l = false) : hasOb x l' = false := by
  rw [hasOb_false_iff] at *
  exact fun hm => h (hs.subset hm)

theorem JI_off_mono {j : JState} {seen off off' : List Nat} (h : JI j seen off) (hs : ∀ o ∈ off', o ∈ off) :
    JI j seen off' :=
  ⟨h.nodup, h.hseen, fun o ho => h.hoff o (hs o ho), fun o ho =>
    let ⟨a, b, c⟩ := h.exp o ho; ⟨a, b, fun hc => c (hs o hc)⟩⟩

/-- a state transformation that only shrinks the object lists (in place) and keeps `expect` preserves the invariant -/
theorem JI_shrink {j j' : JState} {seen off : List Nat} (h : JI j seen off)
    (hd : (j'.done.map (·.ob)).Sublist (j.done.map (·.ob)))
    (hp : (j'.pend.map (·.ob)).Sublist (j.pend.map (·.ob)))
    (hl : (j'.late.map (·.ob)).Sublist (j.late.map (·.ob)))
    (he : ∀ o, j'.expect = .beat o → j.expect = .beat o) : JI j' seen off := by
  have hall : (j'.all.map (·.ob)).Sublist (j.all.map (·.ob)) := by
    simp only [JState.all, List.map_append]
    exact (hd.append hp).append hl
  refine ⟨h.nodup.sublist hall, ?_, ?_, ?_⟩
  · intro o ho; exact hasOb_false_of_sublist hp (h.hseen o ho)
  · intro o ho; exact hasOb_false_of_sublist hall (h.hoff o ho)
  · intro o ho
    obtain ⟨a, b, c⟩ := h.exp o (he o ho)
    exact ⟨a, hasOb_false_of_sublist hp b, c⟩

theorem jDisable_all (j : JState) (x : Nat) : (jDisable j x).all = rmFirst x j.all := by
  unfold jDisable JState.all
  cases hd : hasOb x j.done with
  | true => simp only [if_true, List.append_assoc]; rw [rmFirst_append_left hd]
  | false =>
    simp only [Bool.false_eq_true, if_false]
    cases hp : hasOb x j.pend with
    | true =>
      simp only [if_true, List.append_assoc]
      rw [rmFirst_append_right hd, rmFirst_append_left hp]
    | false =>
      simp only [Bool.false_eq_true, if_false, List.append_assoc]
      rw [rmFirst_append_right hd, rmFirst_append_right hp]

theorem jDisable_segments (j : JState) (x : Nat) :
    ((jDisable j x).done.map (·.ob)).Sublist (j.done.map (·.ob)) ∧
    ((jDisable j x).pend.map (·.ob)).Sublist (j.pend.map (·.ob)) ∧
    ((jDisable j x).late.map (·.ob)).Sublist (j.late.map (·.ob)) := by
  unfold jDisable
  split
  · exact ⟨rmFirst_obs_sublist _ _, List.Sublist.refl _, List.Sublist.refl _⟩
  · split
    · exact ⟨List.Sublist.refl _, rmFirst_obs_sublist _ _, List.Sublist.refl _⟩
    · exact ⟨List.Sublist.refl _, List.Sublist.refl _, rmFirst_obs_sublist _ _⟩

/-- disabling x: x is off afterwards (entries are unique per object), nobody else is affected -/
theorem JI_jDisable {j : JState} {seen off : List Nat} (h : JI j seen off) (x : Nat)
    (hne : ∀ o, j.expect ≠ .beat o) : JI (jDisable j x) seen (x :: off) := by
  obtain ⟨sd, sp, sl⟩ := jDisable_segments j x
  have hf := jDisable_frame j x
  have h1 : JI (jDisable j x) seen off := JI_shrink h sd sp sl (fun o ho => by rw [hf.expect] at ho; exact ho)
  refine ⟨h1.nodup, h1.hseen, ?_, ?_⟩
  · intro o ho
    rcases List.mem_cons.mp ho with rfl | ho
    · rw [hasOb_false_iff, jDisable_all]; exact rmFirst_not_mem_of_nodup _ _ h.nodup
    · exact h1.hoff o ho
  · intro o ho; rw [hf.expect] at ho; exact absurd ho (hne o)

theorem JI_jDisableAlive {j : JState} {seen off : List Nat} (h : JI j seen off) (x : Nat)
    (hne : ∀ o, j.expect ≠ .beat o) : JI (jDisableAlive j x) seen off := by
  unfold jDisableAlive
  split
  · exact h
  · exact JI_off_mono (JI_jDisable h x hne) (fun o ho => List.mem_cons_of_mem _ ho)

theorem satEfun_eq_zero (n : Int) : satEfun n = 0 ↔ n = 0 := by
  have := shrtMax_val
  unfold satEfun
  split
  · omega
  · split <;> omega

theorem mem_filter_ne {off : List Nat} {x o : Nat} (h : o ∈ off.filter (· ≠ x)) : o ∈ off ∧ o ≠ x := by
  simpa using h

/-- set_heart_beat(n) by the live object x -/
theorem JI_jSet {j : JState} {seen off : List Nat} (h : JI j seen off) (x : Nat) (n : Int)
    (hne : ∀ o, j.expect ≠ .beat o) :
    JI (jSet j x n) seen (if n = 0 then x :: off else off.filter (· ≠ x)) := by
  have hf := jSet_frame j x n
  by_cases hn : n = 0
  · have : jSet j x n = jDisable j x := by unfold jSet; simp [(satEfun_eq_zero n).mpr hn]
    rw [this, if_pos hn]; exact JI_jDisable h x hne
  · rw [if_neg hn]
    have hz : ¬ satEfun n = 0 := fun hz => hn ((satEfun_eq_zero n).mp hz)
    have hsub : ∀ o ∈ off.filter (· ≠ x), o ∈ off := fun o ho => (mem_filter_ne ho).1
    have hexp : ∀ o, (jSet j x n).expect = .beat o → j.expect = .beat o := fun o ho => by rw [hf.expect] at ho; exact ho
    unfold jSet at hexp ⊢
    simp only [hz, if_false] at hexp ⊢
    cases hall : hasOb x j.all with
    | true =>
      simp only [hall, if_true] at hexp ⊢
      split
      · exact JI_off_mono h hsub
      · rename_i hneg
        simp only [hneg, if_false] at hexp
        split
        · rename_i hd; simp only [hd, if_true] at hexp
          exact JI_off_mono (JI_shrink h (by simp only [retune_obs]; exact List.Sublist.refl _) (List.Sublist.refl _)
            (List.Sublist.refl _) hexp) hsub
        · rename_i hd; simp only [hd, if_false] at hexp
          split
          · rename_i hp; simp only [hp, if_true] at hexp
            exact JI_off_mono (JI_shrink h (List.Sublist.refl _) (by simp only [retune_obs]; exact List.Sublist.refl _)
              (List.Sublist.refl _) hexp) hsub
          · rename_i hp; simp only [hp, if_false] at hexp
            exact JI_off_mono (JI_shrink h (List.Sublist.refl _) (List.Sublist.refl _)
              (by simp only [retune_obs]; exact List.Sublist.refl _) hexp) hsub
    | false =>
      simp only [hall, Bool.false_eq_true, if_false] at hexp ⊢
      have hx : x ∉ j.all.map (·.ob) := (hasOb_false_iff x j.all).mp hall
      refine ⟨?_, h.hseen, ?_, ?_⟩
      · simp only [JState.all, List.map_append, List.map_cons, List.map_nil]
        have : j.done.map (·.ob) ++ j.pend.map (·.ob) ++ (j.late.map (·.ob) ++ [x]) = j.all.map (·.ob) ++ [x] := by
          simp [JState.all]
        rw [this]
        rw [List.nodup_append]
        refine ⟨h.nodup, by simp, ?_⟩
        intro a ha b hb
        simp only [List.mem_singleton] at hb
        subst hb
        exact fun hab => hx (hab ▸ ha)
      · intro o ho
        obtain ⟨h1, h2⟩ := mem_filter_ne ho
        have := h.hoff o h1
        rw [hasOb_false_iff] at this ⊢
        simp only [JState.all, List.map_append, List.map_cons, List.map_nil, List.mem_append, List.mem_singleton] at this ⊢
        intro hm
        rcases hm with (hm | hm) | hm | hm
        · exact this (Or.inl (Or.inl hm))
        · exact this (Or.inl (Or.inr hm))
        · exact this (Or.inr hm)
        · exact h2 hm
      · intro o ho; exact absurd (hexp o ho) (hne o)

theorem hasOb_all (x : Nat) (j : JState) : hasOb x j.all = (hasOb x j.done || hasOb x j.pend || hasOb x j.late) := by
  simp [JState.all, hasOb_append, Bool.or_assoc]

/-- a round step: the announced object was pending (so it has not beaten in this tick), is no longer pending,
    and is enabled (so it is not off) -/
theorem JI_advance {j : JState} {seen off : List Nat} (h : JI j seen off) : JI (advance j) seen off := by
  obtain ⟨hobs, pre, hpre, hfire⟩ := advanceL_obs j.nofn j.trunc j.pend j.done
  have hpn : (j.pend.map (·.ob)).Nodup := by
    have : (j.pend.map (·.ob)).Sublist (j.all.map (·.ob)) := by
      simp only [JState.all, List.map_append]
      exact ((List.sublist_append_right _ _).trans (List.sublist_append_left _ _))
    exact h.nodup.sublist this
  unfold advance
  cases hr : advanceL j.nofn j.trunc j.done j.pend with
  | mk d r =>
    cases r with
    | mk p f =>
      rw [hr] at hobs hpre hfire
      simp only at hobs hpre hfire
      have hall : ∀ (c : Option Nat) (e : Expect),
          ({ j with done := d, pend := p, cur := c, expect := e } : JState).all.map (·.ob) = j.all.map (·.ob) := by
        intro c e
        simp only [JState.all, List.map_append] at hobs ⊢
        rw [hobs]
      have hsub : ∀ o, hasOb o j.pend = false → hasOb o p = false := by
        intro o ho
        rw [hasOb_false_iff] at ho ⊢
        rw [hpre] at ho
        exact fun hm => ho (List.mem_append_right _ hm)
      cases f with
      | none =>
        refine ⟨by rw [hall]; exact h.nodup, fun o ho => hsub o (h.hseen o ho), ?_, ?_⟩
        · intro o ho
          have := h.hoff o ho
          rw [hasOb_false_iff] at this ⊢
          rw [hall]; exact this
        · intro o ho; cases ho
      | some o =>
        obtain ⟨hop, hod⟩ := hfire o rfl
        have hoall : hasOb o ({ j with done := d, pend := p, cur := some o, expect := Expect.beat o } : JState).all = true := by
          rw [hasOb_all]; simp [hod]
        refine ⟨by rw [hall]; exact h.nodup, fun o' ho => hsub o' (h.hseen o' ho), ?_, ?_⟩
        · intro o' ho
          have := h.hoff o' ho
          rw [hasOb_false_iff] at this ⊢
          rw [hall]; exact this
        · intro o' ho
          simp only [Expect.beat.injEq] at ho
          subst ho
          have hmem : o ∈ j.pend.map (·.ob) := by rw [hpre]; exact List.mem_append_left _ hop
          refine ⟨?_, ?_, ?_⟩
          · intro hs
            have := h.hseen o hs
            rw [hasOb_false_iff] at this
            exact this hmem
          · rw [hasOb_false_iff]
            rw [hpre, List.nodup_append] at hpn
            exact fun hm => hpn.2.2 o hop o hm rfl
          · intro ho'
            have h1 := h.hoff o ho'
            have h2 : hasOb o j.all = true := by
              rw [hasOb_iff_mem]; rw [← hall (some o) (Expect.beat o), ← hasOb_iff_mem]; exact hoall
            rw [h1] at h2; cases h2

theorem JI_endRound {j : JState} {seen off : List Nat} (h : JI j seen off) : JI (endRound j) seen off := by
  have hall : (endRound j).all = j.all := by simp [endRound, JState.all]
  refine ⟨by rw [hall]; exact h.nodup, fun o _ => rfl, ?_, ?_⟩
  · intro o ho; rw [hall]; exact h.hoff o ho
  · intro o ho; cases ho

theorem flagV_bad_ne {j j' : JState} {v : String} (hb : j'.bad = j.bad) : (j'.flagV v).bad ≠ j.bad := by
  simp [JState.flagV, hb]

theorem opAllowed_ne {j : JState} (h : opAllowed j = true) : ∀ o, j.expect ≠ .beat o := by
  intro o ho
  unfold opAllowed at h
  rw [ho] at h
  simp at h

/-- one accepted event keeps the invariant, and an accepted `beat o` is neither a second beat of o in this tick
    nor a beat of an object that is off -/
theorem JI_step {j : JState} {seen off : List Nat} (h : JI j seen off) (e : Ev)
    (hacc : (judge1 j e).bad = j.bad) :
    beatFresh seen e = true ∧ beatAllowed off e = true ∧ JI (judge1 j e) (seenStep seen e) (offStep off e) := by
  have same : ∀ {s o}, JI j s o → JI j s o := fun x => x
  cases e with
  | tickBegin =>
    refine ⟨rfl, rfl, ?_⟩
    simp only [judge1] at hacc ⊢
    split
    · rename_i hc; rw [if_pos hc] at hacc; exact absurd hacc (flagV_bad_ne rfl)
    · rename_i hc
      simp only [bne_iff_ne, ne_eq, Decidable.not_not] at hc
      apply JI_advance
      refine ⟨?_, ?_, ?_, ?_⟩
      · have : ({ j with done := [], pend := j.done ++ j.pend ++ j.late, late := [], inRound := true, trunc := false } : JState).all = j.all := by
          simp [JState.all]
        rw [this]; exact h.nodup
      · intro o ho; cases ho
      · intro o ho
        have : ({ j with done := [], pend := j.done ++ j.pend ++ j.late, late := [], inRound := true, trunc := false } : JState).all = j.all := by
          simp [JState.all]
        rw [this]; exact h.hoff o ho
      · intro o ho
        have : j.expect = .beat o := ho
        rw [hc] at this; cases this
  | tickEnd =>
    refine ⟨rfl, rfl, ?_⟩
    simp only [judge1] at hacc ⊢
    split
    · exact JI_endRound h
    · rename_i hc
      rw [if_neg hc] at hacc
      split at hacc <;> exact absurd hacc (flagV_bad_ne rfl)
  | tickAbort =>
    refine ⟨rfl, rfl, ?_⟩
    simp only [judge1] at hacc ⊢
    split
    · exact JI_endRound h
    · rename_i hc; rw [if_neg hc] at hacc; exact absurd hacc (flagV_bad_ne rfl)
  | beat o =>
    have hex := (beat_accepted_iff j o).mp hacc
    obtain ⟨a, b, c⟩ := h.exp o hex
    have hj : judge1 j (.beat o) = { j with expect := .inBeat } := by simp [judge1, hex]
    rw [hj]
    refine ⟨by simpa [beatFresh] using a, by simpa [beatAllowed] using c, ?_⟩
    refine ⟨h.nodup, ?_, h.hoff, ?_⟩
    · intro o' ho'
      rcases List.mem_cons.mp ho' with rfl | ho'
      · exact b
      · exact h.hseen o' ho'
    · intro o' ho'; cases ho'
  | beatEnd o =>
    refine ⟨rfl, rfl, ?_⟩
    simp only [judge1] at hacc ⊢
    split
    · split
      · refine ⟨h.nodup, h.hseen, h.hoff, ?_⟩
        intro o' ho'; cases ho'
      · exact JI_advance h
    · rename_i hc; rw [if_neg hc] at hacc; exact absurd hacc (flagV_bad_ne rfl)
  | shb s t n q =>
    refine ⟨rfl, rfl, ?_⟩
    simp only [judge1] at hacc ⊢
    split
    · rename_i hc; rw [if_pos hc] at hacc; exact absurd hacc (flagV_bad_ne rfl)
    · rename_i hc
      rw [if_neg hc] at hacc
      split
      · rename_i hc2; rw [if_pos hc2] at hacc; exact absurd hacc (flagV_bad_ne rfl)
      · rename_i hc2
        rw [if_neg hc2] at hacc
        have hop : opAllowed j = true := by simpa using hc
        split
        · exact JI_jSet h t n (opAllowed_ne hop)
        · rename_i hc3
          rw [if_neg hc3] at hacc
          exact absurd hacc (flagV_bad_ne (jSet_frame j t n).bad)
  | shbDead s t n =>
    refine ⟨rfl, rfl, ?_⟩
    simp only [judge1] at hacc ⊢
    split
    · rename_i hc; rw [if_pos hc] at hacc; exact absurd hacc (flagV_bad_ne rfl)
    · exact h
  | query s t q =>
    refine ⟨rfl, rfl, ?_⟩
    simp only [judge1] at hacc ⊢
    split
    · rename_i hc; rw [if_pos hc] at hacc; exact absurd hacc (flagV_bad_ne rfl)
    · rename_i hc
      rw [if_neg hc] at hacc
      split
      · exact h
      · rename_i hc2; rw [if_neg hc2] at hacc; exact absurd hacc (flagV_bad_ne rfl)
  | queryDead s t =>
    refine ⟨rfl, rfl, ?_⟩
    simp only [judge1] at hacc ⊢
    split
    · rename_i hc; rw [if_pos hc] at hacc; exact absurd hacc (flagV_bad_ne rfl)
    · exact h
  | dest s t =>
    refine ⟨rfl, rfl, ?_⟩
    simp only [judge1] at hacc ⊢
    split
    · rename_i hc; rw [if_pos hc] at hacc; exact absurd hacc (flagV_bad_ne rfl)
    · rename_i hc
      rw [if_neg hc] at hacc
      have hop : opAllowed j = true := by simpa using hc
      split
      · rename_i hc2; rw [if_pos hc2] at hacc; exact absurd hacc (flagV_bad_ne rfl)
      · have hd := JI_jDisable h t (opAllowed_ne hop)
        exact ⟨hd.nodup, hd.hseen, hd.hoff, hd.exp⟩
  | destNone s t =>
    refine ⟨rfl, rfl, ?_⟩
    simp only [judge1] at hacc ⊢
    split
    · rename_i hc; rw [if_pos hc] at hacc; exact absurd hacc (flagV_bad_ne rfl)
    · exact h
  | clone s new kind n q =>
    refine ⟨rfl, rfl, ?_⟩
    simp only [judge1] at hacc ⊢
    split
    · rename_i hc; rw [if_pos hc] at hacc; exact absurd hacc (flagV_bad_ne rfl)
    · rename_i hc
      rw [if_neg hc] at hacc
      have hop : opAllowed j = true := by simpa using hc
      split
      · rename_i hc2; rw [if_pos hc2] at hacc; exact absurd hacc (flagV_bad_ne rfl)
      · rename_i hc2
        rw [if_neg hc2] at hacc
        have hne := opAllowed_ne hop
        have h1 := JI_jDisableAlive h (if kind = 0 then 0 else 1) hne
        have hf1 := jDisableAlive_frame j (if kind = 0 then 0 else 1)
        generalize jDisableAlive j (if kind = 0 then 0 else 1) = j1 at h1 hf1 hacc ⊢
        have hne1 : ∀ o, j1.expect ≠ .beat o := by intro o; rw [hf1.expect]; exact hne o
        have h2 : JI { j1 with known := new :: j1.known, nofn := if kind = 0 then j1.nofn else new :: j1.nofn } seen off :=
          ⟨h1.nodup, h1.hseen, h1.hoff, h1.exp⟩
        have h3 := JI_jSet h2 new n hne1
        have hb := (jSet_frame { j1 with known := new :: j1.known, nofn := if kind = 0 then j1.nofn else new :: j1.nofn } new n).bad
        generalize jSet { j1 with known := new :: j1.known, nofn := if kind = 0 then j1.nofn else new :: j1.nofn } new n = j3 at h3 hb hacc ⊢
        have hoffs : ∀ o ∈ off.filter (· ≠ new), o ∈ (if n = 0 then new :: off else off.filter (· ≠ new)) := by
          intro o ho
          split
          · exact List.mem_cons_of_mem _ (mem_filter_ne ho).1
          · exact ho
        by_cases hq : (q == jQuery j3 new) = true
        · rw [if_pos hq]; exact JI_off_mono h3 hoffs
        · rw [if_neg hq] at hacc
          exact absurd hacc (flagV_bad_ne (hb.trans hf1.bad))
  | cloneDup s new =>
    refine ⟨rfl, rfl, ?_⟩
    simp only [judge1] at hacc ⊢
    split
    · exact h
    · rename_i hc; rw [if_neg hc] at hacc; exact absurd hacc (flagV_bad_ne rfl)
  | into i c => exact ⟨rfl, rfl, h⟩
  | intoNone i c => exact ⟨rfl, rfl, h⟩
  | hook i c =>
    refine ⟨rfl, rfl, ?_⟩
    simp only [judge1] at hacc ⊢
    split
    · rename_i hc; rw [if_pos hc] at hacc; exact absurd hacc (flagV_bad_ne rfl)
    · exact h
  | hookEnd t =>
    refine ⟨rfl, rfl, ?_⟩
    simp only [judge1] at hacc ⊢
    split
    · rename_i hc; rw [if_pos hc] at hacc; exact absurd hacc (flagV_bad_ne rfl)
    · rename_i hc
      rw [if_neg hc] at hacc
      have hop : opAllowed j = true := by simpa using hc
      split
      · rename_i hc2; rw [if_pos hc2] at hacc; exact absurd hacc (flagV_bad_ne rfl)
      · have hd := JI_jDisable h t (opAllowed_ne hop)
        exact ⟨hd.nodup, hd.hseen, hd.hoff, hd.exp⟩
  | hookGone i =>
    refine ⟨rfl, rfl, ?_⟩
    simp only [judge1] at hacc ⊢
    split
    · rename_i hc; rw [if_pos hc] at hacc; exact absurd hacc (flagV_bad_ne rfl)
    · exact h
  | destGone s t =>
    refine ⟨rfl, rfl, ?_⟩
    simp only [judge1] at hacc ⊢
    split
    · rename_i hc; rw [if_pos hc] at hacc; exact absurd hacc (flagV_bad_ne rfl)
    · exact h
  | err o =>
    refine ⟨rfl, rfl, ?_⟩
    rw [judge1_err]
    have h1 : JI (jErr1 j) seen off := by
      unfold jErr1
      cases hc : j.cur with
      | none => exact h
      | some c =>
        simp only
        obtain ⟨sd, sp, sl⟩ : ((jDisableAlive j c).done.map (·.ob)).Sublist (j.done.map (·.ob)) ∧
            ((jDisableAlive j c).pend.map (·.ob)).Sublist (j.pend.map (·.ob)) ∧
            ((jDisableAlive j c).late.map (·.ob)).Sublist (j.late.map (·.ob)) := by
          unfold jDisableAlive
          split
          · exact ⟨List.Sublist.refl _, List.Sublist.refl _, List.Sublist.refl _⟩
          · exact jDisable_segments j c
        have hf := jDisableAlive_frame j c
        have := JI_shrink h sd sp sl (fun o ho => by rw [hf.expect] at ho; exact ho)
        exact ⟨this.nodup, this.hseen, this.hoff, this.exp⟩
    unfold jErr
    split
    · refine ⟨h1.nodup, h1.hseen, h1.hoff, ?_⟩
      intro o' ho'; cases ho'
    · exact h1
  | errR =>
    refine ⟨rfl, rfl, ?_⟩
    rw [judge1_errR]
    have h1 : JI (jErr1 j) seen off := by
      unfold jErr1
      cases hc : j.cur with
      | none => exact h
      | some c =>
        simp only
        obtain ⟨sd, sp, sl⟩ : ((jDisableAlive j c).done.map (·.ob)).Sublist (j.done.map (·.ob)) ∧
            ((jDisableAlive j c).pend.map (·.ob)).Sublist (j.pend.map (·.ob)) ∧
            ((jDisableAlive j c).late.map (·.ob)).Sublist (j.late.map (·.ob)) := by
          unfold jDisableAlive
          split
          · exact ⟨List.Sublist.refl _, List.Sublist.refl _, List.Sublist.refl _⟩
          · exact jDisable_segments j c
        have hf := jDisableAlive_frame j c
        have := JI_shrink h sd sp sl (fun o ho => by rw [hf.expect] at ho; exact ho)
        exact ⟨this.nodup, this.hseen, this.hoff, this.exp⟩
    unfold jErr
    split
    · refine ⟨h1.nodup, h1.hseen, h1.hoff, ?_⟩
      intro o' ho'; cases ho'
    · exact h1
  | moved i d => exact ⟨rfl, rfl, h⟩
  | movedNone i d => exact ⟨rfl, rfl, h⟩
  | hookMoved i =>
    refine ⟨rfl, rfl, ?_⟩
    simp only [judge1] at hacc ⊢
    split
    · exact h
    · rename_i hc; rw [if_neg hc] at hacc; exact absurd hacc (flagV_bad_ne rfl)
  | topErr o => exact ⟨rfl, rfl, h⟩
  | topDead o =>
    refine ⟨rfl, rfl, ?_⟩
    simp only [judge1] at hacc ⊢
    split
    · exact h
    · rename_i hc; rw [if_neg hc] at hacc; exact absurd hacc (flagV_bad_ne rfl)
  | topNoObj o =>
    refine ⟨rfl, rfl, ?_⟩
    simp only [judge1] at hacc ⊢
    split
    · rename_i hc; rw [if_pos hc] at hacc; exact absurd hacc (flagV_bad_ne rfl)
    · exact h
  | flag o =>
    exact ⟨rfl, rfl, ⟨h.nodup, h.hseen, h.hoff, h.exp⟩⟩
  | hbs s l =>
    refine ⟨rfl, rfl, ?_⟩
    simp only [judge1] at hacc ⊢
    split
    · exact h
    · rename_i hc; rw [if_neg hc] at hacc; exact absurd hacc (flagV_bad_ne rfl)
  | ctx o lv tp full =>
    refine ⟨rfl, rfl, ?_⟩
    simp only [judge1] at hacc ⊢
    split
    · rename_i hc; rw [if_pos hc] at hacc; exact absurd hacc (flagV_bad_ne rfl)
    · rename_i hc
      rw [if_neg hc] at hacc
      split
      · rename_i hc2; rw [if_pos hc2] at hacc; exact absurd hacc (flagV_bad_ne rfl)
      · rename_i hc2
        rw [if_neg hc2] at hacc
        split
        · rename_i hc3; rw [if_pos hc3] at hacc; exact absurd hacc (flagV_bad_ne rfl)
        · exact h
  | caught o => exact ⟨rfl, rfl, h⟩
  | reload s t n q =>
    refine ⟨rfl, rfl, ?_⟩
    simp only [judge1] at hacc ⊢
    split
    · rename_i hc; rw [if_pos hc] at hacc; exact absurd hacc (flagV_bad_ne rfl)
    · rename_i hc
      rw [if_neg hc] at hacc
      have hop : opAllowed j = true := by simpa using hc
      split
      · rename_i hc2; rw [if_pos hc2] at hacc; exact absurd hacc (flagV_bad_ne rfl)
      · rename_i hc2
        rw [if_neg hc2] at hacc
        have hne := opAllowed_ne hop
        have hf1 := jDisable_frame j t
        have h1 : JI (jDisable j t) seen off :=
          JI_off_mono (JI_jDisable h t hne) (fun o ho => List.mem_cons_of_mem _ ho)
        have hne1 : ∀ o, (jDisable j t).expect ≠ .beat o := by intro o; rw [hf1.expect]; exact hne o
        have h2 := JI_jSet h1 t n hne1
        have hb := (jSet_frame (jDisable j t) t n).bad
        split
        · exact h2
        · rename_i hc3
          rw [if_neg hc3] at hacc
          exact absurd hacc (flagV_bad_ne (hb.trans hf1.bad))
  | reloadNone s t =>
    refine ⟨rfl, rfl, ?_⟩
    simp only [judge1] at hacc ⊢
    split
    · rename_i hc; rw [if_pos hc] at hacc; exact absurd hacc (flagV_bad_ne rfl)
    · exact h
  | living o => exact ⟨rfl, rfl, h⟩
  | burn o => exact ⟨rfl, rfl, h⟩
  | tickOff =>
    refine ⟨rfl, rfl, ?_⟩
    simp only [judge1] at hacc ⊢
    split
    · rename_i hc; rw [if_pos hc] at hacc; exact absurd hacc (flagV_bad_ne rfl)
    · refine ⟨h.nodup, ?_, h.hoff, ?_⟩
      · intro o ho; cases ho
      · intro o ho; cases ho
  | tflags n => exact ⟨rfl, rfl, h⟩
  | rp o => exact ⟨rfl, rfl, h⟩
  | rpNone o => exact ⟨rfl, rfl, h⟩
  | rpDone o =>
    refine ⟨rfl, rfl, ?_⟩
    simp only [judge1] at hacc ⊢
    split
    · rename_i hc; rw [if_pos hc] at hacc; exact absurd hacc (flagV_bad_ne rfl)
    · exact ⟨h.nodup, h.hseen, h.hoff, h.exp⟩
  | zshb s n =>
    refine ⟨rfl, rfl, ?_⟩
    simp only [judge1] at hacc ⊢
    split
    · rename_i hc; rw [if_pos hc] at hacc; exact absurd hacc (flagV_bad_ne rfl)
    · rename_i hc
      have hop : opAllowed j = true := by simpa using hc
      split
      · exact JI_off_mono h (fun o ho => (mem_filter_ne ho).1)
      · refine JI_off_mono (JI_jSet h s n (opAllowed_ne hop)) ?_
        intro o ho
        split
        · exact List.mem_cons_of_mem _ (mem_filter_ne ho).1
        · exact ho
  | coBegin o => exact ⟨rfl, rfl, h⟩
  | coEnd o => exact ⟨rfl, rfl, h⟩
  | passLimit =>
    refine ⟨rfl, rfl, ?_⟩
    simp only [judge1] at hacc ⊢
    split
    · rename_i hc; rw [if_pos hc] at hacc; exact absurd hacc (flagV_bad_ne rfl)
    · exact ⟨h.nodup, h.hseen, h.hoff, h.exp⟩
  | cgAfter v =>
    refine ⟨rfl, rfl, ?_⟩
    cases v with
    | none => exact h
    | some o => exact absurd hacc (flagV_bad_ne rfl)
  | junk s => exact absurd hacc (flagV_bad_ne rfl)

theorem advance_bad (j : JState) : (advance j).bad = j.bad := by
  unfold advance
  cases advanceL j.nofn j.trunc j.done j.pend with
  | mk d r => cases r with
    | mk p f => cases f <;> rfl

theorem jErr_bad (j : JState) : (jErr j).bad = j.bad := by
  have h1 : (jErr1 j).bad = j.bad := by
    unfold jErr1
    cases j.cur with
    | none => rfl
    | some c => exact (jDisableAlive_frame j c).bad
  unfold jErr
  split
  · exact h1
  · exact h1

/-- the oracle never retracts a violation: one event leaves `bad` alone or adds one entry -/
theorem judge1_bad (j : JState) (e : Ev) : (judge1 j e).bad = j.bad ∨ ∃ v, (judge1 j e).bad = v :: j.bad := by
  cases e with
  | tickBegin =>
    simp only [judge1]; split
    · exact Or.inr ⟨_, rfl⟩
    · exact Or.inl (advance_bad _)
  | tickEnd =>
    simp only [judge1]; split
    · exact Or.inl rfl
    · split <;> exact Or.inr ⟨_, rfl⟩
  | tickAbort => simp only [judge1]; split <;> first | exact Or.inl rfl | exact Or.inr ⟨_, rfl⟩
  | beat o => simp only [judge1]; split <;> first | exact Or.inl rfl | exact Or.inr ⟨_, rfl⟩
  | beatEnd o =>
    simp only [judge1]; split
    · split
      · exact Or.inl rfl
      · exact Or.inl (advance_bad _)
    · exact Or.inr ⟨_, rfl⟩
  | shb s t n q =>
    simp only [judge1]; split
    · exact Or.inr ⟨_, rfl⟩
    · split
      · exact Or.inr ⟨_, rfl⟩
      · split
        · exact Or.inl (jSet_frame j t n).bad
        · exact Or.inr ⟨_, congrArg (List.cons _) (jSet_frame j t n).bad⟩
  | shbDead s t n => simp only [judge1]; split <;> first | exact Or.inl rfl | exact Or.inr ⟨_, rfl⟩
  | query s t q =>
    simp only [judge1]; split
    · exact Or.inr ⟨_, rfl⟩
    · split <;> first | exact Or.inl rfl | exact Or.inr ⟨_, rfl⟩
  | queryDead s t => simp only [judge1]; split <;> first | exact Or.inl rfl | exact Or.inr ⟨_, rfl⟩
  | dest s t =>
    simp only [judge1]; split
    · exact Or.inr ⟨_, rfl⟩
    · split
      · exact Or.inr ⟨_, rfl⟩
      · exact Or.inl (jDisable_frame j t).bad
  | destNone s t => simp only [judge1]; split <;> first | exact Or.inl rfl | exact Or.inr ⟨_, rfl⟩
  | clone s new kind n q =>
    simp only [judge1]; split
    · exact Or.inr ⟨_, rfl⟩
    · split
      · exact Or.inr ⟨_, rfl⟩
      · have hf1 := (jDisableAlive_frame j (if kind = 0 then 0 else 1)).bad
        generalize jDisableAlive j (if kind = 0 then 0 else 1) = j1 at hf1 ⊢
        have hb := (jSet_frame { j1 with known := new :: j1.known, nofn := if kind = 0 then j1.nofn else new :: j1.nofn } new n).bad
        generalize jSet { j1 with known := new :: j1.known, nofn := if kind = 0 then j1.nofn else new :: j1.nofn } new n = j3 at hb ⊢
        by_cases hq : (q == jQuery j3 new) = true
        · rw [if_pos hq]; exact Or.inl (hb.trans hf1)
        · rw [if_neg hq]; exact Or.inr ⟨_, congrArg (List.cons _) (hb.trans hf1)⟩
  | cloneDup s new => simp only [judge1]; split <;> first | exact Or.inl rfl | exact Or.inr ⟨_, rfl⟩
  | into i c => exact Or.inl rfl
  | intoNone i c => exact Or.inl rfl
  | hook i c => simp only [judge1]; split <;> first | exact Or.inl rfl | exact Or.inr ⟨_, rfl⟩
  | hookEnd t =>
    simp only [judge1]; split
    · exact Or.inr ⟨_, rfl⟩
    · split
      · exact Or.inr ⟨_, rfl⟩
      · exact Or.inl (jDisable_frame j t).bad
  | hookGone i => simp only [judge1]; split <;> first | exact Or.inl rfl | exact Or.inr ⟨_, rfl⟩
  | destGone s t => simp only [judge1]; split <;> first | exact Or.inl rfl | exact Or.inr ⟨_, rfl⟩
  | err o => rw [judge1_err]; exact Or.inl (jErr_bad j)
  | errR => rw [judge1_errR]; exact Or.inl (jErr_bad j)
  | moved i d => exact Or.inl rfl
  | movedNone i d => exact Or.inl rfl
  | hookMoved i => simp only [judge1]; split <;> first | exact Or.inl rfl | exact Or.inr ⟨_, rfl⟩
  | topErr o => exact Or.inl rfl
  | topDead o => simp only [judge1]; split <;> first | exact Or.inl rfl | exact Or.inr ⟨_, rfl⟩
  | topNoObj o => simp only [judge1]; split <;> first | exact Or.inl rfl | exact Or.inr ⟨_, rfl⟩
  | flag o => exact Or.inl rfl
  | hbs s l => simp only [judge1]; split <;> first | exact Or.inl rfl | exact Or.inr ⟨_, rfl⟩
  | ctx o lv tp full =>
    simp only [judge1]; split
    · exact Or.inr ⟨_, rfl⟩
    · split
      · exact Or.inr ⟨_, rfl⟩
      · split <;> first | exact Or.inl rfl | exact Or.inr ⟨_, rfl⟩
  | caught o => exact Or.inl rfl
  | reload s t n q =>
    simp only [judge1]; split
    · exact Or.inr ⟨_, rfl⟩
    · split
      · exact Or.inr ⟨_, rfl⟩
      · have hb := ((jSet_frame (jDisable j t) t n).bad).trans (jDisable_frame j t).bad
        split
        · exact Or.inl hb
        · exact Or.inr ⟨_, congrArg (List.cons _) hb⟩
  | reloadNone s t => simp only [judge1]; split <;> first | exact Or.inl rfl | exact Or.inr ⟨_, rfl⟩
  | living o => exact Or.inl rfl
  | burn o => exact Or.inl rfl
  | tickOff => simp only [judge1]; split <;> first | exact Or.inl rfl | exact Or.inr ⟨_, rfl⟩
  | tflags n => exact Or.inl rfl
  | rp o => exact Or.inl rfl
  | rpNone o => exact Or.inl rfl
  | rpDone o => simp only [judge1]; split <;> first | exact Or.inl rfl | exact Or.inr ⟨_, rfl⟩
  | zshb s n =>
    simp only [judge1]; split
    · exact Or.inr ⟨_, rfl⟩
    · split
      · exact Or.inl rfl
      · exact Or.inl (jSet_frame j s n).bad
  | coBegin o => exact Or.inl rfl
  | coEnd o => exact Or.inl rfl
  | passLimit => simp only [judge1]; split <;> first | exact Or.inl rfl | exact Or.inr ⟨_, rfl⟩
  | cgAfter v =>
    cases v with
    | none => exact Or.inl rfl
    | some o => exact Or.inr ⟨_, rfl⟩
  | junk s => exact Or.inr ⟨_, rfl⟩

theorem foldl_bad_length (tr : List Ev) : ∀ j : JState, j.bad.length ≤ (tr.foldl judge1 j).bad.length := by
  induction tr with
  | nil => intro j; exact Nat.le_refl _
  | cons e r ih =>
    intro j
    have h1 := ih (judge1 j e)
    rcases judge1_bad j e with h | ⟨v, h⟩
    · rw [h] at h1; exact h1
    · rw [h] at h1; simp at h1; simp only [List.foldl_cons]; omega

/-- **every trace the oracle accepts** (from an oracle state satisfying the invariant) has at most one beat per
    object and tick and no beat of an object that is switched off or destructed -/
theorem accepted_trace_ok : ∀ (tr : List Ev) (j : JState) (seen off : List Nat), JI j seen off →
    (tr.foldl judge1 j).bad = j.bad → beatsOnce seen tr = true ∧ calledOnlyOn off tr = true := by
  intro tr
  induction tr with
  | nil => intro j seen off _ _; exact ⟨rfl, rfl⟩
  | cons e r ih =>
    intro j seen off h hacc
    simp only [List.foldl_cons] at hacc
    have hstep : (judge1 j e).bad = j.bad := by
      rcases judge1_bad j e with h1 | ⟨v, h1⟩
      · exact h1
      · have := foldl_bad_length r (judge1 j e)
        rw [hacc, h1] at this
        simp at this
        omega
    obtain ⟨a, b, c⟩ := JI_step h e hstep
    obtain ⟨d, f⟩ := ih (judge1 j e) _ _ c (by rw [hacc, hstep])
    simp only [beatsOnce, calledOnlyOn, a, b, d, f, Bool.and_self]
    exact ⟨trivial, trivial⟩

theorem JI_init : JI {} [] [] := by
  refine ⟨?_, ?_, ?_, ?_⟩
  · simp [JState.all]
  · intro o ho; cases ho
  · intro o ho; cases ho
  · intro o ho; cases ho

/-- for implementation traces as well: what `nvdrive C11 judge` answers `ok` on satisfies both clauses -/
theorem judge_ok_implies_clauses (tr : List Ev) (h : judgeEv tr = []) :
    beatsOnce [] tr = true ∧ calledOnlyOn [] tr = true := by
  unfold judgeEv at h
  have hb : (tr.foldl judge1 {}).bad = [] := by simpa using h
  exact accepted_trace_ok tr {} [] [] JI_init hb

/-- **at_most_once_per_tick.**  In every run of the model - all populations, scripts, interleavings, tick counts -
    no object's heart_beat runs twice between two `tickBegin` events. -/
theorem at_most_once_per_tick (sc : Scripts) (cmds : List Cmd) (hk : Nat → List Op := fun _ => []) :
    beatsOnce [] (events sc cmds hk) = true :=
  (judge_ok_implies_clauses _ (model_satisfies_spec sc cmds hk)).1

/-- **disabled_or_destructed_never_called.**  In every run of the model, after `destruct(t)` or after t executed
    `set_heart_beat(0)` there is no heart_beat of t - until (for a live t) a later `set_heart_beat(n)`, n ≠ 0. -/
theorem disabled_or_destructed_never_called (sc : Scripts) (cmds : List Cmd) (hk : Nat → List Op := fun _ => []) :
    calledOnlyOn [] (events sc cmds hk) = true :=
  (judge_ok_implies_clauses _ (model_satisfies_spec sc cmds hk)).2

/-- the oracle invariant survives every accepted trace -/
theorem JI_foldl : ∀ (tr : List Ev) (j : JState) (seen off : List Nat), JI j seen off →
    (tr.foldl judge1 j).bad = j.bad → ∃ seen' off', JI (tr.foldl judge1 j) seen' off' := by
  intro tr
  induction tr with
  | nil => intro j seen off h _; exact ⟨seen, off, h⟩
  | cons e r ih =>
    intro j seen off h hacc
    simp only [List.foldl_cons] at hacc ⊢
    have hstep : (judge1 j e).bad = j.bad := by
      rcases judge1_bad j e with h1 | ⟨v, h1⟩
      · exact h1
      · have := foldl_bad_length r (judge1 j e)
        rw [hacc, h1] at this
        simp at this
        omega
    obtain ⟨_, _, c⟩ := JI_step h e hstep
    exact ih (judge1 j e) _ _ c (by rw [hacc, hstep])

/-- **entries are unique per object** after every history of the model (append only when O_HEART_BEAT is off, removal
    takes the entry out): no object is on heart_beats[] twice -/
theorem hbs_nodup (sc : Scripts) (cmds : List Cmd) (hk : Nat → List Op := fun _ => []) :
    (((runCmds sc { hooks := hk } cmds).1.hbs).map (·.ob)).Nodup := by
  have hsim := sim_runCmds sc cmds { hooks := hk } {} (idle_init hk)
  rw [hsim.1.hbs]
  have hb : (((runCmds sc { hooks := hk } cmds).2).foldl judge1 {}).bad = ({} : JState).bad := hsim.2.2.2
  obtain ⟨_, _, hji⟩ := JI_foldl _ {} [] [] JI_init hb
  exact hji.nodup

/-- **the direction of the search loop is not observable**: in every reachable state the C loop (from the back, with the
    regenerated start value / condition / not-found test) finds the entry the model's front-to-back search finds -/
theorem search_direction_unobservable (sc : Scripts) (cmds : List Cmd) (ob : Nat) (hk : Nat → List Op := fun _ => []) :
    searchBack ob (runCmds sc { hooks := hk } cmds).1.hbs = idxOf ob (runCmds sc { hooks := hk } cmds).1.hbs :=
  searchBack_eq_idxOf ob _ (hbs_nodup sc cmds hk)

/-! ### a third trace-level clause (no model, no oracle state in its statement) -/

/-- every `ctx` event reports a clean context: this_player() is the object itself iff it is living, else 0, and the
    evaluation cost is untouched -/
def ctxClean : List Ev → Bool
  | [] => true
  | .ctx o lv tp full :: r => (tp == ctxGiver o lv) && full && ctxClean r
  | _ :: r => ctxClean r

theorem bad_of_step {j : JState} {e : Ev} {r : List Ev} (hacc : (r.foldl judge1 (judge1 j e)).bad = j.bad) :
    (judge1 j e).bad = j.bad := by
  rcases judge1_bad j e with h1 | ⟨v, h1⟩
  · exact h1
  · have := foldl_bad_length r (judge1 j e)
    rw [hacc, h1] at this
    simp at this
    omega

/-- every accepted trace has only clean contexts -/
theorem accepted_ctx_clean : ∀ (tr : List Ev) (j : JState), (tr.foldl judge1 j).bad = j.bad → ctxClean tr = true := by
  intro tr
  induction tr with
  | nil => intro _ _; rfl
  | cons e r ih =>
    intro j hacc
    simp only [List.foldl_cons] at hacc
    have hstep := bad_of_step hacc
    have hrest := ih (judge1 j e) (by rw [hacc, hstep])
    cases e with
    | ctx o lv tp full =>
      simp only [ctxClean, hrest, Bool.and_true]
      simp only [judge1] at hstep
      split at hstep
      · exact absurd hstep (flagV_bad_ne rfl)
      · split at hstep
        · exact absurd hstep (flagV_bad_ne rfl)
        · rename_i hc2
          split at hstep
          · exact absurd hstep (flagV_bad_ne rfl)
          · rename_i hc3
            cases full <;> simp_all
    | _ => simpa [ctxClean] using hrest

/-- for implementation traces as well: what `nvdrive C11 judge` answers `ok` on has only clean contexts -/
theorem judge_ok_implies_ctx_clean (tr : List Ev) (h : judgeEv tr = []) : ctxClean tr = true := by
  unfold judgeEv at h
  have hb : (tr.foldl judge1 {}).bad = ({} : JState).bad := by simpa using h
  exact accepted_ctx_clean tr {} hb

/-- **faults stay local (context).**  In every run of the model every heart_beat is entered with this_player() = the object
    itself iff it is living (else 0) and an untouched evaluation cost - whatever earlier heart_beats enabled, used up or
    raised -/
theorem context_clean_every_beat (sc : Scripts) (cmds : List Cmd) (hk : Nat → List Op := fun _ => []) :
    ctxClean (events sc cmds hk) = true :=
  judge_ok_implies_ctx_clean _ (model_satisfies_spec sc cmds hk)

example : ctxClean [.tickBegin, .beat 2, .ctx 2 false (some 3) true] = false := by decide
example : ctxClean [.tickBegin, .beat 2, .ctx 2 true (some 2) false] = false := by decide
example : ctxClean [.tickBegin, .beat 2, .ctx 2 true (some 2) true, .beatEnd 2, .beat 3, .ctx 3 false none true] = true := by decide

/-! ### a fourth trace-level clause: no heart beat in a tick that runs without TIMER_FLAG_HEARTBEAT -/

/-- in a tick that begins with `tickOff` (timer_flags without TIMER_FLAG_HEARTBEAT) nobody beats, until a later tick begins
    with `tickBegin` -/
def quietWhenOff (off : Bool) : List Ev → Bool
  | [] => true
  | .tickOff :: r => quietWhenOff true r
  | .tickBegin :: r => quietWhenOff false r
  | .beat _ :: r => !off && quietWhenOff off r
  | _ :: r => quietWhenOff off r

/-- oracle states that cannot accept a `beat` -/
def quietExp : Expect → Bool
  | .beat _ => false
  | .inBeat => false
  | _ => true

theorem jErr1_expect (j : JState) : (jErr1 j).expect = j.expect := by
  unfold jErr1
  cases j.cur with
  | none => rfl
  | some c => exact (jDisableAlive_frame j c).expect

/-- every event other than `tickBegin` and `beat` keeps the oracle in a state that cannot accept a beat -/
theorem quiet_step (j : JState) (e : Ev) (hq : quietExp j.expect = true) (hnt : e ≠ .tickBegin) (hnb : ∀ o, e ≠ .beat o) :
    quietExp (judge1 j e).expect = true := by
  cases e with
  | tickBegin => exact absurd rfl hnt
  | beat o => exact absurd rfl (hnb o)
  | tickEnd => simp only [judge1]; split <;> (try split) <;> rfl
  | tickAbort => simp only [judge1]; split <;> rfl
  | beatEnd o =>
    simp only [judge1]
    split
    · rename_i hc
      have : j.expect = .inBeat := by simpa using hc
      rw [this] at hq; cases hq
    · exact hq
  | shb s t n q =>
    simp only [judge1]
    split
    · exact hq
    · split
      · exact hq
      · split
        · rw [(jSet_frame j t n).expect]; exact hq
        · show quietExp (jSet j t n).expect = true
          rw [(jSet_frame j t n).expect]; exact hq
  | shbDead s t n => simp only [judge1]; split <;> exact hq
  | query s t q => simp only [judge1]; split <;> (try split) <;> exact hq
  | queryDead s t => simp only [judge1]; split <;> exact hq
  | dest s t =>
    simp only [judge1]
    split
    · exact hq
    · split
      · exact hq
      · show quietExp (jDisable j t).expect = true
        rw [(jDisable_frame j t).expect]; exact hq
  | destNone s t => simp only [judge1]; split <;> exact hq
  | clone s new kind n q =>
    simp only [judge1]
    split
    · exact hq
    · split
      · exact hq
      · have hf1 := (jDisableAlive_frame j (if kind = 0 then 0 else 1)).expect
        generalize jDisableAlive j (if kind = 0 then 0 else 1) = j1 at hf1 ⊢
        have hb := (jSet_frame { j1 with known := new :: j1.known, nofn := if kind = 0 then j1.nofn else new :: j1.nofn } new n).expect
        generalize jSet { j1 with known := new :: j1.known, nofn := if kind = 0 then j1.nofn else new :: j1.nofn } new n = j3 at hb ⊢
        have h3 : j3.expect = j.expect := hb.trans hf1
        split
        · rw [h3]; exact hq
        · show quietExp j3.expect = true
          rw [h3]; exact hq
  | cloneDup s new => simp only [judge1]; split <;> exact hq
  | into i c => exact hq
  | intoNone i c => exact hq
  | hookGone i => simp only [judge1]; split <;> exact hq
  | destGone s t => simp only [judge1]; split <;> exact hq
  | hook i c => simp only [judge1]; split <;> exact hq
  | hookEnd t =>
    simp only [judge1]
    split
    · exact hq
    · split
      · exact hq
      · show quietExp (jDisable j t).expect = true
        rw [(jDisable_frame j t).expect]; exact hq
  | err o =>
    rw [judge1_err]
    unfold jErr
    split
    · rfl
    · rw [jErr1_expect]; exact hq
  | errR =>
    rw [judge1_errR]
    unfold jErr
    split
    · rfl
    · rw [jErr1_expect]; exact hq
  | moved i d => exact hq
  | movedNone i d => exact hq
  | hookMoved i => simp only [judge1]; split <;> exact hq
  | topErr o => exact hq
  | topDead o => simp only [judge1]; split <;> exact hq
  | topNoObj o => simp only [judge1]; split <;> exact hq
  | flag o => exact hq
  | hbs s l => simp only [judge1]; split <;> exact hq
  | ctx o lv tp full => simp only [judge1]; split <;> (try split) <;> (try split) <;> exact hq
  | caught o => exact hq
  | reload s t n q =>
    simp only [judge1]
    split
    · exact hq
    · split
      · exact hq
      · have h3 : (jSet (jDisable j t) t n).expect = j.expect :=
          ((jSet_frame (jDisable j t) t n).expect).trans (jDisable_frame j t).expect
        split
        · rw [h3]; exact hq
        · show quietExp (jSet (jDisable j t) t n).expect = true
          rw [h3]; exact hq
  | reloadNone s t => simp only [judge1]; split <;> exact hq
  | living o => exact hq
  | burn o => exact hq
  | tickOff => simp only [judge1]; split <;> first | exact hq | rfl
  | tflags n => exact hq
  | rp o => exact hq
  | rpNone o => exact hq
  | rpDone o => simp only [judge1]; split <;> exact hq
  | zshb s n =>
    simp only [judge1]
    split
    · exact hq
    · split
      · exact hq
      · rw [(jSet_frame j s n).expect]; exact hq
  | coBegin o => exact hq
  | coEnd o => exact hq
  | passLimit => simp only [judge1]; split <;> exact hq
  | cgAfter v => cases v <;> exact hq
  | junk s => exact hq

/-- every accepted trace is quiet in the ticks that run without TIMER_FLAG_HEARTBEAT -/
theorem accepted_quiet_when_off : ∀ (tr : List Ev) (j : JState) (off : Bool), (off = true → quietExp j.expect = true) →
    (tr.foldl judge1 j).bad = j.bad → quietWhenOff off tr = true := by
  intro tr
  induction tr with
  | nil => intro _ _ _ _; rfl
  | cons e r ih =>
    intro j off hinv hacc
    simp only [List.foldl_cons] at hacc
    have hstep := bad_of_step hacc
    have hacc' : (r.foldl judge1 (judge1 j e)).bad = (judge1 j e).bad := by rw [hacc, hstep]
    by_cases hb : ∃ o, e = .beat o
    · obtain ⟨o, rfl⟩ := hb
      have hex := (beat_accepted_iff j o).mp hstep
      have hoff : off = false := by
        cases off with
        | false => rfl
        | true => have := hinv rfl; rw [hex] at this; cases this
      subst hoff
      simp only [quietWhenOff, Bool.not_false, Bool.true_and]
      exact ih _ false (fun h => by cases h) hacc'
    · have hnb : ∀ o, e ≠ .beat o := fun o h => hb ⟨o, h⟩
      by_cases ht : e = .tickBegin
      · subst ht
        simp only [quietWhenOff]
        exact ih _ false (fun h => by cases h) hacc'
      · by_cases hto : e = .tickOff
        · subst hto
          simp only [quietWhenOff]
          apply ih _ true _ hacc'
          intro _
          simp only [judge1] at hstep ⊢
          split
          · rename_i hc; rw [if_pos hc] at hstep; exact absurd hstep (flagV_bad_ne rfl)
          · rfl
        · have hkeep : quietWhenOff off (e :: r) = quietWhenOff off r := by
            cases e <;> first | rfl | exact absurd rfl ht | exact absurd rfl hto | exact absurd rfl (hnb _)
          rw [hkeep]
          exact ih _ off (fun h => quiet_step j e (hinv h) ht hnb) hacc'

/-- for implementation traces as well -/
theorem judge_ok_implies_quiet_when_off (tr : List Ev) (h : judgeEv tr = []) : quietWhenOff false tr = true := by
  unfold judgeEv at h
  have hb : (tr.foldl judge1 {}).bad = ({} : JState).bad := by simpa using h
  exact accepted_quiet_when_off tr {} false (fun h => by cases h) hb

/-- **no heart beat without TIMER_FLAG_HEARTBEAT.**  In every run of the model no heart_beat runs in a tick during which
    timer_flags lacks the bit - whatever is on the list and whatever the cursor variables hold -/
theorem no_beat_while_heart_beats_off (sc : Scripts) (cmds : List Cmd) (hk : Nat → List Op := fun _ => []) :
    quietWhenOff false (events sc cmds hk) = true :=
  judge_ok_implies_quiet_when_off _ (model_satisfies_spec sc cmds hk)

example : quietWhenOff false [.tickOff, .beat 2] = false := by decide
example : quietWhenOff false [.tickOff, .tickEnd, .tickBegin, .beat 2] = true := by decide

/-! ### intervals of any size, and retuning in place -/

theorem efunSat_min (n : Int) (h1 : 1 ≤ n) : NV.Gen.C11.efunSat n = min n shrtMax := by
  have hs : shrtMax = 32767 := by decide
  rw [gen_efunSat_eq]
  unfold satEfun
  split
  · omega
  · split <;> omega

/-- **interval of any size**: set_heart_beat(n) with ANY LPC integer n ≥ 1 on a live object without heart beat stores
    min(n, SHRT_MAX) in both short fields - no truncation, no wrap (the repaired code; `Witness.lean` has the values the
    unrepaired store produced).  With `serveN_period` the object then beats exactly once every min(n, SHRT_MAX) ticks. -/
theorem interval_stored_any (w : World) (x : Nat) (n : Int) (h1 : 1 ≤ n)
    (hd : w.dead.contains x = false) (hon : hasOb x w.hbs = false) (hc : w.hbs.length ≤ w.cap) :
    (setHeartBeat w x (NV.Gen.C11.efunSat n)).hbs =
      w.hbs ++ [{ ob := x, ticks := min n shrtMax, interval := min n shrtMax }] := by
  have hs : shrtMax = 32767 := by decide
  have e : NV.Gen.C11.efunSat n = NV.Gen.C11.efunSat (min n shrtMax) := by
    rw [efunSat_min n h1, efunSat_min (min n shrtMax) (by omega)]
    omega
  rw [e]
  exact interval_stored w x (min n shrtMax) (by omega) (by omega) hd hon hc

example : (setHeartBeat { cap := 32 } 2 (NV.Gen.C11.efunSat 4294967297)).hbs = [⟨2, 32767, 32767⟩] := by decide

/-- **retuning in place** (the neighbourhood of the independently written change C11-5): set_heart_beat(n), n ≥ 1, on an
    object that already has a heart beat rewrites its entry where it is - the order of the array, the round cursor and the
    number of entries still to serve are untouched, so an object that has not been visited yet in the running round is
    still visited in it; every other entry keeps countdown and interval -/
theorem retune_keeps_position (w : World) (x : Nat) (n : Int) (h1 : 1 ≤ n)
    (hd : w.dead.contains x = false) (hon : hasOb x w.hbs = true) :
    (setHeartBeat w x (NV.Gen.C11.efunSat n)).hbs = retune x (min n shrtMax) w.hbs ∧
    (setHeartBeat w x (NV.Gen.C11.efunSat n)).hbs.map (·.ob) = w.hbs.map (·.ob) ∧
    (setHeartBeat w x (NV.Gen.C11.efunSat n)).idx = w.idx ∧ (setHeartBeat w x (NV.Gen.C11.efunSat n)).todo = w.todo := by
  have hs : shrtMax = 32767 := by decide
  obtain ⟨i, hi, _⟩ := idxOf_some_of_has hon
  have h3 : ¬ (min n shrtMax > shrtMax) := by omega
  have h4 : ¬ (min n shrtMax = 0) := by omega
  have h5 : ¬ (min n shrtMax < 0) := by omega
  have hw : wrap16 (min n shrtMax) = min n shrtMax := wrap16_id (by omega) (by omega)
  have hset : setHeartBeat w x (NV.Gen.C11.efunSat n) = { w with hbs := retune x (min n shrtMax) w.hbs } := by
    rw [efunSat_min n h1, setHeartBeat_eq_ref]
    unfold setHeartBeatRef
    simp only [hd, h3, h4, h5, hon, hi, hw, if_false, if_true, Bool.false_eq_true]
    rw [set_idxOf _ hi]
  rw [hset]
  exact ⟨rfl, retune_obs x _ w.hbs, rfl, rfl⟩

example : (setHeartBeat { hbs := [⟨2, 1, 1⟩, ⟨3, 1, 1⟩, ⟨4, 1, 1⟩], cap := 32, idx := 0, todo := 3 } 4 (NV.Gen.C11.efunSat 3)).hbs =
    [⟨2, 1, 1⟩, ⟨3, 1, 1⟩, ⟨4, 3, 3⟩] := by decide

/-! ### a fifth trace-level clause: nobody stays behind as command_giver -/

/-- every `cg` observation after a pass of the backend loop says 0 -/
def cgClean : List Ev → Bool
  | [] => true
  | .cgAfter v :: r => v.isNone && cgClean r
  | _ :: r => cgClean r

theorem accepted_cg_clean : ∀ (tr : List Ev) (j : JState), (tr.foldl judge1 j).bad = j.bad → cgClean tr = true := by
  intro tr
  induction tr with
  | nil => intro _ _; rfl
  | cons e r ih =>
    intro j hacc
    simp only [List.foldl_cons] at hacc
    have hstep := bad_of_step hacc
    have hrest := ih (judge1 j e) (by rw [hacc, hstep])
    cases e with
    | cgAfter v =>
      cases v with
      | none => simpa [cgClean] using hrest
      | some o => exact absurd hstep (flagV_bad_ne rfl)
    | _ => simpa [cgClean] using hrest

theorem judge_ok_implies_cg_clean (tr : List Ev) (h : judgeEv tr = []) : cgClean tr = true := by
  unfold judgeEv at h
  have hb : (tr.foldl judge1 {}).bad = ({} : JState).bad := by simpa using h
  exact accepted_cg_clean tr {} hb

/-- **no heart_beat object stays behind as command_giver**: in every run of the model, after every pass of the backend loop
    - round completed, truncated, abandoned by an error, served right after an abandoned one, or not run at all -
    command_giver is 0 -/
theorem no_command_giver_left_behind (sc : Scripts) (cmds : List Cmd) (hk : Nat → List Op := fun _ => []) :
    cgClean (events sc cmds hk) = true :=
  judge_ok_implies_cg_clean _ (model_satisfies_spec sc cmds hk)

example : cgClean [.tickBegin, .tickEnd, .cgAfter (some 2)] = false := by decide

-- non-vacuity: the predicates reject what they should
example : beatsOnce [] [.tickBegin, .beat 2, .beatEnd 2, .beat 2] = false := by decide
example : calledOnlyOn [] [.shb 2 2 0 0, .tickBegin, .beat 2] = false := by decide
example : calledOnlyOn [] [.dest 3 2, .tickBegin, .beat 2] = false := by decide
example : calledOnlyOn [] [.hook 5 2, .shb 5 2 1 1, .hookEnd 5, .dest 3 2, .tickBegin, .beat 2] = false := by decide
example : calledOnlyOn [] [.hook 5 2, .hookEnd 5, .tickBegin, .beat 5] = false := by decide
example : calledOnlyOn [] [.shb 2 2 0 0, .shb 3 2 1 1, .tickBegin, .beat 2] = true := by decide

end NV.C11
