/-
C11 — "exactly once every n ticks", lifted from the service function to whole rounds and sequences of ticks of the
specification oracle (hence to every trace the oracle accepts, model or implementation).

  dueList          the objects of a list that are due in a round (have a heart_beat function, countdown expires)
  runRound_eq      a complete, untruncated round serves every entry exactly once (`map served`) and announces exactly
                   the due objects, in list order
  quiet_round      the oracle accepts the trace  tickBegin, (beat o, beatEnd o) for the due objects in order, tickEnd
                   and ends with every entry served once; by `beat_accepted_iff` no other beat is accepted at any point
  quiet_ticks      the same for m consecutive ticks
  serveN_period    an entry (ob, n, n), 1 ≤ n ≤ SHRT_MAX, after m services has countdown n - m % n, and its (m+1)-th
                   service beats iff n divides m + 1
-/
import NV.C11.Props

namespace NV.C11

/-- is the entry due: its object has a heart_beat function and the countdown expires at this service -/
def due (nofn : List Nat) (e : Entry) : Bool := !nofn.contains e.ob && (serve e).2

/-- the objects that beat in a complete round over `l`, in service order -/
def dueList (nofn : List Nat) (l : List Entry) : List Nat := (l.filter (due nofn)).map (·.ob)

/-- a whole untruncated round of the reference semantics: call `advanceL` until nothing is left to announce -/
def runRound (nofn : List Nat) : Nat → List Entry → List Entry → List Entry × List Nat
  | 0, done, pend => (done ++ pend, [])
  | f + 1, done, pend =>
    match advanceL nofn false done pend with
    | (d, p, some o) => ((runRound nofn f d p).1, o :: (runRound nofn f d p).2)
    | (d, p, none) => (d ++ p, [])

theorem dueList_cons (nofn : List Nat) (x : Entry) (r : List Entry) :
    dueList nofn (x :: r) = if due nofn x then x.ob :: dueList nofn r else dueList nofn r := by
  unfold dueList
  by_cases h : due nofn x = true
  · simp [List.filter, h]
  · simp [List.filter, h]

/-- **a complete round serves every entry exactly once and announces exactly the due ones, in order** -/
theorem runRound_eq (nofn : List Nat) : ∀ (pend done : List Entry) (fuel : Nat), pend.length ≤ fuel →
    runRound nofn fuel done pend = (done ++ pend.map (served nofn), dueList nofn pend) := by
  intro pend
  induction pend with
  | nil =>
    intro done fuel _
    cases fuel with
    | zero => simp [runRound, dueList]
    | succ f => simp [runRound, advanceL, dueList]
  | cons x rest ih =>
    intro done fuel hf
    cases fuel with
    | zero => simp at hf
    | succ f =>
      have hlen : rest.length ≤ f := by simpa using hf
      by_cases h1 : (!nofn.contains x.ob && (serve x).2) = true
      · have hd : due nofn x = true := h1
        have hadv : advanceL nofn false done (x :: rest) = (done ++ [served nofn x], rest, some x.ob) := by
          rw [advanceL_cons, if_pos h1]
        simp only [runRound, hadv]
        rw [ih (done ++ [served nofn x]) f hlen, dueList_cons, if_pos hd]
        simp
      · have hd : ¬ (due nofn x = true) := h1
        by_cases h2 : (rest.isEmpty || false) = true
        · have hnil : rest = [] := by
            simp only [Bool.or_false, List.isEmpty_iff] at h2; exact h2
          have hadv : advanceL nofn false done (x :: rest) = (done ++ [served nofn x], rest, none) := by
            rw [advanceL_cons, if_neg h1, if_pos h2]
          simp only [runRound, hadv]
          rw [dueList_cons, if_neg hd, hnil]
          simp [dueList]
        · have hadv : advanceL nofn false done (x :: rest) = advanceL nofn false (done ++ [served nofn x]) rest := by
            rw [advanceL_cons, if_neg h1, if_neg h2]
          have hstep : runRound nofn (f + 1) done (x :: rest) = runRound nofn (f + 1) (done ++ [served nofn x]) rest := by
            simp only [runRound, hadv]
          rw [hstep, ih (done ++ [served nofn x]) (f + 1) (by omega), dueList_cons, if_neg hd]
          simp

theorem advanceL_pend_lt (nofn : List Nat) (tr : Bool) : ∀ (pend done : List Entry), pend ≠ [] →
    (advanceL nofn tr done pend).2.1.length < pend.length := by
  intro pend
  induction pend with
  | nil => intro _ h; exact absurd rfl h
  | cons x rest ih =>
    intro done _
    rw [advanceL_cons]
    by_cases h1 : (!nofn.contains x.ob && (serve x).2) = true
    · rw [if_pos h1]; simp
    · rw [if_neg h1]
      by_cases h2 : (rest.isEmpty || tr) = true
      · rw [if_pos h2]; simp
      · rw [if_neg h2]
        have hne : rest ≠ [] := by
          intro h; rw [h] at h2; simp at h2
        have := ih (done ++ [served nofn x]) hne
        simp only [List.length_cons]
        omega

/-- the events of a round in which nothing but the due heart_beats happens -/
def quietBody : List Nat → List Ev
  | [] => []
  | o :: r => .beat o :: .beatEnd o :: quietBody r

/-- the oracle state after the rest of a quiet round, entered through `advance j` -/
def quietEnd (j : JState) (fuel : Nat) : JState :=
  (quietBody (runRound j.nofn fuel j.done j.pend).2 ++ [Ev.tickEnd]).foldl judge1 (advance j)

/-- the oracle walks through a quiet, untruncated round exactly as `runRound` says -/
theorem quiet_body (fuel : Nat) : ∀ (j : JState), j.trunc = false → j.pend.length ≤ fuel →
    (quietEnd j fuel).all = (runRound j.nofn fuel j.done j.pend).1 ++ j.late ∧
    (quietEnd j fuel).expect = .idle ∧ (quietEnd j fuel).bad = j.bad ∧ (quietEnd j fuel).nofn = j.nofn ∧
    (quietEnd j fuel).pend = [] ∧ (quietEnd j fuel).late = [] := by
  unfold quietEnd
  induction fuel with
  | zero =>
    intro j _ hl
    have hp : j.pend = [] := List.eq_nil_of_length_eq_zero (by omega)
    simp only [runRound, quietBody, List.nil_append, List.foldl_cons, List.foldl_nil, advance_nil hp]
    have : judge1 { j with expect := .endOfRound } .tickEnd = endRound { j with expect := .endOfRound } := by
      simp [judge1]
    rw [this]
    simp [endRound, JState.all, hp]
  | succ f ih =>
    intro j ht hl
    rcases hadv : advanceL j.nofn false j.done j.pend with ⟨d, p, oo⟩
    cases oo with
    | none =>
      have hadvj : advance j = { j with done := d, pend := p, expect := .endOfRound } := by
        unfold advance; rw [ht, hadv]
      simp only [runRound, hadv, quietBody, List.nil_append, List.foldl_cons, List.foldl_nil, hadvj]
      have : judge1 { j with done := d, pend := p, expect := .endOfRound } .tickEnd =
          endRound { j with done := d, pend := p, expect := .endOfRound } := by
        simp [judge1]
      rw [this]
      simp [endRound, JState.all]
    | some o =>
      have hadvj : advance j = { j with done := d, pend := p, cur := some o, expect := .beat o } := by
        unfold advance; rw [ht, hadv]
      have hne : j.pend ≠ [] := by
        intro h; rw [h] at hadv; simp [advanceL] at hadv
      have hlt := advanceL_pend_lt j.nofn false j.pend j.done hne
      rw [hadv] at hlt
      simp only at hlt
      let j2 : JState := { j with done := d, pend := p, cur := some o, expect := .inBeat }
      have hb : judge1 { j with done := d, pend := p, cur := some o, expect := .beat o } (.beat o) = j2 := by
        simp [judge1, j2]
      have he : judge1 j2 (.beatEnd o) = advance j2 := by
        simp [judge1, j2, ht]
      have hih := ih j2 ht (by show p.length ≤ f; omega)
      unfold quietEnd at hih
      simp only [runRound, hadv, quietBody, List.cons_append, List.foldl_cons, hadvj, hb, he]
      exact hih

theorem flagV_bad_ne' {j j' : JState} {v : String} (hb : j'.bad = j.bad) : (j'.flagV v).bad ≠ j.bad := by
  unfold JState.flagV
  simp only [hb]
  intro h
  have := congrArg List.length h
  simp at this

/-- the events of one quiet tick over the list `l` -/
def quietRound (nofn : List Nat) (l : List Entry) : List Ev :=
  .tickBegin :: (quietBody (dueList nofn l) ++ [.tickEnd])

/-- **one quiet, complete tick**: between rounds, the oracle accepts the trace in which exactly the due objects beat, in
    service order, and afterwards every entry has been served exactly once.  (By `beat_accepted_iff` a beat of any other
    object, a second beat, or a missing beat is a violation at the point where it happens.) -/
theorem quiet_round (j : JState) (hi : j.expect = .idle) :
    ((quietRound j.nofn j.all).foldl judge1 j).all = j.all.map (served j.nofn) ∧
    ((quietRound j.nofn j.all).foldl judge1 j).expect = .idle ∧
    ((quietRound j.nofn j.all).foldl judge1 j).bad = j.bad ∧
    ((quietRound j.nofn j.all).foldl judge1 j).nofn = j.nofn := by
  let j0 : JState := { j with done := [], pend := j.done ++ j.pend ++ j.late, late := [], inRound := true, trunc := false }
  have hjb : judge1 j .tickBegin = advance j0 := by simp [judge1, hi, j0]
  have h := quiet_body j.all.length j0 rfl (Nat.le_refl _)
  unfold quietEnd at h
  have hr : runRound j0.nofn j.all.length j0.done j0.pend = ([] ++ j.all.map (served j.nofn), dueList j.nofn j.all) :=
    runRound_eq j.nofn j.all [] j.all.length (Nat.le_refl _)
  rw [hr] at h
  unfold quietRound
  simp only [List.foldl_cons, hjb]
  obtain ⟨a, b, c, d, _, _⟩ := h
  have hl : j0.late = [] := rfl
  rw [hl] at a
  exact ⟨by simpa using a, b, c, d⟩

/-- ... and the oracle insists on every due beat: ending the round while a beat is announced is a violation -/
theorem missed_beat_rejected (j : JState) (o : Nat) (h : j.expect = .beat o) : (judge1 j .tickEnd).bad ≠ j.bad := by
  have hne : ¬ ((j.expect == Expect.endOfRound) = true) := by rw [h]; simp
  simp only [judge1]
  rw [if_neg hne, h]
  exact flagV_bad_ne' rfl

/-- m consecutive quiet ticks -/
def quietTicks (nofn : List Nat) : Nat → List Entry → List Ev
  | 0, _ => []
  | m + 1, l => quietRound nofn l ++ quietTicks nofn m (l.map (served nofn))

def servedN (nofn : List Nat) : Nat → Entry → Entry
  | 0, e => e
  | m + 1, e => servedN nofn m (served nofn e)

theorem map_servedN_succ (nofn : List Nat) (m : Nat) (l : List Entry) :
    (l.map (served nofn)).map (servedN nofn m) = l.map (servedN nofn (m + 1)) := by
  simp [List.map_map, Function.comp_def, servedN]

/-- **m quiet ticks**: accepted, and every entry has been served exactly m times -/
theorem quiet_ticks : ∀ (m : Nat) (j : JState), j.expect = .idle →
    ((quietTicks j.nofn m j.all).foldl judge1 j).all = j.all.map (servedN j.nofn m) ∧
    ((quietTicks j.nofn m j.all).foldl judge1 j).bad = j.bad := by
  intro m
  induction m with
  | zero => intro j _; simp [quietTicks, servedN]
  | succ m ih =>
    intro j hi
    obtain ⟨a, b, c, d⟩ := quiet_round j hi
    have h2 := ih ((quietRound j.nofn j.all).foldl judge1 j) b
    rw [a, d] at h2
    simp only [quietTicks, List.foldl_append]
    rw [map_servedN_succ] at h2
    exact ⟨h2.1, h2.2.trans c⟩

theorem succ_mod (m N : Nat) (hN : 0 < N) : (m + 1) % N = if m % N + 1 = N then 0 else m % N + 1 := by
  have hlt := Nat.mod_lt m hN
  have hdm := Nat.div_add_mod m N
  by_cases h : m % N + 1 = N
  · rw [if_pos h]
    have : m + 1 = N * (m / N + 1) := by
      rw [Nat.mul_add, Nat.mul_one]; omega
    rw [this, Nat.mul_mod_right]
  · rw [if_neg h]
    have : m + 1 = N * (m / N) + (m % N + 1) := by omega
    rw [this, Nat.mul_add_mod, Nat.mod_eq_of_lt (by omega)]

/-- **period n over any number of ticks**: an object with a heart_beat function, enabled with interval n
    (1 ≤ n ≤ SHRT_MAX) and served once per tick, has countdown n - m % n after m ticks, and beats in tick m + 1 exactly
    when n divides m + 1 - once every n ticks -/
theorem serveN_period (nofn : List Nat) (ob : Nat) (n : Nat) (h1 : 1 ≤ n) (h2 : (n : Int) ≤ shrtMax)
    (hfn : nofn.contains ob = false) : ∀ m : Nat,
    servedN nofn m { ob := ob, ticks := (n : Int), interval := (n : Int) } =
      { ob := ob, ticks := (n : Int) - ((m % n : Nat) : Int), interval := (n : Int) } ∧
    (due nofn (servedN nofn m { ob := ob, ticks := (n : Int), interval := (n : Int) }) = true ↔ (m + 1) % n = 0) := by
  have key : ∀ k : Nat, k < n →
      serve { ob := ob, ticks := (n : Int) - (k : Int), interval := (n : Int) } =
        if (k : Int) = (n : Int) - 1 then ({ ob := ob, ticks := (n : Int), interval := (n : Int) }, true)
        else ({ ob := ob, ticks := (n : Int) - (k : Int) - 1, interval := (n : Int) }, false) :=
    fun k hk => period_n_countdown ob (n : Int) (by omega) h2 k (by omega)
  have hstate : ∀ m : Nat, servedN nofn m { ob := ob, ticks := (n : Int), interval := (n : Int) } =
      { ob := ob, ticks := (n : Int) - ((m % n : Nat) : Int), interval := (n : Int) } := by
    intro m
    induction m with
    | zero => simp [servedN]
    | succ m ih =>
      -- servedN (m+1) e = servedN m (served e): rather unfold from the other end
      have hcomm : ∀ (k : Nat) (e : Entry), servedN nofn (k + 1) e = served nofn (servedN nofn k e) := by
        intro k
        induction k with
        | zero => intro e; rfl
        | succ k ihk => intro e; show servedN nofn (k + 1) (served nofn e) = _; rw [ihk]; rfl
      rw [hcomm, ih]
      have hlt := Nat.mod_lt m (show 0 < n by omega)
      unfold served
      simp only [hfn, Bool.false_eq_true, if_false]
      rw [key (m % n) hlt, succ_mod m n (by omega)]
      by_cases hl : m % n + 1 = n
      · have : ((m % n : Nat) : Int) = (n : Int) - 1 := by omega
        rw [if_pos this, if_pos hl]
        simp
      · have : ¬ (((m % n : Nat) : Int) = (n : Int) - 1) := by omega
        rw [if_neg this, if_neg hl]
        simp only
        congr 1
        omega
  intro m
  refine ⟨hstate m, ?_⟩
  rw [hstate m]
  have hlt := Nat.mod_lt m (show 0 < n by omega)
  unfold due
  simp only [hfn, Bool.not_false, Bool.true_and]
  rw [key (m % n) hlt, succ_mod m n (by omega)]
  by_cases hl : m % n + 1 = n
  · have : ((m % n : Nat) : Int) = (n : Int) - 1 := by omega
    rw [if_pos this, if_pos hl]
    simp
  · have : ¬ (((m % n : Nat) : Int) = (n : Int) - 1) := by omega
    rw [if_neg this, if_neg hl]
    simp

example : dueList [] [⟨2, 1, 1⟩, ⟨3, 2, 2⟩, ⟨4, 1, 3⟩] = [2, 4] := by decide
example : judgeEv ([.clone 0 2 0 1 1, .clone 0 3 0 2 2] ++ quietTicks [1] 2 [⟨2, 1, 1⟩, ⟨3, 2, 2⟩]) = [] := by decide
example : quietTicks [1] 2 [⟨2, 1, 1⟩, ⟨3, 2, 2⟩] =
    [.tickBegin, .beat 2, .beatEnd 2, .tickEnd, .tickBegin, .beat 2, .beatEnd 2, .beat 3, .beatEnd 3, .tickEnd] := by decide

end NV.C11
