/-
C11 — Lean-checked witnesses around the interval range.

Before `fix: C11` set_heart_beat() stored `(short)to`: the statement "an object enabled with interval n beats once
every n ticks" was false outside 1 ≤ n ≤ SHRT_MAX.  The witnesses below are about the `(short)` conversion itself
(`wrap16`) and the service function, i.e. what the unrepaired code did; the last ones show what the repaired code
(the model) stores.  The correspondence run replays the same values on the real driver
(boundary cases `interval-short-boundary`, `interval-int-boundary`).
-/
import NV.C11.Props

namespace NV.C11

/-- `(short)40000 = -25536`, `(short)65536 = 0`, `(short)32768 = -32768` -/
theorem truncation_values : wrap16 40000 = -25536 ∧ wrap16 65536 = 0 ∧ wrap16 32768 = -32768 := by decide

/-- with the truncated interval −25536 (set_heart_beat(40000)) or 0 (set_heart_beat(65536)) the object beat on
    *every* service: `period_n` does not extend beyond SHRT_MAX for the unrepaired store -/
theorem truncated_interval_beats_every_tick :
    serve { ob := 2, ticks := wrap16 40000, interval := wrap16 40000 } =
      ({ ob := 2, ticks := wrap16 40000, interval := wrap16 40000 }, true) ∧
    serve { ob := 2, ticks := wrap16 65536, interval := wrap16 65536 } =
      ({ ob := 2, ticks := wrap16 65536, interval := wrap16 65536 }, true) := by decide

/-- set_heart_beat(32768) was stored as −32768: the first countdown wrapped to +32767 and the period became 32767 -/
theorem truncated_32768_wraps :
    serve { ob := 2, ticks := wrap16 32768, interval := wrap16 32768 } =
      ({ ob := 2, ticks := 32767, interval := -32768 }, false) := by decide

/-- the hypothesis n ≤ SHRT_MAX of `period_n` / `interval_stored` is necessary also for the repaired code:
    set_heart_beat(40000) stores the clamped interval 32767, not 40000 ... -/
theorem clamp_witness : queryHeartBeat (setHeartBeat {} 0 (NV.Gen.C11.efunSat 40000)) 0 = 32767 := by decide

/-- ... and 2^32 (which the unrepaired efun truncated to 0 = "disable") enables with 32767 as well -/
theorem clamp_witness_int : queryHeartBeat (setHeartBeat {} 0 (NV.Gen.C11.efunSat 4294967296)) 0 = 32767 := by decide

end NV.C11
