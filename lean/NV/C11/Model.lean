/-
C11 — executable model of the heart-beat machinery of src/backend.c (+ error_context.c, simulate.c, efuns).

Mirrors, line by line:
  call_heart_beat   -> `tick` / `round`   (heart_beat_flag = 0; num_hb_to_do = num_hb_objs; heart_beat_index = 0;
                        while (!heart_beat_flag) { heart_beats[heart_beat_index]; ticks--; prog->heart_beat test;
                        ticks < 1 -> ticks = interval, current_heart_beat = ob, call; if (++index == to_do) break; }
                        heart_beat_index = num_hb_to_do = 0; current_heart_beat = 0)
  set_heart_beat    -> `setHeartBeat`     (O_DESTRUCTED test, clamp to SHRT_MAX (fix: C11), removal with the
                        compensation of heart_beat_index / num_hb_to_do guarded by `if (num_hb_to_do)`, memmove,
                        retune `(short)to` refused for to < 0, append with growth by HEART_BEAT_CHUNK, to < 0 -> 1;
                        the memmove arguments and the new num_hb_objs are `NV.Gen.C11.rmMove`)
  query_heart_beat  -> `queryHeartBeat`
  f_set_heart_beat  -> `satEfun` then `setHeartBeat` on the current object
  error_handler     -> `errorHandler`     (set_heart_beat (current_heart_beat, 0); current_heart_beat = 0) and the
                        longjmp to backend()'s context, which abandons the round leaving heart_beat_index and
                        num_hb_to_do *stale* until the next tick (they are still compensated by removals in between)
  destruct_object   -> set_heart_beat (ob, 0) then O_DESTRUCTED
  clone_object      -> `if (ob->flags & O_HEART_BEAT) set_heart_beat (ob, 0)` on the blueprint, then create()

`heart_beats[0 .. num_hb_objs)` is the list `hbs`; an access outside it, an append beyond `max_heart_beats` and a
round that would not terminate are explicit `crashed` outcomes.  O_HEART_BEAT is "has an entry in hbs" (the C code
sets/clears the flag exactly where it appends/removes).  The C code scans the array from the back, the model from
the front: entries are unique per object (theorem `nodup_objs`).
The decisive conditions and updates are NOT hand-copied: `NV.Gen.C11.{clampTo, rmCompensate, appendStore, efunSat,
hbBody, loopStep, loopContinues}` are regenerated from the clang AST of the working tree on every run
(props/c11_extract.py); NV/C11/Bridge.lean proves that they equal the forms the invariant proofs use.
LPC code run by heart_beat functions is an oracle: `Scripts` maps (object, number of its beats so far) to the
operations that heart_beat performs (the correspondence harness installs the same scripts in the real objects).
-/
import NV.C11.Spec

namespace NV.C11

/-- C: HEART_BEAT_CHUNK -/
abbrev chunk : Nat := NV.Gen.C11.heartBeatChunk

/-- operations an object can perform (top level or inside its heart_beat) -/
inductive Op where
  | shb (target : Nat) (n : Int)        -- target->set_heart_beat(n)   (target may be the object itself)
  | q (target : Nat)                    -- query_heart_beat(target)
  | dest (target : Nat)                 -- destruct(target)
  | clone (new kind : Nat) (n : Int)    -- new = clone of blueprint `kind` whose create() does set_heart_beat(n)
  | err                                 -- error("boom")
  | flag                                -- the timer fires now (heart_beat_flag = 1)
  | hbs                                 -- heart_beats()
  | take (item : Nat)                   -- item->move_object(this_object()): item joins the inventory
  | cerr                                -- catch (error ("boom")): the error never reaches the uncaught branch
  | reload (target : Nat) (n : Int)     -- reload_object(target); its create() does set_heart_beat(n) again
  | living                              -- enable_commands()
  | burn                                -- use up evaluation cost
  | zshb (n : Int)                      -- set_heart_beat(n) in this object itself, also when it has just destructed itself
  | mv (dest : Nat)                     -- move_object (dest): this object moves (out of its carrier, if any) into dest
  | rp                                  -- replace_program ("/c11/base"): the inherited program without heart_beat()
  deriving Repr, BEq

structure World where
  hbs : List Entry := []                -- heart_beats[0 .. num_hb_objs)
  cap : Nat := 0                        -- max_heart_beats
  idx : Int := 0                        -- heart_beat_index
  todo : Int := 0                       -- num_hb_to_do
  cur : Option Nat := none              -- current_heart_beat
  flag : Bool := false                  -- heart_beat_flag
  known : List Nat := [0, 1]
  nofn : List Nat := [1]                -- prog->heart_beat == -1
  dead : List Nat := []                 -- O_DESTRUCTED
  nb : Nat → Nat := fun _ => 0          -- per object: number of beats so far (selects the script)
  inv : List (Nat × Nat) := []          -- (item, carrier), newest first (ob->contains is a head-inserted list)
  hooks : Nat → List Op := fun _ => []  -- static: what move_or_destruct() of an object does
  tflags : Int := (NV.Gen.C11.timerFlagHeartbeat : Nat)   -- MAIN_OPTION (timer_flags)
  living : List Nat := []               -- O_ENABLE_COMMANDS
  cg : Option Nat := none               -- command_giver
  ec : Bool := true                     -- eval_cost == CONFIG_INT (__MAX_EVAL_COST__)
  restrict : Option Nat := none         -- restrict_destruct (set while move_or_destruct() of an item runs)
  co : List (Nat × List Op) := []       -- pending call_outs (object, what its callback does), oldest first; all due at the next dispatch
  rp : List Nat := []                   -- obj_list_replace (head = newest entry)
  replaced : List Nat := []             -- objects whose program has been replaced
  crashed : Bool := false

abbrev Scripts := Nat → Nat → List Op

inductive Status where
  | ok | err | stop
  deriving Repr, DecidableEq

def idxOf (x : Nat) : List Entry → Option Nat
  | [] => none
  | e :: r => if e.ob = x then some 0 else (idxOf x r).map (· + 1)

def World.alive (w : World) (x : Nat) : Bool := w.known.contains x && !w.dead.contains x

/-- `memmove (heart_beats + dst, heart_beats + src, cnt * sizeof (heart_beat_t))` under its guard, followed by the new
    element count, on the list (`NV.Gen.C11.rmMove` gives dst, src, cnt, guard, count) -/
def applyMove (l : List Entry) (m : Int × Int × Int × Bool × Int) : List Entry :=
  (if m.2.2.2.1 then l.take m.1.toNat ++ (l.drop m.2.1.toNat).take m.2.2.1.toNat ++ l.drop (m.1.toNat + m.2.2.1.toNat)
   else l).take m.2.2.2.2.toNat

/-- src/backend.c set_heart_beat (ob, to).  The rewrite of `to` in front of the `!to` test, the compensation of
    heart_beat_index / num_hb_to_do on removal and what the append branch stores are the definitions regenerated
    from the source (`NV.Gen.C11.clampTo`, `rmCompensate`, `appendStore`) -/
def setHeartBeat (w : World) (ob : Nat) (to : Int) : World :=
  if w.dead.contains ob then w           -- `if (ob->flags & O_DESTRUCTED) return 0;` (mask: NV.Gen.C11.shbGuardMask)
  else
    let to := NV.Gen.C11.clampTo to
    if to = 0 then
      match idxOf ob w.hbs with
      | none => w
      | some index =>
        let c := NV.Gen.C11.rmCompensate (index : Int) w.idx w.todo
        { w with idx := c.1, todo := c.2, hbs := applyMove w.hbs (NV.Gen.C11.rmMove (index : Int) (w.hbs.length : Int)) }
    else if hasOb ob w.hbs then
      let r := NV.Gen.C11.retuneStore to 0 0
      if r.1 then w
      else
        match idxOf ob w.hbs with
        | none => w
        | some index =>
          { w with hbs := w.hbs.set index { ob := ob, ticks := r.2.1, interval := r.2.2 } }
    else
      let cap := (NV.Gen.C11.growCap (w.cap : Int) (w.hbs.length : Int)).toNat
      if w.hbs.length < cap then
        let s := NV.Gen.C11.appendStore to
        { w with cap := cap, hbs := w.hbs ++ [{ ob := ob, ticks := s.1, interval := s.2 }] }
      else { w with crashed := true }

/-- src/backend.c query_heart_beat -/
def queryHeartBeat (w : World) (ob : Nat) : Int :=
  match lookup ob w.hbs with
  | some e => e.interval
  | none => 0

/-- one statement of the `if (current_heart_beat) { ... }` block of error_handler, by the code the translator gives it
    (`NV.Gen.C11.errBlock`): 1 = `set_heart_beat (current_heart_beat, 0)`, 2 = `current_heart_beat = 0` -/
def errStmt (w : World) : Nat → World
  | 1 => match w.cur with
    | some c => setHeartBeat w c 0
    | none => { w with crashed := true }       -- set_heart_beat (NULL, 0)
  | 2 => { w with cur := none }
  | _ => w

/-- src/error_context.c error_handler, uncaught branch: the statements of the `if (current_heart_beat)` block in the
    order of the source -/
def errorHandler (w : World) : World :=
  match w.cur with
  | some _ => NV.Gen.C11.errBlock.foldl errStmt w
  | none => w

/-- error_handler from its first statement: `reset_destruct_object_limits ()` (restrict_destruct = 0), ..., the heart-beat
    switch-off -/
def errorEntry (w : World) : World := errorHandler { w with restrict := none }

def isItem (w : World) (x : Nat) : Bool := w.inv.any (fun p => p.1 == x)

/-- ob->contains of carrier c, front to back -/
def itemsOf (w : World) (c : Nat) : List Nat := (w.inv.filter (fun p => p.2 == c && p.1 != c)).map (·.1)

/-- src/simulate.c destruct_object: `if (restrict_destruct && restrict_destruct != ob) error (...)` -/
def restricted (w : World) (t : Nat) : Bool :=
  match w.restrict with
  | some r => r != t
  | none => false

/-- the two heart-beat relevant statements at the end of destruct_object -/
def leafPhase (t : Nat) (w : World) : Nat → World
  | 1 => setHeartBeat w t 0                                                         -- set_heart_beat (ob, 0);
  | 2 => { w with dead := t :: w.dead, inv := w.inv.filter (fun p => p.1 != t) }    -- ob->flags |= O_DESTRUCTED;
  | _ => w

/-- src/simulate.c destruct_object for an object without inventory: the statements in the ORDER of the source
    (`NV.Gen.C11.destructOrder`: 0 = inventory loop, 1 = set_heart_beat (ob, 0), 2 = O_DESTRUCTED store) -/
def destructLeaf (w : World) (t : Nat) : World := NV.Gen.C11.destructOrder.foldl (leafPhase t) w

/-- one operation executed by the live object `self`; destruct here is the destruct of an object without
    inventory (`stepOp` below runs the inventory hooks) -/
def stepOpBasic (w : World) (self : Nat) (op : Op) : World × List Ev × Status :=
  match op with
  | .shb t n =>
    if !w.alive t then (w, [.shbDead self t n], .ok)
    else
      let w' := setHeartBeat w t (NV.Gen.C11.efunSat n)
      (w', [.shb self t n (queryHeartBeat w' t)], .ok)
  | .q t =>
    if !w.alive t then (w, [.queryDead self t], .ok)
    else (w, [.query self t (queryHeartBeat w t)], .ok)
  | .dest t =>
    if !w.alive t || t < 2 then (w, [.destNone self t], .ok)
    else if restricted w t then (w, [.errR], .err)
    else (destructLeaf w t, [.dest self t], if (destructLeaf w t).alive self then .ok else .stop)
  | .clone new kind n =>
    if w.known.contains new then (w, [.cloneDup self new], .ok)
    else
      let k := if kind = 0 then 0 else 1
      let w1 := setHeartBeat w k 0
      let w2 := { w1 with known := new :: w1.known, nofn := if kind = 0 then w1.nofn else new :: w1.nofn }
      let w3 := setHeartBeat w2 new (NV.Gen.C11.efunSat n)
      (w3, [.clone self new k n (queryHeartBeat w3 new)], .ok)
  | .err => (w, [.err self], .err)
  | .flag => ({ w with flag := decide (NV.Gen.C11.timerSetsFlag (if w.flag then 1 else 0) ≠ 0) }, [.flag self], .ok)   -- heartbeat_timer_callback
  | .hbs => (w, [.hbs self (w.hbs.map (·.ob)).reverse], .ok)
  | .take i =>
    if w.alive i && !(i < 2) && i != self && !isItem w self && !isItem w i && (itemsOf w i).isEmpty then
      ({ w with inv := (i, self) :: w.inv }, [.into i self], .ok)
    else (w, [.intoNone i self], .ok)
  | .cerr => (w, [.caught self], .ok)
  | .zshb n =>
    -- f_set_heart_beat -> set_heart_beat (current_object, n): the O_DESTRUCTED test at its entry is what keeps a
    -- destructed object off the list
    if !w.known.contains self then (w, [.zshb self n], .ok)
    else (setHeartBeat w self (NV.Gen.C11.efunSat n), [.zshb self n], .ok)
  | .mv x =>
    if w.alive x && !(x < 2) && !(self < 2) && x != self && !isItem w x && (itemsOf w self).isEmpty then
      ({ w with inv := (self, x) :: w.inv.filter (fun p => p.1 != self) }, [.moved self x], .ok)
    else (w, [.movedNone self x], .ok)
  | .reload t n =>
    if !w.alive t || t < 2 then (w, [.reloadNone self t], .ok)
    else
      -- lib/lpc/object.c reload_object: variables cleared, O_ENABLE_COMMANDS cleared, set_heart_beat (obj, 0),
      -- remove_all_call_out (obj), create()
      let w1 := setHeartBeat { w with living := w.living.filter (· != t), nb := fun o => if o = t then 0 else w.nb o,
                                      co := w.co.filter (fun c => c.1 != t) } t 0    -- remove_all_call_out (obj)
      let w2 := setHeartBeat w1 t (NV.Gen.C11.efunSat n)
      (w2, [.reload self t n (queryHeartBeat w2 t)], .ok)
  | .living => ({ w with living := self :: w.living, cg := some self }, [.living self], .ok)
  | .burn => ({ w with ec := false }, [.burn self], .ok)
  | .rp =>
    -- lib/efuns/replace_program.c f_replace_program: one entry per object in obj_list_replace, new ones at the head;
    -- the program is swapped by replace_programs() at the top of the backend loop
    if self < 2 || w.replaced.contains self then (w, [.rpNone self], .ok)
    else ({ w with rp := if w.rp.contains self then w.rp else self :: w.rp }, [.rp self], .ok)

/-- run a script; stops at the first error or when the object is destructed (by itself, or as an inventory item
    of the object it destructed) -/
def runOpsBasic (w : World) (self : Nat) : List Op → World × List Ev × Status
  | [] => (w, [], .ok)
  | op :: rest =>
    match stepOpBasic w self op with
    | (w1, evs, .ok) =>
      match runOpsBasic w1 self rest with
      | (w2, evs2, st) => (w2, evs ++ evs2, st)
    | (w1, evs, st) => (w1, evs, st)


/-- operations that the scripted move_or_destruct() hooks perform (destruct of anything but the item itself is refused by
    restrict_destruct with an error; an uncaught error leaves destruct_object right there) -/
def hookAllowed : Op → Bool
  | .shb _ _ | .q _ | .clone _ _ _ | .flag | .hbs | .err | .cerr | .dest _ | .mv _ => true
  | _ => false

/-- one iteration of `while (ob->contains)`: `restrict_destruct = item`, apply move_or_destruct() in the item (its script may
    touch any heart beat, including the dying carrier's, destruct ITSELF - anything else is refused with an error - or move
    away), `restrict_destruct = <saved>`, then `if (otmp == ob->contains) destruct_object (otmp)`.  "An error here will not
    leave destruct() in an inconsistent stage": it propagates to the caller of destruct_object (error_handler resets
    restrict_destruct); the carrier and the remaining items stay as they are (status `.err`, later items are not visited) -/
def hookStep (carrier : Nat) (acc : World × List Ev × Status) (i : Nat) : World × List Ev × Status :=
  if acc.2.2 != .ok then acc
  else if !acc.1.alive i then acc
  else
    match runOpsBasic { acc.1 with restrict := some i } i ((acc.1.hooks i).filter hookAllowed) with
    | (w1, e1, .err) => (w1, acc.2.1 ++ .hook i carrier :: e1, .err)
    | (w1, e1, _) =>
      if !w1.alive i then ({ w1 with restrict := none }, acc.2.1 ++ .hook i carrier :: e1 ++ [.hookGone i], .ok)
      else if (itemsOf w1 carrier).contains i then
        (destructLeaf { w1 with restrict := none } i, acc.2.1 ++ .hook i carrier :: e1 ++ [.hookEnd i], .ok)
      else ({ w1 with restrict := none }, acc.2.1 ++ .hook i carrier :: e1 ++ [.hookMoved i], .ok)

def hooksPhase (w : World) (t : Nat) : World × List Ev × Status := (itemsOf w t).foldl (hookStep t) (w, [], .ok)

/-- one statement group of destruct_object; the status says `.ok` = still going, `.stop` = the inventory loop returned
    from destruct_object because a hook left the object destructed (`if (ob->flags & O_DESTRUCTED) return;`),
    `.err` = a hook raised an error -/
def fullPhase (t : Nat) (acc : World × List Ev × Status) : Nat → World × List Ev × Status
  | 0 =>
    if acc.2.2 = .ok then
      match hooksPhase acc.1 t with
      | (w1, e1, .err) => (w1, acc.2.1 ++ e1, .err)
      | (w1, e1, _) => (w1, acc.2.1 ++ e1, if w1.alive t then .ok else .stop)
    else acc
  | ph => if acc.2.2 = .ok then (leafPhase t acc.1 ph, acc.2.1, .ok) else acc

/-- src/simulate.c destruct_object: inventory hooks, heart-beat removal and the O_DESTRUCTED store in the order of
    the source; (world, events, ran to the end / returned early / error) -/
def destructFull (w : World) (t : Nat) : World × List Ev × Status :=
  NV.Gen.C11.destructOrder.foldl (fullPhase t) (w, [], .ok)

/-- one operation executed by the live object `self` -/
def stepOp (w : World) (self : Nat) (op : Op) : World × List Ev × Status :=
  match op with
  | .dest t =>
    if !w.alive t || t < 2 then (w, [.destNone self t], .ok)
    else if restricted w t then (w, [.errR], .err)
    else
      match destructFull w t with
      | (w', evs, .ok) => (w', evs ++ [.dest self t], if w'.alive self then .ok else .stop)
      | (w', evs, .stop) => (w', evs ++ [.destGone self t], if w'.alive self then .ok else .stop)
      | (w', evs, .err) => (w', evs, .err)
  | op => stepOpBasic w self op

/-- what is left of a script after the object destructed itself: the function runs on until it returns; its own
    set_heart_beat calls (`zshb`) and an error raised there are executed, everything else ends the script -/
def runDead (w : World) (self : Nat) : List Op → World × List Ev × Status
  | .zshb n :: rest =>
    match stepOpBasic w self (.zshb n) with
    | (w1, evs, _) =>
      match runDead w1 self rest with
      | (w2, evs2, st) => (w2, evs ++ evs2, st)
  | .err :: _ => (w, [.err self], .err)
  | _ => (w, [], .stop)

/-- run a script; stops at the first error or when the object is destructed (by itself, or as an inventory item
    of the object it destructed) -/
def runOps (w : World) (self : Nat) : List Op → World × List Ev × Status
  | [] => (w, [], .ok)
  | op :: rest =>
    match stepOp w self op with
    | (w1, evs, .ok) =>
      match runOps w1 self rest with
      | (w2, evs2, st) => (w2, evs ++ evs2, st)
    | (w1, evs, .stop) =>
      -- the function of a destructed object runs on until it returns: an error raised there still reaches
      -- error_handler, whose set_heart_beat (current_heart_beat, 0) then meets O_DESTRUCTED
      match runDead w1 self rest with
      | (w2, evs2, st) => (w2, evs ++ evs2, st)
    | (w1, evs, st) => (w1, evs, st)

/-- write back (heart_beat_index, num_hb_to_do, current_heart_beat) computed by a regenerated slice; the slices only ever
    store NULL into current_heart_beat (0 = NULL, anything else = unchanged) -/
def leave (w : World) (x : Int × Int × Int) : World :=
  { w with idx := x.1, todo := x.2.1, cur := if x.2.2 = 0 then none else w.cur }

def curInt (w : World) : Int := if w.cur.isSome then 1 else 0

/-- end of a round (`NV.Gen.C11.roundExit`): `heart_beat_index = num_hb_to_do = 0; ... current_heart_beat = 0` -/
def finish (w : World) : World := leave w (NV.Gen.C11.roundExit w.idx w.todo (curInt w))

/-- one statement next to the call of heart_beat() in call_heart_beat, by the code the translator gives it
    (`NV.Gen.C11.callFrame`) -/
def frameStmt (ob : Nat) (w : World) : Nat → World
  | 1 => { w with cur := some ob }                          -- current_heart_beat = ob;
  | 2 => { w with cg := some ob }                           -- command_giver = ob;
  | 3 => match w.cg with                                    -- if (!(command_giver->flags & O_ENABLE_COMMANDS)) command_giver = 0;
    | some g => if w.living.contains g then w else { w with cg := none }
    | none => { w with crashed := true }
  | 4 => { w with ec := true }                              -- eval_cost = CONFIG_INT (__MAX_EVAL_COST__);
  | 5 => { w with cg := none }                              -- command_giver = 0;
  | _ => w                                                  -- current_object = 0; (not modelled)

/-- the statements in front of / after the call, in the order of the source -/
def callSetup (w : World) (ob : Nat) : World := (NV.Gen.C11.callFrame.takeWhile (· != 0)).foldl (frameStmt ob) w
def callAfter (w : World) (ob : Nat) : World := ((NV.Gen.C11.callFrame.dropWhile (· != 0)).drop 1).foldl (frameStmt ob) w

/-- what the heart_beat function sees when it is entered -/
def ctxEv (w : World) (ob : Nat) : Ev := .ctx ob (w.living.contains ob) w.cg w.ec

def crash (w : World) (why : String) : World × List Ev := ({ w with crashed := true }, [.junk s!"crash {why}"])

/-- `if (++heart_beat_index == num_hb_to_do) break;` followed by the test of the while condition
    (`NV.Gen.C11.loopStep`, `loopContinues`): the cursor after the step and whether the round is over -/
def cursorStep (w : World) : World × Bool :=
  let st := NV.Gen.C11.loopStep w.idx w.todo
  ({ w with idx := st.1 }, st.2 || !NV.Gen.C11.loopContinues (if w.flag then 1 else 0))

/-- the while loop of call_heart_beat, entered with heart_beat_index = w.idx.  What happens to the entry
    (countdown, prog->heart_beat test, `< 1` test, reset, call) is `NV.Gen.C11.hbBody`, regenerated from the source -/
def round (sc : Scripts) : Nat → World → World × List Ev
  | 0, w => crash w "round-does-not-terminate"
  | fuel + 1, w =>
    if w.idx < 0 then crash w "heart_beats-index-negative"
    else
      match w.hbs[w.idx.toNat]? with
      | none => crash w "heart_beats-index-beyond-num_hb_objs"
      | some hb =>
        let b := NV.Gen.C11.hbBody (if w.nofn.contains hb.ob then -1 else 0) hb.ticks hb.interval
        if b.2.1 then
          let w1 := callSetup { w with hbs := w.hbs.set w.idx.toNat { hb with ticks := b.2.2 },
                                       nb := fun o => if o = hb.ob then w.nb o + 1 else w.nb o } hb.ob
          match runOps w1 hb.ob (sc hb.ob (w.nb hb.ob)) with
          | (w2, evs, .err) =>
            -- longjmp to backend()'s recovery point: restore_context() puts back the command_giver saved by
            -- save_context() right after clear_state(), i.e. 0
            ({ errorEntry w2 with cg := none }, .beat hb.ob :: ctxEv w1 hb.ob :: evs ++ [.tickAbort])
          | (w2, evs, _) =>
            let w2 := callAfter w2 hb.ob
            if (cursorStep w2).2 then (finish (cursorStep w2).1, .beat hb.ob :: ctxEv w1 hb.ob :: evs ++ [.beatEnd hb.ob, .tickEnd])
            else
              match round sc fuel (cursorStep w2).1 with
              | (w4, evs') => (w4, .beat hb.ob :: ctxEv w1 hb.ob :: evs ++ .beatEnd hb.ob :: evs')
        else
          let w1 := { w with hbs := w.hbs.set w.idx.toNat { hb with ticks := b.1 } }
          if (cursorStep w1).2 then (finish (cursorStep w1).1, [.tickEnd])
          else round sc fuel (cursorStep w1).1

/-- lib/efuns/replace_program.c replace_programs(), one entry: `r_ob->ob->prog = r_ob->new_prog` (a program without
    heart_beat function: `prog->heart_beat == -1` from now on).  Destructed objects are not observable. -/
def rpStep (acc : World × List Ev) (o : Nat) : World × List Ev :=
  if acc.1.alive o then
    ({ acc.1 with nofn := o :: acc.1.nofn, replaced := o :: acc.1.replaced }, acc.2 ++ [.rpDone o])
  else acc

/-- top of the backend() loop: remove_destructed_objects() -> `if (obj_list_replace) replace_programs ();` -/
def applyRp (w : World) : World × List Ev := w.rp.foldl rpStep ({ w with rp := [] }, [])

/-- does timer_flags have TIMER_FLAG_HEARTBEAT (what the harness prints as `tickbegin` / `tickbegin off`) -/
def hbOn (tf : Int) : Bool := decide ((tf / (NV.Gen.C11.timerFlagHeartbeat : Nat)) % 2 ≠ 0)

/-- src/backend.c call_heart_beat (heart beats only).  The frame of the round is regenerated from the source:
    `NV.Gen.C11.roundEntry` = everything up to the while loop (heart_beat_flag = 0, num_hb_to_do = num_hb_objs, the
    `(timer_flags & TIMER_FLAG_HEARTBEAT) && num_hb_to_do > 0` guard, heart_beat_index = 0), `roundSkip` = what is left
    when the guard fails (heart_beat_index and num_hb_to_do keep their values, current_heart_beat = 0) -/
def tickRound (sc : Scripts) (w : World) : World × List Ev :=
  let e := NV.Gen.C11.roundEntry (w.hbs.length : Int) w.idx w.todo (if w.flag then 1 else 0) w.tflags
  let begin : Ev := if hbOn w.tflags then .tickBegin else .tickOff
  let w : World := { w with flag := decide (e.2.2.1 ≠ 0), idx := e.1, todo := e.2.1 }
  if e.2.2.2 then
    match round sc w.hbs.length w with
    | (w', evs) => (w', begin :: evs)
  else (leave w (NV.Gen.C11.roundSkip w.idx w.todo (curInt w)), [begin, .tickEnd])

/-- does timer_flags have TIMER_FLAG_CALLOUT -/
def coOn (tf : Int) : Bool := decide ((tf / (NV.Gen.C11.timerFlagCallout : Nat)) % 2 ≠ 0)

/-- lib/efuns/call_out.c call_out(), one due entry: skipped when its object is destructed, else the callback runs inside
    call_out()'s own error context - an uncaught error goes through error_handler (which switches off
    current_heart_beat IF one is set) and the dispatch goes on with the next entry -/
def coStep (acc : World × List Ev) (c : Nat × List Op) : World × List Ev :=
  if !acc.1.alive c.1 then acc
  else
    match runOps acc.1 c.1 c.2 with
    | (w', evs, .err) => (errorEntry w', acc.2 ++ .coBegin c.1 :: evs)
    | (w', evs, _) => (w', acc.2 ++ .coBegin c.1 :: evs ++ [.coEnd c.1])

/-- the tail of call_heart_beat: `if (timer_flags & TIMER_FLAG_CALLOUT) call_out ();` - AFTER `current_heart_beat = 0`
    (`NV.Gen.C11.chbTail`); call_out() puts command_giver back when it is done -/
def coLoop : Nat → World × List Ev → World × List Ev
  | 0, acc => acc
  | f + 1, acc =>
    match acc.1.co with
    | [] => acc
    | c :: rest => coLoop f (coStep ({ acc.1 with co := rest }, acc.2) c)   -- unlinked before it runs; a callback may
                                                                            -- remove later ones (reload_object)

def coDispatch (r : World × List Ev) : World × List Ev :=
  if coOn r.1.tflags then
    let d := coLoop r.1.co.length (r.1, [])
    ({ d.1 with cg := r.1.cg }, r.2 ++ d.2)
  else r

/-- src/backend.c call_heart_beat: the round, then (unless an error left the function) the call_out dispatch -/
def tickCore (sc : Scripts) (w : World) : World × List Ev :=
  if (tickRound sc w).2.contains .tickAbort then tickRound sc w else coDispatch (tickRound sc w)

/-- harness rule: at most this many further passes with a round inside one `tick` command -/
def maxPass : Nat := 5

/-- the passes of the loop that follow a pass left by an error: remove_destructed_objects() -> replace_programs(), then
    `if (HEART_BEAT_FLAG()) call_heart_beat ()` - the timer may have fired during the abandoned round (op `flag`), in
    which case the next tick is served right away -/
def morePasses (sc : Scripts) : Nat → World → World × List Ev
  | 0, w =>
    let a := applyRp w
    if a.1.flag then ({ a.1 with flag := false }, a.2 ++ [.passLimit]) else a
  | f + 1, w =>
    let a := applyRp w
    if a.1.flag then
      let r := tickCore sc a.1
      if r.2.contains .tickAbort then
        let n := morePasses sc f r.1
        (n.1, a.2 ++ r.2 ++ n.2)
      else (r.1, a.2 ++ r.2)
    else a

/-- one `tick` of a case = backend() entered, one timer tick, backend() left through the cycle hook:
    clear_state() (`command_giver = 0`), the start-up `call_heart_beat ()` (timer_flags still 0: no round, printed by the
    harness as `tickbegin off` / `tickend`), then the loop: remove_destructed_objects() -> replace_programs(), the poll
    (the timer tick arrives, timer_flags as configured), `if (HEART_BEAT_FLAG()) call_heart_beat ()`.  An uncaught error
    sends the loop round again (`morePasses`) until a pass reaches the hook. -/
def tick (sc : Scripts) (w : World) : World × List Ev :=
  let r0 := tickCore sc { w with cg := none, tflags := 0 }
  let r1 := applyRp { r0.1 with tflags := w.tflags }
  let r2 := tickCore sc r1.1
  let r3 := if r2.2.contains .tickAbort then morePasses sc maxPass r2.1 else (r2.1, [])
  (r3.1, r0.2 ++ r1.2 ++ r2.2 ++ r3.2 ++ [.cgAfter r3.1.cg])

/-- top-level commands of a case -/
inductive Cmd where
  | tick
  | op (self : Nat) (op : Op)
  | tflags (n : Nat)                    -- MAIN_OPTION (timer_flags) = n
  | cotick (cbs : List (Nat × List Op)) -- schedule call_outs in the named (live) objects, then one tick with TIMER_FLAG_CALLOUT
  deriving Repr

/-- `cotick`: call_out ("co", 1, ops) in every named live object, TIMER_FLAG_CALLOUT on for the tick that follows -/
def coWorld (w : World) (cbs : List (Nat × List Op)) : World :=
  -- new_call_out links an entry in FRONT of the entries of the same second: the callbacks of one `cotick` run newest first
  { w with co := w.co ++ (cbs.filter (fun c => w.alive c.1)).reverse,
           tflags := if coOn w.tflags then w.tflags else w.tflags + (NV.Gen.C11.timerFlagCallout : Nat) }

def stepCmd (sc : Scripts) (w : World) : Cmd → World × List Ev
  | .tick => if w.crashed then (w, []) else tick sc w
  | .op self op =>
    if w.crashed then (w, [])
    else if !w.known.contains self then (w, [.topNoObj self])
    else if w.dead.contains self then (w, [.topDead self])
    else
      match runOps w self [op] with
      | (w', evs, .err) => (errorEntry w', evs ++ [.topErr self])
      | (w', evs, _) => (w', evs)
  | .tflags n => if w.crashed then (w, []) else ({ w with tflags := (n : Int) }, [.tflags (n : Int)])
  | .cotick cbs =>
    if w.crashed then (w, [])
    else ({ (tick sc (coWorld w cbs)).1 with tflags := w.tflags }, (tick sc (coWorld w cbs)).2)

def runCmds (sc : Scripts) (w : World) : List Cmd → World × List Ev
  | [] => (w, [])
  | c :: cs =>
    match stepCmd sc w c with
    | (w1, evs) =>
      match runCmds sc w1 cs with
      | (w2, evs2) => (w2, evs ++ evs2)

/-- the events of a whole run from the initial state (two blueprints loaded, nothing enabled); `hk` = what the
    move_or_destruct() hook of each object does -/
def events (sc : Scripts) (cmds : List Cmd) (hk : Nat → List Op := fun _ => []) : List Ev :=
  (runCmds sc { hooks := hk } cmds).2

end NV.C11
