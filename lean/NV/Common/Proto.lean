/-
Line protocol shared by all model drivers (DESIGN.md 2.3 / 14).

stdin:   case <id> / <line>* / end      (repeated)
stdout:  case <id> / <line>* / end

In `judge` mode a case body is   <input line>* / -- / <implementation output line>*
-/
namespace NV.Proto

/-- split a line into space separated tokens (no empty tokens) -/
def toks (s : String) : List String :=
  (s.trimAscii.toString.splitOn " ").filter (· ≠ "")

def parseNat? (s : String) : Option Nat := s.toNat?
def parseInt? (s : String) : Option Int := s.toInt?

/-- split the body of a judge case at the `--` separator -/
def splitJudge (body : List String) : List String × List String :=
  let pre := body.takeWhile (· ≠ "--")
  let post := (body.dropWhile (· ≠ "--")).drop 1
  (pre, post)

partial def readAll (h : IO.FS.Stream) (acc : Array String) : IO (Array String) := do
  let line ← h.getLine
  if line.isEmpty then return acc
  let l := if line.endsWith "\n" then (line.dropEnd 1).toString else line
  readAll h (acc.push l)

/-- group lines into cases -/
def groupCases (lines : List String) : List (String × List String) :=
  let rec go (ls : List String) (cur : Option (String × List String)) (acc : List (String × List String)) :
      List (String × List String) :=
    match ls with
    | [] => acc.reverse
    | l :: rest =>
      match cur with
      | none =>
        if l.startsWith "case " then go rest (some ((l.drop 5).toString, [])) acc else go rest none acc
      | some (id, body) =>
        if l == "end" then go rest none ((id, body.reverse) :: acc)
        else go rest (some (id, l :: body)) acc
  go lines none []

/-- run `f` on every case and print framed output -/
def serve (f : List String → List String) : IO Unit := do
  let stdin ← IO.getStdin
  let lines ← readAll stdin #[]
  let out ← IO.getStdout
  for (id, body) in groupCases lines.toList do
    out.putStrLn s!"case {id}"
    for l in f body do
      out.putStrLn l
    out.putStrLn "end"
  out.flush

end NV.Proto
