/-
C14 — property theorems about the ghost history (`histR` = every byte ever stored into the ring, `sentR` = every byte
accepted by send()), complementing `model_satisfies_spec`.
-/
import NV.C14.LemmasHist

namespace NV.C14

/-- `only_tail_lost` / `cr_lf_never_split_dropped`: from every state satisfying the ring invariant, for every text and every
send script, the write loop of add_message / add_vmessage stores exactly `expand (data.take n)` - the CR-LF image of a
prefix of the *text*, so never half of a CR LF pair and never anything but a tail is missing - and `n` is the whole text
unless the loop stopped on a dead connection or on a buffer (after a flush attempt) without room for the next item. -/
theorem only_tail_lost (data : List Byte) (s : St) (h : Inv s) (hg : s.gone = false) (he : HistEq s) :
    ∃ n, n ≤ data.length ∧ (addLoop data s).1.histR.reverse = s.histR.reverse ++ expand (data.take n) ∧
      (n < data.length →
        (addLoop data s).1.gone = true ∨ ∃ c, data[n]? = some c ∧ N < (addLoop data s).1.len + itemLen c) := by
  obtain ⟨_, _, n, h1, h2, h3, h4, h5⟩ := addLoop_hist data s h hg he
  refine ⟨n, h1, h2, fun hlt => ?_⟩
  cases hgo : (addLoop data s).2.2 with
  | go => have := h3 hgo; omega
  | brk => exact Or.inr (h4 hgo).2
  | ret => exact Or.inl (h5 hgo)

/-- non-vacuity of `only_tail_lost`: the fresh connection satisfies its hypotheses -/
example : Inv (St.init []) ∧ (St.init []).gone = false ∧ HistEq (St.init []) :=
  ⟨init_inv [], rfl, rfl⟩

/-- what a whole add_message / add_vmessage call stores is the image of a prefix of its text (the trailing flush of
add_vmessage stores nothing), and "stored = sent ++ ring" is preserved -/
theorem write_stores_prefix_image (v : Bool) (d : List Byte) (s : St) (h : Inv s) (he : HistEq s) :
    HistEq (addMessage v d s).1 ∧
    ∃ n, n ≤ d.length ∧ (addMessage v d s).1.histR.reverse = s.histR.reverse ++ expand (d.take n) := by
  unfold addMessage
  cases hg : s.gone with
  | true => simp only [if_true]; exact ⟨he, 0, Nat.zero_le _, by simp [expand]⟩
  | false =>
    simp only [Bool.false_eq_true, if_false]
    obtain ⟨r0, r1, n, h1, h2, _⟩ := addLoop_hist d s h hg he
    cases v with
    | false =>
      simp only [Bool.false_eq_true, if_false]
      by_cases hret : (addLoop d s).2.2 = .ret
      · rw [if_pos hret]; exact ⟨r1, n, h1, h2⟩
      · rw [if_neg hret]; exact ⟨r1, n, h1, h2⟩
    | true =>
      simp only [if_true]
      by_cases h0 : (addLoop d s).1.len ≠ 0
      · rw [if_pos h0]
        obtain ⟨p1, _, _⟩ := flushMsg_model r0
        exact ⟨p1.histEq r1, n, h1, by rw [p1.histR]; exact h2⟩
      · rw [if_neg h0]; exact ⟨r1, n, h1, h2⟩

/-- `delivered_is_ordered_prefix_image`, state form: after every run, the bytes accepted by send() followed by the ring
contents are exactly the bytes ever stored, in the order they were stored - nothing duplicated, nothing reordered; with
`write_stores_prefix_image` the stored stream is the concatenation, write by write, of CR-LF images of prefixes of the
texts. -/
theorem sent_then_ring_is_stored (script : List SendRes) (ops : List Op) : HistEq (run script ops).1 := by
  have key : ∀ (ops : List Op) (s : St) (j : J), GInv s → Rel s none j → HistEq s → HistEq (runFrom s ops).1 := by
    intro ops
    induction ops with
    | nil => intro s j _ _ he; exact he
    | cons op ops ih =>
      intro s j hgi hr he
      obtain ⟨a, b⟩ := step_spec op hgi hr
      simp only [runFrom]
      refine ih _ _ a b ?_
      have viaFlush : HistEq (flushMsg s).1 := (flushMsg_model hgi.inv).1.histEq he
      cases op with
      | sendres rs => exact he
      | write v d => exact (write_stores_prefix_image v d s hgi.inv he).1
      | flush => simp only [step]; split <;> first | exact he | exact viaFlush
      | cycle => simp only [step]; split <;> first | exact he | exact viaFlush
      | wready => simp only [step]; split <;> first | exact he | exact viaFlush
      | close => simp only [step]; split <;> first | exact he | exact viaFlush
      | peerfin => simp only [step]; split <;> exact he
      | dump => exact he
  exact key ops (St.init script) {} (init_ginv script) (init_rel script) rfl

end NV.C14
