/-
C14 — property theorems about the ghost history (`histR` = every byte ever stored into the ring, `sentR` = every byte
accepted by send()), complementing `model_satisfies_spec`.
-/
import NV.C14.LemmasHist

namespace NV.C14

/-- `only_tail_lost` / `cr_lf_never_split_dropped`: from every state satisfying the ring invariant, for every text and every
send script, the write loop of add_message / add_vmessage stores exactly `expand (data.take n)` - the CR-LF image of a
prefix of the *text*, so never half of a CR LF pair and never anything but a tail is missing - and `n` is the whole text
unless the loop stopped on a dead connection or on a buffer (after a flush attempt) without room for the next item. -/
theorem only_tail_lost (data : List Byte) (s : St) (h : Inv s) (hg : s.gone = false) (he : HistEq s) :
    ∃ n, n ≤ data.length ∧ (addLoop data s).1.histR.reverse = s.histR.reverse ++ expand (data.take n) ∧
      (n < data.length →
        (addLoop data s).1.gone = true ∨ ∃ c, data[n]? = some c ∧ N < (addLoop data s).1.len + itemLen c) := by
  obtain ⟨_, _, n, h1, h2, h3, h4, h5⟩ := addLoop_hist data s h hg he
  refine ⟨n, h1, h2, fun hlt => ?_⟩
  cases hgo : (addLoop data s).2.2 with
  | go => have := h3 hgo; omega
  | brk => exact Or.inr (h4 hgo).2
  | ret => exact Or.inl (h5 hgo)

/-- non-vacuity of `only_tail_lost`: the fresh connection satisfies its hypotheses -/
example : Inv (St.init []) ∧ (St.init []).gone = false ∧ HistEq (St.init []) :=
  ⟨init_inv [], rfl, rfl⟩

/-- what a whole add_message / add_vmessage call stores is the image of a prefix of its text (the trailing flush of
add_vmessage stores nothing), and "stored = sent ++ ring" is preserved -/
theorem write_stores_prefix_image (v : Bool) (d : List Byte) (s : St) (h : Inv s) (he : HistEq s) :
    HistEq (addMessage v d s).1 ∧
    ∃ n, n ≤ d.length ∧ (addMessage v d s).1.histR.reverse = s.histR.reverse ++ expand (d.take n) := by
  unfold addMessage
  cases hg : s.gone with
  | true => simp only [if_true]; exact ⟨he, 0, Nat.zero_le _, by simp [expand]⟩
  | false =>
    simp only [Bool.false_eq_true, if_false]
    obtain ⟨r0, r1, n, h1, h2, _⟩ := addLoop_hist d s h hg he
    cases v with
    | false =>
      simp only [Bool.false_eq_true, if_false]
      cases hcons : s.console with
      | true =>
        simp only [if_true]
        by_cases hret : (addLoop d s).2.2 = .ret
        · rw [if_pos hret]; exact ⟨r1, n, h1, h2⟩
        · rw [if_neg hret]
          obtain ⟨p1, _, _⟩ := flushMsg_model r0
          exact ⟨p1.histEq r1, n, h1, by rw [p1.histR]; exact h2⟩
      | false =>
        simp only [Bool.false_eq_true, if_false]
        by_cases hret : (addLoop d s).2.2 = .ret
        · rw [if_pos hret]; exact ⟨r1, n, h1, h2⟩
        · rw [if_neg hret]; exact ⟨r1, n, h1, h2⟩
    | true =>
      simp only [if_true]
      by_cases h0 : (addLoop d s).1.len ≠ 0
      · rw [if_pos h0]
        obtain ⟨p1, _, _⟩ := flushMsg_model r0
        exact ⟨p1.histEq r1, n, h1, by rw [p1.histR]; exact h2⟩
      · rw [if_neg h0]; exact ⟨r1, n, h1, h2⟩

/-- every operation preserves "stored = sent ++ ring" -/
theorem step_histEq {s : St} (op : Op) (h : Inv s) (he : HistEq s) : HistEq (step s op).1 := by
  have viaFlush : HistEq (flushMsg s).1 := (flushMsg_model h).1.histEq he
  cases op with
  | sendres rs => exact he
  | write v d => exact (write_stores_prefix_image v d s h he).1
  | flush => simp only [step]; split <;> first | exact he | exact viaFlush
  | cycle => simp only [step]; split <;> first | exact he | exact viaFlush
  | wready => simp only [step]; split <;> first | exact he | exact viaFlush
  | close => simp only [step]; split <;> first | exact he | exact viaFlush
  | peerfin => simp only [step]; split <;> exact he
  | dump => exact he
  | snoopBy k => exact he
  | writeQ v d => exact (write_stores_prefix_image v d s h he).1
  | closeQ => simp only [step]; split <;> first | exact he | exact viaFlush
  | showSt => exact he
  | react rs => exact he
  | popReact => exact he
  | setTelnet => exact he
  | telSet t lm => exact he
  | flushQ => simp only [step]; split <;> first | exact he | exact viaFlush

/-- state form of `delivered_is_ordered_prefix_image`: after every run, the bytes accepted by send() followed by the ring
contents are exactly the bytes ever stored, in the order they were stored - nothing duplicated, nothing reordered. -/
theorem sent_then_ring_is_stored (script : List SendRes) (ops : List Op) (console : Bool := false) :
    HistEq (run script ops console).1 := by
  have key : ∀ (ops : List Op) (s : St) (j : J), GInv s → Rel s none j → HistEq s → HistEq (runFrom s ops).1 := by
    intro ops
    induction ops with
    | nil => intro s j _ _ he; exact he
    | cons op ops ih =>
      intro s j hgi hr he
      obtain ⟨a, b⟩ := step_spec op hgi hr
      simp only [runFrom]
      exact ih _ _ a b (step_histEq op hgi.inv he)
  exact key ops (St.init script console) {} (init_ginv script console) (init_rel script console) rfl

end NV.C14

namespace NV.C14

/-- the texts handed to add_message / add_vmessage by an op list, in order -/
def writesOf : List Op → List (List Byte)
  | [] => []
  | .write _ d :: ops => d :: writesOf ops
  | .writeQ _ d :: ops => d :: writesOf ops
  | _ :: ops => writesOf ops

/-- for every write of a run: the state it started from, and its text -/
def preStates : St → List Op → List (St × List Byte)
  | _, [] => []
  | s, .write v d :: ops => (s, d) :: preStates (step s (.write v d)).1 ops
  | s, .writeQ v d :: ops => (s, d) :: preStates (step s (.writeQ v d)).1 ops
  | s, op :: ops => preStates (step s op).1 ops

theorem preStates_texts (s : St) (ops : List Op) : (preStates s ops).map (·.2) = writesOf ops := by
  induction ops generalizing s with
  | nil => rfl
  | cons op ops ih => cases op <;> simp [preStates, writesOf, ih]

/-- `R` holds between the elements of two lists of equal length, position by position -/
inductive ForallTwo {α β : Type} (R : α → β → Prop) : List α → List β → Prop
  | nil : ForallTwo R [] []
  | cons {a b as bs} : R a b → ForallTwo R as bs → ForallTwo R (a :: as) (b :: bs)

theorem ForallTwo.length_eq {α β : Type} {R : α → β → Prop} {as : List α} {bs : List β} (h : ForallTwo R as bs) :
    as.length = bs.length := by
  induction h with
  | nil => rfl
  | cons _ _ ih => simp [ih]

/-- `n` bytes of text `w`, written from state `pre`, were kept: all of it, unless the connection was (or became) unusable
or the ring, after the flush attempt that did not drain enough, had no room for the next item `w[n]` -/
def TailLossOK (pre : St) (w : List Byte) (n : Nat) : Prop :=
  n ≤ w.length ∧
  (n < w.length →
    pre.gone = true ∨ (addLoop w pre).1.gone = true ∨
    ∃ c, w[n]? = some c ∧ N < (addLoop w pre).1.len + itemLen c)

theorem write_prefix_full (v : Bool) (d : List Byte) (s : St) (h : Inv s) (he : HistEq s) :
    ∃ n, TailLossOK s d n ∧ (addMessage v d s).1.histR.reverse = s.histR.reverse ++ expand (d.take n) := by
  unfold addMessage
  cases hg : s.gone with
  | true =>
    simp only [if_true]
    exact ⟨0, ⟨Nat.zero_le _, fun _ => Or.inl hg⟩, by simp [expand]⟩
  | false =>
    simp only [Bool.false_eq_true, if_false]
    obtain ⟨r0, r1, n, h1, h2, h3, h4, h5⟩ := addLoop_hist d s h hg he
    have hcond : TailLossOK s d n := by
      refine ⟨h1, fun hlt => ?_⟩
      cases hgo : (addLoop d s).2.2 with
      | go => have := h3 hgo; omega
      | brk => exact Or.inr (Or.inr (h4 hgo).2)
      | ret => exact Or.inr (Or.inl (h5 hgo))
    refine ⟨n, hcond, ?_⟩
    cases v with
    | false =>
      simp only [Bool.false_eq_true, if_false]
      cases hcons : s.console with
      | true =>
        simp only [if_true]
        by_cases hret : (addLoop d s).2.2 = .ret
        · rw [if_pos hret]; exact h2
        · rw [if_neg hret]
          obtain ⟨p1, _, _⟩ := flushMsg_model r0
          rw [p1.histR]; exact h2
      | false =>
        simp only [Bool.false_eq_true, if_false]
        by_cases hret : (addLoop d s).2.2 = .ret
        · rw [if_pos hret]; exact h2
        · rw [if_neg hret]; exact h2
    | true =>
      simp only [if_true]
      by_cases h0 : (addLoop d s).1.len ≠ 0
      · rw [if_pos h0]
        obtain ⟨p1, _, _⟩ := flushMsg_model r0
        rw [p1.histR]; exact h2
      · rw [if_neg h0]; exact h2

/-- operations other than writes store nothing -/
theorem step_histR_of_not_write {s : St} (h : Inv s) (op : Op) (hw : ∀ v d, op ≠ .write v d)
    (hq : ∀ v d, op ≠ .writeQ v d) : (step s op).1.histR = s.histR := by
  have viaFlush : (flushMsg s).1.histR = s.histR := (flushMsg_model h).1.histR
  cases op with
  | sendres rs => rfl
  | write v d => exact absurd rfl (hw v d)
  | flush => simp only [step]; split <;> first | rfl | exact viaFlush
  | cycle => simp only [step]; split <;> first | rfl | exact viaFlush
  | wready => simp only [step]; split <;> first | rfl | exact viaFlush
  | close => simp only [step]; split <;> first | rfl | exact viaFlush
  | peerfin => simp only [step]; split <;> rfl
  | dump => rfl
  | snoopBy k => rfl
  | writeQ v d => exact absurd rfl (hq v d)
  | closeQ => simp only [step]; split <;> first | rfl | exact viaFlush
  | showSt => rfl
  | react rs => rfl
  | popReact => rfl
  | setTelnet => rfl
  | telSet t lm => rfl
  | flushQ => simp only [step]; split <;> first | rfl | exact viaFlush

/-- **`delivered_is_ordered_prefix_image`.**  For every send script and every list of operations there are per-write prefix
lengths `ns` - one for each text written, each the whole text unless the connection was unusable or the ring was still
without room for the next item after the flush attempt (`TailLossOK`) - such that the bytes accepted by send() followed by
the ring contents are exactly the concatenation, in write order, of the CR-LF images of those prefixes.  Nothing is
duplicated, reordered or invented; only tails of individual messages can be missing. -/
theorem delivered_is_ordered_prefix_image (script : List SendRes) (ops : List Op) (console : Bool := false) :
    ∃ ns : List Nat,
      ForallTwo (fun p n => TailLossOK p.1 p.2 n) (preStates (St.init script console) ops) ns ∧
      (run script ops console).1.sentR.reverse ++ contents (run script ops console).1 =
        (List.zipWith (fun p n => expand (p.2.take n)) (preStates (St.init script console) ops) ns).flatten := by
  have key : ∀ (ops : List Op) (s : St) (j : J), GInv s → Rel s none j → HistEq s →
      ∃ ns : List Nat, ForallTwo (fun p n => TailLossOK p.1 p.2 n) (preStates s ops) ns ∧
        (runFrom s ops).1.histR.reverse =
          s.histR.reverse ++ (List.zipWith (fun p n => expand (p.2.take n)) (preStates s ops) ns).flatten := by
    intro ops
    induction ops with
    | nil => intro s j _ _ _; exact ⟨[], ForallTwo.nil, by simp [runFrom, preStates]⟩
    | cons op ops ih =>
      intro s j hgi hr he
      obtain ⟨a, b⟩ := step_spec op hgi hr
      by_cases hw : ∃ v d, op = .write v d
      · obtain ⟨v, d, rfl⟩ := hw
        have he' : HistEq (step s (.write v d)).1 := (write_stores_prefix_image v d s hgi.inv he).1
        obtain ⟨n, hc, hn⟩ := write_prefix_full v d s hgi.inv he
        obtain ⟨ns, f, e⟩ := ih _ _ a b he'
        refine ⟨n :: ns, ?_, ?_⟩
        · simp only [preStates]; exact ForallTwo.cons hc f
        · simp only [runFrom, preStates, List.zipWith_cons_cons, List.flatten_cons]
          rw [e]
          have : (step s (.write v d)).1.histR = (addMessage v d s).1.histR := rfl
          rw [this, hn, List.append_assoc]
      · by_cases hwq : ∃ v d, op = .writeQ v d
        · obtain ⟨v, d, rfl⟩ := hwq
          have he' : HistEq (step s (.writeQ v d)).1 := (write_stores_prefix_image v d s hgi.inv he).1
          obtain ⟨n, hc, hn⟩ := write_prefix_full v d s hgi.inv he
          obtain ⟨ns, f, e⟩ := ih _ _ a b he'
          refine ⟨n :: ns, ?_, ?_⟩
          · simp only [preStates]; exact ForallTwo.cons hc f
          · simp only [runFrom, preStates, List.zipWith_cons_cons, List.flatten_cons]
            rw [e]
            have : (step s (.writeQ v d)).1.histR = (addMessage v d s).1.histR := rfl
            rw [this, hn, List.append_assoc]
        · have hnw : ∀ v d, op ≠ .write v d := fun v d h => hw ⟨v, d, h⟩
          have hnq : ∀ v d, op ≠ .writeQ v d := fun v d h => hwq ⟨v, d, h⟩
          have hh := step_histR_of_not_write hgi.inv op hnw hnq
          have he' : HistEq (step s op).1 := step_histEq op hgi.inv he
          obtain ⟨ns, f, e⟩ := ih _ _ a b he'
          refine ⟨ns, ?_, ?_⟩
          · cases op <;> first | exact f | exact absurd rfl (hnw _ _) | exact absurd rfl (hnq _ _)
          · simp only [runFrom]
            rw [e, hh]
            cases op <;> first | rfl | exact absurd rfl (hnw _ _) | exact absurd rfl (hnq _ _)
  obtain ⟨ns, f, e⟩ := key ops (St.init script console) {} (init_ginv script console) (init_rel script console) rfl
  refine ⟨ns, f, ?_⟩
  have hs := sent_then_ring_is_stored script ops console
  unfold HistEq at hs
  rw [← hs]
  exact e

/-- non-vacuity: two writes give two prefixes -/
example (script : List SendRes) : ∃ ns : List Nat, ns.length = 2 := by
  obtain ⟨ns, f, _⟩ := delivered_is_ordered_prefix_image script [.write false [65], .flush, .write true [10]]
  exact ⟨ns, by have := f.length_eq; simpa [preStates] using this.symm⟩

/-- the prefixes are taken from exactly the texts written, in order -/
theorem delivered_texts (script : List SendRes) (ops : List Op) (console : Bool := false) :
    (preStates (St.init script console) ops).map (·.2) = writesOf ops := preStates_texts _ _

end NV.C14
