/-
C14 — simulation between the model (ring) and the oracle (reference stream): every event the model emits is accepted by
`jstep`, and the oracle's queue stays equal to the ring contents (plus, inside a write, what will be stored next).
-/
import NV.C14.Lemmas
import NV.C14.LemmasFit

namespace NV.C14

theorem judgeFrom_append (j : J) (a b : List Ev) : judgeFrom j (a ++ b) = judgeFrom (judgeFrom j a) b := by
  simp [judgeFrom, List.foldl_append]

theorem judgeFrom_cons (j : J) (e : Ev) (es : List Ev) : judgeFrom j (e :: es) = judgeFrom (jstep j e) es := rfl

theorem judgeFrom_nil (j : J) : judgeFrom j [] = j := rfl

/-- the oracle agrees with model state `s`; `rest` = what the oracle still holds of the text being written -/
structure Rel (s : St) (rest : Option (List Byte)) (j : J) : Prop where
  bad : j.bad = []
  dead : j.dead = s.gone
  q : s.gone = false → j.q = contents s ∧ j.cur = rest

/-- the oracle has just refilled from text `d`; the model is about to store exactly those items one by one -/
structure RelF (s : St) (d : List Byte) (j : J) : Prop where
  bad : j.bad = []
  dead : j.dead = s.gone
  q : s.gone = false →
    j.q = contents s ++ (fit (N - s.len) d).1 ∧ j.cur = some (fit (N - s.len) d).2 ∧ j.progress = false

/-- nothing left to take from the text: refills are no-ops -/
def inert : Option (List Byte) → Prop
  | none => True
  | some [] => True
  | some (_ :: _) => False

/-- facts every step of a flush preserves -/
structure StepPost (s s' : St) : Prop where
  inv : Inv s'
  len_le : s'.len ≤ s.len
  closed : s'.closed = s.closed
  histR : s'.histR = s.histR
  sent : s'.sentR.reverse ++ contents s' = s.sentR.reverse ++ contents s
  console : s'.console = s.console

theorem StepPost.refl {s : St} (h : Inv s) : StepPost s s := ⟨h, Nat.le_refl _, rfl, rfl, rfl, rfl⟩

theorem StepPost.trans {a b c : St} (h1 : StepPost a b) (h2 : StepPost b c) : StepPost a c :=
  ⟨h2.inv, Nat.le_trans h2.len_le h1.len_le, h2.closed.trans h1.closed, h2.histR.trans h1.histR,
   h2.sent.trans h1.sent, h2.console.trans h1.console⟩

theorem Rel.toRelF_nil {s : St} {j : J} (h : Rel s (some []) j) (hp : j.progress = false) : RelF s [] j :=
  ⟨h.bad, h.dead, fun hg => by obtain ⟨a, b⟩ := h.q hg; simp [fit_nil, a, b, hp]⟩

theorem RelF.toRel_nil {s : St} {j : J} (h : RelF s [] j) : Rel s (some []) j :=
  ⟨h.bad, h.dead, fun hg => by obtain ⟨a, b, _⟩ := h.q hg; simp [fit_nil] at a b; exact ⟨a, b⟩⟩

/-- when the head item does not fit, "refilled" and "not refilled" coincide -/
theorem RelF.toRel_full {s : St} {c : Byte} {cs : List Byte} {j : J} (h : RelF s (c :: cs) j)
    (hfull : ¬ itemLen c ≤ N - s.len) : Rel s (some (c :: cs)) j ∧ (s.gone = false → j.progress = false) :=
  ⟨⟨h.bad, h.dead, fun hg => by
      obtain ⟨a, b, _⟩ := h.q hg
      rw [fit_cons_full hfull] at a b
      simp at a
      exact ⟨a, b⟩⟩, fun hg => (h.q hg).2.2⟩

/-- effect of an accepting send() on the oracle, when its queue is the ring contents -/
theorem jstep_acc {s : St} {rest : Option (List Byte)} {j : J} (h : Inv s) (hg : s.gone = false)
    (hr : Rel s rest j) {m n : Nat} (hm1 : 1 ≤ m) (hmn : m ≤ n) (hn : s.cons + n ≤ N) (hnl : n ≤ s.len)
    (rs : List SendRes) :
    let s' := consume s m (bytesAt s.buf s.cons m) rs
    jstep j (.send n .acc (bytesAt s.buf s.cons m)) =
      if s'.len = 0 then refill { j with q := contents s' } else { j with q := contents s', progress := true } := by
  intro s'
  obtain ⟨hq, hcur⟩ := hr.q hg
  have hjd : j.dead = false := by rw [hr.dead, hg]
  have hml : m ≤ s.len := by omega
  have hbs : bytesAt s.buf s.cons m = (contents s).take m := bytesAt_eq_take h (by omega) hml
  have hlen : (bytesAt s.buf s.cons m).length = m := bytesAt_length _ _ _
  have hcl : (contents s).length = s.len := contents_length s
  have hpre : (bytesAt s.buf s.cons m).isPrefixOf j.q = true := by
    rw [List.isPrefixOf_iff_prefix, hbs, hq]
    exact List.take_prefix _ _
  have hne : (bytesAt s.buf s.cons m).isEmpty = false := by
    cases hb : bytesAt s.buf s.cons m with
    | nil => rw [hb] at hlen; simp at hlen; omega
    | cons _ _ => rfl
  have hdrop : j.q.drop m = contents s' := by
    rw [hq]; exact (consume_contents hml _ rs).symm
  have hemp : (contents s').isEmpty = decide (s'.len = 0) := by
    have := contents_length s'
    cases hc : contents s' with
    | nil => rw [hc] at this; simp at this; simp [← this]
    | cons a b => rw [hc] at this; simp at this; simp; omega
  have c1 : ¬ j.q.length < n := by rw [hq, hcl]; omega
  have c2 : ¬ n < m := by omega
  simp only [jstep, hjd, hlen]
  simp [c1, c2, hne, hpre, hdrop, hemp]
  rw [hjd]

theorem refill_inert {j : J} (hi : inert j.cur) :
    (refill j).q = j.q ∧ (refill j).cur = j.cur ∧ (refill j).bad = j.bad ∧ (refill j).dead = j.dead := by
  unfold refill
  cases hc : j.cur with
  | none => simp [hc]
  | some d =>
    cases d with
    | nil => simp [fit_nil]
    | cons a b => rw [hc] at hi; exact hi.elim

theorem refused_inert {j : J} (hi : inert j.cur) :
    (refused j).q = j.q ∧ (refused j).cur = j.cur ∧ (refused j).bad = j.bad ∧ (refused j).dead = j.dead := by
  unfold refused
  cases hc : j.cur with
  | none => simp
  | some d =>
    cases d with
    | nil => simp
    | cons a b => rw [hc] at hi; exact hi.elim

theorem Inv.of_eq {s s' : St} (h : Inv s) (h1 : s'.buf = s.buf) (h2 : s'.cons = s.cons) (h3 : s'.len = s.len)
    (h4 : s'.prod = s.prod) (h5 : s'.fault = s.fault) : Inv s' :=
  ⟨by rw [h1]; exact h.size, by rw [h2]; exact h.cons_lt, by rw [h3]; exact h.len_le,
   by rw [h4, h2, h3]; exact h.prod_eq, by rw [h5]; exact h.nofault⟩

/-- results of send() that leave the connection usable / that kill it, as the oracle classifies them -/
def KeepRes (res : Res) : Prop := res = .wouldBlock ∨ res = .intr ∨ ∃ e, res = .err e ∧ specKeeps e = true
def DeadRes (res : Res) : Prop := res = .pipe ∨ ∃ e, res = .err e ∧ specKeeps e = false

theorem specKeeps_wouldBlock : specKeeps NV.Gen.C14.eWouldBlock = true := by simp [specKeeps]
theorem specKeeps_intr : specKeeps NV.Gen.C14.eIntr = true := by simp [specKeeps]

/-- outcome of one loop iteration on the model side (no oracle); uses the errno bridge `keepsData_eq` -/
theorem sendStep_model {s : St} (h : Inv s) (_hg : s.gone = false) (hl : s.len ≠ 0) :
    (∃ k, (pop s.script).1 = .acc k ∧
        sendStep s = .cont (consume s (min (k + 1) (chunkLen s)) (bytesAt s.buf s.cons (min (k + 1) (chunkLen s)))
                              (pop s.script).2)
                           (.send (chunkLen s) .acc (bytesAt s.buf s.cons (min (k + 1) (chunkLen s))))) ∨
    (∃ res, KeepRes res ∧
        sendStep s = .stop { s with script := (pop s.script).2, want := wantAfterRefusal s } [.send (chunkLen s) res []] true) ∨
    (∃ res, DeadRes res ∧
        sendStep s = .stop { s with script := (pop s.script).2, dead := true } [.send (chunkLen s) res []] false) := by
  obtain ⟨c1, c2, c3⟩ := chunk_ok h hl
  have hnf : ¬ (chunkLen s = 0 ∨ N < s.cons + chunkLen s ∨ s.len < chunkLen s) := by omega
  unfold sendStep
  rw [if_neg hl]
  simp only [hnf, if_false]
  cases hp : (pop s.script).1 with
  | acc k => exact Or.inl ⟨k, rfl, rfl⟩
  | wouldBlock =>
    have : keepsData SendRes.wouldBlock.errno = true := by rw [keepsData_eq]; exact specKeeps_wouldBlock
    simp only [this, if_true]
    exact Or.inr (Or.inl ⟨.wouldBlock, Or.inl rfl, rfl⟩)
  | intr =>
    have : keepsData SendRes.intr.errno = true := by rw [keepsData_eq]; exact specKeeps_intr
    simp only [this, if_true]
    exact Or.inr (Or.inl ⟨.intr, Or.inr (Or.inl rfl), rfl⟩)
  | pipe =>
    have : keepsData SendRes.pipe.errno = false := keepsData_pipe
    simp only [this]
    exact Or.inr (Or.inr ⟨.pipe, Or.inl rfl, rfl⟩)
  | err e =>
    cases hk : specKeeps e with
    | true =>
      have : keepsData (SendRes.err e).errno = true := by rw [keepsData_eq]; exact hk
      simp only [this, if_true]
      exact Or.inr (Or.inl ⟨.err e, Or.inr (Or.inr ⟨e, rfl, hk⟩), rfl⟩)
    | false =>
      have : keepsData (SendRes.err e).errno = false := by rw [keepsData_eq]; exact hk
      simp only [this]
      exact Or.inr (Or.inr ⟨.err e, Or.inr ⟨e, rfl, hk⟩, rfl⟩)

end NV.C14
