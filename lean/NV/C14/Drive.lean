/-
C14 driver: parses the case lines that harness/c14 executes against the real comm.c and runs the model (`model` mode) or
the specification oracle on an implementation trace (`judge` mode).

Case lines (shared with harness/c14/c14.c):
  connect ascii|telnet|console   optional, before the first operation (sendres may precede it): the kind of user.
                            telnet = the negotiation add_messages + flush of setup_accepted_connection (bytes regenerated
                            from the source, `Gen.connectTelnet`), one `st` line after it; console = the console user
  sendres <tok>,<tok>,...   tok = n (accept at most n>=1 bytes) | W (EWOULDBLOCK) | I (EINTR) | P (EPIPE) | E<errno>
  write <hex|->             add_message (user, bytes)
  vwrite <hex|->            add_vmessage (user, "%s", bytes)
  flush | cycle | wready | close | peerclose | peerfin | dump
Trace lines:
  wbeg m|v <hex|->   wend   send <offered> a|W|I|P|E<n> <acceptedhex|->   close
  st <want> <producer> <consumer> <length> <dead>   st closed   dump <hex|->   crash <text>
-/
import NV.Common.Proto
import NV.C14.Model
import NV.C14.Multi
import NV.C14.Spec

namespace NV.C14

open NV.Proto

def hexDigit (c : Char) : Option Nat :=
  if '0' ≤ c ∧ c ≤ '9' then some (c.toNat - '0'.toNat)
  else if 'a' ≤ c ∧ c ≤ 'f' then some (c.toNat - 'a'.toNat + 10)
  else if 'A' ≤ c ∧ c ≤ 'F' then some (c.toNat - 'A'.toNat + 10)
  else none

def hexPairs : List Char → List Byte → Option (List Byte)
  | [], acc => some acc.reverse
  | [_], _ => none
  | a :: b :: rest, acc =>
    match hexDigit a, hexDigit b with
    | some x, some y => hexPairs rest (UInt8.ofNat (x * 16 + y) :: acc)
    | _, _ => none

def parseHex (s : String) : Option (List Byte) :=
  if s == "-" then some [] else hexPairs s.toList []

def hexChar (n : Nat) : Char :=
  if n < 10 then Char.ofNat ('0'.toNat + n) else Char.ofNat ('a'.toNat + n - 10)

def renderHex (bs : List Byte) : String :=
  if bs.isEmpty then "-"
  else String.ofList (bs.foldr (fun b acc => hexChar (b.toNat / 16) :: hexChar (b.toNat % 16) :: acc) [])

def parseSendRes (t : String) : Option SendRes :=
  if t == "W" then some .wouldBlock
  else if t == "I" then some .intr
  else if t == "P" then some .pipe
  else if t.startsWith "E" then (t.drop 1).toString.toNat?.map .err
  else match t.toNat? with
    | some (n + 1) => some (.acc n)
    | _ => none

def parseOpLine (line : String) : Option (Option Op) :=
  match toks line with
  | [] => some none
  | ["sendres", l] =>
    let rs := (l.splitOn ",").map parseSendRes
    if rs.all Option.isSome then some (some (.sendres (rs.filterMap id))) else none
  | ["write", h] => (parseHex h).bind fun d => if d.any (· == 0) then none else some (some (.write false d))
  | ["vwrite", h] => (parseHex h).bind fun d => if d.any (· == 0) then none else some (some (.write true d))
  | ["vwrite2", h1, h2] => do
    let a ← parseHex h1
    let b ← parseHex h2
    if (a ++ b).any (· == 0) then none else some (some (.write true (a ++ b)))
  | ["flush"] => some (some .flush)
  | ["cycle"] => some (some .cycle)
  | ["wready"] => some (some .wready)
  | ["close"] => some (some .close)
  | ["peerclose"] => some (some .close)
  | ["peerfin"] => some (some .peerfin)
  | ["dump"] => some (some .dump)
  | _ => if line.startsWith "#" then some none else none

def renderRes : Res → String
  | .acc => "a"
  | .wouldBlock => "W"
  | .intr => "I"
  | .pipe => "P"
  | .err e => s!"E{e}"

def b01 (b : Bool) : String := if b then "1" else "0"

/-- checksum the LPC side (harness/mudlib/c14/user.c) computes over the text handed to receive_snoop -/
def snoopSum (d : List Byte) : Nat :=
  (d.foldl (fun (acc : Nat × Nat) b => ((acc.1 + (acc.2 + 1) * b.toNat) % 65521, acc.2 + 1)) (0, 0)).1

def render : Ev → String
  | .wbeg v d => s!"wbeg {if v then "v" else "m"} {renderHex d}"
  | .wend => "wend"
  | .send off res acc => s!"send {off} {renderRes res} {renderHex acc}"
  | .close => "close"
  | .st w p c l d => s!"st {b01 w} {p} {c} {l} {b01 d}"
  | .stClosed => "st closed"
  | .dump bs => s!"dump {renderHex bs}"
  | .snoop _ d => s!"snoop {d.length} {snoopSum d}"
  | .lpcerr => "lpcerr"
  | .vreq d => s!"vreq {renderHex d}"
  | .fault w => s!"crash {w}"

def parseRes (t : String) : Option Res :=
  if t == "a" then some .acc
  else if t == "W" then some .wouldBlock
  else if t == "I" then some .intr
  else if t == "P" then some .pipe
  else if t.startsWith "E" then (t.drop 1).toString.toNat?.map .err
  else none

def parseBool (t : String) : Option Bool :=
  if t == "1" then some true else if t == "0" then some false else none

/-- one implementation trace line -> event; anything unknown (crash / sanitizer / garbage) is a fault -/
def parseEv (line : String) : Ev :=
  let r : Option Ev :=
    match toks line with
    | ["wbeg", k, h] => do
      let d ← parseHex h
      if k == "v" then some (.wbeg true d) else if k == "m" then some (.wbeg false d) else none
    | ["wend"] => some .wend
    | ["send", off, res, h] => do some (.send (← off.toNat?) (← parseRes res) (← parseHex h))
    | ["close"] => some .close
    | ["st", "closed"] => some .stClosed
    | ["st", w, p, c, l, d] => do
      some (.st (← parseBool w) (← p.toNat?) (← c.toNat?) (← l.toNat?) (← parseBool d))
    | ["dump", h] => do some (.dump (← parseHex h))
    | ["snoop", _, _] => some (.snoop 0 [])
    | ["lpcerr"] => some .lpcerr
    | ["vreq", h] => do some (.vreq (← parseHex h))
    | _ => none
  match r with
  | some e => e
  | none => .fault line

def isSt : Ev → Bool
  | .st .. => true
  | .stClosed => true
  | _ => false

/-- one parsed case line: the user it is addressed to and what to do -/
inductive Act where
  | connect (k : Nat) (kind : String)
  | mop (m : MOp)
  /-- an operation on every user, addressed (like every command) to user `k`, which therefore exists -/
  | gmop (k : Nat) (m : MOp)
  | user (k : Nat) (op : Op)
  | none

def splitUser (line : String) : Nat × List String :=
  match toks line with
  | t :: rest => if t.startsWith "@" then ((t.drop 1).toString.toNat?.getD 0, rest) else (1, t :: rest)
  | [] => (1, [])

/-- one token of `react`: e | x | n | t<j> | d<j> (j = 1..4, written canonically) -/
def parseReact (t : String) : Option React :=
  if t == "e" then some .echo
  else if t == "x" then some .err
  else if t == "n" then some .nop
  else
    let j := (t.drop 1).toString.toNat?.getD 0
    if j < 1 ∨ j > 4 ∨ toString j != (t.drop 1).toString then none
    else if t.startsWith "t" then some (.tell j)
    else if t.startsWith "d" then some (.dest j)
    else none

def parseAct (line : String) : Option Act :=
  let (k, ts) := splitUser line
  if k < 1 ∨ k > 4 then none
  else match ts with
  | [] => some .none
  | ["connect", kind] => if kind == "ascii" ∨ kind == "telnet" ∨ kind == "console" then some (.connect k kind) else none
  | ["cycle"] => some (.gmop k (.all .cycle))
  | ["wready"] => some (.gmop k (.all .wready))
  | ["flushall"] => some (.gmop k (.all .flush))
  | ["peerclose"] => some (.mop (.hangup k false))
  | ["peerfin"] => some (.mop (.hangup k true))
  | ["eflush"] => some (.user k .flush)
  | ["snoop", j] => match j.toNat? with
    | some j => if j < 1 ∨ j > 4 then none else some (.mop (.snoop k j))
    | none => none
  | ["unsnoop"] => some (.mop (.unsnoop k))
  | ["input", h] => (parseHex h).map fun bs => .gmop k (.input k bs)
  | ["react", l] =>
    let rs := (l.splitOn ",").map parseReact
    if rs.all Option.isSome then some (.user k (.react (rs.filterMap id))) else none
  | _ =>
    match parseOpLine (" ".intercalate ts) with
    | some (some op) => some (.user k op)
    | some none => some .none
    | none => none

/-- scripts queued (`sendres`) for users that do not exist yet -/
abbrev Pend := List (Nat × List SendRes)

def pendOf (p : Pend) (k : Nat) : List SendRes := (p.filter (·.1 == k)).flatMap (·.2)

/-- the user exists from its first operation on (`connect` decides the kind, default ascii); a script queued before
that is its initial script -/
def ensure (w : World) (p : Pend) (k : Nat) (console : Bool) : World :=
  let w := if w.length ≤ k then w ++ List.replicate (k + 1 - w.length) none else w
  match getU w k with
  | some _ => w
  | none => setU w k (St.init (pendOf p k) console)

def dropSt (es : List TEv) : List TEv := es.filter (fun e => !isSt e.2)

def usersOf : MOp → List Nat
  | .on k _ => [k]
  | .hangup k _ => [k]
  | .snoop k j => [k, j]
  | .unsnoop k => [k]
  | .all _ => []
  | .writeR k _ _ => [k]
  | .input k _ => [k]

/-- `reactive`: a `react` command was given earlier in the case - from then on a write can reach every user (the harness
prints the state of every user after it) -/
def runActs : World → Pend → Bool → List Act → List TEv
  | _, _, _, [] => []
  | w, p, re, a :: rest =>
    match a with
    | .none => runActs w p re rest
    | .connect k kind =>
      if (getU w k).isSome then (k, Ev.fault "connect after the first operation") :: runActs w p re rest
      else
        let w1 := ensure w p k (kind == "console")
        if kind == "telnet" then
          let w1 := (stepM w1 (.on k .setTelnet)).1
          let neg := NV.Gen.C14.connectTelnet.map (fun m => MOp.on k (Op.write false (m.map UInt8.ofNat)))
          let r := runM w1 neg
          let r2 := stepM r.1 (.on k .flush)
          dropSt r.2 ++ r2.2 ++ runActs r2.1 p re rest
        else runActs w1 p re rest
    | .user k op =>
      match op, getU w k with
      | .sendres rs, none => runActs w (p ++ [(k, rs)]) re rest
      | .react _, _ =>
        let w1 := ensure w p k false
        let r := stepM w1 (.on k op)
        r.2 ++ runActs r.1 p true rest
      | .write v d, _ =>
        let w1 := ensure w p k false
        let r := stepM w1 (if re then .writeR k v d else .on k op)
        r.2 ++ runActs r.1 p re rest
      | _, _ =>
        let w1 := ensure w p k false
        let r := stepM w1 (.on k op)
        r.2 ++ runActs r.1 p re rest
    | .gmop k m =>
      let w1 := ensure w p k false
      -- input is not fed in a case that scripts receive_snoop reactions (the harness makes it a plain pass)
      let m := match m, re with
        | .input _ _, true => MOp.all .wready
        | m, _ => m
      let r := stepM w1 m
      r.2 ++ runActs r.1 p re rest
    | .mop m =>
      let w1 := (usersOf m).foldl (fun w k => ensure w p k false) w
      let r := stepM w1 m
      r.2 ++ runActs r.1 p re rest

def renderT (e : TEv) : String := s!"u{e.1} {render e.2}"

def runModel (lines : List String) : List String :=
  let parsed := lines.map (fun l => (l, parseAct l))
  let bad := parsed.filter (fun p => p.2.isNone)
  if !bad.isEmpty then bad.map (fun p => s!"bad-line {p.1}")
  else (runActs [] [] false (parsed.filterMap (·.2))).map renderT

/-- implementation lines are tagged `u<k>`: every user's lines are judged on their own -/
def runJudge (body : List String) : List String :=
  let (_input, impl) := splitJudge body
  let tagged : List (Nat × String) := impl.map fun l =>
    match toks l with
    | t :: _ =>
      if t.startsWith "u" then
        match (t.drop 1).toString.toNat? with
        | some k => (k, (l.trimAscii.toString.drop (t.length + 1)).toString)
        | none => (0, l)
      else (0, l)
    | [] => (0, l)
  let users := (tagged.map (·.1)).eraseDups
  let vs := users.flatMap fun k =>
    let evs := (tagged.filter (·.1 == k)).map (fun p => parseEv p.2)
    (judgeEv evs ++ judgeFmt evs).map (fun v => s!"{v} u{k}")
  match vs with
  | [] => ["ok"]
  | vs => vs.map (fun v => s!"bad {v}")

def main (mode : String) : IO Unit :=
  match mode with
  | "model" => serve runModel
  | "judge" => serve runJudge
  | _ => IO.eprintln s!"C14: unknown mode {mode}"

end NV.C14
