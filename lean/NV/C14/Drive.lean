/-
C14 driver: parses the case lines that harness/c14 executes against the real comm.c and runs the model (`model` mode) or
the specification oracle on an implementation trace (`judge` mode).

Case lines (shared with harness/c14/c14.c):
  connect ascii|telnet|console   optional, before the first operation (sendres may precede it): the kind of user.
                            telnet = the negotiation add_messages + flush of setup_accepted_connection (bytes regenerated
                            from the source, `Gen.connectTelnet`), one `st` line after it; console = the console user
  sendres <tok>,<tok>,...   tok = n (accept at most n>=1 bytes) | W (EWOULDBLOCK) | I (EINTR) | P (EPIPE) | E<errno>
  write <hex|->             add_message (user, bytes)
  vwrite <hex|->            add_vmessage (user, "%s", bytes)
  flush | cycle | wready | close | peerclose | peerfin | dump
Trace lines:
  wbeg m|v <hex|->   wend   send <offered> a|W|I|P|E<n> <acceptedhex|->   close
  st <want> <producer> <consumer> <length> <dead>   st closed   dump <hex|->   crash <text>
-/
import NV.Common.Proto
import NV.C14.Model
import NV.C14.Spec

namespace NV.C14

open NV.Proto

def hexDigit (c : Char) : Option Nat :=
  if '0' ≤ c ∧ c ≤ '9' then some (c.toNat - '0'.toNat)
  else if 'a' ≤ c ∧ c ≤ 'f' then some (c.toNat - 'a'.toNat + 10)
  else if 'A' ≤ c ∧ c ≤ 'F' then some (c.toNat - 'A'.toNat + 10)
  else none

def hexPairs : List Char → List Byte → Option (List Byte)
  | [], acc => some acc.reverse
  | [_], _ => none
  | a :: b :: rest, acc =>
    match hexDigit a, hexDigit b with
    | some x, some y => hexPairs rest (UInt8.ofNat (x * 16 + y) :: acc)
    | _, _ => none

def parseHex (s : String) : Option (List Byte) :=
  if s == "-" then some [] else hexPairs s.toList []

def hexChar (n : Nat) : Char :=
  if n < 10 then Char.ofNat ('0'.toNat + n) else Char.ofNat ('a'.toNat + n - 10)

def renderHex (bs : List Byte) : String :=
  if bs.isEmpty then "-"
  else String.ofList (bs.foldr (fun b acc => hexChar (b.toNat / 16) :: hexChar (b.toNat % 16) :: acc) [])

def parseSendRes (t : String) : Option SendRes :=
  if t == "W" then some .wouldBlock
  else if t == "I" then some .intr
  else if t == "P" then some .pipe
  else if t.startsWith "E" then (t.drop 1).toString.toNat?.map .err
  else match t.toNat? with
    | some (n + 1) => some (.acc n)
    | _ => none

def parseOpLine (line : String) : Option (Option Op) :=
  match toks line with
  | [] => some none
  | ["sendres", l] =>
    let rs := (l.splitOn ",").map parseSendRes
    if rs.all Option.isSome then some (some (.sendres (rs.filterMap id))) else none
  | ["write", h] => (parseHex h).bind fun d => if d.any (· == 0) then none else some (some (.write false d))
  | ["vwrite", h] => (parseHex h).bind fun d => if d.any (· == 0) then none else some (some (.write true d))
  | ["flush"] => some (some .flush)
  | ["cycle"] => some (some .cycle)
  | ["wready"] => some (some .wready)
  | ["close"] => some (some .close)
  | ["peerclose"] => some (some .close)
  | ["peerfin"] => some (some .peerfin)
  | ["dump"] => some (some .dump)
  | _ => if line.startsWith "#" then some none else none

def renderRes : Res → String
  | .acc => "a"
  | .wouldBlock => "W"
  | .intr => "I"
  | .pipe => "P"
  | .err e => s!"E{e}"

def b01 (b : Bool) : String := if b then "1" else "0"

def render : Ev → String
  | .wbeg v d => s!"wbeg {if v then "v" else "m"} {renderHex d}"
  | .wend => "wend"
  | .send off res acc => s!"send {off} {renderRes res} {renderHex acc}"
  | .close => "close"
  | .st w p c l d => s!"st {b01 w} {p} {c} {l} {b01 d}"
  | .stClosed => "st closed"
  | .dump bs => s!"dump {renderHex bs}"
  | .fault w => s!"crash {w}"

def parseRes (t : String) : Option Res :=
  if t == "a" then some .acc
  else if t == "W" then some .wouldBlock
  else if t == "I" then some .intr
  else if t == "P" then some .pipe
  else if t.startsWith "E" then (t.drop 1).toString.toNat?.map .err
  else none

def parseBool (t : String) : Option Bool :=
  if t == "1" then some true else if t == "0" then some false else none

/-- one implementation trace line -> event; anything unknown (crash / sanitizer / garbage) is a fault -/
def parseEv (line : String) : Ev :=
  let r : Option Ev :=
    match toks line with
    | ["wbeg", k, h] => do
      let d ← parseHex h
      if k == "v" then some (.wbeg true d) else if k == "m" then some (.wbeg false d) else none
    | ["wend"] => some .wend
    | ["send", off, res, h] => do some (.send (← off.toNat?) (← parseRes res) (← parseHex h))
    | ["close"] => some .close
    | ["st", "closed"] => some .stClosed
    | ["st", w, p, c, l, d] => do
      some (.st (← parseBool w) (← p.toNat?) (← c.toNat?) (← l.toNat?) (← parseBool d))
    | ["dump", h] => do some (.dump (← parseHex h))
    | _ => none
  match r with
  | some e => e
  | none => .fault line

def isSt : Ev → Bool
  | .st .. => true
  | .stClosed => true
  | _ => false

/-- `runFrom`, except that the state line of operations marked `false` is not shown (the harness cannot print one
between the add_message calls that setup_accepted_connection makes itself) -/
def runShown (s : St) : List (Op × Bool) → List Ev
  | [] => []
  | (op, sh) :: rest =>
    let r := step s op
    (if sh then r.2 else r.2.filter (fun e => !isSt e)) ++ runShown r.1 rest

/-- PORT_TELNET connect: `add_message` of every negotiation string, then `flush_message` -/
def telnetConnectOps : List (Op × Bool) :=
  NV.Gen.C14.connectTelnet.map (fun m => (Op.write false (m.map UInt8.ofNat), false)) ++ [(Op.flush, true)]

def runModel (lines : List String) : List String :=
  let parsed : List (String × Option (List (Op × Bool))) := lines.map fun l =>
    match toks l with
    | ["connect", "ascii"] => (l, some [])
    | ["connect", "console"] => (l, some [])
    | ["connect", "telnet"] => (l, some telnetConnectOps)
    | _ => (l, (parseOpLine l).map fun o => match o with | some op => [(op, true)] | none => [])
  let bad := parsed.filter (fun p => p.2.isNone)
  if !bad.isEmpty then bad.map (fun p => s!"bad-line {p.1}")
  else
    let console := lines.any (fun l => toks l == ["connect", "console"])
    let ops := (parsed.filterMap (fun p => p.2)).flatten
    (runShown (St.init [] console) ops).map render

def runJudge (body : List String) : List String :=
  let (_input, impl) := splitJudge body
  match judgeEv (impl.map parseEv) with
  | [] => ["ok"]
  | vs => vs.map (fun v => s!"bad {v}")

def main (mode : String) : IO Unit :=
  match mode with
  | "model" => serve runModel
  | "judge" => serve runJudge
  | _ => IO.eprintln s!"C14: unknown mode {mode}"

end NV.C14
