/-
C14 — executable model of the per-user output ring of src/comm.c (socket branch).

Mirrors, line by line:
  add_message()   src/comm.c   (LF -> CR LF, flush when the ring is full, drop the tail, request write notification)
  add_vmessage()  src/comm.c   (same loop, `break` instead of `return` on a broken connection, trailing flush)
  flush_message() src/comm.c   (contiguous-chunk rule, partial sends, EWOULDBLOCK/EINTR keep the data and request
                                write notification, any other errno sets NET_DEAD, drained => write interest off)
and the callers of flush_message that matter for a network user:
  get_user_command()   (per cycle:   `if (ip->message_length) flush_message (ip)`)        op `cycle`
  process_io()         (EVENT_WRITE: `flush_message (ip)`, delivered only while write interest is registered) op `wready`
  remove_interactive() (`flush_message (ip); ip->iflags |= CLOSING; ... FREE (ip)`)        op `close`
  get_user_data()      (recv()==0: `iflags |= NET_DEAD; remove_interactive()`)            op `peerfin`
  print_prompt(), telnet negotiation, ...  (plain `flush_message (ip)`)                  op `flush`

The socket is an oracle: a list of scripted `send()` results (`SendRes`); when the script is exhausted the socket accepts
everything it is offered.  A C access outside `message_buf[MESSAGE_BUF_SIZE]`, and a `send()` of zero bytes (which the C
loop would repeat forever), are the explicit `fault` outcome; `no_fault` (Props) shows it never happens.

Left out (named in notes/C14.md): the console user (`ip == all_users[0]`, write(2) to stdout), snoop forwarding
(`receive_snoop`), `FLUSH_OUTPUT_IMMEDIATELY` builds, `out_of_band` (MSG_OOB flag of the first send), the statistics counters.

`sentR`/`histR` are ghost fields (reverse lists of all bytes accepted by send / ever stored into the ring); no decision of the
model reads them.
-/
import NV.Gen.C14
import NV.C14.Telnet

namespace NV.C14

abbrev Byte := UInt8

/-- `MESSAGE_BUF_SIZE`, regenerated from the source on every run -/
def N : Nat := NV.Gen.C14.messageBufSize

/-- `'\n'` / `'\r'` as located in add_message -/
def LF : Byte := UInt8.ofNat NV.Gen.C14.lfByte
def CR : Byte := UInt8.ofNat NV.Gen.C14.crByte

/-- one scripted result of `send()`; `acc k` accepts `min (k+1) offered` bytes (send never returns 0 for a non-empty chunk) -/
inductive SendRes where
  | acc (k : Nat)
  | wouldBlock
  | intr
  | pipe
  | err (e : Nat)
  deriving Repr, DecidableEq, Inhabited

/-- result of a `send()` call as it appears in the trace -/
inductive Res where
  | acc
  | wouldBlock
  | intr
  | pipe
  | err (e : Nat)
  deriving Repr, DecidableEq, Inhabited

/-- the errno a scripted result stands for (the named ones come from the platform's <errno.h> via `Gen`) -/
def SendRes.errno : SendRes → Nat
  | .acc _ => 0
  | .wouldBlock => NV.Gen.C14.eWouldBlock
  | .intr => NV.Gen.C14.eIntr
  | .pipe => NV.Gen.C14.ePipe
  | .err e => e

def SendRes.res : SendRes → Res
  | .acc _ => .acc
  | .wouldBlock => .wouldBlock
  | .intr => .intr
  | .pipe => .pipe
  | .err e => .err e

/-- flush_message's errno classification, as regenerated from the source: these errno values keep the data and ask for
write notification (`return 1`); every other one sets NET_DEAD (`return 0`) -/
def keepsData (e : Nat) : Bool := NV.Gen.C14.keepErrnos.contains e

/-- observable events; the specification oracle (Spec.lean) reads these and nothing else -/
inductive Ev where
  /-- `add_message` (`v = false`) / `add_vmessage` (`v = true`) called with this text -/
  | wbeg (v : Bool) (data : List Byte)
  /-- that call returned -/
  | wend
  /-- one `send()` call: bytes offered, result, bytes accepted -/
  | send (offered : Nat) (res : Res) (accepted : List Byte)
  /-- the connection was removed (`remove_interactive` completed) -/
  | close
  /-- state after an operation: write interest, producer, consumer, length, NET_DEAD -/
  | st (want : Bool) (p c l : Nat) (dead : Bool)
  | stClosed
  /-- ring contents, consumer first (correspondence only) -/
  | dump (bytes : List Byte)
  /-- `receive_snoop (text, snooper)`: the whole text of a write is handed to the user `snooper` who snoops this one -/
  | snoop (snooper : Nat) (data : List Byte)
  /-- an LPC error (raised by a snooper's receive_snoop) reached the caller of add_message -/
  | lpcerr
  /-- the caller asked add_vmessage to format exactly this text (`"%s"` / `"%s%s"` of the pieces): the `wbeg v` that
  follows shows what the formatting step produced -/
  | vreq (data : List Byte)
  /-- out-of-bounds access / endless loop in the C code -/
  | fault (what : String)
  deriving Repr, DecidableEq

/-- one scripted reaction of the harness user object's `receive_snoop` (harness/mudlib/c14/user.c): what the snooper's
LPC code does with the text it is handed - this is how add_message is re-entered from inside add_message -/
inductive React where
  /-- `receive (text[0..1999])`: echo to the snooper itself -/
  | echo
  /-- `tell_object (user j, "[me>j]\n")` if user `j` is still interactive -/
  | tell (j : Nat)
  /-- `destruct (user j)` if user `j` is still interactive (`j` may be the snooper itself or the user being written to) -/
  | dest (j : Nat)
  /-- `error ()` -/
  | err
  | nop
  deriving Repr, DecidableEq, Inhabited

structure St where
  /-- `message_buf[MESSAGE_BUF_SIZE]` -/
  buf : Array Byte
  /-- `message_producer` -/
  prod : Nat := 0
  /-- `message_consumer` -/
  cons : Nat := 0
  /-- `message_length` -/
  len : Nat := 0
  /-- `iflags & NET_DEAD` -/
  dead : Bool := false
  /-- `iflags & CLOSING`; the structure is freed right after, `who->interactive == 0` -/
  closed : Bool := false
  /-- write notification requested from the async runtime (`EVENT_WRITE` registered) -/
  want : Bool := false
  fault : Bool := false
  /-- `ip == all_users[0]`: the console user - write(2) to stdout instead of send(), no write notification, add_message
  flushes at its end, process_io flushes it on every pass -/
  console : Bool := false
  /-- `ip->snoop_by`: the user (number) who snoops this one -/
  snoopBy : Option Nat := none
  /-- remaining scripted send results -/
  script : List SendRes := []
  /-- remaining scripted reactions of this user's `receive_snoop` (read only by the several-user world, Multi.lean) -/
  react : List React := []
  /-- `connection_type == PORT_TELNET`: input goes through the telnet decoder copy_chars -/
  telnet : Bool := false
  /-- telnet decoder state of `copy_chars` (`ip->state`, `sb_buf`) -/
  tel : Tel := {}
  /-- this user's input has stored `MODE_EDIT | MODE_TRAPSIG` into the global `telnet_sb_lm_mode[4]` -/
  lmSet : Bool := false
  /-- ghost: all bytes accepted by send so far, newest first -/
  sentR : List Byte := []
  /-- ghost: all bytes ever stored into the ring, newest first -/
  histR : List Byte := []

def St.init (script : List SendRes := []) (console : Bool := false) : St :=
  { buf := Array.replicate N 0, script := script, console := console }

/-- `iflags & (NET_DEAD | CLOSING)` (or no interactive any more) -/
def St.gone (s : St) : Bool := s.closed || s.dead

/-- `n` bytes of the buffer from index `start` (no wrapping: what `send (fd, buf + start, n)` reads) -/
def bytesAt (buf : Array Byte) (start n : Nat) : List Byte :=
  (List.range n).map (fun i => buf.getD (start + i) 0)

/-- logical contents of the ring, oldest byte first -/
def contents (s : St) : List Byte :=
  (List.range s.len).map (fun i => s.buf.getD ((s.cons + i) % N) 0)

/-- the regenerated `ip->message_producer = ...;` of add_message, on the state's fields (C `int`s, hence `Int`) -/
def producerNext (s : St) : Nat := (NV.Gen.C14.producerNext s.cons s.prod s.len N 0).toNat

/-- `message_buf[producer] = b; producer = <producerNext>; length++` -/
def put (s : St) (b : Byte) : St :=
  if s.prod < N then
    { s with buf := s.buf.setIfInBounds s.prod b, prod := producerNext s, len := s.len + 1, histR := b :: s.histR }
  else { s with fault := true }

/-- the chunk length handed to `send()`: the regenerated if/else of flush_message -/
def chunkLen (s : St) : Nat := (NV.Gen.C14.chunkLen s.cons s.prod s.len N 0).toNat

/-- the regenerated `ip->message_consumer = ...;` / `ip->message_length -= ...;` of flush_message after `m` bytes -/
def consumerNext (s : St) (m : Nat) : Nat := (NV.Gen.C14.consumerNext s.cons s.prod s.len N m).toNat
def lengthAfterSend (s : St) (m : Nat) : Nat := (NV.Gen.C14.lengthAfterSend s.cons s.prod s.len N m).toNat

/-- the regenerated right-hand sides of the ring-full tests `ip->message_length == ...` of add_message -/
def thrFull (s : St) : Nat := (NV.Gen.C14.fullThr s.cons s.prod s.len N 0).toNat
def thrLF (s : St) : Nat := (NV.Gen.C14.lfThr s.cons s.prod s.len N 0).toNat

/-- next scripted result; an exhausted script accepts everything -/
def pop : List SendRes → SendRes × List SendRes
  | [] => (.acc N, [])
  | r :: rs => (r, rs)

/-- `consumer = (consumer + m) % SIZE; length -= m` -/
def consume (s : St) (m : Nat) (bs : List Byte) (rs : List SendRes) : St :=
  { s with cons := consumerNext s m, len := lengthAfterSend s m, script := rs, sentR := bs.reverse ++ s.sentR }

/-- `if (ip != all_users[0]) async_runtime_modify (.., EVENT_READ, ..)` after a drain -/
def wantAfterDrain (s : St) : Bool := if s.console then s.want else false

/-- `if (ip != all_users[0]) async_runtime_modify (.., EVENT_READ | EVENT_WRITE, ..)` after EWOULDBLOCK / EINTR -/
def wantAfterRefusal (s : St) : Bool := if s.console then s.want else true

inductive Outcome where
  | cont (s : St) (ev : Ev)
  | stop (s : St) (evs : List Ev) (ok : Bool)

/-- one iteration of the `while (ip->message_length != 0)` loop of flush_message -/
def sendStep (s : St) : Outcome :=
  if s.len = 0 then .stop { s with want := wantAfterDrain s } [] true
  else
    let n := chunkLen s
    if n = 0 ∨ N < s.cons + n ∨ s.len < n then .stop { s with fault := true } [.fault "chunk"] false
    else
      let rs := (pop s.script).2
      match (pop s.script).1 with
      | .acc k =>
        let m := min (k + 1) n
        let bs := bytesAt s.buf s.cons m
        .cont (consume s m bs rs) (.send n .acc bs)
      | r =>
        -- `num_bytes == -1`: the regenerated errno classification decides
        if keepsData r.errno then .stop { s with script := rs, want := wantAfterRefusal s } [.send n r.res []] true
        else .stop { s with script := rs, dead := true } [.send n r.res []] false

/-- the send loop; every iteration that continues consumed at least one byte, so `len + 1` fuel always suffices -/
def flushLoop : Nat → St → St × List Ev × Bool
  | 0, s => ({ s with fault := true }, [.fault "fuel"], false)
  | fuel + 1, s =>
    match sendStep s with
    | .stop s' evs ok => (s', evs, ok)
    | .cont s' ev =>
      let r := flushLoop fuel s'
      (r.1, ev :: r.2.1, r.2.2)

/-- `flush_message (ip)`: result `false` is the C return value 0 (connection unusable) -/
def flushMsg (s : St) : St × List Ev × Bool :=
  if s.gone then (s, [], false) else flushLoop (s.len + 1) s

inductive Go where
  | go
  | brk
  | ret
  deriving Repr, DecidableEq

/-- `if (length == thr) { if (!flush_message (ip)) return; if (length == thr) break; }` -/
def guardFull (s : St) (thr : Nat) : St × List Ev × Go :=
  if s.len = thr then
    let r := flushMsg s
    if r.2.2 = false then (r.1, r.2.1, .ret)
    else if r.1.len = thr then (r.1, r.2.1, .brk)
    else (r.1, r.2.1, .go)
  else (s, [], .go)

/-- store one input byte: CR LF for LF -/
def putItem (s : St) (c : Byte) : St :=
  if c = LF then put (put s CR) c else put s c

/-- the `for (cp = data; *cp; cp++)` loop of add_message / add_vmessage -/
def addLoop : List Byte → St → St × List Ev × Go
  | [], s => (s, [], .go)
  | c :: cs, s =>
    let g1 := guardFull s (thrFull s)
    match g1.2.2 with
    | .go =>
      let g2 := if c = LF then guardFull g1.1 (thrLF g1.1) else (g1.1, [], .go)
      match g2.2.2 with
      | .go =>
        let r := addLoop cs (putItem g2.1 c)
        (r.1, g1.2.1 ++ g2.2.1 ++ r.2.1, r.2.2)
      | g => (g2.1, g1.2.1 ++ g2.2.1, g)
    | g => (g1.1, g1.2.1, g)

/-- `if (ip->snoop_by) receive_snoop (data, ip->snoop_by->ob);` -/
def snoopEvs (s : St) (data : List Byte) : List Ev :=
  match s.snoopBy with
  | none => []
  | some k => [.snoop k data]

/-- `add_message (who, data)` (`v = false`) / `add_vmessage (who, "%s", data)` (`v = true`).  The `wend` event is the
hook point just before the snoop forwarding (or an early `return`); the forwarding is the LAST thing both functions do
with the user (`fix:` commit: add_message used `ip` after `receive_snoop`, whose LPC code can free it or raise an error) -/
def addMessage (v : Bool) (data : List Byte) (s : St) : St × List Ev :=
  if s.gone then (s, [.wbeg v data, .wend])
  else
    let r := addLoop data s
    if v then
      -- `if ((ip->message_length != 0) && !flush_message (ip)) debug_message (...)`
      let f := if r.1.len ≠ 0 then flushMsg r.1 else (r.1, [], true)
      -- add_vmessage snoops after its trailing flush, also after a `break` on a broken connection
      (f.1, .wbeg v data :: (r.2.1 ++ f.2.1 ++ [.wend] ++ snoopEvs s data))
    else if s.console then
      -- `if (ip == all_users[0]) flush_message (ip);` (not reached after the `return` of a broken connection)
      let f := if r.2.2 = .ret then (r.1, [], true) else flushMsg r.1
      let sn := if r.2.2 = .ret then [] else snoopEvs s data
      (f.1, .wbeg v data :: (r.2.1 ++ f.2.1 ++ [.wend] ++ sn))
    else
      -- a broken connection `return`s before `async_runtime_modify (.., EVENT_READ | EVENT_WRITE, ..)`
      let s2 := if r.2.2 = .ret then r.1 else { r.1 with want := true }
      -- the `return` of a broken connection also skips the snoop forwarding
      let sn := if r.2.2 = .ret then [] else snoopEvs s data
      (s2, .wbeg v data :: (r.2.1 ++ [.wend] ++ sn))

inductive Op where
  | sendres (rs : List SendRes)
  | write (v : Bool) (data : List Byte)
  | flush
  | cycle
  | wready
  | close
  | peerfin
  | dump
  /-- `new_set_snoop`: user `k` starts (`some k`) / nobody any longer (`none`) snoops this user -/
  | snoopBy (k : Option Nat)
  /-- an add_message / add_vmessage call made by LPC code (no state line is printed after it) -/
  | writeQ (v : Bool) (data : List Byte)
  /-- `remove_interactive` reached from LPC code (`destruct`): flush, CLOSING, descriptor closed; no state line -/
  | closeQ
  /-- the state line alone -/
  | showSt
  /-- more scripted reactions for this user's `receive_snoop` -/
  | react (rs : List React)
  /-- `react = react[1..]`: the user's `receive_snoop` took its next scripted reaction -/
  | popReact
  /-- the connection is a PORT_TELNET one -/
  | setTelnet
  /-- a plain `flush_message (ip)` call made by the driver in the middle of something (copy_chars): no state line -/
  | flushQ
  /-- copy_chars processed one input byte: new decoder state; `lm`: it stored into the global `telnet_sb_lm_mode[4]` -/
  | telSet (t : Tel) (lm : Bool)
  deriving Repr

def stEv (s : St) : Ev :=
  -- the console is flushed by every process_io pass: a future flush is always guaranteed
  if s.closed then .stClosed else .st (s.want || s.console) s.prod s.cons s.len s.dead

def step (s : St) : Op → St × List Ev
  | .sendres rs => ({ s with script := s.script ++ rs }, [])
  | .write v d =>
    let r := addMessage v d s
    -- add_vmessage formats first (vasprintf: the whole text, whatever its length); add_message takes the text as it is
    (r.1, (if v then [Ev.vreq d] else []) ++ r.2 ++ [stEv r.1])
  | .flush =>
    if s.closed then (s, [stEv s])
    else let r := flushMsg s; (r.1, r.2.1 ++ [stEv r.1])
  | .cycle =>
    if s.closed ∨ s.len = 0 then (s, [stEv s])
    else let r := flushMsg s; (r.1, r.2.1 ++ [stEv r.1])
  | .wready =>
    if s.closed ∨ (s.want = false ∧ s.console = false) then (s, [stEv s])
    else let r := flushMsg s; (r.1, r.2.1 ++ [stEv r.1])
  | .close =>
    if s.closed then (s, [stEv s])
    else
      let r := flushMsg s
      ({ r.1 with closed := true }, r.2.1 ++ [.close, .stClosed])
  | .peerfin =>
    if s.closed then (s, [stEv s])
    else ({ s with dead := true, closed := true }, [.close, .stClosed])
  | .dump => (s, [.dump (if s.closed then [] else contents s)])
  | .snoopBy k => ({ s with snoopBy := k }, [])
  | .writeQ v d => addMessage v d s
  | .closeQ =>
    if s.closed then (s, [])
    else
      let r := flushMsg s
      ({ r.1 with closed := true }, r.2.1 ++ [.close])
  | .showSt => (s, [stEv s])
  | .react rs => ({ s with react := s.react ++ rs }, [])
  | .popReact => ({ s with react := s.react.tail }, [])
  | .setTelnet => ({ s with telnet := true }, [])
  | .flushQ =>
    if s.closed then (s, [])
    else let r := flushMsg s; (r.1, r.2.1)
  | .telSet t lm => ({ s with tel := t, lmSet := s.lmSet || lm }, [])

def runFrom : St → List Op → St × List Ev
  | s, [] => (s, [])
  | s, op :: ops =>
    let r := step s op
    let r2 := runFrom r.1 ops
    (r2.1, r.2 ++ r2.2)

/-- a fresh connection, an initial send script, a list of operations -/
def run (script : List SendRes) (ops : List Op) (console : Bool := false) : St × List Ev :=
  runFrom (St.init script console) ops

def events (r : St × List Ev) : List Ev := r.2

end NV.C14
