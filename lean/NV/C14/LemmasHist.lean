/-
C14 — ghost-history lemmas: what a write stores into the ring is the wire image of a prefix of its text, and everything
ever stored is `sent ++ ring contents`.
-/
import NV.C14.LemmasTop

namespace NV.C14

/-- everything ever stored into the ring = everything accepted by send(), then what is still in the ring -/
def HistEq (s : St) : Prop := s.histR.reverse = s.sentR.reverse ++ contents s

theorem StepPost.histEq {s s' : St} (h : StepPost s s') (he : HistEq s) : HistEq s' := by
  unfold HistEq at *
  rw [h.histR, h.sent]; exact he

theorem flushMsg_model {s : St} (h : Inv s) :
    StepPost s (flushMsg s).1 ∧ ((flushMsg s).2.2 = true → (flushMsg s).1.gone = false) ∧
    ((flushMsg s).2.2 = false → (flushMsg s).1.gone = true) := by
  cases hg : s.gone with
  | true =>
    rw [flushMsg_gone hg]
    exact ⟨StepPost.refl h, (fun hc => by cases hc), (fun _ => hg)⟩
  | false =>
    rw [flushMsg_alive hg]
    have hr : Rel s none ({ q := contents s } : J) := ⟨rfl, hg.symm, fun _ => ⟨rfl, rfl⟩⟩
    obtain ⟨p1, p2, _, _⟩ := flushLoop_inert (s.len + 1) s none _ h hg (Nat.lt_succ_self _) trivial hr
    refine ⟨p1, fun hok => by rw [hok] at p2; simpa using p2, fun hok => by rw [hok] at p2; simpa using p2⟩

theorem guardFull_model {s : St} (thr : Nat) (h : Inv s) (hg : s.gone = false) :
    StepPost s (guardFull s thr).1 ∧
    ((guardFull s thr).2.2 = .go → (guardFull s thr).1.gone = false ∧ (guardFull s thr).1.len ≠ thr) ∧
    ((guardFull s thr).2.2 = .brk → (guardFull s thr).1.gone = false ∧ (guardFull s thr).1.len = thr) ∧
    ((guardFull s thr).2.2 = .ret → (guardFull s thr).1.gone = true) := by
  by_cases hl : s.len = thr
  · obtain ⟨p1, p2, p3⟩ := flushMsg_model h
    cases hok : (flushMsg s).2.2 with
    | false =>
      rw [guardFull_ret hl hok]
      exact ⟨p1, (fun hc => by cases hc), (fun hc => by cases hc), (fun _ => p3 hok)⟩
    | true =>
      by_cases hlt : (flushMsg s).1.len = thr
      · rw [guardFull_brk hl hok hlt]
        exact ⟨p1, (fun hc => by cases hc), (fun _ => ⟨p2 hok, hlt⟩), (fun hc => by cases hc)⟩
      · rw [guardFull_go hl hok hlt]
        exact ⟨p1, (fun _ => ⟨p2 hok, hlt⟩), (fun hc => by cases hc), (fun hc => by cases hc)⟩
  · rw [guardFull_ne hl]
    exact ⟨StepPost.refl h, (fun _ => ⟨hg, hl⟩), (fun hc => by cases hc), (fun hc => by cases hc)⟩

theorem guard2_model {s : St} (c : Byte) (h : Inv s) (hg : s.gone = false) (hlen : s.len ≠ N) :
    StepPost s (guard2 c s).1 ∧
    ((guard2 c s).2.2 = .go → (guard2 c s).1.gone = false ∧ (guard2 c s).1.len + itemLen c ≤ N) ∧
    ((guard2 c s).2.2 = .brk → (guard2 c s).1.gone = false ∧ N < (guard2 c s).1.len + itemLen c) ∧
    ((guard2 c s).2.2 = .ret → (guard2 c s).1.gone = true) := by
  have hN := N_ge_two
  have hle := h.len_le
  unfold guard2
  by_cases hc : c = LF
  · rw [if_pos hc]
    have hil : itemLen c = 2 := by simp [itemLen, hc]
    obtain ⟨p1, p2, p3, p4⟩ := guardFull_model (N - 1) h hg
    have := p1.len_le
    refine ⟨p1, fun hgo => ?_, fun hb => ?_, p4⟩
    · obtain ⟨a, b⟩ := p2 hgo
      exact ⟨a, by rw [hil]; omega⟩
    · obtain ⟨a, b⟩ := p3 hb
      exact ⟨a, by rw [hil, b]; omega⟩
  · rw [if_neg hc]
    have hil : itemLen c = 1 := by simp [itemLen, hc]
    exact ⟨StepPost.refl h, (fun _ => ⟨hg, by rw [hil]; show s.len + 1 ≤ N; omega⟩), (fun hc => by cases hc),
           (fun hc => by cases hc)⟩

/-- the write loop stores the wire image of a prefix of the text; a proper prefix only when the loop stopped on a dead
connection (`ret`) or on a buffer with no room for the next item (`brk`) -/
theorem addLoop_hist : ∀ (data : List Byte) (s : St), Inv s → s.gone = false → HistEq s →
    Inv (addLoop data s).1 ∧ HistEq (addLoop data s).1 ∧
    ∃ n, n ≤ data.length ∧ (addLoop data s).1.histR.reverse = s.histR.reverse ++ expand (data.take n) ∧
      ((addLoop data s).2.2 = .go → n = data.length) ∧
      ((addLoop data s).2.2 = .brk → (addLoop data s).1.gone = false ∧
          ∃ c, data[n]? = some c ∧ N < (addLoop data s).1.len + itemLen c) ∧
      ((addLoop data s).2.2 = .ret → (addLoop data s).1.gone = true) := by
  intro data
  induction data with
  | nil =>
    intro s h hg he
    simp only [addLoop]
    exact ⟨h, he, 0, Nat.le_refl _, by simp [expand], (fun _ => rfl), (fun hc => by cases hc), (fun hc => by cases hc)⟩
  | cons c cs ih =>
    intro s h hg he
    rw [addLoop_cons]
    obtain ⟨p1, p2, p3, p4⟩ := guardFull_model N h hg
    cases hg1 : (guardFull s N).2.2 with
    | go =>
      obtain ⟨a1, a2⟩ := p2 hg1
      obtain ⟨q1, q2, q3, q4⟩ := guard2_model c p1.inv a1 a2
      simp only []
      cases hg2 : (guard2 c (guardFull s N).1).2.2 with
      | go =>
        obtain ⟨b1, b2⟩ := q2 hg2
        simp only []
        obtain ⟨i1, i2, i3, i4, i5, i6, i7⟩ := putItem_spec q1.inv c b2
        have he2 : HistEq (guard2 c (guardFull s N).1).1 := q1.histEq (p1.histEq he)
        have he3 : HistEq (putItem (guard2 c (guardFull s N).1).1 c) := by
          unfold HistEq at *
          rw [i7, i6, i2, List.reverse_append, List.reverse_reverse, he2, List.append_assoc]
        obtain ⟨r0, r1, n, r2, r3, r4, r5, r6⟩ := ih _ i1 (by rw [i4]; exact b1) he3
        refine ⟨r0, r1, n + 1, by simp; omega, ?_, ?_, ?_, r6⟩
        · rw [r3, i7, List.reverse_append, List.reverse_reverse, q1.histR, p1.histR]
          simp [expand, List.append_assoc]
        · intro hgo; rw [r4 hgo]; simp
        · intro hb
          obtain ⟨x, c', y, z⟩ := r5 hb
          exact ⟨x, c', by simpa using y, z⟩
      | brk =>
        obtain ⟨b1, b2⟩ := q3 hg2
        simp only []
        refine ⟨q1.inv, q1.histEq (p1.histEq he), 0, by simp, ?_, (fun hc => by cases hc), (fun _ => ⟨b1, c, by simp, b2⟩),
                (fun hc => by cases hc)⟩
        rw [q1.histR, p1.histR]; simp [expand]
      | ret =>
        simp only []
        refine ⟨q1.inv, q1.histEq (p1.histEq he), 0, by simp, ?_, (fun hc => by cases hc), (fun hc => by cases hc),
                (fun _ => q4 hg2)⟩
        rw [q1.histR, p1.histR]; simp [expand]
    | brk =>
      obtain ⟨b1, b2⟩ := p3 hg1
      simp only []
      refine ⟨p1.inv, p1.histEq he, 0, by simp, ?_, (fun hc => by cases hc), (fun _ => ⟨b1, c, by simp, ?_⟩),
              (fun hc => by cases hc)⟩
      · rw [p1.histR]; simp [expand]
      · rw [b2]; have := itemLen_pos c; omega
    | ret =>
      simp only []
      refine ⟨p1.inv, p1.histEq he, 0, by simp, ?_, (fun hc => by cases hc), (fun hc => by cases hc), (fun _ => p4 hg1)⟩
      rw [p1.histR]; simp [expand]

end NV.C14
