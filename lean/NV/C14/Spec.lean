/-
C14 — specification oracle.

`judgeEv` reads the event trace of a connection (writes requested, every send() call with its result and the bytes the
socket accepted, closes, the state line printed after each operation) and decides the property.  It knows nothing about the
ring (producer / consumer / chunks): its only state is the *reference stream* `q` - the bytes that are owed to the client, in
order - bounded by the capacity `N = MESSAGE_BUF_SIZE` of the user's output buffer.

Reference semantics
  * a write of text `d` owes the client `expand d` (every LF as CR LF), appended to `q` item by item (an item is one byte, or
    the pair CR LF standing for one LF) as long as the item fits into the capacity.  When the next item does not fit, the
    implementation has to try to send.  Room made by that attempt is filled with more of the text as soon as the attempt is
    over (the queue is drained, or the socket refuses more): after an attempt that took at least one byte the text MUST go
    on.  After an attempt that was refused outright (EWOULDBLOCK / EINTR without a single byte taken) the rest of the text
    is given up.  What has still not fitted when the write returns is lost - so a tail is lost only when the buffer is
    full (or the connection is dead), never a middle part, never half of a CR LF.  (The oracle does not demand a send
    attempt before a tail is dropped from a full queue: the property allows that loss.)
  * the bytes accepted by a send() must be exactly the head of `q` (in order, exactly once, nothing else, nothing twice);
    EWOULDBLOCK / EINTR change nothing; any other error closes the connection.
  * after a close (send error, remove_interactive, peer EOF) nothing may be sent.
  * after every operation: the number of bytes the implementation says are pending equals `|q|` (so nothing that should
    have been kept was dropped, and nothing dropped was kept), and if bytes are pending write notification is requested
    (otherwise they would never leave).
-/
import NV.C14.Model

namespace NV.C14

def itemLen (c : Byte) : Nat := if c = LF then 2 else 1
def item (c : Byte) : List Byte := if c = LF then [CR, LF] else [c]

/-- the wire image of a text: every LF sent as CR LF -/
def expand : List Byte → List Byte
  | [] => []
  | c :: cs => item c ++ expand cs

/-- move items of `d` into `room` free bytes: (wire bytes that fit, input text that did not) -/
def fit : Nat → List Byte → List Byte × List Byte
  | _, [] => ([], [])
  | room, c :: cs =>
    if itemLen c ≤ room then
      let r := fit (room - itemLen c) cs
      (item c ++ r.1, r.2)
    else ([], c :: cs)

/-- which errno values of send() leave the connection usable: EWOULDBLOCK and EINTR (platform values from `Gen`) -/
def specKeeps (e : Nat) : Bool := e == NV.Gen.C14.eWouldBlock || e == NV.Gen.C14.eIntr

structure J where
  /-- bytes owed to the client, oldest first (at most `N`) -/
  q : List Byte := []
  /-- inside a write: the part of the text not yet taken into `q` -/
  cur : Option (List Byte) := none
  dead : Bool := false
  /-- a send() of the current attempt has taken bytes (cleared whenever the text is refilled) -/
  progress : Bool := false
  /-- violations, newest first -/
  bad : List String := []

def J.flag (j : J) (v : String) : J := { j with bad := v :: j.bad }

/-- take what fits of the text being written -/
def refill (j : J) : J :=
  match j.cur with
  | none => j
  | some d =>
    let r := fit (N - j.q.length) d
    { j with q := j.q ++ r.1, cur := some r.2, progress := false }

/-- send() answered EWOULDBLOCK / EINTR: the attempt is over -/
def refused (j : J) : J :=
  match j.cur with
  | some (_ :: _) =>
    -- room was made: more text is taken; nothing was taken from a full buffer: the rest of the text is given up
    if j.progress then refill j else { j with cur := some [] }
  | _ => { j with progress := false }

def jstep (j : J) : Ev → J
  | .wbeg _ d => if j.dead then { j with cur := some d } else refill { j with cur := some d, progress := false }
  | .wend => { j with cur := none }
  | .send off res acc =>
    if j.dead then j.flag "send-after-close"
    else
      let j := if j.q.length < off then j.flag "offered-more-than-owed" else j
      match res with
      | .acc =>
        let j := if acc.isEmpty || off < acc.length then j.flag "bad-accept" else j
        if acc.isPrefixOf j.q then
          let q' := j.q.drop acc.length
          -- drained: the attempt is over and there is room for more of the text
          if q'.isEmpty then refill { j with q := q' } else { j with q := q', progress := true }
        else j.flag "delivered-mismatch"
      | .wouldBlock => refused j
      | .intr => refused j
      | .pipe => { j with dead := true }
      | .err e => if specKeeps e then refused j else { j with dead := true }
  | .close => { j with dead := true }
  | .st want _ _ l _ =>
    if j.dead then j
    else
      let j := if l ≠ j.q.length then j.flag "pending-count-mismatch" else j
      if !j.q.isEmpty && !want then j.flag "pending-without-write-interest" else j
  | .stClosed => if j.dead then j else j.flag "closed-without-close-event"
  | .dump _ => j
  | .snoop _ _ => j
  | .lpcerr => j
  | .vreq _ => j
  | .fault w => j.flag ("crash " ++ w)

def judgeFrom (j : J) (evs : List Ev) : J := evs.foldl jstep j

/-- formatting clause: the text add_vmessage stores is byte for byte the text it was asked to format.  A `vreq d` (request)
must be followed, before anything else of that user, by `wbeg true d` with the same bytes - not a byte less (a formatting
buffer that is too small by one), not a byte more. -/
def fstep (st : Option (List Byte) × List String) : Ev → Option (List Byte) × List String
  | .vreq d => (some d, if st.1.isSome then "format-request-without-call" :: st.2 else st.2)
  | .wbeg v d =>
    match st.1 with
    | none => (none, st.2)
    | some want => (none, if v && want == d then st.2 else "formatted-text-mismatch" :: st.2)
  | _ => if st.1.isSome then (none, "format-request-without-call" :: st.2) else st

def judgeFmt (evs : List Ev) : List String :=
  let r := evs.foldl fstep (none, [])
  (if r.1.isSome then "format-request-without-call" :: r.2 else r.2).reverse

/-- the oracle: list of violations (oldest first); `[]` = the property holds on this trace -/
def judgeEv (evs : List Ev) : List String := (judgeFrom {} evs).bad.reverse

end NV.C14
