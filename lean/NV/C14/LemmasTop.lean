/-
C14 — add_message / add_vmessage, every operation and whole runs against the oracle.
-/
import NV.C14.LemmasRun

namespace NV.C14

/-- invariant at operation boundaries: the ring invariant, and pending output always has write notification requested -/
structure GInv (s : St) : Prop where
  inv : Inv s
  want : s.gone = false → s.len ≠ 0 → (s.want || s.console) = true

/-- the oracle ignores snoop forwarding -/
theorem judgeFrom_snoopEvs (j : J) (s : St) (d : List Byte) : judgeFrom j (snoopEvs s d) = j := by
  unfold snoopEvs; cases s.snoopBy <;> rfl

theorem judgeFrom_ite_snoopEvs (j : J) (c : Prop) [Decidable c] (s : St) (d : List Byte) :
    judgeFrom j (if c then [] else snoopEvs s d) = j := by
  split
  · rfl
  · exact judgeFrom_snoopEvs j s d

theorem wend_rel {s : St} {x : Option (List Byte)} {j : J} (h : Rel s x j) : Rel s none (jstep j .wend) :=
  ⟨h.bad, h.dead, fun hg => ⟨(h.q hg).1, rfl⟩⟩

/-- the state line after an operation raises no flag -/
theorem st_ok {s : St} {j : J} (hgi : GInv s) (hr : Rel s none j) : jstep j (stEv s) = j := by
  unfold stEv
  by_cases hc : s.closed = true
  · rw [if_pos hc]
    have : j.dead = true := by rw [hr.dead]; simp [St.gone, hc]
    simp [jstep, this]
  · rw [if_neg hc]
    cases hd : j.dead with
    | true => simp [jstep, hd]
    | false =>
      have hg : s.gone = false := by rw [← hr.dead]; exact hd
      obtain ⟨hq, _⟩ := hr.q hg
      have hlen : j.q.length = s.len := by rw [hq]; exact contents_length s
      by_cases h0 : s.len = 0
      · have hq0 : j.q = [] := by
          cases hjq : j.q with
          | nil => rfl
          | cons a b => rw [hjq] at hlen; simp at hlen; omega
        simp [jstep, hd, hq0, h0]
      · have hw := hgi.want hg h0
        simp [jstep, hd, hlen, hw]

/-- a flush outside any write -/
theorem flushMsg_top {s : St} {j : J} (hgi : GInv s) (hr : Rel s none j) :
    GInv (flushMsg s).1 ∧ (flushMsg s).1.closed = s.closed ∧ Rel (flushMsg s).1 none (judgeFrom j (flushMsg s).2.1) := by
  cases hg : s.gone with
  | true =>
    rw [flushMsg_gone hg]
    exact ⟨hgi, rfl, hr⟩
  | false =>
    rw [flushMsg_alive hg]
    obtain ⟨p1, p2, p3, p4⟩ := flushLoop_inert (s.len + 1) s none j hgi.inv hg (Nat.lt_succ_self _) trivial hr
    refine ⟨⟨p1.inv, fun hg' hl => ?_⟩, p1.closed, p4⟩
    rw [hg'] at p2
    have hok : (flushLoop (s.len + 1) s).2.2 = true := by
      cases hb : (flushLoop (s.len + 1) s).2.2 with
      | true => rfl
      | false => rw [hb] at p2; cases p2
    rcases p3 hok with h0 | hw | hw
    · exact absurd h0 hl
    · simp [hw]
    · simp [hw]

theorem addMessage_spec {s : St} {j : J} (v : Bool) (d : List Byte) (hgi : GInv s) (hr : Rel s none j) :
    GInv (addMessage v d s).1 ∧ Rel (addMessage v d s).1 none (judgeFrom j (addMessage v d s).2) := by
  unfold addMessage
  cases hg : s.gone with
  | true =>
    simp only [if_true]
    have hjd : j.dead = true := by rw [hr.dead, hg]
    refine ⟨hgi, ?_⟩
    simp only [judgeFrom_cons, judgeFrom_nil, jstep, hjd, if_true]
    exact ⟨hr.bad, hg.symm, fun hx => by rw [hg] at hx; cases hx⟩
  | false =>
    simp only [Bool.false_eq_true, if_false]
    have hjd : j.dead = false := by rw [hr.dead, hg]
    obtain ⟨hq, _⟩ := hr.q hg
    have hrf : RelF s d (jstep j (.wbeg v d)) := by
      simp only [jstep, hjd, Bool.false_eq_true, if_false, refill]
      refine ⟨hr.bad, hg.symm, fun _ => ⟨?_, ?_, rfl⟩⟩
      · show j.q ++ (fit (N - j.q.length) d).1 = _
        rw [hq, contents_length]
      · show some (fit (N - j.q.length) d).2 = _
        rw [hq, contents_length]
    obtain ⟨r1, r2, r3, r4, r5⟩ := addLoop_spec d s (jstep j (.wbeg v d)) hgi.inv hg hrf
    cases v with
    | false =>
      simp only [Bool.false_eq_true, if_false]
      cases hcons : s.console with
      | true =>
        simp only [if_true]
        simp only [judgeFrom_cons, judgeFrom_append, judgeFrom_nil, judgeFrom_snoopEvs, judgeFrom_ite_snoopEvs]
        by_cases hret : (addLoop d s).2.2 = .ret
        · rw [if_pos hret]
          have hgone := r3 hret
          simp only [judgeFrom_nil]
          exact ⟨⟨r1, fun hx => by rw [hgone] at hx; cases hx⟩, wend_rel r5⟩
        · rw [if_neg hret]
          have hgone := r4 hret
          rw [flushMsg_alive hgone]
          obtain ⟨p1, p2, p3, p4⟩ := flushLoop_inert ((addLoop d s).1.len + 1) (addLoop d s).1 (some [])
            (judgeFrom (jstep j (.wbeg false d)) (addLoop d s).2.1) r1 hgone (Nat.lt_succ_self _) trivial r5
          refine ⟨⟨p1.inv, fun hg' hl => ?_⟩, wend_rel p4⟩
          rw [hg'] at p2
          have hok : (flushLoop ((addLoop d s).1.len + 1) (addLoop d s).1).2.2 = true := by
            cases hb : (flushLoop ((addLoop d s).1.len + 1) (addLoop d s).1).2.2 with
            | true => rfl
            | false => rw [hb] at p2; cases p2
          rcases p3 hok with h00 | hw | hw
          · exact absurd h00 hl
          · simp [hw]
          · simp [hw]
      | false =>
        simp only [Bool.false_eq_true, if_false]
        simp only [judgeFrom_cons, judgeFrom_append, judgeFrom_nil, judgeFrom_snoopEvs, judgeFrom_ite_snoopEvs]
        by_cases hret : (addLoop d s).2.2 = .ret
        · rw [if_pos hret]
          have hgone := r3 hret
          exact ⟨⟨r1, fun hx => by rw [hgone] at hx; cases hx⟩, wend_rel r5⟩
        · rw [if_neg hret]
          refine ⟨⟨r1.of_eq rfl rfl rfl rfl rfl, fun _ _ => by simp⟩, ?_⟩
          have hw := wend_rel r5
          exact ⟨hw.bad, hw.dead, hw.q⟩
    | true =>
      simp only [if_true]
      simp only [judgeFrom_cons, judgeFrom_append, judgeFrom_nil, judgeFrom_snoopEvs, judgeFrom_ite_snoopEvs]
      by_cases h0 : (addLoop d s).1.len = 0
      · have hne : ¬ (addLoop d s).1.len ≠ 0 := by simp [h0]
        rw [if_neg hne]
        simp only [judgeFrom_nil]
        exact ⟨⟨r1, fun _ hl => absurd h0 hl⟩, wend_rel r5⟩
      · have hne : (addLoop d s).1.len ≠ 0 := h0
        rw [if_pos hne]
        cases hgone : (addLoop d s).1.gone with
        | true =>
          rw [flushMsg_gone hgone]
          simp only [judgeFrom_nil]
          exact ⟨⟨r1, fun hx => by rw [hgone] at hx; cases hx⟩, wend_rel r5⟩
        | false =>
          rw [flushMsg_alive hgone]
          obtain ⟨p1, p2, p3, p4⟩ := flushLoop_inert ((addLoop d s).1.len + 1) (addLoop d s).1 (some [])
            (judgeFrom (jstep j (.wbeg true d)) (addLoop d s).2.1) r1 hgone (Nat.lt_succ_self _) trivial r5
          refine ⟨⟨p1.inv, fun hg' hl => ?_⟩, wend_rel p4⟩
          rw [hg'] at p2
          have hok : (flushLoop ((addLoop d s).1.len + 1) (addLoop d s).1).2.2 = true := by
            cases hb : (flushLoop ((addLoop d s).1.len + 1) (addLoop d s).1).2.2 with
            | true => rfl
            | false => rw [hb] at p2; cases p2
          rcases p3 hok with h00 | hw | hw
          · exact absurd h00 hl
          · simp [hw]
          · simp [hw]

theorem closed_gone {s : St} (h : s.closed = true) : s.gone = true := by simp [St.gone, h]

/-- every operation keeps the invariant and is accepted by the oracle -/
theorem step_spec {s : St} {j : J} (op : Op) (hgi : GInv s) (hr : Rel s none j) :
    GInv (step s op).1 ∧ Rel (step s op).1 none (judgeFrom j (step s op).2) := by
  have same : GInv s ∧ Rel s none (judgeFrom j [stEv s]) := by
    refine ⟨hgi, ?_⟩
    simp only [judgeFrom_cons, judgeFrom_nil]
    rw [st_ok hgi hr]; exact hr
  have viaFlush : GInv (flushMsg s).1 ∧
      Rel (flushMsg s).1 none (judgeFrom j ((flushMsg s).2.1 ++ [stEv (flushMsg s).1])) := by
    obtain ⟨a, _, c⟩ := flushMsg_top hgi hr
    refine ⟨a, ?_⟩
    rw [judgeFrom_append]
    simp only [judgeFrom_cons, judgeFrom_nil]
    rw [st_ok a c]; exact c
  cases op with
  | sendres rs =>
    simp only [step, judgeFrom_nil]
    exact ⟨⟨hgi.inv.of_eq rfl rfl rfl rfl rfl, hgi.want⟩, ⟨hr.bad, hr.dead, hr.q⟩⟩
  | write v d =>
    simp only [step]
    obtain ⟨a, b⟩ := addMessage_spec v d hgi hr
    refine ⟨a, ?_⟩
    have hv : judgeFrom j (if v = true then [Ev.vreq d] else []) = j := by cases v <;> rfl
    rw [judgeFrom_append, judgeFrom_append, hv]
    simp only [judgeFrom_cons, judgeFrom_nil]
    rw [st_ok a b]; exact b
  | flush =>
    simp only [step]
    by_cases hc : s.closed = true
    · rw [if_pos hc]; exact same
    · rw [if_neg hc]; exact viaFlush
  | cycle =>
    simp only [step]
    by_cases hc : s.closed = true ∨ s.len = 0
    · rw [if_pos hc]; exact same
    · rw [if_neg hc]; exact viaFlush
  | wready =>
    simp only [step]
    by_cases hc : s.closed = true ∨ (s.want = false ∧ s.console = false)
    · rw [if_pos hc]; exact same
    · rw [if_neg hc]; exact viaFlush
  | close =>
    simp only [step]
    by_cases hc : s.closed = true
    · rw [if_pos hc]; exact same
    · rw [if_neg hc]
      obtain ⟨a, _, c⟩ := flushMsg_top hgi hr
      refine ⟨⟨a.inv.of_eq rfl rfl rfl rfl rfl, fun hx => by simp [St.gone] at hx⟩, ?_⟩
      rw [judgeFrom_append]
      simp only [judgeFrom_cons, judgeFrom_nil, jstep, if_true]
      exact ⟨c.bad, by simp [St.gone], fun hx => by simp [St.gone] at hx⟩
  | peerfin =>
    simp only [step]
    by_cases hc : s.closed = true
    · rw [if_pos hc]; exact same
    · rw [if_neg hc]
      refine ⟨⟨hgi.inv.of_eq rfl rfl rfl rfl rfl, fun hx => by simp [St.gone] at hx⟩, ?_⟩
      simp only [judgeFrom_cons, judgeFrom_nil, jstep, if_true]
      exact ⟨hr.bad, by simp [St.gone], fun hx => by simp [St.gone] at hx⟩
  | dump =>
    simp only [step, judgeFrom_cons, judgeFrom_nil, jstep]
    exact ⟨hgi, hr⟩
  | snoopBy k =>
    simp only [step, judgeFrom_nil]
    exact ⟨⟨hgi.inv.of_eq rfl rfl rfl rfl rfl, hgi.want⟩, ⟨hr.bad, hr.dead, hr.q⟩⟩
  | writeQ v d =>
    simp only [step]
    exact addMessage_spec v d hgi hr
  | closeQ =>
    simp only [step]
    by_cases hc : s.closed = true
    · rw [if_pos hc]; exact ⟨hgi, hr⟩
    · rw [if_neg hc]
      obtain ⟨a, _, c⟩ := flushMsg_top hgi hr
      refine ⟨⟨a.inv.of_eq rfl rfl rfl rfl rfl, fun hx => by simp [St.gone] at hx⟩, ?_⟩
      rw [judgeFrom_append]
      simp only [judgeFrom_cons, judgeFrom_nil, jstep]
      exact ⟨c.bad, by simp [St.gone], fun hx => by simp [St.gone] at hx⟩
  | showSt =>
    simp only [step]
    exact same
  | react rs =>
    simp only [step, judgeFrom_nil]
    exact ⟨⟨hgi.inv.of_eq rfl rfl rfl rfl rfl, hgi.want⟩, ⟨hr.bad, hr.dead, hr.q⟩⟩
  | popReact =>
    simp only [step, judgeFrom_nil]
    exact ⟨⟨hgi.inv.of_eq rfl rfl rfl rfl rfl, hgi.want⟩, ⟨hr.bad, hr.dead, hr.q⟩⟩
  | setTelnet =>
    simp only [step, judgeFrom_nil]
    exact ⟨⟨hgi.inv.of_eq rfl rfl rfl rfl rfl, hgi.want⟩, ⟨hr.bad, hr.dead, hr.q⟩⟩
  | telSet t lm =>
    simp only [step, judgeFrom_nil]
    exact ⟨⟨hgi.inv.of_eq rfl rfl rfl rfl rfl, hgi.want⟩, ⟨hr.bad, hr.dead, hr.q⟩⟩
  | flushQ =>
    simp only [step]
    by_cases hc : s.closed = true
    · rw [if_pos hc]; exact ⟨hgi, hr⟩
    · rw [if_neg hc]
      obtain ⟨a, _, c⟩ := flushMsg_top hgi hr
      exact ⟨a, c⟩

theorem runFrom_spec : ∀ (ops : List Op) (s : St) (j : J), GInv s → Rel s none j →
    GInv (runFrom s ops).1 ∧ Rel (runFrom s ops).1 none (judgeFrom j (runFrom s ops).2) := by
  intro ops
  induction ops with
  | nil => intro s j hgi hr; exact ⟨hgi, hr⟩
  | cons op ops ih =>
    intro s j hgi hr
    obtain ⟨a, b⟩ := step_spec op hgi hr
    obtain ⟨c, d⟩ := ih (step s op).1 (judgeFrom j (step s op).2) a b
    simp only [runFrom]
    rw [judgeFrom_append]
    exact ⟨c, d⟩

theorem init_ginv (script : List SendRes) (console : Bool := false) : GInv (St.init script console) :=
  ⟨init_inv script console, fun _ hl => absurd rfl hl⟩

theorem init_rel (script : List SendRes) (console : Bool := false) : Rel (St.init script console) none {} :=
  ⟨rfl, rfl, fun _ => ⟨rfl, rfl⟩⟩

end NV.C14
