/-
C14 — helper lemmas: ring arithmetic, the ring invariant, contents of the ring under put / consume.
-/
import NV.C14.Model
import NV.C14.Spec

namespace NV.C14

theorem N_pos : 0 < N := by decide

/-! ### bridges: the definitions regenerated from src/comm.c (`NV.Gen.C14`, C `int` arithmetic) are the ring operations

A source change that alters the chunk rule, an index update, a ring-full test or the errno classification changes `Gen`,
and the corresponding bridge below no longer proves. -/

/-- `ip->message_producer = (ip->message_producer + 1) % MESSAGE_BUF_SIZE` -/
theorem producerNext_eq (s : St) : producerNext s = (s.prod + 1) % N := by
  unfold producerNext NV.Gen.C14.producerNext
  rw [Int.tmod_eq_emod_of_nonneg (by omega)]
  simp only [N, NV.Gen.C14.messageBufSize]; omega

/-- `ip->message_consumer = (ip->message_consumer + num_bytes) % MESSAGE_BUF_SIZE` -/
theorem consumerNext_eq (s : St) (m : Nat) : consumerNext s m = (s.cons + m) % N := by
  unfold consumerNext NV.Gen.C14.consumerNext
  rw [Int.tmod_eq_emod_of_nonneg (by omega)]
  simp only [N, NV.Gen.C14.messageBufSize]; omega

/-- `ip->message_length -= num_bytes` -/
theorem lengthAfterSend_eq (s : St) (m : Nat) : lengthAfterSend s m = s.len - m := by
  unfold lengthAfterSend NV.Gen.C14.lengthAfterSend; omega

/-- the contiguous-chunk rule: `consumer < producer ? producer - consumer : SIZE - consumer` -/
theorem chunkLen_eq (s : St) : chunkLen s = if s.cons < s.prod then s.prod - s.cons else N - s.cons := by
  unfold chunkLen NV.Gen.C14.chunkLen
  split <;> split <;> omega

/-- the ring-full test of add_message compares the length with the buffer size -/
theorem thrFull_eq (s : St) : thrFull s = N := by
  unfold thrFull NV.Gen.C14.fullThr; omega

/-- before a CR LF pair the test is against size - 1 -/
theorem thrLF_eq (s : St) : thrLF s = N - 1 := by
  unfold thrLF NV.Gen.C14.lfThr; omega

/-- the errno values for which flush_message keeps the data are exactly EWOULDBLOCK and EINTR -/
theorem keepsData_eq (e : Nat) : keepsData e = specKeeps e := by
  unfold keepsData specKeeps
  by_cases h1 : e = NV.Gen.C14.eWouldBlock <;> by_cases h2 : e = NV.Gen.C14.eIntr <;>
    simp_all [NV.Gen.C14.keepErrnos, NV.Gen.C14.eWouldBlock, NV.Gen.C14.eIntr]

theorem keepsData_pipe : keepsData NV.Gen.C14.ePipe = false := by decide

/-- LF and CR as located in the source are the ASCII codes, and differ -/
theorem LF_CR_values : LF = 10 ∧ CR = 13 := by decide

theorem consume_eq (s : St) (m : Nat) (bs : List Byte) (rs : List SendRes) :
    consume s m bs rs =
      { s with cons := (s.cons + m) % N, len := s.len - m, script := rs, sentR := bs.reverse ++ s.sentR } := by
  unfold consume; rw [consumerNext_eq, lengthAfterSend_eq]

/-- `(c + l) % N` for an index and a length inside the ring: at most one wrap -/
theorem mod_wrap {c l : Nat} (hc : c < N) (hl : l ≤ N) :
    (c + l) % N = if c + l < N then c + l else c + l - N := by
  split
  · exact Nat.mod_eq_of_lt ‹_›
  · rw [Nat.mod_eq_sub_mod (by omega)]
    exact Nat.mod_eq_of_lt (by omega)

/-- the ring invariant (memory safety of every index the C code uses follows from it, see `chunk_ok`, `put_inv`) -/
structure Inv (s : St) : Prop where
  size : s.buf.size = N
  cons_lt : s.cons < N
  len_le : s.len ≤ N
  prod_eq : s.prod = (s.cons + s.len) % N
  nofault : s.fault = false

theorem Inv.prod_lt {s : St} (h : Inv s) : s.prod < N := by
  rw [h.prod_eq]; exact Nat.mod_lt _ N_pos

theorem init_inv (script : List SendRes) (console : Bool := false) : Inv (St.init script console) := by
  refine ⟨?_, ?_, ?_, ?_, ?_⟩ <;> simp [St.init, N_pos]

/-- the chunk handed to send(): non-empty, inside the buffer, not longer than what is pending -/
theorem chunk_ok {s : St} (h : Inv s) (hl : s.len ≠ 0) :
    1 ≤ chunkLen s ∧ s.cons + chunkLen s ≤ N ∧ chunkLen s ≤ s.len := by
  have hc := h.cons_lt
  have hle := h.len_le
  have hp := h.prod_eq
  rw [mod_wrap hc hle] at hp
  rw [chunkLen_eq]
  split at hp <;> split <;> omega

theorem contents_length (s : St) : (contents s).length = s.len := by
  simp [contents]

theorem bytesAt_length (buf : Array Byte) (st n : Nat) : (bytesAt buf st n).length = n := by
  simp [bytesAt]

/-! ### put -/

theorem put_eq {s : St} (h : Inv s) (b : Byte) :
    put s b = { s with buf := s.buf.setIfInBounds s.prod b, prod := (s.prod + 1) % N, len := s.len + 1,
                       histR := b :: s.histR } := by
  unfold put
  rw [if_pos h.prod_lt, producerNext_eq]

theorem put_inv {s : St} (h : Inv s) (hl : s.len < N) (b : Byte) : Inv (put s b) := by
  rw [put_eq h]
  have hc := h.cons_lt
  refine ⟨?_, hc, ?_, ?_, h.nofault⟩
  · simp [h.size]
  · show s.len + 1 ≤ N
    omega
  · show (s.prod + 1) % N = (s.cons + (s.len + 1)) % N
    rw [h.prod_eq, Nat.mod_add_mod, Nat.add_assoc]

theorem put_contents {s : St} (h : Inv s) (hl : s.len < N) (b : Byte) :
    contents (put s b) = contents s ++ [b] := by
  rw [put_eq h]
  have hc := h.cons_lt
  have hsz := h.size
  have hp := h.prod_eq
  unfold contents
  show List.map (fun i => (s.buf.setIfInBounds s.prod b).getD ((s.cons + i) % N) 0) (List.range (s.len + 1)) = _
  rw [List.range_succ, List.map_append]
  congr 1
  · apply List.map_congr_left
    intro i hi
    have hi' : i < s.len := by simpa using hi
    have hne : s.prod ≠ (s.cons + i) % N := by
      rw [hp, mod_wrap hc (by omega : s.len ≤ N), mod_wrap hc (by omega : i ≤ N)]
      split <;> split <;> omega
    simp only [Array.getD_eq_getD_getElem?, Array.getElem?_setIfInBounds_ne hne]
  · have hlt : s.prod < N := h.prod_lt
    simp [Array.getD_eq_getD_getElem?, ← hp, hsz, hlt]

@[simp] theorem put_len {s : St} (h : Inv s) (b : Byte) : (put s b).len = s.len + 1 := by rw [put_eq h]
@[simp] theorem put_dead {s : St} (b : Byte) : (put s b).dead = s.dead := by unfold put; split <;> rfl
@[simp] theorem put_closed {s : St} (b : Byte) : (put s b).closed = s.closed := by unfold put; split <;> rfl
@[simp] theorem put_gone {s : St} (b : Byte) : (put s b).gone = s.gone := by simp [St.gone]
@[simp] theorem put_sentR {s : St} (b : Byte) : (put s b).sentR = s.sentR := by unfold put; split <;> rfl
theorem put_histR {s : St} (h : Inv s) (b : Byte) : (put s b).histR = b :: s.histR := by rw [put_eq h]

/-! ### consume -/

theorem consume_inv {s : St} (h : Inv s) {m : Nat} (hm : m ≤ s.len) (bs : List Byte) (rs : List SendRes) :
    Inv (consume s m bs rs) := by
  rw [consume_eq]
  have hc := h.cons_lt
  have hle := h.len_le
  refine ⟨h.size, Nat.mod_lt _ N_pos, ?_, ?_, h.nofault⟩
  · show s.len - m ≤ N
    omega
  · show s.prod = ((s.cons + m) % N + (s.len - m)) % N
    rw [Nat.mod_add_mod, h.prod_eq]
    congr 1
    omega

theorem consume_contents {s : St} {m : Nat} (_hm : m ≤ s.len) (bs : List Byte) (rs : List SendRes) :
    contents (consume s m bs rs) = (contents s).drop m := by
  rw [consume_eq]
  unfold contents
  show List.map (fun i => s.buf.getD (((s.cons + m) % N + i) % N) 0) (List.range (s.len - m)) = _
  apply List.ext_getElem
  · simp
  · intro i h1 h2
    simp only [List.length_map, List.length_range] at h1
    simp [Nat.mod_add_mod, Nat.add_assoc]

/-- what send() reads (`buf + consumer`, no wrapping) is the head of the logical contents -/
theorem bytesAt_eq_take {s : St} (_h : Inv s) {m : Nat} (hm : s.cons + m ≤ N) (hml : m ≤ s.len) :
    bytesAt s.buf s.cons m = (contents s).take m := by
  unfold bytesAt contents
  apply List.ext_getElem
  · simp [Nat.min_eq_left hml]
  · intro i h1 h2
    simp only [List.length_map, List.length_range] at h1
    simp [Nat.mod_eq_of_lt (by omega : s.cons + i < N)]

end NV.C14
