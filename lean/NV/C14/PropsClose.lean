/-
C14 — what is promised about pending bytes when a connection is closed.

`remove_interactive` makes ONE `flush_message` attempt and then sets CLOSING; whatever is still in the ring is discarded
with the structure.  Proved here, for every state satisfying the ring invariant and every send script:
  * `close_loses_only_unsent_suffix` - the bytes accepted by the socket during that attempt are a prefix (in order, exactly
    once) of what was pending; what is lost is the remaining suffix - never a middle part, nothing is sent twice;
  * `close_delivers_all_when_socket_accepts` - if the socket accepts (every remaining scripted result is an accept of any
    size >= 1 byte, or the script is exhausted), EVERYTHING pending is delivered before the close, in order;
  * `peerfin_sends_nothing` - after the peer's EOF (recv() == 0: NET_DEAD first) pending bytes are discarded without a send.
-/
import NV.C14.LemmasTop
import NV.C14.LemmasHist

namespace NV.C14

/-- the socket accepts: every remaining scripted result is an accept (of at least one byte, any size) -/
def AllAcc (rs : List SendRes) : Prop := ∀ r ∈ rs, ∃ k, r = SendRes.acc k

theorem allAcc_pop {rs : List SendRes} (h : AllAcc rs) : (∃ k, (pop rs).1 = .acc k) ∧ AllAcc (pop rs).2 := by
  cases rs with
  | nil => exact ⟨⟨N, rfl⟩, fun r hr => by cases hr⟩
  | cons r rs =>
    refine ⟨h r (List.mem_cons_self ..), fun x hx => h x (List.mem_cons_of_mem _ hx)⟩

/-- with an accepting socket the send loop drains the ring, whatever sizes the partial sends have -/
theorem flushLoop_drains : ∀ (fuel : Nat) (s : St), Inv s → s.gone = false → s.len < fuel → AllAcc s.script →
    (flushLoop fuel s).1.len = 0 ∧ (flushLoop fuel s).2.2 = true := by
  intro fuel
  induction fuel with
  | zero => intro s _ _ hf; omega
  | succ fuel ih =>
    intro s h hg hf ha
    by_cases hl : s.len = 0
    · rw [flushLoop_empty hl]; exact ⟨hl, rfl⟩
    · obtain ⟨⟨k, hk⟩, ha'⟩ := allAcc_pop ha
      obtain ⟨c1, c2, c3⟩ := chunk_ok h hl
      rcases sendStep_model h hg hl with ⟨k', hk', hs⟩ | ⟨res, hres, hs⟩ | ⟨res, hres, hs⟩
      · rw [flushLoop_cont hs]; dsimp only
        have hml : min (k' + 1) (chunkLen s) ≤ s.len := by omega
        have hinv' := consume_inv h hml (bytesAt s.buf s.cons (min (k' + 1) (chunkLen s))) (pop s.script).2
        have hlen' : (consume s (min (k' + 1) (chunkLen s)) (bytesAt s.buf s.cons (min (k' + 1) (chunkLen s)))
            (pop s.script).2).len < s.len := by
          rw [consume_eq]; show s.len - _ < s.len; omega
        exact ih _ hinv' hg (by omega) ha'
      · exfalso
        have hne : ∀ k, (pop s.script).1 ≠ .acc k := by
          intro k2 hk2
          unfold sendStep at hs
          have hnf : ¬ (chunkLen s = 0 ∨ N < s.cons + chunkLen s ∨ s.len < chunkLen s) := by omega
          rw [if_neg hl] at hs
          simp only [hnf, if_false, hk2] at hs
          cases hs
        exact hne k hk
      · exfalso
        have hne : ∀ k, (pop s.script).1 ≠ .acc k := by
          intro k2 hk2
          unfold sendStep at hs
          have hnf : ¬ (chunkLen s = 0 ∨ N < s.cons + chunkLen s ∨ s.len < chunkLen s) := by omega
          rw [if_neg hl] at hs
          simp only [hnf, if_false, hk2] at hs
          cases hs
        exact hne k hk

/-- **close: only an unsent suffix is lost.**  The bytes the socket accepted during the flush attempt of
`remove_interactive`, followed by what was still in the ring when it was discarded, are exactly the bytes sent so far
followed by what was pending - so the delivered part is a prefix of the pending bytes, in order, exactly once. -/
theorem close_loses_only_unsent_suffix (s : St) (h : Inv s) :
    (step s .close).1.sentR.reverse ++ contents (flushMsg s).1 = s.sentR.reverse ++ contents s := by
  have hp := (flushMsg_model h).1.sent
  simp only [step]
  split
  · rename_i hc
    have hg : s.gone = true := by simp [St.gone, hc]
    rw [flushMsg_gone hg]
  · exact hp

/-- **close with an accepting socket delivers everything pending**, in order, before the connection goes away -/
theorem close_delivers_all_when_socket_accepts (s : St) (h : Inv s) (hg : s.gone = false) (ha : AllAcc s.script) :
    (step s .close).1.sentR.reverse = s.sentR.reverse ++ contents s := by
  have hc : s.closed = false := by
    cases hcl : s.closed with
    | false => rfl
    | true => simp [St.gone, hcl] at hg
  have hd := flushLoop_drains (s.len + 1) s h hg (Nat.lt_succ_self _) ha
  have hsfx := close_loses_only_unsent_suffix s h
  have hlen : (flushMsg s).1.len = 0 := by rw [flushMsg_alive hg]; exact hd.1
  have hcont : contents (flushMsg s).1 = [] := by
    have := contents_length (flushMsg s).1
    rw [hlen] at this
    exact List.eq_nil_of_length_eq_zero this
  rw [hcont, List.append_nil] at hsfx
  exact hsfx

/-- peer EOF: NET_DEAD is set before remove_interactive, so its flush sends nothing - pending bytes are discarded -/
theorem peerfin_sends_nothing (s : St) : (step s .peerfin).1.sentR = s.sentR ∧
    ∀ e ∈ (step s .peerfin).2, ∀ n r a, e ≠ Ev.send n r a := by
  simp only [step]
  split
  · refine ⟨rfl, fun e he n r a => ?_⟩
    simp only [List.mem_singleton] at he
    subst he
    unfold stEv
    split <;> intro hx <;> cases hx
  · refine ⟨rfl, fun e he n r a => ?_⟩
    simp only [List.mem_cons, List.mem_singleton, List.not_mem_nil, or_false] at he
    rcases he with rfl | rfl <;> intro hx <;> cases hx

/-- non-vacuity: the hypotheses hold for a ring with one pending byte and a socket that accepts one byte at a time -/
example : (step (put (St.init [.acc 0]) 65) .close).1.sentR.reverse
    = (put (St.init [.acc 0]) 65).sentR.reverse ++ contents (put (St.init [.acc 0]) 65) := by
  have hi : Inv (put (St.init [.acc 0]) 65) := put_inv (init_inv _) (by decide) 65
  refine close_delivers_all_when_socket_accepts _ hi ?_ ?_
  · rw [put_eq (init_inv _)]; rfl
  · rw [put_eq (init_inv _)]
    intro r hr
    have : r = SendRes.acc 0 := by simpa [St.init] using hr
    exact ⟨0, this⟩

end NV.C14
