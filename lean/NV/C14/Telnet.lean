/-
C14 — what the telnet decoder `copy_chars` (src/comm.c) WRITES while it processes input bytes.

Only the output side is mirrored here: for every input byte, the decoder state it leaves and the sequence of
`add_message (ip->ob, ..)` / `add_vmessage (..)` / `flush_message (ip)` calls it makes (`TAct`), in order.  What the
decoder stores into the command buffer, and the callbacks into the user object (terminal_type, window_size,
telnet_suboption - the C14 user object defines none of them), belong to property C13 and are left out.
`SINGLE_CHAR` is never set in a C14 case (no get_char()).

All protocol bytes, option numbers and reply strings are regenerated from the source (`NV.Gen.C14`).
`telnet_sb_lm_mode[4]` is a global of comm.c (shared by all users): it is threaded through as `lm`.
-/
import NV.Gen.C14

namespace NV.C14

open NV.Gen.C14

/-- `ip->state & TS_STATE_MASK` -/
inductive TS where
  | data | iac | will | wont | do_ | dont | sb | sbIac
  deriving Repr, DecidableEq, Inhabited

structure Tel where
  ts : TS := .data
  /-- `ip->state & TS_CR_SEEN` -/
  cr : Bool := false
  /-- `sb_buf[0 .. sb_pos)` (the rest of the array is zero: `memset` at IAC SB) -/
  sb : List UInt8 := []
  deriving Repr, DecidableEq, Inhabited

/-- one output call made by copy_chars -/
inductive TAct where
  /-- `add_message` (`v = false`) / `add_vmessage` (`v = true`) with this text (a C string: cut at the first NUL) -/
  | msg (v : Bool) (text : List UInt8)
  /-- `flush_message (ip)` -/
  | fl
  deriving Repr, DecidableEq

def bytesOf (l : List Nat) : List UInt8 := l.map UInt8.ofNat

/-- C string semantics of a `char[]` argument -/
def cstr : List UInt8 → List UInt8
  | [] => []
  | b :: r => if b = 0 then [] else b :: cstr r

/-- `telnet_sb_lm_mode` with its mode byte as it is now -/
def sbLmMode (lm : Nat) : List UInt8 := cstr (bytesOf (telSbLmMode.set lmModeIndex lm))

/-- the LM_SLC answer loop `for (j = 2; j < ip->sb_pos - 3; j += 3)` (int arithmetic: no iteration when sb_pos < 3);
`slc` is a `char[4]`: a function code >= 128 is negative and never `> NSLC` -/
def slcLoop (sb : List UInt8) : Nat → Nat → List TAct
  | 0, _ => []
  | fuel + 1, j =>
    if j + 3 < sb.length then
      let func := sb.getD j 0
      let flags := sb.getD (j + 1) 0
      let value := sb.getD (j + 2) 0
      if func = 0 ∧ value = 0 then []
      else if flags.toNat &&& slcACK ≠ 0 then slcLoop sb fuel (j + 3)
      else if func.toNat < 128 ∧ func.toNat > nSLC then
        .msg false (cstr [func, UInt8.ofNat slcNOSUPPORT, value]) :: slcLoop sb fuel (j + 3)
      else
        let lvl := flags.toNat &&& slcLEVELBITS
        if lvl = slcDEFAULT then
          .msg false (cstr [func, flags, 0]) :: slcLoop sb fuel (j + 3)
        else if lvl = slcVARIABLE ∨ lvl = slcCANTCHANGE then
          if value.toNat ≥ 32 ∧ value.toNat ≠ 127 then
            .msg false (cstr [func, UInt8.ofNat slcNOSUPPORT, value]) :: slcLoop sb fuel (j + 3)
          else
            .msg false (cstr [func, UInt8.ofNat (flags.toNat ||| slcACK), value]) :: slcLoop sb fuel (j + 3)
        else slcLoop sb fuel (j + 3)
    else []

/-- IAC SE after a sub-negotiation: the answers written for TELOPT_LINEMODE -/
def sbEndActs (lm : Nat) (sb : List UInt8) : List TAct :=
  let g : Nat → UInt8 := fun i => sb.getD i 0
  if g 0 = UInt8.ofNat optLINEMODE then
    if g 1 = UInt8.ofNat lmMODE then
      if (g 2).toNat &&& modeACK ≠ 0 then [] else [.msg false (sbLmMode lm)]
    else if g 1 = UInt8.ofNat lmSLC then
      [.msg false (cstr (bytesOf telSbLmSlc))] ++ slcLoop sb sb.length 2 ++ [.msg false (cstr (bytesOf telSe))]
    else []
  else []

structure TR where
  tel : Tel
  acts : List TAct := []
  /-- value of `telnet_sb_lm_mode[4]` afterwards -/
  lm : Nat

/-- one iteration of the `for` loop of copy_chars -/
def telByte (lm : Nat) (t : Tel) (b : UInt8) : TR :=
  let n := b.toNat
  let toData : Tel := { t with ts := .data, cr := false }
  match t.ts with
  | .data =>
    if n = tnIAC then { tel := { t with ts := .iac, cr := false }, lm := lm }
    else if n = 13 then { tel := { t with cr := true }, lm := lm }
    else if t.cr ∧ (n = 10 ∨ n = 0) then
      { tel := { t with cr := false }, acts := [.msg false (cstr (bytesOf telNewline))], lm := lm }
    else { tel := { t with cr := false }, lm := lm }
  | .iac =>
    if n = tnIAC then { tel := toData, lm := lm }
    else if n = tnDO then { tel := { t with ts := .do_, cr := false }, lm := lm }
    else if n = tnDONT then { tel := { t with ts := .dont, cr := false }, lm := lm }
    else if n = tnWILL then { tel := { t with ts := .will, cr := false }, lm := lm }
    else if n = tnWONT then { tel := { t with ts := .wont, cr := false }, lm := lm }
    else if n = tnBREAK then { tel := toData, acts := [.msg false (cstr (bytesOf telBreak)), .fl], lm := lm }
    else if n = tnIP then { tel := toData, acts := [.msg false (cstr (bytesOf telInterrupt))], lm := lm }
    else if n = tnAYT then { tel := toData, acts := [.msg true (cstr (bytesOf telAyt))], lm := lm }
    else if n = tnAO then { tel := toData, acts := [.msg false (cstr (bytesOf telAbort)), .fl], lm := lm }
    else if n = tnSB then { tel := { ts := .sb, cr := false, sb := [] }, lm := lm }
    else { tel := toData, lm := lm }
  | .do_ =>
    if n = optSGA then { tel := toData, acts := [.msg false (cstr (bytesOf telWillSga)), .fl], lm := lm }
    else if n = optTM then { tel := toData, acts := [.msg false (cstr (bytesOf telDoTm)), .fl], lm := lm }
    else { tel := toData, lm := lm }
  | .will =>
    if n = optTTYPE then { tel := toData, acts := [.msg false (cstr (bytesOf telTermQuery)), .fl], lm := lm }
    else if n = optLINEMODE then
      let lm' := modeEDIT ||| modeTRAPSIG
      { tel := toData, acts := [.msg false (sbLmMode lm'), .fl], lm := lm' }
    else if n = optSGA then { tel := toData, acts := [.msg false (cstr (bytesOf telDoSga)), .fl], lm := lm }
    else { tel := toData, lm := lm }
  | .dont =>
    if n = optSGA then { tel := toData, acts := [.msg false (cstr (bytesOf telWontSga)), .fl], lm := lm }
    else { tel := toData, lm := lm }
  | .wont => { tel := toData, lm := lm }
  | .sb =>
    if n = tnIAC then { tel := { t with ts := .sbIac, cr := false }, lm := lm }
    else if t.sb.length < sbSize then { tel := { t with sb := t.sb ++ [b] }, lm := lm }
    else { tel := t, lm := lm }
  | .sbIac =>
    if n = tnIAC then
      { tel := { t with ts := .sb, cr := false, sb := if t.sb.length < sbSize then t.sb ++ [b] else t.sb }, lm := lm }
    else if n = tnSE then { tel := toData, acts := sbEndActs lm t.sb, lm := lm }
    else { tel := t, lm := lm }

end NV.C14
