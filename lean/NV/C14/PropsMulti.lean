/-
C14 — several users: routing, snoop relation, tagging and re-entrancy as THEOREMS.

`Multi.lean` runs a world of users: operations addressed to one user, driver passes that visit every user, snoop links,
and add_message re-entered from a snooper's `receive_snoop` (`writeW`).  Here it is proved, for every world, every list
of world operations and every user `k`:

  * `world_user_stream` - the events tagged `k` in the world trace (minus the snoop texts `k` receives as a snooper and
    the harness's `lpcerr` notes) are exactly the events of a SINGLE-USER run `runFrom s0 ops_k` of `k`'s own state, and
    `k`'s final state is the final state of that run.  So no operation on another user, no snoop link, no nested
    add_message from LPC code ever touches `k`'s ring except through add_message / flush_message / remove_interactive on
    `k` itself.
  * `multi_user_stream_ok` / `multi_model_satisfies_spec` - hence the specification oracle accepts every user's stream
    of every world run (the top theorem for several users, re-entrancy included).
  * `multi_delivered_is_stored` - and for every user the bytes accepted by its socket followed by its ring contents are
    the bytes stored for it, in order.
-/
import NV.C14.Multi
import NV.C14.LemmasTop
import NV.C14.PropsHist

namespace NV.C14

/-- events that concern the user's own ring: everything but snoop forwarding and the harness's error notes -/
def ringEv : Ev → Bool
  | .snoop _ _ => false
  | .lpcerr => false
  | .vreq _ => false
  | _ => true

/-- the stream of user `k`: the events tagged `k`, in trace order -/
def userEvs (k : Nat) (es : List TEv) : List Ev := (es.filter (fun e => e.1 == k)).map (·.2)

theorem userEvs_append (k : Nat) (a b : List TEv) : userEvs k (a ++ b) = userEvs k a ++ userEvs k b := by
  simp [userEvs]

theorem runFrom_append (s : St) (a b : List Op) :
    runFrom s (a ++ b) = ((runFrom (runFrom s a).1 b).1, (runFrom s a).2 ++ (runFrom (runFrom s a).1 b).2) := by
  induction a generalizing s with
  | nil => simp [runFrom]
  | cons op a ih => simp [runFrom, ih, List.append_assoc]

/-- the oracle ignores the non-ring events -/
theorem judgeFrom_filter_ringEv (j : J) (es : List Ev) : judgeFrom j (es.filter ringEv) = judgeFrom j es := by
  induction es generalizing j with
  | nil => rfl
  | cons e es ih =>
    by_cases h : ringEv e = true
    · rw [List.filter_cons_of_pos h, judgeFrom_cons, judgeFrom_cons, ih]
    · rw [List.filter_cons_of_neg h, judgeFrom_cons, ih]
      have : jstep j e = j := by
        cases e <;> first | rfl | exact absurd rfl h
      rw [this]

theorem userEvs_single (k t : Nat) (e : Ev) : userEvs k [(t, e)] = if t = k then [e] else [] := by
  by_cases h : t = k <;> simp [userEvs, h]

/-- one tagged event of user `u`, seen from user `k`'s ring stream -/
theorem userEvs_tag_one (k u : Nat) (e : Ev) :
    (userEvs k [tagEv u e]).filter ringEv = if u = k then [e].filter ringEv else [] := by
  cases e
  case snoop sn d =>
    show (userEvs k [(sn, Ev.snoop sn d)]).filter ringEv = _
    rw [userEvs_single]
    split <;> split <;> rfl
  all_goals
    show (userEvs k [(u, _)]).filter ringEv = _
    rw [userEvs_single]
    split <;> rfl

/-- own events keep their tag, except the snoop texts, which go to the snooper -/
theorem userEvs_tag_self (k : Nat) (evs : List Ev) :
    (userEvs k (evs.map (tagEv k))).filter ringEv = evs.filter ringEv := by
  induction evs with
  | nil => rfl
  | cons e evs ih =>
    have hc : userEvs k ((e :: evs).map (tagEv k)) = userEvs k [tagEv k e] ++ userEvs k (evs.map (tagEv k)) := by
      rw [← userEvs_append]; rfl
    rw [hc, List.filter_append, ih, userEvs_tag_one, if_pos rfl, ← List.filter_append]
    rfl

/-- the events of another user's step contribute nothing to `k`'s ring stream -/
theorem userEvs_tag_other {u k : Nat} (h : u ≠ k) (evs : List Ev) :
    (userEvs k (evs.map (tagEv u))).filter ringEv = [] := by
  induction evs with
  | nil => rfl
  | cons e evs ih =>
    have hc : userEvs k ((e :: evs).map (tagEv u)) = userEvs k [tagEv u e] ++ userEvs k (evs.map (tagEv u)) := by
      rw [← userEvs_append]; rfl
    rw [hc, List.filter_append, ih, userEvs_tag_one, if_neg h]
    rfl

/-! ### world accessors -/

theorem getU_setU_ne (w : World) {u k : Nat} (h : u ≠ k) (s : St) : getU (setU w u s) k = getU w k := by
  simp [getU, setU, List.getElem?_set, h]

theorem getU_lt {w : World} {k : Nat} {s : St} (h : getU w k = some s) : k < w.length := by
  unfold getU at h
  cases hk : w[k]? with
  | none => rw [hk] at h; cases h
  | some o => exact (List.getElem?_eq_some_iff.mp hk).1

theorem getU_setU_same (w : World) (k : Nat) (s : St) (h : k < w.length) : getU (setU w k s) k = some s := by
  simp [getU, setU, List.getElem?_set, h]

theorem dropSnooper_length (w : World) (u : Nat) : (dropSnooper w u).length = w.length := by simp [dropSnooper]

theorem setU_length (w : World) (u : Nat) (s : St) : (setU w u s).length = w.length := by simp [setU]

theorem getU_dropSnooper (w : World) (u k : Nat) :
    getU (dropSnooper w u) k
      = (getU w k).map (fun s => if s.snoopBy = some u then { s with snoopBy := none } else s) := by
  unfold getU dropSnooper
  rw [List.getElem?_map]
  cases w[k]? with
  | none => rfl
  | some o => cases o <;> rfl

/-! ### every user's stream is a single-user run -/

/-- user `k` started in state `s0`; its state in `w` and its ring stream in `es` are those of a single-user run -/
def Tracks (k : Nat) (s0 : St) (w : World) (es : List TEv) : Prop :=
  ∃ ops, getU w k = some (runFrom s0 ops).1 ∧ (userEvs k es).filter ringEv = (runFrom s0 ops).2.filter ringEv

/-- a world transition (new world, events emitted) that keeps `Tracks` -/
def PresAt (k : Nat) (s0 : St) (w : World) (r : World × List TEv) : Prop :=
  ∀ es, Tracks k s0 w es → Tracks k s0 r.1 (es ++ r.2)

theorem Tracks.extend {k : Nat} {s0 : St} {w : World} {es : List TEv} (h : Tracks k s0 w es) (w' : World)
    (new : List TEv)
    (hs : ∀ s, getU w k = some s → ∃ ops', getU w' k = some (runFrom s ops').1 ∧
      (userEvs k new).filter ringEv = (runFrom s ops').2.filter ringEv) :
    Tracks k s0 w' (es ++ new) := by
  obtain ⟨ops, h1, h2⟩ := h
  obtain ⟨ops', g1, g2⟩ := hs _ h1
  refine ⟨ops ++ ops', ?_, ?_⟩
  · rw [runFrom_append]; exact g1
  · rw [runFrom_append, userEvs_append, List.filter_append, List.filter_append, h2, g2]

theorem pres_id (k : Nat) (s0 : St) (w : World) : PresAt k s0 w (w, []) := by
  intro es h
  simpa using h

theorem pres_comp {k : Nat} {s0 : St} {w : World} {r r2 : World × List TEv} (h1 : PresAt k s0 w r)
    (h2 : PresAt k s0 r.1 r2) : PresAt k s0 w (r2.1, r.2 ++ r2.2) := by
  intro es h
  have := h2 _ (h1 _ h)
  simpa [List.append_assoc] using this

/-- events that are not ring events of `k` (an `lpcerr` note, snoop texts) -/
theorem pres_note (k : Nat) (s0 : St) (w : World) (new : List TEv)
    (hn : (userEvs k new).filter ringEv = []) : PresAt k s0 w (w, new) := by
  intro es h
  exact h.extend w new (fun s hs => ⟨[], by simpa [runFrom] using hs, by simpa [runFrom] using hn⟩)

theorem pres_dropSnooper (k : Nat) (s0 : St) (w : World) (u : Nat) : PresAt k s0 w (dropSnooper w u, []) := by
  intro es h
  refine h.extend _ [] (fun s hs => ?_)
  rw [getU_dropSnooper, hs]
  by_cases hc : s.snoopBy = some u
  · exact ⟨[.snoopBy none], by simp [hc, runFrom, step], rfl⟩
  · exact ⟨[], by simp [hc, runFrom], rfl⟩

theorem pres_setSnoop (k : Nat) (s0 : St) (w : World) (j : Nat) (sj : St) (x : Option Nat)
    (hj : getU w j = some sj) : PresAt k s0 w (setU w j { sj with snoopBy := x }, []) := by
  intro es h
  refine h.extend _ [] (fun s hs => ?_)
  by_cases hjk : j = k
  · subst hjk
    rw [hj] at hs
    cases hs
    exact ⟨[.snoopBy x], by rw [getU_setU_same _ _ _ (getU_lt hj)]; rfl, rfl⟩
  · exact ⟨[], by rw [getU_setU_ne _ hjk]; simpa [runFrom] using hs, rfl⟩

/-- the basic transition: a single-user `step` of user `u` (with the snoop links it severs when the user goes away) -/
theorem pres_stepAt (k : Nat) (s0 : St) (w : World) (u : Nat) (op : Op) : PresAt k s0 w (stepAt w u op) := by
  intro es h
  refine h.extend _ _ (fun s hs => ?_)
  unfold stepAt
  cases hu : getU w u with
  | none => exact ⟨[], by simpa [runFrom] using hs, rfl⟩
  | some su =>
    simp only []
    by_cases huk : u = k
    · subst huk
      rw [hu] at hs
      cases hs
      have hlt := getU_lt hu
      by_cases ht : ((step s op).1.closed && !s.closed) = true
      · rw [if_pos ht]
        refine ⟨[op, .snoopBy none], ?_, ?_⟩
        · rw [getU_setU_same]
          · rfl
          · rw [dropSnooper_length, setU_length]; exact hlt
        · rw [userEvs_tag_self]; simp [runFrom, step]
      · rw [if_neg ht]
        refine ⟨[op], ?_, ?_⟩
        · rw [getU_setU_same _ _ _ hlt]; rfl
        · rw [userEvs_tag_self]; simp [runFrom]
    · by_cases ht : ((step su op).1.closed && !su.closed) = true
      · rw [if_pos ht]
        rw [getU_setU_ne _ huk, getU_dropSnooper, getU_setU_ne _ huk, hs, userEvs_tag_other huk]
        by_cases hc : s.snoopBy = some u
        · exact ⟨[.snoopBy none], by simp [hc, runFrom, step], rfl⟩
        · exact ⟨[], by simp [hc, runFrom], rfl⟩
      · rw [if_neg ht]
        rw [getU_setU_ne _ huk, userEvs_tag_other huk]
        exact ⟨[], by simpa [runFrom] using hs, rfl⟩

theorem pres_stepEach (k : Nat) (s0 : St) (f : Nat → Op) :
    ∀ (us : List Nat) (w : World), PresAt k s0 w (stepEach f us w) := by
  intro us
  induction us with
  | nil => intro w; exact pres_id k s0 w
  | cons u us ih =>
    intro w
    exact pres_comp (pres_stepAt k s0 w u (f u)) (ih _)

/-- the (world, events) part of a result with an error flag -/
def pr (r : WR) : World × List TEv := (r.1, r.2.1)

theorem pres_andThen {k : Nat} {s0 : St} {w : World} {r : World × List TEv} {f : World → WR}
    (h1 : PresAt k s0 w r) (h2 : PresAt k s0 r.1 (pr (f r.1))) : PresAt k s0 w (pr (andThen r f)) :=
  pres_comp h1 h2

theorem pres_reactStep (k : Nat) (s0 : St) (rec : World → Nat → Bool → List Byte → WR)
    (hrec : ∀ w u v d, PresAt k s0 w (pr (rec w u v d))) (w : World) (b : Nat) (d : List Byte) :
    PresAt k s0 w (pr (reactStep rec w b d)) := by
  unfold reactStep
  cases getU w b with
  | none => exact pres_id k s0 w
  | some sb =>
    simp only []
    cases hr : sb.react with
    | nil => exact pres_id k s0 w
    | cons t ts =>
      simp only []
      refine pres_andThen (pres_stepAt k s0 w b .popReact) ?_
      cases t with
      | nop => exact pres_id k s0 _
      | err => exact pres_id k s0 _
      | echo =>
        simp only []
        split
        · exact hrec _ _ _ _
        · exact pres_id k s0 _
      | tell j =>
        simp only []
        split
        · exact hrec _ _ _ _
        · exact pres_id k s0 _
      | dest j =>
        simp only []
        split
        · exact pres_stepAt k s0 _ j .closeQ
        · exact pres_id k s0 _

/-- add_message as seen by the world - the call itself and everything the snooper's LPC code does in response, to any
depth - changes user `k` only through single-user steps of `k` -/
theorem pres_writeW (k : Nat) (s0 : St) :
    ∀ (fuel : Nat) (w : World) (u : Nat) (v : Bool) (d : List Byte), PresAt k s0 w (pr (writeW fuel w u v d)) := by
  intro fuel
  induction fuel with
  | zero => intro w u v d; exact pres_id k s0 w
  | succ fuel ih =>
    intro w u v d
    unfold writeW
    simp only []
    refine pres_andThen (pres_stepAt k s0 w u (.writeQ v d)) ?_
    split
    · exact pres_id k s0 _
    · exact pres_reactStep k s0 (writeW fuel) ih _ _ _

theorem pres_tactW (k : Nat) (s0 : St) (u : Nat) : ∀ (acts : List TAct) (w : World), PresAt k s0 w (tactW w u acts) := by
  intro acts
  induction acts with
  | nil => intro w; exact pres_id k s0 w
  | cons a r ih =>
    intro w
    exact pres_comp (pres_stepAt k s0 w u _) (ih _)

/-- the replies copy_chars writes while it decodes input change a user only through single-user steps of that user -/
theorem pres_inputW (k : Nat) (s0 : St) (u : Nat) :
    ∀ (bs : List Byte) (lm : Nat) (w : World), PresAt k s0 w (inputW w u bs lm) := by
  intro bs
  induction bs with
  | nil => intro lm w; exact pres_id k s0 w
  | cons b bs ih =>
    intro lm w
    unfold inputW
    cases getU w u with
    | none => exact pres_id k s0 w
    | some s =>
      simp only []
      have := pres_comp (pres_comp (pres_stepAt k s0 w u (.telSet (telByte lm s.tel b).tel ((telByte lm s.tel b).lm != lm)))
        (pres_tactW k s0 u (telByte lm s.tel b).acts _)) (ih (telByte lm s.tel b).lm _)
      simpa [List.append_assoc] using this

theorem pres_stepM (k : Nat) (s0 : St) (w : World) (op : MOp) : PresAt k s0 w (stepM w op) := by
  cases op with
  | on u o => exact pres_stepAt k s0 w u o
  | all o => exact pres_stepEach k s0 _ _ w
  | hangup u fin => exact pres_stepEach k s0 _ _ w
  | snoop a b =>
    simp only [stepM]
    cases ha : getU w a with
    | none => exact pres_id k s0 w
    | some sa =>
      cases hb : getU w b with
      | none => exact pres_id k s0 w
      | some sb =>
        simp only []
        split
        · exact pres_id k s0 w
        · cases hj : getU (dropSnooper w a) b with
          | none => exact pres_dropSnooper k s0 w a
          | some sj' =>
            simp only []
            have := pres_comp (pres_dropSnooper k s0 w a)
              (pres_setSnoop k s0 (dropSnooper w a) b sj' (some a) hj)
            simpa using this
  | unsnoop a =>
    simp only [stepM]
    cases getU w a with
    | none => exact pres_id k s0 w
    | some sa =>
      simp only []
      split
      · exact pres_id k s0 w
      · exact pres_dropSnooper k s0 w a
  | input u bs =>
    simp only [stepM]
    split
    · have h1 := pres_inputW k s0 u bs (lmNow w) w
      have h2 : PresAt k s0 (inputW w u bs (lmNow w)).1 ((inputW w u bs (lmNow w)).1,
          inputSnoopW (inputW w u bs (lmNow w)).1 u bs) := by
        apply pres_note
        unfold inputSnoopW
        split
        · rename_i b _
          by_cases hb : b = k <;> simp [userEvs, hb, ringEv]
        · rfl
      have h3 : PresAt k s0 (inputW w u bs (lmNow w)).1
          (if (getU w u).any (fun s => s.want) = true then stepAt (inputW w u bs (lmNow w)).1 u .flushQ
           else ((inputW w u bs (lmNow w)).1, [])) := by
        split
        · exact pres_stepAt k s0 _ u .flushQ
        · exact pres_id k s0 _
      have h4 := pres_stepEach k s0 (fun x => if x = u then Op.showSt else Op.wready) (List.range w.length)
        (if (getU w u).any (fun s => s.want) = true then stepAt (inputW w u bs (lmNow w)).1 u .flushQ
           else ((inputW w u bs (lmNow w)).1, [])).1
      exact pres_comp (pres_comp (pres_comp h1 h2) h3) h4
    · exact pres_stepEach k s0 _ _ w
  | writeR u v d =>
    simp only [stepM]
    have h0 : PresAt k s0 w (w, if v = true then [(u, Ev.vreq d)] else []) := by
      apply pres_note
      split
      · by_cases hu : u = k <;> simp [userEvs, hu, ringEv]
      · rfl
    have h1 := pres_writeW k s0 (fuelOf w) w u v d
    have h2 : PresAt k s0 (writeW (fuelOf w) w u v d).1
        ((writeW (fuelOf w) w u v d).1, if (writeW (fuelOf w) w u v d).2.2 = true then [] else [(u, Ev.lpcerr)]) := by
      apply pres_note
      split
      · rfl
      · by_cases hu : u = k <;> simp [userEvs, hu, ringEv]
    have h3 := pres_stepEach k s0 (fun _ => Op.showSt) (List.range w.length) (writeW (fuelOf w) w u v d).1
    have := pres_comp (pres_comp (pres_comp h0 h1) h2) h3
    simpa [pr, List.append_assoc] using this

theorem pres_runM (k : Nat) (s0 : St) : ∀ (ops : List MOp) (w : World), PresAt k s0 w (runM w ops) := by
  intro ops
  induction ops with
  | nil => intro w; exact pres_id k s0 w
  | cons op ops ih =>
    intro w
    exact pres_comp (pres_stepM k s0 w op) (ih _)

/-- **Routing.**  For every world, every list of world operations (single-user operations, driver passes over all users,
snoop links set / replaced / refused / cleared, add_message with re-entrant snooper reactions) and every user `k`: the
events tagged `k` - snoop texts received and error notes aside - are exactly the events of one single-user run of `k`'s
own state, and `k`'s final state is the final state of that run. -/
theorem world_user_stream (w : World) (ops : List MOp) (k : Nat) (s0 : St) (h : getU w k = some s0) :
    ∃ opsk, getU (runM w ops).1 k = some (runFrom s0 opsk).1 ∧
      (userEvs k (runM w ops).2).filter ringEv = (runFrom s0 opsk).2.filter ringEv := by
  have := pres_runM k s0 ops w [] ⟨[], by simpa [runFrom] using h, rfl⟩
  simpa [Tracks] using this

/-- the oracle accepts user `k`'s stream of every world run, from any state that satisfies the single-user invariant
(`j` = the oracle's state for the stream so far); the invariant holds again afterwards, so runs compose -/
theorem multi_user_stream_ok (w : World) (ops : List MOp) (k : Nat) (s0 : St) (j : J) (h : getU w k = some s0)
    (hgi : GInv s0) (hr : Rel s0 none j) :
    ∃ s', getU (runM w ops).1 k = some s' ∧ GInv s' ∧ Rel s' none (judgeFrom j (userEvs k (runM w ops).2)) := by
  obtain ⟨opsk, h1, h2⟩ := world_user_stream w ops k s0 h
  obtain ⟨a, b⟩ := runFrom_spec opsk s0 j hgi hr
  refine ⟨_, h1, a, ?_⟩
  rw [← judgeFrom_filter_ringEv, h2, judgeFrom_filter_ringEv]
  exact b

/-- **Top theorem for several users**: in a world run, the stream of every user that started as a fresh connection
satisfies the specification oracle - whatever the other users do, whoever snoops whom, whatever the snoopers' LPC code
writes, destructs or raises from inside add_message. -/
theorem multi_model_satisfies_spec (w : World) (ops : List MOp) (k : Nat) (script : List SendRes) (console : Bool)
    (h : getU w k = some (St.init script console)) : judgeEv (userEvs k (runM w ops).2) = [] := by
  obtain ⟨_, _, _, hr⟩ := multi_user_stream_ok w ops k _ {} h (init_ginv script console) (init_rel script console)
  unfold judgeEv
  rw [hr.bad]; rfl

/-- in a world run, for every user: bytes accepted by its socket followed by its ring contents = bytes stored for it -/
theorem multi_delivered_is_stored (w : World) (ops : List MOp) (k : Nat) (script : List SendRes) (console : Bool)
    (h : getU w k = some (St.init script console)) :
    ∃ s', getU (runM w ops).1 k = some s' ∧ HistEq s' := by
  obtain ⟨opsk, h1, _⟩ := world_user_stream w ops k _ h
  exact ⟨_, h1, sent_then_ring_is_stored script opsk console⟩

/-- non-vacuity: user 2 snoops user 1 and echoes; user 1's stream and user 2's stream are both judged -/
example : judgeEv (userEvs 2 (runM [none, some (St.init [.wouldBlock] false), some (St.init [] false)]
    [.snoop 2 1, .on 2 (.react [.echo, .dest 1]), .writeR 1 false [104, 10], .writeR 1 true [65], .all .cycle]).2) = [] :=
  multi_model_satisfies_spec _ _ 2 [] false rfl

end NV.C14
