/-
C14 — the formatting clause of the oracle (`judgeFmt`, Spec.lean) holds for the model: add_vmessage formats with vasprintf,
so the text it stores (`wbeg true d`) is byte for byte the text it was asked to format (`vreq d`), for every length.
-/
import NV.C14.Spec

namespace NV.C14

/-- no formatting request among these events -/
def NoReq (es : List Ev) : Prop := ∀ e ∈ es, ∀ d, e ≠ Ev.vreq d

theorem NoReq.nil : NoReq [] := fun _ h => by cases h

theorem NoReq.append {a b : List Ev} (ha : NoReq a) (hb : NoReq b) : NoReq (a ++ b) := by
  intro e he
  rcases List.mem_append.mp he with h | h
  · exact ha e h
  · exact hb e h

theorem NoReq.cons {e : Ev} {es : List Ev} (he : ∀ d, e ≠ Ev.vreq d) (hs : NoReq es) : NoReq (e :: es) := by
  intro x hx
  rcases List.mem_cons.mp hx with rfl | h
  · exact he
  · exact hs x h

/-- events without a request leave the formatting clause where it is -/
theorem fold_noReq {es : List Ev} (h : NoReq es) : es.foldl fstep (none, []) = (none, []) := by
  induction es with
  | nil => rfl
  | cons e es ih =>
    have he := h e (List.mem_cons_self ..)
    have hs : NoReq es := fun x hx => h x (List.mem_cons_of_mem _ hx)
    have h1 : fstep (none, []) e = (none, []) := by
      cases e <;> first | rfl | exact absurd rfl (he _)
    rw [List.foldl_cons, h1]
    exact ih hs

/-- what one iteration of the send loop emits -/
def outcomeNoReq : Outcome → Prop
  | .cont _ ev => ∀ d, ev ≠ Ev.vreq d
  | .stop _ evs _ => NoReq evs

theorem sendStep_noReq (s : St) : outcomeNoReq (sendStep s) := by
  by_cases h0 : s.len = 0
  · simp [sendStep, h0, outcomeNoReq, NoReq]
  · by_cases h1 : chunkLen s = 0 ∨ N < s.cons + chunkLen s ∨ s.len < chunkLen s
    · simp [sendStep, h0, h1, outcomeNoReq, NoReq]
    · cases hp : (pop s.script).1 with
      | acc k => simp [sendStep, h0, h1, hp, outcomeNoReq]
      | wouldBlock => by_cases hk : keepsData SendRes.wouldBlock.errno = true <;> simp [sendStep, h0, h1, hp, hk, outcomeNoReq, NoReq]
      | intr => by_cases hk : keepsData SendRes.intr.errno = true <;> simp [sendStep, h0, h1, hp, hk, outcomeNoReq, NoReq]
      | pipe => by_cases hk : keepsData SendRes.pipe.errno = true <;> simp [sendStep, h0, h1, hp, hk, outcomeNoReq, NoReq]
      | err e => by_cases hk : keepsData (SendRes.err e).errno = true <;> simp [sendStep, h0, h1, hp, hk, outcomeNoReq, NoReq]

theorem flushLoop_noReq : ∀ (fuel : Nat) (s : St), NoReq (flushLoop fuel s).2.1 := by
  intro fuel
  induction fuel with
  | zero => intro s; exact NoReq.cons (fun d hx => by cases hx) NoReq.nil
  | succ fuel ih =>
    intro s
    unfold flushLoop
    have h := sendStep_noReq s
    cases hs : sendStep s with
    | stop s' evs ok => rw [hs] at h; exact h
    | cont s' ev => rw [hs] at h; exact NoReq.cons h (ih s')

theorem flushMsg_noReq (s : St) : NoReq (flushMsg s).2.1 := by
  unfold flushMsg
  split
  · exact NoReq.nil
  · exact flushLoop_noReq _ _

theorem guardFull_noReq (s : St) (thr : Nat) : NoReq (guardFull s thr).2.1 := by
  unfold guardFull
  split
  · dsimp only
    split
    · exact flushMsg_noReq s
    · split <;> exact flushMsg_noReq s
  · exact NoReq.nil

theorem addLoop_noReq : ∀ (data : List Byte) (s : St), NoReq (addLoop data s).2.1 := by
  intro data
  induction data with
  | nil => intro s; exact NoReq.nil
  | cons c cs ih =>
    intro s
    unfold addLoop
    dsimp only
    split
    · split
      · exact NoReq.append (NoReq.append (guardFull_noReq _ _) (by split <;> first | exact guardFull_noReq _ _ | exact NoReq.nil)) (ih _)
      · exact NoReq.append (guardFull_noReq _ _) (by split <;> first | exact guardFull_noReq _ _ | exact NoReq.nil)
    · exact guardFull_noReq _ _

theorem snoopEvs_noReq (s : St) (d : List Byte) : NoReq (snoopEvs s d) := by
  unfold snoopEvs
  split
  · exact NoReq.nil
  · exact NoReq.cons (fun d hx => by cases hx) NoReq.nil

theorem single_noReq {e : Ev} (h : ∀ d, e ≠ Ev.vreq d) : NoReq [e] := NoReq.cons h NoReq.nil

/-- add_message / add_vmessage: the first event is the `wbeg` with the text as it will be stored, nothing after it is a request -/
theorem addMessage_shape (v : Bool) (d : List Byte) (s : St) :
    ∃ rest, (addMessage v d s).2 = Ev.wbeg v d :: rest ∧ NoReq rest := by
  unfold addMessage
  split
  · exact ⟨[.wend], rfl, single_noReq (fun _ hx => by cases hx)⟩
  · dsimp only
    split
    · refine ⟨_, rfl, ?_⟩
      refine NoReq.append (NoReq.append (NoReq.append (addLoop_noReq _ _) ?_) (single_noReq (fun _ hx => by cases hx)))
        (snoopEvs_noReq _ _)
      split
      · exact flushMsg_noReq _
      · exact NoReq.nil
    · split
      · refine ⟨_, rfl, ?_⟩
        refine NoReq.append (NoReq.append (NoReq.append (addLoop_noReq _ _) ?_) (single_noReq (fun _ hx => by cases hx))) ?_
        · split
          · exact NoReq.nil
          · exact flushMsg_noReq _
        · split
          · exact NoReq.nil
          · exact snoopEvs_noReq _ _
      · refine ⟨_, rfl, ?_⟩
        refine NoReq.append (NoReq.append (addLoop_noReq _ _) (single_noReq (fun _ hx => by cases hx))) ?_
        split
        · exact NoReq.nil
        · exact snoopEvs_noReq _ _

theorem addMessage_noReq (v : Bool) (d : List Byte) (s : St) : NoReq (addMessage v d s).2 := by
  obtain ⟨rest, h, hr⟩ := addMessage_shape v d s
  rw [h]
  exact NoReq.cons (fun _ hx => by cases hx) hr

theorem stEv_noReq (s : St) : NoReq [stEv s] := by
  unfold stEv
  split <;> exact single_noReq (fun _ hx => by cases hx)

theorem viaFlush_noReq (s : St) : NoReq ((flushMsg s).2.1 ++ [stEv (flushMsg s).1]) :=
  NoReq.append (flushMsg_noReq s) (stEv_noReq _)

/-- every operation leaves the formatting clause satisfied -/
theorem step_fmt (s : St) (op : Op) : (step s op).2.foldl fstep (none, []) = (none, []) := by
  cases op with
  | write v d =>
    obtain ⟨rest, h, hr⟩ := addMessage_shape v d s
    simp only [step]
    rw [h]
    cases v with
    | false =>
      exact fold_noReq (NoReq.append (NoReq.cons (fun _ hx => by cases hx) hr) (stEv_noReq _))
    | true =>
      have h1 : fstep (fstep (none, []) (Ev.vreq d)) (Ev.wbeg true d) = (none, []) := by
        simp [fstep]
      simp only [if_true, List.cons_append, List.nil_append, List.foldl_cons]
      rw [h1]
      exact fold_noReq (NoReq.append hr (stEv_noReq _))
  | sendres rs => rfl
  | flush => simp only [step]; split <;> first | exact fold_noReq (stEv_noReq _) | exact fold_noReq (viaFlush_noReq _)
  | cycle => simp only [step]; split <;> first | exact fold_noReq (stEv_noReq _) | exact fold_noReq (viaFlush_noReq _)
  | wready => simp only [step]; split <;> first | exact fold_noReq (stEv_noReq _) | exact fold_noReq (viaFlush_noReq _)
  | close =>
    simp only [step]
    split
    · exact fold_noReq (stEv_noReq _)
    · exact fold_noReq (NoReq.append (flushMsg_noReq _)
        (NoReq.cons (fun _ hx => by cases hx) (single_noReq (fun _ hx => by cases hx))))
  | peerfin =>
    simp only [step]
    split
    · exact fold_noReq (stEv_noReq _)
    · exact fold_noReq (NoReq.cons (fun _ hx => by cases hx) (single_noReq (fun _ hx => by cases hx)))
  | dump => exact fold_noReq (single_noReq (fun _ hx => by cases hx))
  | snoopBy k => rfl
  | writeQ v d => exact fold_noReq (addMessage_noReq v d s)
  | closeQ =>
    simp only [step]
    split
    · rfl
    · exact fold_noReq (NoReq.append (flushMsg_noReq _) (single_noReq (fun _ hx => by cases hx)))
  | showSt => exact fold_noReq (stEv_noReq _)
  | react rs => rfl
  | popReact => rfl
  | setTelnet => rfl
  | flushQ =>
    simp only [step]
    split
    · rfl
    · exact fold_noReq (flushMsg_noReq _)
  | telSet t lm => rfl

theorem runFrom_fmt : ∀ (ops : List Op) (s : St), (runFrom s ops).2.foldl fstep (none, []) = (none, []) := by
  intro ops
  induction ops with
  | nil => intro s; rfl
  | cons op ops ih =>
    intro s
    simp only [runFrom]
    rw [List.foldl_append, step_fmt, ih]

/-- **Formatting clause.**  For every script and every list of operations the model's trace satisfies `judgeFmt`: whatever
its length, the text add_vmessage stores is exactly the text it was asked to format. -/
theorem model_formats_exactly (script : List SendRes) (ops : List Op) (console : Bool := false) :
    judgeFmt (events (run script ops console)) = [] := by
  unfold judgeFmt events run
  rw [runFrom_fmt]
  rfl

/-- the clause is not vacuous: a formatting step that drops the last byte of the text is rejected -/
example : judgeFmt [.vreq [65, 66], .wbeg true [65], .wend] ≠ [] := by decide

/-- ... and so is a request that never reaches the ring code -/
example : judgeFmt [.vreq [65, 66], .wend] ≠ [] := by decide

end NV.C14
