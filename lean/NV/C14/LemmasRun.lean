/-
C14 — from the send loop up to whole runs: guards, the write loop, add_message / add_vmessage, every operation.
-/
import NV.C14.LemmasFlush

namespace NV.C14

theorem N_ge_two : 2 ≤ N := by decide

theorem flushMsg_alive {s : St} (hg : s.gone = false) : flushMsg s = flushLoop (s.len + 1) s := by
  unfold flushMsg; simp [hg]

theorem flushMsg_gone {s : St} (hg : s.gone = true) : flushMsg s = (s, [], false) := by
  unfold flushMsg; simp [hg]

theorem putItem_spec {s : St} (h : Inv s) (c : Byte) (hl : s.len + itemLen c ≤ N) :
    Inv (putItem s c) ∧ contents (putItem s c) = contents s ++ item c ∧ (putItem s c).len = s.len + itemLen c ∧
    (putItem s c).gone = s.gone ∧ (putItem s c).closed = s.closed ∧ (putItem s c).sentR = s.sentR ∧
    (putItem s c).histR = (item c).reverse ++ s.histR := by
  unfold putItem itemLen item at *
  by_cases hc : c = LF
  · simp only [hc, if_true] at hl ⊢
    have h1 := put_inv h (by omega) CR
    have l1 : (put s CR).len = s.len + 1 := put_len h CR
    have h2 := put_inv h1 (by omega) LF
    refine ⟨h2, ?_, ?_, ?_, ?_, ?_, ?_⟩
    · rw [put_contents h1 (by omega), put_contents h (by omega)]; simp
    · rw [put_len h1, l1]
    · simp
    · simp
    · simp
    · rw [put_histR h1, put_histR h]; rfl
  · simp only [hc, if_false] at hl ⊢
    refine ⟨put_inv h (by omega) c, put_contents h (by omega) c, put_len h c, ?_, ?_, ?_, ?_⟩
    · simp
    · simp
    · simp
    · rw [put_histR h]; rfl

/-- storing the head item on the model side = the oracle had already taken it -/
theorem RelF.put {s : St} {c : Byte} {cs : List Byte} {j : J} (h : Inv s) (hr : RelF s (c :: cs) j)
    (hl : s.len + itemLen c ≤ N) : RelF (putItem s c) cs j := by
  obtain ⟨_, hc, hlen, hgone, _, _, _⟩ := putItem_spec h c hl
  refine ⟨hr.bad, by rw [hgone]; exact hr.dead, fun hg => ?_⟩
  rw [hgone] at hg
  obtain ⟨a, b, p⟩ := hr.q hg
  have hfit : itemLen c ≤ N - s.len := by omega
  rw [fit_cons_fits hfit] at a b
  have e : N - (putItem s c).len = N - s.len - itemLen c := by rw [hlen]; omega
  rw [e, hc]
  exact ⟨by rw [a]; simp, b, p⟩

theorem guardFull_ne {s : St} {thr : Nat} (hl : s.len ≠ thr) : guardFull s thr = (s, [], .go) := by
  unfold guardFull; simp [hl]

theorem guardFull_ret {s : St} {thr : Nat} (hl : s.len = thr) (h : (flushMsg s).2.2 = false) :
    guardFull s thr = ((flushMsg s).1, (flushMsg s).2.1, .ret) := by
  unfold guardFull; simp [hl, h]

theorem guardFull_brk {s : St} {thr : Nat} (hl : s.len = thr) (h : (flushMsg s).2.2 = true)
    (h2 : (flushMsg s).1.len = thr) : guardFull s thr = ((flushMsg s).1, (flushMsg s).2.1, .brk) := by
  unfold guardFull; simp [hl, h, h2]

theorem guardFull_go {s : St} {thr : Nat} (hl : s.len = thr) (h : (flushMsg s).2.2 = true)
    (h2 : (flushMsg s).1.len ≠ thr) : guardFull s thr = ((flushMsg s).1, (flushMsg s).2.1, .go) := by
  unfold guardFull; simp [hl, h, h2]

/-- the guard in front of storing item `c`: flush when it does not fit -/
theorem guardFull_spec {s : St} {j : J} {c : Byte} {cs : List Byte} {thr : Nat} (h : Inv s) (hg : s.gone = false)
    (hr : RelF s (c :: cs) j) (hthr : ¬ itemLen c ≤ N - thr) (hthr0 : thr ≠ 0) :
    StepPost s (guardFull s thr).1 ∧
    ((guardFull s thr).2.2 = .go → (guardFull s thr).1.gone = false ∧ (guardFull s thr).1.len ≠ thr ∧
        RelF (guardFull s thr).1 (c :: cs) (judgeFrom j (guardFull s thr).2.1)) ∧
    ((guardFull s thr).2.2 = .brk → (guardFull s thr).1.gone = false ∧
        Rel (guardFull s thr).1 (some []) (judgeFrom j (guardFull s thr).2.1)) ∧
    ((guardFull s thr).2.2 = .ret → (guardFull s thr).1.gone = true ∧
        (judgeFrom j (guardFull s thr).2.1).bad = [] ∧ (judgeFrom j (guardFull s thr).2.1).dead = true) := by
  by_cases hl : s.len = thr
  · have hfull : ¬ itemLen c ≤ N - s.len := by rw [hl]; exact hthr
    obtain ⟨hrel, hprog⟩ := hr.toRel_full hfull
    obtain ⟨p1, p2, p3, p4⟩ := flushLoop_active c cs (s.len + 1) s j h hg (Nat.lt_succ_self _) (by omega) hrel
    rw [← flushMsg_alive hg] at p1 p2 p3 p4
    cases hok : (flushMsg s).2.2 with
    | false =>
      rw [guardFull_ret hl hok]
      rw [hok] at p2
      obtain ⟨b1, b2⟩ := p4 hok
      exact ⟨p1, (fun hc => by cases hc), (fun hc => by cases hc), (fun _ => ⟨by simpa using p2, b1, b2⟩)⟩
    | true =>
      rw [hok] at p2
      obtain ⟨q1, q2⟩ := p3 hok
      have hgf : (flushMsg s).1.gone = false := by simpa using p2
      by_cases hlt : (flushMsg s).1.len = thr
      · rw [guardFull_brk hl hok hlt]
        exact ⟨p1, (fun hc => by cases hc), (fun _ => ⟨hgf, q2 (by omega) (hprog hg)⟩), (fun hc => by cases hc)⟩
      · rw [guardFull_go hl hok hlt]
        have := p1.len_le
        exact ⟨p1, (fun _ => ⟨hgf, hlt, q1 (Or.inl (by omega))⟩), (fun hc => by cases hc), (fun hc => by cases hc)⟩
  · rw [guardFull_ne hl]
    exact ⟨StepPost.refl h, (fun _ => ⟨hg, hl, hr⟩), (fun hc => by cases hc), (fun hc => by cases hc)⟩

/-- the second guard of the loop body, written as in `addLoop` -/
def guard2 (c : Byte) (s : St) : St × List Ev × Go :=
  if c = LF then guardFull s (N - 1) else (s, [], .go)

theorem addLoop_cons (c : Byte) (cs : List Byte) (s : St) :
    addLoop (c :: cs) s =
      match (guardFull s N).2.2 with
      | .go =>
        match (guard2 c (guardFull s N).1).2.2 with
        | .go =>
          ((addLoop cs (putItem (guard2 c (guardFull s N).1).1 c)).1,
           (guardFull s N).2.1 ++ (guard2 c (guardFull s N).1).2.1 ++
             (addLoop cs (putItem (guard2 c (guardFull s N).1).1 c)).2.1,
           (addLoop cs (putItem (guard2 c (guardFull s N).1).1 c)).2.2)
        | g => ((guard2 c (guardFull s N).1).1, (guardFull s N).2.1 ++ (guard2 c (guardFull s N).1).2.1, g)
      | g => ((guardFull s N).1, (guardFull s N).2.1, g) := by
  rw [addLoop]
  simp only [thrFull_eq, thrLF_eq]
  rfl

theorem guard2_spec {s : St} {j : J} {c : Byte} {cs : List Byte} (h : Inv s) (hg : s.gone = false)
    (hr : RelF s (c :: cs) j) (hlen : s.len ≠ N) :
    StepPost s (guard2 c s).1 ∧
    ((guard2 c s).2.2 = .go → (guard2 c s).1.gone = false ∧ (guard2 c s).1.len + itemLen c ≤ N ∧
        RelF (guard2 c s).1 (c :: cs) (judgeFrom j (guard2 c s).2.1)) ∧
    ((guard2 c s).2.2 = .brk → (guard2 c s).1.gone = false ∧
        Rel (guard2 c s).1 (some []) (judgeFrom j (guard2 c s).2.1)) ∧
    ((guard2 c s).2.2 = .ret → (guard2 c s).1.gone = true ∧
        (judgeFrom j (guard2 c s).2.1).bad = [] ∧ (judgeFrom j (guard2 c s).2.1).dead = true) := by
  have hN := N_ge_two
  have hle := h.len_le
  unfold guard2
  by_cases hc : c = LF
  · rw [if_pos hc]
    have hil : itemLen c = 2 := by simp [itemLen, hc]
    obtain ⟨p1, p2, p3, p4⟩ := guardFull_spec (thr := N - 1) h hg hr (by rw [hil]; omega) (by omega)
    refine ⟨p1, fun hgo => ?_, p3, p4⟩
    obtain ⟨a, b, c'⟩ := p2 hgo
    have := p1.len_le
    exact ⟨a, by rw [hil]; omega, c'⟩
  · rw [if_neg hc]
    have hil : itemLen c = 1 := by simp [itemLen, hc]
    exact ⟨StepPost.refl h, (fun _ => ⟨hg, by rw [hil]; show s.len + 1 ≤ N; omega, hr⟩), (fun hc => by cases hc),
           (fun hc => by cases hc)⟩

/-- the write loop against the oracle: whatever the outcome, the oracle ends up holding exactly the ring contents -/
theorem addLoop_spec : ∀ (data : List Byte) (s : St) (j : J), Inv s → s.gone = false → RelF s data j →
    Inv (addLoop data s).1 ∧ (addLoop data s).1.closed = s.closed ∧
    ((addLoop data s).2.2 = .ret → (addLoop data s).1.gone = true) ∧
    ((addLoop data s).2.2 ≠ .ret → (addLoop data s).1.gone = false) ∧
    Rel (addLoop data s).1 (some []) (judgeFrom j (addLoop data s).2.1) := by
  intro data
  induction data with
  | nil =>
    intro s j h hg hr
    simp only [addLoop, judgeFrom_nil]
    exact ⟨h, trivial, (fun hc => by cases hc), (fun _ => hg), hr.toRel_nil⟩
  | cons c cs ih =>
    intro s j h hg hr
    rw [addLoop_cons]
    have hN := N_ge_two
    obtain ⟨p1, p2, p3, p4⟩ := guardFull_spec (thr := N) h hg hr
      (by have := itemLen_pos c; omega) (by omega)
    cases hg1 : (guardFull s N).2.2 with
    | go =>
      obtain ⟨a1, a2, a3⟩ := p2 hg1
      obtain ⟨q1, q2, q3, q4⟩ := guard2_spec p1.inv a1 a3 a2
      simp only []
      cases hg2 : (guard2 c (guardFull s N).1).2.2 with
      | go =>
        obtain ⟨b1, b2, b3⟩ := q2 hg2
        simp only []
        have hput := putItem_spec q1.inv c b2
        have hrf := b3.put q1.inv b2
        obtain ⟨r1, r2, r3, r4, r5⟩ := ih (putItem (guard2 c (guardFull s N).1).1 c)
          (judgeFrom (judgeFrom j (guardFull s N).2.1) (guard2 c (guardFull s N).1).2.1)
          hput.1 (by rw [hput.2.2.2.1]; exact b1) hrf
        refine ⟨r1, ?_, r3, r4, ?_⟩
        · rw [r2, hput.2.2.2.2.1, q1.closed, p1.closed]
        · rw [judgeFrom_append, judgeFrom_append]; exact r5
      | brk =>
        obtain ⟨b1, b2⟩ := q3 hg2
        simp only []
        refine ⟨q1.inv, by rw [q1.closed, p1.closed], (fun hc => by cases hc), (fun _ => b1), ?_⟩
        rw [judgeFrom_append]; exact b2
      | ret =>
        obtain ⟨b1, b2, b3⟩ := q4 hg2
        simp only []
        refine ⟨q1.inv, by rw [q1.closed, p1.closed], fun _ => b1, fun hc => absurd rfl hc, ?_⟩
        rw [judgeFrom_append]
        exact ⟨b2, by rw [b3, b1], fun hx => by rw [b1] at hx; cases hx⟩
    | brk =>
      obtain ⟨b1, b2⟩ := p3 hg1
      simp only []
      exact ⟨p1.inv, p1.closed, (fun hc => by cases hc), (fun _ => b1), b2⟩
    | ret =>
      obtain ⟨b1, b2, b3⟩ := p4 hg1
      simp only []
      exact ⟨p1.inv, p1.closed, fun _ => b1, fun hc => absurd rfl hc,
             ⟨b2, by rw [b3, b1], fun hx => by rw [b1] at hx; cases hx⟩⟩

end NV.C14
