/-
C14 — lemmas about the reference semantics (`item`, `expand`, `fit`) of the oracle.
-/
import NV.C14.Spec

namespace NV.C14

theorem item_length (c : Byte) : (item c).length = itemLen c := by
  unfold item itemLen; split <;> rfl

theorem itemLen_pos (c : Byte) : 1 ≤ itemLen c := by
  unfold itemLen; split <;> omega

theorem itemLen_le_two (c : Byte) : itemLen c ≤ 2 := by
  unfold itemLen; split <;> omega

theorem expand_append (a b : List Byte) : expand (a ++ b) = expand a ++ expand b := by
  induction a with
  | nil => rfl
  | cons c cs ih => simp [expand, ih]

theorem fit_nil (room : Nat) : fit room [] = ([], []) := by unfold fit; rfl

theorem fit_cons_fits {room : Nat} {c : Byte} (h : itemLen c ≤ room) (cs : List Byte) :
    fit room (c :: cs) = (item c ++ (fit (room - itemLen c) cs).1, (fit (room - itemLen c) cs).2) := by
  rw [fit]; simp [h]

theorem fit_cons_full {room : Nat} {c : Byte} (h : ¬ itemLen c ≤ room) (cs : List Byte) :
    fit room (c :: cs) = ([], c :: cs) := by
  rw [fit]; simp [h]

/-- what fits never exceeds the room -/
theorem fit_length_le (room : Nat) (d : List Byte) : (fit room d).1.length ≤ room := by
  induction d generalizing room with
  | nil => simp [fit_nil]
  | cons c cs ih =>
    by_cases h : itemLen c ≤ room
    · rw [fit_cons_fits h]
      have := ih (room - itemLen c)
      simp [item_length]
      omega
    · rw [fit_cons_full h]; simp

/-- `fit` can be resumed: filling `room + extra` is filling `room`, then filling what became free -/
theorem fit_resume (room extra : Nat) (d : List Byte) :
    fit (room + extra) d =
      ((fit room d).1 ++ (fit (room - (fit room d).1.length + extra) (fit room d).2).1,
       (fit (room - (fit room d).1.length + extra) (fit room d).2).2) := by
  induction d generalizing room with
  | nil => simp [fit_nil]
  | cons c cs ih =>
    by_cases h : itemLen c ≤ room
    · have h' : itemLen c ≤ room + extra := by omega
      rw [fit_cons_fits h', fit_cons_fits h]
      have e1 : room + extra - itemLen c = (room - itemLen c) + extra := by omega
      rw [e1, ih (room - itemLen c)]
      have e2 : room - (item c ++ (fit (room - itemLen c) cs).1).length
                  = room - itemLen c - (fit (room - itemLen c) cs).1.length := by
        simp [item_length]; omega
      simp only [e2, List.append_assoc]
    · rw [fit_cons_full h]
      simp

/-- the kept part is the wire image of a prefix of the text, the rest is the matching suffix -/
theorem fit_prefix (room : Nat) (d : List Byte) :
    ∃ n, n ≤ d.length ∧ (fit room d).1 = expand (d.take n) ∧ (fit room d).2 = d.drop n := by
  induction d generalizing room with
  | nil => exact ⟨0, by simp [fit_nil, expand]⟩
  | cons c cs ih =>
    by_cases h : itemLen c ≤ room
    · obtain ⟨n, hn, h1, h2⟩ := ih (room - itemLen c)
      refine ⟨n + 1, by simp; omega, ?_, ?_⟩
      · rw [fit_cons_fits h]; simp [expand, h1]
      · rw [fit_cons_fits h]; simp [h2]
    · exact ⟨0, by simp, by rw [fit_cons_full h]; simp [expand], by rw [fit_cons_full h]; simp⟩

end NV.C14
