/-
C14 — oracle audit: traces the specification oracle must REJECT, several per clause (`judgeEv ... ≠ []`), and a few it must
accept, so that no clause is vacuous.  Bytes: 65 = 'A', 66 = 'B', 10 = LF, 13 = CR.  `st want p c l dead`.
-/
import NV.C14.Spec

namespace NV.C14

/-! ### delivered-mismatch: order, exactly once, nothing invented, LF as CR LF -/
example : judgeEv [.wbeg false [65, 66], .wend, .send 2 .acc [66, 65]] ≠ [] := by decide            -- reordered
example : judgeEv [.wbeg false [65], .wend, .send 1 .acc [65], .send 1 .acc [65]] ≠ [] := by decide -- duplicated
example : judgeEv [.wbeg false [65], .wend, .send 1 .acc [66]] ≠ [] := by decide                     -- invented
example : judgeEv [.wbeg false [65, 10], .wend, .send 2 .acc [65, 10]] ≠ [] := by decide             -- LF without CR
example : judgeEv [.wbeg false [10], .wend, .send 2 .acc [10, 13]] ≠ [] := by decide                 -- LF CR instead of CR LF
example : judgeEv [.wbeg false [65], .wend, .wbeg false [66], .wend, .send 1 .acc [66]] ≠ [] := by decide -- first message skipped
example : judgeEv [.send 1 .acc [65]] ≠ [] := by decide                                               -- nothing was written

/-! ### bad-accept / offered-more-than-owed -/
example : judgeEv [.wbeg false [65], .wend, .send 1 .acc []] ≠ [] := by decide                       -- accepted nothing
example : judgeEv [.wbeg false [65, 66], .wend, .send 1 .acc [65, 66]] ≠ [] := by decide             -- more than offered
example : judgeEv [.wbeg false [65], .wend, .send 2 .wouldBlock []] ≠ [] := by decide                -- offers 2, owes 1
example : judgeEv [.send 1 .intr []] ≠ [] := by decide                                                -- offers from an empty queue

/-! ### send-after-close: EPIPE / other errno / close / peer EOF end the connection -/
example : judgeEv [.wbeg false [65], .wend, .send 1 .pipe [], .send 1 .acc [65]] ≠ [] := by decide
example : judgeEv [.wbeg false [65], .wend, .send 1 (.err 104) [], .send 1 .wouldBlock []] ≠ [] := by decide
example : judgeEv [.wbeg false [65], .wend, .close, .send 1 .acc [65]] ≠ [] := by decide
/-- but EWOULDBLOCK / EINTR (also given as a plain errno) keep the connection: the same continuation is accepted -/
example : judgeEv [.wbeg false [65], .wend, .send 1 (.err NV.Gen.C14.eIntr) [], .send 1 .acc [65]] = [] := by decide
example : judgeEv [.wbeg false [65], .wend, .send 1 .wouldBlock [], .send 1 .acc [65]] = [] := by decide

/-! ### pending-count-mismatch: bytes lost (or kept) that the reference does not lose (keep) -/
example : judgeEv [.wbeg false [65, 66], .wend, .st true 1 0 1 false] ≠ [] := by decide     -- a byte lost while open and not full
example : judgeEv [.wbeg false [65], .wend, .st true 0 0 0 false] ≠ [] := by decide         -- the whole message lost
example : judgeEv [.wbeg false [10], .wend, .st true 1 0 1 false] ≠ [] := by decide         -- half of a CR LF pair kept
example : judgeEv [.wbeg false [65], .wend, .st true 2 0 2 false] ≠ [] := by decide         -- one byte too many kept
example : judgeEv [.wbeg false [65, 66], .wend, .send 2 .acc [65], .st true 2 1 0 false] ≠ [] := by decide -- rest dropped after a partial send
/-- a write interrupted by EINTR on a queue that is not full must keep everything -/
example : judgeEv [.wbeg false [65], .wend, .wbeg true [66], .send 2 .intr [], .wend, .st true 1 0 1 false] ≠ [] := by
  decide
/-- and the honest traces are accepted -/
example : judgeEv [.wbeg false [65, 10], .wend, .st true 3 0 3 false, .send 3 .acc [65, 13], .st true 3 2 1 false] = [] := by
  decide

/-! ### pending-without-write-interest -/
example : judgeEv [.wbeg false [65], .wend, .st false 1 0 1 false] ≠ [] := by decide
example : judgeEv [.wbeg false [65], .wend, .send 1 .wouldBlock [], .st false 1 0 1 false] ≠ [] := by decide
example : judgeEv [.wbeg false [65, 66], .wend, .send 2 .acc [65], .send 1 .intr [], .st false 2 1 1 false] ≠ [] := by decide
/-- nothing pending: no interest needed; dead connection: nothing is owed any more -/
example : judgeEv [.wbeg false [65], .wend, .send 1 .acc [65], .st false 1 1 0 false] = [] := by decide
example : judgeEv [.wbeg false [65], .wend, .send 1 .pipe [], .st false 1 0 1 true] = [] := by decide

/-! ### closed-without-close-event / crash -/
example : judgeEv [.wbeg false [65], .wend, .stClosed] ≠ [] := by decide
example : judgeEv [.stClosed] ≠ [] := by decide
example : judgeEv [.close, .stClosed] = [] := by decide
example : judgeEv [.fault "index 4096 out of bounds"] ≠ [] := by decide
example : judgeEv [.wbeg false [65], .fault "sanitizer", .wend] ≠ [] := by decide

/-! ### the give-up rule, at the real capacity `N`

(the oracle does not demand a send attempt before a tail is dropped from a full queue - the property allows the loss
whenever the buffer is full; it does demand that the text goes on whenever an attempt made room) -/

set_option maxRecDepth 200000 in
/-- full queue, send refused with no progress: dropping the rest of the text is accepted ... -/
example : judgeEv [.wbeg false (List.replicate (N + 5) 65), .send N .wouldBlock [], .wend, .st true 0 0 N false] = [] := by
  decide

set_option maxRecDepth 200000 in
/-- ... but not when the refused send came after progress in the same attempt (room was made: the text must go on) -/
example : judgeEv [.wbeg false (List.replicate (N + 5) 65), .send N .acc [65, 65, 65, 65, 65, 65], .send (N - 6) .wouldBlock [],
    .wend, .st true 0 6 (N - 6) false] ≠ [] := by decide

/-- a queue that is not full never justifies a loss -/
example : judgeEv [.wbeg false (List.replicate 10 65), .wend, .st true 5 0 5 false] ≠ [] := by decide

end NV.C14
