/-
C14 — property theorems.
-/
import NV.C14.LemmasFlush

namespace NV.C14

end NV.C14
