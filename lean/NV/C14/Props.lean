/-
C14 — property theorems.  All statements are for every initial send script, every list of operations (writes of any
length and content, any further scripted send results, every flush trigger, closes) - no bound on sizes or steps.
Helper lemmas live in NV/C14/Lemmas*.lean.
-/
import NV.C14.LemmasTop

namespace NV.C14

/-- **Top theorem.**  The specification oracle accepts the event trace of every run of the model: whatever the writes and
whatever the socket answers (full, partial of any size, EWOULDBLOCK, EINTR, EPIPE, other errors), every byte accepted by
send() is the next byte of the reference stream (CR-LF expansion of the texts, in order, exactly once), nothing is sent
after a close, the pending count always equals what is owed (so only a tail given up on a full, refusing socket - or a
dead connection - is ever lost, and a CR LF pair is kept or dropped as a whole), pending output always has write
notification requested, and no out-of-bounds access or endless loop occurs. -/
theorem model_satisfies_spec (script : List SendRes) (ops : List Op) (console : Bool := false) :
    judgeEv (events (run script ops console)) = [] := by
  have h := (runFrom_spec ops (St.init script console) {} (init_ginv script console) (init_rel script console)).2
  unfold judgeEv events run
  rw [h.bad]; rfl

/-- non-vacuity: a run that wraps nothing but exercises partial send, EWOULDBLOCK, CR LF, a close -/
example : judgeEv (events (run [.acc 2, .wouldBlock]
    [.write false [104, 105, 10], .flush, .write true [10, 10], .sendres [.pipe], .write false [65], .close])) = [] :=
  model_satisfies_spec _ _

/-- non-vacuity for the console user (write(2) path, flush at the end of add_message) -/
example : judgeEv (events (run [.acc 0, .intr] [.write false [104, 10], .wready, .write true [65]] true)) = [] :=
  model_satisfies_spec _ _ true

/-- the oracle is not trivially satisfied: a trace that delivers a byte twice is rejected -/
example : judgeEv [.wbeg false [65], .wend, .send 1 .acc [65], .send 1 .acc [65]] ≠ [] := by decide

/-- `ring_inv`: after every run `producer = (consumer + length) mod N`, `length ≤ N`, `consumer < N`, the buffer has `N`
cells and no out-of-range access happened (`fault = false`).  Every prefix of a run is a run, so this holds between any two
operations; inside an operation it is re-established after every single put / send (`put_inv`, `consume_inv`). -/
theorem ring_inv (script : List SendRes) (ops : List Op) (console : Bool := false) : Inv (run script ops console).1 :=
  (runFrom_spec ops (St.init script console) {} (init_ginv script console) (init_rel script console)).1.inv

/-- all indices are inside `message_buf` -/
theorem ring_indices_in_bounds (script : List SendRes) (ops : List Op) (console : Bool := false) :
    (run script ops console).1.prod < N ∧ (run script ops console).1.cons < N ∧ (run script ops console).1.len ≤ N ∧
    (run script ops console).1.buf.size = N :=
  let h := ring_inv script ops console
  ⟨h.prod_lt, h.cons_lt, h.len_le, h.size⟩

/-- `chunk never crosses the end`: in every state satisfying the ring invariant with pending output, the chunk handed to
send() is non-empty, ends at or before the end of the buffer, and is not longer than what is pending -/
theorem chunk_in_bounds {s : St} (h : Inv s) (hl : s.len ≠ 0) :
    1 ≤ chunkLen s ∧ s.cons + chunkLen s ≤ N ∧ chunkLen s ≤ s.len := chunk_ok h hl

example : ∃ s : St, Inv s ∧ s.len ≠ 0 :=
  ⟨put (St.init []) 65, put_inv (init_inv []) (by decide) 65, by rw [put_len (init_inv [])]; decide⟩

/-- no out-of-bounds access, no zero-length send loop -/
theorem no_fault (script : List SendRes) (ops : List Op) (console : Bool := false) :
    (run script ops console).1.fault = false :=
  (ring_inv script ops console).nofault

/-- liveness side of delivery: whenever output is pending on a live connection, a later flush is guaranteed - write
notification is requested from the event loop (network user), or the user is the console user, which process_io flushes
on every pass -/
theorem write_interest_when_pending (script : List SendRes) (ops : List Op) (console : Bool := false)
    (hg : (run script ops console).1.gone = false) (hl : (run script ops console).1.len ≠ 0) :
    ((run script ops console).1.want || (run script ops console).1.console) = true :=
  (runFrom_spec ops (St.init script console) {} (init_ginv script console) (init_rel script console)).1.want hg hl

/-- the regenerated buffer size is what the proofs need: at least two cells (room for one CR LF pair) -/
theorem N_two_le : 2 ≤ N := N_ge_two

end NV.C14
