/-
C14 — the send loop (`flush_message`) against the oracle: with nothing left to refill (`flushLoop_inert`) and inside a write
whose next item does not fit (`flushLoop_active`).
-/
import NV.C14.LemmasSim

namespace NV.C14

theorem flushLoop_succ (fuel : Nat) (s : St) :
    flushLoop (fuel + 1) s =
      match sendStep s with
      | .stop s' evs ok => (s', evs, ok)
      | .cont s' ev => ((flushLoop fuel s').1, ev :: (flushLoop fuel s').2.1, (flushLoop fuel s').2.2) := rfl

theorem flushLoop_stop {fuel : Nat} {s s' : St} {evs : List Ev} {ok : Bool} (h : sendStep s = .stop s' evs ok) :
    flushLoop (fuel + 1) s = (s', evs, ok) := by rw [flushLoop_succ, h]

theorem flushLoop_cont {fuel : Nat} {s s' : St} {ev : Ev} (h : sendStep s = .cont s' ev) :
    flushLoop (fuel + 1) s = ((flushLoop fuel s').1, ev :: (flushLoop fuel s').2.1, (flushLoop fuel s').2.2) := by
  rw [flushLoop_succ, h]

theorem sendStep_empty {s : St} (hl : s.len = 0) : sendStep s = .stop { s with want := wantAfterDrain s } [] true := by
  unfold sendStep; rw [if_pos hl]

theorem flushLoop_empty {fuel : Nat} {s : St} (hl : s.len = 0) :
    flushLoop (fuel + 1) s = ({ s with want := wantAfterDrain s }, [], true) :=
  flushLoop_stop (sendStep_empty hl)

theorem jstep_refuse {j : J} {n : Nat} {res : Res} (hd : j.dead = false) (hn : ¬ j.q.length < n)
    (hres : KeepRes res) : jstep j (.send n res []) = refused j := by
  rcases hres with rfl | rfl | ⟨e, rfl, hk⟩ <;> simp [jstep, hd, hn, *]

theorem jstep_fail {j : J} {n : Nat} {res : Res} (hd : j.dead = false) (hn : ¬ j.q.length < n)
    (hres : DeadRes res) : jstep j (.send n res []) = { j with dead := true } := by
  rcases hres with rfl | ⟨e, rfl, hk⟩ <;> simp [jstep, hd, hn, *]

theorem rel_facts {s : St} {rest : Option (List Byte)} {j : J} (h : Inv s) (hg : s.gone = false) (hr : Rel s rest j)
    (hl : s.len ≠ 0) : j.dead = false ∧ ¬ j.q.length < chunkLen s := by
  obtain ⟨hq, _⟩ := hr.q hg
  obtain ⟨_, _, c3⟩ := chunk_ok h hl
  refine ⟨by rw [hr.dead, hg], ?_⟩
  rw [hq, contents_length]; omega

/-- a flush while the oracle has nothing to refill (top-level flushes, the trailing flush of add_vmessage) -/
theorem flushLoop_inert : ∀ (fuel : Nat) (s : St) (rest : Option (List Byte)) (j : J),
    Inv s → s.gone = false → s.len < fuel → inert rest → Rel s rest j →
    StepPost s (flushLoop fuel s).1 ∧ (flushLoop fuel s).1.gone = !(flushLoop fuel s).2.2 ∧
    ((flushLoop fuel s).2.2 = true → (flushLoop fuel s).1.len = 0 ∨ (flushLoop fuel s).1.want = true ∨
        (flushLoop fuel s).1.console = true) ∧
    Rel (flushLoop fuel s).1 rest (judgeFrom j (flushLoop fuel s).2.1) := by
  intro fuel
  induction fuel with
  | zero => intro s rest j _ _ hf; omega
  | succ fuel ih =>
    intro s rest j h hg hf hi hr
    by_cases hl : s.len = 0
    · rw [flushLoop_empty hl]
      exact ⟨⟨h.of_eq rfl rfl rfl rfl rfl, Nat.le_refl _, rfl, rfl, rfl, rfl⟩, hg, fun _ => Or.inl hl,
             ⟨hr.bad, hr.dead, hr.q⟩⟩
    · obtain ⟨hjd, hqn⟩ := rel_facts h hg hr hl
      obtain ⟨c1, c2, c3⟩ := chunk_ok h hl
      have hcur : j.cur = rest := (hr.q hg).2
      rcases sendStep_model h hg hl with ⟨k, _, hs⟩ | ⟨res, hres, hs⟩ | ⟨res, hres, hs⟩
      · rw [flushLoop_cont hs]; dsimp only
        have hm1 : 1 ≤ min (k + 1) (chunkLen s) := by omega
        have hmn : min (k + 1) (chunkLen s) ≤ chunkLen s := Nat.min_le_right _ _
        have hml : min (k + 1) (chunkLen s) ≤ s.len := by omega
        have hj1 := jstep_acc h hg hr hm1 hmn c2 c3 (pop s.script).2
        generalize hs' : consume s (min (k + 1) (chunkLen s)) (bytesAt s.buf s.cons (min (k + 1) (chunkLen s)))
                          (pop s.script).2 = s' at hj1 ⊢
        generalize hev : Ev.send (chunkLen s) Res.acc (bytesAt s.buf s.cons (min (k + 1) (chunkLen s))) = ev at hj1 ⊢
        dsimp only at hj1
        have hinv' : Inv s' := by rw [← hs']; exact consume_inv h hml _ _
        have hg' : s'.gone = false := by rw [← hs']; exact hg
        have hlen' : s'.len < s.len := by rw [← hs', consume_eq]; show s.len - _ < s.len; omega
        have hsp : StepPost s s' := by
          refine ⟨hinv', by omega, by rw [← hs']; rfl, by rw [← hs']; rfl, ?_, by rw [← hs']; rfl⟩
          rw [← hs', consume_contents hml, bytesAt_eq_take h (by omega) hml]
          simp only [consume_eq, List.reverse_append, List.reverse_reverse, List.append_assoc, List.take_append_drop]
        have hr' : Rel s' rest (jstep j ev) := by
          rw [hj1]
          by_cases h0 : s'.len = 0
          · rw [if_pos h0]
            have hi' : inert ({ j with q := contents s' } : J).cur := by show inert j.cur; rw [hcur]; exact hi
            obtain ⟨a, b, c, d⟩ := refill_inert hi'
            exact ⟨by rw [c]; exact hr.bad, by rw [d, hg']; exact hjd, fun _ => ⟨a, by rw [b]; exact hcur⟩⟩
          · rw [if_neg h0]
            exact ⟨hr.bad, by rw [hg']; exact hjd, fun _ => ⟨rfl, hcur⟩⟩
        obtain ⟨p1, p2, p3, p4⟩ := ih s' rest (jstep j ev) hinv' hg' (by omega) hi hr'
        exact ⟨hsp.trans p1, p2, p3, p4⟩
      · rw [flushLoop_stop hs]; dsimp only
        refine ⟨⟨h.of_eq rfl rfl rfl rfl rfl, Nat.le_refl _, rfl, rfl, rfl, rfl⟩, hg,
          (fun _ => Or.inr (by cases hcn : s.console <;> simp [wantAfterRefusal, hcn])), ?_⟩
        simp only [judgeFrom_cons, judgeFrom_nil]
        rw [jstep_refuse hjd hqn hres]
        have hi' : inert j.cur := by rw [hcur]; exact hi
        obtain ⟨a, b, c, d⟩ := refused_inert hi'
        exact ⟨by rw [c]; exact hr.bad, by rw [d]; exact hr.dead,
               fun hg2 => ⟨by rw [a]; exact (hr.q hg).1, by rw [b]; exact hcur⟩⟩
      · rw [flushLoop_stop hs]; dsimp only
        refine ⟨⟨h.of_eq rfl rfl rfl rfl rfl, Nat.le_refl _, rfl, rfl, rfl, rfl⟩, by simp [St.gone], (fun hc => by cases hc), ?_⟩
        simp only [judgeFrom_cons, judgeFrom_nil]
        rw [jstep_fail hjd hqn hres]
        exact ⟨hr.bad, by simp [St.gone], fun hg2 => by simp [St.gone] at hg2⟩

/-- a flush made from inside a write because the next item `c` does not fit -/
theorem flushLoop_active (c : Byte) (cs : List Byte) : ∀ (fuel : Nat) (s : St) (j : J),
    Inv s → s.gone = false → s.len < fuel → s.len ≠ 0 → Rel s (some (c :: cs)) j →
    StepPost s (flushLoop fuel s).1 ∧ (flushLoop fuel s).1.gone = !(flushLoop fuel s).2.2 ∧
    ((flushLoop fuel s).2.2 = true →
      (((flushLoop fuel s).1.len < s.len ∨ j.progress = true) →
          RelF (flushLoop fuel s).1 (c :: cs) (judgeFrom j (flushLoop fuel s).2.1)) ∧
      ((flushLoop fuel s).1.len = s.len → j.progress = false →
          Rel (flushLoop fuel s).1 (some []) (judgeFrom j (flushLoop fuel s).2.1))) ∧
    ((flushLoop fuel s).2.2 = false →
      (judgeFrom j (flushLoop fuel s).2.1).bad = [] ∧ (judgeFrom j (flushLoop fuel s).2.1).dead = true) := by
  intro fuel
  induction fuel with
  | zero => intro s j _ _ hf; omega
  | succ fuel ih =>
    intro s j h hg hf hl hr
    obtain ⟨hjd, hqn⟩ := rel_facts h hg hr hl
    obtain ⟨c1, c2, c3⟩ := chunk_ok h hl
    obtain ⟨hq, hcur⟩ := hr.q hg
    rcases sendStep_model h hg hl with ⟨k, _, hs⟩ | ⟨res, hres, hs⟩ | ⟨res, hres, hs⟩
    · rw [flushLoop_cont hs]; dsimp only
      have hm1 : 1 ≤ min (k + 1) (chunkLen s) := by omega
      have hmn : min (k + 1) (chunkLen s) ≤ chunkLen s := Nat.min_le_right _ _
      have hml : min (k + 1) (chunkLen s) ≤ s.len := by omega
      have hj1 := jstep_acc h hg hr hm1 hmn c2 c3 (pop s.script).2
      generalize hs' : consume s (min (k + 1) (chunkLen s)) (bytesAt s.buf s.cons (min (k + 1) (chunkLen s)))
                        (pop s.script).2 = s' at hj1 ⊢
      generalize hev : Ev.send (chunkLen s) Res.acc (bytesAt s.buf s.cons (min (k + 1) (chunkLen s))) = ev at hj1 ⊢
      dsimp only at hj1
      have hinv' : Inv s' := by rw [← hs']; exact consume_inv h hml _ _
      have hg' : s'.gone = false := by rw [← hs']; exact hg
      have hlen' : s'.len < s.len := by rw [← hs', consume_eq]; show s.len - _ < s.len; omega
      have hsp : StepPost s s' := by
        refine ⟨hinv', by omega, by rw [← hs']; rfl, by rw [← hs']; rfl, ?_, by rw [← hs']; rfl⟩
        rw [← hs', consume_contents hml, bytesAt_eq_take h (by omega) hml]
        simp only [consume_eq, List.reverse_append, List.reverse_reverse, List.append_assoc, List.take_append_drop]
      by_cases h0 : s'.len = 0
      · -- drained: the oracle refills at this very event, the loop stops without another event
        have hfuel : ∃ f, fuel = f + 1 := ⟨fuel - 1, by omega⟩
        obtain ⟨f, rfl⟩ := hfuel
        rw [flushLoop_empty h0]
        simp only [judgeFrom_cons, judgeFrom_nil]
        rw [if_pos h0] at hj1
        have hrf : RelF { s' with want := wantAfterDrain s' } (c :: cs) (jstep j ev) := by
          rw [hj1]
          refine ⟨?_, ?_, ?_⟩
          · simp [refill, hcur, hr.bad]
          · simp only [refill, hcur]; rw [hjd]; exact hg'.symm
          · intro _
            simp only [refill, hcur]
            refine ⟨?_, ?_, trivial⟩
            · show contents s' ++ (fit (N - (contents s').length) (c :: cs)).1 = _
              rw [contents_length]; rfl
            · show some (fit (N - (contents s').length) (c :: cs)).2 = _
              rw [contents_length]
        refine ⟨hsp.trans ⟨hinv'.of_eq rfl rfl rfl rfl rfl, Nat.le_refl _, rfl, rfl, rfl, rfl⟩, hg', ?_, ?_⟩
        · intro _
          refine ⟨fun _ => hrf, fun he => ?_⟩
          have : s'.len = s.len := he
          omega
        · intro hc; cases hc
      · rw [if_neg h0] at hj1
        have hr' : Rel s' (some (c :: cs)) (jstep j ev) := by
          rw [hj1]; exact ⟨hr.bad, by rw [hg']; exact hjd, fun _ => ⟨rfl, hcur⟩⟩
        have hp' : (jstep j ev).progress = true := by rw [hj1]
        obtain ⟨p1, p2, p3, p4⟩ := ih s' (jstep j ev) hinv' hg' (by omega) h0 hr'
        refine ⟨hsp.trans p1, p2, ?_, p4⟩
        intro hok
        obtain ⟨q1, _⟩ := p3 hok
        refine ⟨fun _ => q1 (Or.inr hp'), fun he => ?_⟩
        have := p1.len_le
        simp only [judgeFrom_cons] at he ⊢
        omega
    · rw [flushLoop_stop hs]; dsimp only
      simp only [judgeFrom_cons, judgeFrom_nil]
      rw [jstep_refuse hjd hqn hres]
      refine ⟨⟨h.of_eq rfl rfl rfl rfl rfl, Nat.le_refl _, rfl, rfl, rfl, rfl⟩, hg, ?_, ?_⟩
      · intro _
        refine ⟨fun hp => ?_, fun _ hp => ?_⟩
        · have hp' : j.progress = true := by
            rcases hp with hp | hp
            · exact absurd hp (Nat.lt_irrefl _)
            · exact hp
          simp only [refused, hcur, hp', if_true]
          refine ⟨?_, ?_, ?_⟩
          · simp [refill, hcur, hr.bad]
          · simp only [refill, hcur]; rw [hjd]; exact hg.symm
          · intro _
            simp only [refill, hcur]
            refine ⟨?_, ?_, trivial⟩
            · rw [hq, contents_length]; rfl
            · rw [hq, contents_length]
        · simp only [refused, hcur, hp]
          exact ⟨hr.bad, hr.dead, fun _ => ⟨hq, rfl⟩⟩
      · intro hc; cases hc
    · rw [flushLoop_stop hs]; dsimp only
      simp only [judgeFrom_cons, judgeFrom_nil]
      rw [jstep_fail hjd hqn hres]
      refine ⟨⟨h.of_eq rfl rfl rfl rfl rfl, Nat.le_refl _, rfl, rfl, rfl, rfl⟩, by simp [St.gone], ?_, ?_⟩
      · intro hc; cases hc
      · intro _; exact ⟨hr.bad, rfl⟩

end NV.C14
