/-
C14 — several users.  Every user has its own `St` and is advanced by the single-user `step` only, so the event stream of
each user is, by construction, the event stream of a single-user run (`runFrom`) of the operations routed to it - the
theorems of Props*.lean apply to each user separately.  The world adds only
  * routing: `on k op` (one user), `all op` (get_user_command / process_io / flush_messages() visit every user),
    `hangup k fin` (the peer of user `k` went away; the same process_io pass serves the write-ready events of the others);
  * the snoop relation (`new_set_snoop`, cleared by `remove_interactive`), kept in the `snoopBy` fields;
  * tagging: an event belongs to the user that produced it, a `snoop` event to the snooper that receives the text.
-/
import NV.C14.Model

namespace NV.C14

inductive MOp where
  | on (k : Nat) (op : Op)
  | all (op : Op)
  /-- peer of user `k` closed (`fin = false`: EPOLLHUP -> remove_interactive) or half-closed (`fin = true`: recv()==0) -/
  | hangup (k : Nat) (fin : Bool)
  /-- `new_set_snoop (user k, user j)`: `k` snoops `j` -/
  | snoop (k j : Nat)
  /-- `new_set_snoop (user k, 0)` -/
  | unsnoop (k : Nat)
  deriving Repr

/-- a user slot: `none` until the user connects -/
abbrev World := List (Option St)

abbrev TEv := Nat × Ev

def tagEv (k : Nat) : Ev → TEv
  | .snoop sn d => (sn, .snoop sn d)
  | e => (k, e)

def getU (w : World) (k : Nat) : Option St := (w[k]?).join

def setU (w : World) (k : Nat) (s : St) : World := w.set k (some s)

/-- `remove_interactive` of user `k`: `ip->snoop_on->snoop_by = 0` (and its own links die with the structure) -/
def dropSnooper (w : World) (k : Nat) : World :=
  w.map (fun o => o.map (fun s => if s.snoopBy = some k then { s with snoopBy := none } else s))

def stepAt (w : World) (k : Nat) (op : Op) : World × List TEv :=
  match getU w k with
  | none => (w, [])
  | some s =>
    let r := step s op
    let w1 := setU w k r.1
    -- the user went away during this operation: it no longer snoops anybody, nobody snoops it
    let w2 := if r.1.closed && !s.closed then setU (dropSnooper w1 k) k { r.1 with snoopBy := none } else w1
    (w2, r.2.map (tagEv k))

def stepEach (f : Nat → Op) : List Nat → World → World × List TEv
  | [], w => (w, [])
  | k :: ks, w =>
    let r := stepAt w k (f k)
    let r2 := stepEach f ks r.1
    (r2.1, r.2 ++ r2.2)

/-- `for (tmp = on; tmp; tmp = tmp->snoop_on) if (tmp == by) return 0;` - does `j` (transitively) snoop `k`? -/
def snoopsChain (w : World) (k : Nat) : Nat → Nat → Bool
  | 0, _ => false
  | fuel + 1, cur =>
    if cur = k then true
    else
      -- `cur->snoop_on`: the user whose snoopBy is `cur`
      match (List.range w.length).find? (fun u => (getU w u).any (fun s => s.snoopBy = some cur && !s.closed)) with
      | none => false
      | some nxt => snoopsChain w k fuel nxt

def stepM (w : World) : MOp → World × List TEv
  | .on k op => stepAt w k op
  | .all op => stepEach (fun _ => op) (List.range w.length) w
  | .hangup k fin =>
    stepEach (fun u => if u = k then (if fin then .peerfin else .close) else .wready) (List.range w.length) w
  | .snoop k j =>
    match getU w k, getU w j with
    | some sk, some sj =>
      -- error() unless both are still interactive; a snoop loop is refused
      if sk.closed || sj.closed || snoopsChain w k (w.length + 1) j then (w, [])
      else
        let w1 := dropSnooper w k
        (match getU w1 j with
         | some sj' => setU w1 j { sj' with snoopBy := some k }
         | none => w1, [])
    | _, _ => (w, [])
  | .unsnoop k =>
    match getU w k with
    | some sk => if sk.closed then (w, []) else (dropSnooper w k, [])
    | none => (w, [])

def runM : World → List MOp → World × List TEv
  | w, [] => (w, [])
  | w, op :: ops =>
    let r := stepM w op
    let r2 := runM r.1 ops
    (r2.1, r.2 ++ r2.2)

end NV.C14
