/-
C14 — several users.  Every user has its own `St` and is advanced by the single-user `step` only, so the event stream of
each user is, by construction, the event stream of a single-user run (`runFrom`) of the operations routed to it - the
theorems of Props*.lean apply to each user separately.  The world adds only
  * routing: `on k op` (one user), `all op` (get_user_command / process_io / flush_messages() visit every user),
    `hangup k fin` (the peer of user `k` went away; the same process_io pass serves the write-ready events of the others);
  * the snoop relation (`new_set_snoop`, cleared by `remove_interactive`), kept in the `snoopBy` fields;
  * tagging: an event belongs to the user that produced it, a `snoop` event to the snooper that receives the text;
  * re-entrancy: `receive_snoop` is LPC code.  The harness user object carries out one scripted reaction per call
    (`React`): echo the text to itself, tell another user, destruct a user (also the one being written to), raise an
    error.  `writeW` is add_message / add_vmessage as seen by the whole world: the single-user call, then - it is the
    last thing the C functions do - the snooper's reaction, which may call add_message again (`fuel` = number of scripted
    reactions left + 2, every nested call consumes one).
Every change of a user's state is a single-user `step` (or an edit of its `snoopBy` field, which is `step _ (.snoopBy _)`);
`PropsMulti.lean` proves from this that each user's stream is a single-user run and satisfies the oracle.
-/
import NV.C14.Model

namespace NV.C14

inductive MOp where
  | on (k : Nat) (op : Op)
  | all (op : Op)
  /-- peer of user `k` closed (`fin = false`: EPOLLHUP -> remove_interactive) or half-closed (`fin = true`: recv()==0) -/
  | hangup (k : Nat) (fin : Bool)
  /-- `new_set_snoop (user k, user j)`: `k` snoops `j` -/
  | snoop (k j : Nat)
  /-- `new_set_snoop (user k, 0)` -/
  | unsnoop (k : Nat)
  /-- add_message / add_vmessage to user `k` in a case that scripts `receive_snoop` reactions: the call can reach every
  user, so the state of every user is shown after it -/
  | writeR (k : Nat) (v : Bool) (data : List Byte)
  /-- the peer of telnet user `k` sent these bytes; one poll + process_io pass: `k`: EVENT_READ (get_user_data ->
  copy_chars -> replies) then EVENT_WRITE; every other user: its write-ready event -/
  | input (k : Nat) (bs : List Byte)
  deriving Repr

/-- a user slot: `none` until the user connects -/
abbrev World := List (Option St)

abbrev TEv := Nat × Ev

def tagEv (k : Nat) : Ev → TEv
  | .snoop sn d => (sn, .snoop sn d)
  | e => (k, e)

def getU (w : World) (k : Nat) : Option St := (w[k]?).join

def setU (w : World) (k : Nat) (s : St) : World := w.set k (some s)

/-- `remove_interactive` of user `k`: `ip->snoop_on->snoop_by = 0` (and its own links die with the structure) -/
def dropSnooper (w : World) (k : Nat) : World :=
  w.map (fun o => o.map (fun s => if s.snoopBy = some k then { s with snoopBy := none } else s))

def stepAt (w : World) (k : Nat) (op : Op) : World × List TEv :=
  match getU w k with
  | none => (w, [])
  | some s =>
    let r := step s op
    let w1 := setU w k r.1
    -- the user went away during this operation: it no longer snoops anybody, nobody snoops it
    let w2 := if r.1.closed && !s.closed then setU (dropSnooper w1 k) k { r.1 with snoopBy := none } else w1
    (w2, r.2.map (tagEv k))

def stepEach (f : Nat → Op) : List Nat → World → World × List TEv
  | [], w => (w, [])
  | k :: ks, w =>
    let r := stepAt w k (f k)
    let r2 := stepEach f ks r.1
    (r2.1, r.2 ++ r2.2)

/-- `for (tmp = on; tmp; tmp = tmp->snoop_on) if (tmp == by) return 0;` - does `j` (transitively) snoop `k`? -/
def snoopsChain (w : World) (k : Nat) : Nat → Nat → Bool
  | 0, _ => false
  | fuel + 1, cur =>
    if cur = k then true
    else
      -- `cur->snoop_on`: the user whose snoopBy is `cur`
      match (List.range w.length).find? (fun u => (getU w u).any (fun s => s.snoopBy = some cur && !s.closed)) with
      | none => false
      | some nxt => snoopsChain w k fuel nxt

/-- world, events, `false` = an LPC error is unwinding to the caller of the outermost add_message -/
abbrev WR := World × List TEv × Bool

def andThen (r : World × List TEv) (f : World → WR) : WR :=
  let r2 := f r.1
  (r2.1, r.2 ++ r2.2.1, r2.2.2)

/-- the user whose `receive_snoop` was called by this add_message (its `snoop` event, tagged with the snooper) -/
def snoopCall (es : List TEv) : Option Nat :=
  es.findSome? fun e => match e.2 with
    | .snoop b _ => some b
    | _ => none

/-- `"[" + oid + ">" + j + "]\n"` -/
def tellText (b j : Nat) : List Byte := (s!"[{b}>{j}]\n").toList.map (fun c => UInt8.ofNat c.toNat)

/-- `users ()` contains user `j` (still interactive; NET_DEAD users are still listed) -/
def interactiveU (w : World) (j : Nat) : Bool := (getU w j).any (fun s => !s.closed)

/-- `receive_snoop (text)` in user `b` (harness/mudlib/c14/user.c): take the next scripted reaction and carry it out;
`rec` is add_message as seen by the world (one level less of fuel) -/
def reactStep (rec : World → Nat → Bool → List Byte → WR) (w : World) (b : Nat) (d : List Byte) : WR :=
  match getU w b with
  | none => (w, [], true)
  | some sb =>
    match sb.react with
    | [] => (w, [], true)
    | t :: _ =>
      andThen (stepAt w b .popReact) fun w2 =>
        match t with
        | .nop => (w2, [], true)
        -- receive_snoop runs under safe_apply (fix 4a7340a): the error ends the snooper's receive_snoop and nothing else
        | .err => (w2, [], true)
        | .echo => if interactiveU w2 b then rec w2 b false (d.take 2000) else (w2, [], true)
        | .tell j => if interactiveU w2 j then rec w2 j false (tellText b j) else (w2, [], true)
        | .dest j => if interactiveU w2 j then (let r := stepAt w2 j .closeQ; (r.1, r.2, true)) else (w2, [], true)

/-- add_message (`v = false`) / add_vmessage to user `k`, with everything the snooper's LPC code does in response -/
def writeW : Nat → World → Nat → Bool → List Byte → WR
  | 0, w, _, _, _ => (w, [], false)
  | fuel + 1, w, k, v, d =>
    let r := stepAt w k (.writeQ v d)
    andThen r fun w1 =>
      match snoopCall r.2 with
      | none => (w1, [], true)
      | some b => reactStep (writeW fuel) w1 b d

/-- the output calls copy_chars makes for one input byte, carried out on user `k` -/
def tactW (w : World) (k : Nat) : List TAct → World × List TEv
  | [] => (w, [])
  | a :: r =>
    let x := stepAt w k (match a with
      | .msg v d => .writeQ v d
      | .fl => .flushQ)
    let y := tactW x.1 k r
    (y.1, x.2 ++ y.2)

/-- `copy_chars (buf, .., num_bytes, ip)` for user `k`: byte by byte; `lm` = the global `telnet_sb_lm_mode[4]` -/
def inputW (w : World) (k : Nat) : List Byte → Nat → World × List TEv
  | [], _ => (w, [])
  | b :: bs, lm =>
    match getU w k with
    | none => (w, [])
    | some s =>
      let r := telByte lm s.tel b
      let x := stepAt w k (.telSet r.tel (r.lm != lm))
      let y := tactW x.1 k r.acts
      let z := inputW y.1 k bs r.lm
      (z.1, x.2 ++ y.2 ++ z.2)

/-- `telnet_sb_lm_mode[4]` now: its initialiser, or `MODE_EDIT | MODE_TRAPSIG` once any user's WILL LINEMODE stored that -/
def lmNow (w : World) : Nat :=
  if w.any (fun o => o.any (fun s => s.lmSet)) then NV.Gen.C14.modeEDIT ||| NV.Gen.C14.modeTRAPSIG
  else NV.Gen.C14.telSbLmMode.getD NV.Gen.C14.lmModeIndex 0

/-- get_user_data: `if (ip->snoop_by ..) receive_snoop (buf, ip->snoop_by->ob)` - the raw input as a C string -/
def inputSnoopW (w : World) (k : Nat) (bs : List Byte) : List TEv :=
  match (getU w k).bind (fun s => s.snoopBy) with
  | some b => [(b, Ev.snoop b (cstr bs))]
  | none => []

/-- input can be fed to a live PORT_TELNET user only (otherwise the pass is a plain write-ready pass) -/
def canInput (w : World) (k : Nat) : Bool := (getU w k).any (fun s => !s.closed && s.telnet && !s.console)

/-- more than the number of scripted reactions left: every nested add_message consumes one -/
def fuelOf (w : World) : Nat := w.foldl (fun n o => n + (o.map (fun s => s.react.length)).getD 0) 2

def stepM (w : World) : MOp → World × List TEv
  | .on k op => stepAt w k op
  | .all op => stepEach (fun _ => op) (List.range w.length) w
  | .hangup k fin =>
    stepEach (fun u => if u = k then (if fin then .peerfin else .close) else .wready) (List.range w.length) w
  | .snoop k j =>
    match getU w k, getU w j with
    | some sk, some sj =>
      -- error() unless both are still interactive; a snoop loop is refused
      if sk.closed || sj.closed || snoopsChain w k (w.length + 1) j then (w, [])
      else
        let w1 := dropSnooper w k
        (match getU w1 j with
         | some sj' => setU w1 j { sj' with snoopBy := some k }
         | none => w1, [])
    | _, _ => (w, [])
  | .unsnoop k =>
    match getU w k with
    | some sk => if sk.closed then (w, []) else (dropSnooper w k, [])
    | none => (w, [])
  | .input k bs =>
    if canInput w k then
      let want0 := (getU w k).any (fun s => s.want)
      let a := inputW w k bs (lmNow w)
      let sn := inputSnoopW a.1 k bs
      -- EVENT_WRITE of the same event record (interest as registered when the events were collected)
      let f := if want0 then stepAt a.1 k .flushQ else (a.1, [])
      let rest := stepEach (fun u => if u = k then .showSt else .wready) (List.range w.length) f.1
      (rest.1, a.2 ++ sn ++ f.2 ++ rest.2)
    else stepEach (fun _ => .wready) (List.range w.length) w
  | .writeR k v d =>
    let r := writeW (fuelOf w) w k v d
    -- the harness catches the error after the call and prints `lpcerr`, then the state of every user
    let e : List TEv := if r.2.2 then [] else [(k, Ev.lpcerr)]
    let sts := stepEach (fun _ => .showSt) (List.range w.length) r.1
    -- add_vmessage called by the harness: the text it is asked to format
    let pre : List TEv := if v then [(k, Ev.vreq d)] else []
    (sts.1, pre ++ r.2.1 ++ e ++ sts.2)

def runM : World → List MOp → World × List TEv
  | w, [] => (w, [])
  | w, op :: ops =>
    let r := stepM w op
    let r2 := runM r.1 ops
    (r2.1, r.2 ++ r2.2)

end NV.C14
