/-
C19 — the statistics of async_queue under concurrency: with any number of blocked writers, DROP_OLDEST drops,
dequeues and clears interleaved in any way, the three counters `get_stats` reports account for every message.
-/
import NV.C19.Blocked
import NV.C19.Global

namespace NV.C19

/-- `enqueue_count` = accepted messages; `dequeue_count + dropped_count` + what `clear` threw away = messages gone -/
structure BSys.Cnt (s : BSys) : Prop where
  enq : s.q.enqCount = s.accepted.length
  out : s.q.deqCount + s.q.dropCount + s.clearedN = s.gone.length
  drop : s.q.dropCount = s.dropped.length
  deq : s.q.deqCount = s.deqd.length

theorem BSys.cnt_step (s : BSys) (a : BAct) (h : s.Good) (hc : s.Cnt) : (s.step a).Cnt := by
  cases a with
  | writer i =>
    simp only [BSys.step, BSys.writerStep]
    cases hw : s.ws[i]? with
    | none => exact hc
    | some w =>
      simp only
      split
      · split
        · exact ⟨hc.enq, hc.out, hc.drop, hc.deq⟩
        · exact hc
      · 
        cases htodo : w.todo with
        | nil => exact hc
        | cons m rest =>
          simp only
          obtain ⟨_, _, _, hspec⟩ := Q.enqueue_spec s.q h.inv m
          obtain ⟨_, hcnt⟩ := Q.enqueue_fields s.q m
          generalize hq : s.q.enqueue m = res at hspec hcnt
          obtain ⟨q', r⟩ := res
          simp only at hspec hcnt
          cases hspec with
          | badSize _ he => subst he; exact ⟨hc.enq, hc.out, hc.drop, hc.deq⟩
          | full _ _ _ _ he => subst he; exact ⟨hc.enq, hc.out, hc.drop, hc.deq⟩
          | blocked _ _ _ _ he => subst he; exact ⟨hc.enq, hc.out, hc.drop, hc.deq⟩
          | room hs hlt _ =>
            obtain ⟨c1, c2, c3⟩ := hcnt rfl
            have hnf : ¬ (s.q.count ≥ s.q.cap) := by omega
            have hwd : (decide (m.size ≠ 0 ∧ m.size ≤ s.q.maxMsg ∧ s.q.count ≥ s.q.cap) && s.q.dropOldest) = false := by
              simp [hnf]
            simp only [hnf, if_false, Nat.add_zero] at c3
            refine ⟨?_, ?_, ?_, ?_⟩
            · simp only [List.length_append, List.length_cons, List.length_nil]
              rw [c1, hc.enq]
            · simp only [hwd, Bool.false_eq_true, if_false]
              rw [c2, c3]; exact hc.out
            · simp only [hwd, Bool.false_eq_true, if_false]
              rw [c3]; exact hc.drop
            · rw [c2]; exact hc.deq
          | dropOldest hs hfull hdrop _ _ =>
            obtain ⟨c1, c2, c3⟩ := hcnt rfl
            have hwd : (decide (m.size ≠ 0 ∧ m.size ≤ s.q.maxMsg ∧ s.q.count ≥ s.q.cap) && s.q.dropOldest) = true := by
              have h1 : m.size ≠ 0 ∧ m.size ≤ s.q.maxMsg := by omega
              simp [h1, hfull, hdrop]
            simp only [hfull, if_true] at c3
            refine ⟨?_, ?_, ?_, ?_⟩
            · simp only [List.length_append, List.length_cons, List.length_nil]
              rw [c1, hc.enq]
            · simp only [hwd, if_true, List.length_append, List.length_cons, List.length_nil]
              rw [c2, c3]
              have := hc.out
              omega
            · simp only [hwd, if_true, List.length_append, List.length_cons, List.length_nil]
              rw [c3, hc.drop]
            · rw [c2]; exact hc.deq
  | deq buf =>
    obtain ⟨_, _, _, hspec⟩ := Q.dequeue_spec s.q h.inv buf
    obtain ⟨_, hcnt⟩ := Q.dequeue_fields s.q buf
    simp only [BSys.step]
    generalize hq : s.q.dequeue buf = res at hspec hcnt
    obtain ⟨q', r⟩ := res
    simp only at hspec hcnt
    cases hspec with
    | empty _ he => subst he; exact ⟨hc.enq, hc.out, hc.drop, hc.deq⟩
    | short _ _ _ _ he => subst he; exact ⟨hc.enq, hc.out, hc.drop, hc.deq⟩
    | took m rest _ _ _ =>
      obtain ⟨c1, c2, c3⟩ := hcnt m rfl
      refine ⟨by rw [c1]; exact hc.enq, ?_, by rw [c3]; exact hc.drop, ?_⟩
      · simp only [List.length_append, List.length_cons, List.length_nil]
        rw [c2, c3]
        have := hc.out
        omega
      · simp only [List.length_append, List.length_cons, List.length_nil]
        rw [c2, hc.deq]
  | clear =>
    simp only [BSys.step]
    refine ⟨hc.enq, ?_, hc.drop, hc.deq⟩
    simp only [List.length_append, Q.contents_length]
    have := hc.out
    simp only [Q.clear]
    omega

/-- **The statistics account for every message, under any concurrency.**  Any number of writers (blocked or not), any
flags (DROP_OLDEST drops included), dequeues and clears at any moment, every interleaving: `enqueue_count` is the number
of accepted messages, `dropped_count` is EXACTLY the number of messages DROP_OLDEST overwrote and `dequeue_count` exactly
the number handed to the consumer (never a drop counted on one path only, never a dequeue counted twice), and together
with the messages thrown away by `clear` they are the messages that left the queue; accepted = gone + still queued. -/
theorem blocked_writers_counters (cs : Bool) (cap mm fl : Nat) (q : Q) (hq : Q.create cap mm fl = some q)
    (progs : List (List Msg)) (acts : List BAct) :
    let s := (BSys.init cs q progs).run acts
    s.q.enqCount = s.accepted.length ∧ s.q.deqCount + s.q.dropCount + s.clearedN = s.gone.length ∧
    s.accepted.length = s.gone.length + s.q.count ∧
    s.q.dropCount = s.dropped.length ∧ s.q.deqCount = s.deqd.length := by
  intro s
  have hs : s = (BSys.init cs q progs).run acts := rfl
  rw [hs]
  have key : ∀ (acts : List BAct) (s0 : BSys), s0.Good → s0.Cnt → (s0.run acts).Good ∧ (s0.run acts).Cnt := by
    intro acts
    induction acts with
    | nil => intro s0 hg hc; exact ⟨hg, hc⟩
    | cons a rest ih =>
      intro s0 hg hc
      exact ih _ (BSys.good_step s0 a hg).1 (BSys.cnt_step s0 a hg hc)
  have hq0 : q = { cap := cap, maxMsg := mm, flags := fl, slots := List.replicate cap ⟨0, 0, 0⟩ } := by
    unfold Q.create at hq
    split at hq
    · cases hq
    · simpa using hq.symm
  have hc0 : (BSys.init cs q progs).Cnt := by subst hq0; exact ⟨rfl, rfl, rfl, rfl⟩
  obtain ⟨hg, hc⟩ := key acts _ (BSys.good_init cs hq progs) hc0
  refine ⟨hc.enq, hc.out, ?_, hc.drop, hc.deq⟩
  have := congrArg List.length hg.fifo
  simp only [List.length_append, Q.contents_length] at this
  omega

-- non-vacuity: DROP_OLDEST|BLOCK_WRITER queue of capacity 1, three pushes (two drops), a clear, a dequeue of nothing
example :
    let q : Q := { cap := 1, maxMsg := 8, flags := flagDropOldest ||| flagBlockWriter, slots := [⟨0, 0, 0⟩] }
    let s := (BSys.init true q [[⟨1, 1, 8⟩, ⟨1, 2, 8⟩, ⟨1, 3, 8⟩]]).run [.writer 0, .writer 0, .writer 0, .clear, .deq 8]
    s.q.enqCount = 3 ∧ s.q.dropCount = 2 ∧ s.dropped = [⟨1, 1, 8⟩, ⟨1, 2, 8⟩] ∧ s.clearedN = 1 ∧ s.gone.length = 3 := by decide

end NV.C19
