/-
C19 — the remaining worker kinds and the heart-beat flag.

 * `CSys`   lib/async/console_worker.c  `console_worker_proc_posix`: the loop
              while (!should_stop) { select(stdin, 10 ms); read; async_queue_enqueue(line); post_completion }
            against a thread that signals stop at ANY moment and an environment (select / read results) chosen by
            the scheduler.  The order of the loop's statements and the flags of the line queue come from the source
            (`Gen.C19.console*`, bridging lemma `console_loop_eq` in PropsExt.lean).
 * `HbSys`  src/backend.c  heart_beat_flag after the `fix:` commit (atomic store by the timer callback, atomic load /
            store 0 by the backend): a tick stored at any moment is seen by a round that starts after it.

The timer thread (`TSys`) and the generic worker wrapper (`WSys`) are in Sched.lean.
-/
import NV.C19.LemmasQ

namespace NV.C19

/-! ## console worker -/

/-- what `select()` answers (the scheduler decides; a select with a 10 ms time-out always answers) -/
inductive SelRes | timeout | readable | eintr | error
  deriving Repr, DecidableEq

/-- what `read(STDIN)` answers once select said readable -/
inductive RdRes
  | data (n : Nat)      -- n + 1 bytes read (n+1 ≥ 1)
  | eof | eintr | error
  deriving Repr, DecidableEq

inductive CwPc
  | top                 -- the `while (!async_worker_should_stop(...))` test
  | select
  | read
  | enqueue (n : Nat)   -- `async_queue_enqueue(line_queue, line_buffer, bytes_read + 1)`
  | post (n : Nat)      -- `async_runtime_post_completion(runtime, key, bytes_read)`
  | exited
  deriving Repr, DecidableEq

structure CSys where
  stopEv : Bool := false
  pc : CwPc := .top
  q : Q
  rt : Rt := {}
  key : Nat := 0
  enqs : List Nat := []      -- ghost: bytes_read of every chunk handed to async_queue_enqueue, in order
  posts : List Nat := []     -- ghost: data of every completion posted, in order
  deriving Repr

inductive CAct
  | stop                                   -- `async_worker_signal_stop` (first half of console_worker_shutdown)
  | worker (sel : SelRes) (rd : RdRes)     -- the worker thread takes one step; the answers are used where they apply
  | backend (max : Nat)                    -- the backend waits on the runtime and drains the line queue
  deriving Repr, DecidableEq

def CSys.workerStep (s : CSys) (sel : SelRes) (rd : RdRes) : CSys :=
  match s.pc with
  | .top => if s.stopEv then { s with pc := .exited } else { s with pc := .select }
  | .select =>
    match sel with
    | .timeout => { s with pc := .top }          -- `continue`
    | .eintr => { s with pc := .top }
    | .error => { s with pc := .exited }         -- `break`
    | .readable => { s with pc := .read }
  | .read =>
    match rd with
    | .data n => { s with pc := .enqueue (n + 1) }
    | .eof => { s with pc := .exited }
    | .eintr => { s with pc := .top }
    | .error => { s with pc := .exited }
  | .enqueue n =>
    match s.q.enqueue ⟨0, s.enqs.length, n + 1⟩ with
    | (_, .blocked) => s                         -- sleeps on not_full (cannot happen on a DROP_OLDEST queue)
    | (q', _) => { s with q := q', enqs := s.enqs ++ [n], pc := .post n }   -- the return value is only logged
  | .post n => { s with rt := (s.rt.post (s.key, n)).1, posts := s.posts ++ [n], pc := .top }
  | .exited => s

def CSys.step (s : CSys) : CAct → CSys
  | .stop => { s with stopEv := true }
  | .worker sel rd => s.workerStep sel rd
  | .backend max =>
    { s with rt := (s.rt.wait max).1, q := (s.q.dequeue s.q.maxMsg).1 }

def CSys.run (s : CSys) (acts : List CAct) : CSys := acts.foldl CSys.step s

/-- only the worker thread moves, with the given environment answers -/
def CSys.runWorker (s : CSys) (answers : List (SelRes × RdRes)) : CSys :=
  answers.foldl (fun s a => s.workerStep a.1 a.2) s

/-! ## heart-beat flag -/

/-- the backend thread, one cycle of `backend()` -/
inductive HbPc
  | testA        -- `if (HEART_BEAT_FLAG() || has_pending_commands) timeout = 0 else timeout = 60 s`
  | wait (blocking : Bool)   -- inside do_comm_polling → async_runtime_wait
  | testB        -- `if (HEART_BEAT_FLAG()) call_heart_beat ();`
  | entered      -- inside call_heart_beat, in front of its first statement
  | inRound      -- inside the `while (!HEART_BEAT_FLAG())` loop over the objects
  | leaving      -- round over (only used by the clear-late variant: the flag is reset here)
  deriving Repr, DecidableEq

/-- the timer thread inside `heartbeat_timer_callback` -/
inductive HbTPc
  | idle
  | half         -- first statement done, second not yet
  deriving Repr, DecidableEq

structure HbSys where
  /-- `true` = the code: `SET_HEART_BEAT_FLAG(0)` is the FIRST statement of call_heart_beat -/
  clearFirst : Bool
  /-- `true` = the code: the callback stores the flag BEFORE it calls async_runtime_wakeup -/
  storeFirst : Bool
  flag : Bool := false
  bell : Bool := false       -- the runtime's doorbell (only "set or not" matters: `bell_value_irrelevant`)
  pc : HbPc := .testA
  tpc : HbTPc := .idle
  /-- ghost: the timer has stored a tick and no round has STARTED since -/
  owed : Bool := false
  rounds : Nat := 0
  deriving Repr, DecidableEq

inductive HbAct
  | timer                     -- the timer thread takes a step of `heartbeat_timer_callback`
  | backend (more : Bool)     -- the backend thread takes a step; inside a round `more` = there are objects left
  deriving Repr, DecidableEq

def HbSys.step (s : HbSys) : HbAct → HbSys
  | .timer =>
    match s.tpc with
    | .idle => if s.storeFirst then { s with flag := true, owed := true, tpc := .half }
               else { s with bell := true, tpc := .half }
    | .half => if s.storeFirst then { s with bell := true, tpc := .idle }
               else { s with flag := true, owed := true, tpc := .idle }
  | .backend more =>
    match s.pc with
    | .testA => { s with pc := .wait (!s.flag) }
    | .wait blocking =>
      -- a blocking wait returns only when the doorbell is set (the 60 s time-out is the worst case: never)
      if blocking && !s.bell then s else { s with bell := false, pc := .testB }
    | .testB => if s.flag then { s with pc := .entered } else { s with pc := .testA }
    | .entered =>
      if s.clearFirst then { s with flag := false, owed := false, rounds := s.rounds + 1, pc := .inRound }
      else { s with owed := false, rounds := s.rounds + 1, pc := .inRound }
    | .inRound =>
      if s.clearFirst then (if s.flag || !more then { s with pc := .testA } else s)     -- `while (!HEART_BEAT_FLAG())`
      else (if more then s else { s with pc := .leaving })
    | .leaving => { s with flag := false, pc := .testA }

def HbSys.run (s : HbSys) (acts : List HbAct) : HbSys := acts.foldl HbSys.step s

end NV.C19
