/-
C19 — the oracle REJECTS what it should reject: one or more negative examples per clause of `judgeEv`
(audit round).  Each `example` is checked by the kernel (`decide`): the verdict list is not empty.
-/
import NV.C19.Spec

namespace NV.C19.Negative

/-! event loop -/
-- a completion comes back with other data (garbled)
example : judgeEv [.post 1 7 1 0, .wait 8 [(7, 2)]] ≠ [] := by decide
-- two posts merged into one event (the original eventfd defect)
example : judgeEv [.post 1 4097 5 0, .post 1 4097 7 0, .wait 8 [(8194, 12)]] ≠ [] := by decide
-- lost wake-up: a wait finds nothing although a post had returned
example : judgeEv [.post 1 7 1 0, .wait 8 []] ≠ [] := by decide
-- …also inside a step-by-step wait
example : judgeEv [.post 1 7 1 0, .wbegin 8, .post 2 7 2 0, .wread, .wait 8 [(7, 1)], .wait 8 []] ≠ [] := by decide
-- delivered twice
example : judgeEv [.post 1 7 1 0, .wait 8 [(7, 1)], .wait 8 [(7, 1)]] ≠ [] := by decide
-- a wake-up produces an event
example : judgeEv [.wakeup 0, .wait 8 [(0, 1)]] ≠ [] := by decide
-- a producer's second completion overtakes its first
example : judgeEv [.post 1 7 1 0, .post 1 7 2 0, .wait 1 [(7, 2)]] ≠ [] := by decide
-- more events than the caller's array holds
example : judgeEv [.post 1 7 1 0, .post 1 7 2 0, .wait 1 [(7, 1), (7, 2)]] ≠ [] := by decide
-- a post refused although the ring is empty; a failing wake-up
example : judgeEv [.post 1 1 1 (-1)] ≠ [] := by decide
example : judgeEv [.wakeup (-1)] ≠ [] := by decide
-- delayed: only part of what is undelivered comes back although the array had room
example : judgeEv [.post 1 7 1 0, .post 2 7 2 0, .wait 8 [(7, 1)]] ≠ [] := by decide

/-! queue -/
-- FIFO violated; message lost; dequeue from an empty queue; dequeue into a short buffer
example : judgeEv [.qnew 2 16 0 true, .enq ⟨1, 1, 8⟩ .ok, .enq ⟨1, 2, 8⟩ .ok, .deq 16 (.msg ⟨1, 2, 8⟩)] ≠ [] := by decide
example : judgeEv [.qnew 2 16 0 true, .enq ⟨1, 1, 8⟩ .ok, .deq 16 .none] ≠ [] := by decide
example : judgeEv [.qnew 2 16 0 true, .deq 16 (.msg ⟨1, 1, 8⟩)] ≠ [] := by decide
example : judgeEv [.qnew 2 16 0 true, .enq ⟨1, 1, 12⟩ .ok, .deq 8 (.msg ⟨1, 1, 12⟩)] ≠ [] := by decide
-- overflow policy: full without flags must fail; DROP_OLDEST must accept; BLOCK_WRITER must block; room must accept
example : judgeEv [.qnew 1 16 0 true, .enq ⟨1, 1, 8⟩ .ok, .enq ⟨1, 2, 8⟩ .ok] ≠ [] := by decide
example : judgeEv [.qnew 1 16 flagDropOldest true, .enq ⟨1, 1, 8⟩ .ok, .enq ⟨1, 2, 8⟩ .fail] ≠ [] := by decide
example : judgeEv [.qnew 1 16 flagBlockWriter true, .enq ⟨1, 1, 8⟩ .ok, .enq ⟨1, 2, 8⟩ .fail] ≠ [] := by decide
example : judgeEv [.qnew 2 16 flagBlockWriter true, .enq ⟨1, 1, 8⟩ .blocked] ≠ [] := by decide
example : judgeEv [.qnew 2 16 0 true, .enq ⟨1, 1, 8⟩ .fail] ≠ [] := by decide
-- DROP_OLDEST dropped the newest: the old message must be gone
example : judgeEv [.qnew 1 16 flagDropOldest true, .enq ⟨1, 1, 8⟩ .ok, .enq ⟨1, 2, 8⟩ .ok, .deq 16 (.msg ⟨1, 1, 8⟩)] ≠ [] := by decide
-- bad sizes accepted
example : judgeEv [.qnew 2 16 0 true, .enq ⟨1, 1, 0⟩ .ok] ≠ [] := by decide
example : judgeEv [.qnew 2 16 0 true, .enq ⟨1, 1, 17⟩ .ok] ≠ [] := by decide
-- a blocked writer is not woken by the dequeue that made room / the wrong writer is woken
example : judgeEv [.qnew 1 16 flagBlockWriter true, .enq ⟨1, 1, 8⟩ .ok, .enq ⟨2, 1, 8⟩ .blocked, .deq 16 (.msg ⟨1, 1, 8⟩), .qstat 0 1 1 0 0 0 true false] ≠ [] := by decide
example : judgeEv [.qnew 1 16 flagBlockWriter true, .enq ⟨1, 1, 8⟩ .ok, .enq ⟨2, 1, 8⟩ .blocked, .deq 16 (.msg ⟨1, 1, 8⟩), .unblocked 3 1] ≠ [] := by decide
example : judgeEv [.qnew 1 16 flagBlockWriter true, .unblocked 2 1] ≠ [] := by decide
-- statistics: index out of the buffer, wrong size, wrong counters, queue created from capacity 0
example : judgeEv [.qnew 2 16 0 true, .qstat 0 0 0 0 2 0 true false] ≠ [] := by decide
example : judgeEv [.qnew 2 16 0 true, .enq ⟨1, 1, 8⟩ .ok, .qstat 0 1 0 0 1 0 true false] ≠ [] := by decide
example : judgeEv [.qnew 2 16 flagDropOldest true, .enq ⟨1, 1, 8⟩ .ok, .qstat 1 1 1 0 1 0 false false] ≠ [] := by decide
example : judgeEv [.qnew 0 16 0 true] ≠ [] := by decide
example : judgeEv [.qnew 2 16 0 true, .enq ⟨1, 1, 8⟩ .crash] ≠ [] := by decide

/-! worker -/
example : judgeEv [.wnew 1 false, .wjoin 1 50 .overran 0] ≠ [] := by decide
example : judgeEv [.wnew 1 false, .wjoin 1 50 .rc1 0] ≠ [] := by decide                     -- true on a live thread
example : judgeEv [.wnew 1 true, .wjoin 1 50 .rc0 5] ≠ [] := by decide                      -- false on a finished thread
example : judgeEv [.wnew 1 false, .wjoin 1 50 .rc0 6] ≠ [] := by decide                     -- more sleeps than ⌈t/10⌉
example : judgeEv [.wnew 1 true, .wjoin 1 50 .rc1 1] ≠ [] := by decide                      -- sleeps on a finished thread
example : judgeEv [.wnew 1 true, .wstate 1 .running] ≠ [] := by decide                      -- late RUNNING store
example : judgeEv [.wnew 1 false, .wstate 1 .stopped] ≠ [] := by decide                     -- STOPPED before the thread ran
example : judgeEv [.wnew 1 false, .wstep 1 (some true)] ≠ [] := by decide                   -- procedure left without stop
example : judgeEv [.wnew 1 false, .wstop 1, .wstep 1 (some false)] ≠ [] := by decide         -- stop not seen
example : judgeEv [.wnew 1 false, .wquit 1 true, .wstate 1 .running] ≠ [] := by decide
example : judgeEv [.wjoin 7 5 .rc0 1] ≠ [] := by decide                                      -- unknown worker

/-! timer -/
example : judgeEv [.tinit 0, .tstart 5 0, .tstop 0 true, .tafter 1] ≠ [] := by decide         -- callback after stop returned
example : judgeEv [.tinit 0, .tstart 5 0, .tstop 0 false] ≠ [] := by decide                  -- stop did not terminate in time
example : judgeEv [.tinit 0, .tstart 5 0, .tsleep 60, .tticks .none] ≠ [] := by decide        -- timer not firing
example : judgeEv [.tinit 0, .tticks .some] ≠ [] := by decide                                -- callback while inactive
example : judgeEv [.tinit 0, .tstart 5 0, .tstart 5 0] ≠ [] := by decide                     -- second start must be ALREADY_ACTIVE
example : judgeEv [.tinit 0, .tstart 0 0] ≠ [] := by decide                                  -- interval 0 accepted
example : judgeEv [.tstart 5 0] ≠ [] := by decide                                            -- start without init
example : judgeEv [.tinit 0, .tstart 5 0, .tstop 0 true, .tactive true] ≠ [] := by decide
example : judgeEv [.tinit (-4)] ≠ [] := by decide

/-! runtime part -/
example : judgeEv [.race "data-race heartbeat_timer_callback"] ≠ [] := by decide
example : judgeEv [.mt "post" false "delivered=3/4"] ≠ [] := by decide
example : judgeEv [.hbrace 60 false] ≠ [] := by decide

/-! extension round -/
-- a clear that leaves the blocked writer asleep (the next event is not `unblocked`)
example : judgeEv [.qnew 1 8 flagBlockWriter true, .enq ⟨1, 1, 8⟩ .ok, .enq ⟨2, 7, 8⟩ .blocked, .qclear, .qstat 0 1 0 0 0 0 true false] ≠ [] := by decide
-- …the accepted behaviour
example : judgeEv [.qnew 1 8 flagBlockWriter true, .enq ⟨1, 1, 8⟩ .ok, .enq ⟨2, 7, 8⟩ .blocked, .qclear, .unblocked 2 7,
                   .qstat 1 2 0 0 0 0 false true] = [] := by decide
-- the poll back end as it was: a wake-up byte garbles the next completion; records beyond max are thrown away
example : judgeEv [.wakeup 0, .post 1 4097 7 0, .wait 8 [(1048832, 1793)], .wait 8 []] ≠ [] := by decide
example : judgeEv [.post 1 1 1 0, .post 2 2 2 0, .post 1 3 3 0, .wait 1 [(1, 1)], .wait 1 []] ≠ [] := by decide
-- a timed join on a live thread that comes back false before its time is up (it stopped polling)
example : judgeEv [.wnew 1 false, .wjoin 1 50 .rc0 1] ≠ [] := by decide
-- the clear of call_heart_beat wiped a tick that arrived inside it
example : judgeEv [.hbowed false] ≠ [] := by decide
-- verdict lines of the real multi-thread runs
example : judgeEv [.mt "qclear" false "writers-left-asleep-after-clear clears=1"] ≠ [] := by decide
example : judgeEv [.mt "console" false "shutdown-timed-out"] ≠ [] := by decide

end NV.C19.Negative
