/-
C19 — executable models of the cross-thread notification code of lib/async and lib/port, written from the
code that exists (after the two `fix:` commits, see notes/C19.md; the code as it was before is modelled in
NV/C19/Witness.lean):

 * `Rt`     lib/async/async_runtime_epoll.c   async_runtime_post_completion / _wakeup / _wait:
            the eventfd is a counter used as a DOORBELL only, posted completions travel through a
            mutex-protected FIFO ring of `Gen.C19.completionRingSize` entries.
 * `Q`      lib/async/async_queue.c           ring (head = write index, tail = read index, count, capacity)
            with enqueue under DROP_OLDEST / BLOCK_WRITER / fail and dequeue; every call atomic under the mutex.
 * `Wk`     lib/async/async_worker_pthread.c  create / thread wrapper / signal_stop / join(timeout) / destroy.
 * `Tm`     lib/port/timer.cpp                init / start / thread loop / stop / cleanup.

Each C call is split into its ATOMIC ACTIONS (the pieces between two synchronisation points).  NV/C19/Sched.lean
interleaves these atomic actions of several threads under an arbitrary scheduler; the coarse operations below
(`post`, `wait`, …: one whole call, as the sequentialised harness performs them) are compositions of the same
atomic actions, so the theorems about all schedules cover what the driver executes.
-/
import NV.Gen.C19

namespace NV.C19

/-! ## event loop: eventfd doorbell + completion ring -/

/-- a posted completion: (completion_key, data) -/
abbrev Item := Nat × Nat

/-- shared state of `struct async_runtime_s` that matters here -/
structure Rt where
  /-- eventfd counter (a write adds, a read returns the value and resets it) -/
  bell : Nat := 0
  /-- `ring[ring_head .. ring_head+ring_count)`, oldest first -/
  ring : List Item := []
  deriving Repr, DecidableEq

def ringSize : Nat := Gen.C19.completionRingSize

/-- atomic: the locked section of `async_runtime_post_completion`; `false` = ring full (post returns -1,
    nothing written, doorbell not rung) -/
def Rt.push (s : Rt) (it : Item) : Rt × Bool :=
  if s.ring.length ≥ ringSize then (s, false) else ({ s with ring := s.ring ++ [it] }, true)

/-- atomic: `write(event_fd, 1)` — second half of a post, or the whole of `async_runtime_wakeup` -/
def Rt.ringBell (s : Rt) : Rt := { s with bell := s.bell + 1 }

/-- atomic: `epoll_wait(..., timeout 0)`: is the eventfd readable? -/
def Rt.poll (s : Rt) : Bool := s.bell > 0

/-- atomic: `read(event_fd)` until EAGAIN: the counter is reset -/
def Rt.drain (s : Rt) : Rt := { s with bell := 0 }

/-- atomic (ring_lock held, nobody else can touch the ring): copy out up to `max` entries -/
def Rt.take (s : Rt) (max : Nat) : Rt × List Item :=
  ({ s with ring := s.ring.drop max }, s.ring.take max)

/-- atomic (still under ring_lock): the caller's array was full and entries remain: `write(event_fd, 1)` again -/
def Rt.rearm (s : Rt) : Rt := { s with bell := if s.ring.isEmpty then s.bell else s.bell + 1 }

/-- the whole locked section of `async_runtime_wait`: take up to `max` entries, ring again when some remain -/
def Rt.pop (s : Rt) (max : Nat) : Rt × List Item :=
  let out := s.ring.take max
  let rest := s.ring.drop max
  ({ bell := if rest.isEmpty then s.bell else s.bell + 1, ring := rest }, out)

theorem Rt.pop_eq_take_rearm (s : Rt) (max : Nat) : s.pop max = ((s.take max).1.rearm, (s.take max).2) := rfl

/-- one whole `async_runtime_post_completion` call; result = return code -/
def Rt.post (s : Rt) (it : Item) : Rt × Int :=
  match s.push it with
  | (s', true) => (s'.ringBell, 0)
  | (s', false) => (s', -1)

/-- one whole `async_runtime_wait(rt, ev, max, {0,0})` call (`max ≥ 1`) -/
def Rt.wait (s : Rt) (max : Nat) : Rt × List Item :=
  if s.poll then s.drain.pop max else (s, [])

/-! ## async_queue -/

structure Msg where
  p : Nat
  v : Nat
  size : Nat
  deriving Repr, DecidableEq, Inhabited

def flagDropOldest : Nat := Gen.C19.queueDropOldest
def flagBlockWriter : Nat := Gen.C19.queueBlockWriter

structure Q where
  cap : Nat
  maxMsg : Nat
  flags : Nat
  slots : List Msg          -- `buffer`, `cap` slots
  head : Nat := 0           -- write position
  tail : Nat := 0           -- read position
  count : Nat := 0
  enqCount : Nat := 0
  deqCount : Nat := 0
  dropCount : Nat := 0
  deriving Repr, DecidableEq

def Q.dropOldest (q : Q) : Bool := q.flags &&& flagDropOldest != 0
def Q.blockWriter (q : Q) : Bool := q.flags &&& flagBlockWriter != 0

/-- `async_queue_create`: NULL when capacity or max_msg_size is 0 -/
def Q.create (cap maxMsg flags : Nat) : Option Q :=
  if cap = 0 ∨ maxMsg = 0 then none
  else some { cap, maxMsg, flags, slots := List.replicate cap ⟨0, 0, 0⟩ }

inductive EnqRes
  | ok                       -- returned true
  | fail                     -- returned false
  | blocked                  -- BLOCK_WRITER: the caller sleeps on `not_full` (nothing changed)
  | crash                    -- slot index outside the buffer
  deriving Repr, DecidableEq

/-- `async_queue_enqueue`, atomic under the mutex (a blocked writer releases the mutex and retries later) -/
def Q.enqueue (q : Q) (m : Msg) : Q × EnqRes :=
  if m.size = 0 ∨ m.size > q.maxMsg then (q, .fail)
  else
    -- `while (count >= capacity)`: DROP_OLDEST is tested first and makes room in one iteration
    let r : Option Q :=
      if q.count ≥ q.cap then
        if q.dropOldest then
          some { q with tail := (q.tail + 1) % q.cap, count := q.count - 1, dropCount := q.dropCount + 1 }
        else none
      else some q
    match r with
    | none => (q, if q.blockWriter then .blocked else .fail)
    | some q =>
      if q.head < q.slots.length then
        ({ q with slots := q.slots.set q.head m, head := (q.head + 1) % q.cap, count := q.count + 1,
                  enqCount := q.enqCount + 1 }, .ok)
      else (q, .crash)

inductive DeqRes
  | none                     -- returned false (empty, or caller's buffer too small: message stays)
  | msg (m : Msg)
  | crash
  deriving Repr, DecidableEq

/-- `async_queue_dequeue`, atomic under the mutex -/
def Q.dequeue (q : Q) (bufSize : Nat) : Q × DeqRes :=
  if q.count = 0 then (q, .none)
  else match q.slots[q.tail]? with
    | Option.none => (q, .crash)
    | some m =>
      if m.size > bufSize then (q, .none)
      else ({ q with tail := (q.tail + 1) % q.cap, count := q.count - 1, deqCount := q.deqCount + 1 }, .msg m)

def Q.clear (q : Q) : Q := { q with head := 0, tail := 0, count := 0 }

/-- `async_queue_clear` ends with `if (flags & BLOCK_WRITER) platform_event_set(&not_full)` — read from the source on
    every run -/
def clearSignals : Bool := Gen.C19.clearSignalsNotFull

/-! ## worker thread -/

inductive WState | stopped | running
  deriving Repr, DecidableEq

/-- where the worker THREAD is -/
inductive ThPhase
  | notSpawned   -- `pthread_create` has not been called yet
  | spawned      -- pthread_create done, wrapper has not stored RUNNING yet (hook point 1)
  | inproc       -- inside `worker->proc`
  | returned     -- proc returned, STOPPED not stored yet (hook point 2)
  | stored       -- STOPPED stored, thread about to exit
  | exited
  deriving Repr, DecidableEq

structure Wk where
  state : WState := .stopped       -- calloc: ASYNC_WORKER_STOPPED = 0
  stopEv : Bool := false
  th : ThPhase := .notSpawned
  joined : Bool := false
  destroyed : Bool := false
  deriving Repr, DecidableEq

/-- atomic actions of the thread inside `async_worker_create` -/
inductive CrAct
  | store (v : WState)     -- `worker->state = v`
  | spawn                  -- `pthread_create(...)` returns 0
  deriving Repr, DecidableEq

def stateOfNat (n : Nat) : WState := if n = Gen.C19.workerRunning then .running else .stopped

/-- `async_worker_create` AS THE SOURCE HAS IT (regenerated every run): the stores into `worker->state` in front of
    the `pthread_create` call, the call, the stores behind it -/
def createProg : List CrAct :=
  (Gen.C19.createStoresBeforeSpawn.map fun n => CrAct.store (stateOfNat n)) ++ [.spawn] ++
  (Gen.C19.createStoresAfterSpawn.map fun n => CrAct.store (stateOfNat n))

def Wk.crStep (w : Wk) : CrAct → Wk
  | .store v => { w with state := v }
  | .spawn => { w with th := .spawned }

/-- one atomic step of the worker thread (`worker_thread_proc`: store RUNNING; proc; store STOPPED; exit);
    `procReturns` = the user procedure returns now (it is arbitrary code: the scheduler decides) -/
def Wk.threadStep (w : Wk) (procReturns : Bool) : Wk :=
  match w.th with
  | .notSpawned => w
  | .spawned => { w with state := .running, th := .inproc }
  | .inproc => if procReturns then { w with th := .returned } else w
  | .returned => { w with state := .stopped, th := .stored }
  | .stored => { w with th := .exited }
  | .exited => w

/-- the whole thread at once (a procedure that returns immediately) -/
def Wk.runThread (w : Wk) : Wk := (((w.threadStep true).threadStep true).threadStep true).threadStep true

/-- `async_worker_create` run by one thread without interruption; `race` = the new thread runs to its end INSIDE the
    `pthread_create` call, before the creator continues (short-lived worker, creator preempted) -/
def Wk.createSeq (race : Bool) : List CrAct → Wk → Wk
  | [], w => w
  | .spawn :: rest, w => Wk.createSeq race rest (if race then (w.crStep .spawn).runThread else w.crStep .spawn)
  | a :: rest, w => Wk.createSeq race rest (w.crStep a)

/-- the worker as `async_worker_create` returns it, the new thread not having run yet -/
def Wk.create : Wk := Wk.createSeq false createProg {}

def Wk.signalStop (w : Wk) : Wk := { w with stopEv := true }

/-- poll interval of the timed join, ms -/
def pollMs : Nat := 10

/-- number of 10 ms sleeps a timed join performs when the state never becomes STOPPED:
    `while (state != STOPPED && elapsed < t) { sleep; elapsed += 10; }` -/
def sleepsFor (t : Nat) : Nat := (t + pollMs - 1) / pollMs

/-! ## timer -/

structure Tm where
  inited : Bool := false
  active : Bool := false
  stopReq : Bool := false
  hasThread : Bool := false          -- a joinable std::thread exists
  interval : Nat := 0
  deriving Repr, DecidableEq

def timerOk : Int := 0
def timerErrNull : Int := Gen.C19.timerErrNullParam
def timerErrActive : Int := Gen.C19.timerErrAlreadyActive
def timerErrInterval : Int := Gen.C19.timerErrInvalidInterval

end NV.C19
