/-
C19 — property theorems.  Every theorem quantifies over ALL schedules: a schedule is an arbitrary list of
scheduler choices (NV/C19/Sched.lean), the proofs are inductions on that list (NV/C19/Lemmas*.lean).
The models are those of the code after the `fix:` commits listed in notes/C19.md; the code as it was is
refuted in NV/C19/Witness.lean.
-/
import NV.C19.LemmasRt
import NV.C19.LemmasQ
import NV.C19.LemmasWk

namespace NV.C19

/-! ## event loop -/

theorem remaining_init (progs : List (List POp)) :
    remaining (progs.map (fun t => ({ todo := t } : Prod))) = progs.flatMap postsOf := by
  induction progs with
  | nil => rfl
  | cons a l ih => simp only [remaining, List.map_cons, List.flatMap_cons] at ih ⊢; rw [ih]

theorem RtSys.step_order (s : RtSys) (i : Nat) : (s.step i).order = s.order := by
  unfold RtSys.step
  split
  · unfold RtSys.prodStep
    repeat' split
    all_goals rfl
  · unfold RtSys.consStep
    repeat' split
    all_goals rfl

theorem RtSys.run_order (s : RtSys) (picks : List Nat) : (s.run picks).order = s.order := by
  induction picks generalizing s with
  | nil => rfl
  | cons i r ih => simp only [RtSys.run, List.foldl_cons] at ih ⊢; rw [ih, RtSys.step_order]

/-- **Completions are delivered exactly once, unmerged, in order — in every interleaving.**
Any number of producer threads run arbitrary programs of `post(key,data)` / `wakeup` calls, the backend runs
an arbitrary list of `wait(max)` calls, and the scheduler interleaves their atomic actions (locked push, doorbell
write; epoll poll, eventfd read, lock + copy-out, re-arm write, unlock — a push blocks while the backend holds
ring_lock, a doorbell write never blocks) in any way (`picks`).  Then

1. at every moment the events returned by the waits so far, followed by what is still queued, are exactly the
   accepted completions with their key and data, in the order in which they were pushed — nothing is merged,
   garbled, duplicated or invented, and a wake-up delivers no event;
2. whenever all threads have finished their calls, a backend that keeps calling `wait(max)` until one returns
   nothing has received every accepted completion (none is left behind without a doorbell), and the accepted
   and refused completions together are, as a multiset, exactly what the producers posted.  A completion is
   refused (post returns -1) only when the ring already holds `completionRingSize` undelivered entries. -/
theorem posts_delivered_exactly_once (progs : List (List POp)) (waits picks : List Nat) (max : Nat) (hmax : 0 < max) :
    let s := (RtSys.init progs waits).run picks
    s.delivered.flatten ++ s.rt.ring = s.accepted ∧
    (s.quiescent →
      s.delivered.flatten ++ flushAll max (s.rt.ring.length + 1) s.rt = s.accepted ∧
      (s.accepted ++ s.refused).Perm (progs.flatMap postsOf)) := by
  intro s
  have hsafe : s.Safe := RtSys.safe_run _ picks (by simp [RtSys.Safe, RtSys.init])
  have hbell : s.Bell := RtSys.bell_run _ picks (by intro _ h; simp [RtSys.init] at h)
  have hord : s.order = .bellFirst := by rw [RtSys.run_order]; rfl
  have hbooks : s.Books (progs.flatMap postsOf) :=
    RtSys.books_run _ picks _ (by simp [RtSys.Books, RtSys.init, remaining_init])
  refine ⟨hsafe, ?_⟩
  intro hq
  constructor
  · rw [flushAll_eq_ring max hmax _ _ (Nat.lt_succ_self _)]
    · exact hsafe
    · intro hne
      rcases hbell hord hne with hb | ⟨p, hp, hpr⟩ | ⟨m, hm⟩ | ht
      · exact hb
      · have := (hq.1 p hp).2; simp [hpr] at this
      · have := hq.2; simp [hm] at this
      · have := hq.2; simp [ht] at this
  · have := hbooks
    simp only [RtSys.Books, remaining_quiescent _ hq.1, List.append_nil] at this
    exact this

/-- with no refusal (at most `completionRingSize` completions ever undelivered) the multiset received by the
    backend is the multiset posted -/
theorem posts_multiset_preserved (progs : List (List POp)) (waits picks : List Nat) (max : Nat) (hmax : 0 < max) :
    let s := (RtSys.init progs waits).run picks
    s.quiescent → s.refused = [] →
    (s.delivered.flatten ++ flushAll max (s.rt.ring.length + 1) s.rt).Perm (progs.flatMap postsOf) := by
  intro s hq hr
  obtain ⟨_, h2⟩ := posts_delivered_exactly_once progs waits picks max hmax
  obtain ⟨h3, h4⟩ := h2 hq
  have hr' : ((RtSys.init progs waits).run picks).refused = [] := hr
  rw [h3]
  rw [hr', List.append_nil] at h4
  exact h4

/-- the statement "no wake-up is lost" for a given order of doorbell reset and ring drain inside `wait` -/
def NoLostWakeup (o : Order) : Prop :=
  ∀ (progs : List (List POp)) (waits picks : List Nat),
    let s := (RtSys.init progs waits o).run picks
    s.cph = .idle → s.rt.ring ≠ [] → s.rt.bell > 0 ∨ ∃ p ∈ s.prods, p.pendingRing = true

/-- **No lost wake-up.**  In every interleaving of the atomic steps of posts, wake-ups and waits, whenever the backend
is about to call `epoll_wait` (so: whenever a wait would go to sleep) while the completion ring is not empty, the
doorbell counter is non-zero — `epoll_wait` returns at once — or a producer is between its push and its doorbell write
and rings as its very next step.  This is what resetting the doorbell BEFORE draining the ring establishes; the
opposite order breaks it (`NV.C19.Swapped.not_noLostWakeup`). -/
theorem no_lost_wakeup : NoLostWakeup .bellFirst := by
  intro progs waits picks s hidle hne
  have hbell : s.Bell := RtSys.bell_run _ picks (by intro _ h; simp [RtSys.init] at h)
  have hord : s.order = .bellFirst := by rw [RtSys.run_order]; rfl
  rcases hbell hord hne with hb | hp | ⟨m, hm⟩ | ht
  · exact Or.inl hb
  · exact Or.inr hp
  · simp [hidle] at hm
  · simp [hidle] at ht

/-- corollary in the words of the oracle: once every post that pushed has also rung, a non-empty ring makes the next
    `epoll_wait` return immediately -/
theorem posted_completion_wakes_next_wait (progs : List (List POp)) (waits picks : List Nat) :
    let s := (RtSys.init progs waits).run picks
    s.cph = .idle → s.rt.ring ≠ [] → (∀ p ∈ s.prods, p.pendingRing = false) → s.rt.poll = true := by
  intro s hidle hne hnp
  rcases no_lost_wakeup progs waits picks hidle hne with hb | ⟨p, hp, hpr⟩
  · simpa [Rt.poll] using hb
  · have := hnp p hp; simp [hpr] at this

/-- non-vacuity: the interleaving that loses the wake-up in the other order — a second producer posts while the
    backend is between its steps — here leaves the doorbell set -/
example :
    ((RtSys.init [[.post 1 1], [.post 2 2]] [8, 8]).run [0, 0, 2, 2, 1, 1, 2, 2, 2]).rt = { bell := 1, ring := [] } := by
  decide
example :
    ((RtSys.init [[.post 1 1], [.post 2 2]] [8, 8]).run [0, 0, 2, 2, 2, 2, 2, 1, 1]).rt = { bell := 1, ring := [(2, 2)] } := by
  decide

/-- a post is refused only on a full ring -/
theorem post_refused_only_when_full (rt : Rt) (it : Item) : (rt.post it).2 = -1 → rt.ring.length ≥ ringSize := by
  unfold Rt.post Rt.push
  split <;> rename_i h <;> split at h <;> simp_all

/-- non-vacuity: two producers, posts piled up together with a wake-up before the backend polls; all threads
    finish, both completions arrive unmerged -/
example :
    ((RtSys.init [[.post 4097 5, .post 4097 7], [.wakeup]] [8]).run [0, 0, 0, 1, 0, 2, 2, 2, 2, 2]).delivered
      = [[(4097, 5), (4097, 7)]] := by decide
example :
    ((RtSys.init [[.post 4097 5, .post 4097 7], [.wakeup]] [8]).run [0, 0, 0, 1, 0, 2, 2, 2, 2, 2]).quiescent := by
  unfold RtSys.quiescent; decide

/-! ## queue -/

/-- **The queue hands over each accepted message exactly once in FIFO order; ring indices stay in range.**
For a queue made by `async_queue_create` and ANY sequence of enqueue / dequeue calls (each atomic under the
mutex, made by any threads): no slot index ever leaves the buffer (`crashed = false`, `head, tail < cap`,
`count ≤ cap`), and the messages that have left the queue (dequeued or dropped, in that order) followed by
the messages still in it are exactly the accepted messages in the order they were accepted.  So every accepted
message is in exactly one of {dequeued, dropped, still queued}, and dequeues see them in acceptance order. -/
theorem queue_fifo_exactly_once (cap mm fl : Nat) (q : Q) (hq : Q.create cap mm fl = some q) (ops : List QOp) :
    let s := QSys.run { q } ops
    s.crashed = false ∧ s.q.head < cap ∧ s.q.tail < cap ∧ s.q.count ≤ cap ∧
    s.left.map Left.msg ++ s.q.contents = s.accepted := by
  intro s
  obtain ⟨hinv, hc, hcap⟩ := Q.inv_create hq
  have hg0 : ({ q } : QSys).Good := ⟨hinv, rfl, by simp [hc], by intro _ l hl; simp at hl⟩
  obtain ⟨hg, hcap', _⟩ := QSys.good_run _ ops hg0
  have hcs : s.q.cap = cap := by rw [← hcap]; exact hcap'
  refine ⟨hg.nocrash, ?_, ?_, ?_, hg.fifo⟩
  · rw [← hcs]; exact hg.inv.head_lt
  · rw [← hcs]; exact hg.inv.tail_lt
  · rw [← hcs]; exact hg.inv.count_le

/-- **Drops, refusals and blocking happen exactly as the overflow policy states.**  In every reachable state the
next `enqueue(m)` behaves as `EnqSpec` says (NV/C19/LemmasQ.lean): bad size → false, nothing changes; room →
true, `m` appended; full with DROP_OLDEST → true, exactly the OLDEST message is dropped and `m` appended; full with
BLOCK_WRITER only → the writer blocks, nothing changes; full with neither → false, nothing changes.  Moreover a
queue without DROP_OLDEST never drops anything. -/
theorem queue_drop_policy (cap mm fl : Nat) (q : Q) (hq : Q.create cap mm fl = some q) (ops : List QOp) (m : Msg) :
    let s := QSys.run { q } ops
    EnqSpec s.q (s.q.enqueue m).1 m (s.q.enqueue m).2 ∧
    s.q.contents.length = s.q.count ∧
    (s.q.dropOldest = false → ∀ l ∈ s.left, ∃ m', l = .dequeued m') := by
  intro s
  obtain ⟨hinv, hc, _⟩ := Q.inv_create hq
  have hg0 : ({ q } : QSys).Good := ⟨hinv, rfl, by simp [hc], by intro _ l hl; simp at hl⟩
  obtain ⟨hg, _, _⟩ := QSys.good_run _ ops hg0
  exact ⟨(Q.enqueue_spec s.q hg.inv m).2.2.2, Q.contents_length _, hg.nodrop⟩

/-- every dequeue behaves as `DeqSpec` says: empty → false; oldest message larger than the caller's buffer →
    false and the message stays; otherwise the OLDEST message is returned and removed -/
theorem queue_dequeue_oldest (cap mm fl : Nat) (q : Q) (hq : Q.create cap mm fl = some q) (ops : List QOp) (buf : Nat) :
    let s := QSys.run { q } ops
    DeqSpec s.q (s.q.dequeue buf).1 buf (s.q.dequeue buf).2 := by
  intro s
  obtain ⟨hinv, hc, _⟩ := Q.inv_create hq
  have hg0 : ({ q } : QSys).Good := ⟨hinv, rfl, by simp [hc], by intro _ l hl; simp at hl⟩
  obtain ⟨hg, _, _⟩ := QSys.good_run _ ops hg0
  exact (Q.dequeue_spec s.q hg.inv buf).2.2.2

/-- non-vacuity: capacity 2, DROP_OLDEST; the third enqueue drops message 1, the ring wraps -/
def exQ : Q := { cap := 2, maxMsg := 16, flags := flagDropOldest, slots := [⟨0, 0, 0⟩, ⟨0, 0, 0⟩] }
example : Q.create 2 16 flagDropOldest = some exQ := by decide
example :
    (QSys.run { q := exQ } [.enq ⟨1, 1, 8⟩, .enq ⟨1, 2, 8⟩, .enq ⟨1, 3, 8⟩, .deq 16]).left
      = [.dropped ⟨1, 1, 8⟩, .dequeued ⟨1, 2, 8⟩] := by decide
example :
    (QSys.run { q := exQ } [.enq ⟨1, 1, 8⟩, .enq ⟨1, 2, 8⟩, .enq ⟨1, 3, 8⟩, .deq 16]).q.contents = [⟨1, 3, 8⟩] := by decide

/-! ## worker -/

theorem WSys.step_t (s : WSys) (a : WAct) : (s.step a).t = s.t := by
  cases a with
  | creator => simp only [WSys.step]; split <;> rfl
  | thread b => rfl
  | stop => rfl
  | ctl =>
    simp only [WSys.step]
    split
    · rfl
    · split
      · rfl
      · split <;> rfl

theorem WSys.run_t (s : WSys) (acts : List WAct) : (s.run acts).t = s.t := by
  induction acts generalizing s with
  | nil => rfl
  | cons a r ih => simp only [WSys.run, List.foldl_cons] at ih ⊢; rw [ih, WSys.step_t]

/-- **A timed join is bounded in every schedule.**  `async_worker_create` runs step by step as the source orders it
(`createProg`, regenerated), anything may happen (`pre`: steps of the creator, of the new thread — which may even
finish before the creator's next step —, stop signals), then some thread calls
`async_worker_join(w, t)` with `t ≥ 0` while the worker thread, the procedure it runs (which returns whenever the
scheduler says, possibly never) and stop signals interleave arbitrarily (`acts`).  Then the joining thread
executes at most `⌈t/10⌉ + 2` steps (so at most `⌈t/10⌉` sleeps of 10 ms: it returns within `t` + one poll
interval), its elapsed counter never exceeds `t + 9`, and it enters the untimed `pthread_join` only when the
worker thread has already stored STOPPED, i.e. is past the user procedure and exits by itself. -/
theorem timed_join_bounded (t : Nat) (pre acts : List WAct) :
    let s := (WSys.start t pre).run acts
    s.work ≤ sleepsFor t + 2 ∧
    (∀ e, s.pc = .loop e → e < t + pollMs) ∧
    (s.pc = .pjoin → s.w.th = .stored ∨ s.w.th = .exited) := by
  intro s
  have hinv : s.Inv := WSys.inv_run _ acts (WSys.inv_start t pre)
  have ht : s.t = t := by
    show ((WSys.start t pre).run acts).t = t
    rw [WSys.run_t]
    show ((WSys.fresh createProg t).run pre).t = t
    rw [WSys.run_t]; rfl
  obtain ⟨_, h2⟩ := hinv
  rw [ht] at h2
  cases hpc : s.pc with
  | loop e =>
    simp only [hpc] at h2
    refine ⟨?_, ?_, by simp⟩
    · simp only [pollMs, sleepsFor] at h2 ⊢; omega
    · intro e' he'; cases he'; exact h2.2
  | pjoin =>
    simp only [hpc] at h2
    exact ⟨by omega, by simp, fun _ => h2.1⟩
  | done r =>
    simp only [hpc] at h2
    exact ⟨h2, by simp, by simp⟩

/-- the joining thread is never blocked for longer than one step of the worker thread: inside `pthread_join`,
    one more step of the worker thread (whatever the procedure does) lets the join return true -/
theorem timed_join_progress (t : Nat) (pre acts : List WAct) (b : Bool) :
    let s := (WSys.start t pre).run acts
    s.pc = .pjoin → ((s.step (.thread b)).step .ctl).pc = .done true := by
  intro s hpc
  have h : s.w.th = .stored ∨ s.w.th = .exited := (timed_join_bounded t pre acts).2.2 hpc
  have hinv : s.Inv := WSys.inv_run _ acts (WSys.inv_start t pre)
  have hcr : s.creator = [] := by
    rcases hinv.1 with ⟨_, hth⟩ | ⟨_, hth, _⟩ | ⟨hc, _, _⟩
    · rcases h with h | h <;> (have := hth.symm.trans h; cases this)
    · rcases h with h | h <;> (have := hth.symm.trans h; cases this)
    · exact hc
  rcases h with h | h <;> simp [WSys.step, hpc, hcr, Wk.joinStep, Wk.threadStep, h]

/-- **Once the thread wrapper has stored STOPPED, no later action stores RUNNING**: in every interleaving of the
creator's steps (in the order the source has them), the new thread's steps and stop signals, whenever the worker
thread is past its STOPPED store the state field reads STOPPED.  (With the RUNNING store of `async_worker_create`
behind the `pthread_create` call this is false: `NV.C19.LateStore.state_stuck_running`.) -/
theorem state_eventually_stopped_after_proc_returns (t : Nat) (pre acts : List WAct) :
    let s := (WSys.start t pre).run acts
    (s.w.th = .stored ∨ s.w.th = .exited) → s.w.state = .stopped := by
  intro s h
  have hinv : s.Inv := WSys.inv_run _ acts (WSys.inv_start t pre)
  rcases hinv.1 with ⟨_, hth⟩ | ⟨_, hth, _⟩ | ⟨_, _, hok⟩
  · rcases h with h | h <;> (have := hth.symm.trans h; cases this)
  · rcases h with h | h <;> (have := hth.symm.trans h; cases this)
  · exact hok.mpr h

/-- **A timed join issued after the worker procedure has returned (e.g. after a stop signal was honoured) returns
true**: if the thread is past its STOPPED store when the join begins, then in every continuation the join is never
at `done false` — it sees STOPPED at its first test, enters `pthread_join` and comes back true as soon as the thread
has exited. -/
theorem timed_join_returns_true_after_stop (t : Nat) (pre acts : List WAct) :
    ((WSys.start t pre).w.th = .stored ∨ (WSys.start t pre).w.th = .exited) →
    ((WSys.start t pre).run acts).pc ≠ .done false := by
  intro h0
  -- invariant: thread past the store, creator finished, state STOPPED, join not failed
  suffices H : ∀ (acts : List WAct) (s : WSys), s.creator = [] → (s.w.th = .stored ∨ s.w.th = .exited) →
      s.w.state = .stopped → s.pc ≠ .done false → (s.run acts).pc ≠ .done false by
    have hinv := WSys.inv_start t pre
    have hcr : (WSys.start t pre).creator = [] := by
      rcases hinv.1 with ⟨_, hth⟩ | ⟨_, hth, _⟩ | ⟨hc, _, _⟩
      · rcases h0 with h | h <;> (have := hth.symm.trans h; cases this)
      · rcases h0 with h | h <;> (have := hth.symm.trans h; cases this)
      · exact hc
    have hst : (WSys.start t pre).w.state = .stopped := by
      rcases hinv.1 with ⟨_, hth⟩ | ⟨_, hth, _⟩ | ⟨_, _, hok⟩
      · rcases h0 with h | h <;> (have := hth.symm.trans h; cases this)
      · rcases h0 with h | h <;> (have := hth.symm.trans h; cases this)
      · exact hok.mpr h0
    exact H acts _ hcr h0 hst (by simp [WSys.start, WSys.startWith])
  intro acts
  induction acts with
  | nil => intro s _ _ _ hp; exact hp
  | cons a r ih =>
    intro s hcr hth hst hp
    simp only [WSys.run, List.foldl_cons]
    obtain ⟨w, creator, t', pc, work⟩ := s
    simp only at hcr hth hst hp
    subst hcr
    cases a with
    | creator => exact ih _ rfl hth hst hp
    | stop => exact ih _ rfl hth hst hp
    | thread b =>
      apply ih _ rfl
      · rcases hth with h | h <;> simp [WSys.step, Wk.threadStep, h]
      · rcases hth with h | h <;> simp [WSys.step, Wk.threadStep, h, hst]
      · exact hp
    | ctl =>
      cases pc with
      | done r => exact ih _ rfl hth hst hp
      | loop e =>
        have : (WSys.step ⟨w, [], t', .loop e, work⟩ .ctl) = ⟨w, [], t', .pjoin, work + 1⟩ := by
          simp [WSys.step, Wk.joinStep, hst]
        rw [this]
        exact ih _ rfl hth hst (by simp)
      | pjoin =>
        by_cases hex : w.th = .exited
        · have : (WSys.step ⟨w, [], t', .pjoin, work⟩ .ctl) = ⟨w, [], t', .done true, work + 1⟩ := by
            simp [WSys.step, Wk.joinStep, hex]
          rw [this]
          exact ih _ rfl hth hst (by simp)
        · have : (WSys.step ⟨w, [], t', .pjoin, work⟩ .ctl) = ⟨w, [], t', .pjoin, work⟩ := by
            simp [WSys.step, Wk.joinStep, hex]
          rw [this]
          exact ih _ rfl hth hst (by simp)

/-- non-vacuity: a short-lived worker whose thread finishes INSIDE the creator's `pthread_create` call; the join then
    finds STOPPED at once and returns true -/
example : ((WSys.start 50 [.creator, .creator, .thread true, .thread true, .thread true, .thread true]).run
    [.ctl, .ctl]).pc = .done true := by decide

/-- non-vacuity: join(25) issued before the new thread has run at all, no stop signalled: three sleeps, false -/
example : ((WSys.start 25 [.creator, .creator]).run [.ctl, .thread false, .ctl, .ctl, .ctl]).pc = .done false := by decide
example : ((WSys.start 25 [.creator, .creator]).run [.ctl, .thread false, .ctl, .ctl, .ctl]).work = 4 ∧ sleepsFor 25 = 3 := by decide

/-! ## timer -/

/-- **No callback runs after `platform_timer_stop` has returned**, in every interleaving of the timer thread
(whose timed waits end by time-out, notification or spuriously, as the scheduler likes) with the stopping thread. -/
theorem no_callback_after_stop (acts : List TAct) : logOk (({} : TSys).run acts).log = true :=
  (TSys.inv_run _ acts TSys.inv_init).2.2.1

/-- **Stopping the timer terminates**: once `stop_requested` is set, whatever the timer thread is doing, two of
its own steps later it has exited — at most ONE of them is a timed wait, which ends at the next tick at the latest
(delay ≤ one interval) — and the stopping thread, which blocks only in `join`, then returns. -/
theorem timer_stop_terminates (acts : List TAct) (b1 b2 : Bool) :
    let s := ({} : TSys).run acts
    s.stopReq = true →
    ((s.step (.thr b1)).step (.thr b2)).tpc = .exited ∧
    (s.spc = .notified → (((s.step (.thr b1)).step (.thr b2)).step .stopper).spc = .returned) := by
  intro s hstop
  obtain ⟨active, stopReq, tpc, spc, log⟩ := s
  simp only at hstop
  subst hstop
  cases tpc <;> simp [TSys.step] <;> intro h <;> simp [h]

/-- the stopping thread reaches `join` without ever waiting -/
theorem timer_stop_reaches_join (acts : List TAct) :
    let s := ({} : TSys).run acts
    s.spc = .idle → ((((s.step .stopper).step .stopper).step .stopper).spc = .notified ∧
                     (((s.step .stopper).step .stopper).step .stopper).stopReq = true) := by
  intro s h
  simp [TSys.step, h]

/-- non-vacuity: a callback is in flight while stop runs; it completes before stop returns, none after -/
example :
    (({} : TSys).run [.thr true, .thr true, .thr true, .stopper, .stopper, .thr true, .stopper, .stopper,
                      .thr true, .thr true, .stopper, .thr true]).log = [.stopReturned, .cb] := by decide

end NV.C19
