import NV.C19.Run
import NV.C19.Spec
namespace NV.C19
end NV.C19
