/-
C19 — the eventfd counter is finite: the overflow bound as an EXPLICIT hypothesis, and how far away it is.

`Rt.ringBell` (Model.lean) adds 1 to an unbounded `Nat`.  The kernel's eventfd counter holds at most 2^64 - 2; a write
that would exceed it fails with EAGAIN on a non-blocking eventfd (the epoll back end creates it with EFD_NONBLOCK), and
`async_runtime_post_completion` / `async_runtime_wakeup` then return -1 — for a post, AFTER the completion has been
pushed (it is still delivered: the doorbell is certainly rung).  This file states the bounded operations, proves that
below the bound they ARE the unbounded ones, and that a run of n scheduler steps cannot bring the counter above n: the
bound matters only after 2^64 - 2 doorbell writes with no wait in between.
-/
import NV.C19.LemmasRt

namespace NV.C19

/-- kernel: maximum value of an eventfd counter (ULLONG_MAX - 1) — a hypothesis about the platform, not read from the
    driver's source -/
def eventfdMax : Nat := 2 ^ 64 - 2

/-- `write(event_fd, &one, 8)` on a non-blocking eventfd: fails (EAGAIN, counter unchanged) when it would overflow -/
def Rt.ringBellK (s : Rt) : Rt × Bool :=
  if s.bell + 1 > eventfdMax then (s, false) else (s.ringBell, true)

/-- `async_runtime_post_completion` with the bounded doorbell: -1 also when the write fails (entry stays queued) -/
def Rt.postK (s : Rt) (it : Item) : Rt × Int :=
  match s.push it with
  | (s', true) => (match s'.ringBellK with | (s'', true) => (s'', 0) | (s'', false) => (s'', -1))
  | (s', false) => (s', -1)

/-- **Below the bound the model is exact.** -/
theorem post_exact_below_overflow (s : Rt) (it : Item) (h : s.bell < eventfdMax) : s.postK it = s.post it := by
  unfold Rt.postK Rt.post Rt.ringBellK
  have hb : (s.push it).1.bell = s.bell := by
    unfold Rt.push; split <;> rfl
  generalize hp : s.push it = r at hb
  obtain ⟨s', ok⟩ := r
  simp only at hb
  cases ok with
  | false => rfl
  | true =>
    simp only
    have : ¬ (s'.bell + 1 > eventfdMax) := by rw [hb]; omega
    simp [this]

/-- at the bound: the post reports failure, yet the completion IS queued and the doorbell IS rung (it will be
    delivered) — the only divergence between return code and effect, stated so that nobody has to guess -/
theorem post_at_overflow_still_queued (s : Rt) (it : Item) (hroom : s.ring.length < ringSize) (h : s.bell = eventfdMax) :
    (s.postK it).2 = -1 ∧ (s.postK it).1.ring = s.ring ++ [it] ∧ (s.postK it).1.poll = true := by
  have hp : s.push it = ({ s with ring := s.ring ++ [it] }, true) := by
    have : ¬ s.ring.length ≥ ringSize := by omega
    simp [Rt.push, this]
  have hov : (s.bell + 1 > eventfdMax) := by omega
  simp [Rt.postK, hp, Rt.ringBellK, hov, Rt.poll, h, eventfdMax]

theorem RtSys.prodStep_bell (s : RtSys) (i : Nat) : (s.prodStep i).rt.bell ≤ s.rt.bell + 1 := by
  unfold RtSys.prodStep
  cases s.prods[i]? with
  | none => exact Nat.le_succ _
  | some p =>
    simp only
    cases hp : p.pendingRing with
    | true => simp [Rt.ringBell]
    | false =>
      simp only [Bool.false_eq_true, if_false]
      cases p.todo with
      | nil => exact Nat.le_succ _
      | cons op r =>
        cases op with
        | wakeup => simp [Rt.ringBell]
        | post k d =>
          simp only
          cases s.locked with
          | true => simp
          | false =>
            simp only [Bool.false_eq_true, if_false]
            have hb : (s.rt.push (k, d)).1.bell = s.rt.bell := by unfold Rt.push; split <;> rfl
            generalize s.rt.push (k, d) = res at hb
            obtain ⟨rt', ok⟩ := res
            cases ok <;> simp_all

theorem RtSys.consStep_bell (s : RtSys) : s.consStep.rt.bell ≤ s.rt.bell + 1 := by
  unfold RtSys.consStep
  cases s.cph with
  | idle =>
    simp only
    cases s.waits with
    | nil => exact Nat.le_succ _
    | cons m r => simp only; split <;> exact Nat.le_succ _
  | polled m =>
    simp only
    cases s.order <;> simp [Rt.drain, Rt.take]
  | drained m => simp [Rt.take]
  | took => simp only [Rt.rearm]; split <;> simp
  | rearmed => simp
  | tookS e => simp only; split <;> simp
  | unlockedS e =>
    simp only
    split
    · cases e <;> simp [Rt.drain]
    · simp

theorem RtSys.bell_step (s : RtSys) (i : Nat) : (s.step i).rt.bell ≤ s.rt.bell + 1 := by
  unfold RtSys.step
  split
  · exact RtSys.prodStep_bell s i
  · exact RtSys.consStep_bell s

/-- **The bound is 2^64 - 2 scheduler steps away.**  However producers, wake-ups and waits interleave, after n steps
the doorbell counter is at most n: no write can fail before the system has made 2^64 - 2 steps. -/
theorem bell_le_steps (progs : List (List POp)) (waits picks : List Nat) :
    ((RtSys.init progs waits).run picks).rt.bell ≤ picks.length := by
  have key : ∀ (picks : List Nat) (s : RtSys), (s.run picks).rt.bell ≤ s.rt.bell + picks.length := by
    intro picks
    induction picks with
    | nil => intro s; exact Nat.le_refl _
    | cons i r ih =>
      intro s
      simp only [RtSys.run, List.foldl_cons, List.length_cons]
      have h1 := ih (s.step i)
      have h2 := RtSys.bell_step s i
      simp only [RtSys.run] at h1
      omega
  have := key picks (RtSys.init progs waits)
  simpa [RtSys.init] using this

theorem no_doorbell_overflow (progs : List (List POp)) (waits picks : List Nat) (h : picks.length < eventfdMax) :
    ((RtSys.init progs waits).run picks).rt.bell < eventfdMax :=
  Nat.lt_of_le_of_lt (bell_le_steps progs waits picks) h

end NV.C19
