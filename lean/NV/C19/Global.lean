/-
C19 — the model satisfies the specification oracle: `judgeEv (events cmds) = []` for EVERY command list.
Proof: a simulation relation `Rel` between the model state (`World`) and the oracle state (`JState`), preserved by
every command together with the events it emits.
-/
import NV.C19.Spec
import NV.C19.LemmasQ
import NV.C19.LemmasWk

namespace NV.C19

def judgeRun (j : JState) (evs : List Ev) : JState := evs.foldl judgeStep j

theorem judgeRun_append (j : JState) (a b : List Ev) : judgeRun j (a ++ b) = judgeRun (judgeRun j a) b := by
  simp [judgeRun, List.foldl_append]

/-! ### association lists of workers -/

theorem find_insert {α} (l : List (Nat × α)) (w w' : Nat) (k : α) :
    (((w, k) :: l.filter (·.1 != w)).find? (·.1 == w')).map (·.2)
      = if w' = w then some k else (l.find? (·.1 == w')).map (·.2) := by
  by_cases h : w' = w
  · subst h; simp
  · have h1 : ¬ (w = w') := fun e => h e.symm
    simp only [List.find?_cons, h, if_false]
    have : (w == w') = false := by simpa using h1
    simp only [this]
    congr 1
    induction l with
    | nil => rfl
    | cons a t ih =>
      by_cases ha : a.1 = w
      · have : (a.1 != w) = false := by simp [ha]
        have h2 : (a.1 == w') = false := by simp [ha, h1]
        simp [List.filter_cons, this, List.find?_cons, h2, ih]
      · have : (a.1 != w) = true := by simp [ha]
        simp only [List.filter_cons, this, if_true, List.find?_cons]
        split
        · rfl
        · exact ih

theorem World.getW_setW (s : World) (w w' : Nat) (k : Wk) :
    (s.setW w k).getW w' = if w' = w then some k else s.getW w' := find_insert s.ws w w' k

theorem JState.getW_setW (j : JState) (w w' : Nat) (k : JW) :
    (j.setW w k).getW w' = if w' = w then some k else j.getW w' := find_insert j.ws w w' k

/-! ### the simulation relation -/

def jwOf (k : Wk) : JW := { exited := decide (k.th = .exited), stop := k.stopEv, joined := k.joined }

/-- worker states reachable in sequentialised schedules (the thread is parked at a yield point or gone) -/
structure WkOk (k : Wk) : Prop where
  phase : k.th = .spawned ∨ k.th = .inproc ∨ k.th = .exited
  state : k.state = .stopped ↔ k.th = .exited

structure QRel (q : Q) (bl : Option Msg) (jq : JQ) : Prop where
  inv : q.Inv
  cap : jq.cap = q.cap
  maxMsg : jq.maxMsg = q.maxMsg
  flags : jq.flags = q.flags
  contents : jq.contents = q.contents
  enq : jq.enq = q.enqCount
  deq : jq.deq = q.deqCount
  drop : jq.drop = q.dropCount
  blk : jq.blocked = bl
  wake : jq.mustWake = false
  bsize : ∀ m : Msg, bl = some m → ¬(m.size = 0 ∨ m.size > q.maxMsg)

def RelQ (sq : Option Q) (blocked : Option Msg) (jq : Option JQ) : Prop :=
  match sq, jq with
  | none, none => True
  | some q, some j => QRel q blocked j
  | _, _ => False

structure Rel (s : World) (j : JState) : Prop where
  nobad : j.bad = []
  items : j.outstanding.map (·.2) = s.rt.ring
  bell : s.rt.ring ≠ [] → s.rt.bell > 0
  q : RelQ s.q s.blocked j.q
  wlook : ∀ w, j.getW w = (s.getW w).map jwOf
  wok : ∀ w k, s.getW w = some k → WkOk k
  tInited : j.tInited = s.tm.inited
  tActive : j.tActive = s.tm.active
  tAI : s.tm.active = true → s.tm.inited = true
  tSlept : s.tm.active = true → j.tSlept = s.sleptActive ∧ j.tInterval = s.tm.interval
  tIdle : s.tm.active = false → s.sleptActive = 0

theorem wakeCheck_id (j : JState) (e : Ev) (h : ∀ q, j.q = some q → q.mustWake = false) : wakeCheck j e = j := by
  unfold wakeCheck
  split
  · rfl
  · rename_i _ q hq _; simp [h q hq]
  · rfl

theorem Rel.wake {s : World} {j : JState} (h : Rel s j) : ∀ q, j.q = some q → q.mustWake = false := by
  intro q hq
  have := h.q
  unfold RelQ at this
  split at this
  · simp_all
  · rename_i q0 j0 hs hj
    rw [hq] at hj; cases hj; exact this.wake
  · exact this.elim

theorem judgeRun_single {s : World} {j : JState} (h : Rel s j) (e : Ev) : judgeRun j [e] = judgeCore j e := by
  simp [judgeRun, judgeStep, wakeCheck_id j e h.wake]

/-! ### event loop -/

theorem takeItem_head (p : Nat) (it : Item) (rest : List (Nat × Item)) :
    takeItem it ((p, it) :: rest) [] = some (false, rest) := by
  simp [takeItem]

theorem judge_items (evs : List Item) :
    ∀ (j : JState) (tail : List (Nat × Item)) (front : List (Nat × Item)),
      j.outstanding = front ++ tail → front.map (·.2) = evs →
      evs.foldl (fun s it =>
        match takeItem it s.outstanding [] with
        | none => s.flag s!"garbled-or-spurious-event key={it.1} data={it.2}"
        | some (ov, rest) =>
          let s := { s with outstanding := rest }
          if ov then s.flag s!"overtaking key={it.1} data={it.2}" else s) j = { j with outstanding := tail } := by
  induction evs with
  | nil =>
    intro j tail front h1 h2
    have : front = [] := by simpa using h2
    subst this
    rw [List.nil_append] at h1
    show j = _
    rw [← h1]
  | cons e rest ih =>
    intro j tail front h1 h2
    cases front with
    | nil => simp at h2
    | cons a fr =>
      obtain ⟨p, x⟩ := a
      simp only [List.map_cons, List.cons.injEq] at h2
      obtain ⟨hx, hfr⟩ := h2
      subst hx
      simp only [List.foldl_cons, h1, List.cons_append, takeItem_head]
      have := ih ({ j with outstanding := fr ++ tail }) tail fr rfl hfr
      simpa using this


theorem rel_post (s : World) (j : JState) (h : Rel s j) (p k d : Nat) :
    Rel (stepE s (.post p k d)).1 (judgeRun j (stepE s (.post p k d)).2) := by
  simp only [stepE]
  rw [judgeRun_single h]
  have hlen : j.outstanding.length = s.rt.ring.length := by rw [← h.items]; simp
  unfold Rt.post Rt.push
  by_cases hfull : s.rt.ring.length ≥ ringSize
  · simp only [hfull, if_true, judgeCore]
    have : j.outstanding.length ≥ ringSize := by omega
    simp only [this, and_self, if_true, show ¬ ((-1 : Int) = 0) by decide, if_false]
    exact ⟨h.nobad, h.items, h.bell, h.q, h.wlook, h.wok, h.tInited, h.tActive, h.tAI, h.tSlept, h.tIdle⟩
  · simp only [hfull, if_false, judgeCore, if_true]
    refine ⟨h.nobad, ?_, ?_, h.q, h.wlook, h.wok, h.tInited, h.tActive, h.tAI, h.tSlept, h.tIdle⟩
    · simp [h.items, Rt.ringBell]
    · intro _; simp [Rt.ringBell]

theorem rel_wakeup (s : World) (j : JState) (h : Rel s j) :
    Rel (stepE s .wakeup).1 (judgeRun j (stepE s .wakeup).2) := by
  simp only [stepE]
  rw [judgeRun_single h]
  simp only [judgeCore, if_true]
  exact ⟨h.nobad, h.items, fun _ => by simp [Rt.ringBell], h.q, h.wlook, h.wok, h.tInited, h.tActive, h.tAI, h.tSlept, h.tIdle⟩

theorem judgeWait_ok (j : JState) (max : Nat) (ring : List Item) (hi : j.outstanding.map (·.2) = ring) :
    judgeWait j max (ring.take max) = { j with outstanding := j.outstanding.drop max } := by
  unfold judgeWait
  have hlen : j.outstanding.length = ring.length := by rw [← hi]; simp
  have h1 : ¬ ((ring.take max).length > max) := by simp [List.length_take]; omega
  have h2 : ¬ ((ring.take max).length < min max j.outstanding.length) := by
    simp only [List.length_take, hlen]; omega
  simp only [h1, h2, if_false]
  exact judge_items (ring.take max) j (j.outstanding.drop max) (j.outstanding.take max)
    (List.take_append_drop max j.outstanding).symm (by rw [← hi, List.map_take])

theorem rel_wait (s : World) (j : JState) (h : Rel s j) (max : Nat) :
    Rel (stepE s (.wait max)).1 (judgeRun j (stepE s (.wait max)).2) := by
  simp only [stepE]
  by_cases hm : max = 0
  · simp only [hm, if_true]
    rw [judgeRun_single h]
    exact h
  · simp only [hm, if_false]
    rw [judgeRun_single h]
    simp only [judgeCore]
    unfold Rt.wait
    by_cases hp : s.rt.poll = true
    · simp only [hp, if_true, Rt.pop, Rt.drain]
      rw [judgeWait_ok j max s.rt.ring h.items]
      refine ⟨h.nobad, ?_, ?_, h.q, h.wlook, h.wok, h.tInited, h.tActive, h.tAI, h.tSlept, h.tIdle⟩
      · simp only [List.map_drop, h.items]
      · intro hne
        simp only at hne ⊢
        have : (List.drop max s.rt.ring).isEmpty = false := by
          cases hd : List.drop max s.rt.ring with
          | nil => exact absurd hd hne
          | cons a l => rfl
        simp [this]
    · simp only [hp]
      have hb : s.rt.bell = 0 := by simpa [Rt.poll] using hp
      have hr : s.rt.ring = [] := by
        by_cases hr : s.rt.ring = []
        · exact hr
        · have := h.bell hr; omega
      have : ([] : List Item) = s.rt.ring.take max := by simp [hr]
      simp only [Bool.false_eq_true, if_false]
      rw [this, judgeWait_ok j max s.rt.ring h.items]
      have ho : j.outstanding = [] := by
        have := h.items; rw [hr] at this; simpa using this
      refine ⟨h.nobad, ?_, h.bell, h.q, h.wlook, h.wok, h.tInited, h.tActive, h.tAI, h.tSlept, h.tIdle⟩
      simp [ho, hr]


/-! ### timer and the run-only commands -/

/-- close a `Rel` goal whose state differs from `h`'s only in timer / simple fields -/
macro "rel_auto" h:ident : tactic => `(tactic| (
  have hb := ($h).nobad; have hit := ($h).items; have hbell := ($h).bell; have hq := ($h).q
  have hti := ($h).tInited; have hta := ($h).tActive
  have htai := ($h).tAI; have hts := ($h).tSlept; have htid := ($h).tIdle
  refine ⟨?_, ?_, ?_, ?_, ($h).wlook, ($h).wok, ?_, ?_, ?_, ?_, ?_⟩ <;> simp_all))

theorem rel_same (s : World) (j : JState) (h : Rel s j) (e : Ev) (he : judgeCore j e = j) :
    Rel s (judgeRun j [e]) := by
  rw [judgeRun_single h, he]; exact h

theorem rel_tinit (s : World) (j : JState) (h : Rel s j) : Rel (stepE s .tinit).1 (judgeRun j (stepE s .tinit).2) := by
  simp only [stepE]
  cases hi : s.tm.inited with
  | true => simp only [if_true]; exact rel_same s j h _ rfl
  | false =>
    simp only [Bool.false_eq_true, if_false]
    rw [judgeRun_single h]
    have ha : s.tm.active = false := by
      cases ha : s.tm.active with
      | false => rfl
      | true => have := h.tAI ha; simp [hi] at this
    simp only [judgeCore, timerOk, if_true]
    exact ⟨h.nobad, h.items, h.bell, h.q, h.wlook, h.wok, rfl, rfl, by simp, by simp, fun _ => h.tIdle ha⟩

theorem rel_tstart (s : World) (j : JState) (h : Rel s j) (ms : Nat) :
    Rel (stepE s (.tstart ms)).1 (judgeRun j (stepE s (.tstart ms)).2) := by
  simp only [stepE]
  cases hi : s.tm.inited with
  | false =>
    simp only [Bool.not_false, if_true]
    refine rel_same s j h _ ?_
    simp [judgeCore, h.tInited, hi]
    intro h0; exact absurd h0 (by decide)
  | true =>
    simp only [Bool.not_true, Bool.false_eq_true, if_false]
    by_cases hms : ms = 0
    · simp only [hms, if_true]
      refine rel_same s j h _ ?_
      simp [judgeCore, h.tInited, hi]
      intro h0; exact absurd h0 (by decide)
    · simp only [hms, if_false]
      cases ha : s.tm.active with
      | true =>
        simp only [if_true]
        refine rel_same s j h _ ?_
        simp [judgeCore, h.tInited, hi, hms, h.tActive, ha]
        intro h0; exact absurd h0 (by decide)
      | false =>
        simp only [Bool.false_eq_true, if_false]
        rw [judgeRun_single h]
        simp only [judgeCore, h.tInited, hi, hms, h.tActive, ha, Bool.not_true, Bool.false_eq_true, if_false, timerOk,
          ne_eq, not_true_eq_false, if_true]
        rel_auto h

theorem rel_tstop (s : World) (j : JState) (h : Rel s j) : Rel (stepE s .tstop).1 (judgeRun j (stepE s .tstop).2) := by
  simp only [stepE]
  cases hi : s.tm.inited with
  | false =>
    simp only [Bool.not_false, if_true]
    rw [judgeRun_single h]
    have ha : s.tm.active = false := by
      cases ha : s.tm.active with
      | false => rfl
      | true => have := h.tAI ha; simp [hi] at this
    simp only [judgeCore, if_true, h.tInited, hi, Bool.false_eq_true, if_false]
    rel_auto h
  | true =>
    simp only [Bool.not_true, Bool.false_eq_true, if_false]
    rw [judgeRun_single h]
    simp only [judgeCore, if_true, h.tInited, hi]
    rel_auto h

theorem rel_tactive (s : World) (j : JState) (h : Rel s j) : Rel (stepE s .tactive).1 (judgeRun j (stepE s .tactive).2) := by
  simp only [stepE]
  exact rel_same s j h _ (by simp [judgeCore, h.tInited, h.tActive])

theorem rel_tsleep (s : World) (j : JState) (h : Rel s j) (ms : Nat) :
    Rel (stepE s (.tsleep ms)).1 (judgeRun j (stepE s (.tsleep ms)).2) := by
  simp only [stepE]
  rw [judgeRun_single h]
  cases ha : s.tm.active with
  | false =>
    simp only [Bool.false_eq_true, if_false, judgeCore, h.tActive, ha]
    exact h
  | true =>
    simp only [if_true, judgeCore, h.tActive, ha]
    rel_auto h

theorem rel_tticks (s : World) (j : JState) (h : Rel s j) : Rel (stepE s .tticks).1 (judgeRun j (stepE s .tticks).2) := by
  simp only [stepE]
  rw [judgeRun_single h]
  cases ha : s.tm.active with
  | false =>
    simp only [Bool.not_false, true_or, if_true, judgeCore]
    have : ¬ (j.tActive = true ∧ j.tSlept ≥ 10 * j.tInterval ∧ j.tSlept > 0) := by simp [h.tActive, ha]
    simp only [this, if_false]
    rel_auto h
  | true =>
    obtain ⟨hs, hiv⟩ := h.tSlept ha
    have hja : j.tActive = true := by rw [h.tActive, ha]
    by_cases h0 : s.sleptActive = 0
    · simp only [Bool.not_true, Bool.false_eq_true, false_or, h0, if_true, judgeCore]
      have : ¬ (j.tActive = true ∧ j.tSlept ≥ 10 * j.tInterval ∧ j.tSlept > 0) := by rw [hs, h0]; simp
      simp only [this, if_false]
      rel_auto h
    · simp only [Bool.not_true, Bool.false_eq_true, false_or, h0, if_false]
      by_cases hge : s.sleptActive ≥ 10 * s.tm.interval
      · simp only [hge, if_true, judgeCore]
        have : j.tActive = true ∧ j.tSlept > 0 := ⟨hja, by rw [hs]; omega⟩
        simp only [this, and_self, if_true]
        rel_auto h
      · simp only [hge, if_false, judgeCore]
        rel_auto h

theorem rel_tafter (s : World) (j : JState) (h : Rel s j) : Rel (stepE s .tafter).1 (judgeRun j (stepE s .tafter).2) := by
  simp only [stepE]
  split <;> exact rel_same s j h _ (by simp [judgeCore])

theorem rel_tcleanup (s : World) (j : JState) (h : Rel s j) : Rel (stepE s .tcleanup).1 (judgeRun j (stepE s .tcleanup).2) := by
  simp only [stepE]
  cases hi : s.tm.inited with
  | false => simp only [Bool.not_false, if_true]; exact rel_same s j h _ rfl
  | true =>
    simp only [Bool.not_true, Bool.false_eq_true, if_false]
    rw [judgeRun_single h]
    simp only [judgeCore]
    rel_auto h


/-! ### workers -/

theorem rel_setW {s : World} {j : JState} (h : Rel s j) (w : Nat) (k' : Wk) (hok : WkOk k') :
    Rel (s.setW w k') (j.setW w (jwOf k')) := by
  refine ⟨h.nobad, h.items, h.bell, h.q, ?_, ?_, h.tInited, h.tActive, h.tAI, h.tSlept, h.tIdle⟩
  · intro w'
    rw [JState.getW_setW, World.getW_setW]
    split
    · rfl
    · exact h.wlook w'
  · intro w' k hk
    rw [World.getW_setW] at hk
    split at hk
    · cases hk; exact hok
    · exact h.wok w' k hk

theorem rel_setW_model {s : World} {j : JState} (h : Rel s j) (w : Nat) (k k' : Wk) (hk : s.getW w = some k)
    (he : jwOf k' = jwOf k) (hok : WkOk k') : Rel (s.setW w k') j := by
  refine ⟨h.nobad, h.items, h.bell, h.q, ?_, ?_, h.tInited, h.tActive, h.tAI, h.tSlept, h.tIdle⟩
  · intro w'
    rw [World.getW_setW]
    split
    · rename_i hw; subst hw
      rw [h.wlook, hk]; simp [he]
    · exact h.wlook w'
  · intro w' k0 hk0
    rw [World.getW_setW] at hk0
    split at hk0
    · cases hk0; exact hok
    · exact h.wok w' k0 hk0

theorem wkOk_create : WkOk Wk.create := ⟨Or.inl rfl, by simp [Wk.create]⟩

theorem wkOk_started : WkOk (Wk.create.threadStep false) := ⟨Or.inr (Or.inl rfl), by simp [Wk.create, Wk.threadStep]⟩

theorem wkOk_release (k : Wk) (h : k.th = .spawned) : WkOk (k.threadStep false) :=
  ⟨Or.inr (Or.inl (by simp [Wk.threadStep, h])), by simp [Wk.threadStep, h]⟩

theorem runToExit_inproc (k : Wk) (h : k.th = .inproc) :
    k.runToExit = { k with state := .stopped, th := .exited } := by
  simp [Wk.runToExit, Wk.threadStep, h]

theorem wkOk_exit (k : Wk) (h : k.th = .inproc) : WkOk k.runToExit := by
  rw [runToExit_inproc k h]; exact ⟨Or.inr (Or.inr rfl), by simp⟩

/-- a timed join on a live worker (nobody else moves): exactly `⌈t/10⌉` sleeps, then false -/
theorem joinAlone_live (k : Wk) (t : Nat) (hs : k.state ≠ .stopped) :
    ∀ (fuel e sl : Nat), fuel ≥ (t - e + 9) / 10 + 2 →
      k.joinAlone t fuel (.loop e) sl = (.rc0, sl + (t - e + 9) / 10) := by
  intro fuel
  induction fuel with
  | zero => intro e sl h; omega
  | succ n ih =>
    intro e sl hf
    rw [Wk.joinAlone] <;> try (intro hx; cases hx)
    simp only [Wk.joinStep]
    by_cases he : e < t
    · have hc : k.state ≠ .stopped ∧ e < t := ⟨hs, he⟩
      rw [if_pos hc]
      simp only [pollMs]
      rw [ih (e + 10) (sl + 1) (by omega)]
      congr 1
      omega
    · have hc : ¬ (k.state ≠ .stopped ∧ e < t) := fun c => he c.2
      rw [if_neg hc, if_neg hs]
      simp only
      cases n with
      | zero => omega
      | succ m =>
        rw [Wk.joinAlone]
        congr 1
        omega

theorem joinAlone_exited (k : Wk) (t n : Nat) (hst : k.state = .stopped) (hth : k.th = .exited) :
    k.joinAlone t (n + 3) (.loop 0) 0 = (.rc1, 0) := by
  simp [Wk.joinAlone, Wk.joinStep, hst, hth]


theorem rel_wnew (s : World) (j : JState) (h : Rel s j) (w : Nat) (hold : Bool) :
    Rel (stepE s (.wnew w hold)).1 (judgeRun j (stepE s (.wnew w hold)).2) := by
  simp only [stepE]
  cases hg : s.getW w with
  | some k => exact rel_same s j h _ rfl
  | none =>
    simp only
    rw [judgeRun_single h]
    simp only [judgeCore]
    cases hold with
    | true => exact rel_setW h w _ wkOk_create
    | false => exact rel_setW h w _ wkOk_started

theorem rel_wstate (s : World) (j : JState) (h : Rel s j) (w : Nat) :
    Rel (stepE s (.wstate w)).1 (judgeRun j (stepE s (.wstate w)).2) := by
  simp only [stepE]
  cases hg : s.getW w with
  | none => exact rel_same s j h _ rfl
  | some k =>
    simp only
    split
    · exact rel_same s j h _ rfl
    · refine rel_same s j h _ ?_
      have hj : j.getW w = some (jwOf k) := by rw [h.wlook, hg]; rfl
      have hok := h.wok w k hg
      simp only [judgeCore, hj, jwOf]
      by_cases he : k.th = .exited
      · simp [he, hok.state.mpr he]
      · have : k.state = .running := by
          cases hst : k.state with
          | running => rfl
          | stopped => exact absurd (hok.state.mp hst) he
        simp [he, this]

theorem rel_wrelease (s : World) (j : JState) (h : Rel s j) (w : Nat) :
    Rel (stepE s (.wrelease w)).1 (judgeRun j (stepE s (.wrelease w)).2) := by
  simp only [stepE]
  cases hg : s.getW w with
  | none => exact rel_same s j h _ rfl
  | some k =>
    simp only
    split
    · rename_i hsp
      rw [judgeRun_single h]
      simp only [judgeCore]
      exact rel_setW_model h w k _ hg (by simp [jwOf, Wk.threadStep, hsp]) (wkOk_release k hsp)
    · exact rel_same s j h _ rfl

theorem rel_wstep (s : World) (j : JState) (h : Rel s j) (w : Nat) :
    Rel (stepE s (.wstep w)).1 (judgeRun j (stepE s (.wstep w)).2) := by
  simp only [stepE]
  cases hg : s.getW w with
  | none => exact rel_same s j h _ rfl
  | some k =>
    have hj : j.getW w = some (jwOf k) := by rw [h.wlook, hg]; rfl
    simp only
    split
    · rename_i hin
      split
      · rename_i hst
        rw [judgeRun_single h]
        simp only [judgeCore, hj, jwOf, hst, if_true]
        have := rel_setW h w k.runToExit (wkOk_exit k hin)
        simpa [jwOf, runToExit_inproc k hin, hin, hst] using this
      · rename_i hst
        refine rel_same s j h _ ?_
        simp [judgeCore, hj, jwOf, hst]
    · refine rel_same s j h _ ?_
      simp [judgeCore, hj]

theorem rel_wquit (s : World) (j : JState) (h : Rel s j) (w : Nat) :
    Rel (stepE s (.wquit w)).1 (judgeRun j (stepE s (.wquit w)).2) := by
  simp only [stepE]
  cases hg : s.getW w with
  | none => exact rel_same s j h _ (by simp [judgeCore, h.wlook, hg])
  | some k =>
    have hj : j.getW w = some (jwOf k) := by rw [h.wlook, hg]; rfl
    simp only
    split
    · rename_i hin
      rw [judgeRun_single h]
      simp only [judgeCore, hj, if_true]
      have := rel_setW h w k.runToExit (wkOk_exit k hin)
      simpa [jwOf, runToExit_inproc k hin, hin] using this
    · refine rel_same s j h _ ?_
      simp [judgeCore, hj]

theorem rel_wstop (s : World) (j : JState) (h : Rel s j) (w : Nat) :
    Rel (stepE s (.wstop w)).1 (judgeRun j (stepE s (.wstop w)).2) := by
  simp only [stepE]
  cases hg : s.getW w with
  | none => exact rel_same s j h _ rfl
  | some k =>
    have hj : j.getW w = some (jwOf k) := by rw [h.wlook, hg]; rfl
    have hok := h.wok w k hg
    simp only
    split
    · exact rel_same s j h _ rfl
    · rw [judgeRun_single h]
      simp only [judgeCore, hj]
      have := rel_setW h w k.signalStop ⟨hok.phase, hok.state⟩
      have e : ∀ x : JW, x = jwOf k.signalStop → Rel (s.setW w k.signalStop) (j.setW w x) := fun x hx => hx ▸ this
      exact e _ rfl

theorem rel_wdestroy (s : World) (j : JState) (h : Rel s j) (w : Nat) :
    Rel (stepE s (.wdestroy w)).1 (judgeRun j (stepE s (.wdestroy w)).2) := by
  simp only [stepE]
  cases hg : s.getW w with
  | none => exact rel_same s j h _ rfl
  | some k =>
    have hok := h.wok w k hg
    simp only
    split
    · exact rel_same s j h _ rfl
    · split
      · rw [judgeRun_single h]
        simp only [judgeCore]
        exact rel_setW_model h w k _ hg (by simp [jwOf]) ⟨hok.phase, hok.state⟩
      · exact rel_same s j h _ rfl

theorem rel_wjoin (s : World) (j : JState) (h : Rel s j) (w : Nat) (t : Int) :
    Rel (stepE s (.wjoin w t)).1 (judgeRun j (stepE s (.wjoin w t)).2) := by
  simp only [stepE]
  cases hg : s.getW w with
  | none => exact rel_same s j h _ rfl
  | some k =>
    have hj : j.getW w = some (jwOf k) := by rw [h.wlook, hg]; rfl
    have hok := h.wok w k hg
    simp only
    split
    · exact rel_same s j h _ rfl
    · rename_i hnj
      split
      · -- untimed: only made when the thread has exited
        unfold Wk.joinUntimed
        by_cases hex : k.th = .exited
        · simp only [hex, if_true]
          rw [judgeRun_single h]
          simp only [judgeCore, hj, jwOf, hex, decide_true, if_true, Nat.le_refl]
          have := rel_setW h w { k with joined := true } ⟨hok.phase, hok.state⟩
          simpa [jwOf, hex] using this
        · simp only [hex, if_false]
          exact rel_same s j h _ rfl
      · by_cases hex : k.th = .exited
        · have hst := hok.state.mpr hex
          rw [show sleepsFor t.toNat + 3 = sleepsFor t.toNat + 3 from rfl, joinAlone_exited k t.toNat _ hst hex]
          rw [judgeRun_single h]
          simp only [judgeCore, hj, jwOf, hex, decide_true, if_true, Nat.le_refl]
          have := rel_setW h w { k with joined := true } ⟨hok.phase, hok.state⟩
          simpa [jwOf, hex] using this
        · have hst : k.state ≠ .stopped := fun c => hex (hok.state.mp c)
          have hja := joinAlone_live k t.toNat hst (sleepsFor t.toNat + 3) 0 0 (by simp [sleepsFor, pollMs])
          have hsl : (t.toNat - 0 + 9) / 10 = sleepsFor t.toNat := by simp [sleepsFor, pollMs]
          rw [hja, hsl]
          rw [judgeRun_single h]
          simp only [judgeCore, hj, jwOf, hex, decide_false, Bool.false_eq_true, if_false, Nat.zero_add, Nat.le_refl, if_true]
          have := rel_setW_model h w k { k with joined := decide (JoinRes.rc0 = JoinRes.rc1) } hg
            (by simp [jwOf]; simpa using hnj) ⟨hok.phase, hok.state⟩
          simpa using this

end NV.C19
