/-
C19 — the model satisfies the specification oracle: `judgeEv (events cmds) = []` for EVERY command list.
Proof: a simulation relation `Rel` between the model state (`World`) and the oracle state (`JState`), preserved by
every command together with the events it emits.
-/
import NV.C19.Spec
import NV.C19.LemmasQ
import NV.C19.LemmasWk

namespace NV.C19

def judgeRun (j : JState) (evs : List Ev) : JState := evs.foldl judgeStep j

theorem judgeRun_append (j : JState) (a b : List Ev) : judgeRun j (a ++ b) = judgeRun (judgeRun j a) b := by
  simp [judgeRun, List.foldl_append]

/-! ### association lists of workers -/

theorem find_insert {α} (l : List (Nat × α)) (w w' : Nat) (k : α) :
    (((w, k) :: l.filter (·.1 != w)).find? (·.1 == w')).map (·.2)
      = if w' = w then some k else (l.find? (·.1 == w')).map (·.2) := by
  by_cases h : w' = w
  · subst h; simp
  · have h1 : ¬ (w = w') := fun e => h e.symm
    simp only [List.find?_cons, h, if_false]
    have : (w == w') = false := by simpa using h1
    simp only [this]
    congr 1
    induction l with
    | nil => rfl
    | cons a t ih =>
      by_cases ha : a.1 = w
      · have : (a.1 != w) = false := by simp [ha]
        have h2 : (a.1 == w') = false := by simp [ha, h1]
        simp [List.filter_cons, this, List.find?_cons, h2, ih]
      · have : (a.1 != w) = true := by simp [ha]
        simp only [List.filter_cons, this, if_true, List.find?_cons]
        split
        · rfl
        · exact ih

theorem World.getW_setW (s : World) (w w' : Nat) (k : Wk) :
    (s.setW w k).getW w' = if w' = w then some k else s.getW w' := find_insert s.ws w w' k

theorem JState.getW_setW (j : JState) (w w' : Nat) (k : JW) :
    (j.setW w k).getW w' = if w' = w then some k else j.getW w' := find_insert j.ws w w' k

/-! ### the simulation relation -/

def jwOf (k : Wk) : JW := { exited := decide (k.th = .exited), stop := k.stopEv, joined := k.joined }

/-- worker states reachable in sequentialised schedules (the thread is parked at a yield point or gone) -/
structure WkOk (k : Wk) : Prop where
  phase : k.th = .spawned ∨ k.th = .inproc ∨ k.th = .exited
  state : k.state = .stopped ↔ k.th = .exited

structure QRel (q : Q) (bl : Option Msg) (jq : JQ) : Prop where
  inv : q.Inv
  cap : jq.cap = q.cap
  maxMsg : jq.maxMsg = q.maxMsg
  flags : jq.flags = q.flags
  contents : jq.contents = q.contents
  enq : jq.enq = q.enqCount
  deq : jq.deq = q.deqCount
  drop : jq.drop = q.dropCount
  blk : jq.blocked = bl
  wake : jq.mustWake = false
  bsize : ∀ m : Msg, bl = some m → ¬(m.size = 0 ∨ m.size > q.maxMsg)

def RelQ (sq : Option Q) (blocked : Option Msg) (jq : Option JQ) : Prop :=
  match sq, jq with
  | none, none => blocked = none
  | some q, some j => QRel q blocked j
  | _, _ => False

structure Rel (s : World) (j : JState) : Prop where
  nobad : j.bad = []
  items : j.outstanding.map (·.2) = s.rt.ring
  bell : (∀ m, s.cons ≠ .drained m) → s.rt.ring ≠ [] → s.rt.bell > 0
  q : RelQ s.q s.blocked j.q
  wlook : ∀ w, j.getW w = (s.getW w).map jwOf
  wok : ∀ w k, s.getW w = some k → WkOk k
  tInited : j.tInited = s.tm.inited
  tActive : j.tActive = s.tm.active
  tAI : s.tm.active = true → s.tm.inited = true
  tSlept : s.tm.active = true → j.tSlept = s.sleptActive ∧ j.tInterval = s.tm.interval
  tIdle : s.tm.active = false → s.sleptActive = 0

theorem wakeCheck_id (j : JState) (e : Ev) (h : ∀ q, j.q = some q → q.mustWake = false) : wakeCheck j e = j := by
  unfold wakeCheck
  split
  · rfl
  · rename_i _ q hq _; simp [h q hq]
  · rfl

theorem Rel.wake {s : World} {j : JState} (h : Rel s j) : ∀ q, j.q = some q → q.mustWake = false := by
  intro q hq
  have := h.q
  unfold RelQ at this
  split at this
  · simp_all
  · rename_i q0 j0 hs hj
    rw [hq] at hj; cases hj; exact this.wake
  · exact this.elim

theorem judgeRun_single {s : World} {j : JState} (h : Rel s j) (e : Ev) : judgeRun j [e] = judgeCore j e := by
  simp [judgeRun, judgeStep, wakeCheck_id j e h.wake]

/-! ### event loop -/

theorem takeItem_head (p : Nat) (it : Item) (rest : List (Nat × Item)) :
    takeItem it ((p, it) :: rest) [] = some (false, rest) := by
  simp [takeItem]

theorem judge_items (evs : List Item) :
    ∀ (j : JState) (tail : List (Nat × Item)) (front : List (Nat × Item)),
      j.outstanding = front ++ tail → front.map (·.2) = evs →
      evs.foldl (fun s it =>
        match takeItem it s.outstanding [] with
        | none => s.flag s!"garbled-or-spurious-event key={it.1} data={it.2}"
        | some (ov, rest) =>
          let s := { s with outstanding := rest }
          if ov then s.flag s!"overtaking key={it.1} data={it.2}" else s) j = { j with outstanding := tail } := by
  induction evs with
  | nil =>
    intro j tail front h1 h2
    have : front = [] := by simpa using h2
    subst this
    rw [List.nil_append] at h1
    show j = _
    rw [← h1]
  | cons e rest ih =>
    intro j tail front h1 h2
    cases front with
    | nil => simp at h2
    | cons a fr =>
      obtain ⟨p, x⟩ := a
      simp only [List.map_cons, List.cons.injEq] at h2
      obtain ⟨hx, hfr⟩ := h2
      subst hx
      simp only [List.foldl_cons, h1, List.cons_append, takeItem_head]
      have := ih ({ j with outstanding := fr ++ tail }) tail fr rfl hfr
      simpa using this


theorem rel_post (s : World) (j : JState) (h : Rel s j) (p k d : Nat) :
    Rel (stepE s (.post p k d)).1 (judgeRun j (stepE s (.post p k d)).2) := by
  simp only [stepE]
  rw [judgeRun_single h]
  have hlen : j.outstanding.length = s.rt.ring.length := by rw [← h.items]; simp
  unfold Rt.post Rt.push
  by_cases hfull : s.rt.ring.length ≥ ringSize
  · simp only [hfull, if_true, judgeCore]
    have : j.outstanding.length ≥ ringSize := by omega
    simp only [this, and_self, if_true, show ¬ ((-1 : Int) = 0) by decide, if_false]
    exact ⟨h.nobad, h.items, h.bell, h.q, h.wlook, h.wok, h.tInited, h.tActive, h.tAI, h.tSlept, h.tIdle⟩
  · simp only [hfull, if_false, judgeCore, if_true]
    refine ⟨h.nobad, ?_, ?_, h.q, h.wlook, h.wok, h.tInited, h.tActive, h.tAI, h.tSlept, h.tIdle⟩
    · simp [h.items, Rt.ringBell]
    · intro _ _; simp [Rt.ringBell]

theorem rel_wakeup (s : World) (j : JState) (h : Rel s j) :
    Rel (stepE s .wakeup).1 (judgeRun j (stepE s .wakeup).2) := by
  simp only [stepE]
  rw [judgeRun_single h]
  simp only [judgeCore, if_true]
  exact ⟨h.nobad, h.items, fun _ _ => by simp [Rt.ringBell], h.q, h.wlook, h.wok, h.tInited, h.tActive, h.tAI, h.tSlept, h.tIdle⟩

theorem judgeWait_ok (j : JState) (max : Nat) (ring : List Item) (hi : j.outstanding.map (·.2) = ring) :
    judgeWait j max (ring.take max) = { j with outstanding := j.outstanding.drop max } := by
  unfold judgeWait
  have hlen : j.outstanding.length = ring.length := by rw [← hi]; simp
  have h1 : ¬ ((ring.take max).length > max) := by simp [List.length_take]; omega
  have h2 : ¬ ((ring.take max).length < min max j.outstanding.length) := by
    simp only [List.length_take, hlen]; omega
  simp only [h1, h2, if_false]
  exact judge_items (ring.take max) j (j.outstanding.drop max) (j.outstanding.take max)
    (List.take_append_drop max j.outstanding).symm (by rw [← hi, List.map_take])

theorem rel_same (s : World) (j : JState) (h : Rel s j) (e : Ev) (he : judgeCore j e = j) :
    Rel s (judgeRun j [e]) := by
  rw [judgeRun_single h, he]; exact h

/-- a wait that finds nothing readable: the doorbell invariant says the ring is empty, the oracle expects nothing -/
theorem rel_wait_nothing (s : World) (j : JState) (h : Rel s j) (max : Nat) (hidle : s.cons = .idle)
    (hp : ¬ s.rt.poll = true) : Rel s (judgeRun j [.wait max []]) := by
  rw [judgeRun_single h]
  simp only [judgeCore]
  have hb : s.rt.bell = 0 := by simpa [Rt.poll] using hp
  have hr : s.rt.ring = [] := by
    by_cases hr : s.rt.ring = []
    · exact hr
    · have := h.bell (by simp [hidle]) hr; omega
  have : ([] : List Item) = s.rt.ring.take max := by simp [hr]
  rw [this, judgeWait_ok j max s.rt.ring h.items]
  have ho : j.outstanding = [] := by
    have := h.items; rw [hr] at this; simpa using this
  refine ⟨h.nobad, ?_, h.bell, h.q, h.wlook, h.wok, h.tInited, h.tActive, h.tAI, h.tSlept, h.tIdle⟩
  simp [ho, hr]

/-- the locked section of a wait (take + re-arm), from a state whose doorbell has just been read -/
theorem rel_pop (s : World) (j : JState) (h : Rel s j) (max : Nat) (rt0 : Rt) (hring : rt0.ring = s.rt.ring) :
    Rel { s with rt := (rt0.pop max).1, cons := .idle } (judgeRun j [.wait max (rt0.pop max).2]) := by
  rw [judgeRun_single h]
  simp only [judgeCore, Rt.pop, hring]
  rw [judgeWait_ok j max s.rt.ring h.items]
  refine ⟨h.nobad, ?_, ?_, h.q, h.wlook, h.wok, h.tInited, h.tActive, h.tAI, h.tSlept, h.tIdle⟩
  · simp only [List.map_drop, h.items]
  · intro _ hne
    simp only at hne ⊢
    have : (List.drop max s.rt.ring).isEmpty = false := by
      cases hd : List.drop max s.rt.ring with
      | nil => exact absurd hd hne
      | cons a l => rfl
    simp [this]

theorem rel_wait (s : World) (j : JState) (h : Rel s j) (max : Nat) :
    Rel (stepE s (.wait max)).1 (judgeRun j (stepE s (.wait max)).2) := by
  simp only [stepE]
  by_cases hm : max = 0
  · simp only [hm, if_true]
    exact rel_same s j h _ rfl
  · simp only [hm, if_false]
    by_cases hc : s.cons = .idle
    · simp only [hc, ne_eq, not_true_eq_false, if_false]
      unfold Rt.wait
      by_cases hp : s.rt.poll = true
      · simp only [hp, if_true]
        have := rel_pop s j h max s.rt.drain rfl
        rw [hc] at *
        cases s
        simp_all
      · simp only [hp, Bool.false_eq_true, if_false]
        have := rel_wait_nothing s j h max hc hp
        cases s
        simp_all
    · simp only [ne_eq, hc, not_false_eq_true, if_true]
      exact rel_same s j h _ rfl

theorem rel_wbegin (s : World) (j : JState) (h : Rel s j) (max : Nat) :
    Rel (stepE s (.wbegin max)).1 (judgeRun j (stepE s (.wbegin max)).2) := by
  simp only [stepE]
  by_cases hm : max = 0
  · simp only [hm, if_true]
    exact rel_same s j h _ rfl
  · simp only [hm, if_false]
    by_cases hc : s.cons = .idle
    · simp only [hc, ne_eq, not_true_eq_false, if_false]
      by_cases hp : s.rt.poll = true
      · simp only [hp, if_true]
        rw [judgeRun_single h]
        simp only [judgeCore]
        exact ⟨h.nobad, h.items, fun _ hne => h.bell (by simp [hc]) hne, h.q, h.wlook, h.wok, h.tInited, h.tActive, h.tAI,
          h.tSlept, h.tIdle⟩
      · simp only [hp, Bool.false_eq_true, if_false]
        exact rel_wait_nothing s j h max hc hp
    · simp only [ne_eq, hc, not_false_eq_true, if_true]
      exact rel_same s j h _ rfl

theorem rel_wread (s : World) (j : JState) (h : Rel s j) :
    Rel (stepE s .wread).1 (judgeRun j (stepE s .wread).2) := by
  simp only [stepE]
  split
  · rename_i m hc
    rw [judgeRun_single h]
    simp only [judgeCore]
    exact ⟨h.nobad, h.items, fun hnd => absurd rfl (hnd m), h.q, h.wlook, h.wok, h.tInited, h.tActive, h.tAI,
      h.tSlept, h.tIdle⟩
  · exact rel_same s j h _ rfl

theorem rel_wend (s : World) (j : JState) (h : Rel s j) :
    Rel (stepE s .wend).1 (judgeRun j (stepE s .wend).2) := by
  simp only [stepE]
  split
  · rename_i m hc
    exact rel_pop s j h m s.rt rfl
  · exact rel_same s j h _ rfl

/-! ### timer and the run-only commands -/

/-- close a `Rel` goal whose state differs from `h`'s only in timer / simple fields -/
macro "rel_auto" h:ident : tactic => `(tactic| (
  have hb := ($h).nobad; have hit := ($h).items; have hbell := ($h).bell; have hq := ($h).q
  have hti := ($h).tInited; have hta := ($h).tActive
  have htai := ($h).tAI; have hts := ($h).tSlept; have htid := ($h).tIdle
  refine ⟨?_, ?_, ?_, ?_, ($h).wlook, ($h).wok, ?_, ?_, ?_, ?_, ?_⟩ <;> simp_all))

theorem rel_tinit (s : World) (j : JState) (h : Rel s j) : Rel (stepE s .tinit).1 (judgeRun j (stepE s .tinit).2) := by
  simp only [stepE]
  cases hi : s.tm.inited with
  | true => simp only [if_true]; exact rel_same s j h _ rfl
  | false =>
    simp only [Bool.false_eq_true, if_false]
    rw [judgeRun_single h]
    have ha : s.tm.active = false := by
      cases ha : s.tm.active with
      | false => rfl
      | true => have := h.tAI ha; simp [hi] at this
    simp only [judgeCore, timerOk, if_true]
    exact ⟨h.nobad, h.items, h.bell, h.q, h.wlook, h.wok, rfl, rfl, by simp, by simp, fun _ => h.tIdle ha⟩

theorem rel_tstart (s : World) (j : JState) (h : Rel s j) (ms : Nat) :
    Rel (stepE s (.tstart ms)).1 (judgeRun j (stepE s (.tstart ms)).2) := by
  simp only [stepE]
  cases hi : s.tm.inited with
  | false =>
    simp only [Bool.not_false, if_true]
    refine rel_same s j h _ ?_
    simp [judgeCore, h.tInited, hi]
    intro h0; exact absurd h0 (by decide)
  | true =>
    simp only [Bool.not_true, Bool.false_eq_true, if_false]
    by_cases hms : ms = 0
    · simp only [hms, if_true]
      refine rel_same s j h _ ?_
      simp [judgeCore, h.tInited, hi]
      intro h0; exact absurd h0 (by decide)
    · simp only [hms, if_false]
      cases ha : s.tm.active with
      | true =>
        simp only [if_true]
        refine rel_same s j h _ ?_
        simp [judgeCore, h.tInited, hi, hms, h.tActive, ha]
        intro h0; exact absurd h0 (by decide)
      | false =>
        simp only [Bool.false_eq_true, if_false]
        rw [judgeRun_single h]
        simp only [judgeCore, h.tInited, hi, hms, h.tActive, ha, Bool.not_true, Bool.false_eq_true, if_false, timerOk,
          ne_eq, not_true_eq_false, if_true]
        rel_auto h

theorem rel_tstop (s : World) (j : JState) (h : Rel s j) : Rel (stepE s .tstop).1 (judgeRun j (stepE s .tstop).2) := by
  simp only [stepE]
  cases hi : s.tm.inited with
  | false =>
    simp only [Bool.not_false, if_true]
    rw [judgeRun_single h]
    have ha : s.tm.active = false := by
      cases ha : s.tm.active with
      | false => rfl
      | true => have := h.tAI ha; simp [hi] at this
    simp only [judgeCore, if_true, h.tInited, hi, Bool.false_eq_true, if_false]
    rel_auto h
  | true =>
    simp only [Bool.not_true, Bool.false_eq_true, if_false]
    rw [judgeRun_single h]
    simp only [judgeCore, if_true, h.tInited, hi]
    rel_auto h

theorem rel_tactive (s : World) (j : JState) (h : Rel s j) : Rel (stepE s .tactive).1 (judgeRun j (stepE s .tactive).2) := by
  simp only [stepE]
  exact rel_same s j h _ (by simp [judgeCore, h.tInited, h.tActive])

theorem rel_tsleep (s : World) (j : JState) (h : Rel s j) (ms : Nat) :
    Rel (stepE s (.tsleep ms)).1 (judgeRun j (stepE s (.tsleep ms)).2) := by
  simp only [stepE]
  rw [judgeRun_single h]
  cases ha : s.tm.active with
  | false =>
    simp only [Bool.false_eq_true, if_false, judgeCore, h.tActive, ha]
    exact h
  | true =>
    simp only [if_true, judgeCore, h.tActive, ha]
    rel_auto h

theorem rel_tticks (s : World) (j : JState) (h : Rel s j) : Rel (stepE s .tticks).1 (judgeRun j (stepE s .tticks).2) := by
  simp only [stepE]
  rw [judgeRun_single h]
  cases ha : s.tm.active with
  | false =>
    simp only [Bool.not_false, true_or, if_true, judgeCore]
    have : ¬ (j.tActive = true ∧ j.tSlept ≥ 10 * j.tInterval ∧ j.tSlept > 0) := by simp [h.tActive, ha]
    simp only [this, if_false]
    rel_auto h
  | true =>
    obtain ⟨hs, hiv⟩ := h.tSlept ha
    have hja : j.tActive = true := by rw [h.tActive, ha]
    by_cases h0 : s.sleptActive = 0
    · simp only [Bool.not_true, Bool.false_eq_true, false_or, h0, if_true, judgeCore]
      have : ¬ (j.tActive = true ∧ j.tSlept ≥ 10 * j.tInterval ∧ j.tSlept > 0) := by rw [hs, h0]; simp
      simp only [this, if_false]
      rel_auto h
    · simp only [Bool.not_true, Bool.false_eq_true, false_or, h0, if_false]
      by_cases hge : s.sleptActive ≥ 10 * s.tm.interval
      · simp only [hge, if_true, judgeCore]
        have : j.tActive = true ∧ j.tSlept > 0 := ⟨hja, by rw [hs]; omega⟩
        simp only [this, and_self, if_true]
        rel_auto h
      · simp only [hge, if_false, judgeCore]
        rel_auto h

theorem rel_tafter (s : World) (j : JState) (h : Rel s j) : Rel (stepE s .tafter).1 (judgeRun j (stepE s .tafter).2) := by
  simp only [stepE]
  split <;> exact rel_same s j h _ (by simp [judgeCore])

theorem rel_tcleanup (s : World) (j : JState) (h : Rel s j) : Rel (stepE s .tcleanup).1 (judgeRun j (stepE s .tcleanup).2) := by
  simp only [stepE]
  cases hi : s.tm.inited with
  | false => simp only [Bool.not_false, if_true]; exact rel_same s j h _ rfl
  | true =>
    simp only [Bool.not_true, Bool.false_eq_true, if_false]
    rw [judgeRun_single h]
    simp only [judgeCore]
    rel_auto h


/-! ### workers -/

theorem rel_setW {s : World} {j : JState} (h : Rel s j) (w : Nat) (k' : Wk) (hok : WkOk k') :
    Rel (s.setW w k') (j.setW w (jwOf k')) := by
  refine ⟨h.nobad, h.items, h.bell, h.q, ?_, ?_, h.tInited, h.tActive, h.tAI, h.tSlept, h.tIdle⟩
  · intro w'
    rw [JState.getW_setW, World.getW_setW]
    split
    · rfl
    · exact h.wlook w'
  · intro w' k hk
    rw [World.getW_setW] at hk
    split at hk
    · cases hk; exact hok
    · exact h.wok w' k hk

theorem rel_setW_model {s : World} {j : JState} (h : Rel s j) (w : Nat) (k k' : Wk) (hk : s.getW w = some k)
    (he : jwOf k' = jwOf k) (hok : WkOk k') : Rel (s.setW w k') j := by
  refine ⟨h.nobad, h.items, h.bell, h.q, ?_, ?_, h.tInited, h.tActive, h.tAI, h.tSlept, h.tIdle⟩
  · intro w'
    rw [World.getW_setW]
    split
    · rename_i hw; subst hw
      rw [h.wlook, hk]; simp [he]
    · exact h.wlook w'
  · intro w' k0 hk0
    rw [World.getW_setW] at hk0
    split at hk0
    · cases hk0; exact hok
    · exact h.wok w' k0 hk0

theorem create_eq : Wk.create = { state := .running, th := .spawned } := by decide

theorem createRace_eq : Wk.createSeq true createProg {} = { state := .stopped, th := .exited } := by decide

theorem wkOk_create : WkOk Wk.create := by rw [create_eq]; exact ⟨Or.inl rfl, by simp⟩

theorem wkOk_started : WkOk (Wk.create.threadStep false) := by
  rw [create_eq]; exact ⟨Or.inr (Or.inl rfl), by simp [Wk.threadStep]⟩

theorem wkOk_raced : WkOk (Wk.createSeq true createProg {}) := by
  rw [createRace_eq]; exact ⟨Or.inr (Or.inr rfl), by simp⟩

theorem wkOk_release (k : Wk) (h : k.th = .spawned) : WkOk (k.threadStep false) :=
  ⟨Or.inr (Or.inl (by simp [Wk.threadStep, h])), by simp [Wk.threadStep, h]⟩

theorem runToExit_inproc (k : Wk) (h : k.th = .inproc) :
    k.runToExit = { k with state := .stopped, th := .exited } := by
  simp [Wk.runToExit, Wk.threadStep, h]

theorem wkOk_exit (k : Wk) (h : k.th = .inproc) : WkOk k.runToExit := by
  rw [runToExit_inproc k h]; exact ⟨Or.inr (Or.inr rfl), by simp⟩

/-- a timed join on a live worker (nobody else moves): exactly `⌈t/10⌉` sleeps, then false -/
theorem joinAlone_live (k : Wk) (t : Nat) (hs : k.state ≠ .stopped) :
    ∀ (fuel e sl : Nat), fuel ≥ (t - e + 9) / 10 + 2 →
      k.joinAlone t fuel (.loop e) sl = (.rc0, sl + (t - e + 9) / 10) := by
  intro fuel
  induction fuel with
  | zero => intro e sl h; omega
  | succ n ih =>
    intro e sl hf
    rw [Wk.joinAlone] <;> try (intro hx; cases hx)
    simp only [Wk.joinStep]
    by_cases he : e < t
    · have hc : k.state ≠ .stopped ∧ e < t := ⟨hs, he⟩
      rw [if_pos hc]
      simp only [pollMs]
      rw [ih (e + 10) (sl + 1) (by omega)]
      congr 1
      omega
    · have hc : ¬ (k.state ≠ .stopped ∧ e < t) := fun c => he c.2
      rw [if_neg hc, if_neg hs]
      simp only
      cases n with
      | zero => omega
      | succ m =>
        rw [Wk.joinAlone]
        congr 1
        omega

theorem joinAlone_exited (k : Wk) (t n : Nat) (hst : k.state = .stopped) (hth : k.th = .exited) :
    k.joinAlone t (n + 3) (.loop 0) 0 = (.rc1, 0) := by
  simp [Wk.joinAlone, Wk.joinStep, hst, hth]


theorem rel_wnew (s : World) (j : JState) (h : Rel s j) (w : Nat) (mode : NewMode) :
    Rel (stepE s (.wnew w mode)).1 (judgeRun j (stepE s (.wnew w mode)).2) := by
  simp only [stepE]
  cases hg : s.getW w with
  | some k => exact rel_same s j h _ rfl
  | none =>
    simp only
    rw [judgeRun_single h]
    simp only [judgeCore]
    cases mode with
    | hold =>
      have : ({ exited := decide (NewMode.hold = NewMode.race) } : JW) = jwOf Wk.create := by rw [create_eq]; rfl
      rw [this]
      exact rel_setW h w _ wkOk_create
    | run =>
      have : ({ exited := decide (NewMode.run = NewMode.race) } : JW) = jwOf (Wk.create.threadStep false) := by rw [create_eq]; rfl
      rw [this]
      exact rel_setW h w _ wkOk_started
    | race =>
      have : ({ exited := decide (NewMode.race = NewMode.race) } : JW) = jwOf (Wk.createSeq true createProg {}) := by rw [createRace_eq]; rfl
      rw [this]
      exact rel_setW h w _ wkOk_raced

theorem rel_wstate (s : World) (j : JState) (h : Rel s j) (w : Nat) :
    Rel (stepE s (.wstate w)).1 (judgeRun j (stepE s (.wstate w)).2) := by
  simp only [stepE]
  cases hg : s.getW w with
  | none => exact rel_same s j h _ rfl
  | some k =>
    simp only
    split
    · exact rel_same s j h _ rfl
    · refine rel_same s j h _ ?_
      have hj : j.getW w = some (jwOf k) := by rw [h.wlook, hg]; rfl
      have hok := h.wok w k hg
      simp only [judgeCore, hj, jwOf]
      by_cases he : k.th = .exited
      · simp [he, hok.state.mpr he]
      · have : k.state = .running := by
          cases hst : k.state with
          | running => rfl
          | stopped => exact absurd (hok.state.mp hst) he
        simp [he, this]

theorem rel_wrelease (s : World) (j : JState) (h : Rel s j) (w : Nat) :
    Rel (stepE s (.wrelease w)).1 (judgeRun j (stepE s (.wrelease w)).2) := by
  simp only [stepE]
  cases hg : s.getW w with
  | none => exact rel_same s j h _ rfl
  | some k =>
    simp only
    split
    · rename_i hsp
      rw [judgeRun_single h]
      simp only [judgeCore]
      exact rel_setW_model h w k _ hg (by simp [jwOf, Wk.threadStep, hsp]) (wkOk_release k hsp)
    · exact rel_same s j h _ rfl

theorem rel_wstep (s : World) (j : JState) (h : Rel s j) (w : Nat) :
    Rel (stepE s (.wstep w)).1 (judgeRun j (stepE s (.wstep w)).2) := by
  simp only [stepE]
  cases hg : s.getW w with
  | none => exact rel_same s j h _ rfl
  | some k =>
    have hj : j.getW w = some (jwOf k) := by rw [h.wlook, hg]; rfl
    simp only
    split
    · rename_i hin
      split
      · rename_i hst
        rw [judgeRun_single h]
        simp only [judgeCore, hj, jwOf, hst, if_true]
        have := rel_setW h w k.runToExit (wkOk_exit k hin)
        simpa [jwOf, runToExit_inproc k hin, hin, hst] using this
      · rename_i hst
        refine rel_same s j h _ ?_
        simp [judgeCore, hj, jwOf, hst]
    · refine rel_same s j h _ ?_
      simp [judgeCore, hj]

theorem rel_wquit (s : World) (j : JState) (h : Rel s j) (w : Nat) :
    Rel (stepE s (.wquit w)).1 (judgeRun j (stepE s (.wquit w)).2) := by
  simp only [stepE]
  cases hg : s.getW w with
  | none => exact rel_same s j h _ (by simp [judgeCore, h.wlook, hg])
  | some k =>
    have hj : j.getW w = some (jwOf k) := by rw [h.wlook, hg]; rfl
    simp only
    split
    · rename_i hin
      rw [judgeRun_single h]
      simp only [judgeCore, hj, if_true]
      have := rel_setW h w k.runToExit (wkOk_exit k hin)
      simpa [jwOf, runToExit_inproc k hin, hin] using this
    · refine rel_same s j h _ ?_
      simp [judgeCore, hj]

theorem rel_wstop (s : World) (j : JState) (h : Rel s j) (w : Nat) :
    Rel (stepE s (.wstop w)).1 (judgeRun j (stepE s (.wstop w)).2) := by
  simp only [stepE]
  cases hg : s.getW w with
  | none => exact rel_same s j h _ rfl
  | some k =>
    have hj : j.getW w = some (jwOf k) := by rw [h.wlook, hg]; rfl
    have hok := h.wok w k hg
    simp only
    split
    · exact rel_same s j h _ rfl
    · rw [judgeRun_single h]
      simp only [judgeCore, hj]
      have := rel_setW h w k.signalStop ⟨hok.phase, hok.state⟩
      have e : ∀ x : JW, x = jwOf k.signalStop → Rel (s.setW w k.signalStop) (j.setW w x) := fun x hx => hx ▸ this
      exact e _ rfl

theorem rel_wdestroy (s : World) (j : JState) (h : Rel s j) (w : Nat) :
    Rel (stepE s (.wdestroy w)).1 (judgeRun j (stepE s (.wdestroy w)).2) := by
  simp only [stepE]
  cases hg : s.getW w with
  | none => exact rel_same s j h _ rfl
  | some k =>
    have hok := h.wok w k hg
    simp only
    split
    · exact rel_same s j h _ rfl
    · split
      · rw [judgeRun_single h]
        simp only [judgeCore]
        exact rel_setW_model h w k _ hg (by simp [jwOf]) ⟨hok.phase, hok.state⟩
      · exact rel_same s j h _ rfl

theorem rel_wjoin (s : World) (j : JState) (h : Rel s j) (w : Nat) (t : Int) :
    Rel (stepE s (.wjoin w t)).1 (judgeRun j (stepE s (.wjoin w t)).2) := by
  simp only [stepE]
  cases hg : s.getW w with
  | none => exact rel_same s j h _ rfl
  | some k =>
    have hj : j.getW w = some (jwOf k) := by rw [h.wlook, hg]; rfl
    have hok := h.wok w k hg
    simp only
    split
    · exact rel_same s j h _ rfl
    · rename_i hnj
      split
      · -- untimed: only made when the thread has exited
        unfold Wk.joinUntimed
        by_cases hex : k.th = .exited
        · simp only [hex, if_true]
          rw [judgeRun_single h]
          simp only [judgeCore, hj, jwOf, hex, decide_true, if_true, Nat.le_refl]
          have := rel_setW h w { k with joined := true } ⟨hok.phase, hok.state⟩
          simpa [jwOf, hex] using this
        · simp only [hex, if_false]
          exact rel_same s j h _ rfl
      · by_cases hex : k.th = .exited
        · have hst := hok.state.mpr hex
          rw [show sleepsFor t.toNat + 3 = sleepsFor t.toNat + 3 from rfl, joinAlone_exited k t.toNat _ hst hex]
          rw [judgeRun_single h]
          simp only [judgeCore, hj, jwOf, hex, decide_true, if_true, Nat.le_refl]
          have := rel_setW h w { k with joined := true } ⟨hok.phase, hok.state⟩
          simpa [jwOf, hex] using this
        · have hst : k.state ≠ .stopped := fun c => hex (hok.state.mp c)
          have hja := joinAlone_live k t.toNat hst (sleepsFor t.toNat + 3) 0 0 (by simp [sleepsFor, pollMs])
          have hsl : (t.toNat - 0 + 9) / 10 = sleepsFor t.toNat := by simp [sleepsFor, pollMs]
          rw [hja, hsl]
          rw [judgeRun_single h]
          simp only [judgeCore, hj, jwOf, hex, decide_false, Bool.false_eq_true, if_false, Nat.zero_add, Nat.le_refl, if_true,
            Nat.lt_irrefl]
          have := rel_setW_model h w k { k with joined := decide (JoinRes.rc0 = JoinRes.rc1) } hg
            (by simp [jwOf]; simpa using hnj) ⟨hok.phase, hok.state⟩
          simpa using this


/-! ### queue -/

theorem relQ_some {q : Q} {bl : Option Msg} {jq : Option JQ} (h : RelQ (some q) bl jq) :
    ∃ j, jq = some j ∧ QRel q bl j := by
  cases jq with
  | none => simp [RelQ] at h
  | some j => exact ⟨j, rfl, by simpa [RelQ] using h⟩

theorem relQ_none {bl : Option Msg} {jq : Option JQ} (h : RelQ none bl jq) : jq = none ∧ bl = none := by
  cases jq with
  | none => exact ⟨rfl, by simpa [RelQ] using h⟩
  | some j => simp [RelQ] at h

theorem Q.enqueue_fields (q : Q) (m : Msg) :
    (q.enqueue m).1.maxMsg = q.maxMsg ∧
    ((q.enqueue m).2 = .ok →
      (q.enqueue m).1.enqCount = q.enqCount + 1 ∧ (q.enqueue m).1.deqCount = q.deqCount ∧
      (q.enqueue m).1.dropCount = q.dropCount + (if q.count ≥ q.cap then 1 else 0)) := by
  unfold Q.enqueue
  by_cases hs : m.size = 0 ∨ m.size > q.maxMsg
  · rw [if_pos hs]; exact ⟨rfl, fun h => by cases h⟩
  · rw [if_neg hs]
    by_cases hfull : q.count ≥ q.cap
    · rw [if_pos hfull]
      cases hd : q.dropOldest with
      | false =>
        simp only [Bool.false_eq_true, if_false]
        refine ⟨by trivial, fun h => ?_⟩
        split at h <;> cases h
      | true =>
        simp only [if_true]
        split
        · exact ⟨by first | rfl | trivial, fun _ => ⟨rfl, rfl, by simp [hfull]⟩⟩
        · exact ⟨by first | rfl | trivial, fun h => by cases h⟩
    · rw [if_neg hfull]
      simp only
      split
      · exact ⟨by first | rfl | trivial, fun _ => ⟨rfl, rfl, by simp [hfull]⟩⟩
      · exact ⟨by first | rfl | trivial, fun h => by cases h⟩

theorem Q.dequeue_fields (q : Q) (buf : Nat) :
    (q.dequeue buf).1.maxMsg = q.maxMsg ∧
    (∀ m, (q.dequeue buf).2 = .msg m →
      (q.dequeue buf).1.enqCount = q.enqCount ∧ (q.dequeue buf).1.deqCount = q.deqCount + 1 ∧
      (q.dequeue buf).1.dropCount = q.dropCount) := by
  unfold Q.dequeue
  split
  · exact ⟨rfl, fun m h => by cases h⟩
  · split
    · exact ⟨rfl, fun m h => by cases h⟩
    · split
      · exact ⟨rfl, fun m h => by cases h⟩
      · exact ⟨rfl, fun m h => ⟨rfl, rfl, rfl⟩⟩

theorem jDrop_eq {q : Q} {bl} {jq : JQ} (h : QRel q bl jq) : jDrop jq = q.dropOldest := by
  simp [jDrop, Q.dropOldest, h.flags]

theorem jBlock_eq {q : Q} {bl} {jq : JQ} (h : QRel q bl jq) : jBlock jq = q.blockWriter := by
  simp [jBlock, Q.blockWriter, h.flags]

/-- build `Rel` after a command that changed only the queue part -/
theorem rel_q {s : World} {j : JState} (h : Rel s j) (q' : Option Q) (bl' : Option Msg) (jq' : Option JQ)
    (hq : RelQ q' bl' jq') : Rel { s with q := q', blocked := bl' } { j with q := jq' } :=
  ⟨h.nobad, h.items, h.bell, hq, h.wlook, h.wok, h.tInited, h.tActive, h.tAI, h.tSlept, h.tIdle⟩

theorem rel_qnew (s : World) (j : JState) (h : Rel s j) (c mm fl : Nat) :
    Rel (stepE s (.qnew c mm fl)).1 (judgeRun j (stepE s (.qnew c mm fl)).2) := by
  simp only [stepE]
  cases hs : s.q with
  | some q => exact rel_same s j h _ rfl
  | none =>
    simp only
    rw [judgeRun_single h]
    have hbl : RelQ none s.blocked j.q := hs ▸ h.q
    obtain ⟨hjq, hb⟩ := relQ_none hbl
    cases hc : Q.create c mm fl with
    | none =>
      have hz : c = 0 ∨ mm = 0 := by
        unfold Q.create at hc
        split at hc
        · assumption
        · cases hc
      have hd : decide (c ≠ 0 ∧ mm ≠ 0) = false := by
        rcases hz with h0 | h0 <;> simp [h0]
      simp only [judgeCore, Option.isSome_none, hd, if_true, Bool.false_eq_true, if_false]
      have := rel_q h none s.blocked j.q hbl
      exact this
    | some q =>
      obtain ⟨hinv, hcont, hcap⟩ := Q.inv_create hc
      have hnz : c ≠ 0 ∧ mm ≠ 0 := by
        unfold Q.create at hc
        split at hc
        · cases hc
        · rename_i hn; exact ⟨fun e => hn (Or.inl e), fun e => hn (Or.inr e)⟩
      have hd : decide (c ≠ 0 ∧ mm ≠ 0) = true := by simp [hnz]
      have hq0 : q = { cap := c, maxMsg := mm, flags := fl, slots := List.replicate c ⟨0, 0, 0⟩ } := by
        unfold Q.create at hc
        split at hc
        · cases hc
        · simpa using hc.symm
      simp only [judgeCore, Option.isSome_some, hd, if_true]
      have hrel : QRel q none { cap := c, maxMsg := mm, flags := fl } := by
        subst hq0
        exact ⟨hinv, rfl, rfl, rfl, by simp [hcont], rfl, rfl, rfl, rfl, rfl, fun m hm => by cases hm⟩
      have := rel_q h (some q) none (some { cap := c, maxMsg := mm, flags := fl }) hrel
      simpa [hb] using this


theorem j_eta {j : JState} {jq : JQ} (h : j.q = some jq) : { j with q := some jq } = j := by
  cases j; simp_all

theorem rel_qstat (s : World) (j : JState) (h : Rel s j) : Rel (stepE s .qstat).1 (judgeRun j (stepE s .qstat).2) := by
  simp only [stepE]
  cases hs : s.q with
  | none => exact rel_same s j h _ rfl
  | some q =>
    obtain ⟨jq, hjq, hr⟩ := relQ_some (hs ▸ h.q)
    refine rel_same s j h _ ?_
    have hl : jq.contents.length = q.count := by rw [hr.contents, Q.contents_length]
    simp only [judgeCore, hjq, hr.cap, hl, hr.enq, hr.deq, hr.drop]
    have h1 : q.head < q.cap ∧ q.tail < q.cap := ⟨hr.inv.head_lt, hr.inv.tail_lt⟩
    simp [h1]

theorem rel_qclear (s : World) (j : JState) (h : Rel s j) : Rel (stepE s .qclear).1 (judgeRun j (stepE s .qclear).2) := by
  simp only [stepE]
  cases hs : s.q with
  | none => exact rel_same s j h _ rfl
  | some q =>
    cases hb : s.blocked with
    | some bm =>
      obtain ⟨jq, hjq, hr⟩ := relQ_some (hs ▸ h.q)
      have hjb : jq.blocked = some bm := by rw [hr.blk, hb]
      have hinv : q.clear.Inv :=
        ⟨hr.inv.cap_pos, hr.inv.len, hr.inv.cap_pos, hr.inv.cap_pos, Nat.zero_le _, by simp [Q.clear, Nat.zero_mod]⟩
      have hbs : ¬ (bm.size = 0 ∨ bm.size > q.clear.maxMsg) := hr.bsize bm hb
      have hcs : clearSignals = true := by decide
      have hcc : q.clear.contents = [] := by simp [Q.clear, Q.contents]
      have hpos := hr.inv.cap_pos
      simp only
      obtain ⟨hinv2, hcap2, hflags2, hspec2⟩ := Q.enqueue_spec q.clear hinv bm
      obtain ⟨hmax2, hcnt2⟩ := Q.enqueue_fields q.clear bm
      generalize hres2 : q.clear.enqueue bm = res2 at hinv2 hcap2 hflags2 hspec2 hmax2 hcnt2 ⊢
      obtain ⟨q2, r2⟩ := res2
      simp only at hinv2 hcap2 hflags2 hspec2 hmax2 hcnt2 ⊢
      have hz : q.clear.count = 0 := rfl
      have hck : q.clear.cap = q.cap := rfl
      cases hspec2 with
      | badSize hx _ => exact absurd hx hbs
      | dropOldest _ hf _ _ _ => omega
      | blocked _ hf _ _ _ => omega
      | full _ hf _ _ _ => omega
      | room _ _ hc2 =>
        obtain ⟨d1, d2, d3⟩ := hcnt2 rfl
        have hnf : ¬ (q.clear.count ≥ q.clear.cap) := by omega
        simp only [hnf, if_false, Nat.add_zero] at d3
        simp only [hcs, true_and, if_true]
        have hlr : ([] : List Msg).length < jq.cap := by rw [hr.cap]; exact hpos
        have e1 : judgeStep j .qclear = { j with q := some { jq with contents := [], mustWake := true } } := by
          simp only [judgeStep, wakeCheck_id j _ h.wake, judgeCore, hjq, hjb, Option.isSome_some]
        have e2 : judgeStep { j with q := some { jq with contents := [], mustWake := true } } (.unblocked bm.p bm.v) =
            { j with q := some { jq with contents := [] ++ [bm], enq := jq.enq + 1, blocked := none, mustWake := false } } := by
          simp only [judgeStep, wakeCheck, judgeCore, hjb, true_and, hlr, if_true]
        have : judgeRun j [.qclear, .unblocked bm.p bm.v] =
            { j with q := some { jq with contents := [] ++ [bm], enq := jq.enq + 1, blocked := none, mustWake := false } } := by
          simp only [judgeRun, List.foldl_cons, List.foldl_nil, e1, e2]
        rw [this]
        have hrel : QRel q2 none { jq with contents := [] ++ [bm], enq := jq.enq + 1, blocked := none, mustWake := false } :=
          ⟨hinv2, by rw [hcap2]; exact hr.cap, by rw [hmax2]; exact hr.maxMsg,
            by rw [hflags2]; exact hr.flags, by rw [hc2, hcc],
            by rw [d1]; exact congrArg (· + 1) hr.enq, by rw [d2]; exact hr.deq, by rw [d3]; exact hr.drop, rfl, rfl,
            fun m hm => by cases hm⟩
        exact rel_q h (some q2) none (some _) hrel
    | none =>
      obtain ⟨jq, hjq, hr⟩ := relQ_some (hs ▸ h.q)
      have hjb : jq.blocked = none := by rw [hr.blk, hb]
      simp only
      rw [judgeRun_single h]
      simp only [judgeCore, hjq, hjb, Option.isSome_none]
      have hinv : q.clear.Inv :=
        ⟨hr.inv.cap_pos, hr.inv.len, hr.inv.cap_pos, hr.inv.cap_pos, Nat.zero_le _, by simp [Q.clear, Nat.zero_mod]⟩
      have hrel : QRel q.clear none { jq with contents := [], blocked := none, mustWake := false } :=
        ⟨hinv, hr.cap, hr.maxMsg, hr.flags, by simp [Q.clear, Q.contents], hr.enq, hr.deq, hr.drop,
          rfl, rfl, fun m hm => by cases hm⟩
      have := rel_q h (some q.clear) none (some { jq with contents := [], blocked := none, mustWake := false }) hrel
      simpa [hb] using this

theorem rel_enq (s : World) (j : JState) (h : Rel s j) (p v sz : Nat) :
    Rel (stepE s (.enq p v sz)).1 (judgeRun j (stepE s (.enq p v sz)).2) := by
  simp only [stepE]
  cases hs : s.q with
  | none => exact rel_same s j h _ rfl
  | some q =>
    cases hb : s.blocked with
    | some m => exact rel_same s j h _ rfl
    | none =>
      obtain ⟨jq, hjq, hr⟩ := relQ_some (hs ▸ h.q)
      have hr' : QRel q none jq := hb ▸ hr
      simp only
      rw [judgeRun_single h]
      simp only [judgeCore, hjq]
      obtain ⟨hinv, hcap, hflags, hspec⟩ := Q.enqueue_spec q hr.inv ⟨p, v, sz⟩
      obtain ⟨hmax, hcnt⟩ := Q.enqueue_fields q ⟨p, v, sz⟩
      have hl : jq.contents.length = q.count := by rw [hr.contents, Q.contents_length]
      generalize hres : q.enqueue ⟨p, v, sz⟩ = res at hinv hcap hflags hspec hmax hcnt
      obtain ⟨q', r⟩ := res
      simp only at hinv hcap hflags hspec hmax hcnt ⊢
      unfold judgeEnq
      cases hspec with
      | badSize hsz he =>
        subst he
        have : (⟨p, v, sz⟩ : Msg).size = 0 ∨ (⟨p, v, sz⟩ : Msg).size > jq.maxMsg := by rw [hr.maxMsg]; exact hsz
        simp only [this, if_true]
        have := rel_q h (some q') none (some jq) hr'
        rw [j_eta hjq] at this
        exact this
      | room hsz hlt hc =>
        have h1 : ¬ ((⟨p, v, sz⟩ : Msg).size = 0 ∨ (⟨p, v, sz⟩ : Msg).size > jq.maxMsg) := by rw [hr.maxMsg]; exact hsz
        have h2 : ¬ (jq.contents.length ≥ jq.cap) := by rw [hl, hr.cap]; omega
        simp only [h1, h2, if_false, if_true]
        obtain ⟨c1, c2, c3⟩ := hcnt rfl
        have hnf : ¬ (q.count ≥ q.cap) := by omega
        simp only [hnf, if_false, Nat.add_zero] at c3
        have hrel : QRel q' none { jq with contents := jq.contents ++ [⟨p, v, sz⟩], enq := jq.enq + 1 } :=
          ⟨hinv, by rw [hcap]; exact hr.cap, by rw [hmax]; exact hr.maxMsg, by rw [hflags]; exact hr.flags,
            by rw [hc, ← hr.contents], by rw [c1, ← hr.enq], by rw [c2]; exact hr.deq, by rw [c3]; exact hr.drop,
            hr'.blk, hr.wake, fun m hm => by cases hm⟩
        have := rel_q h (some q') none (some _) hrel
        simpa using this
      | dropOldest hsz hfull hdrop hold hc =>
        have h1 : ¬ ((⟨p, v, sz⟩ : Msg).size = 0 ∨ (⟨p, v, sz⟩ : Msg).size > jq.maxMsg) := by rw [hr.maxMsg]; exact hsz
        have h2 : jq.contents.length ≥ jq.cap := by rw [hl, hr.cap]; exact hfull
        have h3 : jDrop jq = true := by rw [jDrop_eq hr]; exact hdrop
        simp only [h1, h2, h3, if_false, if_true]
        obtain ⟨c1, c2, c3⟩ := hcnt rfl
        simp only [hfull, if_true] at c3
        have hrel : QRel q' none { jq with contents := jq.contents.drop 1 ++ [⟨p, v, sz⟩], enq := jq.enq + 1, drop := jq.drop + 1 } :=
          ⟨hinv, by rw [hcap]; exact hr.cap, by rw [hmax]; exact hr.maxMsg, by rw [hflags]; exact hr.flags,
            by rw [hc, ← hr.contents], by rw [c1, ← hr.enq], by rw [c2]; exact hr.deq, by rw [c3, ← hr.drop],
            hr'.blk, hr.wake, fun m hm => by cases hm⟩
        have := rel_q h (some q') none (some _) hrel
        simpa using this
      | blocked hsz hfull hdrop hbw he =>
        subst he
        have h1 : ¬ ((⟨p, v, sz⟩ : Msg).size = 0 ∨ (⟨p, v, sz⟩ : Msg).size > jq.maxMsg) := by rw [hr.maxMsg]; exact hsz
        have h2 : jq.contents.length ≥ jq.cap := by rw [hl, hr.cap]; exact hfull
        have h3 : jDrop jq = false := by rw [jDrop_eq hr]; exact hdrop
        have h4 : jBlock jq = true := by rw [jBlock_eq hr]; exact hbw
        simp only [h1, h2, h3, h4, if_false, if_true, Bool.false_eq_true]
        have hrel : QRel q' (some ⟨p, v, sz⟩) { jq with blocked := some ⟨p, v, sz⟩ } :=
          ⟨hr.inv, hr.cap, hr.maxMsg, hr.flags, hr.contents, hr.enq, hr.deq, hr.drop, rfl, hr.wake,
            fun m hm => by cases hm; exact hsz⟩
        have := rel_q h (some q') (some ⟨p, v, sz⟩) (some _) hrel
        simpa using this
      | full hsz hfull hdrop hbw he =>
        subst he
        have h1 : ¬ ((⟨p, v, sz⟩ : Msg).size = 0 ∨ (⟨p, v, sz⟩ : Msg).size > jq.maxMsg) := by rw [hr.maxMsg]; exact hsz
        have h2 : jq.contents.length ≥ jq.cap := by rw [hl, hr.cap]; exact hfull
        have h3 : jDrop jq = false := by rw [jDrop_eq hr]; exact hdrop
        have h4 : jBlock jq = false := by rw [jBlock_eq hr]; exact hbw
        simp only [h1, h2, h3, h4, if_false, if_true, Bool.false_eq_true]
        have := rel_q h (some q') none (some jq) hr'
        rw [j_eta hjq] at this
        exact this


theorem rel_deq (s : World) (j : JState) (h : Rel s j) (buf : Nat) :
    Rel (stepE s (.deq buf)).1 (judgeRun j (stepE s (.deq buf)).2) := by
  simp only [stepE]
  cases hs : s.q with
  | none => exact rel_same s j h _ rfl
  | some q =>
    obtain ⟨jq, hjq, hr⟩ := relQ_some (hs ▸ h.q)
    simp only
    obtain ⟨hinv, hcap, hflags, hspec⟩ := Q.dequeue_spec q hr.inv buf
    obtain ⟨hmax, hcnt⟩ := Q.dequeue_fields q buf
    have hl : jq.contents.length = q.count := by rw [hr.contents, Q.contents_length]
    generalize hres : q.dequeue buf = res at hinv hcap hflags hspec hmax hcnt ⊢
    obtain ⟨q', r⟩ := res
    simp only at hinv hcap hflags hspec hmax hcnt ⊢
    cases hspec with
    | empty hc he =>
      subst he
      have hjc : jq.contents = [] := by rw [hr.contents]; exact hc
      cases hb : s.blocked <;>
      · simp only
        rw [judgeRun_single h]
        simp only [judgeCore, hjq, judgeDeq, hjc, if_true]
        have := rel_q h (some q') _ (some jq) (hb ▸ hr)
        rw [j_eta hjq] at this
        exact this
    | short m rest hc hsz he =>
      subst he
      have hjc : jq.contents = m :: rest := by rw [hr.contents]; exact hc
      cases hb : s.blocked <;>
      · simp only
        rw [judgeRun_single h]
        simp only [judgeCore, hjq, judgeDeq, hjc, hsz, if_true]
        have := rel_q h (some q') _ (some jq) (hb ▸ hr)
        rw [j_eta hjq] at this
        exact this
    | took m rest hc hsz hc' =>
      have hjc : jq.contents = m :: rest := by rw [hr.contents]; exact hc
      obtain ⟨c1, c2, c3⟩ := hcnt m rfl
      have hnsz : ¬ (m.size > buf) := by omega
      have hcnt' : q'.count < q'.cap := by
        have h1 : q'.contents.length = q'.count := Q.contents_length q'
        have h2 : q.contents.length = q.count := Q.contents_length q
        have h3 := hr.inv.count_le
        rw [hc] at h2; rw [hc'] at h1
        simp only [List.length_cons] at h2
        rw [hcap]; omega
      cases hb : s.blocked with
      | none =>
        have hjb : jq.blocked = none := by rw [hr.blk, hb]
        simp only
        rw [judgeRun_single h]
        simp only [judgeCore, hjq, judgeDeq, hjc, hnsz, if_false, if_true, hjb, Option.isSome_none]
        have hrel : QRel q' none { jq with contents := rest, deq := jq.deq + 1, blocked := none, mustWake := false } :=
          ⟨hinv, by rw [hcap]; exact hr.cap, by rw [hmax]; exact hr.maxMsg, by rw [hflags]; exact hr.flags,
            hc'.symm, by rw [c1]; exact hr.enq, by rw [c2, ← hr.deq], by rw [c3]; exact hr.drop, rfl, rfl,
            fun m hm => by cases hm⟩
        exact rel_q h (some q') none (some _) hrel
      | some bm =>
        have hjb : jq.blocked = some bm := by rw [hr.blk, hb]
        have hbs : ¬ (bm.size = 0 ∨ bm.size > q'.maxMsg) := by rw [hmax]; exact hr.bsize bm hb
        simp only
        obtain ⟨hinv2, hcap2, hflags2, hspec2⟩ := Q.enqueue_spec q' hinv bm
        obtain ⟨hmax2, hcnt2⟩ := Q.enqueue_fields q' bm
        generalize hres2 : q'.enqueue bm = res2 at hinv2 hcap2 hflags2 hspec2 hmax2 hcnt2 ⊢
        obtain ⟨q2, r2⟩ := res2
        simp only at hinv2 hcap2 hflags2 hspec2 hmax2 hcnt2 ⊢
        cases hspec2 with
        | badSize hx _ => exact absurd hx hbs
        | dropOldest _ hf _ _ _ => omega
        | blocked _ hf _ _ _ => omega
        | full _ hf _ _ _ => omega
        | room _ _ hc2 =>
          obtain ⟨d1, d2, d3⟩ := hcnt2 rfl
          have hnf : ¬ (q'.count ≥ q'.cap) := by omega
          simp only [hnf, if_false, Nat.add_zero] at d3
          simp only [if_true]
          have hlr : rest.length < jq.cap := by
            have h1 : q'.contents.length = q'.count := Q.contents_length q'
            rw [hc'] at h1
            rw [hr.cap, ← hcap]; omega
          -- first event: the dequeue; second: the writer wakes up
          have e1 : judgeStep j (.deq buf (.msg m)) =
              { j with q := some { jq with contents := rest, deq := jq.deq + 1, mustWake := true } } := by
            simp only [judgeStep, wakeCheck_id j _ h.wake, judgeCore, hjq, judgeDeq, hjc, hnsz, if_false, if_true, hjb,
              Option.isSome_some]
          have e2 : judgeStep { j with q := some { jq with contents := rest, deq := jq.deq + 1, mustWake := true } }
                (.unblocked bm.p bm.v) =
              { j with q := some { jq with contents := rest ++ [bm], enq := jq.enq + 1, deq := jq.deq + 1,
                                           blocked := none, mustWake := false } } := by
            simp only [judgeStep, wakeCheck, judgeCore, hjb, true_and, hlr, if_true]
          have : judgeRun j [.deq buf (.msg m), .unblocked bm.p bm.v] =
              { j with q := some { jq with contents := rest ++ [bm], enq := jq.enq + 1, deq := jq.deq + 1,
                                           blocked := none, mustWake := false } } := by
            simp only [judgeRun, List.foldl_cons, List.foldl_nil, e1, e2]
          rw [this]
          have hrel : QRel q2 none { jq with contents := rest ++ [bm], enq := jq.enq + 1, deq := jq.deq + 1,
                                             blocked := none, mustWake := false } :=
            ⟨hinv2, by rw [hcap2, hcap]; exact hr.cap, by rw [hmax2, hmax]; exact hr.maxMsg,
              by rw [hflags2, hflags]; exact hr.flags, by rw [hc2, hc'],
              by rw [d1, c1, ← hr.enq], by rw [d2, c2, ← hr.deq], by rw [d3, c3]; exact hr.drop, rfl, rfl,
              fun m hm => by cases hm⟩
          exact rel_q h (some q2) none (some _) hrel

/-! ### the theorem -/

theorem rel_step (s : World) (j : JState) (h : Rel s j) (c : Cmd) :
    Rel (stepE s c).1 (judgeRun j (stepE s c).2) := by
  cases c with
  | post p k d => exact rel_post s j h p k d
  | wakeup => exact rel_wakeup s j h
  | wait m => exact rel_wait s j h m
  | wbegin m => exact rel_wbegin s j h m
  | wread => exact rel_wread s j h
  | wend => exact rel_wend s j h
  | qnew a b c => exact rel_qnew s j h a b c
  | enq p v sz => exact rel_enq s j h p v sz
  | deq b => exact rel_deq s j h b
  | qstat => exact rel_qstat s j h
  | qclear => exact rel_qclear s j h
  | wnew w mode => exact rel_wnew s j h w mode
  | wstate w => exact rel_wstate s j h w
  | wrelease w => exact rel_wrelease s j h w
  | wstep w => exact rel_wstep s j h w
  | wquit w => exact rel_wquit s j h w
  | wstop w => exact rel_wstop s j h w
  | wjoin w t => exact rel_wjoin s j h w t
  | wdestroy w => exact rel_wdestroy s j h w
  | tinit => exact rel_tinit s j h
  | tstart ms => exact rel_tstart s j h ms
  | tstop => exact rel_tstop s j h
  | tactive => exact rel_tactive s j h
  | tsleep ms => exact rel_tsleep s j h ms
  | tticks => exact rel_tticks s j h
  | tafter => exact rel_tafter s j h
  | tcleanup => exact rel_tcleanup s j h
  | mt kind args => simp only [stepE]; exact rel_same s j h _ rfl
  | hbrace ms => simp only [stepE]; exact rel_same s j h _ rfl
  | hbowed =>
    simp only [stepE]
    have hk : Gen.C19.hbClearsFlagFirst = true := rfl
    rw [hk]
    exact rel_same s j h _ rfl

theorem rel_run (cmds : List Cmd) : ∀ (s : World) (j : JState), Rel s j →
    Rel (runE s cmds).1 (judgeRun j (runE s cmds).2) := by
  induction cmds with
  | nil => intro s j h; exact h
  | cons c rest ih =>
    intro s j h
    simp only [runE]
    rw [judgeRun_append]
    exact ih _ _ (rel_step s j h c)

theorem rel_init : Rel {} {} := by
  refine ⟨rfl, rfl, fun _ h => absurd rfl h, rfl, fun _ => rfl, ?_, rfl, rfl, ?_, ?_, fun _ => rfl⟩
  · intro w k hk; cases hk
  · intro h; cases h
  · intro h; cases h

/-- **The model satisfies the specification oracle**: for EVERY list of commands (every sequentialised schedule
of posts, wake-ups, waits, enqueues, dequeues, worker life-cycle steps, joins and timer calls), the events the
model produces are accepted by `judgeEv` — the same function that judges the traces of the real code. -/
theorem model_satisfies_spec (cmds : List Cmd) : judgeEv (events cmds) = [] := by
  have h := rel_run cmds {} {} rel_init
  have hb := h.nobad
  simp only [judgeEv, events]
  simp only [judgeRun] at hb
  rw [hb]; rfl

end NV.C19
