/-
C19 — lib/async/async_runtime_poll.c AS IT WAS before its `fix:` commit, and Lean-checked counterexamples.

The poll back end (BSD / macOS; compiled on Linux by harness/c19/c19poll.c) used its notification PIPE as the
message carrier: `post_completion` wrote one 8-byte record `(key << 32) | (data & 0xFFFFFFFF)`, `wakeup` wrote ONE
byte into the same pipe, and `wait` read 8-byte records until a read came back short:

    while (read(pipe, &val, 8) == 8) { if (event_count < max_events) { decode; event_count++; } }

Three ways to lose or garble a completion, each replayed on the real code by a `#poll` boundary case of the check:
 * a wake-up byte in front of a record shifts the stream by one byte (garbled key/data, the tail is consumed by
   the short read that ends the loop) — `wakeup_shifts_stream`;
 * records beyond `max_events` are read and thrown away — `beyond_max_dropped`;
 * key and data are cut to 32 bits, data ≥ 2^31 is sign-extended by the `(int)` cast — `wide_key_cut`.
The repaired file uses the pipe as a doorbell and a mutex-protected ring, i.e. exactly `NV.C19.Rt` of Model.lean;
the theorems of Props.lean then hold for both back ends.
-/
import NV.C19.Model

namespace NV.C19.OldPoll

/-- the notification pipe: a byte stream -/
structure Rt where
  pipe : List Nat := []
  deriving Repr, DecidableEq

/-- little-endian bytes of a uint64 -/
def bytes8 (v : Nat) : List Nat :=
  [v % 256, v / 256 % 256, v / 256 ^ 2 % 256, v / 256 ^ 3 % 256, v / 256 ^ 4 % 256, v / 256 ^ 5 % 256,
   v / 256 ^ 6 % 256, v / 256 ^ 7 % 256]

def val8 : List Nat → Nat
  | [] => 0
  | b :: rest => b + 256 * val8 rest

/-- `uint64_t val = (((uint64_t)completion_key) << 32) | (data & 0xFFFFFFFF); write(pipe, &val, 8)` -/
def Rt.post (s : Rt) (k d : Nat) : Rt :=
  { pipe := s.pipe ++ bytes8 (((k % 2 ^ 32) * 2 ^ 32) + d % 2 ^ 32) }

/-- `char byte = 1; write(pipe, &byte, 1)` -/
def Rt.wakeup (s : Rt) : Rt := { pipe := s.pipe ++ [1] }

/-- `completion_key = val >> 32; bytes_transferred = (int)(val & 0xFFFFFFFF)` (sign-extended into a size_t) -/
def decode (v : Nat) : Item :=
  (v / 2 ^ 32, if v % 2 ^ 32 ≥ 2 ^ 31 then v % 2 ^ 32 + (2 ^ 64 - 2 ^ 32) else v % 2 ^ 32)

/-- the drain loop; `room` = free entries of the caller's array.  A read that finds fewer than 8 bytes returns
    them (they are gone) and ends the loop -/
def drainLoop : Nat → List Nat → Nat → List Item
  | 0, _, _ => []
  | fuel + 1, pipe, room =>
    if pipe.length ≥ 8 then
      (if room > 0 then [decode (val8 (pipe.take 8))] else []) ++ drainLoop fuel (pipe.drop 8) (room - 1)
    else []

/-- one whole `async_runtime_wait(rt, ev, max, {0,0})`: poll() says readable iff the pipe holds a byte -/
def Rt.wait (s : Rt) (max : Nat) : Rt × List Item :=
  if s.pipe = [] then (s, []) else ({ pipe := [] }, drainLoop s.pipe.length s.pipe max)

/-- full statement on the old code: what was posted is what the waits return -/
def PostsDeliveredFull : Prop :=
  ∀ (posts : List Item) (max : Nat), max ≥ 1 →
    let s := posts.foldl (fun s it => s.post it.1 it.2) ({} : Rt)
    (s.wait max).2 ++ ((s.wait max).1.wait max).2 = posts.take (2 * max)

/-- witness (confirmed on the real code, boundary case `poll-wakeup-then-post`: `wait 8 1 1048832:1793`): a wake-up
    byte in front of one completion garbles it… -/
theorem wakeup_shifts_stream :
    (((({} : Rt).wakeup).post 4097 7).wait 8).2 = [(1048832, 1793)] := by decide

/-- …and the real completion (4097, 7) is never delivered: the pipe is empty afterwards -/
theorem wakeup_shifts_stream_lost :
    (((({} : Rt).wakeup).post 4097 7).wait 8).1.pipe = [] := by decide

/-- witness (boundary case `poll-more-than-max`): three posts, `wait(max 1)` returns the first and DISCARDS the rest -/
theorem beyond_max_dropped :
    let s := (((({} : Rt).post 1 1).post 2 2).post 3 3)
    (s.wait 1).2 = [(1, 1)] ∧ ((s.wait 1).1.wait 1).2 = [] := by decide

theorem not_postsDeliveredFull : ¬ PostsDeliveredFull := by
  intro h
  have := h [(1, 1), (2, 2), (3, 3)] 1 (by decide)
  revert this
  decide

/-- witness (boundary case `poll-wide-key-data`): key 2^32 arrives as 0, data 2^32+1 as 1, data 2^31 sign-extended -/
theorem wide_key_cut :
    ((({} : Rt).post 4294967296 4294967297).wait 8).2 = [(0, 1)] ∧
    ((({} : Rt).post 4294967295 2147483648).wait 8).2 = [(4294967295, 18446744071562067968)] := by decide

theorem val8_bytes8 (v : Nat) (h : v < 2 ^ 64) : val8 (bytes8 v) = v := by
  simp only [bytes8, val8]
  omega

/-- what did hold on the old code: ONE post with key < 2^32 and data < 2^31, no wake-up in the pipe, arrives intact -/
theorem posts_delivered_partial (k d max : Nat) (hk : k < 2 ^ 32) (hd : d < 2 ^ 31) (hm : max ≥ 1) :
    ((({} : Rt).post k d).wait max).2 = [(k, d)] := by
  have hv : k % 2 ^ 32 * 2 ^ 32 + d % 2 ^ 32 < 2 ^ 64 := by
    have h1 : k % 2 ^ 32 = k := Nat.mod_eq_of_lt hk
    have h2 : d % 2 ^ 32 = d := Nat.mod_eq_of_lt (by omega)
    rw [h1, h2]
    have : k * 2 ^ 32 ≤ (2 ^ 32 - 1) * 2 ^ 32 := Nat.mul_le_mul_right _ (by omega)
    omega
  have hb : ∀ v, (bytes8 v).length = 8 := fun _ => rfl
  have h1 : k % 2 ^ 32 = k := Nat.mod_eq_of_lt hk
  have h2 : d % 2 ^ 32 = d := Nat.mod_eq_of_lt (by omega)
  rw [h1, h2] at hv
  have hpipe : (({} : Rt).post k d).pipe = bytes8 (k * 2 ^ 32 + d) := by
    simp only [Rt.post, h1, h2, List.nil_append]
  have hne : bytes8 (k * 2 ^ 32 + d) ≠ [] := by simp [bytes8]
  have ht : (bytes8 (k * 2 ^ 32 + d)).take 8 = bytes8 (k * 2 ^ 32 + d) :=
    List.take_of_length_le (by rw [hb]; exact Nat.le_refl _)
  have hloop : drainLoop 8 (bytes8 (k * 2 ^ 32 + d)) max = [decode (k * 2 ^ 32 + d)] := by
    have hroom : max > 0 := hm
    have hd8 : ((bytes8 (k * 2 ^ 32 + d)).drop 8).length = 0 := by simp [hb]
    rw [drainLoop]
    simp only [hb, ge_iff_le, Nat.le_refl, if_true, hroom, ht, val8_bytes8 _ hv]
    rw [drainLoop]
    simp [hd8]
  have h3 : (k * 2 ^ 32 + d) / 2 ^ 32 = k := by omega
  have h4 : (k * 2 ^ 32 + d) % 2 ^ 32 = d := by omega
  have hdec : decode (k * 2 ^ 32 + d) = (k, d) := by
    simp only [decode, h3, h4]
    have : ¬ d ≥ 2 ^ 31 := by omega
    simp [this]
  simp only [Rt.wait, hpipe, hne, if_false, hb, hloop, hdec]

end NV.C19.OldPoll
