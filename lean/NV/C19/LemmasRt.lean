/- C19 — event loop: invariants of every schedule -/
import NV.C19.Sched

namespace NV.C19

/-- the order of doorbell reset and ring drain AS THE SOURCE HAS IT (regenerated) -/
def codeOrder : Order := if Gen.C19.waitReadsBellBeforeLock then .bellFirst else .ringFirst

/-- **bridging lemma**: `async_runtime_wait` reads (resets) the doorbell before it takes `ring_lock`, and re-arms under
    the lock — the order for which `no_lost_wakeup` is proved (`RtSys.init` default) -/
theorem wait_order_eq : codeOrder = .bellFirst ∧ Gen.C19.waitRearmsUnderLock = true := by decide

/-- **bridging lemma**: `async_runtime_post_completion` pushes under the lock BEFORE it writes the doorbell
    (`Rt.post`, `RtSys.prodStep`: push, then `ringBell`) -/
theorem post_order_eq : Gen.C19.postPushesBeforeBell = true := by decide

/-! ### safety: what the waits returned ++ what is in the ring = what was pushed, in push order -/

theorem Rt.push_true {s rt' : Rt} {it : Item} (h : s.push it = (rt', true)) :
    rt'.ring = s.ring ++ [it] ∧ rt'.bell = s.bell := by
  unfold Rt.push at h
  split at h
  · simp at h
  · simp at h; subst h; simp

def RtSys.Safe (s : RtSys) : Prop := s.delivered.flatten ++ s.rt.ring = s.accepted

theorem RtSys.safe_prodStep (s : RtSys) (i : Nat) (h : s.Safe) : (s.prodStep i).Safe := by
  unfold RtSys.prodStep
  split
  · exact h
  · rename_i p _
    split
    · simpa [RtSys.Safe, Rt.ringBell] using h
    · split
      · exact h
      · simpa [RtSys.Safe, Rt.ringBell] using h
      · rename_i k d r
        split
        · exact h
        · split
          · rename_i rt' hpush
            have := Rt.push_true hpush
            simp only [RtSys.Safe] at h ⊢
            rw [this.1, ← h, List.append_assoc]
          · simpa [RtSys.Safe] using h

theorem RtSys.safe_take (s : RtSys) (m : Nat) (h : s.Safe) :
    (s.delivered ++ [(s.rt.take m).2]).flatten ++ (s.rt.take m).1.ring = s.accepted := by
  simp only [RtSys.Safe, Rt.take] at h ⊢
  rw [← h]
  simp [List.flatten_append, List.append_assoc]

theorem RtSys.safe_consStep (s : RtSys) (h : s.Safe) : s.consStep.Safe := by
  unfold RtSys.consStep
  split
  · split
    · exact h
    · split
      · simpa [RtSys.Safe] using h
      · simpa [RtSys.Safe] using h
  · split
    · simpa [RtSys.Safe, Rt.drain] using h
    · exact RtSys.safe_take s _ h
  · exact RtSys.safe_take s _ h
  · simpa [RtSys.Safe, Rt.rearm] using h
  · exact h
  · split <;> exact h
  · split
    · split
      · simpa [RtSys.Safe, Rt.drain] using h
      · exact h
    · exact h

theorem RtSys.safe_run (s : RtSys) (picks : List Nat) (h : s.Safe) : (s.run picks).Safe := by
  induction picks generalizing s with
  | nil => exact h
  | cons i rest ih =>
    apply ih
    unfold RtSys.step
    split
    · exact safe_prodStep s i h
    · exact safe_consStep s h

/-! ### no completion is left behind: a non-empty ring always has a doorbell ringing or about to ring -/

def RtSys.Bell (s : RtSys) : Prop :=
  s.order = .bellFirst → s.rt.ring ≠ [] →
    s.rt.bell > 0 ∨ (∃ p ∈ s.prods, p.pendingRing = true) ∨ (∃ m, s.cph = .drained m) ∨ s.cph = .took

theorem mem_set_self {α} (l : List α) (i : Nat) (x : α) (h : i < l.length) : x ∈ l.set i x := by
  exact List.mem_iff_getElem.mpr ⟨i, by simpa using h, by simp⟩

theorem RtSys.bell_prodStep (s : RtSys) (i : Nat) (h : s.Bell) : (s.prodStep i).Bell := by
  unfold RtSys.prodStep
  split
  · exact h
  · rename_i p hp
    have hi : i < s.prods.length := by
      rcases List.getElem?_eq_some_iff.mp hp with ⟨hi, _⟩; exact hi
    split
    · intro _ _; left; simp [Rt.ringBell]
    · split
      · exact h
      · intro _ _; left; simp [Rt.ringBell]
      · rename_i hpr _ k d r
        split
        · exact h
        · split
          · intro _ _; right; left
            exact ⟨_, mem_set_self _ _ _ hi, rfl⟩
          · -- refused: shared state unchanged, but producer i's record changed (it had no pending ring)
            intro ho hne
            rcases h ho hne with hb | ⟨q, hq, hqp⟩ | hd
            · left; exact hb
            · right; left
              by_cases hqe : q = p
              · subst hqe; simp_all
              · refine ⟨q, ?_, hqp⟩
                rcases List.mem_iff_getElem.mp hq with ⟨j, hj, hjq⟩
                have hji : j ≠ i := by
                  intro e; subst e
                  have : s.prods[j] = p := (List.getElem?_eq_some_iff.mp hp).2
                  exact hqe (hjq ▸ this)
                exact List.mem_iff_getElem.mpr ⟨j, by simpa using hj, by simp [List.getElem_set, Ne.symm hji, hjq]⟩
            · right; right; exact hd

theorem RtSys.bell_consStep (s : RtSys) (h : s.Bell) : s.consStep.Bell := by
  unfold RtSys.consStep
  split
  · rename_i hc
    split
    · exact h
    · split
      · rename_i hpoll
        intro _ _; left
        simpa [Rt.poll] using hpoll
      · intro ho hne
        rcases h ho hne with hb | hp | ⟨m, hm⟩ | ht
        · left; exact hb
        · right; left; exact hp
        · simp [hc] at hm
        · simp [hc] at ht
  · split
    · intro _ _; right; right; left; exact ⟨_, rfl⟩
    · rename_i ho; intro ho'; simp only at ho'; rw [ho] at ho'; cases ho'
  · intro _ _; right; right; right; rfl
  · intro _ hne
    left
    simp only [Rt.rearm] at hne ⊢
    have : s.rt.ring.isEmpty = false := by
      cases hd : s.rt.ring with
      | nil => exact absurd hd hne
      | cons a l => rfl
    simp [this]
  · rename_i hc
    intro ho hne
    rcases h ho hne with hb | hp | ⟨m, hm⟩ | ht
    · left; exact hb
    · right; left; exact hp
    · simp [hc] at hm
    · simp [hc] at ht
  · split
    · rename_i ho; intro ho'; simp only at ho'; rw [ho] at ho'; cases ho'
    · exact h
  · split
    · rename_i ho; intro ho'; simp only at ho'; rw [ho] at ho'; cases ho'
    · exact h

theorem RtSys.bell_run (s : RtSys) (picks : List Nat) (h : s.Bell) : (s.run picks).Bell := by
  induction picks generalizing s with
  | nil => exact h
  | cons i rest ih =>
    apply ih
    unfold RtSys.step
    split
    · exact bell_prodStep s i h
    · exact bell_consStep s h

/-! ### flushing by whole waits delivers the ring, in order -/

theorem Rt.wait_empty (rt : Rt) (max : Nat) (h : rt.ring = []) : (rt.wait max).2 = [] := by
  unfold Rt.wait
  split <;> simp [Rt.pop, Rt.drain, h]

theorem Rt.wait_nonempty (rt : Rt) (max : Nat) (hb : rt.bell > 0) :
    rt.wait max = ({ bell := if (rt.ring.drop max).isEmpty then 0 else 1, ring := rt.ring.drop max }, rt.ring.take max) := by
  have hpoll : rt.poll = true := by simpa [Rt.poll] using hb
  simp [Rt.wait, hpoll, Rt.pop, Rt.drain]

theorem flushAll_succ (max fuel : Nat) (rt : Rt) :
    flushAll max (fuel + 1) rt = if (rt.wait max).2 = [] then [] else (rt.wait max).2 ++ flushAll max fuel (rt.wait max).1 := by
  rw [flushAll]
  cases h : rt.wait max with
  | mk rt' evs =>
    cases evs with
    | nil => simp
    | cons a l => simp

theorem flushAll_eq_ring (max : Nat) (hmax : 0 < max) :
    ∀ (fuel : Nat) (rt : Rt), rt.ring.length < fuel → (rt.ring ≠ [] → rt.bell > 0) → flushAll max fuel rt = rt.ring := by
  intro fuel
  induction fuel with
  | zero => intro rt h; omega
  | succ n ih =>
    intro rt hlen hbell
    rw [flushAll_succ]
    by_cases hr : rt.ring = []
    · rw [Rt.wait_empty rt max hr]; simp [hr]
    · have hb := hbell hr
      rw [Rt.wait_nonempty rt max hb]
      have hpos : 0 < rt.ring.length := List.length_pos_iff.mpr hr
      have htake : rt.ring.take max ≠ [] := by
        intro h
        rw [List.take_eq_nil_iff] at h
        rcases h with h | h
        · omega
        · exact hr h
      simp only [htake, if_false]
      rw [ih]
      · exact List.take_append_drop max rt.ring
      · show (rt.ring.drop max).length < n
        rw [List.length_drop]; omega
      · intro hne2
        simp only
        split
        · rename_i he; rw [List.isEmpty_iff] at he; exact absurd he hne2
        · omega

/-! ### bookkeeping of who posted what -/

def remaining (prods : List Prod) : List Item := prods.flatMap (fun p => postsOf p.todo)

def RtSys.Books (s : RtSys) (all : List Item) : Prop :=
  (s.accepted ++ s.refused ++ remaining s.prods).Perm all

theorem remaining_set_same (prods : List Prod) (i : Nat) (p p' : Prod) (hp : prods[i]? = some p)
    (h : postsOf p'.todo = postsOf p.todo) : remaining (prods.set i p') = remaining prods := by
  induction prods generalizing i with
  | nil => simp [remaining]
  | cons a l ih =>
    cases i with
    | zero =>
      simp at hp; subst hp
      simp [remaining, h]
    | succ j =>
      simp at hp
      have := ih j hp
      simp only [remaining, List.set_cons_succ, List.flatMap_cons] at this ⊢
      rw [this]

theorem remaining_set_post (prods : List Prod) (i : Nat) (p p' : Prod) (it : Item) (hp : prods[i]? = some p)
    (h : postsOf p.todo = it :: postsOf p'.todo) : (it :: remaining (prods.set i p')).Perm (remaining prods) := by
  induction prods generalizing i with
  | nil => simp at hp
  | cons a l ih =>
    cases i with
    | zero =>
      simp at hp; subst hp
      simp [remaining, h]
    | succ j =>
      simp at hp
      have := ih j hp
      simp only [remaining, List.set_cons_succ, List.flatMap_cons] at this ⊢
      exact (List.perm_middle (l₁ := postsOf a.todo)).symm.trans (List.Perm.append_left _ this)

theorem RtSys.books_prodStep (s : RtSys) (i : Nat) (all : List Item) (h : s.Books all) : (s.prodStep i).Books all := by
  unfold RtSys.prodStep
  split
  · exact h
  · rename_i p hp
    split
    · simp only [RtSys.Books] at h ⊢
      rw [remaining_set_same s.prods i p { p with pendingRing := false } hp rfl]; exact h
    · split
      · exact h
      · rename_i r hr
        simp only [RtSys.Books] at h ⊢
        rw [remaining_set_same _ _ p _ hp (by simp [hr, postsOf])]; exact h
      · rename_i k d r hr
        have hposts : postsOf p.todo = (k, d) :: postsOf r := by simp [hr, postsOf]
        split
        · exact h
        split
        · simp only [RtSys.Books] at h ⊢
          have hperm := remaining_set_post s.prods i p { todo := r, pendingRing := true } (k, d) hp hposts
          refine List.Perm.trans ?_ h
          have : (s.accepted ++ [(k, d)] ++ s.refused ++ remaining (s.prods.set i { todo := r, pendingRing := true })).Perm
                 (s.accepted ++ s.refused ++ ((k, d) :: remaining (s.prods.set i { todo := r, pendingRing := true }))) := by
            simp only [List.append_assoc]
            apply List.Perm.append_left
            simp only [List.singleton_append]
            exact List.perm_middle.symm
          exact this.trans (List.Perm.append_left _ hperm)
        · -- refused
          simp only [RtSys.Books] at h ⊢
          have hperm := remaining_set_post s.prods i p { p with todo := r } (k, d) hp hposts
          refine List.Perm.trans ?_ h
          have : (s.accepted ++ (s.refused ++ [(k, d)]) ++ remaining (s.prods.set i { p with todo := r })).Perm
                 (s.accepted ++ s.refused ++ ((k, d) :: remaining (s.prods.set i { p with todo := r }))) := by
            simp [List.append_assoc]
          exact this.trans (List.Perm.append_left _ hperm)

theorem RtSys.books_consStep (s : RtSys) (all : List Item) (h : s.Books all) : s.consStep.Books all := by
  unfold RtSys.consStep
  split <;> (try split) <;> (try split) <;> exact h

theorem RtSys.books_run (s : RtSys) (picks : List Nat) (all : List Item) (h : s.Books all) : (s.run picks).Books all := by
  induction picks generalizing s with
  | nil => exact h
  | cons i rest ih =>
    apply ih
    unfold RtSys.step
    split
    · exact books_prodStep s i all h
    · exact books_consStep s all h

theorem remaining_quiescent (prods : List Prod) (h : ∀ p ∈ prods, p.todo = [] ∧ p.pendingRing = false) :
    remaining prods = [] := by
  induction prods with
  | nil => rfl
  | cons a l ih =>
    have ha := h a (by simp)
    simp only [remaining, List.flatMap_cons, ha.1, postsOf, List.filterMap_nil, List.nil_append]
    exact ih (fun p hp => h p (by simp [hp]))

end NV.C19
