/-
C19 — specification oracle.  `judgeEv` decides, for the observable events of a run (of the model or of the real
code), whether property C19 held.  It knows nothing about eventfd counters, ring indices or thread phases; it keeps

 * the completions accepted and not yet delivered (a post that returned 0), per producer in order,
 * the messages the queue must hold (a list) and its overflow policy,
 * which worker threads have finished, which timers are active.

Rules (one `bad` verdict each):
  every event returned by a wait is a completion that was posted and not yet delivered, with its key and data
  (otherwise `garbled-or-spurious-event`), never overtaking an older one of the same producer (`overtaking`);
  a wait made after posts have returned delivers them, up to its `max` (`lost-or-delayed-completion`; `lost-wakeup`
  when it finds nothing at all: it would go to sleep on a posted completion);
  a post is refused only when `completionRingSize` completions are undelivered (`post-refused`);
  the queue hands over exactly the accepted messages in FIFO order, drops / refuses / blocks only as its flags
  say, wakes a blocked writer at the next successful dequeue or clear, reports consistent statistics and ring indices;
  a timed join returns within its bound, true exactly when the thread has finished; a worker is RUNNING from
  create until its procedure has returned; stopping the timer is bounded and no callback runs afterwards.
-/
import NV.C19.Run

namespace NV.C19

structure JQ where
  cap : Nat
  maxMsg : Nat
  flags : Nat
  contents : List Msg := []
  enq : Nat := 0
  deq : Nat := 0
  drop : Nat := 0
  blocked : Option Msg := none
  mustWake : Bool := false

structure JW where
  exited : Bool := false
  stop : Bool := false
  joined : Bool := false

structure JState where
  outstanding : List (Nat × Item) := []
  q : Option JQ := none
  ws : List (Nat × JW) := []
  tInited : Bool := false
  tActive : Bool := false
  tInterval : Nat := 0
  tSlept : Nat := 0
  bad : List String := []          -- newest first

def JState.flag (s : JState) (v : String) : JState := { s with bad := v :: s.bad }

def JState.getW (s : JState) (w : Nat) : Option JW := (s.ws.find? (·.1 == w)).map (·.2)
def JState.setW (s : JState) (w : Nat) (k : JW) : JState := { s with ws := (w, k) :: s.ws.filter (·.1 != w) }

/-- take one returned event out of the outstanding completions -/
def takeItem (it : Item) : List (Nat × Item) → List Nat → Option (Bool × List (Nat × Item))
  | [], _ => none
  | (p, x) :: rest, seen =>
    if x = it then some (seen.contains p, rest)
    else match takeItem it rest (p :: seen) with
      | none => none
      | some (ov, r) => some (ov, (p, x) :: r)

def judgeWait (s : JState) (max : Nat) (evs : List Item) : JState :=
  let s := if evs.length > max then s.flag s!"too-many-events max={max} got={evs.length}" else s
  let expect := min max s.outstanding.length
  let s := if evs.length < expect then
      s.flag (if evs.length = 0
              then s!"lost-wakeup a wait found nothing although {s.outstanding.length} posted completion(s) are undelivered"
              else s!"lost-or-delayed-completion undelivered={s.outstanding.length} max={max} got={evs.length}") else s
  evs.foldl (fun s it =>
    match takeItem it s.outstanding [] with
    | none => s.flag s!"garbled-or-spurious-event key={it.1} data={it.2}"
    | some (ov, rest) =>
      let s := { s with outstanding := rest }
      if ov then s.flag s!"overtaking key={it.1} data={it.2}" else s) s

def jDrop (q : JQ) : Bool := q.flags &&& flagDropOldest != 0
def jBlock (q : JQ) : Bool := q.flags &&& flagBlockWriter != 0

def showEnq : EnqRes → String
  | .ok => "ok" | .fail => "fail" | .blocked => "blocked" | .crash => "crash"

def judgeEnq (s : JState) (q : JQ) (m : Msg) (r : EnqRes) : JState :=
  let put (s : JState) (q : JQ) : JState := { s with q := some q }
  if m.size = 0 ∨ m.size > q.maxMsg then
    if r = .fail then s else s.flag s!"bad-size-accepted size={m.size} got={showEnq r}"
  else if q.contents.length ≥ q.cap then
    if jDrop q then
      if r = .ok then put s { q with contents := q.contents.drop 1 ++ [m], enq := q.enq + 1, drop := q.drop + 1 }
      else s.flag s!"drop-policy expected=ok(drop-oldest) got={showEnq r}"
    else if jBlock q then
      if r = .blocked then put s { q with blocked := some m }
      else s.flag s!"drop-policy expected=blocked got={showEnq r}"
    else if r = .fail then s else s.flag s!"drop-policy expected=fail got={showEnq r}"
  else if r = .ok then put s { q with contents := q.contents ++ [m], enq := q.enq + 1 }
  else s.flag s!"enqueue-refused-with-space size={q.contents.length} cap={q.cap} got={showEnq r}"

def judgeDeq (s : JState) (q : JQ) (buf : Nat) (r : DeqRes) : JState :=
  match q.contents with
  | [] => if r = .none then s else s.flag "dequeue-from-empty-queue"
  | m :: rest =>
    if m.size > buf then
      if r = .none then s else s.flag "dequeue-into-short-buffer"
    else match r with
      | .msg m' =>
        if m' = m then { s with q := some { q with contents := rest, deq := q.deq + 1, mustWake := q.blocked.isSome } }
        else s.flag s!"fifo-violated expected=({m.p},{m.v},{m.size}) got=({m'.p},{m'.v},{m'.size})"
      | .none => s.flag s!"message-lost expected=({m.p},{m.v},{m.size}) got=none"
      | .crash => s.flag "queue-index-out-of-range"

/-- a blocked writer must be woken by the dequeue that made room: the event after such a dequeue is `unblocked` -/
def wakeCheck (s : JState) (e : Ev) : JState :=
  match s.q, e with
  | some _, .unblocked .. => s
  | some q, _ => if q.mustWake then ({ s with q := some { q with mustWake := false } }).flag "blocked-writer-not-woken" else s
  | none, _ => s

def judgeCore (s : JState) (e : Ev) : JState :=
  match e with
  | .post p k d rc =>
    if rc = 0 then { s with outstanding := s.outstanding ++ [(p, (k, d))] }
    else if rc = -1 ∧ s.outstanding.length ≥ ringSize then s
    else s.flag s!"post-refused rc={rc} undelivered={s.outstanding.length}"
  | .wakeup rc => if rc = 0 then s else s.flag s!"wakeup-failed rc={rc}"
  | .wait max evs => judgeWait s max evs
  | .wbegin _ => s
  | .wread => s
  | .qnew c m f ok =>
    if ok = (decide (c ≠ 0 ∧ m ≠ 0)) then
      if ok then { s with q := some { cap := c, maxMsg := m, flags := f } } else s
    else s.flag "queue-create"
  | .enq m r => match s.q with
    | some q => judgeEnq s q m r
    | none => s.flag "enqueue-without-queue"
  | .unblocked p v => match s.q with
    | some q => match q.blocked with
      | some m =>
        if m.p = p ∧ m.v = v ∧ q.contents.length < q.cap then
          { s with q := some { q with contents := q.contents ++ [m], enq := q.enq + 1, blocked := none, mustWake := false } }
        else s.flag "unblocked-wrong-writer"
      | none => s.flag "unblocked-without-blocked-writer"
    | none => s.flag "unblocked-without-queue"
  | .deq buf r => match s.q with
    | some q => judgeDeq s q buf r
    | none => s.flag "dequeue-without-queue"
  | .qstat size enq deq drop head tail empty full => match s.q with
    | some q =>
      let s := if head < q.cap ∧ tail < q.cap then s else s.flag s!"queue-index-out-of-range head={head} tail={tail} cap={q.cap}"
      let s := if size = q.contents.length ∧ empty = (q.contents.length == 0) ∧ full = decide (q.contents.length ≥ q.cap) then s
               else s.flag s!"queue-size expected={q.contents.length} got={size}"
      if enq = q.enq ∧ deq = q.deq ∧ drop = q.drop then s
      else s.flag s!"queue-counters expected={q.enq}/{q.deq}/{q.drop} got={enq}/{deq}/{drop}"
    | none => s.flag "stat-without-queue"
  | .qclear => match s.q with
    -- clearing makes room: a writer asleep on the full queue must be woken (next event `unblocked`)
    | some q => { s with q := some { q with contents := [], mustWake := q.blocked.isSome } }
    | none => s
  | .wnew w fin => s.setW w { exited := fin }
  | .wstate w st => match s.getW w with
    | some k =>
      if k.exited then (if st = .stopped then s else s.flag s!"state-running-after-exit worker={w}")
      else if st = .running then s else s.flag s!"state-stopped-while-live worker={w}"
    | none => s.flag "unknown-worker"
  | .wrelease _ _ => s
  | .wstep w r => match s.getW w, r with
    | some k, some true => if k.stop then s.setW w { k with exited := true } else s.flag s!"exited-without-stop worker={w}"
    | some k, some false => if k.stop then s.flag s!"stop-not-seen worker={w}" else s
    | _, _ => s
  | .wquit w did => match s.getW w with
    | some k => if did then s.setW w { k with exited := true } else s
    | none => s
  | .wstop w => match s.getW w with
    | some k => s.setW w { k with stop := true }
    | none => s
  | .wjoin w t r sl => match s.getW w with
    | some k =>
      -- "within t + one poll interval": at most ceil(t/10) sleeps of 10 ms, none when the thread has finished
      let s := if sl ≤ (if k.exited then 0 else sleepsFor t.toNat) then s
               else s.flag s!"timed-join-too-many-sleeps worker={w} timeout={t} sleeps={sl}"
      match r with
      | .overran => s.flag s!"timed-join-unbounded worker={w} timeout={t} thread-finished={k.exited}"
      | .rc1 => if k.exited then s.setW w { k with joined := true } else s.flag s!"join-true-on-live-thread worker={w}"
      | .rc0 =>
        if k.exited then s.flag s!"join-false-on-finished-thread worker={w}"
        -- false = the time is up: only after all ceil(t/10) sleeps (a join that gives up earlier stopped polling)
        else if sl < sleepsFor t.toNat then s.flag s!"timed-join-gave-up-early worker={w} timeout={t} sleeps={sl}"
        else s
    | none => s.flag "unknown-worker"
  | .wdestroy _ _ => s
  | .tinit rc => if rc = 0 then { s with tInited := true, tActive := false } else s.flag s!"timer-init rc={rc}"
  | .tstart ms rc =>
    let want : Int := if !s.tInited then timerErrNull else if ms = 0 then timerErrInterval
                      else if s.tActive then timerErrActive else timerOk
    if rc ≠ want then s.flag s!"timer-start expected={want} got={rc}"
    else if rc = 0 then { s with tActive := true, tInterval := ms, tSlept := 0 } else s
  | .tstop rc within =>
    let s := if within then s else s.flag "timer-stop-unbounded"
    let want : Int := if s.tInited then timerOk else timerErrNull
    let s := if rc = want then s else s.flag s!"timer-stop expected={want} got={rc}"
    { s with tActive := false, tSlept := 0 }
  | .tactive b => if b = (s.tInited && s.tActive) then s else s.flag "timer-active-flag"
  | .tsleep ms => if s.tActive then { s with tSlept := s.tSlept + ms } else s
  | .tticks c =>
    let s' := { s with tSlept := 0 }
    match c with
    | .some => if s.tActive ∧ s.tSlept > 0 then s' else s'.flag "callback-while-timer-inactive"
    | .none => if s.tActive ∧ s.tSlept ≥ 10 * s.tInterval ∧ s.tSlept > 0 then s'.flag "timer-not-firing" else s'
    | .ambiguous => s'
  | .tafter n => if n = 0 then s else s.flag s!"callback-after-stop count={n}"
  | .tcleanup => { s with tInited := false, tActive := false }
  | .mt kind ok detail => if ok then s else s.flag s!"mt-{kind} {detail}"
  | .hbrace _ ticked => if ticked then s else s.flag "timer-not-firing"
  | .hbowed kept => if kept then s else s.flag "tick-swallowed a tick that arrived inside call_heart_beat was wiped by its clear"
  | .race what => s.flag s!"data-race {what}"
  | .skip _ => s

def judgeStep (s : JState) (e : Ev) : JState := judgeCore (wakeCheck s e) e

def judgeEv (evs : List Ev) : List String := (evs.foldl judgeStep {}).bad.reverse

end NV.C19
