/-
C19 — lock discipline of the shared state, for ALL paths through the real function bodies.

`Gen.C19.lockedFunctions` is regenerated on every run from the clang AST of async_queue.c and of both completion
rings (props/c19_extract.py): each function body reduced to lock / unlock / event-wait / event-set / shared-field
accesses with its real control flow.  This file gives

 * `runActs`   what a sequence of such actions does to "this thread holds the mutex" — `none` when the discipline is
               violated: an access without the mutex, a second lock, an unlock without lock, an event wait made while
               holding the mutex, a write to a field that is read without the mutex elsewhere;
 * `Exec`      the PATH semantics of a body: every choice at every `if`, every number of loop iterations, `return` /
               `continue` / `break`;
 * `chk`       a checker (one pass, loop-head state as invariant), and `chk_sound`: whatever `chk` accepts is
               disciplined on every path;
 * `MSys`      threads interleaved under a real mutex: `mutex_excludes_accesses` — when every thread is disciplined, a
               thread that touches a shared field is the holder of the mutex at that moment, so two accesses of
               different threads are always separated by an unlock and a lock (no data race on those fields).

The obligation that ties it to the source is `lock_discipline_all_paths` in PropsExt.lean (`decide` over the generated
bodies).  A change like "release the mutex while the payload is copied out" puts a slot access outside the bracket:
the obligation breaks, and the check goes looking for a failing input (`mt queue`).
-/
import NV.Gen.C19

namespace NV.C19

open NV.Gen.C19 (LAct LStmt)

/-- one action against "this thread holds the mutex"; `none` = discipline violated -/
def actOk (h : Bool) : LAct → Option Bool
  | .lock => if h then none else some true
  | .unlock => if h then some false else none
  | .wait => if h then none else some false
  | .set => some h
  | .rd _ => if h then some true else none
  | .wr _ => if h then some true else none
  | .wrImm _ => none

def runActs (h : Bool) : List LAct → Option Bool
  | [] => some h
  | a :: r => match actOk h a with
    | none => none
    | some h' => runActs h' r

theorem runActs_append (h : Bool) (l1 l2 : List LAct) :
    runActs h (l1 ++ l2) = match runActs h l1 with | none => none | some h' => runActs h' l2 := by
  induction l1 generalizing h with
  | nil => rfl
  | cons a r ih =>
    simp only [List.cons_append, runActs]
    cases actOk h a with
    | none => rfl
    | some h' => exact ih h'

/-- a prefix of a disciplined trace is disciplined -/
theorem runActs_prefix (h : Bool) (l1 l2 : List LAct) (h2 : Bool) (hr : runActs h (l1 ++ l2) = some h2) :
    ∃ h1, runActs h l1 = some h1 := by
  rw [runActs_append] at hr
  cases h1 : runActs h l1 with
  | none => rw [h1] at hr; cases hr
  | some x => exact ⟨x, rfl⟩

/-! ## path semantics -/

inductive Exit | normal | ret | cont | brk
  deriving Repr, DecidableEq

inductive Exec : LStmt → List LAct → Exit → Prop
  | acts (l : List LAct) : Exec (.acts l) l .normal
  | seqN {a b t1 t2 ex} : Exec a t1 .normal → Exec b t2 ex → Exec (.seq a b) (t1 ++ t2) ex
  | seqX {a b t1 ex} : Exec a t1 ex → ex ≠ .normal → Exec (.seq a b) t1 ex
  | iteT {c t e tr ex} : Exec t tr ex → Exec (.ite c t e) (c ++ tr) ex
  | iteE {c t e tr ex} : Exec e tr ex → Exec (.ite c t e) (c ++ tr) ex
  | loopExit {c b} : Exec (.loop c b) c .normal
  | loopIter {c b t1 t2 ex1 ex} : Exec b t1 ex1 → (ex1 = .normal ∨ ex1 = .cont) → Exec (.loop c b) t2 ex →
      Exec (.loop c b) (c ++ t1 ++ t2) ex
  | loopBrk {c b t1} : Exec b t1 .brk → Exec (.loop c b) (c ++ t1) .normal
  | loopRet {c b t1} : Exec b t1 .ret → Exec (.loop c b) (c ++ t1) .ret
  | ret (c : List LAct) : Exec (.ret c) c .ret
  | cont : Exec .cont [] .cont
  | brk : Exec .brk [] .brk

/-! ## the checker -/

/-- join of the two arms of an `if`: `none` = the arms leave the mutex in different states -/
def joinArms : Option Bool → Option Bool → Option (Option Bool)
  | none, r => some r
  | r, none => some r
  | some x, some y => if x = y then some (some x) else none

/-- `lh` = lock state at the head of the enclosing loop (what `continue` / `break` must restore);
    result: `none` = violated, `some none` = never falls through, `some (some h)` = falls through holding `h` -/
def chk (lh : Option Bool) : LStmt → Bool → Option (Option Bool)
  | .acts l, h => match runActs h l with | none => none | some h' => some (some h')
  | .seq a b, h => match chk lh a h with
    | none => none
    | some none => some none
    | some (some h') => chk lh b h'
  | .ite c t e, h => match runActs h c with
    | none => none
    | some h1 => match chk lh t h1, chk lh e h1 with
      | some rt, some re => joinArms rt re
      | _, _ => none
  | .loop c body, h => match runActs h c with
    | none => none
    | some h1 =>
      if h1 = h then
        match chk (some h) body h with
        | some none => some (some h)
        | some (some h') => if h' = h then some (some h) else none
        | none => none
      else none
  | .ret c, h => match runActs h c with
    | some false => some none
    | _ => none
  | .cont, h => if lh = some h then some none else none
  | .brk, h => if lh = some h then some none else none

theorem chk_sound {s : LStmt} {tr : List LAct} {ex : Exit} (hexec : Exec s tr ex) :
    ∀ (lh : Option Bool) (h : Bool) (r : Option Bool), chk lh s h = some r →
      ∃ h', runActs h tr = some h' ∧ (ex = .normal → r = some h') ∧ (ex = .ret → h' = false) ∧
        ((ex = .cont ∨ ex = .brk) → lh = some h') := by
  induction hexec with
  | acts l =>
    intro lh h r hc
    simp only [chk] at hc
    cases hr : runActs h l with
    | none => rw [hr] at hc; cases hc
    | some h' =>
      rw [hr] at hc
      exact ⟨h', rfl, (fun _ => (Option.some.inj hc).symm), (fun e => by cases e), (fun e => by rcases e with e | e <;> cases e)⟩
  | @seqN a b t1 t2 ex _ _ iha ihb =>
    intro lh h r hc
    simp only [chk] at hc
    cases ha : chk lh a h with
    | none => rw [ha] at hc; cases hc
    | some ra =>
      obtain ⟨h1, hr1, hn1, _, _⟩ := iha lh h ra ha
      have hra := hn1 rfl
      subst hra
      rw [ha] at hc
      simp only at hc
      obtain ⟨h2, hr2, hn2, hret2, hcb2⟩ := ihb lh h1 r hc
      refine ⟨h2, ?_, hn2, hret2, hcb2⟩
      rw [runActs_append, hr1]
      exact hr2
  | @seqX a b t1 ex _ hne iha =>
    intro lh h r hc
    simp only [chk] at hc
    cases ha : chk lh a h with
    | none => rw [ha] at hc; cases hc
    | some ra =>
      obtain ⟨h1, hr1, _, hret1, hcb1⟩ := iha lh h ra ha
      exact ⟨h1, hr1, fun e => absurd e hne, hret1, hcb1⟩
  | @iteT c t e tr ex _ iht =>
    intro lh h r hc
    simp only [chk] at hc
    cases hcnd : runActs h c with
    | none => rw [hcnd] at hc; cases hc
    | some h1 =>
      rw [hcnd] at hc
      simp only at hc
      cases hct : chk lh t h1 with
      | none => rw [hct] at hc; cases hc
      | some rt =>
        cases hce : chk lh e h1 with
        | none => rw [hct, hce] at hc; cases hc
        | some re =>
          rw [hct, hce] at hc
          simp only at hc
          obtain ⟨h2, hr2, hn2, hret2, hcb2⟩ := iht lh h1 rt hct
          refine ⟨h2, by rw [runActs_append, hcnd]; exact hr2, ?_, hret2, hcb2⟩
          intro hex
          have hrt := hn2 hex
          subst hrt
          cases re with
          | none => simpa [joinArms] using hc.symm
          | some y =>
            simp only [joinArms] at hc
            split at hc
            · exact (Option.some.inj hc).symm
            · cases hc
  | @iteE c t e tr ex _ ihe =>
    intro lh h r hc
    simp only [chk] at hc
    cases hcnd : runActs h c with
    | none => rw [hcnd] at hc; cases hc
    | some h1 =>
      rw [hcnd] at hc
      simp only at hc
      cases hct : chk lh t h1 with
      | none => rw [hct] at hc; cases hc
      | some rt =>
        cases hce : chk lh e h1 with
        | none => rw [hct, hce] at hc; cases hc
        | some re =>
          rw [hct, hce] at hc
          simp only at hc
          obtain ⟨h2, hr2, hn2, hret2, hcb2⟩ := ihe lh h1 re hce
          refine ⟨h2, by rw [runActs_append, hcnd]; exact hr2, ?_, hret2, hcb2⟩
          intro hex
          have hre := hn2 hex
          subst hre
          cases rt with
          | none => simpa [joinArms] using hc.symm
          | some x =>
            simp only [joinArms] at hc
            split at hc
            · rename_i hxy
              rw [← hxy]; exact (Option.some.inj hc).symm
            · cases hc
  | @loopExit c b =>
    intro lh h r hc
    simp only [chk] at hc
    cases hcnd : runActs h c with
    | none => rw [hcnd] at hc; cases hc
    | some h1 =>
      rw [hcnd] at hc
      simp only at hc
      split at hc
      · rename_i heq
        subst heq
        refine ⟨h1, rfl, fun _ => ?_, (fun e => by cases e), (fun e => by rcases e with e | e <;> cases e)⟩
        split at hc
        · exact (Option.some.inj hc).symm
        · split at hc
          · exact (Option.some.inj hc).symm
          · cases hc
        · cases hc
      · cases hc
  | @loopIter c b t1 t2 ex1 ex _ hex1 _ ihb ihl =>
    intro lh h r hc
    have hc0 := hc
    simp only [chk] at hc
    cases hcnd : runActs h c with
    | none => rw [hcnd] at hc; cases hc
    | some h1 =>
      rw [hcnd] at hc
      simp only at hc
      split at hc
      · rename_i heq
        subst heq
        cases hcb : chk (some h1) b h1 with
        | none => rw [hcb] at hc; cases hc
        | some rb =>
          obtain ⟨h2, hr2, hn2, _, hcb2⟩ := ihb (some h1) h1 rb hcb
          have h21 : h2 = h1 := by
            rcases hex1 with e | e
            · have := hn2 e
              subst this
              rw [hcb] at hc
              simp only at hc
              split at hc
              · rename_i hh; exact hh
              · cases hc
            · exact (Option.some.inj (hcb2 (Or.inl e))).symm
          subst h21
          obtain ⟨h3, hr3, hn3, hret3, hcb3⟩ := ihl lh h2 r hc0
          refine ⟨h3, ?_, hn3, hret3, hcb3⟩
          rw [runActs_append, runActs_append, hcnd]
          simp only
          rw [hr2]
          exact hr3
      · cases hc
  | @loopBrk c b t1 _ ihb =>
    intro lh h r hc
    simp only [chk] at hc
    cases hcnd : runActs h c with
    | none => rw [hcnd] at hc; cases hc
    | some h1 =>
      rw [hcnd] at hc
      simp only at hc
      split at hc
      · rename_i heq
        subst heq
        cases hcb : chk (some h1) b h1 with
        | none => rw [hcb] at hc; cases hc
        | some rb =>
          obtain ⟨h2, hr2, _, _, hcb2⟩ := ihb (some h1) h1 rb hcb
          have h21 : h2 = h1 := (Option.some.inj (hcb2 (Or.inr rfl))).symm
          subst h21
          refine ⟨h2, by rw [runActs_append, hcnd]; exact hr2, fun _ => ?_, (fun e => by cases e),
            (fun e => by rcases e with e | e <;> cases e)⟩
          rw [hcb] at hc
          cases rb with
          | none => exact (Option.some.inj hc).symm
          | some y =>
            simp only at hc
            split at hc
            · exact (Option.some.inj hc).symm
            · cases hc
      · cases hc
  | @loopRet c b t1 _ ihb =>
    intro lh h r hc
    simp only [chk] at hc
    cases hcnd : runActs h c with
    | none => rw [hcnd] at hc; cases hc
    | some h1 =>
      rw [hcnd] at hc
      simp only at hc
      split at hc
      · rename_i heq
        subst heq
        cases hcb : chk (some h1) b h1 with
        | none => rw [hcb] at hc; cases hc
        | some rb =>
          obtain ⟨h2, hr2, _, hret2, _⟩ := ihb (some h1) h1 rb hcb
          exact ⟨h2, by rw [runActs_append, hcnd]; exact hr2, (fun e => by cases e), (fun _ => hret2 rfl),
            (fun e => by rcases e with e | e <;> cases e)⟩
      · cases hc
  | ret c =>
    intro lh h r hc
    simp only [chk] at hc
    cases hr : runActs h c with
    | none => rw [hr] at hc; cases hc
    | some h' =>
      rw [hr] at hc
      cases h' with
      | true => cases hc
      | false =>
        exact ⟨false, rfl, (fun e => by cases e), (fun _ => rfl), (fun e => by rcases e with e | e <;> cases e)⟩
  | cont =>
    intro lh h r hc
    simp only [chk] at hc
    split at hc
    · rename_i hl
      exact ⟨h, rfl, (fun e => by cases e), (fun e => by cases e), fun _ => hl⟩
    · cases hc
  | brk =>
    intro lh h r hc
    simp only [chk] at hc
    split at hc
    · rename_i hl
      exact ⟨h, rfl, (fun e => by cases e), (fun e => by cases e), fun _ => hl⟩
    · cases hc

/-- a function body is accepted: entered without the mutex, every path leaves it released -/
def okBody (s : LStmt) : Bool :=
  match chk none s false with
  | some none => true
  | some (some false) => true
  | _ => false

/-- a whole call, on any path: the trace is disciplined and ends with the mutex released -/
theorem okBody_sound {s : LStmt} (hok : okBody s = true) {tr : List LAct} {ex : Exit} (hexec : Exec s tr ex) :
    runActs false tr = some false := by
  unfold okBody at hok
  cases hc : chk none s false with
  | none => rw [hc] at hok; cases hok
  | some r =>
    obtain ⟨h', hr, hn, hret, hcb⟩ := chk_sound hexec none false r hc
    rw [hc] at hok
    cases ex with
    | normal =>
      have := hn rfl
      subst this
      cases h' with
      | false => exact hr
      | true => simp at hok
    | ret => rw [hret rfl] at hr; exact hr
    | cont => have := hcb (Or.inl rfl); cases this
    | brk => have := hcb (Or.inr rfl); cases this

/-! ## threads under a real mutex -/

def isAccess : LAct → Bool
  | .rd _ => true | .wr _ => true | _ => false

/-- mutex owner + "does thread t think it holds the mutex" -/
structure MSys where
  owner : Option Nat := none
  holds : Nat → Bool := fun _ => false

/-- one scheduled action of thread `t`: the thread-local discipline (`actOk`) and the mutex itself (a lock is taken
    only when the mutex is free — a thread that finds it taken is simply not scheduled) -/
def MSys.step (s : MSys) (e : Nat × LAct) : Option MSys :=
  match actOk (s.holds e.1) e.2 with
  | none => none
  | some b =>
    match e.2 with
    | .lock => if s.owner = none then some { owner := some e.1, holds := fun u => if u = e.1 then b else s.holds u } else none
    | .unlock => some { owner := none, holds := fun u => if u = e.1 then b else s.holds u }
    | _ => some { s with holds := fun u => if u = e.1 then b else s.holds u }

def MSys.run (s : MSys) : List (Nat × LAct) → Option MSys
  | [] => some s
  | e :: r => match s.step e with
    | none => none
    | some s' => s'.run r

/-- the owner is exactly the thread that holds -/
def MSys.Coherent (s : MSys) : Prop := ∀ t, s.holds t = true ↔ s.owner = some t

theorem MSys.coherent_step (s s' : MSys) (e : Nat × LAct) (h : s.Coherent) (hs : s.step e = some s') : s'.Coherent := by
  obtain ⟨t, a⟩ := e
  unfold MSys.step at hs
  simp only at hs
  cases hb : actOk (s.holds t) a with
  | none => rw [hb] at hs; cases hs
  | some b =>
    rw [hb] at hs
    cases a with
    | lock =>
      simp only at hs
      split at hs
      · rename_i hfree
        cases hs
        have hbt : b = true := by
          simp only [actOk] at hb
          split at hb
          · cases hb
          · exact (Option.some.inj hb).symm
        subst hbt
        intro u
        by_cases hu : u = t
        · subst hu; simp
        · simp only [hu, if_false]
          constructor
          · intro hh; have := (h u).mp hh; rw [hfree] at this; cases this
          · intro hh; exact absurd (Option.some.inj hh).symm hu
      · cases hs
    | unlock =>
      simp only at hs
      cases hs
      have hheld : s.holds t = true ∧ b = false := by
        simp only [actOk] at hb
        split at hb
        · rename_i hh; exact ⟨hh, (Option.some.inj hb).symm⟩
        · cases hb
      obtain ⟨hheld, hbf⟩ := hheld
      subst hbf
      have hown : s.owner = some t := (h t).mp hheld
      intro u
      by_cases hu : u = t
      · subst hu; simp
      · simp only [hu, if_false]
        constructor
        · intro hh; have := (h u).mp hh; rw [hown] at this; exact absurd (Option.some.inj this).symm hu
        · intro hh; cases hh
    | wait =>
      simp only at hs; cases hs
      have hb' : s.holds t = false ∧ b = false := by
        simp only [actOk] at hb
        split at hb
        · cases hb
        · rename_i hh; exact ⟨by simpa using hh, (Option.some.inj hb).symm⟩
      intro u
      by_cases hu : u = t
      · subst hu; simp only [if_true]; rw [hb'.2, ← hb'.1]; exact h u
      · simp only [hu, if_false]; exact h u
    | set =>
      simp only at hs; cases hs
      have hb' : b = s.holds t := by simp only [actOk] at hb; exact (Option.some.inj hb).symm
      intro u
      by_cases hu : u = t
      · subst hu; simp only [if_true]; rw [hb']; exact h u
      · simp only [hu, if_false]; exact h u
    | rd f =>
      simp only at hs; cases hs
      have hb' : s.holds t = true ∧ b = true := by
        simp only [actOk] at hb
        split at hb
        · rename_i hh; exact ⟨hh, (Option.some.inj hb).symm⟩
        · cases hb
      intro u
      by_cases hu : u = t
      · subst hu; simp only [if_true]; rw [hb'.2]
        exact ⟨fun _ => (h u).mp hb'.1, fun _ => rfl⟩
      · simp only [hu, if_false]; exact h u
    | wr f =>
      simp only at hs; cases hs
      have hb' : s.holds t = true ∧ b = true := by
        simp only [actOk] at hb
        split at hb
        · rename_i hh; exact ⟨hh, (Option.some.inj hb).symm⟩
        · cases hb
      intro u
      by_cases hu : u = t
      · subst hu; simp only [if_true]; rw [hb'.2]
        exact ⟨fun _ => (h u).mp hb'.1, fun _ => rfl⟩
      · simp only [hu, if_false]; exact h u
    | wrImm f => simp [actOk] at hb

theorem MSys.coherent_run (s s' : MSys) (sched : List (Nat × LAct)) (h : s.Coherent) (hr : s.run sched = some s') :
    s'.Coherent := by
  induction sched generalizing s with
  | nil => simp only [MSys.run] at hr; cases hr; exact h
  | cons e r ih =>
    simp only [MSys.run] at hr
    cases hs : s.step e with
    | none => rw [hs] at hr; cases hr
    | some s1 => rw [hs] at hr; exact ih s1 (coherent_step s s1 e h hs) hr

theorem MSys.run_append (s : MSys) (l1 l2 : List (Nat × LAct)) :
    s.run (l1 ++ l2) = match s.run l1 with | none => none | some s' => s'.run l2 := by
  induction l1 generalizing s with
  | nil => rfl
  | cons e r ih =>
    simp only [List.cons_append, MSys.run]
    cases s.step e with
    | none => rfl
    | some s1 => exact ih s1

/-- **Accesses are exclusive.**  Any number of threads, any interleaving in which every thread keeps the discipline
(that is what `chk` establishes for every path of every function) and locks are granted only when the mutex is free:
at the moment a thread reads or writes a shared field it is the owner of the mutex.  Two accesses by different
threads therefore always have an unlock and a lock between them — they are ordered by the mutex, never concurrent. -/
theorem mutex_excludes_accesses (pre post : List (Nat × LAct)) (t : Nat) (a : LAct) (ha : isAccess a = true)
    (fin : MSys) (hrun : ({} : MSys).run (pre ++ (t, a) :: post) = some fin) :
    ∃ s, ({} : MSys).run pre = some s ∧ s.owner = some t := by
  rw [MSys.run_append] at hrun
  cases hp : ({} : MSys).run pre with
  | none => rw [hp] at hrun; cases hrun
  | some s =>
    refine ⟨s, rfl, ?_⟩
    rw [hp] at hrun
    simp only [MSys.run] at hrun
    have hco : s.Coherent := MSys.coherent_run {} s pre (by intro u; simp) hp
    cases hst : s.step (t, a) with
    | none => rw [hst] at hrun; cases hrun
    | some s1 =>
      unfold MSys.step at hst
      simp only at hst
      cases hb : actOk (s.holds t) a with
      | none => rw [hb] at hst; cases hst
      | some b =>
        have hheld : s.holds t = true := by
          cases a with
          | rd f =>
            simp only [actOk] at hb
            split at hb
            · assumption
            · cases hb
          | wr f =>
            simp only [actOk] at hb
            split at hb
            · assumption
            · cases hb
          | lock => cases ha
          | unlock => cases ha
          | wait => cases ha
          | set => cases ha
          | wrImm f => cases ha
        exact (hco t).mp hheld

end NV.C19
