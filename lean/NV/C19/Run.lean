/-
C19 — sequentialised schedules: every command is ONE real call made by the controlling thread of
harness/c19/c19.c (the worker thread is moved by explicit `wrelease` / `wstep` / `wquit` commands through the
H4 yield points).  `step` is the composition of the atomic actions of NV/C19/Model.lean.
-/
import NV.C19.Model

namespace NV.C19

inductive JoinRes | rc0 | rc1 | overran
  deriving Repr, DecidableEq

inductive TickCls | some | none | ambiguous
  deriving Repr, DecidableEq

/-- observable events = canonical output lines of the harness -/
inductive Ev
  | post (p k d : Nat) (rc : Int)
  | wakeup (rc : Int)
  | wait (max : Nat) (evs : List Item)
  | wbegin (max : Nat)                          -- a wait has started and is parked in front of its doorbell read
  | wread                                      -- that wait has read (reset) the doorbell
  | qnew (cap maxMsg flags : Nat) (ok : Bool)
  | enq (m : Msg) (r : EnqRes)
  | unblocked (p v : Nat)
  | deq (buf : Nat) (r : DeqRes)
  | qstat (size enq deq drop head tail : Nat) (empty full : Bool)
  | qclear
  | wnew (w : Nat) (finished : Bool)             -- finished: the new thread has already run to its end (race mode)
  | wstate (w : Nat) (s : WState)
  | wrelease (w : Nat) (did : Bool)
  | wstep (w : Nat) (r : Option Bool)          -- none = noop, some true = exited, some false = still running
  | wquit (w : Nat) (did : Bool)
  | wstop (w : Nat)
  | wjoin (w : Nat) (t : Int) (r : JoinRes) (sleeps : Nat)   -- sleeps = nanosleep(10 ms) calls made by the join
  | wdestroy (w : Nat) (did : Bool)
  | tinit (rc : Int)
  | tstart (ms : Nat) (rc : Int)
  | tstop (rc : Int) (within : Bool)
  | tactive (b : Bool)
  | tticks (c : TickCls)
  | tafter (n : Nat)
  | tsleep (ms : Nat)
  | tcleanup
  | mt (kind : String) (ok : Bool) (detail : String)
  | hbrace (ms : Nat) (ticked : Bool)          -- real timer callback vs real call_heart_beat (TSan run)
  | hbowed (kept : Bool)                       -- a tick arriving inside call_heart_beat is still owed when it returns
  | race (what : String)                      -- ThreadSanitizer report (runtime part)
  | skip (why : String)
  deriving Repr, DecidableEq

/-- how the new worker thread is scheduled relative to its creator -/
inductive NewMode
  | hold     -- parked at hook point 1 (has not stored RUNNING)
  | run      -- runs into the scripted procedure and parks there
  | race     -- a procedure that returns at once; the thread runs to its END inside the creator's pthread_create call
  deriving Repr, DecidableEq

inductive Cmd
  | post (p k d : Nat)
  | wakeup
  | wait (max : Nat)
  | wbegin (max : Nat) | wread | wend          -- one wait, step by step (other calls may come in between)
  | qnew (cap maxMsg flags : Nat)
  | enq (p v size : Nat)
  | deq (buf : Nat)
  | qstat
  | qclear
  | wnew (w : Nat) (mode : NewMode)
  | wstate (w : Nat)
  | wrelease (w : Nat)
  | wstep (w : Nat)
  | wquit (w : Nat)
  | wstop (w : Nat)
  | wjoin (w : Nat) (t : Int)
  | wdestroy (w : Nat)
  | tinit | tstart (ms : Nat) | tstop | tactive | tsleep (ms : Nat) | tticks | tafter | tcleanup
  | mt (kind : String) (args : List Nat)
  | hbrace (ms : Nat)
  | hbowed
  deriving Repr

/-! ### timed join as a little machine of the controlling thread -/

inductive JoinPc
  | loop (elapsed : Nat)     -- at the `while` test
  | pjoin                    -- inside the untimed pthread_join
  | done (rc : Bool)
  deriving Repr, DecidableEq

/-- one atomic step of `async_worker_join(w, t)` for `t ≥ 0`; `none` = blocked (pthread_join on a live thread) -/
def Wk.joinStep (w : Wk) (t : Nat) : JoinPc → Option JoinPc
  | .loop e =>
    if w.state ≠ .stopped ∧ e < t then some (.loop (e + pollMs))     -- nanosleep(10 ms); elapsed += 10
    else if w.state = .stopped then some .pjoin
    else some (.done false)
  | .pjoin => if w.th = .exited then some (.done true) else none
  | .done r => some (.done r)

/-- run the join alone (no other thread moves), `fuel` steps; second component = number of 10 ms sleeps made -/
def Wk.joinAlone (w : Wk) (t : Nat) : Nat → JoinPc → Nat → JoinRes × Nat
  | 0, _, sl => (.overran, sl)
  | fuel + 1, pc, sl =>
    match pc with
    | .done true => (.rc1, sl)
    | .done false => (.rc0, sl)
    | _ => match w.joinStep t pc with
      | none => (.overran, sl)
      | some pc' => w.joinAlone t fuel pc' (match pc' with | .loop _ => sl + 1 | _ => sl)

/-- untimed `pthread_join`: returns only when the thread has exited -/
def Wk.joinUntimed (w : Wk) : Option JoinRes := if w.th = .exited then some .rc1 else none

/-- let the worker thread run until it is parked again (harness semantics of release / step / quit) -/
def Wk.runToExit (w : Wk) : Wk :=
  ((w.threadStep true).threadStep true).threadStep true

/-- where the (only) thread inside a step-by-step `async_runtime_wait` is parked -/
inductive SeqPhase
  | idle
  | polled (max : Nat)       -- epoll_wait returned, doorbell not read yet
  | drained (max : Nat)      -- doorbell read, ring not taken yet
  deriving Repr, DecidableEq

structure World where
  rt : Rt := {}
  cons : SeqPhase := .idle
  q : Option Q := none
  blocked : Option Msg := none
  ws : List (Nat × Wk) := []
  tm : Tm := {}
  sleptActive : Nat := 0

def World.getW (s : World) (w : Nat) : Option Wk := (s.ws.find? (·.1 == w)).map (·.2)
def World.setW (s : World) (w : Nat) (k : Wk) : World :=
  { s with ws := (w, k) :: s.ws.filter (·.1 != w) }

/-- one command: new state and the events it produces (oldest first) -/
def stepE (s : World) : Cmd → World × List Ev
  | .post p k d => ({ s with rt := (s.rt.post (k, d)).1 }, [.post p k d (s.rt.post (k, d)).2])
  | .wakeup => ({ s with rt := s.rt.ringBell }, [.wakeup 0])
  | .wait max =>
    if max = 0 then (s, [.skip "wait-max-0"])
    else if s.cons ≠ .idle then (s, [.skip "wait-in-progress"])
    else ({ s with rt := (s.rt.wait max).1 }, [.wait max (s.rt.wait max).2])
  | .wbegin max =>
    if max = 0 then (s, [.skip "wait-max-0"])
    else if s.cons ≠ .idle then (s, [.skip "wait-in-progress"])
    else if s.rt.poll then ({ s with cons := .polled max }, [.wbegin max])
    else (s, [.wait max []])                                   -- epoll_wait(timeout 0): nothing readable
  | .wread =>
    match s.cons with
    | .polled m => ({ s with rt := s.rt.drain, cons := .drained m }, [.wread])
    | _ => (s, [.skip "no-wait-parked"])
  | .wend =>
    match s.cons with
    | .drained m => ({ s with rt := (s.rt.pop m).1, cons := .idle }, [.wait m (s.rt.pop m).2])
    | _ => (s, [.skip "no-wait-parked"])
  | .qnew cap mm fl =>
    match s.q with
    | some _ => (s, [.skip "queue-exists"])
    | none => ({ s with q := Q.create cap mm fl }, [.qnew cap mm fl (Q.create cap mm fl).isSome])
  | .enq p v size =>
    match s.q, s.blocked with
    | none, _ => (s, [.skip "no-queue"])
    | some _, some _ => (s, [.skip "writer-already-blocked"])
    | some q, none =>
      let m : Msg := ⟨p, v, size⟩
      ({ s with q := some (q.enqueue m).1, blocked := if (q.enqueue m).2 = .blocked then some m else none },
       [.enq m (q.enqueue m).2])
  | .deq buf =>
    match s.q with
    | none => (s, [.skip "no-queue"])
    | some q =>
      -- a successful dequeue sets `not_full`: the blocked writer wakes up and retries
      match (q.dequeue buf).2, s.blocked with
      | .msg x, some m =>
        if ((q.dequeue buf).1.enqueue m).2 = .ok then
          ({ s with q := some ((q.dequeue buf).1.enqueue m).1, blocked := none }, [.deq buf (.msg x), .unblocked m.p m.v])
        else ({ s with q := some (q.dequeue buf).1 }, [.deq buf (.msg x)])
      | r, _ => ({ s with q := some (q.dequeue buf).1 }, [.deq buf r])
  | .qstat =>
    match s.q with
    | none => (s, [.skip "no-queue"])
    | some q => (s, [.qstat q.count q.enqCount q.deqCount q.dropCount q.head q.tail (q.count == 0) (q.count ≥ q.cap)])
  | .qclear =>
    match s.q, s.blocked with
    | none, _ => (s, [.skip "no-queue"])
    | some q, some m =>
      -- `async_queue_clear` sets `not_full` (Gen.C19.clearSignalsNotFull): the writer asleep on the full queue wakes
      -- up, finds room and pushes its message
      if clearSignals = true ∧ (q.clear.enqueue m).2 = .ok then
        ({ s with q := some (q.clear.enqueue m).1, blocked := none }, [.qclear, .unblocked m.p m.v])
      else ({ s with q := some q.clear }, [.qclear])
    | some q, none => ({ s with q := some q.clear }, [.qclear])
  | .wnew w mode =>
    match s.getW w with
    | some _ => (s, [.skip "worker-exists"])
    | none => (s.setW w (match mode with
        | .hold => Wk.create
        | .run => Wk.create.threadStep false
        | .race => Wk.createSeq true createProg {}), [.wnew w (decide (mode = .race))])
  | .wstate w =>
    match s.getW w with
    | some k => if k.destroyed then (s, [.skip "destroyed"]) else (s, [.wstate w k.state])
    | none => (s, [.skip "no-worker"])
  | .wrelease w =>
    match s.getW w with
    | some k =>
      if k.th = .spawned then (s.setW w (k.threadStep false), [.wrelease w true]) else (s, [.wrelease w false])
    | none => (s, [.skip "no-worker"])
  | .wstep w =>
    match s.getW w with
    | some k =>
      if k.th = .inproc then
        -- the scripted procedure polls async_worker_should_stop once
        if k.stopEv then (s.setW w k.runToExit, [.wstep w (some true)]) else (s, [.wstep w (some false)])
      else (s, [.wstep w none])
    | none => (s, [.skip "no-worker"])
  | .wquit w =>
    match s.getW w with
    | some k =>
      if k.th = .inproc then (s.setW w k.runToExit, [.wquit w true]) else (s, [.wquit w false])
    | none => (s, [.skip "no-worker"])
  | .wstop w =>
    match s.getW w with
    | some k => if k.destroyed then (s, [.skip "destroyed"]) else (s.setW w k.signalStop, [.wstop w])
    | none => (s, [.skip "no-worker"])
  | .wjoin w t =>
    match s.getW w with
    | some k =>
      if k.joined then (s, [.skip "already-joined"])
      else if t < 0 then
        match k.joinUntimed with
        | some r => (s.setW w { k with joined := true }, [.wjoin w t r 0])
        | none => (s, [.skip "untimed-join-on-live-thread"])
      else
        let r := k.joinAlone t.toNat (sleepsFor t.toNat + 3) (.loop 0) 0
        (s.setW w { k with joined := decide (r.1 = .rc1) }, [.wjoin w t r.1 r.2])
    | none => (s, [.skip "no-worker"])
  | .wdestroy w =>
    match s.getW w with
    | some k =>
      if k.destroyed then (s, [.skip "destroyed"])
      else if k.joined then (s.setW w { k with destroyed := true }, [.wdestroy w true])
      else (s, [.wdestroy w false])
    | none => (s, [.skip "no-worker"])
  | .tinit =>
    if s.tm.inited then (s, [.skip "timer-inited"]) else ({ s with tm := { inited := true } }, [.tinit timerOk])
  | .tstart ms =>
    if !s.tm.inited then (s, [.tstart ms timerErrNull])
    else if ms = 0 then (s, [.tstart ms timerErrInterval])
    else if s.tm.active then (s, [.tstart ms timerErrActive])
    else ({ s with tm := { s.tm with active := true, stopReq := false, hasThread := true, interval := ms },
                   sleptActive := 0 }, [.tstart ms timerOk])
  | .tstop =>
    if !s.tm.inited then (s, [.tstop timerErrNull true])
    else ({ s with tm := { s.tm with active := false, stopReq := s.tm.stopReq || s.tm.active, hasThread := false },
                   sleptActive := 0 }, [.tstop timerOk true])
  | .tactive => (s, [.tactive (s.tm.inited && s.tm.active)])
  | .tsleep ms => (if s.tm.active then { s with sleptActive := s.sleptActive + ms } else s, [.tsleep ms])
  | .tticks =>
    ({ s with sleptActive := 0 },
     [.tticks (if !s.tm.active ∨ s.sleptActive = 0 then TickCls.none
               else if s.sleptActive ≥ 10 * s.tm.interval then TickCls.some else TickCls.ambiguous)])
  | .tafter => if s.tm.active then (s, [.skip "timer-active"]) else (s, [.tafter 0])
  | .tcleanup =>
    if !s.tm.inited then (s, [.skip "timer-not-inited"])
    else ({ s with tm := {}, sleptActive := 0 }, [.tcleanup])
  | .mt kind _ => (s, [.mt kind true ""])
  | .hbrace ms => (s, [.hbrace ms true])
  -- `call_heart_beat` clears the flag FIRST (Gen.C19.hbClearsFlagFirst): a tick inside the round survives it
  | .hbowed => (s, [.hbowed Gen.C19.hbClearsFlagFirst])

/-- run a command list: final state and all events, oldest first -/
def runE : World → List Cmd → World × List Ev
  | s, [] => (s, [])
  | s, c :: rest => ((runE (stepE s c).1 rest).1, (stepE s c).2 ++ (runE (stepE s c).1 rest).2)

def events (cmds : List Cmd) : List Ev := (runE {} cmds).2

/-! ### canonical text -/

def renderItems (l : List Item) : String :=
  String.intercalate " " (l.map fun (k, d) => s!"{k}:{d}")

def render : Ev → String
  | .post p k d rc => s!"post {p} {k} {d} {rc}"
  | .wakeup rc => s!"wakeup {rc}"
  | .wait max evs => (s!"wait {max} {evs.length} " ++ renderItems evs).trimAsciiEnd.toString
  | .wbegin max => s!"wbegin {max} parked"
  | .wread => "wread"
  | .qnew c m f ok => s!"qnew {c} {m} {f} {if ok then "ok" else "null"}"
  | .enq m r => s!"enq {m.p} {m.v} {m.size} " ++ (match r with | .ok => "ok" | .fail => "fail" | .blocked => "blocked" | .crash => "crash")
  | .unblocked p v => s!"unblocked {p} {v}"
  | .deq b r => s!"deq {b} " ++ (match r with | .none => "none" | .msg m => s!"{m.p} {m.v} {m.size}" | .crash => "crash")
  | .qstat a b c d h t e f => s!"qstat {a} {b} {c} {d} {h} {t} {if e then 1 else 0} {if f then 1 else 0}"
  | .qclear => "qclear"
  | .wnew w fin => s!"wnew {w} {if fin then "finished" else "ok"}"
  | .wstate w st => s!"wstate {w} " ++ (match st with | .stopped => "STOPPED" | .running => "RUNNING")
  | .wrelease w d => s!"wrelease {w} {if d then "ok" else "noop"}"
  | .wstep w r => s!"wstep {w} " ++ (match r with | none => "noop" | some true => "exited" | some false => "running")
  | .wquit w d => s!"wquit {w} {if d then "exited" else "noop"}"
  | .wstop w => s!"wstop {w}"
  | .wjoin w t r sl => s!"wjoin {w} {t} " ++ (match r with | .rc0 => "0" | .rc1 => "1" | .overran => "overran") ++ s!" {sl}"
  | .wdestroy w d => s!"wdestroy {w} {if d then "ok" else "refused"}"
  | .tinit rc => s!"tinit {rc}"
  | .tstart ms rc => s!"tstart {ms} {rc}"
  | .tstop rc w => s!"tstop {rc} {if w then "within" else "overran"}"
  | .tactive b => s!"tactive {if b then 1 else 0}"
  | .tticks c => "tticks " ++ (match c with | .some => "some" | .none => "none" | .ambiguous => "ambiguous")
  | .tafter n => s!"tafter {n}"
  | .tsleep ms => s!"tsleep {ms}"
  | .tcleanup => "tcleanup"
  | .mt k ok d => (s!"mt {k} {if ok then "ok" else "bad"} {d}").trimAsciiEnd.toString
  | .hbrace ms t => s!"hbrace {ms} {if t then "done" else "no-tick"}"
  | .hbowed k => s!"hbowed {if k then "kept" else "swallowed"}"
  | .race w => s!"race {w}"
  | .skip w => s!"skip {w}"

end NV.C19
