/-
C19 — threads as interleavings of the ATOMIC ACTIONS of NV/C19/Model.lean under an arbitrary scheduler.

A schedule is a list of scheduler choices; `run` executes it.  A choice that names a thread with nothing left
to do, or a blocked thread, is a no-op (stutter), so EVERY list is a schedule and "for all schedules" is a plain
universal quantifier over lists.
-/
import NV.C19.Run

namespace NV.C19

/-! ## event loop: several producer threads, one consumer (the backend) -/

inductive POp
  | post (k d : Nat)
  | wakeup
  deriving Repr, DecidableEq

/-- a producer thread: the calls it still has to make, and whether it is between the locked push and the
    doorbell write of a post -/
structure Prod where
  todo : List POp
  pendingRing : Bool := false
  deriving Repr, DecidableEq

/-- the two orders in which `async_runtime_wait` can treat doorbell and ring -/
inductive Order
  | bellFirst      -- the code: read (reset) the doorbell, THEN lock and take the ring, re-arm under the lock
  | ringFirst      -- the "optimisation": lock, take the ring, unlock, THEN reset the doorbell if the ring was emptied
  deriving Repr, DecidableEq

/-- where the backend thread is inside `async_runtime_wait` -/
inductive CPhase
  | idle
  | polled (max : Nat)       -- epoll_wait reported the eventfd readable
  | drained (max : Nat)      -- bellFirst: eventfd read (counter reset), ring_lock not taken yet
  | took                     -- bellFirst: ring_lock held, entries copied out, re-arm write not made yet
  | rearmed                  -- bellFirst: re-arm write made (if needed), ring_lock still held
  | tookS (emptied : Bool)   -- ringFirst: ring_lock held, entries copied out
  | unlockedS (emptied : Bool)  -- ringFirst: ring_lock released, doorbell not reset yet
  deriving Repr, DecidableEq

structure RtSys where
  order : Order := .bellFirst
  rt : Rt := {}
  locked : Bool := false                -- ring_lock held by the backend thread (producers hold it only inside one atomic step)
  prods : List Prod
  waits : List Nat                      -- the consumer's remaining `wait(max)` calls
  cph : CPhase := .idle
  delivered : List (List Item) := []    -- what every wait copied into the caller's array, oldest first
  accepted : List Item := []            -- ghost: completions pushed (post returned 0), in push order
  refused : List Item := []             -- ghost: posts that found the ring full (returned -1)
  deriving Repr

def postsOf (todo : List POp) : List Item :=
  todo.filterMap fun | .post k d => some (k, d) | .wakeup => none

def RtSys.init (progs : List (List POp)) (waits : List Nat) (order : Order := .bellFirst) : RtSys :=
  { order, prods := progs.map (fun t => { todo := t }), waits }

/-- one atomic action of producer `i`: the locked push (blocked while the backend holds ring_lock), or the
    doorbell write (never blocked) -/
def RtSys.prodStep (s : RtSys) (i : Nat) : RtSys :=
  match s.prods[i]? with
  | none => s
  | some p =>
    if p.pendingRing then
      { s with rt := s.rt.ringBell, prods := s.prods.set i { p with pendingRing := false } }
    else match p.todo with
      | [] => s
      | .wakeup :: r => { s with rt := s.rt.ringBell, prods := s.prods.set i { p with todo := r } }
      | .post k d :: r =>
        if s.locked then s                                    -- pthread_mutex_lock blocks
        else match s.rt.push (k, d) with
        | (rt', true) => { s with rt := rt', prods := s.prods.set i { todo := r, pendingRing := true },
                                  accepted := s.accepted ++ [(k, d)] }
        | (_, false) => { s with prods := s.prods.set i { p with todo := r }, refused := s.refused ++ [(k, d)] }

/-- one atomic action of the consumer -/
def RtSys.consStep (s : RtSys) : RtSys :=
  match s.cph with
  | .idle =>
    match s.waits with
    | [] => s
    | m :: r =>
      if s.rt.poll then { s with cph := .polled m, waits := r }
      else { s with waits := r, delivered := s.delivered ++ [[]] }       -- nothing readable: the wait sleeps / times out
  | .polled m =>
    match s.order with
    | .bellFirst => { s with rt := s.rt.drain, cph := .drained m }
    | .ringFirst =>
      { s with rt := (s.rt.take m).1, locked := true, cph := .tookS (s.rt.take m).1.ring.isEmpty,
               delivered := s.delivered ++ [(s.rt.take m).2] }
  | .drained m =>
    { s with rt := (s.rt.take m).1, locked := true, cph := .took, delivered := s.delivered ++ [(s.rt.take m).2] }
  | .took => { s with rt := s.rt.rearm, cph := .rearmed }
  | .rearmed => { s with locked := false, cph := .idle }
  | .tookS e => if s.order = .ringFirst then { s with locked := false, cph := .unlockedS e } else s
  | .unlockedS e =>
    if s.order = .ringFirst then { s with rt := if e then s.rt.drain else s.rt, cph := .idle } else s

/-- scheduler choice `i`: producer `i` when `i < #producers`, the consumer otherwise -/
def RtSys.step (s : RtSys) (i : Nat) : RtSys :=
  if i < s.prods.length then s.prodStep i else s.consStep

def RtSys.run (s : RtSys) (picks : List Nat) : RtSys := picks.foldl RtSys.step s

/-- every thread has finished all its calls -/
def RtSys.quiescent (s : RtSys) : Prop :=
  (∀ p ∈ s.prods, p.todo = [] ∧ p.pendingRing = false) ∧ s.cph = .idle

/-- the backend keeps calling `wait(max)` (whole calls) until one returns nothing -/
def flushAll (max : Nat) : Nat → Rt → List Item
  | 0, _ => []
  | fuel + 1, rt =>
    match rt.wait max with
    | (_, []) => []
    | (rt', evs) => evs ++ flushAll max fuel rt'

/-! ## queue: any sequence of calls by any number of threads (each call atomic under the mutex) -/

inductive QOp
  | enq (m : Msg)
  | deq (buf : Nat)
  deriving Repr, DecidableEq

/-- how a message left the queue -/
inductive Left
  | dequeued (m : Msg)
  | dropped (m : Msg)
  deriving Repr, DecidableEq

def Left.msg : Left → Msg
  | .dequeued m => m
  | .dropped m => m

structure QSys where
  q : Q
  accepted : List Msg := []      -- ghost: messages whose enqueue returned true, in order
  left : List Left := []         -- ghost: messages that left the queue, in order
  crashed : Bool := false
  deriving Repr

/-- the message DROP_OLDEST is about to overwrite (what the C code skips with `tail++`) -/
def Q.oldest (q : Q) : Msg := q.slots.getD q.tail default

def QSys.step (s : QSys) : QOp → QSys
  | .enq m =>
    let willDrop := decide (m.size ≠ 0 ∧ m.size ≤ s.q.maxMsg ∧ s.q.count ≥ s.q.cap) && s.q.dropOldest
    match s.q.enqueue m with
    | (q', .ok) =>
      { s with q := q', accepted := s.accepted ++ [m],
               left := if willDrop then s.left ++ [.dropped s.q.oldest] else s.left }
    | (q', .crash) => { s with q := q', crashed := true }
    | (q', _) => { s with q := q' }
  | .deq buf =>
    match s.q.dequeue buf with
    | (q', .msg m) => { s with q := q', left := s.left ++ [.dequeued m] }
    | (q', .crash) => { s with q := q', crashed := true }
    | (q', .none) => { s with q := q' }

def QSys.run (s : QSys) (ops : List QOp) : QSys := ops.foldl QSys.step s

/-- abstract contents: the `count` slots from `tail` on -/
def Q.contents (q : Q) : List Msg :=
  (List.range q.count).map fun i => q.slots.getD ((q.tail + i) % q.cap) default

/-- representation invariant of the ring -/
structure Q.Inv (q : Q) : Prop where
  cap_pos : 0 < q.cap
  len : q.slots.length = q.cap
  head_lt : q.head < q.cap
  tail_lt : q.tail < q.cap
  count_le : q.count ≤ q.cap
  head_eq : q.head = (q.tail + q.count) % q.cap

/-! ## worker: the joining thread, the worker thread, anybody signalling stop -/

inductive WAct
  | creator                       -- the thread inside `async_worker_create` takes its next step
  | thread (procReturns : Bool)   -- the worker thread takes a step; inside `proc` the scheduler decides whether it returns
  | ctl                           -- the thread inside `async_worker_join(w, t)` takes a step
  | stop                          -- somebody calls `async_worker_signal_stop`
  deriving Repr, DecidableEq

structure WSys where
  w : Wk
  creator : List CrAct     -- what `async_worker_create` still has to do
  t : Nat                  -- timeout of the join, ms
  pc : JoinPc := .loop 0
  work : Nat := 0          -- ghost: steps the joining thread has executed
  deriving Repr, DecidableEq

def WSys.step (s : WSys) : WAct → WSys
  | .creator =>
    match s.creator with
    | [] => s
    | a :: rest => { s with w := s.w.crStep a, creator := rest }
  | .thread b => { s with w := s.w.threadStep b }
  | .stop => { s with w := s.w.signalStop }
  | .ctl =>
    if s.creator ≠ [] then s        -- nobody can join before `async_worker_create` has returned the handle
    else match s.pc with
    | .done _ => s
    | pc => match s.w.joinStep s.t pc with
      | none => s                                  -- blocked in pthread_join
      | some pc' => { s with pc := pc', work := s.work + 1 }

def WSys.run (s : WSys) (acts : List WAct) : WSys := acts.foldl WSys.step s

/-- a worker being created by program `prog`, nobody joining yet -/
def WSys.fresh (prog : List CrAct) (t : Nat) : WSys := { w := {}, creator := prog, t, pc := .done false }

/-- a join with timeout `t` whose call is issued at ANY moment: `pre` is what happened before (steps of the creator,
    of the new thread, stop signals); the join itself begins once `async_worker_create` has returned -/
def WSys.startWith (prog : List CrAct) (t : Nat) (pre : List WAct) : WSys :=
  { ((WSys.fresh prog t).run pre) with pc := .loop 0, work := 0 }

/-- …for `async_worker_create` as the source has it -/
def WSys.start (t : Nat) (pre : List WAct) : WSys := WSys.startWith createProg t pre

/-! ## timer: the timer thread and the thread calling `platform_timer_stop` -/

inductive TPc
  | top                          -- `while (!stop_requested)`
  | waiting                      -- inside `cv.wait_until(lock, next_tick)`
  | afterWait (timeout : Bool)   -- wait returned (timeout / notified or spurious)
  | callback                     -- about to run the callback
  | exited
  deriving Repr, DecidableEq

inductive SPc
  | idle | clearedActive | requested | notified | returned
  deriving Repr, DecidableEq

inductive TEv | cb | stopReturned
  deriving Repr, DecidableEq

inductive TAct
  | thr (timeout : Bool)    -- timer thread step; `timeout` = how a pending timed wait ends (the wait ALWAYS ends:
                            -- at `next_tick` at the latest — this is the kernel assumption of the model)
  | stopper                 -- the thread inside `platform_timer_stop` takes a step
  deriving Repr, DecidableEq

structure TSys where
  active : Bool := true
  stopReq : Bool := false
  tpc : TPc := .top
  spc : SPc := .idle
  log : List TEv := []       -- newest first
  deriving Repr, DecidableEq

def TSys.step (s : TSys) : TAct → TSys
  | .thr timeout =>
    match s.tpc with
    | .top => if s.stopReq then { s with tpc := .exited }
              else { s with tpc := .waiting }
    | .waiting => { s with tpc := .afterWait timeout }
    | .afterWait to =>
      if s.stopReq then { s with tpc := .exited }
      else if to && s.active then { s with tpc := .callback } else { s with tpc := .top }
    | .callback => { s with tpc := .top, log := .cb :: s.log }
    | .exited => s
  | .stopper =>
    match s.spc with
    | .idle => { s with active := false, spc := .clearedActive }
    | .clearedActive => { s with stopReq := true, spc := .requested }
    | .requested => { s with spc := .notified }                       -- lock; notify_all; unlock
    | .notified => if s.tpc = .exited then { s with spc := .returned, log := .stopReturned :: s.log } else s   -- join
    | .returned => s

def TSys.run (s : TSys) (acts : List TAct) : TSys := acts.foldl TSys.step s

/-- chronological log is fine when no callback follows the return of stop -/
def logOk : List TEv → Bool
  | [] => true
  | .cb :: rest => !rest.contains .stopReturned && logOk rest      -- newest first: a cb must have no stopReturned before it
  | .stopReturned :: rest => logOk rest

end NV.C19
