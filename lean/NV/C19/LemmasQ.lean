/- C19 — async_queue: the ring refines a list under every sequence of calls -/
import NV.C19.Sched

namespace NV.C19

theorem mod_ne_of_lt (t i j cap : Nat) (hij : i < j) (hd : j - i < cap) : (t + i) % cap ≠ (t + j) % cap := by
  intro h
  have h2 := Nat.sub_mod_eq_zero_of_mod_eq h.symm
  have : t + j - (t + i) = j - i := by omega
  rw [this, Nat.mod_eq_of_lt hd] at h2
  omega

theorem Q.contents_length (q : Q) : q.contents.length = q.count := by simp [Q.contents]

/-- writing slot `head` and advancing appends to the abstract contents -/
theorem Q.contents_push (q : Q) (h : q.Inv) (hlt : q.count < q.cap) (m : Msg) :
    ({ q with slots := q.slots.set q.head m, head := (q.head + 1) % q.cap, count := q.count + 1 } : Q).contents
      = q.contents ++ [m] := by
  simp only [Q.contents, List.range_succ, List.map_append, List.map_cons, List.map_nil]
  congr 1
  · apply List.map_congr_left
    intro i hi
    have hi' : i < q.count := by simpa using hi
    have hne : q.head ≠ (q.tail + i) % q.cap := by
      rw [h.head_eq]; exact (mod_ne_of_lt q.tail i q.count q.cap hi' (by omega)).symm
    simp [List.getD_eq_getElem?_getD, List.getElem?_set, hne]
  · have hh : q.head < q.slots.length := by rw [h.len]; exact h.head_lt
    simp [List.getD_eq_getElem?_getD, List.getElem?_set, ← h.head_eq, hh]

/-- advancing `tail` removes the first element of the abstract contents -/
theorem Q.contents_pop (q : Q) (h : q.Inv) (hpos : 0 < q.count) :
    q.contents = q.slots.getD q.tail default ::
      ({ q with tail := (q.tail + 1) % q.cap, count := q.count - 1 } : Q).contents := by
  obtain ⟨n, hn⟩ : ∃ n, q.count = n + 1 := ⟨q.count - 1, by omega⟩
  simp only [Q.contents, hn, List.range_succ_eq_map, List.map_cons, List.map_map, Nat.add_zero, Nat.add_sub_cancel]
  congr 1
  · rw [Nat.mod_eq_of_lt h.tail_lt]
  · apply List.map_congr_left
    intro i _
    simp only [Function.comp]
    congr 1
    rw [Nat.mod_add_mod]
    congr 1
    omega

theorem Q.inv_push (q : Q) (h : q.Inv) (hlt : q.count < q.cap) (m : Msg) :
    ({ q with slots := q.slots.set q.head m, head := (q.head + 1) % q.cap, count := q.count + 1,
              enqCount := q.enqCount + 1 } : Q).Inv := by
  refine ⟨h.cap_pos, by simp [h.len], Nat.mod_lt _ h.cap_pos, h.tail_lt, hlt, ?_⟩
  simp only
  rw [h.head_eq, Nat.mod_add_mod]
  congr 1

theorem Q.inv_pop (q : Q) (h : q.Inv) (hpos : 0 < q.count) :
    ({ q with tail := (q.tail + 1) % q.cap, count := q.count - 1 } : Q).Inv := by
  refine ⟨h.cap_pos, h.len, h.head_lt, Nat.mod_lt _ h.cap_pos, by have := h.count_le; simp only; omega, ?_⟩
  simp only
  rw [h.head_eq, Nat.mod_add_mod]
  congr 1
  omega

theorem Q.inv_create {cap mm fl : Nat} {q : Q} (h : Q.create cap mm fl = some q) : q.Inv ∧ q.contents = [] ∧ q.cap = cap := by
  unfold Q.create at h
  split at h
  · simp at h
  · rename_i hc
    simp at h; subst h
    have hc1 : cap ≠ 0 := fun e => hc (Or.inl e)
    refine ⟨⟨by simp only; omega, by simp, by simp only; omega, by simp only; omega, by simp, by simp⟩, by simp [Q.contents], rfl⟩

/-- the enqueue of the C code, described on the abstract contents -/
inductive EnqSpec (q q' : Q) (m : Msg) : EnqRes → Prop
  | badSize : (m.size = 0 ∨ m.size > q.maxMsg) → q' = q → EnqSpec q q' m .fail
  | room : ¬(m.size = 0 ∨ m.size > q.maxMsg) → q.count < q.cap → q'.contents = q.contents ++ [m] → EnqSpec q q' m .ok
  | dropOldest : ¬(m.size = 0 ∨ m.size > q.maxMsg) → q.count ≥ q.cap → q.dropOldest = true →
      q.contents = q.oldest :: q.contents.drop 1 → q'.contents = q.contents.drop 1 ++ [m] → EnqSpec q q' m .ok
  | blocked : ¬(m.size = 0 ∨ m.size > q.maxMsg) → q.count ≥ q.cap → q.dropOldest = false → q.blockWriter = true →
      q' = q → EnqSpec q q' m .blocked
  | full : ¬(m.size = 0 ∨ m.size > q.maxMsg) → q.count ≥ q.cap → q.dropOldest = false → q.blockWriter = false →
      q' = q → EnqSpec q q' m .fail

theorem Q.enqueue_spec (q : Q) (h : q.Inv) (m : Msg) :
    (q.enqueue m).1.Inv ∧ (q.enqueue m).1.cap = q.cap ∧ (q.enqueue m).1.flags = q.flags ∧
      EnqSpec q (q.enqueue m).1 m (q.enqueue m).2 := by
  unfold Q.enqueue
  by_cases hs : m.size = 0 ∨ m.size > q.maxMsg
  · rw [if_pos hs]; exact ⟨h, rfl, rfl, .badSize hs rfl⟩
  · rw [if_neg hs]
    by_cases hfull : q.count ≥ q.cap
    · rw [if_pos hfull]
      cases hdrop : q.dropOldest with
      | false =>
        simp only [Bool.false_eq_true, if_false]
        cases hb : q.blockWriter with
        | false => exact ⟨h, trivial, trivial, .full hs hfull hdrop hb rfl⟩
        | true => exact ⟨h, trivial, trivial, .blocked hs hfull hdrop hb rfl⟩
      | true =>
        simp only [if_true]
        have hpos : 0 < q.count := by have := h.cap_pos; omega
        have hinv2 := Q.inv_pop q h hpos
        -- the intermediate queue after `tail++; count--; dropped++`
        have hinv3 : ({ q with tail := (q.tail + 1) % q.cap, count := q.count - 1, dropCount := q.dropCount + 1 } : Q).Inv :=
          ⟨hinv2.cap_pos, hinv2.len, hinv2.head_lt, hinv2.tail_lt, hinv2.count_le, hinv2.head_eq⟩
        have hlt3 : q.count - 1 < q.cap := by have := h.count_le; omega
        have hhead : q.head < q.slots.length := by rw [h.len]; exact h.head_lt
        rw [if_pos hhead]
        have hpop := Q.contents_pop q h hpos
        have hpush := Q.contents_push _ hinv3 hlt3 m
        have hdropc : q.contents.drop 1 =
            ({ q with tail := (q.tail + 1) % q.cap, count := q.count - 1, dropCount := q.dropCount + 1 } : Q).contents := by
          rw [hpop]; rfl
        refine ⟨Q.inv_push _ hinv3 hlt3 m, rfl, rfl, ?_⟩
        refine .dropOldest hs hfull hdrop ?_ ?_
        · rw [hpop]; rfl
        · rw [hdropc]; exact hpush
    · rw [if_neg hfull]
      have hlt : q.count < q.cap := by omega
      have hhead : q.head < q.slots.length := by rw [h.len]; exact h.head_lt
      simp only
      rw [if_pos hhead]
      exact ⟨Q.inv_push q h hlt m, rfl, rfl, .room hs hlt (Q.contents_push q h hlt m)⟩

/-- the dequeue of the C code, described on the abstract contents -/
inductive DeqSpec (q q' : Q) (buf : Nat) : DeqRes → Prop
  | empty : q.contents = [] → q' = q → DeqSpec q q' buf .none
  | short (m : Msg) (rest : List Msg) : q.contents = m :: rest → m.size > buf → q' = q → DeqSpec q q' buf .none
  | took (m : Msg) (rest : List Msg) : q.contents = m :: rest → m.size ≤ buf → q'.contents = rest → DeqSpec q q' buf (.msg m)

theorem Q.dequeue_spec (q : Q) (h : q.Inv) (buf : Nat) :
    (q.dequeue buf).1.Inv ∧ (q.dequeue buf).1.cap = q.cap ∧ (q.dequeue buf).1.flags = q.flags ∧
      DeqSpec q (q.dequeue buf).1 buf (q.dequeue buf).2 := by
  unfold Q.dequeue
  by_cases h0 : q.count = 0
  · rw [if_pos h0]
    exact ⟨h, rfl, rfl, .empty (by simp [Q.contents, h0]) rfl⟩
  · rw [if_neg h0]
    have hpos : 0 < q.count := by omega
    have htail : q.tail < q.slots.length := by rw [h.len]; exact h.tail_lt
    have hget : q.slots[q.tail]? = some (q.slots.getD q.tail default) := by
      simp [List.getD_eq_getElem?_getD, List.getElem?_eq_getElem htail]
    rw [hget]
    simp only
    have hpop := Q.contents_pop q h hpos
    by_cases hsz : (q.slots.getD q.tail default).size > buf
    · rw [if_pos hsz]
      exact ⟨h, rfl, rfl, .short _ _ hpop hsz rfl⟩
    · rw [if_neg hsz]
      have hinv2 := Q.inv_pop q h hpos
      refine ⟨⟨hinv2.cap_pos, hinv2.len, hinv2.head_lt, hinv2.tail_lt, hinv2.count_le, hinv2.head_eq⟩, rfl, rfl, ?_⟩
      exact .took _ _ hpop (by omega) rfl

/-! ### the ghost bookkeeping of `QSys` -/

structure QSys.Good (s : QSys) : Prop where
  inv : s.q.Inv
  nocrash : s.crashed = false
  fifo : s.left.map Left.msg ++ s.q.contents = s.accepted
  nodrop : s.q.dropOldest = false → ∀ l ∈ s.left, ∃ m, l = .dequeued m

theorem QSys.good_step (s : QSys) (op : QOp) (h : s.Good) :
    (s.step op).Good ∧ (s.step op).q.cap = s.q.cap ∧ (s.step op).q.flags = s.q.flags := by
  cases op with
  | enq m =>
    obtain ⟨hinv, hcap, hflags, hspec⟩ := Q.enqueue_spec s.q h.inv m
    simp only [QSys.step]
    generalize hq : s.q.enqueue m = res at hinv hcap hspec hflags
    obtain ⟨q', r⟩ := res
    simp only at hinv hcap hspec hflags
    have hdo : q'.dropOldest = s.q.dropOldest := by simp [Q.dropOldest, hflags]
    cases hspec with
    | badSize hs he => subst he; exact ⟨⟨h.inv, h.nocrash, h.fifo, h.nodrop⟩, rfl, rfl⟩
    | blocked _ _ _ _ he => subst he; exact ⟨⟨h.inv, h.nocrash, h.fifo, h.nodrop⟩, rfl, rfl⟩
    | full _ _ _ _ he => subst he; exact ⟨⟨h.inv, h.nocrash, h.fifo, h.nodrop⟩, rfl, rfl⟩
    | room hs hlt hc =>
      have hwd : (decide (m.size ≠ 0 ∧ m.size ≤ s.q.maxMsg ∧ s.q.count ≥ s.q.cap) && s.q.dropOldest) = false := by
        have : ¬ (s.q.count ≥ s.q.cap) := by omega
        simp [this]
      refine ⟨⟨hinv, h.nocrash, ?_, ?_⟩, hcap, hflags⟩
      · simp only [hwd, Bool.false_eq_true, if_false, hc]
        rw [← List.append_assoc, h.fifo]
      · simp only [hwd, Bool.false_eq_true, if_false]
        intro hd; exact h.nodrop (hdo ▸ hd)
    | dropOldest hs hfull hdrop hold hc =>
      have hwd : (decide (m.size ≠ 0 ∧ m.size ≤ s.q.maxMsg ∧ s.q.count ≥ s.q.cap) && s.q.dropOldest) = true := by
        have h1 : m.size ≠ 0 ∧ m.size ≤ s.q.maxMsg := by omega
        simp [h1, hfull, hdrop]
      refine ⟨⟨hinv, h.nocrash, ?_, ?_⟩, hcap, hflags⟩
      · simp only [hwd, if_true, hc, List.map_append, List.map_cons, List.map_nil, Left.msg]
        rw [← h.fifo]
        conv => rhs; rw [hold]
        simp [List.append_assoc]
      · intro hd
        rw [hdo, hdrop] at hd
        exact absurd hd (by simp)
  | deq buf =>
    obtain ⟨hinv, hcap, hflags, hspec⟩ := Q.dequeue_spec s.q h.inv buf
    simp only [QSys.step]
    generalize hq : s.q.dequeue buf = res at hinv hcap hspec hflags
    obtain ⟨q', r⟩ := res
    simp only at hinv hcap hspec hflags
    have hdo : q'.dropOldest = s.q.dropOldest := by simp [Q.dropOldest, hflags]
    cases hspec with
    | empty _ he => subst he; exact ⟨⟨h.inv, h.nocrash, h.fifo, h.nodrop⟩, rfl, rfl⟩
    | short _ _ _ _ he => subst he; exact ⟨⟨h.inv, h.nocrash, h.fifo, h.nodrop⟩, rfl, rfl⟩
    | took m rest hc hsz hc' =>
      refine ⟨⟨hinv, h.nocrash, ?_, ?_⟩, hcap, hflags⟩
      · simp only [List.map_append, List.map_cons, List.map_nil, Left.msg, hc']
        rw [← h.fifo, hc]
        simp [List.append_assoc]
      · intro hd l hl
        simp only [List.mem_append, List.mem_singleton] at hl
        rcases hl with hl | hl
        · exact h.nodrop (hdo ▸ hd) l hl
        · exact ⟨m, hl⟩

theorem QSys.good_run (s : QSys) (ops : List QOp) (h : s.Good) :
    (s.run ops).Good ∧ (s.run ops).q.cap = s.q.cap ∧ (s.run ops).q.flags = s.q.flags := by
  induction ops generalizing s with
  | nil => exact ⟨h, rfl, rfl⟩
  | cons op rest ih =>
    obtain ⟨hg, hc, hf⟩ := good_step s op h
    obtain ⟨hg', hc', hf'⟩ := ih (s.step op) hg
    exact ⟨hg', hc'.trans hc, hf'.trans hf⟩

end NV.C19
