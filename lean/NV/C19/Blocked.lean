/-
C19 — SEVERAL writers blocked on a BLOCK_WRITER queue, `async_queue_clear` while producers are blocked.

`QSys` (Sched.lean) treats every enqueue as one atomic call.  A BLOCK_WRITER enqueue that finds the queue full is
not atomic: it releases the mutex, sleeps on the AUTO-RESET event `not_full`, re-takes the mutex and tests again.
`BSys` interleaves the atomic pieces of any number of such writers with a consumer that dequeues / clears whenever
the scheduler says so:

  writer  start  --lock; size test; while(count>=cap)-->  pushed (next message) | returned false | waiting
          waiting --platform_event_wait(&not_full,-1): only when `signaled`; consumes the signal--> woken
          woken   --lock; while(count>=cap)-->            pushed | waiting
  consumer `deq buf`   a successful dequeue sets `signaled` (BLOCK_WRITER queues)
           `clear`     head = tail = count = 0; sets `signaled` iff `clearSignals`
                       (`Gen.C19.clearSignalsNotFull`, regenerated from the body of `async_queue_clear`)

One Boolean models the event: `platform_event_set` stores `signaled = true` and notifies ONE sleeper, a sleeper
leaves `cv.wait` only after it has seen `signaled` and reset it under the event's mutex.  Letting ANY waiting
writer consume the signal over-approximates which one the kernel wakes.
-/
import NV.C19.LemmasQ

namespace NV.C19

inductive BPc
  | start      -- outside the call / at its size test
  | waiting    -- mutex released, inside `platform_event_wait(&queue->not_full, -1)`
  | woken      -- the event wait has returned (signal consumed), mutex not taken again yet
  deriving Repr, DecidableEq

structure BW where
  todo : List Msg
  pc : BPc := .start
  deriving Repr, DecidableEq

inductive BAct
  | writer (i : Nat)
  | deq (buf : Nat)
  | clear
  deriving Repr, DecidableEq

structure BSys where
  clearSignals : Bool
  q : Q
  signaled : Bool := false         -- `not_full`
  ws : List BW
  accepted : List Msg := []        -- ghost: messages whose enqueue returned true, in order
  gone : List Msg := []            -- ghost: messages that left the queue (dequeued, dropped, cleared), in order
  clearedN : Nat := 0              -- ghost: how many messages `clear` threw away
  dropped : List Msg := []         -- ghost: messages overwritten by DROP_OLDEST, in order
  deqd : List Msg := []            -- ghost: messages handed to the consumer, in order
  crashed : Bool := false
  deriving Repr

def Msg.valid (m : Msg) (q : Q) : Prop := ¬(m.size = 0 ∨ m.size > q.maxMsg)

def BSys.writerStep (s : BSys) (i : Nat) : BSys :=
  match s.ws[i]? with
  | none => s
  | some w =>
    match w.pc with
    | .waiting =>
      if s.signaled then { s with signaled := false, ws := s.ws.set i { w with pc := .woken } } else s
    | _ =>
      match w.todo with
      | [] => s
      | m :: rest =>
        let willDrop := decide (m.size ≠ 0 ∧ m.size ≤ s.q.maxMsg ∧ s.q.count ≥ s.q.cap) && s.q.dropOldest
        match s.q.enqueue m with
        | (q', .ok) =>
          { s with q := q', accepted := s.accepted ++ [m],
                   gone := if willDrop then s.gone ++ [s.q.oldest] else s.gone,
                   dropped := if willDrop then s.dropped ++ [s.q.oldest] else s.dropped,
                   ws := s.ws.set i { todo := rest, pc := .start } }
        | (q', .blocked) => { s with q := q', ws := s.ws.set i { w with pc := .waiting } }
        | (q', .fail) => { s with q := q', ws := s.ws.set i { todo := rest, pc := .start } }
        | (q', .crash) => { s with q := q', crashed := true }

def BSys.step (s : BSys) : BAct → BSys
  | .writer i => s.writerStep i
  | .deq buf =>
    match s.q.dequeue buf with
    | (q', .msg m) => { s with q := q', gone := s.gone ++ [m], deqd := s.deqd ++ [m],
                                signaled := s.q.blockWriter || s.signaled }
    | (q', .crash) => { s with q := q', crashed := true }
    | (q', .none) => { s with q := q' }
  | .clear =>
    { s with q := s.q.clear, gone := s.gone ++ s.q.contents, clearedN := s.clearedN + s.q.count,
             signaled := (s.clearSignals && s.q.blockWriter) || s.signaled }

def BSys.run (s : BSys) (acts : List BAct) : BSys := acts.foldl BSys.step s

def BSys.init (clearSignals : Bool) (q : Q) (progs : List (List Msg)) : BSys :=
  { clearSignals, q, ws := progs.map fun t => { todo := t } }

def BSys.someAt (s : BSys) (pc : BPc) : Prop := ∃ (j : Nat) (w : BW), s.ws[j]? = some w ∧ w.pc = pc

structure BSys.Good (s : BSys) : Prop where
  inv : s.q.Inv
  nocrash : s.crashed = false
  fifo : s.gone ++ s.q.contents = s.accepted
  /-- a writer inside the loop holds a message of valid size, on a BLOCK_WRITER queue without DROP_OLDEST -/
  pend : ∀ (j : Nat) (w : BW), s.ws[j]? = some w → w.pc ≠ BPc.start →
    s.q.blockWriter = true ∧ s.q.dropOldest = false ∧ ∃ (m : Msg) (rest : List Msg), w.todo = m :: rest ∧ m.valid s.q
  /-- no stranded writer: an EMPTY queue with a sleeping writer has the event set, or a writer on its way -/
  live : s.clearSignals = true → s.someAt .waiting → s.q.count = 0 → s.signaled = true ∨ s.someAt .woken

theorem Q.enqueue_maxMsg_flags (q : Q) (m : Msg) :
    (q.enqueue m).1.maxMsg = q.maxMsg ∧ (q.enqueue m).1.flags = q.flags := by
  unfold Q.enqueue
  by_cases hs : m.size = 0 ∨ m.size > q.maxMsg
  · rw [if_pos hs]; exact ⟨rfl, rfl⟩
  · rw [if_neg hs]
    by_cases hfull : q.count ≥ q.cap
    · rw [if_pos hfull]
      cases hd : q.dropOldest with
      | false =>
        simp only [Bool.false_eq_true, if_false]
        exact ⟨by first | rfl | trivial, by first | rfl | trivial⟩
      | true =>
        simp only [if_true]
        split
        · exact ⟨by first | rfl | trivial, by first | rfl | trivial⟩
        · exact ⟨by first | rfl | trivial, by first | rfl | trivial⟩
    · rw [if_neg hfull]
      simp only
      split
      · exact ⟨by first | rfl | trivial, by first | rfl | trivial⟩
      · exact ⟨by first | rfl | trivial, by first | rfl | trivial⟩

theorem Q.enqueue_maxMsg (q : Q) (m : Msg) : (q.enqueue m).1.maxMsg = q.maxMsg := (Q.enqueue_maxMsg_flags q m).1

theorem Q.dequeue_maxMsg (q : Q) (buf : Nat) : (q.dequeue buf).1.maxMsg = q.maxMsg := by
  unfold Q.dequeue
  split
  · rfl
  · split
    · rfl
    · split <;> rfl

theorem getElem?_set_cases {α} (l : List α) (i j : Nat) (a w : α) (h : (l.set i a)[j]? = some w) :
    (j = i ∧ w = a) ∨ (j ≠ i ∧ l[j]? = some w) := by
  rw [List.getElem?_set] at h
  by_cases hij : i = j
  · subst hij
    simp only [if_true] at h
    split at h
    · left; exact ⟨rfl, (Option.some.inj h).symm⟩
    · cases h
  · simp only [if_neg hij] at h
    right; exact ⟨fun e => hij e.symm, h⟩

theorem getElem?_set_self' {α} (l : List α) (i : Nat) (a w : α) (h : l[i]? = some w) : (l.set i a)[i]? = some a := by
  have hi : i < l.length := by
    rcases Nat.lt_or_ge i l.length with hl | hl
    · exact hl
    · rw [List.getElem?_eq_none hl] at h; cases h
  simp [hi]

theorem getElem?_set_ne' {α} (l : List α) (i j : Nat) (a : α) (h : j ≠ i) : (l.set i a)[j]? = l[j]? :=
  List.getElem?_set_ne (fun e => h e.symm)

theorem Q.count_pos_of_contents {q : Q} {l : List Msg} {m : Msg} (h : q.contents = l ++ [m]) : q.count ≠ 0 := by
  have := Q.contents_length q
  rw [h] at this
  simp at this
  omega

theorem BSys.good_step (s : BSys) (a : BAct) (h : s.Good) :
    (s.step a).Good ∧ (s.step a).q.cap = s.q.cap ∧ (s.step a).q.flags = s.q.flags ∧
      (s.step a).clearSignals = s.clearSignals := by
  cases a with
  | writer i =>
    simp only [BSys.step, BSys.writerStep]
    cases hw : s.ws[i]? with
    | none => exact ⟨h, by first | rfl | trivial, by first | rfl | trivial, by first | rfl | trivial⟩
    | some w =>
      simp only
      by_cases hpc : w.pc = .waiting
      · -- the event wait
        rw [hpc]
        simp only
        cases hsig : s.signaled with
        | false => simp only [Bool.false_eq_true, if_false]; exact ⟨h, by first | rfl | trivial, by first | rfl | trivial, by first | rfl | trivial⟩
        | true =>
          simp only [if_true]
          refine ⟨⟨h.inv, h.nocrash, h.fifo, ?_, ?_⟩, by first | rfl | trivial, by first | rfl | trivial, by first | rfl | trivial⟩
          · intro j w' hj hne
            rcases getElem?_set_cases _ _ _ _ _ hj with ⟨hji, hw'⟩ | ⟨_, hj'⟩
            · subst hw'; subst hji
              exact h.pend j w hw (by rw [hpc]; decide)
            · exact h.pend j w' hj' hne
          · intro _ _ _
            right
            exact ⟨i, _, getElem?_set_self' _ _ _ _ hw, rfl⟩
      · -- start / woken: the locked test
        have hstep : ∀ (s' : BSys),
            (match w.pc with
              | .waiting => if s.signaled then { s with signaled := false, ws := s.ws.set i { w with pc := .woken } } else s
              | _ => s') = s' := by
          intro s'
          cases hp : w.pc with
          | waiting => exact absurd hp hpc
          | start => rfl
          | woken => rfl
        rw [hstep]
        cases htodo : w.todo with
        | nil => exact ⟨h, by first | rfl | trivial, by first | rfl | trivial, by first | rfl | trivial⟩
        | cons m rest =>
          simp only
          obtain ⟨hinv, hcap, hflags, hspec⟩ := Q.enqueue_spec s.q h.inv m
          have hmax := Q.enqueue_maxMsg s.q m
          generalize hq : s.q.enqueue m = res at hinv hcap hspec hflags hmax
          obtain ⟨q', r⟩ := res
          simp only at hinv hcap hspec hflags hmax
          have hbw : q'.blockWriter = s.q.blockWriter := by simp [Q.blockWriter, hflags]
          have hdo : q'.dropOldest = s.q.dropOldest := by simp [Q.dropOldest, hflags]
          -- a writer inside the loop never takes the `fail` exits
          have hnofail : w.pc ≠ .start → r ≠ .fail := by
            intro hne hr
            obtain ⟨hb, hd, m', rest', ht, hv⟩ := h.pend i w hw hne
            rw [htodo] at ht
            cases ht
            subst hr
            cases hspec with
            | badSize hs _ => exact hv hs
            | full _ _ _ hb' _ => rw [hb] at hb'; cases hb'
          -- writers other than `i` keep their obligations when only the queue contents change
          have hpend_other : ∀ (wi : BW) j w', (s.ws.set i wi)[j]? = some w' → j ≠ i → w'.pc ≠ .start →
              q'.blockWriter = true ∧ q'.dropOldest = false ∧ ∃ m rest, w'.todo = m :: rest ∧ m.valid q' := by
            intro wi j w' hj hji hne
            rw [getElem?_set_ne' _ _ _ _ hji] at hj
            obtain ⟨hb, hd, m', rest', ht, hv⟩ := h.pend j w' hj hne
            exact ⟨hbw ▸ hb, hdo ▸ hd, m', rest', ht, by simpa [Msg.valid, hmax] using hv⟩
          cases hspec with
          | badSize hs he =>
            subst he
            refine ⟨⟨h.inv, h.nocrash, h.fifo, ?_, ?_⟩, by first | rfl | trivial, by first | rfl | trivial, by first | rfl | trivial⟩
            · intro j w' hj hne
              rcases getElem?_set_cases _ _ _ _ _ hj with ⟨_, hw'⟩ | ⟨hji, _⟩
              · subst hw'; exact absurd rfl hne
              · exact hpend_other _ j w' hj hji hne
            · have hst : w.pc = .start := by
                cases hp : w.pc with
                | start => rfl
                | waiting => exact absurd hp hpc
                | woken => exact absurd rfl (hnofail (by rw [hp]; decide))
              intro hc hwait h0
              obtain ⟨j, w', hj, hpw⟩ := hwait
              have hj' : s.ws[j]? = some w' := by
                rcases getElem?_set_cases _ _ _ _ _ hj with ⟨_, hw'⟩ | ⟨_, hj'⟩
                · subst hw'; cases hpw
                · exact hj'
              rcases h.live hc ⟨j, w', hj', hpw⟩ h0 with hsg | ⟨k, wk, hk, hpk⟩
              · exact Or.inl hsg
              · right
                have hki : k ≠ i := by
                  intro e; subst e
                  rw [hw] at hk; cases hk
                  rw [hst] at hpk; cases hpk
                exact ⟨k, wk, by rw [getElem?_set_ne' _ _ _ _ hki]; exact hk, hpk⟩
          | full hs hfull hdrop hb he =>
            subst he
            refine ⟨⟨h.inv, h.nocrash, h.fifo, ?_, ?_⟩, by first | rfl | trivial, by first | rfl | trivial, by first | rfl | trivial⟩
            · intro j w' hj hne
              rcases getElem?_set_cases _ _ _ _ _ hj with ⟨_, hw'⟩ | ⟨hji, _⟩
              · subst hw'; exact absurd rfl hne
              · exact hpend_other _ j w' hj hji hne
            · intro _ _ h0
              have h0' : s.q.count = 0 := h0
              have := h.inv.cap_pos
              omega
          | blocked hs hfull hdrop hb he =>
            subst he
            refine ⟨⟨h.inv, h.nocrash, h.fifo, ?_, ?_⟩, by first | rfl | trivial, by first | rfl | trivial, by first | rfl | trivial⟩
            · intro j w' hj hne
              rcases getElem?_set_cases _ _ _ _ _ hj with ⟨_, hw'⟩ | ⟨hji, _⟩
              · subst hw'
                exact ⟨hb, hdrop, m, rest, rfl, hs⟩
              · exact hpend_other _ j w' hj hji hne
            · intro _ _ h0
              have h0' : s.q.count = 0 := h0
              have := h.inv.cap_pos
              omega
          | room hs hlt hc =>
            have hwd : (decide (m.size ≠ 0 ∧ m.size ≤ s.q.maxMsg ∧ s.q.count ≥ s.q.cap) && s.q.dropOldest) = false := by
              have : ¬ (s.q.count ≥ s.q.cap) := by omega
              simp [this]
            refine ⟨⟨hinv, h.nocrash, ?_, ?_, ?_⟩, hcap, hflags, rfl⟩
            · simp only [hwd, Bool.false_eq_true, if_false, hc]
              rw [← List.append_assoc, h.fifo]
            · intro j w' hj hne
              rcases getElem?_set_cases _ _ _ _ _ hj with ⟨_, hw'⟩ | ⟨hji, _⟩
              · subst hw'; exact absurd rfl hne
              · exact hpend_other _ j w' hj hji hne
            · intro _ _ h0
              exact absurd h0 (Q.count_pos_of_contents hc)
          | dropOldest hs hfull hdrop hold hc =>
            have hwd : (decide (m.size ≠ 0 ∧ m.size ≤ s.q.maxMsg ∧ s.q.count ≥ s.q.cap) && s.q.dropOldest) = true := by
              have h1 : m.size ≠ 0 ∧ m.size ≤ s.q.maxMsg := by omega
              simp [h1, hfull, hdrop]
            refine ⟨⟨hinv, h.nocrash, ?_, ?_, ?_⟩, hcap, hflags, rfl⟩
            · simp only [hwd, if_true, hc]
              rw [← h.fifo]
              conv => rhs; rw [hold]
              simp [List.append_assoc]
            · intro j w' hj hne
              rcases getElem?_set_cases _ _ _ _ _ hj with ⟨_, hw'⟩ | ⟨hji, _⟩
              · subst hw'; exact absurd rfl hne
              · exact hpend_other _ j w' hj hji hne
            · intro _ _ h0
              exact absurd h0 (Q.count_pos_of_contents hc)
  | deq buf =>
    obtain ⟨hinv, hcap, hflags, hspec⟩ := Q.dequeue_spec s.q h.inv buf
    have hmax := Q.dequeue_maxMsg s.q buf
    simp only [BSys.step]
    generalize hq : s.q.dequeue buf = res at hinv hcap hspec hflags hmax
    obtain ⟨q', r⟩ := res
    simp only at hinv hcap hspec hflags hmax
    have hbw : q'.blockWriter = s.q.blockWriter := by simp [Q.blockWriter, hflags]
    have hdo : q'.dropOldest = s.q.dropOldest := by simp [Q.dropOldest, hflags]
    cases hspec with
    | empty _ he => subst he; exact ⟨⟨h.inv, h.nocrash, h.fifo, h.pend, h.live⟩, by first | rfl | trivial, by first | rfl | trivial, by first | rfl | trivial⟩
    | short _ _ _ _ he => subst he; exact ⟨⟨h.inv, h.nocrash, h.fifo, h.pend, h.live⟩, by first | rfl | trivial, by first | rfl | trivial, by first | rfl | trivial⟩
    | took m rest hc hsz hc' =>
      refine ⟨⟨hinv, h.nocrash, ?_, ?_, ?_⟩, hcap, hflags, rfl⟩
      · simp only [hc']
        rw [← h.fifo, hc]
        simp [List.append_assoc]
      · intro j w' hj hne
        obtain ⟨hb, hd, m', rest', ht, hv⟩ := h.pend j w' hj hne
        exact ⟨hbw ▸ hb, hdo ▸ hd, m', rest', ht, by simpa [Msg.valid, hmax] using hv⟩
      · intro _ hwait _
        obtain ⟨j, w', hj, hpw⟩ := hwait
        have hb := (h.pend j w' hj (by rw [hpw]; decide)).1
        left
        simp [hb]
  | clear =>
    simp only [BSys.step]
    have hinv : s.q.clear.Inv :=
      ⟨h.inv.cap_pos, h.inv.len, h.inv.cap_pos, h.inv.cap_pos, Nat.zero_le _, by simp [Q.clear, Nat.zero_mod]⟩
    refine ⟨⟨hinv, h.nocrash, ?_, ?_, ?_⟩, by first | rfl | trivial, by first | rfl | trivial, by first | rfl | trivial⟩
    · have : s.q.clear.contents = [] := by simp [Q.clear, Q.contents]
      rw [this, List.append_nil, h.fifo]
    · intro j w' hj hne
      exact h.pend j w' hj hne
    · intro hcs hwait _
      obtain ⟨j, w', hj, hpw⟩ := hwait
      have hb := (h.pend j w' hj (by rw [hpw]; decide)).1
      left
      have hb' : s.q.blockWriter = true := hb
      simp only at hcs
      simp [hcs, hb']

theorem BSys.good_run (s : BSys) (acts : List BAct) (h : s.Good) :
    (s.run acts).Good ∧ (s.run acts).q.cap = s.q.cap ∧ (s.run acts).q.flags = s.q.flags ∧
      (s.run acts).clearSignals = s.clearSignals := by
  induction acts generalizing s with
  | nil => exact ⟨h, rfl, rfl, rfl⟩
  | cons a rest ih =>
    obtain ⟨hg, hc, hf, hs⟩ := good_step s a h
    obtain ⟨hg', hc', hf', hs'⟩ := ih (s.step a) hg
    exact ⟨hg', hc'.trans hc, hf'.trans hf, hs'.trans hs⟩

theorem BSys.good_init (cs : Bool) {cap mm fl : Nat} {q : Q} (hq : Q.create cap mm fl = some q)
    (progs : List (List Msg)) : (BSys.init cs q progs).Good := by
  obtain ⟨hinv, hcont, _⟩ := Q.inv_create hq
  refine ⟨hinv, rfl, by simp [BSys.init, hcont], ?_, ?_⟩
  · intro j w hj hne
    simp only [BSys.init, List.getElem?_map] at hj
    cases hp : progs[j]? with
    | none => simp [hp] at hj
    | some t =>
      simp [hp] at hj
      subst hj
      exact absurd rfl hne
  · intro _ hwait _
    obtain ⟨j, w, hj, hpw⟩ := hwait
    simp only [BSys.init, List.getElem?_map] at hj
    cases hp : progs[j]? with
    | none => simp [hp] at hj
    | some t =>
      simp [hp] at hj
      subst hj
      cases hpw

end NV.C19
