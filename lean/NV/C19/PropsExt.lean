/-
C19 — property theorems of the extension round: the poll back end, several blocked writers and `clear`, the console
worker loop, the heart-beat flag, and the bridging lemmas of the extended translator.  As in Props.lean every theorem
quantifies over ALL schedules (arbitrary lists of scheduler choices).
-/
import NV.C19.Blocked
import NV.C19.Shutdown

namespace NV.C19

/-! ## translator ties (each one is a registered obligation: a changed C line breaks the lemma) -/

/-- lib/async/async_runtime_poll.c is the same machine as the epoll back end: same ring size, doorbell read before
    the lock, re-arm under the lock, push before doorbell write, nothing but doorbell bytes in the pipe.  So `Rt`
    (Model.lean) and every theorem about it hold for both; the check runs both back ends against the one model. -/
theorem poll_backend_eq :
    Gen.C19.pollCompletionRingSize = Gen.C19.completionRingSize ∧ Gen.C19.pollWaitOrder = true ∧
    Gen.C19.pollPostOrder = true ∧ Gen.C19.pollPipeIsDoorbellOnly = true := ⟨rfl, rfl, rfl, rfl⟩

/-- `Rt.push` tests `length ≥ ringSize`; `Rt.rearm` rings iff entries remain; `Rt.take` copies up to `max` -/
theorem ring_shape_eq :
    Gen.C19.ringFullOp = ">=" ∧ Gen.C19.waitRearmsWhenEntriesRemain = true ∧ Gen.C19.waitTakesUpToMax = true :=
  ⟨rfl, rfl, rfl⟩

/-- the comparisons, the precedence of the overflow policies and the index arithmetic `Q.enqueue` / `Q.dequeue`
    mirror, and the level-triggered auto-reset event `BSys.signaled` mirrors -/
theorem queue_shape_eq :
    Gen.C19.enqFullOp = ">=" ∧ Gen.C19.enqSizeOps = ("==", ">") ∧ Gen.C19.deqShortOp = ">" ∧
    Gen.C19.enqDropBeforeBlock = true ∧ Gen.C19.enqWritesAtHead = true ∧ Gen.C19.deqReadsAtTail = true ∧
    Gen.C19.deqAlwaysSignals = true ∧ Gen.C19.eventIsLevelTriggered = true :=
  ⟨rfl, rfl, rfl, rfl, rfl, rfl, rfl, rfl⟩

/-- `async_queue_clear` releases blocked writers (after the `fix:` commit) -/
theorem clear_signals_eq : clearSignals = true := rfl

theorem console_loop_eq :
    Gen.C19.consoleLoopOrder = true ∧ Gen.C19.consoleLoopExits = true ∧ Gen.C19.consoleShutdownOrder = true ∧
    0 < Gen.C19.consoleSelectTimeoutUs := ⟨rfl, rfl, rfl, by decide⟩

/-- src/comm.c creates the console line queue with DROP_OLDEST: the worker's enqueue can never sleep -/
theorem console_queue_drops_oldest : Gen.C19.consoleQueueFlags &&& flagDropOldest ≠ 0 := by decide

/-- `Wk.joinStep`: sleep while `state ≠ stopped ∧ elapsed < t`; afterwards `pthread_join` only when the state is STOPPED -/
theorem join_loop_eq : Gen.C19.joinLoopOps = ("!=", "<") ∧ Gen.C19.joinJoinsOnlyWhenStopped = true := ⟨rfl, rfl⟩

theorem timer_order_eq : Gen.C19.timerLoopOrder = true ∧ Gen.C19.timerStopOrder = true := ⟨rfl, rfl⟩

theorem hb_protocol_eq :
    Gen.C19.hbFlagAtomicOnly = true ∧ Gen.C19.hbClearsFlagFirst = true ∧ Gen.C19.hbStoresBeforeWakeup = true :=
  ⟨rfl, rfl, rfl⟩

/-! ## the doorbell carries one bit -/

/-- two runtime states that differ only in HOW OFTEN the doorbell was rung -/
structure BellEq (a b : Rt) : Prop where
  ring : a.ring = b.ring
  bell : a.bell > 0 ↔ b.bell > 0

/-- **Only "rung or not" matters.**  The eventfd counter adds every write, the pipe of the poll back end holds one
byte per write and saturates when it is full (`EAGAIN` = already rung), a model could keep one Boolean: every
operation of `Rt` returns the same result on states that agree on "rung or not", and keeps them agreeing.  (This is
why one model serves both back ends, and why a saturated doorbell loses nothing.) -/
theorem bell_value_irrelevant (a b : Rt) (h : BellEq a b) (it : Item) (max : Nat) :
    (a.push it).2 = (b.push it).2 ∧ BellEq (a.push it).1 (b.push it).1 ∧
    BellEq a.ringBell b.ringBell ∧ a.poll = b.poll ∧ BellEq a.drain b.drain ∧
    (a.post it).2 = (b.post it).2 ∧ BellEq (a.post it).1 (b.post it).1 ∧
    (a.wait max).2 = (b.wait max).2 ∧ BellEq (a.wait max).1 (b.wait max).1 := by
  obtain ⟨hr, hb⟩ := h
  have hpoll : a.poll = b.poll := by
    simp only [Rt.poll]
    by_cases ha : a.bell > 0
    · simp [ha, hb.mp ha]
    · have : ¬ b.bell > 0 := fun h' => ha (hb.mpr h')
      simp [ha, this]
  have hpop : ∀ (x y : Rt), x.ring = y.ring → (x.bell > 0 ↔ y.bell > 0) →
      (x.pop max).2 = (y.pop max).2 ∧ BellEq (x.pop max).1 (y.pop max).1 := by
    intro x y hxr hxb
    refine ⟨by simp only [Rt.pop, hxr], by simp only [Rt.pop, hxr], ?_⟩
    simp only [Rt.pop, hxr]
    split
    · exact hxb
    · constructor <;> intro _ <;> omega
  have hbell : BellEq a.ringBell b.ringBell := ⟨hr, by simp [Rt.ringBell]⟩
  have hdrain : BellEq a.drain b.drain := ⟨hr, by simp [Rt.drain]⟩
  have hwait : (a.wait max).2 = (b.wait max).2 ∧ BellEq (a.wait max).1 (b.wait max).1 := by
    simp only [Rt.wait, hpoll]
    split
    · exact hpop a.drain b.drain hr (by simp [Rt.drain])
    · exact ⟨rfl, hr, hb⟩
  have hlen : a.ring.length = b.ring.length := by rw [hr]
  by_cases hfull : a.ring.length ≥ ringSize
  · have hfb : b.ring.length ≥ ringSize := hlen ▸ hfull
    have ea : a.push it = (a, false) := by simp [Rt.push, hfull]
    have eb : b.push it = (b, false) := by simp [Rt.push, hfb]
    have pa : a.post it = (a, -1) := by simp only [Rt.post, ea]
    have pb : b.post it = (b, -1) := by simp only [Rt.post, eb]
    rw [ea, eb, pa, pb]
    exact ⟨rfl, ⟨hr, hb⟩, hbell, hpoll, hdrain, rfl, ⟨hr, hb⟩, hwait.1, hwait.2⟩
  · have hfb : ¬ b.ring.length ≥ ringSize := hlen ▸ hfull
    have ea : a.push it = ({ a with ring := a.ring ++ [it] }, true) := by simp [Rt.push, hfull]
    have eb : b.push it = ({ b with ring := b.ring ++ [it] }, true) := by simp [Rt.push, hfb]
    have pa : a.post it = (({ a with ring := a.ring ++ [it] } : Rt).ringBell, 0) := by simp only [Rt.post, ea]
    have pb : b.post it = (({ b with ring := b.ring ++ [it] } : Rt).ringBell, 0) := by simp only [Rt.post, eb]
    rw [ea, eb, pa, pb]
    exact ⟨rfl, ⟨by simp [hr], hb⟩, hbell, hpoll, hdrain, rfl, ⟨by simp [Rt.ringBell, hr], by simp [Rt.ringBell]⟩,
      hwait.1, hwait.2⟩

example : BellEq { bell := 1, ring := [(1, 2)] } { bell := 65536, ring := [(1, 2)] } := ⟨rfl, by decide⟩

/-! ## several blocked writers, clear while producers are blocked -/

/-- **Exactly once, FIFO, with any number of writers asleep on a full queue and `clear` at any moment.**
For a queue from `async_queue_create`, any producer programs and every interleaving of the writers' atomic steps
(locked test + push, sleep on `not_full`, wake-up, locked re-test) with dequeues and clears of the consumer: no slot
index leaves the buffer, and the messages that left (dequeued, dropped, cleared) followed by those still queued are
exactly the accepted ones in acceptance order.  Holds whether or not `clear` signals. -/
theorem blocked_writers_fifo_exactly_once (cs : Bool) (cap mm fl : Nat) (q : Q) (hq : Q.create cap mm fl = some q)
    (progs : List (List Msg)) (acts : List BAct) :
    let s := (BSys.init cs q progs).run acts
    s.crashed = false ∧ s.q.head < cap ∧ s.q.tail < cap ∧ s.q.count ≤ cap ∧
    s.gone ++ s.q.contents = s.accepted := by
  intro s
  obtain ⟨hg, hc, _, _⟩ := BSys.good_run _ acts (BSys.good_init cs hq progs)
  have hcap : s.q.cap = cap := by
    rw [show s.q.cap = (BSys.init cs q progs).q.cap from hc]
    exact (Q.inv_create hq).2.2
  exact ⟨hg.nocrash, hcap ▸ hg.inv.head_lt, hcap ▸ hg.inv.tail_lt, hcap ▸ hg.inv.count_le, hg.fifo⟩

/-- **No writer is left asleep on an empty queue.**  With `async_queue_clear` as the source has it
(`clearSignals`, regenerated): in every reachable state in which some writer sleeps on `not_full` and the queue is
EMPTY, the event is set (the sleeper's wait returns) or a woken writer is on its way to push.  A consumer that
drains the queue therefore always gets the producers going again; a merely non-full queue may keep a second sleeper
waiting until the next dequeue (auto-reset event: one release per dequeue) — delayed, never stranded. -/
theorem no_writer_left_asleep (cap mm fl : Nat) (q : Q) (hq : Q.create cap mm fl = some q)
    (progs : List (List Msg)) (acts : List BAct) :
    let s := (BSys.init clearSignals q progs).run acts
    s.someAt .waiting → s.q.count = 0 → s.signaled = true ∨ s.someAt .woken := by
  intro s
  obtain ⟨hg, _, _, hcs⟩ := BSys.good_run _ acts (BSys.good_init clearSignals hq progs)
  exact hg.live (by rw [show s.clearSignals = _ from hcs]; rfl)

/-- …and the sleeper's next step does wake it -/
theorem waiting_writer_wakes (s : BSys) (i : Nat) (w : BW) (hw : s.ws[i]? = some w) (hp : w.pc = .waiting)
    (hs : s.signaled = true) :
    (s.step (.writer i)).ws[i]? = some { w with pc := .woken } ∧ (s.step (.writer i)).signaled = false := by
  simp only [BSys.step, BSys.writerStep, hw, hp, hs, if_true]
  exact ⟨getElem?_set_self' _ _ _ _ hw, by first | rfl | trivial⟩

/-- a woken writer that finds room pushes its message (it never takes a `return false` exit: the size was tested
    before the loop) -/
theorem woken_writer_pushes (s : BSys) (h : s.Good) (i : Nat) (w : BW) (hw : s.ws[i]? = some w) (hp : w.pc = .woken)
    (hroom : s.q.count < s.q.cap) : (s.step (.writer i)).accepted.length = s.accepted.length + 1 := by
  obtain ⟨_, _, m, rest, htodo, hv⟩ := h.pend i w hw (by rw [hp]; decide)
  simp only [BSys.step, BSys.writerStep, hw, hp, htodo]
  obtain ⟨_, _, _, hspec⟩ := Q.enqueue_spec s.q h.inv m
  generalize s.q.enqueue m = res at hspec
  obtain ⟨q', r⟩ := res
  simp only at hspec
  cases hspec with
  | badSize hs _ => exact absurd hs hv
  | dropOldest _ hf _ _ _ => omega
  | blocked _ hf _ _ _ => omega
  | full _ hf _ _ _ => omega
  | room _ _ _ => simp

/-- **A drained queue gets a sleeping producer going again.**  In every reachable state (clear as the source has it)
with an EMPTY queue, a writer asleep on `not_full` and no writer already on its way: that writer's next two steps are
its wake-up and the push of its message — it does not have to wait for anybody. -/
theorem drained_queue_releases_a_writer (cap mm fl : Nat) (q : Q) (hq : Q.create cap mm fl = some q)
    (progs : List (List Msg)) (acts : List BAct) (i : Nat) (w : BW) :
    let s := (BSys.init clearSignals q progs).run acts
    s.q.count = 0 → s.ws[i]? = some w → w.pc = .waiting → ¬ s.someAt .woken →
    ((s.step (.writer i)).step (.writer i)).accepted.length = s.accepted.length + 1 := by
  intro s h0 hw hp hnw
  obtain ⟨hg, _, _, hcs⟩ := BSys.good_run _ acts (BSys.good_init clearSignals hq progs)
  have hsig : s.signaled = true := by
    rcases hg.live (by rw [show s.clearSignals = _ from hcs]; rfl) ⟨i, w, hw, hp⟩ h0 with h | h
    · exact h
    · exact absurd h hnw
  obtain ⟨hw1, _⟩ := waiting_writer_wakes s i w hw hp hsig
  have hg1 := (BSys.good_step s (.writer i) hg).1
  have hq1 : (s.step (.writer i)).q = s.q := by
    simp only [BSys.step, BSys.writerStep, hw, hp, hsig, if_true]
  have hacc : (s.step (.writer i)).accepted = s.accepted := by
    simp only [BSys.step, BSys.writerStep, hw, hp, hsig, if_true]
  have hroom : (s.step (.writer i)).q.count < (s.step (.writer i)).q.cap := by
    rw [hq1, h0]; exact hg.inv.cap_pos
  rw [woken_writer_pushes _ hg1 i _ hw1 rfl hroom, hacc]

-- non-vacuity: two writers asleep on a full queue of capacity 1, the consumer clears: the event is set
example :
    let q : Q := { cap := 1, maxMsg := 8, flags := flagBlockWriter, slots := [⟨0, 0, 0⟩] }
    let s := (BSys.init true q [[⟨1, 1, 8⟩], [⟨2, 1, 8⟩], [⟨3, 1, 8⟩]]).run [.writer 0, .writer 1, .writer 2, .clear]
    s.someAt .waiting ∧ s.q.count = 0 ∧ s.signaled = true := by
  refine ⟨⟨1, _, rfl, rfl⟩, rfl, rfl⟩

namespace ClearOld

/-- `async_queue_clear` AS IT WAS (no `platform_event_set`): capacity 1, writer 0 fills the queue, writer 1 falls
    asleep on `not_full`, the consumer clears -/
def q0 : Q := { cap := 1, maxMsg := 8, flags := flagBlockWriter, slots := [⟨0, 0, 0⟩] }
def stuck : BSys := (BSys.init false q0 [[⟨1, 1, 8⟩], [⟨2, 1, 8⟩]]).run [.writer 0, .writer 1, .clear]

/-- the full statement on the old code -/
def NoWriterLeftAsleepFull : Prop :=
  ∀ acts : List BAct,
    let s := (BSys.init false q0 [[⟨1, 1, 8⟩], [⟨2, 1, 8⟩]]).run acts
    s.someAt .waiting → s.q.count = 0 → s.signaled = true ∨ s.someAt .woken

/-- witness: the queue is empty, writer 1 sleeps, the event is not set, nobody is on the way -/
theorem writer_left_asleep :
    stuck.q.count = 0 ∧ stuck.ws[1]? = some { todo := [⟨2, 1, 8⟩], pc := .waiting } ∧ stuck.signaled = false ∧
    stuck.ws[0]? = some { todo := [], pc := .start } := by
  refine ⟨rfl, rfl, rfl, rfl⟩

theorem not_noWriterLeftAsleepFull : ¬ NoWriterLeftAsleepFull := by
  intro h
  have := h [.writer 0, .writer 1, .clear] ⟨1, _, rfl, rfl⟩ rfl
  rcases this with h1 | ⟨j, w, hj, hp⟩
  · cases h1
  · match j, hj with
    | 0, hj => cases hj; cases hp
    | 1, hj => cases hj; cases hp
    | n + 2, hj => cases hj

/-- …and it stays asleep: whatever the writers and a dequeuing consumer do afterwards, nothing changes (every dequeue
    finds the queue empty and sets nothing) — until somebody else enqueues, which nobody is left to do -/
theorem stays_asleep (acts : List BAct) (h : ∀ a ∈ acts, a ≠ .clear) : (stuck.run acts).ws = stuck.ws ∧
    (stuck.run acts).signaled = false ∧ (stuck.run acts).q.count = 0 := by
  have hfix : ∀ a, a ≠ .clear → stuck.step a = stuck := by
    intro a ha
    cases a with
    | clear => exact absurd rfl ha
    | deq buf => rfl
    | writer i =>
      match i with
      | 0 => rfl
      | 1 => rfl
      | n + 2 => rfl
  have : stuck.run acts = stuck := by
    induction acts with
    | nil => rfl
    | cons a rest ih =>
      simp only [BSys.run, List.foldl_cons]
      rw [hfix a (h a (List.mem_cons_self ..))]
      exact ih (fun b hb => h b (List.mem_cons_of_mem _ hb))
  rw [this]
  exact ⟨rfl, rfl, rfl⟩

end ClearOld

/-! ## console worker -/

theorem Q.enqueue_flags (q : Q) (m : Msg) : (q.enqueue m).1.flags = q.flags := (Q.enqueue_maxMsg_flags q m).2

/-- DROP_OLDEST is tested first: an enqueue on such a queue never sleeps -/
theorem drop_oldest_never_blocks (q : Q) (m : Msg) (h : q.dropOldest = true) : (q.enqueue m).2 ≠ .blocked := by
  unfold Q.enqueue
  split
  · intro h'; cases h'
  · simp only [h]
    split
    · rename_i h'
      split at h' <;> cases h'
    · split <;> (intro h'; cases h')

/-- distance of the worker from its exit once stop is signalled -/
def CwPc.dist : CwPc → Nat
  | .exited => 0 | .top => 1 | .post _ => 2 | .enqueue _ => 3 | .read => 4 | .select => 5

theorem CSys.workerStep_stop (s : CSys) (sel : SelRes) (rd : RdRes) (hs : s.stopEv = true)
    (hd : s.q.dropOldest = true) :
    (s.workerStep sel rd).stopEv = true ∧ (s.workerStep sel rd).q.dropOldest = true ∧
    ((s.workerStep sel rd).pc.dist < s.pc.dist ∨ (s.pc = .exited ∧ (s.workerStep sel rd).pc = .exited)) := by
  unfold CSys.workerStep
  cases hpc : s.pc with
  | top => simp [hs, hd, CwPc.dist]
  | select => cases sel <;> simp [hs, hd, CwPc.dist]
  | read => cases rd <;> simp [hs, hd, CwPc.dist]
  | post n => simp [hs, hd, CwPc.dist]
  | exited => simp [hs, hd, hpc]
  | enqueue n =>
    simp only
    have hnb := drop_oldest_never_blocks s.q ⟨0, s.enqs.length, n + 1⟩ hd
    have hfl := Q.enqueue_flags s.q ⟨0, s.enqs.length, n + 1⟩
    generalize s.q.enqueue ⟨0, s.enqs.length, n + 1⟩ = res at hnb hfl
    obtain ⟨q', r⟩ := res
    simp only at hnb hfl
    have hd' : q'.dropOldest = true := by simpa [Q.dropOldest, hfl] using hd
    cases r with
    | blocked => exact absurd rfl hnb
    | ok => simp [hs, hd', CwPc.dist]
    | fail => simp [hs, hd', CwPc.dist]
    | crash => simp [hs, hd', CwPc.dist]

/-- **The console worker terminates for every state at which stop is requested.**  Whatever the worker is doing when
`console_worker_shutdown` signals stop (at the loop test, inside `select`, about to read, handing a chunk to the line
queue, posting its completion) and whatever `select` / `read` answer afterwards, its procedure has returned after at
most five of its own steps — provided the line queue drops the oldest line when full (`console_queue_drops_oldest`:
that is how src/comm.c creates it), so that its enqueue cannot sleep.  `timed_join_returns_true_after_stop`
(Props.lean) then makes the timed join of the shutdown return true. -/
theorem console_worker_exits_after_stop (s : CSys) (hs : s.stopEv = true) (hd : s.q.dropOldest = true)
    (answers : List (SelRes × RdRes)) (hlen : answers.length ≥ 5) : (s.runWorker answers).pc = .exited := by
  have key : ∀ (answers : List (SelRes × RdRes)) (s : CSys), s.stopEv = true → s.q.dropOldest = true →
      s.pc.dist ≤ answers.length → (s.runWorker answers).pc = .exited := by
    intro answers
    induction answers with
    | nil =>
      intro s _ _ hle
      simp only [List.length_nil, Nat.le_zero] at hle
      simp only [CSys.runWorker, List.foldl_nil]
      cases hpc : s.pc <;> simp [hpc, CwPc.dist] at hle ⊢
    | cons a rest ih =>
      intro s hs hd hle
      obtain ⟨hs', hd', hdist⟩ := CSys.workerStep_stop s a.1 a.2 hs hd
      simp only [CSys.runWorker, List.foldl_cons]
      refine ih _ hs' hd' ?_
      simp only [List.length_cons] at hle
      rcases hdist with h | ⟨h1, h2⟩
      · omega
      · rw [h2]; simp [CwPc.dist]
  refine key answers s hs hd ?_
  have : s.pc.dist ≤ 5 := by cases s.pc <;> simp [CwPc.dist]
  omega

-- non-vacuity: stop arrives while the worker hands a chunk to a FULL drop-oldest queue
example :
    let q : Q := { cap := 1, maxMsg := 16, flags := flagDropOldest, slots := [⟨0, 0, 4⟩], count := 1, head := 0, tail := 0 }
    let s : CSys := { stopEv := true, pc := .enqueue 5, q }
    (s.runWorker [(.timeout, .eof), (.timeout, .eof), (.timeout, .eof)]).pc = .exited := by decide

/-- the hypothesis is needed: on a BLOCK_WRITER queue that is full the worker sleeps in `async_queue_enqueue` and no
    stop request reaches it -/
theorem console_worker_hangs_on_block_writer_queue (answers : List (SelRes × RdRes)) :
    let q : Q := { cap := 1, maxMsg := 16, flags := flagBlockWriter, slots := [⟨0, 0, 4⟩], count := 1, head := 0, tail := 0 }
    let s : CSys := { stopEv := true, pc := .enqueue 5, q }
    (s.runWorker answers).pc = .enqueue 5 := by
  intro q s
  have hfix : ∀ a : SelRes × RdRes, s.workerStep a.1 a.2 = s := by
    intro a
    simp only [s, q, CSys.workerStep]
    rfl
  induction answers with
  | nil => rfl
  | cons a rest ih =>
    simp only [CSys.runWorker, List.foldl_cons] at ih ⊢
    rw [hfix a]
    exact ih

/-- **A completion is never posted before its chunk is in the line queue.**  In every interleaving of the worker,
the stopping thread and the backend: the completions posted so far are, in order, the chunks handed to
`async_queue_enqueue` so far — all of them, or all but the one whose post is the worker's next step. -/
theorem console_chunk_enqueued_before_completion (q : Q) (key : Nat) (acts : List CAct) :
    let s := ({ q, key } : CSys).run acts
    s.enqs = s.posts ++ (match s.pc with | .post n => [n] | _ => []) := by
  have step : ∀ (s : CSys) (a : CAct),
      s.enqs = s.posts ++ (match s.pc with | .post n => [n] | _ => []) →
      (s.step a).enqs = (s.step a).posts ++ (match (s.step a).pc with | .post n => [n] | _ => []) := by
    intro s a h
    cases a with
    | stop => exact h
    | backend max => exact h
    | worker sel rd =>
      obtain ⟨stopEv, pc, q, rt, key, enqs, posts⟩ := s
      simp only at h
      cases pc with
      | top => cases stopEv <;> simp_all [CSys.step, CSys.workerStep]
      | select => cases sel <;> simp_all [CSys.step, CSys.workerStep]
      | read => cases rd <;> simp_all [CSys.step, CSys.workerStep]
      | exited => simp_all [CSys.step, CSys.workerStep]
      | post n => simp_all [CSys.step, CSys.workerStep]
      | enqueue n =>
        simp only [CSys.step, CSys.workerStep]
        generalize q.enqueue ⟨0, enqs.length, n + 1⟩ = res
        obtain ⟨q', r⟩ := res
        cases r <;> simp_all
  intro s
  show (({ q, key } : CSys).run acts).enqs = _
  suffices ∀ (s0 : CSys), s0.enqs = s0.posts ++ (match s0.pc with | .post n => [n] | _ => []) →
      (s0.run acts).enqs = (s0.run acts).posts ++ (match (s0.run acts).pc with | .post n => [n] | _ => []) from
    this _ rfl
  induction acts with
  | nil => intro s0 h; exact h
  | cons a rest ih => intro s0 h; exact ih _ (step s0 a h)

/-! ## heart-beat flag -/

/-- the protocol as the source has it: the two orders are read from src/backend.c on every run -/
def HbSys.code : HbSys := { clearFirst := Gen.C19.hbClearsFlagFirst, storeFirst := Gen.C19.hbStoresBeforeWakeup }

structure HbSys.Inv (s : HbSys) : Prop where
  cf : s.clearFirst = true
  sf : s.storeFirst = true
  owed : s.owed = true → s.flag = true
  wake : s.flag = true → s.pc = .wait true → s.bell = true ∨ s.tpc = .half
  noLeave : s.pc ≠ .leaving

theorem HbSys.inv_step (s : HbSys) (a : HbAct) (h : s.Inv) : (s.step a).Inv := by
  obtain ⟨cf, sf, flag, bell, pc, tpc, owed, rounds⟩ := s
  obtain ⟨h1, h2, h3, h4, h5⟩ := h
  simp only at h1 h2 h3 h4 h5
  subst h1; subst h2
  cases a with
  | timer =>
    cases tpc <;> cases flag <;> cases bell <;> cases owed <;>
      first
        | (refine ⟨rfl, rfl, ?_, ?_, ?_⟩ <;> simp_all [HbSys.step])
  | backend more =>
    cases pc with
    | testA =>
      cases flag <;> (refine ⟨rfl, rfl, ?_, ?_, ?_⟩ <;> simp_all [HbSys.step])
    | wait b =>
      cases b <;> cases bell <;> cases flag <;> cases tpc <;>
        (refine ⟨rfl, rfl, ?_, ?_, ?_⟩ <;> simp_all [HbSys.step])
    | testB =>
      cases flag <;> (refine ⟨rfl, rfl, ?_, ?_, ?_⟩ <;> simp_all [HbSys.step])
    | entered => refine ⟨rfl, rfl, ?_, ?_, ?_⟩ <;> simp_all [HbSys.step]
    | inRound =>
      cases flag <;> cases more <;> (refine ⟨rfl, rfl, ?_, ?_, ?_⟩ <;> simp_all [HbSys.step])
    | leaving => exact absurd rfl h5

theorem HbSys.inv_run (s : HbSys) (acts : List HbAct) (h : s.Inv) : (s.run acts).Inv := by
  induction acts generalizing s with
  | nil => exact h
  | cons a rest ih => exact ih _ (inv_step s a h)

theorem HbSys.code_inv : HbSys.code.Inv :=
  ⟨hb_protocol_eq.2.1, hb_protocol_eq.2.2, (by intro h; cases h), (by intro h; cases h), (by intro h; cases h)⟩

/-- **A tick is never lost and never leaves the backend asleep.**  The timer thread runs `heartbeat_timer_callback`
(atomic store 1, then `async_runtime_wakeup`) at any moments, the backend runs its cycle (flag test for the poll
time-out, wait, flag test, `call_heart_beat` = clear FIRST, then the round that a new tick cuts short) — every
interleaving of their steps:
 1. as long as no round has STARTED after a tick, the flag is still set (the clear of a running round cannot swallow
    a tick that arrives during the round);
 2. whenever the flag is set while the backend is inside a BLOCKING wait, the doorbell is rung or the callback is
    about to ring it: the wait returns, the second flag test starts the round. -/
theorem tick_never_lost (acts : List HbAct) :
    let s := HbSys.code.run acts
    (s.owed = true → s.flag = true) ∧ (s.flag = true → s.pc = .wait true → s.bell = true ∨ s.tpc = .half) := by
  intro s
  have h := HbSys.inv_run _ acts HbSys.code_inv
  exact ⟨h.owed, h.wake⟩

/-- …and an owed tick does start a round: at the second flag test the backend enters `call_heart_beat` -/
theorem owed_tick_starts_round (acts : List HbAct) (b1 b2 : Bool) :
    (HbSys.code.run acts).owed = true → (HbSys.code.run acts).pc = .testB →
    (((HbSys.code.run acts).step (.backend b1)).step (.backend b2)).rounds = (HbSys.code.run acts).rounds + 1 := by
  have h := HbSys.inv_run _ acts HbSys.code_inv
  generalize HbSys.code.run acts = s at h ⊢
  intro ho hp
  have hf := h.owed ho
  have hc := h.cf
  obtain ⟨cf, sf, flag, bell, pc, tpc, owed, rounds⟩ := s
  simp only at hf hc hp ho
  subst hf; subst hc; subst hp
  simp [HbSys.step]

example : (HbSys.code.run [.timer, .backend true, .backend true, .timer]).owed = true ∧
    (HbSys.code.run [.timer, .backend true, .backend true, .timer]).pc = .testB := by decide

namespace HbOld

/-- variant 1: the flag is cleared AFTER the round (`clearFirst = false`) -/
def late : HbSys := { clearFirst := false, storeFirst := true }

/-- a tick that arrives during the round is swallowed by the late clear: owed, flag down, backend back at its test -/
theorem tick_swallowed :
    let s := late.run [.timer, .timer, .backend true, .backend true, .backend true, .backend true,
                       .timer, .timer, .backend false, .backend false]
    s.owed = true ∧ s.flag = false ∧ s.pc = .testA := by decide

/-- variant 2: the callback wakes the event loop BEFORE it stores the flag (`storeFirst = false`) -/
def wakeFirst : HbSys := { clearFirst := true, storeFirst := false }

/-- the backend consumes the wake-up, finds the flag down, goes into a blocking wait; the store comes too late: flag
    set, doorbell silent, callback finished — the tick waits for the 60 s time-out -/
theorem backend_sleeps_on_tick :
    let s := wakeFirst.run [.timer, .backend true, .backend true, .backend true, .backend true, .timer]
    s.flag = true ∧ s.pc = .wait true ∧ s.bell = false ∧ s.tpc = .idle := by decide

end HbOld

end NV.C19
