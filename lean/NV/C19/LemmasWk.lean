/- C19 — worker join and timer stop: invariants of every schedule -/
import NV.C19.Sched

namespace NV.C19

/-! ### worker -/

/-- after the fix: STOPPED is stored only by the thread wrapper after `proc` returned -/
def Wk.StateOk (w : Wk) : Prop := w.state = .stopped ↔ (w.th = .stored ∨ w.th = .exited)

theorem Wk.stateOk_create : Wk.create.StateOk := by simp [Wk.StateOk, Wk.create]

theorem Wk.stateOk_threadStep (w : Wk) (b : Bool) (h : w.StateOk) : (w.threadStep b).StateOk := by
  unfold Wk.StateOk at *
  unfold Wk.threadStep
  cases hth : w.th <;> simp_all
  · cases b <;> simp_all

theorem Wk.stateOk_signalStop (w : Wk) (h : w.StateOk) : w.signalStop.StateOk := by
  simpa [Wk.StateOk, Wk.signalStop] using h

def WSys.Inv (s : WSys) : Prop :=
  s.w.StateOk ∧
  (match s.pc with
   | .loop e => e = pollMs * s.work ∧ e < s.t + pollMs
   | .pjoin => (s.w.th = .stored ∨ s.w.th = .exited) ∧ s.work ≤ sleepsFor s.t + 1
   | .done _ => s.work ≤ sleepsFor s.t + 2)

theorem WSys.inv_step (s : WSys) (a : WAct) (h : s.Inv) : (s.step a).Inv := by
  obtain ⟨w, t, pc, work⟩ := s
  obtain ⟨h1, h2⟩ := h
  simp only at h1 h2
  cases a with
  | thread b =>
    refine ⟨Wk.stateOk_threadStep _ _ h1, ?_⟩
    simp only [WSys.step]
    cases pc with
    | loop e => exact h2
    | done r => exact h2
    | pjoin =>
      refine ⟨?_, h2.2⟩
      unfold Wk.threadStep
      rcases h2.1 with h | h <;> simp [h]
  | stop =>
    refine ⟨Wk.stateOk_signalStop _ h1, ?_⟩
    simp only [WSys.step, Wk.signalStop]
    cases pc <;> exact h2
  | ctl =>
    cases pc with
    | done r => exact ⟨h1, h2⟩
    | loop e =>
      simp only [WSys.step, Wk.joinStep]
      by_cases hc : w.state ≠ .stopped ∧ e < t
      · rw [if_pos hc]
        show WSys.Inv { w := w, t := t, pc := .loop (e + pollMs), work := work + 1 }
        refine ⟨h1, ?_⟩
        simp only [pollMs] at h2 ⊢
        omega
      · rw [if_neg hc]
        by_cases hst : w.state = .stopped
        · rw [if_pos hst]
          show WSys.Inv { w := w, t := t, pc := .pjoin, work := work + 1 }
          refine ⟨h1, h1.mp hst, ?_⟩
          simp only [pollMs, sleepsFor] at h2 ⊢
          omega
        · rw [if_neg hst]
          show WSys.Inv { w := w, t := t, pc := .done false, work := work + 1 }
          refine ⟨h1, ?_⟩
          have hge : t ≤ e := by
            rcases Classical.not_and_iff_not_or_not.mp hc with h | h
            · exact absurd (Classical.not_not.mp h) hst
            · omega
          simp only [pollMs, sleepsFor] at h2 ⊢
          omega
    | pjoin =>
      simp only [WSys.step, Wk.joinStep]
      by_cases hex : w.th = .exited
      · rw [if_pos hex]
        show WSys.Inv { w := w, t := t, pc := .done true, work := work + 1 }
        refine ⟨h1, ?_⟩
        simp only; omega
      · rw [if_neg hex]
        exact ⟨h1, h2⟩

theorem WSys.inv_run (s : WSys) (acts : List WAct) (h : s.Inv) : (s.run acts).Inv := by
  induction acts generalizing s with
  | nil => exact h
  | cons a rest ih => exact ih _ (inv_step s a h)

theorem WSys.stateOk_pre (s : WSys) (acts : List WAct) (hd : ∃ r, s.pc = .done r) (h : s.w.StateOk) :
    (s.run acts).w.StateOk := by
  induction acts generalizing s with
  | nil => exact h
  | cons a rest ih =>
    obtain ⟨r, hr⟩ := hd
    cases a with
    | thread b => exact ih _ ⟨r, by simp [WSys.step, hr]⟩ (Wk.stateOk_threadStep _ _ h)
    | stop => exact ih _ ⟨r, by simp [WSys.step, hr]⟩ (Wk.stateOk_signalStop _ h)
    | ctl =>
      have : s.step .ctl = s := by simp [WSys.step, hr]
      simp only [WSys.run, List.foldl_cons, this]
      exact ih s ⟨r, hr⟩ h

theorem WSys.inv_start (t : Nat) (pre : List WAct) : (WSys.start t pre).Inv := by
  refine ⟨?_, ?_⟩
  · exact WSys.stateOk_pre _ pre ⟨false, rfl⟩ Wk.stateOk_create
  · simp [WSys.start, pollMs]

/-! ### timer -/

def TSys.Inv (s : TSys) : Prop :=
  (s.spc = .returned → s.tpc = .exited) ∧
  (s.log.contains .stopReturned → s.spc = .returned) ∧
  logOk s.log = true ∧
  (s.stopReq = true ↔ (s.spc = .requested ∨ s.spc = .notified ∨ s.spc = .returned))

theorem TSys.inv_step (s : TSys) (a : TAct) (h : s.Inv) : (s.step a).Inv := by
  obtain ⟨active, stopReq, tpc, spc, log⟩ := s
  simp only [TSys.Inv] at h ⊢
  obtain ⟨h1, h2, h3, h4⟩ := h
  cases a with
  | thr to =>
    cases tpc with
    | top => simp only [TSys.step]; split <;> simp_all
    | waiting => simp_all [TSys.step]
    | afterWait b => simp only [TSys.step]; split <;> (try split) <;> simp_all
    | callback =>
      simp only [TSys.step]
      refine ⟨?_, ?_, ?_, h4⟩
      · intro hr; have := h1 hr; simp at this
      · intro hc
        apply h2
        simpa using hc
      · simp only [logOk, Bool.and_eq_true, Bool.not_eq_true']
        refine ⟨?_, h3⟩
        cases hcon : log.contains .stopReturned with
        | false => rfl
        | true => have := h1 (h2 hcon); simp at this
    | exited => exact ⟨h1, h2, h3, h4⟩
  | stopper =>
    cases spc with
    | idle => simp_all [TSys.step]
    | clearedActive => simp_all [TSys.step]
    | requested => simp_all [TSys.step]
    | notified =>
      simp only [TSys.step]
      split
      · rename_i hex
        refine ⟨fun _ => hex, fun _ => rfl, ?_, ?_⟩
        · simpa [logOk] using h3
        · simpa using h4
      · simp_all
    | returned => exact ⟨h1, h2, h3, h4⟩

theorem TSys.inv_run (s : TSys) (acts : List TAct) (h : s.Inv) : (s.run acts).Inv := by
  induction acts generalizing s with
  | nil => exact h
  | cons a rest ih => exact ih _ (inv_step s a h)

theorem TSys.inv_init : ({} : TSys).Inv := by
  simp [TSys.Inv, logOk]

end NV.C19
