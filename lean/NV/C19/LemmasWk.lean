/- C19 — worker join and timer stop: invariants of every schedule -/
import NV.C19.Sched

namespace NV.C19

/-! ### worker -/

/-- **bridging lemma (translator → model)**: the source stores RUNNING before it calls `pthread_create` and nothing
    after it.  Everything below is proved for this shape; a source change that moves or adds a store breaks THIS
    lemma (the regenerated `Gen.C19.createStores*` change), not only the correspondence run. -/
theorem createProg_eq : createProg = [.store .running, .spawn] := by decide

/-- **bridging lemma**: the thread wrapper stores RUNNING before and STOPPED after the user procedure, and nothing
    else — which is what `Wk.threadStep` executes -/
theorem wrapper_stores_eq :
    Gen.C19.wrapperStoresBeforeProc = [Gen.C19.workerRunning] ∧ Gen.C19.wrapperStoresAfterProc = [Gen.C19.workerStopped] := by
  decide

/-- **bridging lemma**: the timed join sleeps `pollMs` ms per iteration and adds the same amount to its elapsed counter -/
theorem join_poll_eq : Gen.C19.joinElapsedStepMs = pollMs ∧ Gen.C19.joinSleepNs = pollMs * 1000000 := by decide

/-- STOPPED is in the state field exactly when the thread wrapper has stored it after `proc` returned -/
def Wk.StateOk (w : Wk) : Prop := w.state = .stopped ↔ (w.th = .stored ∨ w.th = .exited)

theorem Wk.stateOk_threadStep (w : Wk) (b : Bool) (hs : w.th ≠ .notSpawned) (h : w.StateOk) :
    (w.threadStep b).StateOk ∧ (w.threadStep b).th ≠ .notSpawned := by
  unfold Wk.StateOk at *
  unfold Wk.threadStep
  cases hth : w.th <;> simp_all
  · cases b <;> simp_all

theorem Wk.stateOk_signalStop (w : Wk) (h : w.StateOk) : w.signalStop.StateOk := by
  simpa [Wk.StateOk, Wk.signalStop] using h

/-- where `async_worker_create` is, and what that means for the shared state -/
def WSys.CrInv (s : WSys) : Prop :=
  (s.creator = [.store .running, .spawn] ∧ s.w.th = .notSpawned) ∨
  (s.creator = [.spawn] ∧ s.w.th = .notSpawned ∧ s.w.state = .running) ∨
  (s.creator = [] ∧ s.w.th ≠ .notSpawned ∧ s.w.StateOk)

def WSys.Inv (s : WSys) : Prop :=
  s.CrInv ∧
  (match s.pc with
   | .loop e => e = pollMs * s.work ∧ e < s.t + pollMs
   | .pjoin => (s.w.th = .stored ∨ s.w.th = .exited) ∧ s.work ≤ sleepsFor s.t + 1
   | .done _ => s.work ≤ sleepsFor s.t + 2)

theorem WSys.crInv_step (s : WSys) (a : WAct) (h : s.CrInv) : (s.step a).CrInv := by
  obtain ⟨w, creator, t, pc, work⟩ := s
  simp only [WSys.CrInv] at h ⊢
  cases a with
  | creator =>
    rcases h with ⟨hc, hth⟩ | ⟨hc, hth, hst⟩ | ⟨hc, hth, hok⟩
    · subst hc; right; left
      simp [WSys.step, Wk.crStep, hth]
    · subst hc; right; right
      simp [WSys.step, Wk.crStep, Wk.StateOk, hst]
    · subst hc; right; right
      exact ⟨rfl, hth, hok⟩
  | thread b =>
    rcases h with ⟨hc, hth⟩ | ⟨hc, hth, hst⟩ | ⟨hc, hth, hok⟩
    · left; simp [WSys.step, Wk.threadStep, hth, hc]
    · right; left; simp [WSys.step, Wk.threadStep, hth, hc, hst]
    · right; right
      have := Wk.stateOk_threadStep w b hth hok
      exact ⟨hc, this.2, this.1⟩
  | stop =>
    rcases h with ⟨hc, hth⟩ | ⟨hc, hth, hst⟩ | ⟨hc, hth, hok⟩
    · left; exact ⟨hc, hth⟩
    · right; left; exact ⟨hc, hth, hst⟩
    · right; right; exact ⟨hc, hth, Wk.stateOk_signalStop w hok⟩
  | ctl =>
    simp only [WSys.step]
    split
    · exact h
    · split
      · exact h
      · split <;> exact h

theorem WSys.inv_step (s : WSys) (a : WAct) (h : s.Inv) : (s.step a).Inv := by
  have hcr := WSys.crInv_step s a h.1
  refine ⟨hcr, ?_⟩
  obtain ⟨w, creator, t, pc, work⟩ := s
  obtain ⟨h0, h2⟩ := h
  simp only at h2
  cases a with
  | creator =>
    simp only [WSys.step]
    -- the join has not begun (or the creator is done and this is a no-op)
    cases creator with
    | nil => exact h2
    | cons a rest =>
      simp only
      cases pc with
      | loop e => exact h2
      | done r => exact h2
      | pjoin =>
        -- inside pthread_join the creator had finished long ago: CrInv says creator = [] when th is stored/exited
        rcases h0 with ⟨_, hth⟩ | ⟨_, hth, _⟩ | ⟨hc, _, _⟩
        · rcases h2.1 with h | h <;> (have := hth.symm.trans h; cases this)
        · rcases h2.1 with h | h <;> (have := hth.symm.trans h; cases this)
        · cases hc
  | thread b =>
    simp only [WSys.step]
    cases pc with
    | loop e => exact h2
    | done r => exact h2
    | pjoin =>
      refine ⟨?_, h2.2⟩
      unfold Wk.threadStep
      rcases h2.1 with h | h <;> simp [h]
  | stop =>
    simp only [WSys.step, Wk.signalStop]
    cases pc <;> exact h2
  | ctl =>
    by_cases hcn : creator = []
    · subst hcn
      have h1 : w.StateOk := by
        rcases h0 with ⟨hc, _⟩ | ⟨hc, _, _⟩ | ⟨_, _, hok⟩
        · cases hc
        · cases hc
        · exact hok
      cases pc with
      | done r => exact h2
      | loop e =>
        simp only [WSys.step, Wk.joinStep, ne_eq, not_true_eq_false, if_false]
        by_cases hc : w.state ≠ .stopped ∧ e < t
        · rw [if_pos hc]
          show (match JoinPc.loop (e + pollMs) with
            | .loop e => e = pollMs * (work + 1) ∧ e < t + pollMs
            | .pjoin => (w.th = .stored ∨ w.th = .exited) ∧ work + 1 ≤ sleepsFor t + 1
            | .done _ => work + 1 ≤ sleepsFor t + 2)
          simp only [pollMs] at h2 ⊢
          omega
        · rw [if_neg hc]
          by_cases hst : w.state = .stopped
          · rw [if_pos hst]
            show (w.th = .stored ∨ w.th = .exited) ∧ work + 1 ≤ sleepsFor t + 1
            refine ⟨h1.mp hst, ?_⟩
            simp only [pollMs, sleepsFor] at h2 ⊢
            omega
          · rw [if_neg hst]
            show work + 1 ≤ sleepsFor t + 2
            have hge : t ≤ e := by
              rcases Classical.not_and_iff_not_or_not.mp hc with h | h
              · exact absurd (Classical.not_not.mp h) hst
              · omega
            simp only [pollMs, sleepsFor] at h2 ⊢
            omega
      | pjoin =>
        simp only [WSys.step, Wk.joinStep, ne_eq, not_true_eq_false, if_false]
        by_cases hex : w.th = .exited
        · rw [if_pos hex]
          show work + 1 ≤ sleepsFor t + 2
          omega
        · rw [if_neg hex]
          exact h2
    · simp only [WSys.step, ne_eq, hcn, not_false_eq_true, if_true]
      exact h2

theorem WSys.inv_run (s : WSys) (acts : List WAct) (h : s.Inv) : (s.run acts).Inv := by
  induction acts generalizing s with
  | nil => exact h
  | cons a rest ih => exact ih _ (inv_step s a h)

theorem WSys.crInv_run (s : WSys) (acts : List WAct) (h : s.CrInv) : (s.run acts).CrInv := by
  induction acts generalizing s with
  | nil => exact h
  | cons a rest ih => exact ih _ (crInv_step s a h)

theorem WSys.inv_start (t : Nat) (pre : List WAct) : (WSys.start t pre).Inv := by
  have h0 : (WSys.fresh createProg t).CrInv := by
    left; exact ⟨createProg_eq, rfl⟩
  have := WSys.crInv_run _ pre h0
  refine ⟨?_, ?_⟩
  · exact this
  · simp [WSys.start, WSys.startWith, pollMs]

/-! ### timer -/

def TSys.Inv (s : TSys) : Prop :=
  (s.spc = .returned → s.tpc = .exited) ∧
  (s.log.contains .stopReturned → s.spc = .returned) ∧
  logOk s.log = true ∧
  (s.stopReq = true ↔ (s.spc = .requested ∨ s.spc = .notified ∨ s.spc = .returned))

theorem TSys.inv_step (s : TSys) (a : TAct) (h : s.Inv) : (s.step a).Inv := by
  obtain ⟨active, stopReq, tpc, spc, log⟩ := s
  simp only [TSys.Inv] at h ⊢
  obtain ⟨h1, h2, h3, h4⟩ := h
  cases a with
  | thr to =>
    cases tpc with
    | top => simp only [TSys.step]; split <;> simp_all
    | waiting => simp_all [TSys.step]
    | afterWait b => simp only [TSys.step]; split <;> (try split) <;> simp_all
    | callback =>
      simp only [TSys.step]
      refine ⟨?_, ?_, ?_, h4⟩
      · intro hr; have := h1 hr; simp at this
      · intro hc
        apply h2
        simpa using hc
      · simp only [logOk, Bool.and_eq_true, Bool.not_eq_true']
        refine ⟨?_, h3⟩
        cases hcon : log.contains .stopReturned with
        | false => rfl
        | true => have := h1 (h2 hcon); simp at this
    | exited => exact ⟨h1, h2, h3, h4⟩
  | stopper =>
    cases spc with
    | idle => simp_all [TSys.step]
    | clearedActive => simp_all [TSys.step]
    | requested => simp_all [TSys.step]
    | notified =>
      simp only [TSys.step]
      split
      · rename_i hex
        refine ⟨fun _ => hex, fun _ => rfl, ?_, ?_⟩
        · simpa [logOk] using h3
        · simpa using h4
      · simp_all
    | returned => exact ⟨h1, h2, h3, h4⟩

theorem TSys.inv_run (s : TSys) (acts : List TAct) (h : s.Inv) : (s.run acts).Inv := by
  induction acts generalizing s with
  | nil => exact h
  | cons a rest ih => exact ih _ (inv_step s a h)

theorem TSys.inv_init : ({} : TSys).Inv := by
  simp [TSys.Inv, logOk]

end NV.C19
