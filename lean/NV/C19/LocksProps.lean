/-
C19 — the lock-discipline obligation over the function bodies regenerated from the clang AST.
-/
import NV.C19.Locks

namespace NV.C19

open NV.Gen.C19

/-- the checker accepts every function defined in async_queue.c and in both completion-ring files (constructors and
    destructors excepted: no other thread can have the object yet / any more) -/
theorem locked_functions_accepted : lockedFunctions.all (fun p => okBody p.2) = true := by decide

/-- **Every access to head / tail / count / the counters / the slots, and to ring / ring_head / ring_count, happens
inside a lock…unlock bracket — on every path.**  For every function body as the clang AST has it on this run, for
every choice at every `if`, every number of iterations of every loop, every `return` / `continue` / `break`: the
actions along the path keep the discipline (`runActs … = some …`: no shared field touched without the mutex, no second
lock, no unlock without lock, the sleep on `not_full` made without the mutex, no write to a field that is read
unlocked elsewhere) and the call ends with the mutex released.  With `mutex_excludes_accesses` (Locks.lean): accesses
of different threads to these fields are always ordered by the mutex. -/
theorem lock_discipline_all_paths (name : String) (body : LStmt) (hmem : (name, body) ∈ lockedFunctions)
    (tr : List LAct) (ex : Exit) (hexec : Exec body tr ex) : runActs false tr = some false := by
  have hall := locked_functions_accepted
  rw [List.all_eq_true] at hall
  exact okBody_sound (hall (name, body) hmem) hexec

/-- all actions that occur anywhere in a body -/
def allActs : LStmt → List LAct
  | .acts l => l
  | .seq a b => allActs a ++ allActs b
  | .ite c t e => c ++ allActs t ++ allActs e
  | .loop c b => c ++ allActs b
  | .ret c => c
  | .cont => []
  | .brk => []

/-- non-vacuity: the bodies are not empty shells — dequeue reads the slot and moves tail, enqueue sleeps on the event,
    both rings are pushed to and popped from, each of them under its lock -/
theorem locked_functions_nontrivial :
    (∃ b, ("queue:async_queue_dequeue", b) ∈ lockedFunctions ∧ LAct.rd "slots" ∈ allActs b ∧ LAct.wr "tail" ∈ allActs b ∧
        LAct.lock ∈ allActs b) ∧
    (∃ b, ("queue:async_queue_enqueue", b) ∈ lockedFunctions ∧ LAct.wait ∈ allActs b ∧ LAct.wr "slots" ∈ allActs b) ∧
    (∃ b, ("epoll:async_runtime_wait", b) ∈ lockedFunctions ∧ LAct.rd "ring" ∈ allActs b ∧ LAct.wr "ring_count" ∈ allActs b) ∧
    (∃ b, ("poll:async_runtime_post_completion", b) ∈ lockedFunctions ∧ LAct.wr "ring" ∈ allActs b) := by
  refine ⟨⟨lk_queue_async_queue_dequeue, by decide, by decide, by decide, by decide⟩,
    ⟨lk_queue_async_queue_enqueue, by decide, by decide, by decide⟩,
    ⟨lk_epoll_async_runtime_wait, by decide, by decide, by decide⟩,
    ⟨lk_poll_async_runtime_post_completion, by decide, by decide⟩⟩

/-- the checker rejects the shape of the round-5 seeded change: the mutex released while the payload is copied out
    of the tail slot, taken again to advance `tail` -/
example : okBody (.seq (.acts [.lock]) (.seq (.acts [.rd "count", .rd "tail"]) (.seq (.acts [.unlock])
    (.seq (.acts [.rd "slots"]) (.seq (.acts [.lock]) (.seq (.acts [.wr "tail", .wr "count"]) (.seq (.acts [.unlock])
    (.ret [])))))))) = false := by decide

/-- …and a path through that body on which the slot is read without the mutex -/
example : runActs false [.lock, .rd "count", .rd "tail", .unlock, .rd "slots"] = none := by decide

-- an early return that forgets the unlock; a `continue` that skips the re-lock; a sleep with the mutex held
example : okBody (.seq (.acts [.lock]) (.seq (.ite [.rd "count"] (.ret []) (.acts [])) (.seq (.acts [.unlock]) (.ret [])))) = false := by
  decide
example : okBody (.seq (.acts [.lock]) (.seq (.loop [.rd "count"] (.seq (.acts [.unlock, .wait]) .cont))
    (.seq (.acts [.unlock]) (.ret [])))) = false := by decide
example : okBody (.seq (.acts [.lock]) (.seq (.acts [.wait]) (.seq (.acts [.unlock]) (.ret [])))) = false := by decide

end NV.C19
