/-
C19 driver.  Case lines (shared with harness/c19/c19.c), one real call of the controlling thread each:

  post <producer> <key> <data> | wakeup | wait <max>
  wbegin <max> | wread | wend      ONE wait step by step: until its doorbell read / until the read is done / until it
                                   returns; posts and wake-ups of other threads may come in between
  qnew <cap> <maxmsg> <flags> | enq <producer> <value> <size> | deq <bufsize> | qstat | qclear
  wnew <w> hold|run|race | wstate <w> | wrelease <w> | wstep <w> | wquit <w> | wstop <w> | wjoin <w> <ms> | wdestroy <w>
  tinit | tstart <ms> | tstop | tactive | tsleep <ms> | tticks | tafter | tcleanup
  mt <kind> <n>*        real multi-thread run, deterministic verdict line
  hbrace <ms>           (TSan build only) the real heartbeat_timer_callback on the real timer thread against the
                        real call_heart_beat on this thread
  hbowed                (TSan build only) the real callback runs INSIDE the real call_heart_beat (interposed time()):
                        the tick must still be owed afterwards

`model` prints the events of the model, `judge` parses the implementation's output lines back into events and
applies the specification oracle `judgeEv`.
-/
import NV.Common.Proto
import NV.C19.Run
import NV.C19.Spec

namespace NV.C19

open NV.Proto

def parseCmd (line : String) : Option Cmd :=
  match toks line with
  | ["post", p, k, d] => do some (.post (← p.toNat?) (← k.toNat?) (← d.toNat?))
  | ["wakeup"] => some .wakeup
  | ["wait", m] => do some (.wait (← m.toNat?))
  | ["wbegin", m] => do some (.wbegin (← m.toNat?))
  | ["wread"] => some .wread
  | ["wend"] => some .wend
  | ["qnew", c, m, f] => do some (.qnew (← c.toNat?) (← m.toNat?) (← f.toNat?))
  | ["enq", p, v, sz] => do some (.enq (← p.toNat?) (← v.toNat?) (← sz.toNat?))
  | ["deq", b] => do some (.deq (← b.toNat?))
  | ["qstat"] => some .qstat
  | ["qclear"] => some .qclear
  | ["wnew", w, "hold"] => do some (.wnew (← w.toNat?) .hold)
  | ["wnew", w, "run"] => do some (.wnew (← w.toNat?) .run)
  | ["wnew", w, "race"] => do some (.wnew (← w.toNat?) .race)
  | ["wstate", w] => do some (.wstate (← w.toNat?))
  | ["wrelease", w] => do some (.wrelease (← w.toNat?))
  | ["wstep", w] => do some (.wstep (← w.toNat?))
  | ["wquit", w] => do some (.wquit (← w.toNat?))
  | ["wstop", w] => do some (.wstop (← w.toNat?))
  | ["wjoin", w, t] => do some (.wjoin (← w.toNat?) (← t.toInt?))
  | ["wdestroy", w] => do some (.wdestroy (← w.toNat?))
  | ["tinit"] => some .tinit
  | ["tstart", ms] => do some (.tstart (← ms.toNat?))
  | ["tstop"] => some .tstop
  | ["tactive"] => some .tactive
  | ["tsleep", ms] => do some (.tsleep (← ms.toNat?))
  | ["tticks"] => some .tticks
  | ["tafter"] => some .tafter
  | ["tcleanup"] => some .tcleanup
  | "mt" :: kind :: args => do some (.mt kind (← args.mapM (·.toNat?)))
  | ["hbrace", ms] => do some (.hbrace (← ms.toNat?))
  | ["hbowed"] => some .hbowed
  | _ => none

def parseItem (s : String) : Option Item :=
  match s.splitOn ":" with
  | [k, d] => do some ((← k.toNat?), (← d.toNat?))
  | _ => none

def parseBit (s : String) : Option Bool :=
  if s == "1" then some true else if s == "0" then some false else none

/-- inverse of `render` -/
def parseEv (line : String) : Option Ev :=
  match toks line with
  | ["post", p, k, d, rc] => do some (.post (← p.toNat?) (← k.toNat?) (← d.toNat?) (← rc.toInt?))
  | ["wakeup", rc] => do some (.wakeup (← rc.toInt?))
  | ["wbegin", m, "parked"] => do some (.wbegin (← m.toNat?))
  | ["wread"] => some .wread
  | "wait" :: m :: n :: items => do
    let evs ← items.mapM parseItem
    if evs.length = (← n.toNat?) then some (.wait (← m.toNat?) evs) else none
  | ["qnew", c, m, f, ok] => do
    some (.qnew (← c.toNat?) (← m.toNat?) (← f.toNat?) (← if ok == "ok" then some true else if ok == "null" then some false else none))
  | ["enq", p, v, sz, r] => do
    let r ← match r with | "ok" => some EnqRes.ok | "fail" => some .fail | "blocked" => some .blocked | "crash" => some .crash | _ => none
    some (.enq ⟨← p.toNat?, ← v.toNat?, ← sz.toNat?⟩ r)
  | ["unblocked", p, v] => do some (.unblocked (← p.toNat?) (← v.toNat?))
  | ["deq", b, "none"] => do some (.deq (← b.toNat?) .none)
  | ["deq", b, "crash"] => do some (.deq (← b.toNat?) .crash)
  | ["deq", b, p, v, sz] => do some (.deq (← b.toNat?) (.msg ⟨← p.toNat?, ← v.toNat?, ← sz.toNat?⟩))
  | ["qstat", a, b, c, d, h, t, e, f] => do
    some (.qstat (← a.toNat?) (← b.toNat?) (← c.toNat?) (← d.toNat?) (← h.toNat?) (← t.toNat?) (← parseBit e) (← parseBit f))
  | ["qclear"] => some .qclear
  | ["wnew", w, "ok"] => do some (.wnew (← w.toNat?) false)
  | ["wnew", w, "finished"] => do some (.wnew (← w.toNat?) true)
  | ["wstate", w, "RUNNING"] => do some (.wstate (← w.toNat?) .running)
  | ["wstate", w, "STOPPED"] => do some (.wstate (← w.toNat?) .stopped)
  | ["wrelease", w, "ok"] => do some (.wrelease (← w.toNat?) true)
  | ["wrelease", w, "noop"] => do some (.wrelease (← w.toNat?) false)
  | ["wstep", w, "noop"] => do some (.wstep (← w.toNat?) none)
  | ["wstep", w, "exited"] => do some (.wstep (← w.toNat?) (some true))
  | ["wstep", w, "running"] => do some (.wstep (← w.toNat?) (some false))
  | ["wquit", w, "exited"] => do some (.wquit (← w.toNat?) true)
  | ["wquit", w, "noop"] => do some (.wquit (← w.toNat?) false)
  | ["wstop", w] => do some (.wstop (← w.toNat?))
  | ["wjoin", w, t, "0", sl] => do some (.wjoin (← w.toNat?) (← t.toInt?) .rc0 (← sl.toNat?))
  | ["wjoin", w, t, "1", sl] => do some (.wjoin (← w.toNat?) (← t.toInt?) .rc1 (← sl.toNat?))
  | ["wjoin", w, t, "overran", sl] => do some (.wjoin (← w.toNat?) (← t.toInt?) .overran (← sl.toNat?))
  | ["wdestroy", w, "ok"] => do some (.wdestroy (← w.toNat?) true)
  | ["wdestroy", w, "refused"] => do some (.wdestroy (← w.toNat?) false)
  | ["tinit", rc] => do some (.tinit (← rc.toInt?))
  | ["tstart", ms, rc] => do some (.tstart (← ms.toNat?) (← rc.toInt?))
  | ["tstop", rc, "within"] => do some (.tstop (← rc.toInt?) true)
  | ["tstop", rc, "overran"] => do some (.tstop (← rc.toInt?) false)
  | ["tactive", b] => do some (.tactive (← parseBit b))
  | ["tticks", "some"] => some (.tticks .some)
  | ["tticks", "none"] => some (.tticks .none)
  | ["tticks", "ambiguous"] => some (.tticks .ambiguous)
  | ["tafter", n] => do some (.tafter (← n.toNat?))
  | ["tsleep", ms] => do some (.tsleep (← ms.toNat?))
  | ["tcleanup"] => some .tcleanup
  | "mt" :: kind :: "ok" :: rest => some (.mt kind true (String.intercalate " " rest))
  | "mt" :: kind :: "bad" :: rest => some (.mt kind false (String.intercalate " " rest))
  | ["hbrace", ms, "done"] => do some (.hbrace (← ms.toNat?) true)
  | ["hbrace", ms, "no-tick"] => do some (.hbrace (← ms.toNat?) false)
  | ["hbowed", "kept"] => some (.hbowed true)
  | ["hbowed", "swallowed"] => some (.hbowed false)
  | "race" :: rest => some (.race (String.intercalate " " rest))
  | "skip" :: rest => some (.skip (String.intercalate " " rest))
  | _ => none

def runModel (lines : List String) : List String :=
  let lines := lines.filter (fun l => !(toks l).isEmpty ∧ !l.startsWith "#")
  let parsed := lines.map (fun l => (l, parseCmd l))
  match parsed.filter (·.2.isNone) with
  | [] => (events (parsed.filterMap (·.2))).map render
  | bad => bad.map (fun b => s!"bad-line {b.1}")

def runJudge (body : List String) : List String :=
  let (_input, impl) := splitJudge body
  let impl := impl.filter (fun l => !(toks l).isEmpty)
  let parsed := impl.map (fun l => (l, parseEv l))
  let malformed := (parsed.filter (·.2.isNone)).map (fun b => s!"bad crash-or-malformed {b.1}")
  match malformed ++ (judgeEv (parsed.filterMap (·.2))).map (fun v => s!"bad {v}") with
  | [] => ["ok"]
  | vs => vs

def main (mode : String) : IO Unit :=
  match mode with
  | "model" => serve runModel
  | "judge" => serve runJudge
  | _ => IO.eprintln s!"C19: unknown mode {mode}"

end NV.C19
