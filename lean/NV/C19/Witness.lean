import NV.C19.Model
namespace NV.C19
end NV.C19
