/-
C19 — the code as it was BEFORE the `fix:` commits, and Lean-checked counterexamples of the full statements on it.
These theorems record why the repairs were needed; `./check` replays the same inputs on the real code (boundary
cases `posts-pile-up`, `join-before-running`), and reverting a fix makes those cases fail.
-/
import NV.C19.Sched

namespace NV.C19

/-- `NoLostWakeup .ringFirst`, spelled out here because Props.lean imports nothing from this file -/
def NoLostWakeupRing : Prop :=
  ∀ (progs : List (List POp)) (waits picks : List Nat),
    let s := (RtSys.init progs waits .ringFirst).run picks
    s.cph = .idle → s.rt.ring ≠ [] → s.rt.bell > 0 ∨ ∃ p ∈ s.prods, p.pendingRing = true

end NV.C19

namespace NV.C19.Old

/-! ## event loop: the eventfd COUNTER carried the messages -/

/-- eventfd counter, 64 bit -/
structure Rt where
  counter : Nat := 0
  deriving Repr, DecidableEq

def wrap64 (n : Nat) : Nat := n % 2 ^ 64

/-- `val = (key << 32) | (data & 0xFFFFFFFF); write(event_fd, &val, 8)` — the kernel ADDS val to the counter -/
def Rt.post (s : Rt) (k d : Nat) : Rt := { counter := wrap64 (s.counter + wrap64 ((k <<< 32) ||| (d &&& 0xFFFFFFFF))) }

/-- `val = 1; write(...)` -/
def Rt.wakeup (s : Rt) : Rt := { counter := wrap64 (s.counter + 1) }

/-- `read(event_fd, &val, 8)` returns the sum and resets it; ONE event is decoded from it -/
def Rt.wait (s : Rt) : Rt × List Item :=
  if s.counter = 0 then (s, []) else ({ counter := 0 }, [(s.counter >>> 32, s.counter &&& 0xFFFFFFFF)])

/-- full statement on the old code: whatever is posted between two waits is what the next wait returns -/
def PostsDeliveredFull : Prop :=
  ∀ posts : List Item, ((posts.foldl (fun s it => s.post it.1 it.2) ({} : Rt)).wait).2 = posts

/-- witness (DESIGN.md, confirmed on the real code): two posts with the same key and a wake-up are merged into
    one event with a garbled key and data -/
theorem eventfd_merges_posts :
    (((({} : Rt).post 0x1001 5).post 0x1001 7).wakeup.wait).2 = [(0x2002, 13)] := by decide

theorem not_postsDeliveredFull : ¬ PostsDeliveredFull := by
  intro h
  have := h [(0x1001, 5), (0x1001, 7)]
  revert this
  decide

/-- a post of key 0, data 0 wrote the value 0: it did not even wake the backend -/
theorem eventfd_loses_zero_post : ((({} : Rt).post 0 0).wait).2 = [] := by decide

/-- what did hold on the old code: ONE post between two waits (no wake-up in between), key and data below 2^32
    and not both zero, arrives intact -/
theorem posts_delivered_partial (k d : Nat) (hk : k < 2 ^ 32) (hd : d < 2 ^ 32) (hnz : k ≠ 0 ∨ d ≠ 0) :
    ((({} : Rt).post k d).wait).2 = [(k, d)] := by
  have hand : d &&& 0xFFFFFFFF = d := by
    have : (0xFFFFFFFF : Nat) = 2 ^ 32 - 1 := by decide
    rw [this, Nat.and_two_pow_sub_one_eq_mod, Nat.mod_eq_of_lt hd]
  have hor : (k <<< 32) ||| d = k * 2 ^ 32 + d := by
    rw [← Nat.shiftLeft_add_eq_or_of_lt hd, Nat.shiftLeft_eq]
  have hlt : k * 2 ^ 32 + d < 2 ^ 64 := by
    have : k * 2 ^ 32 ≤ (2 ^ 32 - 1) * 2 ^ 32 := Nat.mul_le_mul_right _ (by omega)
    have h2 : (2 ^ 32 - 1) * 2 ^ 32 + 2 ^ 32 = 2 ^ 64 := by decide
    omega
  have hc : (({} : Rt).post k d).counter = k * 2 ^ 32 + d := by
    simp only [Rt.post, wrap64, hand, hor, Nat.zero_add, Nat.mod_eq_of_lt hlt]
  have hne : k * 2 ^ 32 + d ≠ 0 := by
    rcases hnz with h | h
    · have : 0 < k * 2 ^ 32 := Nat.mul_pos (by omega) (by decide)
      omega
    · omega
  unfold Rt.wait
  rw [hc, if_neg hne]
  have h1 : (k * 2 ^ 32 + d) >>> 32 = k := by
    rw [Nat.shiftRight_eq_div_pow, Nat.mul_comm, Nat.mul_add_div (by decide), Nat.div_eq_of_lt hd, Nat.add_zero]
  have h2 : (k * 2 ^ 32 + d) &&& 0xFFFFFFFF = d := by
    have : (0xFFFFFFFF : Nat) = 2 ^ 32 - 1 := by decide
    rw [this, Nat.and_two_pow_sub_one_eq_mod, Nat.mul_comm, Nat.mul_add_mod, Nat.mod_eq_of_lt hd]
  simp [h1, h2]

/-! ## worker: the state was STOPPED until the new thread stored RUNNING -/

/-- `async_worker_create` as it was: STOPPED stored, then the thread started -/
def prog : List CrAct := [.store .stopped, .spawn]

/-- a join(50) issued right after create returned, before the new thread has run -/
def joinEarly : WSys := WSys.startWith prog 50 [.creator, .creator]

/-- full statement on the old code: the joining thread is inside the untimed `pthread_join` only when the
    worker thread is past the user procedure -/
def TimedJoinBoundedFull : Prop :=
  ∀ acts : List WAct, (joinEarly.run acts).pc = .pjoin → (joinEarly.run acts).w.th = .stored ∨ (joinEarly.run acts).w.th = .exited

/-- witness: the first test of the loop sees STOPPED, the join enters `pthread_join` while the thread has not
    even started -/
theorem join_enters_pthread_join_early :
    (joinEarly.run [.ctl]).pc = .pjoin ∧ (joinEarly.run [.ctl]).w.th = .spawned := by decide

theorem not_timedJoinBoundedFull : ¬ TimedJoinBoundedFull := by
  intro h
  have := h [.ctl] (by decide)
  revert this
  decide

/-- …and there it stays for as long as the user procedure does not return (no stop was signalled, a 50 ms
    timeout notwithstanding): whatever else is scheduled, the join does not come back -/
theorem join_hangs (acts : List WAct) (h : ∀ a ∈ acts, a ≠ .thread true) :
    ((joinEarly.run [.ctl]).run acts).pc = .pjoin := by
  suffices H : ∀ (acts : List WAct) (s : WSys), (∀ a ∈ acts, a ≠ .thread true) → s.pc = .pjoin → s.creator = [] →
      (s.w.th = .spawned ∨ s.w.th = .inproc) → (s.run acts).pc = .pjoin from
    H acts _ h (by decide) (by decide) (by decide)
  intro acts
  induction acts with
  | nil => intro s _ hp _ _; exact hp
  | cons a r ih =>
    intro s hall hp hcr hth
    have hr : ∀ a ∈ r, a ≠ .thread true := fun a ha => hall a (by simp [ha])
    have ha : a ≠ .thread true := hall a (by simp)
    simp only [WSys.run, List.foldl_cons]
    obtain ⟨w, creator, t, pc, work⟩ := s
    simp only at hp hcr hth
    subst hp hcr
    cases a with
    | creator => exact ih _ hr rfl rfl hth
    | stop => exact ih _ hr rfl rfl hth
    | thread b =>
      cases b with
      | true => exact absurd rfl ha
      | false =>
        apply ih _ hr rfl rfl
        rcases hth with h | h <;> simp [WSys.step, Wk.threadStep, h]
    | ctl =>
      have hne : w.th ≠ .exited := by rcases hth with h | h <;> simp [h]
      have : WSys.step ⟨w, [], t, .pjoin, work⟩ .ctl = ⟨w, [], t, .pjoin, work⟩ := by
        simp [WSys.step, Wk.joinStep, hne]
      rw [this]
      exact ih _ hr rfl rfl hth

end NV.C19.Old

/-! ## `async_worker_create` with its RUNNING store BEHIND the `pthread_create` call -/

namespace NV.C19.LateStore

def prog : List CrAct := [.spawn, .store .running]

/-- the creator starts the thread and is preempted; the short-lived worker runs to its end (stores RUNNING, its
    procedure returns, stores STOPPED, exits); then the creator's store arrives -/
def pre : List WAct := [.creator, .thread true, .thread true, .thread true, .thread true, .creator]

/-- witness: the thread is gone, the state says RUNNING -/
theorem state_stuck_running :
    (WSys.startWith prog 50 pre).w.th = .exited ∧ (WSys.startWith prog 50 pre).w.state = .running ∧
    (WSys.startWith prog 50 pre).creator = [] := by decide

/-- …for ever: nobody is left to store anything -/
theorem stuck_forever (acts : List WAct) : ((WSys.startWith prog 50 pre).run acts).w.state = .running := by
  suffices H : ∀ (acts : List WAct) (s : WSys), s.creator = [] → s.w.th = .exited → s.w.state = .running →
      (s.run acts).w.state = .running from H acts _ (by decide) (by decide) (by decide)
  intro acts
  induction acts with
  | nil => intro s _ _ h; exact h
  | cons a r ih =>
    intro s hc hth hst
    simp only [WSys.run, List.foldl_cons]
    obtain ⟨w, creator, t, pc, work⟩ := s
    simp only at hc hth hst
    subst hc
    cases a with
    | creator => exact ih _ rfl hth hst
    | stop => exact ih _ rfl hth hst
    | thread b => exact ih _ rfl (by simp [WSys.step, Wk.threadStep, hth]) (by simp [WSys.step, Wk.threadStep, hth, hst])
    | ctl =>
      apply ih
      · simp only [WSys.step]; split
        · rfl
        · split
          · rfl
          · split <;> rfl
      · simp only [WSys.step]; split
        · exact hth
        · split
          · exact hth
          · split <;> exact hth
      · simp only [WSys.step]; split
        · exact hst
        · split
          · exact hst
          · split <;> exact hst

/-- so a timed join on the finished worker runs to its timeout and returns false -/
theorem join_times_out :
    ((WSys.startWith prog 50 pre).run [.ctl, .ctl, .ctl, .ctl, .ctl, .ctl]).pc = .done false := by decide

/-- the full statement (`state_eventually_stopped_after_proc_returns`) is false for this order -/
theorem not_stateStopped :
    ¬ (∀ (t : Nat) (pre acts : List WAct),
        (((WSys.startWith prog t pre).run acts).w.th = .stored ∨ ((WSys.startWith prog t pre).run acts).w.th = .exited) →
        ((WSys.startWith prog t pre).run acts).w.state = .stopped) := by
  intro h
  have := h 50 pre [] (by decide)
  revert this
  decide

end NV.C19.LateStore

/-! ## the "optimised" order inside `async_runtime_wait`: drain the ring first, reset the doorbell afterwards -/

namespace NV.C19.Swapped

/-- two producers, the backend makes two waits; scheduler choices: 0, 1 = producers, 2 = backend -/
def sys : RtSys := RtSys.init [[.post 1 1], [.post 2 2]] [8, 8] .ringFirst

/-- producer 0 posts (push, ring); the backend wakes up, takes the ring (emptied), unlocks; NOW producer 1 posts
    (push, ring); the backend resets the doorbell -/
def picks : List Nat := [0, 0, 2, 2, 2, 1, 1, 2]

/-- witness: every post has returned, the second completion sits in the ring, the doorbell counter is 0 -/
theorem wakeup_erased :
    (sys.run picks).cph = .idle ∧ (sys.run picks).rt = { bell := 0, ring := [(2, 2)] } ∧
    (sys.run picks).prods = [{ todo := [] }, { todo := [] }] := by decide

/-- …so the next wait goes to sleep (returns nothing) although a completion was posted before it was called,
    and nothing will wake it until something unrelated rings the doorbell -/
theorem next_wait_sleeps :
    (sys.run (picks ++ [2])).delivered = [[(1, 1)], []] ∧ (sys.run (picks ++ [2])).rt.ring = [(2, 2)] := by decide

/-- the full statement is false for this order -/
theorem not_noLostWakeup : ¬ NoLostWakeupRing := by
  intro h
  have := h [[.post 1 1], [.post 2 2]] [8, 8] picks (by decide) (by decide)
  revert this
  decide

end NV.C19.Swapped
