/-
C15 — helper lemmas for the property theorems (NV/C15/Props.lean).
-/
import NV.C15.Model
import NV.C15.Spec

namespace NV.C15

/-! ### components -/

theorem comps_ne_nil (p : CStr) : comps p ≠ [] := by
  cases p with
  | nil => simp [comps]
  | cons c r =>
    unfold comps
    split
    · simp
    · split <;> simp

theorem comps_slash (r : CStr) : comps ('/' :: r) = [] :: comps r := by
  simp [comps]

theorem comps_cons_ne {c : Char} (hc : c ≠ '/') (r : CStr) :
    ∃ h t, comps r = h :: t ∧ comps (c :: r) = (c :: h) :: t := by
  cases hr : comps r with
  | nil => exact absurd hr (comps_ne_nil r)
  | cons h t => exact ⟨h, t, rfl, by simp [comps, hc, hr]⟩

theorem comps_tail_cons_ne {c : Char} (hc : c ≠ '/') (r : CStr) :
    (comps (c :: r)).tail = (comps r).tail := by
  obtain ⟨h, t, h1, h2⟩ := comps_cons_ne hc r
  rw [h1, h2]; rfl

/-! ### okComps -/

theorem okComps_cons {x : CStr} {xs : List CStr} (h : xs ≠ []) :
    okComps (x :: xs) = (decide (x ≠ dotdot) && decide (x ≠ dot) && okComps xs) := by
  cases xs with
  | nil => exact absurd rfl h
  | cons y ys => simp [okComps]

theorem okComps_skip {x : CStr} (xs : List CStr) (h1 : x ≠ dot) (h2 : x ≠ dotdot) :
    okComps (x :: xs) = okComps xs := by
  cases xs with
  | nil => simp [okComps, h2]
  | cons y ys => simp [okComps, h1, h2]

/-- a string whose first component is neither "." nor ".." -/
theorem okComps_comps_skip (p : CStr) (h1 : (comps p).head? ≠ some dot) (h2 : (comps p).head? ≠ some dotdot) :
    okComps (comps p) = okComps (comps p).tail := by
  cases h : comps p with
  | nil => rfl
  | cons x xs =>
    rw [h] at h1 h2
    simp at h1 h2
    exact okComps_skip xs h1 h2

theorem okComps_iff (cs : List CStr) :
    okComps cs = true ↔ (∀ c ∈ cs, c ≠ dotdot) ∧ (∀ c ∈ cs.dropLast, c ≠ dot) := by
  induction cs with
  | nil => simp [okComps]
  | cons x xs ih =>
    cases xs with
    | nil => simp [okComps]
    | cons y ys =>
      rw [okComps_cons (by simp), List.dropLast_cons_cons]
      simp only [Bool.and_eq_true, decide_eq_true_eq, ih, List.mem_cons, forall_eq_or_imp]
      constructor
      · rintro ⟨⟨a, b⟩, c, d⟩; exact ⟨⟨a, c⟩, b, d⟩
      · rintro ⟨⟨a, c⟩, b, d⟩; exact ⟨⟨a, b⟩, c, d⟩

/-! ### strstr hopping -/

theorem nextDot_length {p q : CStr} (h : nextDot p = some q) : q.length < p.length := by
  induction p with
  | nil => simp [nextDot] at h
  | cons c r ih =>
    unfold nextDot at h
    split at h
    · cases h; simp
    · have := ih h; simp; omega

/-- what the components after the first one look like from the point of view of the "/." search -/
theorem okComps_tail_nextDot (p : CStr) :
    okComps (comps p).tail = (match nextDot p with
      | none => true
      | some q => okComps (comps q)) := by
  induction p with
  | nil => simp [comps, nextDot, okComps]
  | cons c r ih =>
    unfold nextDot
    by_cases hc : c = '/'
    · subst hc
      rw [comps_slash]
      by_cases hd : r.head? = some '.'
      · simp [hd]
      · simp only [hd, and_false, ↓reduceIte, List.tail_cons]
        rw [← ih]
        apply okComps_comps_skip
        · cases r with
          | nil => simp [comps, dot]
          | cons d r' =>
            simp at hd
            by_cases hs : d = '/'
            · subst hs; rw [comps_slash]; simp [dot]
            · obtain ⟨h, t, _, h2⟩ := comps_cons_ne hs r'
              rw [h2]; simp [dot]; intro h; exact absurd h hd
        · cases r with
          | nil => simp [comps, dotdot]
          | cons d r' =>
            simp at hd
            by_cases hs : d = '/'
            · subst hs; rw [comps_slash]; simp [dotdot]
            · obtain ⟨h, t, _, h2⟩ := comps_cons_ne hs r'
              rw [h2]; simp [dotdot]; intro h; exact absurd h hd
    · simp only [hc, false_and, ↓reduceIte]
      rw [comps_tail_cons_ne hc, ih]

/-- the search-and-continue tail of one loop iteration -/
theorem hop_eq (n : Nat) (p' : CStr)
    (ih : ∀ q : CStr, q.length < p'.length → legalLoop n q = okComps (comps q)) :
    (match nextDot p' with
      | none => true
      | some q => legalLoop n q) = okComps (comps p').tail := by
  rw [okComps_tail_nextDot]
  cases h : nextDot p' with
  | none => rfl
  | some q => simp only []; exact ih q (nextDot_length h)

/-- the loop of `legal_path` computes the component specification (for every string, any sufficient fuel) -/
theorem legalLoop_eq (n : Nat) : ∀ p : CStr, p.length < n → legalLoop n p = okComps (comps p) := by
  induction n with
  | zero => intro p h; omega
  | succ n ih =>
    intro p hp
    have ih' : ∀ p' : CStr, p'.length ≤ p.length →
        ∀ q : CStr, q.length < p'.length → legalLoop n q = okComps (comps q) :=
      fun p' h1 q h2 => ih q (by omega)
    unfold legalLoop
    match p with
    | [] => simp [legalStep, nextDot, comps, okComps, dotdot]
    | c0 :: r0 =>
      by_cases h0 : c0 = '.'
      · subst h0
        match r0 with
        | [] => simp [legalStep, comps, okComps, dotdot]
        | c1 :: r1 =>
          by_cases h1 : c1 = '.'
          · subst h1
            match r1 with
            | [] => simp [legalStep, comps, okComps, dotdot]
            | c2 :: r2 =>
              by_cases h2 : c2 = '/'
              · subst h2
                have : comps ('.' :: '.' :: '/' :: r2) = dotdot :: comps r2 := by
                  simp [comps, dotdot]
                simp only [legalStep, ne_eq, not_true_eq_false, ↓reduceIte, this]
                rw [okComps_cons (comps_ne_nil r2)]; simp
              · simp only [legalStep, ne_eq, not_true_eq_false, ↓reduceIte, h2]
                refine Eq.trans (hop_eq n _ (ih' _ (by simp))) ?_
                have e1 : (comps ('.' :: '.' :: c2 :: r2)).tail = (comps ('.' :: c2 :: r2)).tail :=
                  comps_tail_cons_ne (by decide) _
                rw [← e1]
                symm
                obtain ⟨h, t, _, e2⟩ := comps_cons_ne h2 r2
                obtain ⟨h', t', e3, e4⟩ := comps_cons_ne (c := '.') (by decide) (c2 :: r2)
                obtain ⟨h'', t'', e5, e6⟩ := comps_cons_ne (c := '.') (by decide) ('.' :: c2 :: r2)
                apply okComps_comps_skip
                · rw [e6]; rw [e4] at e5; cases e5; simp [dot]
                · rw [e6]; rw [e4] at e5; cases e5; rw [e2] at e3; cases e3; simp [dotdot]
          · by_cases h1s : c1 = '/'
            · subst h1s
              have : comps ('.' :: '/' :: r1) = dot :: comps r1 := by
                simp [comps, dot]
              simp only [legalStep, ne_eq, not_true_eq_false, ↓reduceIte, h1, this]
              rw [okComps_cons (comps_ne_nil r1)]; simp
            · simp only [legalStep, ne_eq, not_true_eq_false, ↓reduceIte, h1, h1s]
              refine Eq.trans (hop_eq n _ (ih' _ (by simp))) ?_
              symm
              obtain ⟨h, t, _, e2⟩ := comps_cons_ne h1s r1
              obtain ⟨h', t', e3, e4⟩ := comps_cons_ne (c := '.') (by decide) (c1 :: r1)
              apply okComps_comps_skip
              · rw [e4]; rw [e2] at e3; cases e3; simp [dot]
              · rw [e4]; rw [e2] at e3; cases e3; simp [dotdot, h1]
      · simp only [legalStep, ne_eq, h0, not_false_eq_true, ↓reduceIte]
        refine Eq.trans (hop_eq n _ (ih' _ (by simp))) ?_
        symm
        apply okComps_comps_skip
        · by_cases hs : c0 = '/'
          · subst hs; rw [comps_slash]; simp [dot]
          · obtain ⟨h, t, _, e⟩ := comps_cons_ne hs r0
            rw [e]; simp [dot]; intro h; exact absurd h h0
        · by_cases hs : c0 = '/'
          · subst hs; rw [comps_slash]; simp [dotdot]
          · obtain ⟨h, t, _, e⟩ := comps_cons_ne hs r0
            rw [e]; simp [dotdot]; intro h; exact absurd h h0

end NV.C15
