/-
C15 — theorem audit: the oracle REJECTS what it should reject (negative examples per clause of `judgeStep`),
and definitions that were totalised do not make a theorem true for the wrong reason.
-/
import NV.C15.PropsSys

namespace NV.C15

/-! ### `legalLoop`'s fuel: the `0 ⇒ true` default is never reached from `legalPath` -/

theorem legalLoop_fuel_irrelevant (n m : Nat) (p : CStr) (hn : p.length < n) (hm : p.length < m) :
    legalLoop n p = legalLoop m p := by
  rw [legalLoop_eq n p hn, legalLoop_eq m p hm]

/-- with too little fuel the default WOULD matter (so the fuel bound of `legalPath` is essential) -/
example : legalLoop 1 (str "a/..") = true ∧ legalPath (str "a/..") = false := by decide

/-! ### clause `lp` -/
example : judgeEv [.lp (str "a/..") true] = [⟨"legal-accepts-unsafe", "[a/..]"⟩] := by decide
example : judgeEv [.lp (str "/a") true] ≠ [] := by decide
example : judgeEv [.lp (str "a/./b") true] ≠ [] := by decide          -- "." in the middle
example : judgeEv [.lp (str "a#b") true] ≠ [] := by decide
example : judgeEv [.lp (str "a/b") false] ≠ [] := by decide          -- too strict is also a difference
example : judgeEv [.lp (str "a/.") false] ≠ [] := by decide

/-! ### clause `cvp` -/
example : judgeEv [.cvp .ok (str "/../x") (some (str "../x"))] ≠ [] := by decide             -- unsafe result
example : judgeEv [.cvp .ok (str "/d/f") (some (str "d/g"))] ≠ [] := by decide               -- not the approved path
example : judgeEv [.cvp .ok (str "//d") (some (str "d"))] ≠ [] := by decide                  -- two slashes stripped
example : judgeEv [.cvp .deny (str "/d/f") (some (str "d/f"))] ≠ [] := by decide             -- denial ignored
example : judgeEv [.cvp .raise (str "/d/f") (some (str "d/f"))] ≠ [] := by decide            -- error ignored
example : judgeEv [.cvp (.rewrite (str "/x")) (str "/d/f") (some (str "d/f"))] ≠ [] := by decide   -- rewrite ignored
example : judgeEv [.cvp .ok (str "/d/f") none] ≠ [] := by decide                             -- refused although approved

/-! ### clauses `sn`, `inc` -/
example : judgeEv [.sn (str "//a") (some (str "/a"))] ≠ [] := by decide
example : judgeEv [.inc (str "x.c") (str "..") (str "..") [str ".."]] ≠ [] := by decide
example : judgeEv [.inc (str "t/x.c") (str "a") (str "t/a") [str "t/a", str "/a"]] ≠ [] := by decide

/-! ### clause `valid`: operation name and caller -/
example : judgeEv [.call "rm" whoObj [str "/d/f"], .valid true (str "/d/f") whoObj "read_file" .ok] ≠ [] := by decide
example : judgeEv [.call "rm" whoObj [str "/d/f"], .valid true (str "/d/f") "/other" "remove_file" .ok] ≠ [] := by
  decide

/-! ### clause `fs` -/
/-- absolute -/
example : judgeEv [.call "rm" whoObj [str "//etc/x"], .valid true (str "//etc/x") whoObj "remove_file" .ok,
                   .fs "unlink" true (str "/etc/x")] ≠ [] := by decide
/-- ".." -/
example : judgeEv [.call "rm" whoObj [str "/d/../x"], .valid true (str "/d/../x") whoObj "remove_file" .ok,
                   .fs "unlink" true (str "d/../x")] ≠ [] := by decide
/-- approved for reading, modified -/
example : judgeEv [.call "write_file" whoObj [str "/d/f"], .valid false (str "/d/f") whoObj "write_file" .ok,
                   .fs "fopen" true (str "d/f")] ≠ [] := by decide
/-- approved for writing, contents read (only `stat` may use a write approval) -/
example : judgeEv [.call "read_file" whoObj [str "/d/f"], .valid true (str "/d/f") whoObj "read_file" .ok,
                   .fs "open" false (str "d/f")] ≠ [] := by decide
/-- another path than the approved one -/
example : judgeEv [.call "rm" whoObj [str "/d/f"], .valid true (str "/d/f") whoObj "remove_file" .ok,
                   .fs "unlink" true (str "d/g")] ≠ [] := by decide
/-- the master rewrote the path, the original is touched -/
example : judgeEv [.call "rm" whoObj [str "/d/f"], .valid true (str "/d/f") whoObj "remove_file" (.rewrite (str "/a/a")),
                   .fs "unlink" true (str "d/f")] ≠ [] := by decide
/-- grandchild of an approved directory is not "derived" -/
example : judgeEv [.call "cp" whoObj [str "/a", str "/d"], .valid false (str "/a") whoObj "cp" .ok,
                   .valid true (str "/d") whoObj "cp" .ok, .fs "open" true (str "d/x/y")] ≠ [] := by decide
/-- a child named ".." is not accepted -/
example : judgeEv [.call "cp" whoObj [str "/a", str "/d"], .valid true (str "/d") whoObj "cp" .ok,
                   .fs "open" true (str "d/..")] ≠ [] := by decide
/-- the derivations are per libc function: `rm (file)` may not remove the parent directory, `rmdir (dir)` may not
    unlink a child, `write_file` may not open "<path>.tmp", a read may not strip trailing slashes -/
example : judgeEv [.call "rm" whoObj [str "/d/f"], .valid true (str "/d/f") whoObj "remove_file" .ok,
                   .fs "rmdir" true (str "d")] ≠ [] := by decide
example : judgeEv [.call "rm" whoObj [str "/d/f"], .valid true (str "/d/f") whoObj "remove_file" .ok,
                   .fs "unlink" true (str "d")] ≠ [] := by decide
example : judgeEv [.call "rmdir" whoObj [str "/d"], .valid true (str "/d") whoObj "rmdir" .ok,
                   .fs "unlink" true (str "d/f")] ≠ [] := by decide
example : judgeEv [.call "mkdir" whoObj [str "/d"], .valid true (str "/d") whoObj "mkdir" .ok,
                   .fs "mkdir" true (str "d/x")] ≠ [] := by decide
example : judgeEv [.call "read_file" whoObj [str "/d/"], .valid false (str "/d/") whoObj "read_file" .ok,
                   .fs "open" false (str "d")] ≠ [] := by decide
/-- an approval does not carry over to the next efun call -/
example : judgeEv [.call "rm" whoObj [str "/d/f"], .valid true (str "/d/f") whoObj "remove_file" .ok,
                   .call "rm" whoObj [str "/d/f"], .fs "unlink" true (str "d/f")] ≠ [] := by decide
/-- the touch comes BEFORE the consultation -/
example : judgeEv [.call "rm" whoObj [str "/d/f"], .fs "unlink" true (str "d/f"),
                   .valid true (str "/d/f") whoObj "remove_file" .ok] ≠ [] := by decide
/-- an approval of an illegal path licenses nothing -/
example : judgeEv [.call "rm" whoObj [str "/d/./f"], .valid true (str "/d/./f") whoObj "remove_file" .ok,
                   .fs "unlink" true (str "d/./f")] ≠ [] := by decide
/-- compiler calls and the master-less mode still demand confinement -/
example : judgeEv [.call "include" "-" [str "x.c", str ".."], .fs "open" false (str "..")] ≠ [] := by decide
example : judgeEv [.call "load" "-" [str "../x"], .fs "stat" false (str "../x.c")] ≠ [] := by decide
example : judgeEv [.mode true, .call "rm" whoObj [str "/../x"], .fs "unlink" true (str "../x")] ≠ [] := by decide
example : judgeEv [.mode true, .call "rm" whoObj [str "//x"], .fs "unlink" true (str "/x")] ≠ [] := by decide
/-- …and with a master that HAS the functions the master-less leniency does not apply -/
example : judgeEv [.mode false, .call "rm" whoObj [str "/d/f"], .fs "unlink" true (str "d/f")] ≠ [] := by decide

end NV.C15
