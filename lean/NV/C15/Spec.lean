/-
C15 — specification side.  Knows nothing about `strstr` hopping, fuel or buffers:

* a path is a sequence of COMPONENTS (split on '/');
* a path is SAFE when it is not absolute and no component is "..";
* `specLegal` is the exact set of strings `legal_path` is supposed to accept
  (safe, no '#', a "." component only in last position);
* the oracle `judgeEv` decides on a trace of events (unit-style answers of the pure functions and
  system-style traces "efun call / master consultations / libc file calls") whether C15 held.
-/
import NV.C15.Model

namespace NV.C15

/-! ### components -/

/-- split on '/'; never empty (`comps "" = [""]`) -/
def comps : CStr → List CStr
  | [] => [[]]
  | c :: r =>
    if c = '/' then [] :: comps r
    else match comps r with
      | [] => [[c]]
      | h :: t => (c :: h) :: t

def dotdot : CStr := ['.', '.']
def dot : CStr := ['.']

def absolute (s : CStr) : Bool := s.head? = some '/'

/-- not absolute on the host and no ".." component: cannot name anything above the directory it is
    resolved in (symbolic links aside) -/
def safe (s : CStr) : Bool := !absolute s && (comps s).all (· ≠ dotdot)

/-- no ".." component; "." only as the last component -/
def okComps : List CStr → Bool
  | [] => true
  | [c] => c ≠ dotdot
  | c :: cs => c ≠ dotdot && c ≠ dot && okComps cs

/-- the specification of `legal_path` -/
def specLegal (s : CStr) : Bool := !absolute s && !('#' ∈ s) && okComps (comps s)

/-- the specification of `check_valid_path`: the master's answer (or the argument) minus one leading
    slash, "" read as ".", accepted iff `specLegal` -/
def specAnswer (v : Verdict) (path : CStr) : Option CStr :=
  match v with
  | .deny => none
  | .raise => none            -- an error is no approval
  | .ok => some path
  | .odd _ => some path       -- as coded: anything but the integer 0 approves
  | .absent => some path      -- as coded: a master without the function approves everything
  | .rewrite s => some s

def specCheck (v : Verdict) (path : CStr) : Option CStr :=
  match specAnswer v path with
  | none => none
  | some a =>
    let r := stripOneSlash a
    let r := if r = [] then dot else r
    if specLegal r then some r else none

/-! ### master policies of the verification mudlib -/

inductive Policy where
  | deny                    -- valid_read/valid_write return 0
  | allow                   -- return 1
  | echo                    -- return the path argument itself (as a string)
  | fixed (s : CStr)        -- return this string whatever was asked
  | raise                   -- valid_read/valid_write raise an error for every path
  | raiseOn (s : CStr)      -- raise an error for exactly this path argument, return 1 otherwise
  | odd (what : String)     -- return an array / float / object / negative int …
  | readOnly                -- valid_read returns 1, valid_write returns 0
  | writeOnly               -- valid_read returns 0, valid_write returns 1
  | roPath (s : CStr)       -- everything allowed, except writing to exactly this path argument
  | nested (g : String) (p : CStr) (thn : Policy)
                            -- RE-ENTRANT master: valid_read / valid_write first call the file efun `g` on the path
                            -- `p` themselves (consult an access list, log the request …), then answer like `thn`
  deriving Repr, DecidableEq

/-- the master's answer to valid_write (`w = true`) / valid_read for `path` -/
def Policy.verdict (p : Policy) (w : Bool) (path : CStr) : Verdict :=
  match p with
  | .deny => .deny
  | .allow => .ok
  | .echo => .rewrite path
  | .fixed s => .rewrite s
  | .raise => .raise
  | .raiseOn s => if path = s then .raise else .ok
  | .odd x => .odd x
  | .readOnly => if w then .deny else .ok
  | .writeOnly => if w then .ok else .deny
  | .roPath s => if w ∧ path = s then .deny else .ok
  | .nested _ _ thn => thn.verdict w path

/-! ### events -/

/-- events of a NESTED file efun call: one made by the master object from inside valid_read / valid_write while an
    outer efun waits for the verdict.  `whoOk`: the master was asked in the name of the nested caller. -/
inductive NEv where
  | valid (w : Bool) (path : CStr) (whoOk : Bool) (op : String) (v : Verdict)
  | fs (fn : String) (w : Bool) (path : CStr)
  | note (s : String)
  deriving Repr, DecidableEq

inductive Ev where
  /-- unit style: `legal_path (s)` returned `v` -/
  | lp (s : CStr) (v : Bool)
  /-- unit style: `check_valid_path (s, …)` under verdict `v` returned `r` -/
  | cvp (v : Verdict) (s : CStr) (r : Option CStr)
  /-- unit style: `strip_name (s)` -/
  | sn (s : CStr) (r : Option CStr)
  /-- unit style: `inc_lexically_normal (base, name)` gave `normal`; `inc_open` would try `tries` -/
  | inc (base name normal : CStr) (tries : List CStr)
  /-- unit style: `set_inc_list (list)` stored these entries (`none` = slot dropped) -/
  | il (list : CStr) (entries : List (Option CStr))
  /-- system style: object `who` calls a file efun (or a compile is started: `efun = "load"`) -/
  | call (efun : String) (who : String) (args : List CStr)
  /-- the master was asked `valid_write` (`w`) / `valid_read` and answered `v` -/
  | valid (w : Bool) (path : CStr) (who : String) (op : String) (v : Verdict)
  /-- a libc file function was called with this path (`w` = modifies / opens for writing) -/
  | fs (fn : String) (w : Bool) (path : CStr)
  /-- the master object of this run does not define valid_read / valid_write at all (`true`): as coded the
      driver then treats every path as approved and there is nothing to log -/
  | mode (masterAbsent : Bool)
  /-- the editor asked the master where to save the buffer of a user who went net-dead
      (get_save_file_name (stored name)) and was told `name` -/
  | edsave (stored : CStr) (name : CStr)
  /-- a nested efun call `g (args)` by `who` (the master, inside a consultation) with everything it did; it has
      its OWN approvals: nothing it was granted licenses the outer call and vice versa -/
  | nest (g : String) (who : String) (args : List CStr) (inner : List NEv)
  /-- anything else (not judged) -/
  | note (s : String)
  deriving Repr, DecidableEq

structure Violation where
  kind : String
  detail : String
  deriving Repr, DecidableEq

/-! ### which touched path is "the approved path" -/

/-- `do_rename`: trailing slashes of the source are dropped (at least one character stays) -/
def stripTrailSlash (a : CStr) : CStr :=
  match (a.reverse.dropWhile (· = '/')).reverse with
  | [] => a.take 1
  | r => r

/-- directory part ("." when there is no slash) -/
def parentDir (a : CStr) : CStr :=
  if '/' ∈ a then (a.reverse.dropWhile (· ≠ '/')).drop 1 |>.reverse else dot

/-- `get_dir`: a trailing "/" or "/." is removed -/
def listDir (a : CStr) : CStr :=
  if a.length < 2 then a
  else
    let last := (a.reverse.takeWhile (· ≠ '/')).reverse
    if '/' ∈ a ∧ (last = [] ∨ last = dot) then (a.reverse.dropWhile (· ≠ '/')).drop 1 |>.reverse else a

/-- `p` is `a` plus exactly one further component that is not ".." (`to` is a directory: `to/<base>`;
    entries of a listed directory) -/
def childOf (a p : CStr) : Bool :=
  let pre := a ++ ['/']
  p.take pre.length == pre &&
    (let x := p.drop pre.length; !('/' ∈ x) && x ≠ dotdot)

/-- the path `p` handed to the libc function `fn` is the approved path `a` itself, or one of the few paths the
    efuns derive from it — each derivation only for the libc calls that use it:
    * `rename` / `symlink` source: trailing slashes dropped;
    * `stat` / `opendir` (`get_dir`): a trailing "/" or "/." removed; `opendir` also of its directory when the last
      component is a pattern;
    * `open` / `rename-to` / `symlink-to` (`cp`, `rename`, `link` INTO a directory): a direct child that is not "..";
    * `stat-entry` (a `stat` issued while the directory stream of `get_dir (path, -1)` is open): a direct child,
      not "..", of the listed directory (the approved path or, for a pattern, its directory part);
    * `fopen` / `rename` / `unlink` (`save_object`): the temporary file `%.250s.tmp`.
    So e.g. `rm (file)` may not unlink the parent directory or a child of an approved directory. -/
def covers (fn : String) (a p : CStr) : Bool :=
  p == a ||
  ((fn == "rename" || fn == "symlink") && p == stripTrailSlash a) ||
  ((fn == "stat" || fn == "opendir") && p == listDir a) ||
  (fn == "opendir" && p == parentDir (listDir a)) ||
  ((fn == "open" || fn == "rename-to" || fn == "symlink-to") && childOf a p) ||
  (fn == "stat-entry" && (childOf (listDir a) p || childOf (parentDir (listDir a)) p)) ||
  ((fn == "fopen" || fn == "rename" || fn == "unlink") && p == a.take 250 ++ str ".tmp")

/-- operation name each efun has to present to the master -/
def opNames : List (String × List String) := [
  ("read_file", ["read_file"]), ("write_file", ["write_file"]), ("rm", ["remove_file"]),
  ("mkdir", ["mkdir"]), ("rmdir", ["rmdir"]), ("file_size", ["file_size"]), ("file_length", ["file_size"]),
  ("tail", ["tail"]), ("read_bytes", ["read_bytes"]), ("read_buffer", ["read_bytes"]),
  ("write_bytes", ["write_bytes"]), ("write_buffer", ["write_bytes"]), ("stat", ["stat"]),
  ("get_dir", ["stat"]), ("get_dir1", ["stat"]), ("stat1", ["stat"]), ("rename", ["rename", "file_size"]), ("link", ["rename", "file_size"]),
  ("cp", ["cp"]), ("save_object", ["save_object"]), ("restore_object", ["restore_object"]),
  ("dumpallobj", ["dumpallobj"]), ("dump_prog", ["dumpallobj"]), ("ed", ["ed_start"])]


/-- efuns whose file access is NOT mediated by valid_read/valid_write (compiler: load_object, #include,
    inherit; "binary": a load with SaveBinaryDir configured and `#pragma save_binary`, where the harness prints
    only the libc calls on unsafe paths): only confinement is required of them -/
def compileCalls : List String := ["load", "include", "inherit", "binary"]

structure Approval where
  w : Bool
  path : CStr          -- after removing one leading slash / "" ↦ "."
  deriving Repr, DecidableEq

structure JState where
  efun : String := ""
  who : String := ""
  approvals : List Approval := []
  absent : Bool := false          -- the master has no valid_read / valid_write (see `Ev.mode`)
  bad : List Violation := []      -- newest first
  deriving Repr

def JState.flag (s : JState) (k d : String) : JState := { s with bad := ⟨k, d⟩ :: s.bad }

def showP (p : CStr) : String := "[" ++ unstr p ++ "]"

def showO : Option CStr → String
  | none => "none"
  | some p => showP p

/-- the approval a verdict amounts to -/
def approvalOf (w : Bool) (v : Verdict) (path : CStr) : Option Approval :=
  match specAnswer v path with
  | none => none
  | some a =>
    let r := stripOneSlash a
    some { w := w, path := if r = [] then dot else r }

/-- approval `a` licenses the libc call `fn` (modifying iff `w`) on path `p`: the approved path is legal,
    `p` is that path (or directly derived from it), and the kind fits — a modifying call needs a
    `valid_write` approval, a reading call a `valid_read` one; `stat` (existence / type probe) is also
    accepted on a path approved for writing. -/
def okBy (fn : String) (w : Bool) (p : CStr) (a : Approval) : Bool :=
  specLegal a.path && covers fn a.path p && (if w then a.w else (!a.w || fn == "stat"))

/-- is `op` an operation name the efun `g` may present to the master? -/
def opAllowed (g op : String) : Bool :=
  match opNames.find? (·.1 == g) with
  | some (_, ops) => ops.contains op
  | none => true

/-- the oracle for a nested call: the same demands as for a top-level one, with its own set of approvals -/
def nestStep (g : String) (st : List Approval × List Violation) (e : NEv) : List Approval × List Violation :=
  match e with
  | .valid w path whoOk op v =>
    let bad := if opAllowed g op then st.2 else ⟨"wrong-op", s!"nested {g} asked the master as {op}"⟩ :: st.2
    let bad := if whoOk then bad else ⟨"wrong-caller", s!"nested {g} asked the master in another object's name"⟩ :: bad
    match approvalOf w v path with
    | none => (st.1, bad)
    | some a => (a :: st.1, bad)
  | .fs fn w p =>
    let bad := if absolute p then ⟨"fs-absolute", s!"nested {g}: {fn} {showP p}"⟩ :: st.2
      else if !safe p then ⟨"fs-dotdot", s!"nested {g}: {fn} {showP p}"⟩ :: st.2
      else st.2
    if st.1.any (okBy fn w p) then (st.1, bad)
    else (st.1, ⟨"fs-unmediated", s!"nested {g}: {fn} {if w then "w" else "r"} {showP p} without a matching approval"⟩ :: bad)
  | .note _ => st

def judgeNest (g : String) (inner : List NEv) : List Violation :=
  (inner.foldl (nestStep g) ([], [])).2

/-- a stored include directory that is empty, absolute or has a ".." component -/
def badIncEntry : Option CStr → Bool
  | some d => !safe d || d = []
  | none => false

def judgeStep (s : JState) (e : Ev) : JState :=
  match e with
  | .lp p v =>
    if v = specLegal p then s
    else if v && !safe p then s.flag "legal-accepts-unsafe" (showP p)
    else s.flag "legal-differs" s!"{showP p} impl={v} spec={specLegal p}"
  | .cvp v p r =>
    match r with
    | some q =>
      if !safe q then s.flag "cvp-unsafe" s!"{showP p} -> {showP q}"
      else if specCheck v p = r then s else s.flag "cvp-differs" s!"{showP p} -> {showO r} spec={showO (specCheck v p)}"
    | none => if specCheck v p = none then s else s.flag "cvp-differs" s!"{showP p} -> none spec={showO (specCheck v p)}"
  | .sn p r =>
    match r with
    | some q => if absolute q then s.flag "strip-absolute" s!"{showP p} -> {showP q}" else s
    | none => s
  | .inc base name _ tries =>
    match tries.find? (fun t => !safe t) with
    | some t => if safe base then s.flag "include-escapes" s!"base={showP base} name={showP name} opens {showP t}" else s
    | none => s
  | .il list entries =>
    match entries.find? badIncEntry with
    | some e => s.flag "incdir-unsafe" s!"{showP list} stores {showO e}"
    | none => s
  | .call f who _ => { s with efun := f, who := who, approvals := [] }
  | .valid w path who op v =>
    let s := if compileCalls.contains s.efun then s
      else match opNames.find? (·.1 == s.efun) with
        | some (_, ops) => if ops.contains op then s else s.flag "wrong-op" s!"{s.efun} asked the master as {op}"
        | none => s
    let s := if who == s.who || compileCalls.contains s.efun then s
      else s.flag "wrong-caller" s!"{s.efun} by {s.who} asked the master as {who}"
    match approvalOf w v path with
    | none => s
    | some a => { s with approvals := a :: s.approvals }
  | .fs fn w p =>
    let s := if absolute p then s.flag "fs-absolute" s!"{s.efun}: {fn} {showP p}"
      else if !safe p then
        (if fn == "stat" && s.efun ∈ compileCalls then s.flag "load-probe-dotdot" s!"{s.efun}: stat {showP p}"
         else s.flag "fs-dotdot" s!"{s.efun}: {fn} {showP p}")
      else s
    if compileCalls.contains s.efun || s.absent then s      -- only confinement can be required
    else
      if s.approvals.any (okBy fn w p) then s
      else s.flag "fs-unmediated" s!"{s.efun}: {fn} {if w then "w" else "r"} {showP p} without a matching approval"
  | .mode b => { s with absent := b }
  | .nest g _ _ inner => { s with bad := judgeNest g inner ++ s.bad }
  | .edsave _ name =>
    -- the approving authority named the file itself: that counts as a write approval of exactly that path (one
    -- leading slash removed); like every approval it licenses nothing unless the path is legal
    if s.efun == "ed" then { s with approvals := ⟨true, stripOneSlash name⟩ :: s.approvals }
    else s.flag "edsave-outside-ed" s!"{s.efun}: save name {showP name}"
  | .note _ => s

def judgeEv (evs : List Ev) : List Violation :=
  (evs.foldl judgeStep {}).bad.reverse

end NV.C15
