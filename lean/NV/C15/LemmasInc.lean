/-
C15 — lemmas about the fallback of inc_open (`sprintf (buf, "%s/%s", inc_list[i], name)`) and strip_name.
-/
import NV.C15.Lemmas

namespace NV.C15

theorem comps_append_slash (d name : CStr) : comps (d ++ '/' :: name) = comps d ++ comps name := by
  induction d with
  | nil => simp [comps]
  | cons c r ih =>
    by_cases hc : c = '/'
    · subst hc; simp [comps_slash, ih]
    · obtain ⟨h, t, e1, e2⟩ := comps_cons_ne hc r
      obtain ⟨h', t', e3, e4⟩ := comps_cons_ne hc (r ++ '/' :: name)
      rw [List.cons_append, e4, e2]
      rw [ih, e1] at e3
      cases e3
      rfl

theorem comps_head_head {r h : CStr} {t : List CStr} {x : Char} (e : comps r = h :: t)
    (hx : h.head? = some x) : r.head? = some x := by
  cases r with
  | nil => simp [comps] at e; rw [e.1] at hx; simp at hx
  | cons c r' =>
    by_cases hc : c = '/'
    · subst hc; rw [comps_slash] at e; cases e; simp at hx
    · obtain ⟨h', t', _, e2⟩ := comps_cons_ne hc r'
      rw [e2] at e; cases e; simpa using hx

theorem hasDotDot_comps (name : CStr) (h : hasDotDot name = false) :
    ∀ c ∈ comps name, hasDotDot c = false := by
  induction name with
  | nil => simp [comps, hasDotDot]
  | cons ch r ih =>
    simp only [hasDotDot, Bool.or_eq_false_iff, decide_eq_false_iff_not] at h
    obtain ⟨h1, h2⟩ := h
    by_cases hc : ch = '/'
    · subst hc
      rw [comps_slash]
      intro c hcm
      simp only [List.mem_cons] at hcm
      rcases hcm with rfl | hcm
      · rfl
      · exact ih h2 c hcm
    · obtain ⟨hd, t, e1, e2⟩ := comps_cons_ne hc r
      rw [e2]
      intro c hcm
      simp only [List.mem_cons] at hcm
      rcases hcm with rfl | hcm
      · simp only [hasDotDot, Bool.or_eq_false_iff, decide_eq_false_iff_not]
        refine ⟨?_, ih h2 hd (by rw [e1]; simp)⟩
        rintro ⟨rfl, hh⟩
        exact h1 ⟨rfl, comps_head_head e1 hh⟩
      · exact ih h2 c (by rw [e1]; simp [hcm])

theorem fallback_safe (d name : CStr) (hd0 : d ≠ [])
    (hs : d.head? ≠ some '/' ∧ ∀ c ∈ comps d, c ≠ dotdot)
    (hn : hasDotDot name = false) : safe (d ++ ['/'] ++ name) = true := by
  unfold safe absolute
  simp only [Bool.and_eq_true, Bool.not_eq_true', decide_eq_false_iff_not, List.all_eq_true,
    decide_eq_true_eq]
  constructor
  · cases d with
    | nil => exact absurd rfl hd0
    | cons c r => simpa using hs.1
  · intro c hc
    rw [List.append_assoc, List.singleton_append, comps_append_slash] at hc
    rcases List.mem_append.mp hc with h | h
    · exact hs.2 c h
    · intro e
      have := hasDotDot_comps name hn c h
      rw [e] at this
      simp [dotdot, hasDotDot] at this

/-! ### strip_name -/

theorem stripDotCRev_suffix (r : CStr) : ∃ k, stripDotCRev r = r.drop k := by
  induction r using stripDotCRev.induct with
  | case1 c d rest h ih =>
    obtain ⟨k, hk⟩ := ih
    refine ⟨k + 2, ?_⟩
    rw [stripDotCRev, if_pos h, hk]; rfl
  | case2 c d rest h => exact ⟨0, by rw [stripDotCRev, if_neg h]; rfl⟩
  | case3 r h => exact ⟨0, by unfold stripDotCRev; split <;> simp_all⟩

theorem copyNoDbl_head (n : Nat) (last : Char) (s d : CStr) (h : copyNoDbl n last s = some d) :
    d.head? = none ∨ d.head? = s.head? := by
  cases n with
  | zero => simp [copyNoDbl] at h; subst h; simp
  | succ n =>
    cases s with
    | nil => simp [copyNoDbl] at h; subst h; simp
    | cons c r =>
      simp only [copyNoDbl] at h
      split at h
      · cases h
      · cases hh : copyNoDbl n c r with
        | none => simp [hh] at h
        | some x => simp [hh] at h; subst h; simp

end NV.C15
