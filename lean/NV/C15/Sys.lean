/-
C15 — system-style model: what each file efun does between the LPC call and libc, as a list of events
(master consultations and libc file calls with their path arguments), written from
lib/efuns/file.c, file_utils.c, lib/lpc/object.c (save/restore_object), dumpstat.c, dump_prog.c,
src/simulate.c (load_object) and lib/lpc/lex.c (inc_open).

The file system is the FIXTURE the harness recreates before every call (harness/c15/c15.c: fixture ()),
so the model is stateless: `lookup` answers "what is at this path" from a constant table.
-/
import NV.C15.Model
import NV.C15.Spec

namespace NV.C15

inductive Kind where
  | file | dir
  deriving Repr, DecidableEq

/-- the fixture below the mudlib root (see harness/c15/c15.c) -/
def fixtureTree : List (List String × Kind) := [
  (["a"], .dir), (["a", "a"], .file), (["a", "aa"], .dir), (["a", "a.c"], .file),
  (["aa"], .file), (["aa.c"], .file), (["a.c"], .file),
  (["d"], .dir), (["d", "f.txt"], .file), (["d", "obj.c"], .file), (["d", "sub"], .dir), (["d", "inc.h"], .file),
  (["include"], .dir), (["include", "a"], .file), (["include", "std.h"], .file), (["include", "vcommon.h"], .file)]

/-- the fixture plus the `extra` files (written by the harness for this case) and their directories -/
def treeWith (extra : List CStr) : List (List String × Kind) :=
  fixtureTree ++ extra.flatMap (fun e =>
    let cs := (comps e).map unstr
    (cs, Kind.file) :: ((List.range cs.length).drop 1).map (fun n => (cs.take n, Kind.dir)))

/-- resolve a path relative to the mudlib root against the fixture plus `extra` files;
    `none` = does not exist (or leaves the modelled tree through "..") -/
def lookup (extra : List CStr) (p : CStr) : Option Kind :=
  if p = [] then none
  else
    let tree := treeWith extra
    let rec go (cur : List String) (k : Kind) : List CStr → Option Kind
      | [] => some k
      | c :: cs =>
        if k ≠ .dir then none
        else if c = [] ∨ c = dot then go cur k cs
        else if c = dotdot then none
        else
          let nxt := cur ++ [unstr c]
          match tree.find? (·.1 == nxt) with
          | some (_, k') => go nxt k' cs
          | none => none
    go [] .dir (comps p)

def whoObj : String := "/c15/obj"

/-- part after the last '/' (`cp = strrchr (from, '/'); cp ? cp + 1 : from`) -/
def baseName (p : CStr) : CStr := (p.reverse.takeWhile (· ≠ '/')).reverse

/-- the key (list of names from the root) of the directory a path resolves to; `none`: not a directory -/
def resolveDir (extra : List CStr) (p : CStr) : Option (List String) :=
  if p = [] then none
  else
    let tree := treeWith extra
    let rec go (cur : List String) (k : Kind) : List CStr → Option (List String)
      | [] => if k = .dir then some cur else none
      | c :: cs =>
        if k ≠ .dir then none
        else if c = [] ∨ c = dot then go cur k cs
        else if c = dotdot then none
        else
          let nxt := cur ++ [unstr c]
          match tree.find? (·.1 == nxt) with
          | some (_, k') => go nxt k' cs
          | none => none
    go [] .dir (comps p)

def insertSorted (x : String) : List String → List String
  | [] => [x]
  | y :: r => if x < y then x :: y :: r else if x == y then y :: r else y :: insertSorted x r

/-- the names `readdir` delivers for the directory with key `cur` (without "." and ".."), sorted (the harness
    sorts the per-entry calls: readdir order is the kernel's) -/
def dirNames (extra : List CStr) (cur : List String) : List String :=
  ((treeWith extra).filterMap (fun e =>
    if e.1.length = cur.length + 1 ∧ e.1.take cur.length = cur then e.1.getLast? else none)).foldr insertSorted []

/-- `static int match_string (char *match, char *str)` of file_utils.c: '?', '*', '\\' -/
def matchString : Nat → CStr → CStr → Bool
  | 0, _, _ => false
  | n + 1, m, s =>
    if s = [] ∧ m = [] then true else
    match m with
    | [] => false                                    -- case '\0'
    | '?' :: m' => match s with
      | [] => false
      | _ :: s' => matchString n m' s'
    | '*' :: m' =>
      if m' = [] then true
      else (List.range s.length).any (fun i => matchString n m' (s.drop i))
    | c :: m' =>
      let (c, m') := if c = '\\' then (match m' with
        | [] => (none, [])
        | d :: m'' => (some d, m'')) else (some c, m')
      match c, s with
      | none, _ => false
      | some c, d :: s' => if c = d then matchString n m' s' else false
      | some _, [] => false

/-- per-entry `stat (temppath "/" d_name)` of `get_dir (path, -1)`, in sorted order.  The repaired code skips
    the entries "." and ".." also when a pattern is matched (before: `get_dir ("/*", -1)` did `stat ("./..")`). -/
def entryStats (ex : List CStr) (flags1 : Bool) (dir : CStr) (pat : Option CStr) : List Ev :=
  if !flags1 then [] else
  match resolveDir ex dir with
  | none => []
  | some cur =>
    ((dirNames ex cur).filter (fun n =>
      -- the entries "." and ".." are skipped (repaired code: also under a pattern); a d_name has no '/'
      n ≠ "." && n ≠ ".." && !('/' ∈ n.toList) && match pat with
      | none => true
      | some m => matchString (m.length + n.length + 2) m n.toList)).map
      (fun n => Ev.fs "stat-entry" false (dir ++ ['/'] ++ n.toList))

/-- `get_dir ()` after its `check_valid_path`: a path longer than MAX_PATH_LEN is refused (repaired code; before,
    `strncpy` cut it to fit `temppath` and the directory named by the PREFIX was listed);
    `temppath` is the path without a trailing "/" or "/." (`listDir`); when `stat (temppath)` fails and nothing
    was cut off, the last component is a pattern and the directory part (`parentDir`, "." without a slash) is
    listed.  `flags1`: the second argument is -1, every listed entry is `stat`ed. -/
def getDirFs (ex : List CStr) (P : CStr) (flags1 : Bool := false) : List Ev :=
  if P.length > NV.Gen.C15.maxPathLen then [] else
  let temp := listDir (P.take (NV.Gen.C15.getDirTemppathSize - 1))      -- strncpy (temppath, path, size - 1)
  let cut := decide (temp ≠ P)
  match lookup ex temp with
  | none =>
    if cut then [.fs "stat" false temp]
    else [.fs "stat" false temp, .fs "opendir" false (parentDir temp)] ++
      entryStats ex flags1 (parentDir temp) (some (baseName temp))
  | some _ =>
    if !cut ∧ temp ≠ dot then [.fs "stat" false temp]
    else [.fs "stat" false temp, .fs "opendir" false temp] ++ entryStats ex flags1 temp none

def masterObj : String := "/c15/master"

/-- one-libc-call efuns as a NESTED call by the master (the master asks itself and answers 1) -/
def nestedSingle (w : Bool) (op fn : String) (fw : Bool) (a : CStr) : List NEv :=
  .valid w a true op .ok :: match checkValidPath true .ok a with
    | none => []
    | some p => [.fs fn fw p]

/-- what the file efun `g (p)` does when the MASTER calls it from inside valid_read / valid_write (re-entrant
    master): the efuns a master typically uses there — consult an access list (`read_file`, `file_size`,
    `tail`), log the request (`write_file`).  The inner consultation is answered with 1 and is not nested again. -/
def nestedEvents (g : String) (p : CStr) : List NEv :=
  match g with
  | "read_file" => nestedSingle false "read_file" "open" false p
  | "file_size" => nestedSingle false "file_size" "stat" false p
  | "write_file" => nestedSingle true "write_file" "fopen" true p
  | "tail" => nestedSingle false "tail" "fopen" false p
  | _ => [.note s!"badnested {g}"]

/-- the nested call a re-entrant master makes before it answers -/
def nestPrefix : Policy → List Ev
  | .nested g p _ => [.nest g masterObj [p] (nestedEvents g p)]
  | _ => []

/-- `check_valid_path (path, current_object, op, w)` with the master following `pol`; a re-entrant master first
    makes its own efun call (`Ev.nest`), then answers -/
def askEv (pol : Policy) (w : Bool) (path : CStr) (op : String) : List Ev :=
  nestPrefix pol ++ [.valid w path whoObj op (pol.verdict w path)]

def ask (pol : Policy) (w : Bool) (path : CStr) (op : String) : List Ev × Option CStr :=
  (askEv pol w path op, checkValidPath true (pol.verdict w path) path)

/-- efuns that make one libc call on the approved path -/
def single (pol : Policy) (w : Bool) (op fn : String) (fw : Bool) (a : CStr) : List Ev :=
  let (e, r) := ask pol w a op
  e ++ match r with
    | none => []
    | some p => [.fs fn fw p]

def getDir (pol : Policy) (ex : List CStr) (a : CStr) (flags1 : Bool := false) : List Ev :=
  let (e, r) := ask pol false a "stat"
  e ++ match r with
    | none => []
    | some P => getDirFs ex P flags1

def statEfun (pol : Policy) (ex : List CStr) (a : CStr) (flags1 : Bool := false) : List Ev :=
  let (e, r) := ask pol false a "stat"
  e ++ match r with
    | none => []
    | some P => .fs "stat" false P :: (if lookup ex P = some .file then [] else getDir pol ex a flags1)

/-- `do_rename`: the source with its trailing slashes stripped (copied into `newfrom`) -/
def renameSrc (from_ : CStr) : CStr :=
  if from_.length > 1 ∧ from_.getLast? = some '/' then stripTrailSlash from_ else from_

/-- does the stripped copy fit `newfrom` (`n >= sizeof newfrom` is the error "File path too long." of the repaired
    code; before, the `memcpy` overran the stack buffer)?  Without a trailing slash nothing is copied. -/
def renameSrcFits (from_ : CStr) : Bool :=
  !(decide (from_.length > 1 ∧ from_.getLast? = some '/') &&
    decide ((stripTrailSlash from_).length ≥ NV.Gen.C15.renameNewfromSize))

/-- `do_move (from, to, flag)` unless the into-directory target did not fit its buffer -/
def moveEvents (sym tooLong : Bool) (from' target : CStr) : List Ev :=
  if tooLong then []
  else if sym then [.fs "symlink" true from', .fs "symlink-to" true target]
  else [.fs "rename" true from', .fs "rename-to" true target]

/-- `do_rename (fr, t, F_RENAME | F_LINK)`.  Buffers: the source without its trailing slashes is copied into
    `newfrom`, the into-directory target is built in `newto` with a checked `snprintf`. -/
def renameEfun (pol : Policy) (ex : List CStr) (sym : Bool) (a b : CStr) : List Ev :=
  let (e1, r1) := ask pol true a "rename"
  match r1 with
  | none => e1
  | some from_ =>
    let (e2, r2) := ask pol true b "rename"
    match r2 with
    | none => e1 ++ e2
    | some to =>
      if !renameSrcFits from_ then e1 ++ e2 else                     -- error ("File path too long.")
      let from' := renameSrc from_
      let (e3, r3) := ask pol false to "file_size"            -- file_size (to)
      if (pol.verdict false to).raises then e1 ++ e2 ++ e3 else     -- an error in the master ends the efun here
      let st := match r3 with
        | none => []
        | some q => [Ev.fs "stat" false q]
      let isDir : Bool := match r3 with
        | none => false
        | some q => decide (lookup ex q = some .dir)
      let target := if isDir then to ++ ['/'] ++ baseName from' else to
      e1 ++ e2 ++ e3 ++ st ++
        moveEvents sym (isDir && decide (target.length ≥ NV.Gen.C15.renameNewtoSize)) from' target

/-- the `open (to, O_WRONLY | O_CREAT | O_TRUNC)` of `copy_file` unless the target did not fit `newto` -/
def cpTail (tooLong : Bool) (target : CStr) : List Ev :=
  if tooLong then [] else [.fs "open" true target]

/-- `copy_file (from, to)`; the into-directory target is built in `newto` (repaired code: checked `snprintf`,
    the copy fails when it does not fit; before, `sprintf` overran the stack buffer) -/
def cpEfun (pol : Policy) (ex : List CStr) (a b : CStr) : List Ev :=
  let (e1, r1) := ask pol false a "cp"
  match r1 with
  | none => e1
  | some from_ =>
    let (e2, r2) := ask pol true b "cp"
    match r2 with
    | none => e1 ++ e2
    | some to =>
      e1 ++ e2 ++ .fs "open" false from_ ::
        (if lookup ex from_ = none then []
         else
           let isDir : Bool := decide (lookup ex to = some .dir)
           let target := if isDir then to ++ ['/'] ++ baseName from_ else to
           .fs "stat" false to :: cpTail (isDir && decide (target.length ≥ NV.Gen.C15.cpNewtoSize)) target)

def endsWith (s suf : CStr) : Bool := s.length ≥ suf.length && s.drop (s.length - suf.length) == suf

/-- the file name `save_object` / `restore_object` build from their argument (`len ≥ 2` assumed) -/
def saveExt : CStr := [Char.ofNat NV.Gen.C15.saveExtDot, Char.ofNat NV.Gen.C15.saveExtO]   -- SAVE_EXTENSION

def saveName (f : CStr) : CStr :=
  let len := if endsWith f ['.', 'c'] then f.length - 2 else f.length
  let len := if f.drop (len - NV.Gen.C15.saveExtLen) == saveExt then len - NV.Gen.C15.saveExtLen else len
  f.take len ++ saveExt

def saveEfun (pol : Policy) (ex : List CStr) (a : CStr) : List Ev :=
  let (e, r) := ask pol true (saveName a) "save_object"
  e ++ match r with
    | none => []
    | some P =>
      let tmp := P.take 250 ++ str ".tmp"
      .fs "fopen" true tmp ::
        (if lookup ex (parentDir tmp) = some .dir ∧ lookup ex tmp ≠ some .dir then
           [.fs "rename" true tmp, .fs "rename-to" true P] ++
             (if lookup ex P = some .dir ∨ P.getLast? = some '/' then [.fs "unlink" true tmp] else [])
         else [])

/-! ### the line editor: `ed (file)` by an interactive user and the session that follows (lib/efuns/ed.c) -/

/-- commands of an editing session (the ones that deal with files, plus text input and quitting).
    An empty argument is "no file name given". -/
inductive EdCmd where
  | start (file : CStr)      -- the efun ed (file): ed_start
  | a (text : CStr)          -- `a`, one line of text, `.`
  | e (arg : CStr) | E (arg : CStr) | f (arg : CStr) | r (arg : CStr)
  | w (arg : CStr) | W (arg : CStr) | x | q | Q
  | D (name : CStr)          -- the user goes net-dead: save_ed_buffer, the master answers `name`
  deriving Repr, DecidableEq

structure EdSt where
  active : Bool := false
  fname : CStr := []                   -- P_FNAME: the stored file name (as approved: no leading slash)
  nlines : Nat := 0                    -- P_LASTLN
  changed : Bool := false              -- P_FCHANGED
  files : List (CStr × Nat) := []      -- files written during the session: path ↦ number of lines
  deriving Repr

/-- number of lines `doread` gets out of `p` (`none`: cannot be opened) -/
def edLines (st : EdSt) (ex : List CStr) (p : CStr) : Option Nat :=
  match st.files.find? (·.1 = p) with
  | some (_, n) => some n
  | none => match lookup ex p with
    | some .file => some 1             -- every fixture file has one line
    | some .dir => some 0              -- fopen (dir, "r") succeeds, nothing can be read
    | none => none

/-- can `fopen (p, "w" / "a")` succeed? -/
def edWritable (st : EdSt) (ex : List CStr) (p : CStr) : Bool :=
  (st.files.any (·.1 = p)) || (lookup ex (parentDir p) = some .dir && lookup ex p ≠ some .dir)

/-- what fits the editor's `static char file[MAXFNAME]` (repaired `getfn`: a longer approved path is refused;
    before, `strncpy` cut it and the editor continued with a DIFFERENT path than the one approved) -/
def edFit (r : Option CStr) : Option CStr :=
  match r with
  | none => none
  | some P => if P.length ≥ NV.Gen.C15.edMaxFname then none else some P

/-- `getfn (writeflg)`: the name given, else "/" + stored name; a name that does not fit `file[MAXFNAME]` is
    refused (repaired code; before, the copy loop and the `strcpy` of the stored name overran the buffer); a name
    that does not start with '/' goes through the master's make_path_absolute (the verification master answers
    "/d/" + name; `strncpy` cuts the answer to MAXFNAME - 1 BEFORE it is checked); then
    `check_valid_path (file, current_editor, "ed_start", writeflg)` — ALWAYS, also for the stored name. -/
def edGetfn (pol : Policy) (st : EdSt) (w : Bool) (arg : CStr) : List Ev × Option CStr :=
  if arg = [] ∧ st.fname.length + 1 ≥ NV.Gen.C15.edMaxFname then ([], none) else
  if arg.length ≥ NV.Gen.C15.edMaxFname then ([], none) else
  let file := if arg = [] then '/' :: st.fname else arg
  let file := if file.head? = some '/' then file else (str "/d/" ++ file).take (NV.Gen.C15.edMaxFname - 1)
  ((ask pol w file "ed_start").1, edFit (ask pol w file "ed_start").2)

/-- the libc call of a command that got its file name from `getfn` (`io`: does the command reach doread/dowrite) -/
def edIo (r : Option CStr) (io w : Bool) : List Ev :=
  match r with
  | none => []
  | some p => if io then [.fs "fopen" w p] else []

/-- `E name`: getfn (0), clear the buffer, read the file, remember the name -/
def edOpen (pol : Policy) (ex : List CStr) (st : EdSt) (arg : CStr) : List Ev × EdSt :=
  let (e, r) := edGetfn pol st false arg
  (e ++ edIo r true false,
   match r with
   | none => st
   | some p => { st with fname := p, changed := false, nlines := (edLines st ex p).getD 0 })

/-- one command: the events of its segment (after the `call` line) and the new state -/
def edStep (pol : Policy) (ex : List CStr) (st : EdSt) (c : EdCmd) : List Ev × EdSt :=
  match c with
  | .start file =>
    let (e, r) := ask pol false file "ed_start"
    (e ++ edIo r true false,
     { st with active := true, fname := (r.getD []).take (NV.Gen.C15.edMaxFname - 1),   -- strncpy (P_FNAME, ..)
               changed := false,
               nlines := match r with
                 | none => 0
                 | some p => (edLines st ex p).getD 0 })
  | .a _ => ([], { st with nlines := st.nlines + 1, changed := true })
  | .e arg => if st.changed then ([], st) else edOpen pol ex st arg     -- "File has been changed."
  | .E arg => edOpen pol ex st arg
  | .f arg =>
    let (e, r) := edGetfn pol st false arg
    (e, match r with
      | none => st
      | some p => if arg = [] then st else { st with fname := p })
  | .r arg =>
    let (e, r) := edGetfn pol st false arg
    (e ++ edIo r true false,
     match r with
     | none => st
     | some p => match edLines st ex p with
       | none => st
       | some n => { st with nlines := st.nlines + n, changed := true })
  | .w arg =>
    let (e, r) := edGetfn pol st true arg
    (e ++ edIo r (decide (st.nlines > 0)) true,
     match r with
     | none => st
     | some p => if st.nlines > 0 ∧ edWritable st ex p then
         { st with changed := false, files := (p, st.nlines) :: st.files } else st)
  | .W arg =>
    let (e, r) := edGetfn pol st true arg
    (e ++ edIo r (decide (st.nlines > 0)) true,
     match r with
     | none => st
     | some p => if st.nlines > 0 ∧ edWritable st ex p then
         { st with changed := false, files := (p, (edLines st ex p).getD 0 + st.nlines) :: st.files } else st)
  | .x =>
    let (e, r) := edGetfn pol st true []
    (e ++ edIo r true true,
     match r with
     | none => st
     | some p => if edWritable st ex p then { st with active := false, files := (p, st.nlines) :: st.files } else st)
  | .D name =>
    -- save_ed_buffer: get_save_file_name (P_FNAME) → one leading slash removed; written only when that is a
    -- legal path (repaired code; before, "/../x" or "//tmp/x" were written); the session is over either way
    let p := stripOneSlash name
    (.edsave st.fname name :: (if legalPath p then [.fs "fopen" true p] else []), { st with active := false })
  | .q => ([], if st.changed then st else { st with active := false })
  | .Q => ([], { st with active := false })

def EdCmd.callArgs : EdCmd → List CStr
  | .start y => [str "ed", y]
  | .a y => [str "a", y]
  | .e y => [str "e", y] | .E y => [str "E", y] | .f y => [str "f", y] | .r y => [str "r", y]
  | .w y => [str "w", y] | .W y => [str "W", y]
  | .x => [str "x", []] | .q => [str "q", []] | .Q => [str "Q", []]
  | .D y => [str "D", y]

/-- is the command executed?  `ed ()` on an active session is an error before anything happens; editor
    commands need a session -/
def edRuns (st : EdSt) : EdCmd → Bool
  | .start _ => !st.active
  | _ => st.active

/-- a whole session: every command that is executed is one `call ed` segment -/
def edSession (pol : Policy) (ex : List CStr) : EdSt → List EdCmd → List Ev
  | _, [] => []
  | st, c :: cs =>
    if edRuns st c then
      .call "ed" whoObj c.callArgs :: (edStep pol ex st c).1 ++ edSession pol ex (edStep pol ex st c).2 cs
    else edSession pol ex st cs

/-- one efun call -/
def efunEvents (pol : Policy) (ex : List CStr) (efun : String) (a b : CStr) : List Ev :=
  match efun with
  | "read_file" => single pol false "read_file" "open" false a
  | "write_file" => single pol true "write_file" "fopen" true a
  | "rm" => single pol true "remove_file" "unlink" true a
  | "mkdir" => single pol true "mkdir" "mkdir" true a
  | "rmdir" => single pol true "rmdir" "rmdir" true a
  | "file_size" => single pol false "file_size" "stat" false a
  | "file_length" => single pol false "file_size" "open" false a
  | "tail" => single pol false "tail" "fopen" false a
  | "read_bytes" => single pol false "read_bytes" "fopen" false a
  | "read_buffer" => single pol false "read_bytes" "fopen" false a
  | "write_bytes" => single pol true "write_bytes" "open" true a
  | "write_buffer" => single pol true "write_bytes" "open" true a
  | "restore_object" => single pol false "restore_object" "fopen" false (saveName a)
  | "dumpallobj" => single pol true "dumpallobj" "fopen" true a
  | "dump_prog" => single pol true "dumpallobj" "fopen" true a
  | "get_dir" => getDir pol ex a
  | "stat" => statEfun pol ex a
  | "get_dir1" => getDir pol ex a true                       -- get_dir (a, -1)
  | "stat1" => statEfun pol ex a true                        -- stat (a, -1)
  | "rename" => renameEfun pol ex false a b
  | "link" => .note s!"valid_link {showP a} {showP b}" :: renameEfun pol ex true a b   -- master valid_link first
  | "cp" => cpEfun pol ex a b
  | "save_object" => saveEfun pol ex a
  | "ed" => (edStep pol ex {} (.start a)).1              -- the efun itself; sessions: `edSession`
  | _ => [.note s!"badefun {efun}"]

def Ev.isValid : Ev → Bool
  | .valid .. => true
  | _ => false

/-- with a master object that does not define valid_read / valid_write the apply returns NULL, which
    `check_valid_path` treats exactly like the answer 1 (`Verdict.absent`), and no master function runs, so
    nothing is logged: the trace is the one of the permissive master without its consultation lines -/
def sysEvents (masterAbsent : Bool) (pol : Policy) (ex : List CStr) (efun : String) (a b : CStr) : List Ev :=
  if masterAbsent then (efunEvents .allow ex efun a b).filter (fun e => !e.isValid)
  else efunEvents pol ex efun a b

/-- an editing session under either kind of master -/
def sysSession (masterAbsent : Bool) (pol : Policy) (ex : List CStr) (cmds : List EdCmd) : List Ev :=
  if masterAbsent then (edSession .allow ex {} cmds).filter (fun e => !e.isValid)
  else edSession pol ex {} cmds

/-! ### compiler: load_object, #include, inherit -/

/-- the include search path of the C15 verification mudlib (props/c15.py writes `IncludeDir /include:/`):
    the entries as `set_inc_list` stores them ("/" is the mudlib directory: ".") -/
def incDirs : List CStr := [str "/include", str "/"].filterMap incDirOf

/-- are the repairs of `inc_open` / `inc_lexically_normal` present (the `fix:` commits of C15)? -/
def incGuarded : Bool := true

/-- `load_object (name)`: stat probe, then (if found and legal) the open -/
def loadEvents (ex : List CStr) (name : CStr) : List Ev × Bool :=
  match loadAccess name (fun p => (lookup ex p).isSome) with
  | none => ([], false)
  | some a =>
    ((match a.probe with
      | none => []
      | some p => [Ev.fs "stat" false p]) ++ (match a.opened with
      | none => []
      | some p => [.fs "open" false p]), a.opened.isSome)

/-- `ldb name` (SaveBinaryDir configured; the source `<strip_name name>.c` with `#pragma save_binary` exists whenever
    that is a safe path): the object is loaded twice — save_binary, then load_binary.  The harness prints no libc
    call on a safe path in this mode (lib/lpc/program/binaries.c is C17's ground, its call sequence is not pinned
    here), so the model trace is the summary line: the binary exists afterwards iff the name is loadable. -/
def saveBinaryDir : CStr := str "/bin"     -- props/c15.py: `SaveBinaryDir /bin` in the conf of these runs

def joinPath : List CStr → CStr
  | [] => []
  | [c] => c
  | c :: cs => c ++ '/' :: joinPath cs

/-- can the harness create the source file `p` in the fixture (no directory prefix is a plain file, `p` itself
    is not a directory)? -/
def creatable (ex : List CStr) (p : CStr) : Bool :=
  let cs := comps p
  ((List.range cs.length).all (fun k => k = 0 || lookup ex (joinPath (cs.take k)) ≠ some .file)) &&
    lookup ex p ≠ some .dir

def binaryEvents (name : CStr) : List Ev :=
  let saved : Bool := match loadRealName name with
    | none => false
    | some rn =>
      legalPath rn && creatable [] rn &&
        -- repaired save_binary / load_binary: SaveBinaryDir "/" name (+ NUL) must fit file_name_buf[200] resp. one
        -- half of load_binary's file_name_buf[400]; otherwise nothing is saved (before: stack overrun)
        decide (saveBinaryDir.length + rn.length + 2 ≤ NV.Gen.C15.saveBinaryNameSize) &&
        decide (saveBinaryDir.length + rn.length + 2 ≤ NV.Gen.C15.loadBinaryNameSize / 2)
  [.note s!"binary {showP name} saved={if saved then 1 else 0}"]

/-- opens made for `#include "name"` inside `base`: tried in order until one exists -/
def includeOpens (ex : List CStr) (base name : CStr) : List Ev :=
  let rec go : List CStr → List Ev
    | [] => []
    | t :: ts => .fs "open" false t :: (if (lookup ex t).isSome then [] else go ts)
  go (incTries incGuarded incDirs base name)

def includeEvents (base name : CStr) : List Ev :=
  let ex := [base]
  let (l, ok) := loadEvents ex base
  l ++ (if ok then includeOpens ex base name else [])

/-- `strip_name (inherit_file, inhbuf, sizeof inhbuf)`, on failure `strcpy (inhbuf, inherit_file)` -/
def inhName (name : CStr) : CStr := (stripName name NV.Gen.C15.maxObjectNameSize).getD name

def inheritEvents (base name : CStr) : List Ev :=
  if !(loadEvents [base] base).2 then (loadEvents [base] base).1
  else
    (loadEvents [base] base).1 ++ (loadEvents [base] (inhName name)).1 ++
      (if (loadEvents [base] (inhName name)).2 then (loadEvents [base] base).1 else [])

end NV.C15
