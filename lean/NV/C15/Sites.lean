/-
C15 — `mediated_sites`: the translator part of the tie.

`NV/Gen/C15.lean` is regenerated on every run from the clang AST of the working tree
(tools/c15_sites.py): every call of a path-taking libc function in lib/efuns/*.c, lib/lpc/object.c,
src/simulate.c, lib/lpc/lex.c (+ preprocess.c) and lib/lpc/program/binaries.c with its enclosing
function and the syntactic origin of the path argument, plus the call rows needed to resolve
`param k` origins.  The theorem says: every site takes a path that flows from `check_valid_path`,
`legal_path`, `inc_open`/`inc_lexically_normal`, the configuration file, or is on the explicit
allow-list below.  A source change that adds an unmediated file call changes the table and this
`decide` fails (obligation broken → the check searches for a failing input).
-/
import NV.Gen.C15

namespace NV.C15

open NV.Gen.C15

/-- origins that are mediated by construction -/
def originOk : Origin → Bool
  | .mediated _ => true                        -- result of check_valid_path / guarded by legal_path / filled by inc_open
  | .derived _ _ => true                       -- buffer built ONLY from mediated values, string literals and
                                               -- configuration (the generator emits `other` as soon as one source
                                               -- is anything else; the sources are listed in `bases`)
  | .config _ => true                          -- administrator's configuration file (trusted)
  | _ => false

structure Allow where
  file : String
  fn : String          -- enclosing function (site) or caller (call row)
  callee : String
  root : String        -- root expression of the unmediated flow, as the generator reports it (`Site.root`)
  why : String

/-- the explicit allow-list.  An entry licenses the `other`-origin rows of ONE function calling ONE callee whose
    path flows from ONE root expression (not a line number, not the chain of local variables in between): a
    harmless refactoring keeps the key, a new unmediated call — another function, callee or source of the path —
    is not covered and breaks `mediated_sites`. -/
def allowList : List Allow := [
  { file := "lib/lpc/lex.c", fn := "inc_open", callee := "open", root := "inc_list[i]",
    why := "fallback search `sprintf (buf, \"%s/%s\", inc_list[i], name)`: inc_list entries passed legal_path in " ++
           "set_inc_list (\"\" is stored as \".\") and `name` was just rejected if it contains \"..\": theorems " ++
           "include_path_confined, inc_dir_ok" },
  { file := "lib/lpc/program/binaries.c", fn := "save_binary", callee := "crdir_fopen", root := "prog->name",
    why := "SaveBinaryDir (configuration) + \"/\" + program name; the program name passed legal_path in load_object" },
  { file := "lib/lpc/program/binaries.c", fn := "save_binary", callee := "fopen", root := "prog->name",
    why := "the same SaveBinaryDir + \"/\" + program name file that crdir_fopen just wrote, reopened \"rb+\" to append " ++
           "the checksum over its contents (fix 12ab14c); the program name passed legal_path in load_object" },
  { file := "lib/lpc/program/binaries.c", fn := "load_binary", callee := "check_times",
    root := "DXALLOC (buf_size, TAG_TEMPORARY, \"ALLOC_BUF\")",
    why := "stat () only, of names read from the saved binary being validated: its include files (written by " ++
           "save_binary from names that went through inc_open), the programs it inherits and their binaries " ++
           "(SaveBinaryDir + name + \".b\"); the binary itself lives in the administrator's SaveBinaryDir" },
  { file := "lib/lpc/program/binaries.c", fn := "binaries_simul_efun_loaded", callee := "stat",
    root := "global simul_efun_path",
    why := "stat () of the configured SimulEfunFile (leading slashes removed, \".c\" appended): administrator's " ++
           "configuration, sampled for config_id when the simul_efun object is (re)loaded" },
  { file := "lib/lpc/program/binaries.c", fn := "load_binary", callee := "check_times",
    root := "global simul_efun_path",
    why := "stat () of the same configured SimulEfunFile to invalidate binaries older than the simul_efun source" },
  { file := "lib/lpc/program/binaries.c", fn := "inherited_program_newer", callee := "check_times",
    root := "prog->strings[id - 1]",
    why := "stat () only, of the file names in the line-number table of an ALREADY LOADED inherited program: its " ++
           "source (passed legal_path in load_object) and the files it #included (opened by inc_open, theorem " ++
           "include_path_confined) — every one of them was opened by the confined loader before" },
  { file := "lib/lpc/program/binaries.c", fn := "inherited_program_outdated", callee := "check_times",
    root := "prog->strings[id - 1]",
    why := "stat () only (save_binary's test for parents that changed since they were loaded, C17 fix 3b97c96): the " ++
           "file names in the line-number table of an inherited program that is the CURRENT program of a loaded " ++
           "object (`ob->prog == prog` is tested first): its source passed legal_path in load_object, its include " ++
           "files were opened by inc_open (include_path_confined) - the same names as in inherited_program_newer" },
  { file := "lib/lpc/program/binaries.c", fn := "inherited_program_newer", callee := "check_times",
    root := "prog->name",
    why := "stat () only, of SaveBinaryDir (configuration) + \"/\" + name of an already loaded inherited program " ++
           "(passed legal_path in load_object) with the extension .b" }]

def allowed (file fn callee : String) (o : Origin) (root : String) : Bool :=
  match o with
  | .other _ => allowList.any (fun a => a.file == file && a.fn == fn && a.callee == callee && a.root == root)
  | _ => false

/-- a call row is fine when its argument is mediated, allow-listed, or is itself an unmodified parameter all of
    whose callers are fine (bounded depth; the generator emits the rows transitively) -/
def callOk : Nat → Call → Bool
  | 0, _ => false
  | n + 1, c =>
    originOk c.origin || allowed c.file c.caller c.callee c.origin c.root ||
      match c.origin with
      | .param k => (calls.filter (fun d => d.callee == c.caller && d.arg == k)).all (callOk n)
      | _ => false

def siteOk (s : Site) : Bool :=
  originOk s.origin || allowed s.file s.fn s.callee s.origin s.root ||
    match s.origin with
    | .param k => (calls.filter (fun d => d.callee == s.fn && d.arg == k)).all (callOk 4)
    | _ => false

/-- every file-system call site of the efun layer / loader / include handling is mediated or allow-listed -/
theorem mediated_sites : sites.all siteOk = true := by decide

/-- the inventory is not vacuous: it contains the sites of the efuns the property names, and the scan covered
    the anchor files -/
theorem inventory_covers_efuns :
    (["f_mkdir", "f_rmdir", "f_stat", "file_length", "get_dir", "tail", "remove_file", "write_file", "read_file",
      "read_bytes", "write_bytes", "file_size", "do_move", "copy_file", "save_object", "restore_object", "dumpstat",
      "dump_prog", "doread", "dowrite", "load_object", "inc_open"].all
        (fun f => sites.any (fun s => s.fn == f))) = true
    ∧ (["lib/efuns/file.c", "lib/efuns/file_utils.c", "lib/efuns/ed.c", "lib/efuns/dumpstat.c",
        "lib/efuns/dump_prog.c", "lib/lpc/object.c", "src/simulate.c", "lib/lpc/lex.c",
        "lib/lpc/program/binaries.c"].all (fun f => scanned.contains f)) = true := by decide

/-- the efuns the system-style harness calls and `NV.C15.efunEvents` models (props/c15.py: `exercised ()`;
    `PropsSys.efunNames` with the prefix `f_`) -/
def harnessEfuns : List String :=
  ["f_read_file", "f_write_file", "f_rm", "f_mkdir", "f_rmdir", "f_file_size", "f_file_length", "f_tail",
   "f_read_bytes", "f_read_buffer", "f_write_bytes", "f_write_buffer", "f_restore_object", "f_dumpallobj",
   "f_dump_prog", "f_get_dir", "f_stat", "f_rename", "f_link", "f_cp", "f_save_object", "f_ed"]

/-- EVERY efun implementation from which the call graph of the regenerated inventory reaches a file-system call
    site (other than through `load_object` / `save_ed_buffer`, which are covered separately) is one of the
    efuns the harness exercises and the model covers; the plugin additionally checks at run time that each of
    them produced at least one libc file call in the run (tie broken otherwise). -/
theorem efun_surface_modelled : fsEfuns.all (fun f => harnessEfuns.contains f) = true := by decide

example : fsEfuns.length ≥ 20 := by decide

/-- `check_valid_path` consults the master through `apply_master_ob` and nothing else: that function does not
    catch errors, so an error raised by valid_read / valid_write unwinds through the efun (`Verdict.raise`:
    nothing is returned, nothing is touched).  The error-swallowing variants (`safe_apply_master_ob`,
    `safe_apply`) return 0 for a failed call, which `check_valid_path` reads as "function not defined" =
    approved: with them the mediation would FAIL OPEN — such a change alters this regenerated list and breaks
    the theorem. -/
theorem mediation_propagates_errors : mediationApplies = ["apply_master_ob"] := by decide

/-- functions declared outside the repository that take a character pointer and do NOT take a file name: string
    comparison / conversion, formatted output to an already open stream, multibyte conversion, `fdopen` (wraps a
    descriptor), `getcwd` (output only), `crypt`, `inet_ntop`; `query_addr_number` is the driver's own
    (src/comm.c, declared locally in interactive.c).  Anything else that takes a `char *` must be one of the
    file-system callees the translator searches for — or this list is extended with a reason. -/
def knownNonFs : List String :=
  ["__assert_fail", "atoi", "atol", "atoll", "atof", "crypt", "fdopen", "fgets", "fprintf", "fputs", "fputc", "getcwd",
   "inet_ntop", "inet_pton", "inet_addr", "mblen", "mbstowcs", "mbtowc", "mbrtowc", "wcstombs", "wctomb",
   "query_addr_number", "sscanf", "vsscanf", "stpncpy", "strcmp", "strncmp", "strcasecmp", "strncasecmp", "strcoll",
   "strlen", "strnlen", "strspn", "strcspn", "strtod", "strtof", "strtol", "strtoll", "strtoul", "strtoull", "strdup",
   "strndup", "strtok", "strtok_r", "strerror_r", "vasprintf", "asprintf", "printf", "vprintf", "vfprintf", "puts",
   "perror", "getenv", "setlocale", "strftime", "memccpy", "fwrite", "fread", "write", "read", "send", "recv"]

/-- **fail closed on unknown callees**: every external function with a character-pointer parameter that is called
    from the scanned files is either a file-system callee the translator searches for (then it is a `sites` row
    and `mediated_sites` speaks about it), a buffer-filling / strchr-family function the translator interprets, or
    on `knownNonFs`.  A call of a path-taking function nobody listed (a new libc wrapper, `fopen64`-style alias …)
    breaks this obligation. -/
theorem ext_callees_classified : extCallees.all (fun c => knownNonFs.contains c) = true := by decide

/-- data flow into the search-path fallback of `inc_open` (`sprintf (buf, "%s/%s", inc_list[i], name)`, the one
    `open` of the loader that is allow-listed above): EVERY store into the global `inc_list` anywhere in the scanned
    files is either 0 or a copy of a local variable that a PRECEDING `legal_path ()` call of the same function guards,
    with no assignment to that variable in between (regenerated from the AST; `set_inc_list`).  Together with
    `include_path_confined_any_config` (model) this replaces trust in the allow-list entry by an obligation. -/
theorem inc_list_stores_guarded :
    globalStores.all (fun g => g.2.2.1 == "inc_list" && (g.2.2.2.2 == "null" || g.2.2.2.2 == "guarded")) = true ∧
    globalStores.any (fun g => g.2.2.2.2 == "guarded") = true := by decide

/-- every character array with static storage duration in the files of the file efuns, the editor, the lexer and the
    saved-binary code, with the reason why it cannot carry a PATH across a master apply (where a re-entrant master —
    valid_read / valid_write calling file efuns themselves — could overwrite it; seeded change C15-5 made
    `read_file`'s path copy static and `check_valid_path` re-read it after the apply).  Keyed by (file, function,
    name): sizes may change freely; a NEW static array is not on the list and breaks `static_bufs_classified`. -/
def staticBufWhy : List (String × String × String × String) := [
  ("lib/efuns/ed.c", "", "inlin", "the editor's current input line; ed commands come from user input, never from inside a master apply"),
  ("lib/efuns/ed.c", "", "last_term", "indentation state of the editor (no path)"),
  ("lib/efuns/ed.c", "docmd", "rhs", "substitution text of the `s` command (no path)"),
  ("lib/efuns/ed.c", "doread", "str", "line buffer for the file being read (content, not a path)"),
  ("lib/efuns/ed.c", "getfn", "file",
     "the editor's file name: filled, checked (check_valid_path) and returned by getfn only; its callers use it " ++
     "before any further apply; getfn is not re-entered from a master apply (ed commands are dispatched from user " ++
     "input); the approved path is copied back over it (ed_getfn_exact)"),
  ("lib/efuns/ed.c", "indent", "f", "format string (no path)"),
  ("lib/efuns/ed.c", "indent", "g", "format string (no path)"),
  ("lib/efuns/ed.c", "indent_code", "s", "indentation stack (no path)"),
  ("lib/efuns/file_utils.c", "check_valid_path", "current_dir", "the constant \".\" returned for the mudlib root"),
  ("lib/lpc/lex.c", "", "lex_ctype", "character class table"),
  ("lib/lpc/lex.c", "", "yytext", "current token text"),
  ("lib/lpc/lex.c", "handle_include", "buf",
     "path buffer of #include: filled by inc_open and opened there; the compiler makes no valid_read / valid_write " ++
     "consultation, and a nested compile cannot start between the fill and the open"),
  ("lib/lpc/lex.c", "query_opcode_name", "buf", "opcode name (no path)"),
  ("lib/lpc/lex.c", "show_error_context", "buf", "source excerpt (no path)"),
  ("lib/lpc/lex.c", "yylex", "partial", "text block terminator (no path)"),
  ("lib/lpc/lex.c", "yylex", "terminator", "text block terminator (no path)"),
  ("lib/lpc/object.c", "save_object", "tmp_name",
     "temporary file name: written AFTER check_valid_path returned, no apply until its last use (rename / unlink)"),
  ("lib/lpc/preprocess.c", "", "_optab", "operator table"),
  ("lib/lpc/preprocess.c", "", "optab2", "operator table"),
  ("lib/lpc/program/binaries.c", "", "simul_efun_path", "configured SimulEfunFile (administrator's configuration)")]

/-- **no path in static storage across the master apply** (translator obligation; fails closed on a new static
    character array in these files) -/
theorem static_bufs_classified :
    staticBufs.all (fun b => staticBufWhy.any (fun k => k.1 == b.1 && k.2.1 == b.2.1 && k.2.2.1 == b.2.2.1)) = true := by
  decide

/-- the searched callee names include the less usual ways to reach a file -/
theorem fs_callees_cover :
    (["open", "open64", "openat", "openat2", "creat", "fopen", "fopen64", "freopen", "stat", "lstat", "statx", "fstatat",
      "access", "unlink", "unlinkat", "remove", "rename", "renameat", "mkdir", "rmdir", "opendir", "scandir", "link",
      "symlink", "readlink", "truncate", "chmod", "chown", "utime", "utimes", "realpath", "mkstemp", "tmpnam", "popen",
      "system", "execve", "dlopen", "chdir", "chroot", "glob"].all (fun c => fsCallees.contains c)) = true := by decide

example : knownNonFs.all (fun c => !fsCallees.contains c) = true := by decide

/-- the operation name and write flag of EVERY `check_valid_path` call, regenerated from the source: this is the
    table `Sys.efunEvents` / `Spec.opNames` mirror (efun → operation name, valid_write iff flag 1; `getfn` passes
    its own `writeflg`: 0 for e / E / f / r, 1 for w / W / x).  A call that changes its flag (asks valid_read
    where it writes), its operation name, or a new / removed call breaks this obligation. -/
theorem cvp_call_table : cvpCalls = [
    ("lib/efuns/dump_prog.c", "dump_prog", "\"dumpallobj\"", "1"),
    ("lib/efuns/dumpstat.c", "dumpstat", "\"dumpallobj\"", "1"),
    ("lib/efuns/ed.c", "ed_start", "\"ed_start\"", "0"),
    ("lib/efuns/ed.c", "getfn", "\"ed_start\"", "writeflg"),
    ("lib/efuns/file.c", "f_mkdir", "\"mkdir\"", "1"),
    ("lib/efuns/file.c", "f_rmdir", "\"rmdir\"", "1"),
    ("lib/efuns/file.c", "f_stat", "\"stat\"", "0"),
    ("lib/efuns/file.c", "file_length", "\"file_size\"", "0"),
    ("lib/efuns/file_utils.c", "copy_file", "\"cp\"", "0"),
    ("lib/efuns/file_utils.c", "copy_file", "\"cp\"", "1"),
    ("lib/efuns/file_utils.c", "do_rename", "\"rename\"", "1"),
    ("lib/efuns/file_utils.c", "file_size", "\"file_size\"", "0"),
    ("lib/efuns/file_utils.c", "get_dir", "\"stat\"", "0"),
    ("lib/efuns/file_utils.c", "read_bytes", "\"read_bytes\"", "0"),
    ("lib/efuns/file_utils.c", "read_file", "\"read_file\"", "0"),
    ("lib/efuns/file_utils.c", "remove_file", "\"remove_file\"", "1"),
    ("lib/efuns/file_utils.c", "tail", "\"tail\"", "0"),
    ("lib/efuns/file_utils.c", "write_bytes", "\"write_bytes\"", "1"),
    ("lib/efuns/file_utils.c", "write_file", "\"write_file\"", "1"),
    ("lib/lpc/object.c", "restore_object", "\"restore_object\"", "0"),
    ("lib/lpc/object.c", "save_object", "\"save_object\"", "1")] := by decide

/-- the character / short string literals of `legal_path` in source order — what `Model.legalPath`,
    `legalStep`, `nextDot` compare with: `path[0] == '/'`, `strchr (path, '#')`, `p[0] == '.'`, `p[1] == '\\0'`,
    `p[1] == '.'`, `p[1] == '/' || p[1] == '\\0'`, `strstr (p, "/.")` -/
theorem legal_path_literals :
    literals.lookup "legal_path" = some ["c47", "c35", "c46", "c0", "c46", "c47", "c0", "s\"/.\""] := by decide

/-- the same fingerprint for the other hand-mirrored string functions (character codes: 47 '/', 46 '.', 63 '?',
    42 '*', 92 '\\', 0 NUL):
    * `check_valid_path`: `current_dir = "."`, `ret_path[0] == '/'`, `ret_path[0] == '\0'`
      — `Model.stripOneSlash`, `cvpFinish`;
    * `inc_lexically_normal`: the slash tests and the prefixes `"../"` and `"./"` in source order — `Model.incLoop`;
    * `inc_open`: the three '.' of the ".." scan — `Model.hasDotDot` (NUL literals are left out: initialising or
      terminating a local buffer, as C17's bookkeeping of missed include files does, is not a comparison of the scan);
    * `match_string`: `'?'`, `'*'`, `'\\'` and the NUL tests — `Sys.matchString`.
    A changed comparison character / prefix (or a reordering) breaks this obligation; the exhaustive differential run
    over the same functions then looks for an input. -/
theorem path_function_literals :
    literals.lookup "check_valid_path" = some ["s\".\"", "c47", "c0"] ∧
    literals.lookup "inc_lexically_normal" =
      some ["c47", "c47", "s\"../\"", "c47", "c47", "s\"./\"", "c47", "s\"/\"", "c47", "c47", "c47"] ∧
    ((literals.lookup "inc_open").map (fun l => l.filter (· != "c0"))) = some ["c46", "c46", "c46"] ∧
    literals.lookup "match_string" = some ["c0", "c0", "c63", "c0", "c42", "c0", "c0", "c0", "c92", "c0"] := by decide

/-- `strip_name` (lib/lpc/otable.c, scanned for this fingerprint): character AND integer literals in source order —
    `last_c = 0`, `size - 1`, the three '/' tests, `return 0`, `p - dest > 2`, `p[-1] == 'c'`, `p[-2] == '.'`,
    `p -= 2`, `*p = 0`, `return 1` — what `Model.stripName` / `copyNoDbl` / `stripDotCRev` mirror (`rest.length > 0`
    there is `p - dest > 2` after two characters were taken off). -/
theorem strip_name_literals :
    literals.lookup "strip_name" =
      some ["i0", "i1", "c47", "c47", "c47", "i0", "i2", "i1", "c99", "i2", "c46", "i2", "i0", "i1"] := by decide

/-- which libc function each function of the efun layer / loader calls, as a set (regenerated site table):
    the names `Sys.efunEvents`, `getDirFs`, `renameEfun` / `moveEvents`, `cpEfun`, `saveEfun`, `edIo`, `loadEvents`,
    `includeOpens` print for their events (`open` vs `fopen`, `unlink`, `symlink` …).  binaries.c is left out (C17's
    ground; its rows are covered by `mediated_sites`). -/
def siteCallees (f : String) : List String := (sites.filter (fun s => s.fn == f && s.arg == 0)).map (·.callee)

def insertS (x : String) : List String → List String
  | [] => [x]
  | y :: r => if x < y then x :: y :: r else if x == y then y :: r else y :: insertS x r

/-- the SET of libc file functions a function calls (sorted, without repetitions: an additional `unlink` on an error
    path or a reordered cleanup does not change it, a new kind of call does) -/
def calleeSet (f : String) : List String := (siteCallees f).foldr insertS []

theorem efun_libc_table :
    [("read_file", calleeSet "read_file"), ("write_file", calleeSet "write_file"),
     ("remove_file", calleeSet "remove_file"), ("f_mkdir", calleeSet "f_mkdir"), ("f_rmdir", calleeSet "f_rmdir"),
     ("file_size", calleeSet "file_size"), ("file_length", calleeSet "file_length"), ("tail", calleeSet "tail"),
     ("read_bytes", calleeSet "read_bytes"), ("write_bytes", calleeSet "write_bytes"), ("f_stat", calleeSet "f_stat"),
     ("get_dir", calleeSet "get_dir"), ("do_move", calleeSet "do_move"), ("copy", calleeSet "copy"),
     ("copy_file", calleeSet "copy_file"), ("save_object", calleeSet "save_object"),
     ("restore_object", calleeSet "restore_object"), ("dumpstat", calleeSet "dumpstat"),
     ("dump_prog", calleeSet "dump_prog"), ("doread", calleeSet "doread"), ("dowrite", calleeSet "dowrite"),
     ("load_object", calleeSet "load_object"), ("inc_open", calleeSet "inc_open")] =
    [("read_file", ["open"]), ("write_file", ["fopen"]), ("remove_file", ["unlink"]), ("f_mkdir", ["mkdir"]),
     ("f_rmdir", ["rmdir"]), ("file_size", ["stat"]), ("file_length", ["open"]), ("tail", ["fopen"]),
     ("read_bytes", ["fopen"]), ("write_bytes", ["open"]), ("f_stat", ["stat"]),
     ("get_dir", ["opendir", "stat"]), ("do_move", ["rename", "symlink", "unlink"]),
     ("copy", ["open", "unlink"]), ("copy_file", ["open", "stat"]),
     ("save_object", ["fopen", "rename", "unlink"]), ("restore_object", ["fopen"]),
     ("dumpstat", ["fopen"]), ("dump_prog", ["fopen"]), ("doread", ["fopen"]), ("dowrite", ["fopen"]),
     ("load_object", ["open", "stat"]), ("inc_open", ["open"])] := by decide

/-- `save_object` builds its temporary file with `"%.250s.tmp"` from the approved path (the `250` of
    `Sys.saveEfun` and of the oracle's `covers`) -/
theorem save_tmp_format :
    (sites.any (fun s => s.fn == "save_object" && s.callee == "fopen" &&
      s.origin == .derived "snprintf" ["literal \"%.250s.tmp\"", "mediated check_valid_path"])) = true := by decide

/-- an unmediated site is rejected (non-vacuity of `siteOk`) -/
example : siteOk { file := "lib/efuns/file.c", fn := "f_rmdir", callee := "rmdir", arg := 0, line := 76,
                   origin := .other "path <- sp->u.string", root := "sp->u.string" } = false := by decide

example : sites.length ≥ 40 := by decide

end NV.C15
