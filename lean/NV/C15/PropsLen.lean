/-
C15 — path lengths, C buffers and symbolic links.

* the sizes of the C path buffers (`temppath`, `newfrom`, `newto`, the editor's `file`) and the limits they are
  guarded with are regenerated from the source (`NV.Gen.C15`); the theorems below say that, in the model of the
  repaired code, NO path is ever cut after it was approved and every copy fits its buffer, for all paths;
* what is promised about symbolic links: `link ()` only creates links whose target text is an approved path
  (relative, no ".." component); in a mudlib all of whose links have such targets the kernel's expansion of a
  confined path stays confined.
-/
import NV.C15.PropsSys

namespace NV.C15

open NV.Gen.C15

/-! ### the regenerated sizes fit together -/

/-- `temppath` holds a path of MAX_PATH_LEN characters + '/' + a name of MAX_FNAME_SIZE characters + NUL; the
    other path buffers of file_utils.c have the same size; the editor's buffers are MAXFNAME -/
theorem buffer_sizes :
    getDirTemppathSize = maxPathLen + 1 + maxFnameSize + 1 ∧ getDirRegexppathSize = getDirTemppathSize ∧
    renameNewfromSize = getDirTemppathSize ∧ renameNewtoSize = getDirTemppathSize ∧
    cpNewtoSize = getDirTemppathSize ∧ edFileSize = edMaxFname ∧ 2 ≤ edMaxFname ∧
    saveBinaryNameSize ≤ loadBinaryNameSize / 2 := by decide

/-- every length guard the model relies on is present in the source (regenerated: function, source text of the
    comparison, number of occurrences).  A guard that is removed, or whose operator / operand changes, breaks this
    obligation. -/
theorem buffer_guards_present : lengthGuards.all (fun g => decide (g.2.2 ≥ 1)) = true ∧ lengthGuards.length = 20 := by
  decide

/-! ### get_dir -/

theorem length_cut_le (p : CStr) : ((p.reverse.dropWhile (· ≠ '/')).drop 1).reverse.length ≤ p.length := by
  have h1 : (p.reverse.dropWhile (· ≠ '/')).length ≤ p.reverse.length := by
    have := List.takeWhile_append_dropWhile (p := fun c : Char => decide (c ≠ '/')) (l := p.reverse)
    have h := congrArg List.length this
    rw [List.length_append] at h
    omega
  simp only [List.length_reverse, List.length_drop] at h1 ⊢
  omega

theorem length_listDir_le (p : CStr) : (listDir p).length ≤ p.length := by
  unfold listDir
  split
  · exact Nat.le_refl _
  · simp only
    split
    · exact length_cut_le p
    · exact Nat.le_refl _

theorem length_parentDir_le (p : CStr) (h : p ≠ []) : (parentDir p).length ≤ p.length := by
  unfold parentDir
  split
  · exact length_cut_le p
  · cases p with
    | nil => exact absurd rfl h
    | cons c r => simp [dot]

/-- `strncpy (temppath, path, sizeof temppath - 1)` never cuts a path that passed the guard
    `strlen (path) > MAX_PATH_LEN` -/
theorem getdir_path_not_truncated (P : CStr) (h : ¬ P.length > maxPathLen) :
    P.take (getDirTemppathSize - 1) = P := by
  apply List.take_of_length_le
  have : maxPathLen ≤ getDirTemppathSize - 1 := by decide
  omega

/-- the per-entry name `temppath "/" d_name` (+ NUL) of `get_dir (path, -1)` fits `temppath` for every path that
    passed the guard and every directory entry name of at most MAX_FNAME_SIZE characters, whether the listed
    directory is the path itself or (pattern) its directory part -/
theorem getdir_entry_fits (P n : CStr) (h0 : P ≠ []) (h : ¬ P.length > maxPathLen) (hn : n.length ≤ maxFnameSize) :
    (listDir P ++ ['/'] ++ n).length + 1 ≤ getDirTemppathSize ∧
    (parentDir (listDir P) ++ ['/'] ++ n).length + 1 ≤ getDirTemppathSize := by
  have h1 := length_listDir_le P
  have hs : getDirTemppathSize = maxPathLen + 1 + maxFnameSize + 1 := by decide
  have h2 : (parentDir (listDir P)).length ≤ P.length := by
    by_cases hl : listDir P = []
    · rw [hl]
      have : P.length ≥ 1 := by
        cases P with
        | nil => exact absurd rfl h0
        | cons c r => simp
      simpa [parentDir, dot] using this
    · exact Nat.le_trans (length_parentDir_le _ hl) h1
  simp only [List.length_append, List.length_cons, List.length_nil]
  omega

/-- a longer path touches nothing (repaired code) -/
theorem getdir_long_path_refused (ex : List CStr) (P : CStr) (fl : Bool) (h : P.length > maxPathLen) :
    getDirFs ex P fl = [] := by
  unfold getDirFs
  simp [h]

/-! ### the editor -/

/-- a path `getfn` returns fits `file[MAXFNAME]` (with its NUL) and is EXACTLY the path `check_valid_path`
    approved in this call: nothing is cut after the approval -/
theorem ed_getfn_exact (pol : Policy) (st : EdSt) (w : Bool) (arg P : CStr)
    (h : (edGetfn pol st w arg).2 = some P) :
    P.length + 1 ≤ edFileSize ∧
    ∃ file, (edGetfn pol st w arg).1 = (ask pol w file "ed_start").1 ∧ (ask pol w file "ed_start").2 = some P ∧
      file.length + 1 ≤ edFileSize := by
  unfold edGetfn at h ⊢
  split at h
  · simp at h
  · rename_i h1
    split at h
    · simp at h
    · rename_i h2
      simp only [h1, h2, ↓reduceIte] at h ⊢
      generalize hfile : (if (if arg = [] then '/' :: st.fname else arg).head? = some '/' then
        (if arg = [] then '/' :: st.fname else arg)
        else (str "/d/" ++ (if arg = [] then '/' :: st.fname else arg)).take (edMaxFname - 1)) = file at h ⊢
      have hsz : edFileSize = edMaxFname := by decide
      have h256 : 1 ≤ edMaxFname := by decide
      have hlen : file.length + 1 ≤ edFileSize := by
        rw [← hfile]
        by_cases ha : arg = []
        · subst ha
          have h1' : ¬ (st.fname.length + 1 ≥ edMaxFname) := fun hh => h1 ⟨rfl, hh⟩
          simp only [↓reduceIte, List.head?_cons, List.length_cons]
          omega
        · simp only [ha, ↓reduceIte]
          split
          · omega
          · simp only [List.length_take]
            omega
      cases hr : (ask pol w file "ed_start").2 with
      | none => simp [hr, edFit] at h
      | some Q =>
        simp only [hr, edFit] at h
        split at h
        · simp at h
        · rename_i hq
          simp only [Option.some.injEq] at h
          subst h
          exact ⟨by omega, file, rfl, hr, hlen⟩

/-! ### do_rename / copy_file -/

/-- `memcpy (newfrom, from, n); newfrom[n] = 0` is reached only with `n < sizeof newfrom`: when the stripped
    source does not fit, the model of the repaired code stops after the two consultations -/
theorem rename_newfrom_fits (pol : Policy) (ex : List CStr) (sym : Bool) (a b from_ to : CStr)
    (h1 : checkValidPath true (pol.verdict true a) a = some from_)
    (h2 : checkValidPath true (pol.verdict true b) b = some to)
    (hs : from_.length > 1 ∧ from_.getLast? = some '/')
    (hl : (stripTrailSlash from_).length ≥ renameNewfromSize) :
    renameEfun pol ex sym a b = (ask pol true a "rename").1 ++ (ask pol true b "rename").1 := by
  have hfit : renameSrcFits from_ = false := by simp [renameSrcFits, hs, hl]
  unfold renameEfun ask
  simp only [h1, h2, hfit, Bool.not_false, ↓reduceIte]

/-- whenever the stripped copy IS made it fits the buffer together with its NUL -/
theorem rename_copy_fits (from_ : CStr) (h : renameSrcFits from_ = true)
    (hs : from_.length > 1 ∧ from_.getLast? = some '/') :
    (renameSrc from_).length + 1 ≤ renameNewfromSize := by
  simp only [renameSrcFits, hs, and_self, decide_true, Bool.true_and, Bool.not_eq_eq_eq_not, Bool.not_true,
    decide_eq_false_iff_not, ge_iff_le, Nat.not_le] at h
  simp only [renameSrc, hs, and_self, ↓reduceIte]
  omega

/-! ### whole histories -/

/-- one efun call of a case: the master policy in force, the files the harness added, the efun and its arguments -/
structure CallSpec where
  pol : Policy
  ex : List CStr
  efun : String
  args : List CStr
  a : CStr
  b : CStr

def CallSpec.events (c : CallSpec) : List Ev := .call c.efun whoObj c.args :: efunEvents c.pol c.ex c.efun c.a c.b

theorem fold_history : ∀ (cs : List CallSpec) (s : JState), (∀ c ∈ cs, c.efun ∈ efunNames) → s.bad = [] →
    ((cs.flatMap CallSpec.events).foldl judgeStep s).bad = [] := by
  intro cs
  induction cs with
  | nil => intro s _ h; simpa using h
  | cons c rest ih =>
    intro s hall hb
    rw [List.flatMap_cons, List.foldl_append]
    apply ih _ (fun d hd => hall d (by simp [hd]))
    have hc := hall c (by simp)
    unfold CallSpec.events
    rw [List.foldl_cons]
    have hcc : compileCalls.contains c.efun = false := by
      simp only [efunNames, List.mem_cons, List.not_mem_nil, or_false] at hc
      rcases hc with h | h | h | h | h | h | h | h | h | h | h | h | h | h | h | h | h | h | h | h | h | h | h | h <;>
        rw [h] <;> decide
    exact fold_ok c.efun hcc _ (judgeStep s (.call c.efun whoObj c.args)) (by simpa [judgeStep] using hb) rfl rfl
      (efun_segOk c.pol c.ex c.efun c.a c.b hc)

/-- **model_satisfies_spec for whole histories**: ANY sequence of file efun calls — any efuns of the table, any
    arguments, the master policy and the file-system content changing arbitrarily between the calls — yields a model
    trace the oracle accepts: no approval is carried over from one call to the next (each `call` starts with an empty
    set of approvals) and every libc call is licensed within its own call. -/
theorem history_satisfies_spec (cs : List CallSpec) (h : ∀ c ∈ cs, c.efun ∈ efunNames) :
    judgeEv (cs.flatMap CallSpec.events) = [] := by
  unfold judgeEv
  rw [fold_history cs {} h rfl]; rfl

/-- non-vacuity: an approval obtained in one call does not license a libc call of the next -/
example : judgeEv [.call "read_file" whoObj [str "/d/f"], .valid false (str "/d/f") whoObj "read_file" .ok,
                   .fs "open" false (str "d/f"),
                   .call "read_file" whoObj [str "/d/f"], .fs "open" false (str "d/f")] ≠ [] := by decide

/-! ### symbolic links -/

/-- no component climbs -/
def compsSafe (cs : List CStr) : Prop := ∀ c ∈ cs, c ≠ dotdot

/-- the kernel's treatment of symbolic links while it resolves a (relative) path: a component that is a link is
    replaced by the components of the link's target text — a relative target is resolved in the directory that
    holds the link, i.e. exactly at this position; this may happen any number of times, at any position -/
inductive Expands (targets : List CStr) : List CStr → List CStr → Prop
  | refl (cs : List CStr) : Expands targets cs cs
  | step (pre post : List CStr) (c t : CStr) (cs' : List CStr) : t ∈ targets →
      Expands targets (pre ++ comps t ++ post) cs' → Expands targets (pre ++ [c] ++ post) cs'

/-- depth below the mudlib root while walking components; `none` = stepped above the root -/
def climb : Nat → List CStr → Option Nat
  | d, [] => some d
  | d, c :: cs =>
    if c = dotdot then (match d with
      | 0 => none
      | d + 1 => climb d cs)
    else if c = [] ∨ c = dot then climb d cs
    else climb (d + 1) cs

theorem compsSafe_never_climbs (cs : List CStr) (h : compsSafe cs) : ∀ d, (climb d cs).isSome = true := by
  induction cs with
  | nil => intro d; rfl
  | cons c r ih =>
    intro d
    have hc : c ≠ dotdot := h c (by simp)
    have hr : compsSafe r := fun x hx => h x (by simp [hx])
    simp only [climb, hc, ↓reduceIte]
    split
    · exact ih hr d
    · exact ih hr (d + 1)

/-- **what is promised about symbolic links.**  If every symbolic link inside the mudlib has a target text that is
    a safe path (relative, no ".." component) — and `link ()` creates no other (`link_creates_safe_targets`) — then
    whatever links the kernel follows while resolving a safe path, the expanded component sequence has no ".."
    and therefore never steps above the mudlib directory. -/
theorem symlinks_confined (targets : List CStr) (ht : ∀ t ∈ targets, safe t = true) (cs cs' : List CStr)
    (h : Expands targets cs cs') (hs : compsSafe cs) : compsSafe cs' ∧ ∀ d, (climb d cs').isSome = true := by
  induction h with
  | refl cs => exact ⟨hs, compsSafe_never_climbs cs hs⟩
  | step pre post c t cs' hmem _ ih =>
    apply ih
    intro x hx
    simp only [List.mem_append] at hx
    rcases hx with (hx | hx) | hx
    · exact hs x (by simp [hx])
    · exact ((safe_iff t).mp (ht t hmem)).2 x hx
    · exact hs x (by simp [hx])

theorem segOk_fs_safe (f : String) : ∀ (evs : List Ev) (apps : List Approval), segOk f apps evs →
    ∀ fn w p, Ev.fs fn w p ∈ evs → safe p = true := by
  intro evs
  induction evs with
  | nil => intro _ _ fn w p h; simp at h
  | cons e rest ih =>
    intro apps hs fn w p hm
    cases e with
    | valid w' path who op v =>
      obtain ⟨_, _, h3⟩ := hs
      simp only [List.mem_cons, reduceCtorEq, false_or] at hm
      exact ih _ h3 fn w p hm
    | fs fn' w' p' =>
      obtain ⟨h1, _, h3⟩ := hs
      simp only [List.mem_cons, Ev.fs.injEq] at hm
      rcases hm with ⟨_, _, rfl⟩ | hm
      · exact h1
      · exact ih _ h3 fn w p hm
    | note n =>
      simp only [List.mem_cons, reduceCtorEq, false_or] at hm
      exact ih _ hs fn w p hm
    | nest g w' a' inner =>
      simp only [List.mem_cons, reduceCtorEq, false_or] at hm
      exact ih _ hs.2 fn w p hm
    | edsave st' name =>
      simp only [List.mem_cons, reduceCtorEq, false_or] at hm
      exact ih _ hs.2 fn w p hm
    | lp _ _ => exact absurd hs (by simp [segOk])
    | il _ _ => exact absurd hs (by simp [segOk])
    | cvp _ _ _ => exact absurd hs (by simp [segOk])
    | sn _ _ => exact absurd hs (by simp [segOk])
    | inc _ _ _ _ => exact absurd hs (by simp [segOk])
    | call _ _ _ => exact absurd hs (by simp [segOk])
    | mode _ => exact absurd hs (by simp [segOk])

/-- the target text and the location of every symbolic link `link (a, b)` creates are safe paths, for all
    arguments, master policies and file-system contents (the `note` of the `valid_link` consultation aside) -/
theorem link_creates_safe_targets (pol : Policy) (ex : List CStr) (a b : CStr) (fn : String) (w : Bool) (p : CStr)
    (h : Ev.fs fn w p ∈ efunEvents pol ex "link" a b) : safe p = true :=
  segOk_fs_safe "link" _ [] (efun_segOk pol ex "link" a b (by decide)) fn w p h

/-- non-vacuity: a link whose target would climb is NOT expanded safely, and is rejected by the hypothesis -/
example : climb 0 [str "d", dotdot, dotdot] = none := by decide
example : (climb 0 (comps (str "d/sub//x"))).isSome = true := by decide
example : safe (str "../x") = false := by decide

end NV.C15
