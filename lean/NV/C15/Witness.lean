/-
C15 — Lean-checked counterexamples: statements that would be nice but are FALSE for the code as it is.
-/
import NV.C15.Props

namespace NV.C15

/-- FULL statement about the include normaliser alone: from a safe including file it never produces an
    unsafe path. -/
def include_normaliser_confined_Full : Prop :=
  ∀ base name : CStr, safe base = true → safe (incNormal base name) = true

/-- FALSE: `#include ".."` in `/x.c` normalises to ".." (the parent of the mudlib directory). -/
theorem include_normaliser_not_confined : ¬ include_normaliser_confined_Full := by
  intro h
  have := h (str "x.c") (str "..") (by decide)
  revert this
  decide

/-- inner ".." are resolved, a trailing one is not: `#include "room/../.."` -/
theorem include_normaliser_trailing_dotdot :
    incNormal (str "x.c") (str "room/../..") = str ".." := by decide

/-- the `slash - from` quirk: text after "..//" is appended unnormalised, so an arbitrary path above the
    mudlib is reachable -/
theorem include_normaliser_slash_quirk :
    incNormal (str "x.c") (str "x/..//../../etc/passwd") = str "../../etc/passwd" := by decide

/-- the code BEFORE the repair (`guarded = false`) opens that path; the repaired code does not. -/
theorem include_unguarded_escapes :
    incTries false [str "include"] (str "x.c") (str "x/..//../../etc/passwd") = [str "../../etc/passwd"]
    ∧ incTries true [str "include"] (str "x.c") (str "x/..//../../etc/passwd") = [] := by decide

theorem include_unguarded_escapes_dotdot :
    incTries false [str "include"] (str "x.c") (str "..") = [str ".."]
    ∧ incTries true [str "include"] (str "x.c") (str "..") = [] := by decide

/-- the hypothesis `d ≠ []` of `include_path_confined` is needed: an EMPTY include directory (config
    `IncludeDir /` or an empty entry "a::b") passes `legal_path ("")` in `set_inc_list` and makes the
    fallback open an ABSOLUTE host path. -/
theorem include_empty_dir_absolute :
    incTries true [[]] (str "x.c") (str "etc/passwd") = [str "etc/passwd", str "/etc/passwd"] := by decide

/-- FULL statement about the existence probe of load_object -/
def load_probe_confined_Full : Prop :=
  ∀ (name : CStr) (ex : CStr → Bool) (a : LoadAccess), loadAccess name ex = some a → safe a.probe = true

/-- FALSE: `load_object ("../x")` (also `inherit "../x"`, `clone_object`, `find_object` with load) stats
    "../x.c" before `legal_path` is consulted (existence of `*.c` files outside the mudlib leaks:
    "Illegal path name" vs. not found).  Nothing is opened: see `load_open_confined`. -/
theorem load_probe_not_confined : ¬ load_probe_confined_Full := by
  intro h
  have := h (str "../x") (fun _ => false) { probe := str "../x.c", opened := none } (by decide)
  revert this
  decide

end NV.C15
