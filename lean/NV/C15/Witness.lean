/-
C15 — Lean-checked counterexamples: statements that would be nice but are FALSE, and what the code did
BEFORE the repairs (`guarded = false` / `slashQuirk = true` select the old code in the model).
-/
import NV.C15.Props

namespace NV.C15

/-- FULL statement about the include normaliser alone: from a safe including file it never produces an
    unsafe path. -/
def include_normaliser_confined_Full : Prop :=
  ∀ base name : CStr, safe base = true → safe (incNormal base name) = true

/-- FALSE (still, by design: the normaliser resolves inner "../" only; `inc_open` filters the result with
    `legal_path`): `#include ".."` in `/x.c` normalises to "..". -/
theorem include_normaliser_not_confined : ¬ include_normaliser_confined_Full := by
  intro h
  have := h (str "x.c") (str "..") (by decide)
  revert this
  decide

/-- inner ".." are resolved, a trailing one is not: `#include "room/../.."` -/
theorem include_normaliser_trailing_dotdot :
    incNormal (str "x.c") (str "room/../..") = str ".." := by decide

/-- the `slash - from` quirk of the code before repair `cddd4be`: text after "..//" was appended
    unnormalised; the repaired normaliser resolves it -/
theorem include_normaliser_slash_quirk :
    incNormal (str "x.c") (str "x/..//../../etc/passwd") (slashQuirk := true) = str "../../etc/passwd"
    ∧ incNormal (str "x.c") (str "x/..//../../etc/passwd") = [] := by decide

/-- …and every such spot duplicated the rest of the name (quadratic growth → buffer overrun) -/
theorem include_normaliser_quirk_duplicates :
    incNormal (str "x.c") (str "a/..//a/..//bbbb") (slashQuirk := true) = str "a/..//bbbb/bbbb/bbbb"
    ∧ incNormal (str "x.c") (str "a/..//a/..//bbbb") = str "bbbb" := by decide

/-- the code BEFORE the repairs opened that path; the repaired code tries only "" (which cannot be opened). -/
theorem include_unguarded_escapes :
    incTries false [str "include"] (str "x.c") (str "x/..//../../etc/passwd") = [str "../../etc/passwd"]
    ∧ incTries true [str "include"] (str "x.c") (str "x/..//../../etc/passwd") = [[]] := by decide

theorem include_unguarded_escapes_dotdot :
    incTries false [str "include"] (str "x.c") (str "..") = [str ".."]
    ∧ incTries true [str "include"] (str "x.c") (str "..") = [] := by decide

/-- the hypothesis `d ≠ []` of `include_path_confined` is needed: an EMPTY include directory makes the
    fallback open an ABSOLUTE host path.  `set_inc_list` before repair `882182f` stored "" for the
    entry "/" (or an empty entry); the repaired one stores "." (`incDirOf`, theorem `inc_dir_ok`). -/
theorem include_empty_dir_absolute :
    incTries true [[]] (str "x.c") (str "etc/passwd") = [str "etc/passwd", str "/etc/passwd"]
    ∧ incTries true ([str "/"].filterMap incDirOf) (str "x.c") (str "etc/passwd")
        = [str "etc/passwd", str "./etc/passwd"] := by decide

end NV.C15
