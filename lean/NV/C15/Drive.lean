/-
C15 driver: `model` mode runs the executable model on the case lines the harness executes
(harness/c15/c15.c documents the commands); `judge` mode parses an implementation trace into events
and applies the specification oracle `judgeEv`.
-/
import NV.Common.Proto
import NV.C15.Model
import NV.C15.Spec
import NV.C15.Sys

namespace NV.C15

open NV.Proto

/-! ### rendering (must equal the harness output format) -/

def showV : Verdict → String
  | .deny => "0"
  | .ok => "1"
  | .rewrite s => "=" ++ showP s
  | .odd w => "odd:" ++ w
  | .absent => "absent"
  | .raise => "raise"

def render : Ev → String
  | .lp s v => s!"lp {showP s} {if v then 1 else 0}"
  | .cvp v s r => s!"cvp {showV v} {showP s} -> {if v.raises then "!err" else showO r}"
  | .sn s r => s!"sn {showP s} -> {showO r}"
  | .inc b n nm ts => s!"inc {showP b} {showP n} -> {showP nm} tries" ++ String.join (ts.map (fun t => " " ++ showP t))
  | .il l es => s!"il {showP l} ->" ++ String.join (es.map (fun e => match e with
      | some d => " " ++ showP d
      | none => " -"))
  | .call f who args => s!"call {f} {who}" ++ String.join (args.map (fun t => " " ++ showP t))
  | .valid w p who op v => s!"{if w then "valid_write" else "valid_read"} {showP p} {who} {op} -> {showV v}"
  | .fs fn w p => s!"fs {fn} {if w then "w" else "r"} {showP p}"
  | .mode b => if b then "master absent" else "master present"
  | .edsave st n => s!"ed_save_name {showP st} -> ={showP n}"
  | .nest g who args _ => s!"ncall {g} {who}" ++ String.join (args.map (fun t => " " ++ showP t))
  | .note s => s

def renderN (who : String) : NEv → String
  | .valid w p whoOk op v =>
    s!"{if w then "valid_write" else "valid_read"} {showP p} {if whoOk then who else "?"} {op} -> {showV v}"
  | .fs fn w p => s!"fs {fn} {if w then "w" else "r"} {showP p}"
  | .note s => s

/-- a nested call is printed as the block `ncall … / its lines / nend` -/
def renderLines : Ev → List String
  | .nest g who args inner => render (.nest g who args inner) :: inner.map (renderN who) ++ ["nend"]
  | e => [render e]

/-! ### parsing -/

def unbr (t : String) : Option CStr :=
  if t.startsWith "[" && t.endsWith "]" && t.length ≥ 2 then some ((t.drop 1).dropEnd 1).toString.toList else none

def parseV (t : String) : Option Verdict :=
  if t == "0" then some .deny
  else if t == "1" then some .ok
  else if t.startsWith "=" then (unbr (t.drop 1).toString).map .rewrite
  else if t.startsWith "odd:" then some (.odd (t.drop 4).toString)
  else if t == "absent" then some .absent
  else if t == "raise" then some .raise
  else none

def parseO (t : String) : Option (Option CStr) :=
  if t == "none" || t == "!err" then some none else (unbr t).map some

def parsePolicy0 (t : String) : Option Policy :=
  if t == "deny" then some .deny
  else if t == "allow" then some .allow
  else if t == "echo" then some .echo
  else if t.startsWith "fixed=" then (unbr (t.drop 6).toString).map .fixed
  else if t == "raise" then some .raise
  else if t == "ro" then some .readOnly
  else if t == "wo" then some .writeOnly
  else if t.startsWith "ropath=" then (unbr (t.drop 7).toString).map .roPath
  else if t.startsWith "raiseon=" then (unbr (t.drop 8).toString).map .raiseOn
  else if t.startsWith "odd=" then (unbr (t.drop 4).toString).map (fun w => .odd (unstr w))
  else none

/-- `nested=[<efun>,<path>,<kind>[,<string>]]`: a re-entrant master that answers like `<kind>[=[<string>]]` -/
def parsePolicy (t : String) : Option Policy :=
  if t.startsWith "nested=" then
    match unbr (t.drop 7).toString with
    | none => none
    | some body =>
      match (unstr body).splitOn "," with
      | [g, p, k] => (parsePolicy0 k).map (.nested g p.toList)
      | [g, p, k, x] => (parsePolicy0 (k ++ "=[" ++ x ++ "]")).map (.nested g p.toList)
      | _ => none
  else parsePolicy0 t

/-- implementation trace line -> event -/
def parseEv (line : String) : Ev :=
  match toks line with
  | ["lp", s, v] => match unbr s with
    | some s => .lp s (v == "1")
    | none => .note line
  | ["cvp", v, s, "->", r] => match parseV v, unbr s, parseO r with
    | some v, some s, some r => .cvp v s r
    | _, _, _ => .note line
  | ["sn", s, "->", r] => match unbr s, parseO r with
    | some s, some r => .sn s r
    | _, _ => .note line
  | "inc" :: b :: n :: "->" :: nm :: "tries" :: ts => match unbr b, unbr n, unbr nm with
    | some b, some n, some nm => .inc b n nm (ts.filterMap unbr)
    | _, _, _ => .note line
  | "il" :: l :: "->" :: es => match unbr l with
    | some l => .il l (es.map (fun t => if t == "-" then none else unbr t))
    | none => .note line
  | ["ed_save_name", st, "->", n] =>
    (match unbr st, (if n.startsWith "=" then unbr (n.drop 1).toString else none) with
     | some st, some n => .edsave st n
     | _, _ => .note line)
  | "call" :: f :: who :: args => .call f who (args.filterMap unbr)
  | [vk, p, who, op, "->", v] =>
    if vk == "valid_read" || vk == "valid_write" then
      match unbr p, parseV v with
      | some p, some v => .valid (vk == "valid_write") p who op v
      | _, _ => .note line
    else .note line
  | ["master", "absent"] => .mode true
  | ["master", "present"] => .mode false
  | ["fs", fn, k, p] => match unbr p with
    | some p => .fs fn (k == "w") p
    | none => .note line
  | _ => .note line

/-! ### model mode -/

def nthString (alpha : CStr) (len idx : Nat) : CStr :=
  let k := alpha.length
  let rec go : Nat → Nat → CStr → CStr
    | 0, _, acc => acc
    | n + 1, i, acc => go n (i / k) (alpha.getD (i % k) 'a' :: acc)
  go len idx []

def enumStrings (alpha : String) (len frm cnt : Nat) : List CStr :=
  (List.range cnt).map (fun i => nthString alpha.toList len (frm + i))

structure MState where
  pol : Policy := .allow
  absent : Bool := false      -- run with the master that has no valid_read / valid_write
  out : List String := []     -- newest first

def MState.emit (s : MState) (evs : List Ev) : MState :=
  { s with out := (evs.flatMap renderLines).reverse ++ s.out }

def uLp (s : CStr) : Ev := .lp s (legalPath s)
def uCvp (pol : Policy) (s : CStr) : Ev :=
  .cvp (pol.verdict false s) s (checkValidPath true (pol.verdict false s) s)   -- the harness asks with writeflg = 0
def uSn (s : CStr) : Ev := .sn s (stripName s)
def uIl (list : CStr) : List Ev := [.il list ((incListOf list).getD [])]
def uInc (base name : CStr) : Ev := .inc base name (incNormal base name) (incTries incGuarded incDirs base name)

def parseEdCmd (t : String) : Option EdCmd :=
  let (c, arg) := match t.splitOn ":" with
    | [c] => (c, "")
    | c :: rest => (c, ":".intercalate rest)
    | [] => ("", "")
  let a := arg.toList
  match c with
  | "a" => some (.a a) | "e" => some (.e a) | "E" => some (.E a) | "f" => some (.f a) | "r" => some (.r a)
  | "w" => some (.w a) | "W" => some (.W a) | "D" => some (.D a)
  | "x" => if a = [] then some .x else none
  | "q" => if a = [] then some .q else none
  | "Q" => if a = [] then some .Q else none
  | _ => none

def parseEdCmds (t : String) : Option (List EdCmd) :=
  let parts := (t.splitOn ",").filter (· ≠ "")
  let cs := parts.map parseEdCmd
  if cs.all Option.isSome then some (cs.filterMap id) else none

def modelLine (s : MState) (line : String) : MState :=
  let bad := { s with out := s!"bad-line {line}" :: s.out }
  match toks line with
  | [] => s
  | ["policy", p] => match parsePolicy p with
    | some p => { s with pol := p }
    | none => bad
  | ["ulp1", x] => match unbr x with
    | some x => s.emit [uLp x]
    | none => bad
  | ["usn1", x] => match unbr x with
    | some x => s.emit [uSn x]
    | none => bad
  | ["ucvp1", p, x] => match parsePolicy p, unbr x with
    | some p, some x => { s with pol := p }.emit [uCvp p x]
    | _, _ => bad
  | ["uil1", x] => match unbr x with
    | some x => s.emit (uIl x)
    | none => bad
  | ["uil", al, len, frm, cnt] => match len.toNat?, frm.toNat?, cnt.toNat? with
    | some l, some f, some c => s.emit ((enumStrings al l f c).flatMap uIl)
    | _, _, _ => bad
  | ["uinc1", b, x] => match unbr b, unbr x with
    | some b, some x => s.emit [uInc b x]
    | _, _ => bad
  | ["ulp", al, len, frm, cnt] => match len.toNat?, frm.toNat?, cnt.toNat? with
    | some l, some f, some c => s.emit ((enumStrings al l f c).map uLp)
    | _, _, _ => bad
  | ["usn", al, len, frm, cnt] => match len.toNat?, frm.toNat?, cnt.toNat? with
    | some l, some f, some c => s.emit ((enumStrings al l f c).map uSn)
    | _, _, _ => bad
  | ["ucvp", p, al, len, frm, cnt] => match parsePolicy p, len.toNat?, frm.toNat?, cnt.toNat? with
    | some p, some l, some f, some c => { s with pol := p }.emit ((enumStrings al l f c).map (uCvp p))
    | _, _, _, _ => bad
  | ["uinc", b, al, len, frm, cnt] => match unbr b, len.toNat?, frm.toNat?, cnt.toNat? with
    | some b, some l, some f, some c => s.emit ((enumStrings al l f c).map (uInc b))
    | _, _, _, _ => bad
  | ["master", "absent"] => { s with absent := true }.emit [.mode true]
  | ["es", f] => match unbr f with
    | some f => s.emit (sysSession s.absent s.pol [] [.start f])
    | none => bad
  | ["es", f, cs] => match unbr f, parseEdCmds cs with
    | some f, some cs => s.emit (sysSession s.absent s.pol [] (.start f :: cs))
    | _, _ => bad
  | ["fx", "ed", a] => match unbr a with
    | some a => s.emit (sysSession s.absent s.pol [] [.start a])
    | none => bad
  | ["fx", "ed", a, b] => match unbr a, unbr b with
    | some a, some b => s.emit (sysSession s.absent s.pol [] (.start a :: (if b = [] then [] else [.w b])))
    | _, _ => bad
  | ["fx", e, a] => match unbr a with
    | some a => s.emit (.call e whoObj [a] :: sysEvents s.absent s.pol [] e a [])
    | none => bad
  | ["fx", e, a, b] => match unbr a, unbr b with
    | some a, some b => s.emit (.call e whoObj [a, b] :: sysEvents s.absent s.pol [] e a b)
    | _, _ => bad
  | ["inc", b, n] => match unbr b, unbr n with
    | some b, some n => s.emit (.call "include" "-" [b, n] :: includeEvents b n)
    | _, _ => bad
  | ["inca", b, n] => match unbr b, unbr n with       -- `#include <name>`: handled exactly like "name"
    | some b, some n => s.emit (.call "include" "-" [b, n] :: includeEvents b n)
    | _, _ => bad
  | ["incm", b, n] => match unbr b, unbr n with       -- `#include MACRO` with MACRO = "name"
    | some b, some n => s.emit (.call "include" "-" [b, n] :: includeEvents b n)
    | _, _ => bad
  | ["inh", b, n] => match unbr b, unbr n with
    | some b, some n => s.emit (.call "inherit" "-" [b, n] :: inheritEvents b n)
    | _, _ => bad
  | ["binaries", "on"] => s.emit [.note "binaries on"]
  | ["ldb", n] => match unbr n with
    | some n => s.emit (.call "binary" "-" [n] :: binaryEvents n)
    | none => bad
  | ["ld", n] => match unbr n with
    | some n => s.emit (.call "load" "-" [n] :: (loadEvents [] n).1)
    | none => bad
  | _ => if line.startsWith "#" then s else bad

def runModel (lines : List String) : List String :=
  (lines.foldl modelLine {}).out.reverse

/-! ### judge mode -/

def toNEv (who : String) : Ev → NEv
  | .valid w p w' op v => .valid w p (w' == who) op v
  | .fs fn w p => .fs fn w p
  | e => .note (render e)

structure PState where
  out : List Ev := []                                           -- newest first
  cur : Option (String × String × List CStr × List NEv) := none  -- open nested block (inner newest first)

/-- lines → events; the lines between `ncall <efun> <who> [arg]…` and `nend` become ONE `Ev.nest`
    (a block that is not closed — the nested call crashed or raised — ends with the trace) -/
def parseStep (s : PState) (l : String) : PState :=
  match s.cur with
  | some (g, who, args, inner) =>
    if l == "nend" then { out := .nest g who args inner.reverse :: s.out, cur := none }
    else { s with cur := some (g, who, args, toNEv who (parseEv l) :: inner) }
  | none =>
    match toks l with
    | "ncall" :: g :: who :: args => { s with cur := some (g, who, args.filterMap unbr, []) }
    | _ => { s with out := parseEv l :: s.out }

def parseTrace (ls : List String) : List Ev :=
  let s := ls.foldl parseStep {}
  (match s.cur with
   | some (g, who, args, inner) => Ev.nest g who args inner.reverse :: s.out
   | none => s.out).reverse

def runJudge (body : List String) : List String :=
  let (_input, impl) := splitJudge body
  let crashes := impl.filter (fun l => l.startsWith "crash " || l.startsWith "sanitizer ")
  match judgeEv (parseTrace impl), crashes with
  | [], [] => ["ok"]
  | vs, cs => vs.map (fun v => s!"bad {v.kind} {v.detail}") ++ cs.map (fun c => s!"bad crash {c}")

def main (mode : String) : IO Unit :=
  match mode with
  | "model" => serve runModel
  | "judge" => serve runJudge
  | _ => IO.eprintln s!"C15: unknown mode {mode}"

end NV.C15
