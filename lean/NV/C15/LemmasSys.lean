/-
C15 — lemmas for `model_satisfies_spec` (system-style efun model): component facts about prefixes,
children and the derived paths of the efuns, and the segment form of the oracle.
-/
import NV.C15.Props
import NV.C15.Sys

namespace NV.C15

/-! ### components of concatenations -/

theorem comps_append (x : CStr) : ∃ init last, comps x = init ++ [last] ∧
    ∀ y hy ty, comps y = hy :: ty → comps (x ++ y) = init ++ (last ++ hy) :: ty := by
  induction x with
  | nil => exact ⟨[], [], by simp [comps], by intro y hy ty h; simpa using h⟩
  | cons c r ih =>
    obtain ⟨init, last, h1, h2⟩ := ih
    by_cases hc : c = '/'
    · subst hc
      refine ⟨[] :: init, last, by simp [comps_slash, h1], ?_⟩
      intro y hy ty h
      simp [comps_slash, h2 y hy ty h]
    · obtain ⟨h, t, e1, e2⟩ := comps_cons_ne hc r
      cases init with
      | nil =>
        simp at h1
        rw [h1] at e1; cases e1
        refine ⟨[], c :: last, by simp [e2], ?_⟩
        intro y hy ty hy'
        obtain ⟨h', t', e3, e4⟩ := comps_cons_ne hc (r ++ y)
        rw [List.cons_append, e4]
        rw [h2 y hy ty hy'] at e3
        simp at e3
        simp [e3.1, e3.2]
      | cons i0 irest =>
        rw [h1] at e1
        simp at e1
        refine ⟨(c :: i0) :: irest, last, by simp [e2, e1.1, e1.2], ?_⟩
        intro y hy ty hy'
        obtain ⟨h', t', e3, e4⟩ := comps_cons_ne hc (r ++ y)
        rw [List.cons_append, e4]
        rw [h2 y hy ty hy'] at e3
        simp at e3
        simp [e3.1, e3.2]

theorem comps_noslash (b : CStr) (h : '/' ∉ b) : comps b = [b] := by
  induction b with
  | nil => rfl
  | cons c r ih =>
    have hc : c ≠ '/' := fun e => h (by simp [e])
    have hr : '/' ∉ r := fun e => h (by simp [e])
    obtain ⟨h', t', e1, e2⟩ := comps_cons_ne hc r
    rw [e2]; rw [ih hr] at e1; cases e1; rfl

theorem safe_iff (p : CStr) :
    safe p = true ↔ p.head? ≠ some '/' ∧ ∀ c ∈ comps p, c ≠ dotdot := by
  simp [safe, absolute]

/-- a prefix that is cut at the end of the string or in front of a '/' has only components of the whole -/
theorem safe_prefix (x y : CStr) (hy : y = [] ∨ y.head? = some '/') (h : safe (x ++ y) = true) :
    safe x = true := by
  rw [safe_iff] at h ⊢
  obtain ⟨init, last, h1, h2⟩ := comps_append x
  have hcy : ∃ ty, comps y = [] :: ty := by
    rcases hy with rfl | hy
    · exact ⟨[], rfl⟩
    · cases y with
      | nil => simp at hy
      | cons c r => simp at hy; subst hy; exact ⟨comps r, comps_slash r⟩
  obtain ⟨ty, hty⟩ := hcy
  have := h2 y [] ty hty
  constructor
  · cases x with
    | nil => simp
    | cons c r => simpa using h.1
  · intro c hc
    apply h.2
    rw [this]
    rw [h1] at hc
    simp at hc ⊢
    rcases hc with hc | hc
    · exact Or.inl hc
    · exact Or.inr (Or.inl hc)

/-- `save_object`: the temporary name built from a prefix of a safe path -/
theorem safe_prefix_tmp (x y : CStr) (h : safe (x ++ y) = true) : safe (x ++ str ".tmp") = true := by
  rw [safe_iff] at h ⊢
  obtain ⟨init, last, h1, h2⟩ := comps_append x
  have hy : ∃ hy ty, comps y = hy :: ty := by
    cases hc : comps y with
    | nil => exact absurd hc (comps_ne_nil y)
    | cons a b => exact ⟨a, b, rfl⟩
  obtain ⟨hy, ty, hty⟩ := hy
  have e1 := h2 y hy ty hty
  have e2 := h2 (str ".tmp") (str ".tmp") [] (by decide)
  constructor
  · cases x with
    | nil => decide
    | cons c r => simpa using h.1
  · intro c hc
    rw [e2] at hc
    simp at hc
    rcases hc with hc | hc
    · apply h.2; rw [e1]; simp [hc]
    · subst hc
      intro e
      have := congrArg List.length e
      simp [dotdot, str] at this

theorem safe_child (to b : CStr) (h0 : to ≠ []) (h : safe to = true) (hb : '/' ∉ b) (hd : b ≠ dotdot) :
    safe (to ++ ['/'] ++ b) = true := by
  rw [safe_iff] at h ⊢
  constructor
  · cases to with
    | nil => exact absurd rfl h0
    | cons c r => simpa using h.1
  · intro c hc
    rw [List.append_assoc, List.singleton_append, comps_append_slash, comps_noslash b hb] at hc
    simp at hc
    rcases hc with hc | hc
    · exact h.2 c hc
    · exact hc ▸ hd

/-! ### the string surgery of the efuns -/

theorem mem_takeWhile_sat {α} (q : α → Bool) (l : List α) (x : α) (h : x ∈ l.takeWhile q) : q x = true := by
  induction l with
  | nil => simp at h
  | cons a r ih =>
    rw [List.takeWhile_cons] at h
    split at h
    · simp at h
      rcases h with rfl | h
      · assumption
      · exact ih h
    · simp at h

theorem dropWhile_head_unsat {α} (q : α → Bool) (l : List α) (c : α) (r : List α)
    (h : l.dropWhile q = c :: r) : q c = false := by
  induction l with
  | nil => simp at h
  | cons a t ih =>
    rw [List.dropWhile_cons] at h
    split at h
    · exact ih h
    · rename_i hq; cases h; simpa using hq

/-- a list is its `takeWhile` alone, or `takeWhile ++ c :: rest` with `c` failing the test -/
theorem split_tw {α} (q : α → Bool) (l : List α) :
    (l.dropWhile q = [] ∧ l.takeWhile q = l) ∨
    (∃ c rest, l.dropWhile q = c :: rest ∧ q c = false ∧ l = l.takeWhile q ++ c :: rest) := by
  have hs := List.takeWhile_append_dropWhile (p := q) (l := l)
  cases hd : l.dropWhile q with
  | nil => left; rw [hd, List.append_nil] at hs; exact ⟨rfl, hs⟩
  | cons c rest =>
    right
    refine ⟨c, rest, rfl, dropWhile_head_unsat q l c rest hd, ?_⟩
    rw [hd] at hs; exact hs.symm

/-- splitting at the LAST slash -/
theorem split_last_slash (p : CStr) :
    ('/' ∉ p ∧ baseName p = p ∧ p.reverse.dropWhile (· ≠ '/') = []) ∨
    (∃ z, p = z ++ '/' :: baseName p ∧ z = ((p.reverse.dropWhile (· ≠ '/')).drop 1).reverse) := by
  unfold baseName
  rcases split_tw (fun c : Char => decide (c ≠ '/')) p.reverse with ⟨h1, h2⟩ | ⟨c, rest, h1, h2, h3⟩
  · left
    refine ⟨?_, by rw [h2]; simp, h1⟩
    intro hm
    have hm' : '/' ∈ p.reverse.takeWhile (fun c : Char => decide (c ≠ '/')) := by
      rw [h2]; simpa using hm
    have := mem_takeWhile_sat _ _ _ hm'
    simp at this
  · right
    have hc : c = '/' := by simpa using h2
    subst hc
    refine ⟨rest.reverse, ?_, by rw [h1]; simp⟩
    have := congrArg List.reverse h3
    rw [List.reverse_reverse, List.reverse_append, List.reverse_cons, List.append_assoc] at this
    simpa using this

theorem baseName_noslash (p : CStr) : '/' ∉ baseName p := by
  unfold baseName
  intro h
  rw [List.mem_reverse] at h
  have := mem_takeWhile_sat _ _ _ h
  simp at this

theorem baseName_mem_comps (p : CStr) : baseName p ∈ comps p := by
  rcases split_last_slash p with ⟨h1, h2, _⟩ | ⟨z, h1, _⟩
  · rw [h2, comps_noslash p h1]; simp
  · have : comps p = comps z ++ [baseName p] := by
      conv => lhs; rw [h1]
      rw [comps_append_slash, comps_noslash _ (baseName_noslash p)]
    rw [this]; simp

/-- `((p.reverse.dropWhile (· ≠ '/')).drop 1).reverse` (cutLast / parentDir / listDir) of a safe path is safe -/
theorem safe_cut (p : CStr) (h : safe p = true) :
    safe ((p.reverse.dropWhile (· ≠ '/')).drop 1).reverse = true := by
  rcases split_last_slash p with ⟨_, _, h3⟩ | ⟨z, h1, h2⟩
  · rw [h3]; decide
  · rw [← h2]
    exact safe_prefix z ('/' :: baseName p) (Or.inr rfl) (h1 ▸ h)

theorem safe_stripTrail (p : CStr) (h : safe p = true) : safe (stripTrailSlash p) = true := by
  unfold stripTrailSlash
  rcases split_tw (fun c : Char => decide (c = '/')) p.reverse with ⟨h1, h2⟩ | ⟨c, rest, h1, h2, h3⟩
  · -- all slashes
    rw [h1]
    cases p with
    | nil => decide
    | cons c r =>
      have hm : c ∈ (c :: r).reverse.takeWhile (fun c : Char => decide (c = '/')) := by rw [h2]; simp
      have := mem_takeWhile_sat _ _ _ hm
      simp at this
      subst this
      simp [safe, absolute] at h
  · rw [h1]
    simp only [List.reverse_cons]
    have hp : p = (rest.reverse ++ [c]) ++ (p.reverse.takeWhile (fun c : Char => decide (c = '/'))).reverse := by
      have := congrArg List.reverse h3
      rw [List.reverse_reverse, List.reverse_append, List.reverse_cons] at this
      exact this
    have hne : rest.reverse ++ [c] ≠ [] := by simp
    have hsafe : safe (rest.reverse ++ [c]) = true := by
      refine safe_prefix _ _ ?_ (hp ▸ h)
      cases ht : (p.reverse.takeWhile (fun c : Char => decide (c = '/'))).reverse with
      | nil => exact Or.inl rfl
      | cons d r =>
        right
        have hm : d ∈ (p.reverse.takeWhile (fun c : Char => decide (c = '/'))).reverse := by rw [ht]; simp
        rw [List.mem_reverse] at hm
        have := mem_takeWhile_sat _ _ _ hm
        simp at this
        simp [this]
    split
    · rename_i heq; exact absurd heq hne
    · exact hsafe

theorem safe_dot : safe dot = true := by decide

/-- the part in front of the last slash of a safe path is not empty (the path would be absolute) -/
theorem cut_ne_nil (p : CStr) (h : safe p = true) (hs : '/' ∈ p) :
    ((p.reverse.dropWhile (· ≠ '/')).drop 1).reverse ≠ [] := by
  rcases split_last_slash p with ⟨h1, _, _⟩ | ⟨z, h1, h2⟩
  · exact absurd hs h1
  · rw [← h2]
    intro hz
    rw [hz] at h1
    rw [safe_iff] at h
    apply h.1
    rw [h1]; rfl

theorem listDir_ne_nil (p : CStr) (h : safe p = true) (h0 : p ≠ []) : listDir p ≠ [] := by
  unfold listDir
  split
  · exact h0
  · simp only
    split
    · rename_i hc; exact cut_ne_nil p h hc.1
    · exact h0

theorem parentDir_ne_nil (p : CStr) (h : safe p = true) : parentDir p ≠ [] := by
  unfold parentDir
  split
  · rename_i hc; exact cut_ne_nil p h hc
  · simp [dot]

theorem safe_listDir (p : CStr) (h : safe p = true) : safe (listDir p) = true := by
  unfold listDir
  split
  · exact h
  · simp only
    split
    · exact safe_cut p h
    · exact h

theorem safe_parentDir (p : CStr) (h : safe p = true) : safe (parentDir p) = true := by
  unfold parentDir
  split
  · exact safe_cut p h
  · exact safe_dot

end NV.C15
