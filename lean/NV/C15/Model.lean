/-
C15 — executable model of the path filter of the driver, written from the C code that exists.

C strings are `List Char` (`CStr`): the end of the list plays the role of the terminating NUL, so a
`CStr` never "contains" a NUL (a C string cannot either).  Every function mirrors its C original
statement by statement; the quirks are kept (see the comments).

  legalPath        lib/efuns/file_utils.c  legal_path()
  checkValidPath   lib/efuns/file_utils.c  check_valid_path()   (master verdict is an input)
  stripName        lib/lpc/otable.c        strip_name()
  incNormal        lib/lpc/lex.c           inc_lexically_normal()
  incTries         lib/lpc/lex.c           inc_open()           (list of paths it tries to open, in order)
  loadProbe/...    src/simulate.c          load_object() name handling
-/
import NV.Gen.C15

namespace NV.C15

abbrev CStr := List Char

def str (s : String) : CStr := s.toList
def unstr (s : CStr) : String := String.ofList s

/-! ### legal_path -/

/-- `p = strstr (p, "/."); if (p) p++;`  — the suffix that starts at the '.' of the first "/." in `p` -/
def nextDot : CStr → Option CStr
  | [] => none
  | c :: r => if c = '/' ∧ r.head? = some '.' then some r else nextDot r

/-- outcome of the `if (p[0] == '.') { ... }` block of the loop body -/
inductive Step where
  | accept            -- `break` (trailing ".")
  | reject            -- `return 0`
  | cont (p : CStr)   -- fall through to the strstr with this `p`
  deriving Repr, DecidableEq

/--
```
if (p[0] == '.') {
    if (p[1] == '\0') break;              /* trailing `.' ok */
    if (p[1] == '.')  p++;                /* check for `..' or `../' */
    if (p[1] == '/' || p[1] == '\0') return 0;
}
``` -/
def legalStep (p : CStr) : Step :=
  match p with
  | [] => .cont []
  | c0 :: r0 =>
    if c0 ≠ '.' then .cont p else
    match r0 with
    | [] => .accept
    | c1 :: r1 =>
      if c1 = '.' then                      -- p++  (p is now r0 = '.' :: r1)
        match r1 with
        | [] => .reject
        | c2 :: _ => if c2 = '/' then .reject else .cont r0
      else if c1 = '/' then .reject else .cont p

/-- the `while (p)` loop; the fuel is an upper bound of the number of iterations (every iteration
    moves `p` strictly to the right, see `nextDot_length`) -/
def legalLoop : Nat → CStr → Bool
  | 0, _ => true
  | n + 1, p =>
    match legalStep p with
    | .accept => true
    | .reject => false
    | .cont p' =>
      match nextDot p' with
      | none => true
      | some q => legalLoop n q

/-- `int legal_path (const char *path)` (non-Windows branch) -/
def legalPath (s : CStr) : Bool :=
  if s.head? = some '/' then false          -- absolute path rejected
  else if '#' ∈ s then false                -- strchr (path, '#')
  else legalLoop (s.length + 1) s

/-! ### check_valid_path -/

/-- what `apply_master_ob (valid_read / valid_write)` did.  `apply_master_ob` does NOT catch errors (it is not
    `safe_apply_master_ob`): an error raised by the master function unwinds through `check_valid_path` and the
    efun that called it. -/
inductive Verdict where
  | deny                    -- T_NUMBER 0
  | ok                      -- T_NUMBER 1
  | rewrite (s : CStr)      -- T_STRING: the master substitutes its own path
  | odd (what : String)     -- any other value (negative / other int, float — even 0.0 —, array, object …):
                            -- `!(type == T_NUMBER && number == 0)` and not a string ⇒ treated as approval
  | absent                  -- the apply returned NULL: the master does not define the function ⇒ `v == 0` is
                            -- treated as approval of the ORIGINAL path (as coded; cf. MASTER_APPROVED)
  | raise                   -- the master function raised a runtime error: nothing is returned at all
  deriving Repr, DecidableEq

/-- does control come back from the master call? -/
def Verdict.raises : Verdict → Bool
  | .raise => true
  | _ => false

/-- `if (ret_path[0] == '/') ret_path++;` -/
def stripOneSlash (s : CStr) : CStr := if s.head? = some '/' then s.tail else s

/-- the tail of `check_valid_path` once the answer string is known -/
def cvpFinish (r : CStr) : Option CStr :=
  let r := stripOneSlash r                   -- if (ret_path[0] == '/') ret_path++;
  let r := if r = [] then ['.'] else r       -- if (ret_path[0] == '\0') ret_path = ".";
  if legalPath r then some r else none

/-- `char *check_valid_path (path, call_object, call_fun, writeflg)`;
    `callerOk = false` is `call_object == 0 || call_object->flags & O_DESTRUCTED` -/
def checkValidPath (callerOk : Bool) (v : Verdict) (path : CStr) : Option CStr :=
  if !callerOk then none else
  match v with
  | .deny => none                            -- T_NUMBER 0
  | .raise => none                           -- the error unwinds: no path, the caller does not continue
  | .ok => cvpFinish path                    -- ret_path = string_copy (path)
  | .odd _ => cvpFinish path                 --   "
  | .absent => cvpFinish path                --   "   (v == 0)
  | .rewrite s => cvpFinish s                -- ret_path = v->u.string

/-! ### strip_name -/

/-- the copy loop: at most `room` characters, `none` on a double slash -/
def copyNoDbl : Nat → Char → CStr → Option CStr
  | 0, _, _ => some []
  | _, _, [] => some []
  | n + 1, last, c :: r =>
    if last = '/' ∧ c = '/' then none
    else (copyNoDbl n c r).map (c :: ·)

/-- `while ((p - dest > 2) && p[-1] == 'c' && p[-2] == '.') p -= 2;` on the reversed string -/
def stripDotCRev : CStr → CStr
  | c :: d :: rest => if c = 'c' ∧ d = '.' ∧ rest.length > 0 then stripDotCRev rest else c :: d :: rest
  | r => r

/-- `int strip_name (const char *src, char *dest, size_t size)`; `none` = returns 0.
    Default size: `char name[PATH_MAX - 2]` of `load_object` (regenerated constant). -/
def stripName (src : CStr) (size : Nat := NV.Gen.C15.pathMax - 2) : Option CStr :=
  match copyNoDbl (size - 1) '\x00' (src.dropWhile (· = '/')) with
  | none => none
  | some d => some (stripDotCRev d.reverse).reverse

/-! ### load_object name handling -/

/-- `real_name` of `load_object (mudlib_filename)`: `strip_name` + ".c"; `none` = error "consecutive /'s" -/
def loadRealName (name : CStr) : Option CStr :=
  (stripName name).map (· ++ ['.', 'c'])

/-- paths `load_object` passes to the file system (`pre_text == NULL`): the name must pass `legal_path`
    BEFORE `stat (real_name)` (repaired code), the `open` follows when the stat succeeded. -/
structure LoadAccess where
  probe : Option CStr       -- stat (real_name)
  opened : Option CStr      -- FILE_OPEN (real_name)
  deriving Repr, DecidableEq

def loadAccess (name : CStr) (exists_ : CStr → Bool) : Option LoadAccess :=
  match loadRealName name with
  | none => none                                   -- error "consecutive /'s"
  | some rn =>
    if legalPath rn then                            -- legal = legal_path (real_name)
      some { probe := some rn, opened := if exists_ rn then some rn else none }
    else some { probe := none, opened := none }     -- treated as not found, never looked up

/-! ### #include path handling -/

/-- `if ((slash = strrchr (dest, '/'))) *slash = 0; else *dest = 0;` -/
def cutLast (d : CStr) : CStr :=
  if '/' ∈ d then (d.reverse.dropWhile (· ≠ '/')).drop 1 |>.reverse else []

def startsWith (s pre : CStr) : Bool := s.take pre.length == pre

/-- the `while (*from)` loop of `inc_lexically_normal` (repaired: the slashes that follow a "../" or
    "./" are skipped with it, so the append branch never starts at a '/').
    `slashQuirk = true` is the code before that repair: `slash = strchr (from, '/')` was computed
    BEFORE the `while (*from == '/') from++`, so for a `from` starting with '/' the length
    `slash - from` was negative (huge as a `size_t`) and `strncat` appended ALL of the remaining
    text unnormalised; the same text was then processed again. -/
def incLoop (slashQuirk : Bool) : Nat → CStr → CStr → CStr
  | 0, d, _ => d
  | n + 1, d, f =>
    let skip (g : CStr) : CStr := if slashQuirk then g else g.dropWhile (· = '/')
    if f = [] then d
    else if startsWith f ['.', '.', '/'] then
      if d = [] then d                                   -- break: above the mudlib
      else incLoop slashQuirk n (cutLast d) (skip (f.drop 3))
    else if startsWith f ['.', '/'] then incLoop slashQuirk n d (skip (f.drop 2))
    else
      let d1 := if d = [] then d else d ++ ['/']
      if '/' ∈ f then
        let f1 := f.dropWhile (· = '/')
        let app := if f.head? = some '/' then f1 else f.takeWhile (· ≠ '/')
        let rest := ((f.dropWhile (· ≠ '/')).drop 1).dropWhile (· = '/')
        incLoop slashQuirk n (d1 ++ app) rest
      else d1 ++ f

/-- `static void inc_lexically_normal (const char *abs_base, const char *name, char *dest)` -/
def incNormal (base name : CStr) (slashQuirk : Bool := false) : CStr :=
  let dest := cutLast base                                -- directory of the including file ("" = root)
  let from_ := name.dropWhile (· = '/')
  let dest := if name.head? = some '/' then [] else dest  -- absolute include: from the mudlib root
  incLoop slashQuirk (from_.length + 1) dest from_

/-- one entry of the include search path as `set_inc_list` stores it: one leading '/' removed, "" read as
    "." (the mudlib directory), dropped unless `legal_path` -/
def incDirOf (entry : CStr) : Option CStr :=
  let p := stripOneSlash entry
  let p := if p = [] then ['.'] else p
  if legalPath p then some p else none

/-- split at every ':' (never empty: `splitColon "" = [""]`) -/
def splitColon : CStr → List CStr
  | [] => [[]]
  | c :: r =>
    if c = ':' then [] :: splitColon r
    else match splitColon r with
      | [] => [[c]]
      | h :: t => (c :: h) :: t

/-- `set_inc_list (list)`: one slot per ':'-separated entry, `none` = dropped ("unsafe directory removed");
    an empty list string leaves the search path alone (`none`) -/
def incListOf (list : CStr) : Option (List (Option CStr)) :=
  if list = [] then none else some ((splitColon list).map incDirOf)

/-- `for (p = strchr (name, '.'); p; p = strchr (p + 1, '.')) if (p[1] == '.') return -1;` -/
def hasDotDot : CStr → Bool
  | [] => false
  | c :: r => (c = '.' ∧ r.head? = some '.') || hasDotDot r

/-- the paths `inc_open (buf, name)` hands to `open()`, in order, until one succeeds.
    `guarded = true` is the repaired code (the normalised path must pass `legal_path`);
    `guarded = false` the code before the repair.  Combinations that do not fit the 1024-byte path
    buffer (`INC_BUF_SIZE`) are refused. -/
def incTries (guarded : Bool) (incDirs : List CStr) (base name : CStr) : List CStr :=
  if base.length + name.length + 2 > NV.Gen.C15.incBufSize then [] else
  let first := incNormal base name (slashQuirk := !guarded)
  (if !guarded || legalPath first then [first] else []) ++
  (if hasDotDot name then []
   else (incDirs.filter (fun d => !(d.length + name.length + 2 > NV.Gen.C15.incBufSize))).map
          (fun d => d ++ ['/'] ++ name))

end NV.C15
