/-
C15 — `model_satisfies_spec`: for EVERY file efun of the table, every path string(s), every master policy
(deny / allow / echo / rewrite to any string) and every file-system content (`ex`, and whatever the fixture
holds: the proof never looks at `lookup`), the trace of the system-style model satisfies the oracle:
every libc call is preceded by a master approval of the right kind whose (legal) path is the touched path or
one directly derived from it, the operation name is the documented one, nothing absolute, no ".." component.
-/
import NV.C15.LemmasSys

namespace NV.C15

def opOk (f op : String) : Bool :=
  match opNames.find? (·.1 == f) with
  | some (_, ops) => ops.contains op
  | none => true

/-- the oracle, read as a predicate on the events that follow one `call` of efun `f` -/
def segOk (f : String) : List Approval → List Ev → Prop
  | _, [] => True
  | apps, .valid w path who op v :: rest =>
    who = whoObj ∧ opOk f op = true ∧ segOk f ((approvalOf w v path).toList ++ apps) rest
  | apps, .fs fn w p :: rest => safe p = true ∧ apps.any (okBy fn w p) = true ∧ segOk f apps rest
  | apps, .note _ :: rest => segOk f apps rest
  | apps, .nest g _ _ inner :: rest => judgeNest g inner = [] ∧ segOk f apps rest
  | apps, .edsave _ name :: rest => f = "ed" ∧ segOk f (⟨true, stripOneSlash name⟩ :: apps) rest
  | _, _ :: _ => False

theorem fold_ok (f : String) (hf : compileCalls.contains f = false) :
    ∀ (evs : List Ev) (s : JState), s.bad = [] → s.efun = f → s.who = whoObj →
      segOk f s.approvals evs → (evs.foldl judgeStep s).bad = [] := by
  intro evs
  induction evs with
  | nil => intro s h _ _ _; simpa using h
  | cons e rest ih =>
    intro s hb he hw hs
    rw [List.foldl_cons]
    cases e with
    | valid w path who op v =>
      obtain ⟨h1, h2, h3⟩ := hs
      subst h1
      have hstep : ∃ s', judgeStep s (.valid w path whoObj op v) = s' ∧ s'.bad = [] ∧ s'.efun = f ∧
          s'.who = whoObj ∧ s'.approvals = (approvalOf w v path).toList ++ s.approvals := by
        unfold opOk at h2
        simp only [judgeStep, he, hf, hw]
        cases hfind : opNames.find? (fun x => x.1 == f) with
        | none =>
          cases approvalOf w v path <;> simp [hb, he, hw]
        | some pr =>
          rw [hfind] at h2
          simp only at h2
          have h2' : op ∈ pr.snd := by simpa using h2
          cases approvalOf w v path <;> simp [h2', hb, he, hw]
      obtain ⟨s', e1, e2, e3, e4, e5⟩ := hstep
      rw [e1]
      exact ih s' e2 e3 e4 (e5 ▸ h3)
    | fs fn w p =>
      obtain ⟨h1, h2, h3⟩ := hs
      have hstep : judgeStep s (.fs fn w p) = s := by
        have hna : absolute p = false := by
          simp [safe] at h1; simpa [absolute] using h1.1
        simp [judgeStep, hna, h1, he, hf, h2]
      rw [hstep]
      exact ih s hb he hw h3
    | note n => exact ih s hb he hw hs
    | nest g w' a' inner =>
      obtain ⟨h1, h2⟩ := hs
      have hstep : judgeStep s (.nest g w' a' inner) = s := by simp [judgeStep, h1]
      rw [hstep]
      exact ih s hb he hw h2
    | edsave st' name =>
      obtain ⟨h1, h2⟩ := hs
      subst h1
      exact ih _ (by simp [judgeStep, he, hb]) (by simp [judgeStep, he]) (by simp [judgeStep, he, hw])
        (by simpa [judgeStep, he] using h2)
    | lp _ _ => exact absurd hs (by simp [segOk])
    | il _ _ => exact absurd hs (by simp [segOk])
    | cvp _ _ _ => exact absurd hs (by simp [segOk])
    | sn _ _ => exact absurd hs (by simp [segOk])
    | inc _ _ _ _ => exact absurd hs (by simp [segOk])
    | call _ _ _ => exact absurd hs (by simp [segOk])
    | mode _ => exact absurd hs (by simp [segOk])

theorem judge_of_segOk (f : String) (args : List CStr) (evs : List Ev)
    (hf : compileCalls.contains f = false) (h : segOk f [] evs) :
    judgeEv (.call f whoObj args :: evs) = [] := by
  unfold judgeEv
  rw [List.foldl_cons]
  have := fold_ok f hf evs (judgeStep {} (.call f whoObj args)) rfl rfl rfl h
  rw [this]; rfl

/-! ### what a successful `check_valid_path` leaves behind -/

theorem approved (w : Bool) (v : Verdict) (path P : CStr) (h : checkValidPath true v path = some P) :
    approvalOf w v path = some ⟨w, P⟩ ∧ specLegal P = true ∧ safe P = true ∧ P ≠ [] := by
  have hs := check_valid_path_sound true v path P h
  rw [check_valid_path_eq_spec] at h
  unfold specCheck at h
  unfold approvalOf
  cases ha : specAnswer v path with
  | none => simp [ha] at h
  | some a =>
    simp only [ha] at h ⊢
    generalize hq : (if stripOneSlash a = [] then dot else stripOneSlash a) = q at h
    have hne : q ≠ [] := by
      rw [← hq]; split
      · simp [dot]
      · assumption
    by_cases hl : specLegal q = true
    · simp only [hl, ↓reduceIte, Option.some.injEq] at h
      subst h
      refine ⟨by rw [← hq], hl, ?_, hne⟩
      rw [← legalPath_eq_spec] at hl
      exact legal_path_safe _ hl
    · simp [hl] at h

theorem any_okBy (apps : List Approval) (fn : String) (w : Bool) (p : CStr) (a : Approval)
    (hm : a ∈ apps) (hl : specLegal a.path = true) (hc : covers fn a.path p = true)
    (hk : (if w then a.w else (!a.w || fn == "stat")) = true) : apps.any (okBy fn w p) = true := by
  rw [List.any_eq_true]
  exact ⟨a, hm, by simp [okBy, hl, hc, hk]⟩

theorem segOk_mono (f : String) : ∀ (evs : List Ev) (apps apps' : List Approval),
    (∀ a ∈ apps, a ∈ apps') → segOk f apps evs → segOk f apps' evs := by
  intro evs
  induction evs with
  | nil => intros; trivial
  | cons e rest ih =>
    intro apps apps' hsub h
    cases e with
    | valid w path who op v =>
      obtain ⟨h1, h2, h3⟩ := h
      refine ⟨h1, h2, ih _ _ ?_ h3⟩
      intro a ha
      rcases List.mem_append.mp ha with ha | ha
      · exact List.mem_append.mpr (Or.inl ha)
      · exact List.mem_append.mpr (Or.inr (hsub a ha))
    | fs fn w p =>
      obtain ⟨h1, h2, h3⟩ := h
      refine ⟨h1, ?_, ih _ _ hsub h3⟩
      rw [List.any_eq_true] at h2 ⊢
      obtain ⟨a, ha, hk⟩ := h2
      exact ⟨a, hsub a ha, hk⟩
    | note n => exact ih _ _ hsub h
    | nest g w' a' inner => exact ⟨h.1, ih _ _ hsub h.2⟩
    | edsave st' name =>
      refine ⟨h.1, ih _ _ ?_ h.2⟩
      intro a ha
      rcases List.mem_cons.mp ha with ha | ha
      · exact List.mem_cons.mpr (Or.inl ha)
      · exact List.mem_cons.mpr (Or.inr (hsub a ha))
    | lp _ _ => exact absurd h (by simp [segOk])
    | il _ _ => exact absurd h (by simp [segOk])
    | cvp _ _ _ => exact absurd h (by simp [segOk])
    | sn _ _ => exact absurd h (by simp [segOk])
    | inc _ _ _ _ => exact absurd h (by simp [segOk])
    | call _ _ _ => exact absurd h (by simp [segOk])
    | mode _ => exact absurd h (by simp [segOk])

/-- approvals in force after a list of events -/
def appsAfter : List Approval → List Ev → List Approval
  | apps, [] => apps
  | apps, .valid w path _ _ v :: rest => appsAfter ((approvalOf w v path).toList ++ apps) rest
  | apps, .edsave _ name :: rest => appsAfter (⟨true, stripOneSlash name⟩ :: apps) rest
  | apps, _ :: rest => appsAfter apps rest

theorem segOk_append (f : String) : ∀ (e1 e2 : List Ev) (apps : List Approval),
    segOk f apps e1 → segOk f (appsAfter apps e1) e2 → segOk f apps (e1 ++ e2) := by
  intro e1
  induction e1 with
  | nil => intro e2 apps _ h; simpa [appsAfter] using h
  | cons e rest ih =>
    intro e2 apps h1 h2
    cases e with
    | valid w path who op v =>
      obtain ⟨a, b, c⟩ := h1
      exact ⟨a, b, ih e2 _ c h2⟩
    | fs fn w p =>
      obtain ⟨a, b, c⟩ := h1
      exact ⟨a, b, ih e2 _ c h2⟩
    | note n => exact ih e2 _ h1 h2
    | nest g w' a' inner => exact ⟨h1.1, ih e2 _ h1.2 h2⟩
    | edsave st' name => exact ⟨h1.1, ih e2 _ h1.2 h2⟩
    | lp _ _ => exact absurd h1 (by simp [segOk])
    | il _ _ => exact absurd h1 (by simp [segOk])
    | cvp _ _ _ => exact absurd h1 (by simp [segOk])
    | sn _ _ => exact absurd h1 (by simp [segOk])
    | inc _ _ _ _ => exact absurd h1 (by simp [segOk])
    | call _ _ _ => exact absurd h1 (by simp [segOk])
    | mode _ => exact absurd h1 (by simp [segOk])

theorem covers_self (fn : String) (a : CStr) : covers fn a a = true := by simp [covers]

/-! ### re-entrant masters -/

theorem opOk_eq (f op : String) : opOk f op = opAllowed f op := rfl

theorem nest_single_ok (g op fn : String) (w fw : Bool) (a : CStr) (hop : opOk g op = true)
    (hk : (if fw then w else (!w || fn == "stat")) = true) : judgeNest g (nestedSingle w op fn fw a) = [] := by
  rw [opOk_eq] at hop
  unfold nestedSingle judgeNest
  cases h : checkValidPath true Verdict.ok a with
  | none =>
    simp only [List.foldl_cons, List.foldl_nil, nestStep, hop, ↓reduceIte]
    cases approvalOf w Verdict.ok a <;> rfl
  | some P =>
    obtain ⟨h1, h2, h3, _⟩ := approved w _ _ _ h
    have hna : absolute P = false := by
      simp [safe] at h3; simpa [absolute] using h3.1
    have hany : ([⟨w, P⟩] : List Approval).any (okBy fn fw P) = true :=
      any_okBy _ fn fw P ⟨w, P⟩ (by simp) h2 (covers_self _ P) hk
    simp only [List.foldl_cons, List.foldl_nil, nestStep, hop, ↓reduceIte, h1, hna, h3, hany, Bool.not_true,
      Bool.false_eq_true]

/-- **re-entrant masters**: whatever efun of the table a master calls on whatever path from inside valid_read /
    valid_write, the oracle accepts the model of that nested call (its own consultation, its own libc call) -/
theorem nested_ok (g : String) (p : CStr) : judgeNest g (nestedEvents g p) = [] := by
  unfold nestedEvents
  split
  · exact nest_single_ok _ _ _ _ _ _ (by decide) (by decide)
  · exact nest_single_ok _ _ _ _ _ _ (by decide) (by decide)
  · exact nest_single_ok _ _ _ _ _ _ (by decide) (by decide)
  · exact nest_single_ok _ _ _ _ _ _ (by decide) (by decide)
  · rfl

/-- one consultation, with or without the master's own nested call in front of it -/
theorem segOk_askEv (f : String) (pol : Policy) (w : Bool) (path : CStr) (op : String) (apps : List Approval)
    (rest : List Ev) :
    segOk f apps (askEv pol w path op ++ rest) ↔
      (opOk f op = true ∧ segOk f ((approvalOf w (pol.verdict w path) path).toList ++ apps) rest) := by
  unfold askEv
  cases pol <;> simp [nestPrefix, segOk, nested_ok, whoObj]

theorem segOk_askEv_nil (f : String) (pol : Policy) (w : Bool) (path : CStr) (op : String) (apps : List Approval) :
    segOk f apps (askEv pol w path op) ↔ opOk f op = true := by
  have := segOk_askEv f pol w path op apps []
  simpa [segOk] using this

/-! ### the efuns -/

theorem segOk_single (f : String) (pol : Policy) (w : Bool) (op fn : String) (fw : Bool) (a : CStr)
    (apps : List Approval) (hop : opOk f op = true)
    (hk : (if fw then w else (!w || fn == "stat")) = true) :
    segOk f apps (single pol w op fn fw a) := by
  unfold single ask
  simp only
  cases h : checkValidPath true (pol.verdict w a) a with
  | none => simp [segOk_askEv_nil, segOk_askEv, segOk, hop]
  | some P =>
    obtain ⟨h1, h2, h3, _⟩ := approved w _ _ _ h
    simp only [List.singleton_append, segOk_askEv, segOk_askEv_nil, segOk, h1, Option.toList_some, hop, h3, true_and, and_true]
    exact any_okBy _ fn fw P ⟨w, P⟩ (by simp) h2 (covers_self _ P) hk

theorem covers_listDir (fn : String) (a : CStr) (h : fn = "stat" ∨ fn = "opendir") :
    covers fn a (listDir a) = true := by rcases h with rfl | rfl <;> simp [covers]
theorem covers_parent (a : CStr) : covers "opendir" a (parentDir (listDir a)) = true := by simp [covers]
theorem covers_strip (fn : String) (a : CStr) (h : fn = "rename" ∨ fn = "symlink") :
    covers fn a (stripTrailSlash a) = true := by rcases h with rfl | rfl <;> simp [covers]
theorem covers_tmp (fn : String) (a : CStr) (h : fn = "fopen" ∨ fn = "rename" ∨ fn = "unlink") :
    covers fn a (a.take 250 ++ str ".tmp") = true := by rcases h with rfl | rfl | rfl <;> simp [covers]

theorem covers_child (fn : String) (a b : CStr) (hf : fn = "open" ∨ fn = "rename-to" ∨ fn = "symlink-to")
    (hb : '/' ∉ b) (hd : b ≠ dotdot) : covers fn a (a ++ ['/'] ++ b) = true := by
  have : childOf a (a ++ ['/'] ++ b) = true := by
    unfold childOf
    simp only [List.take_left', List.drop_left', List.length_append, List.length_cons, List.length_nil]
    simp [hb, hd]
  have this' : childOf a (a ++ '/' :: b) = true := by simpa using this
  rcases hf with rfl | rfl | rfl <;> simp [covers, this']

theorem covers_entry (a d : CStr) (n : CStr) (hd : d = listDir a ∨ d = parentDir (listDir a))
    (hb : '/' ∉ n) (hn : n ≠ dotdot) : covers "stat-entry" a (d ++ ['/'] ++ n) = true := by
  have : childOf d (d ++ ['/'] ++ n) = true := by
    unfold childOf
    simp only [List.take_left', List.drop_left', List.length_append, List.length_cons, List.length_nil]
    simp [hb, hn]
  have this' : childOf d (d ++ '/' :: n) = true := by simpa using this
  rcases hd with rfl | rfl <;> simp [covers, this']

theorem segOk_map_fs (f : String) (apps : List Approval) (fn : String) (w : Bool) (ps : List CStr)
    (h : ∀ p ∈ ps, safe p = true ∧ apps.any (okBy fn w p) = true) :
    segOk f apps (ps.map (fun p => Ev.fs fn w p)) := by
  induction ps with
  | nil => trivial
  | cons p r ih =>
    simp only [List.map_cons, segOk]
    exact ⟨(h p (by simp)).1, (h p (by simp)).2, ih (fun q hq => h q (by simp [hq]))⟩

/-- the per-entry `stat`s of `get_dir (path, -1)`: each is a direct child (not "..") of the listed directory -/
theorem segOk_entryStats (f : String) (ex : List CStr) (fl : Bool) (P d : CStr) (pat : Option CStr)
    (apps : List Approval) (hm : (⟨false, P⟩ : Approval) ∈ apps) (hl : specLegal P = true)
    (hd : d = listDir P ∨ d = parentDir (listDir P)) (hs : safe d = true) (h0 : d ≠ []) :
    segOk f apps (entryStats ex fl d pat) := by
  unfold entryStats
  split
  · trivial
  · split
    · trivial
    · rw [show (fun n : String => Ev.fs "stat-entry" false (d ++ ['/'] ++ n.toList)) =
          ((fun p => Ev.fs "stat-entry" false p) ∘ (fun n : String => d ++ ['/'] ++ n.toList)) from rfl,
        ← List.map_map]
      apply segOk_map_fs
      intro p hp
      simp only [List.mem_map, List.mem_filter] at hp
      obtain ⟨n, hmem, rfl⟩ := hp
      have hf := hmem.2
      rw [Bool.and_eq_true, Bool.and_eq_true, Bool.and_eq_true] at hf
      obtain ⟨⟨⟨_, h2⟩, h3⟩, _⟩ := hf
      have h2' : n ≠ ".." := by simpa using h2
      have h3 : '/' ∉ n.toList := by simpa using h3
      have hn : n.toList ≠ dotdot := by
        intro e
        apply h2'
        have : n = String.ofList n.toList := by simp
        rw [this, e]; rfl
      exact ⟨safe_child d _ h0 hs h3 hn,
             any_okBy _ _ _ _ ⟨false, P⟩ hm hl (covers_entry P d _ hd h3 hn) (by simp)⟩

theorem segOk_getDirFs (f : String) (ex : List CStr) (P : CStr) (fl : Bool) (apps : List Approval)
    (hm : (⟨false, P⟩ : Approval) ∈ apps) (hl : specLegal P = true) (hs : safe P = true) (h0 : P ≠ []) :
    segOk f apps (getDirFs ex P fl) := by
  unfold getDirFs
  split
  · trivial
  · rename_i hlen
    have htake : P.take (NV.Gen.C15.getDirTemppathSize - 1) = P := by
      apply List.take_of_length_le
      have : NV.Gen.C15.maxPathLen ≤ NV.Gen.C15.getDirTemppathSize - 1 := by decide
      omega
    rw [htake]
    have k1 : apps.any (okBy "stat" false (listDir P)) = true :=
      any_okBy _ _ _ _ ⟨false, P⟩ hm hl (covers_listDir _ P (Or.inl rfl)) (by simp)
    have k2 : apps.any (okBy "opendir" false (listDir P)) = true :=
      any_okBy _ _ _ _ ⟨false, P⟩ hm hl (covers_listDir _ P (Or.inr rfl)) (by simp)
    have k3 : apps.any (okBy "opendir" false (parentDir (listDir P))) = true :=
      any_okBy _ _ _ _ ⟨false, P⟩ hm hl (covers_parent P) (by simp)
    have s1 := safe_listDir P hs
    have s2 := safe_parentDir _ s1
    have e1 := segOk_entryStats f ex fl P (listDir P) none apps hm hl (Or.inl rfl) s1 (listDir_ne_nil P hs h0)
    have e2 := fun pat => segOk_entryStats f ex fl P (parentDir (listDir P)) pat apps hm hl (Or.inr rfl) s2
      (parentDir_ne_nil _ s1)
    simp only
    split <;> split
    · simp [segOk, k1, s1]
    · simp only [List.cons_append, List.nil_append, segOk_askEv, segOk_askEv_nil, segOk, k1, k3, s1, s2, true_and]
      exact e2 _
    · simp [segOk, k1, s1]
    · simp only [List.cons_append, List.nil_append, segOk_askEv, segOk_askEv_nil, segOk, k1, k2, s1, true_and]
      exact e1

theorem segOk_getDir (f : String) (pol : Policy) (ex : List CStr) (a : CStr) (fl : Bool) (apps : List Approval)
    (hop : opOk f "stat" = true) : segOk f apps (getDir pol ex a fl) := by
  unfold getDir ask
  simp only
  cases h : checkValidPath true (pol.verdict false a) a with
  | none => simp [segOk_askEv_nil, segOk_askEv, segOk, hop]
  | some P =>
    obtain ⟨h1, h2, h3, h4⟩ := approved false _ _ _ h
    simp only [List.singleton_append, segOk_askEv, segOk_askEv_nil, segOk, h1, Option.toList_some, hop, true_and]
    exact segOk_getDirFs f ex P fl _ (by simp) h2 h3 h4

theorem segOk_stat (f : String) (pol : Policy) (ex : List CStr) (a : CStr) (fl : Bool) (apps : List Approval)
    (hop : opOk f "stat" = true) : segOk f apps (statEfun pol ex a fl) := by
  unfold statEfun ask
  simp only
  cases h : checkValidPath true (pol.verdict false a) a with
  | none => simp [segOk_askEv_nil, segOk_askEv, segOk, hop]
  | some P =>
    obtain ⟨h1, h2, h3, _⟩ := approved false _ _ _ h
    simp only [List.singleton_append, segOk_askEv, segOk_askEv_nil, segOk, h1, Option.toList_some, hop, true_and, h3]
    refine ⟨any_okBy _ _ _ _ ⟨false, P⟩ (by simp) h2 (covers_self _ P) (by simp), ?_⟩
    split
    · trivial
    · exact segOk_getDir f pol ex a fl _ hop

theorem baseName_ne_dotdot (p : CStr) (h : safe p = true) : baseName p ≠ dotdot :=
  ((safe_iff p).mp h).2 _ (baseName_mem_comps p)

/-- target of `rename` / `link` / `cp`: the approved path, or (it is a directory) that path + "/" + last
    component of the source -/
theorem target_ok (fn : String) (to src : CStr) (c : Bool) (hf : fn = "open" ∨ fn = "rename-to" ∨ fn = "symlink-to")
    (h0 : to ≠ []) (hs : safe to = true) (hsrc : safe src = true) :
    covers fn to (if c then to ++ ['/'] ++ baseName src else to) = true ∧
    safe (if c then to ++ ['/'] ++ baseName src else to) = true := by
  cases c with
  | false => exact ⟨covers_self _ to, hs⟩
  | true =>
    exact ⟨covers_child fn to _ hf (baseName_noslash src) (baseName_ne_dotdot src hsrc),
           safe_child to _ h0 hs (baseName_noslash src) (baseName_ne_dotdot src hsrc)⟩

theorem covers_renameSrc (fn : String) (from_ : CStr) (hfn : fn = "rename" ∨ fn = "symlink") :
    covers fn from_ (renameSrc from_) = true := by
  unfold renameSrc; split
  · exact covers_strip fn from_ hfn
  · exact covers_self fn from_

theorem safe_renameSrc (from_ : CStr) (h : safe from_ = true) : safe (renameSrc from_) = true := by
  unfold renameSrc; split
  · exact safe_stripTrail from_ h
  · exact h

theorem segOk_move (f : String) (sym tl : Bool) (from_ to : CStr) (apps : List Approval) (target : CStr)
    (m1 : (⟨true, from_⟩ : Approval) ∈ apps) (m2 : (⟨true, to⟩ : Approval) ∈ apps)
    (l1 : specLegal from_ = true) (s1 : safe from_ = true)
    (l2 : specLegal to = true) (s2 : safe to = true) (n2 : to ≠ [])
    (ht : target = to ∨ target = to ++ '/' :: baseName (renameSrc from_)) :
    segOk f apps (moveEvents sym tl (renameSrc from_) target) := by
  have hs' := safe_renameSrc from_ s1
  have hT : (covers "rename-to" to target = true ∧ covers "symlink-to" to target = true) ∧ safe target = true := by
    rcases ht with rfl | rfl
    · exact ⟨⟨covers_self _ _, covers_self _ _⟩, s2⟩
    · obtain ⟨tc1, ts⟩ := target_ok "rename-to" to (renameSrc from_) true (Or.inr (Or.inl rfl)) n2 s2 hs'
      obtain ⟨tc2, _⟩ := target_ok "symlink-to" to (renameSrc from_) true (Or.inr (Or.inr rfl)) n2 s2 hs'
      simp only [↓reduceIte, List.append_assoc, List.singleton_append] at tc1 tc2 ts
      exact ⟨⟨tc1, tc2⟩, ts⟩
  obtain ⟨⟨tc1, tc2⟩, ts⟩ := hT
  have k1 : apps.any (okBy "rename" true (renameSrc from_)) = true :=
    any_okBy _ _ _ _ ⟨true, from_⟩ m1 l1 (covers_renameSrc _ _ (Or.inl rfl)) (by simp)
  have k1' : apps.any (okBy "symlink" true (renameSrc from_)) = true :=
    any_okBy _ _ _ _ ⟨true, from_⟩ m1 l1 (covers_renameSrc _ _ (Or.inr rfl)) (by simp)
  have k2 := any_okBy apps "rename-to" true _ ⟨true, to⟩ m2 l2 tc1 (by simp)
  have k2' := any_okBy apps "symlink-to" true _ ⟨true, to⟩ m2 l2 tc2 (by simp)
  unfold moveEvents
  split
  · trivial
  · split
    · exact ⟨hs', k1', ts, k2', trivial⟩
    · exact ⟨hs', k1, ts, k2, trivial⟩

theorem segOk_rename (f : String) (pol : Policy) (ex : List CStr) (sym : Bool) (a b : CStr)
    (apps : List Approval) (hop1 : opOk f "rename" = true) (hop2 : opOk f "file_size" = true) :
    segOk f apps (renameEfun pol ex sym a b) := by
  unfold renameEfun ask
  simp only
  cases h1 : checkValidPath true (pol.verdict true a) a with
  | none => simp [segOk_askEv_nil, segOk_askEv, segOk, hop1]
  | some from_ =>
    obtain ⟨a1, l1, s1, n1⟩ := approved true _ _ _ h1
    cases h2 : checkValidPath true (pol.verdict true b) b with
    | none => simp [segOk_askEv_nil, segOk_askEv, segOk, hop1]
    | some to =>
      obtain ⟨a2, l2, s2, n2⟩ := approved true _ _ _ h2
      simp only
      by_cases hfit : renameSrcFits from_ = true
      · simp only [hfit, Bool.not_true, Bool.false_eq_true, ↓reduceIte]
        by_cases hr : (pol.verdict false to).raises = true
        · simp [hr, segOk_askEv, segOk_askEv_nil, segOk, a1, a2, hop1, hop2]
        simp only [hr, Bool.false_eq_true, ↓reduceIte]
        cases h3 : checkValidPath true (pol.verdict false to) to with
        | none =>
          simp only [List.append_assoc, List.singleton_append, List.nil_append, segOk_askEv, segOk_askEv_nil, segOk, a1, a2, Option.toList_some,
            hop1, hop2, true_and, List.cons_append]
          refine segOk_move f sym _ from_ to _ _ ?_ ?_ l1 s1 l2 s2 n2 ?_ <;> simp
        | some q =>
          obtain ⟨a3, l3, s3, _⟩ := approved false _ _ _ h3
          simp only [List.append_assoc, List.singleton_append, List.nil_append, segOk_askEv, segOk_askEv_nil, segOk, a1, a2, a3, Option.toList_some,
            hop1, hop2, true_and, List.cons_append, s3]
          refine ⟨any_okBy _ _ _ _ ⟨false, q⟩ (by simp) l3 (covers_self _ q) (by simp), ?_⟩
          refine segOk_move f sym _ from_ to _ _ ?_ ?_ l1 s1 l2 s2 n2 ?_
          · simp
          · simp
          · cases decide (lookup ex q = some Kind.dir) <;> simp
      · simp [hfit, segOk_askEv, segOk_askEv_nil, segOk, a1, a2, hop1]

theorem segOk_cpTail (f : String) (tl : Bool) (from_ to target : CStr) (apps : List Approval)
    (m2 : (⟨true, to⟩ : Approval) ∈ apps) (s1 : safe from_ = true)
    (l2 : specLegal to = true) (s2 : safe to = true) (n2 : to ≠ [])
    (ht : target = to ∨ target = to ++ '/' :: baseName from_) :
    segOk f apps (cpTail tl target) := by
  have hT : covers "open" to target = true ∧ safe target = true := by
    rcases ht with rfl | rfl
    · exact ⟨covers_self _ _, s2⟩
    · obtain ⟨tc, ts⟩ := target_ok "open" to from_ true (Or.inl rfl) n2 s2 s1
      simp only [↓reduceIte, List.append_assoc, List.singleton_append] at tc ts
      exact ⟨tc, ts⟩
  unfold cpTail
  split
  · trivial
  · exact ⟨hT.2, any_okBy _ _ _ _ ⟨true, to⟩ m2 l2 hT.1 (by simp), trivial⟩

theorem segOk_cp (f : String) (pol : Policy) (ex : List CStr) (a b : CStr)
    (apps : List Approval) (hop : opOk f "cp" = true) :
    segOk f apps (cpEfun pol ex a b) := by
  unfold cpEfun ask
  simp only
  cases h1 : checkValidPath true (pol.verdict false a) a with
  | none => simp [segOk_askEv_nil, segOk_askEv, segOk, hop]
  | some from_ =>
    obtain ⟨a1, l1, s1, n1⟩ := approved false _ _ _ h1
    cases h2 : checkValidPath true (pol.verdict true b) b with
    | none => simp [segOk_askEv_nil, segOk_askEv, segOk, hop]
    | some to =>
      obtain ⟨a2, l2, s2, n2⟩ := approved true _ _ _ h2
      simp only [List.append_assoc, List.singleton_append, List.nil_append, segOk_askEv, segOk_askEv_nil, segOk, a1, a2, Option.toList_some,
        hop, true_and, List.cons_append, s1]
      refine ⟨any_okBy _ _ _ _ ⟨false, from_⟩ (by simp) l1 (covers_self _ _) (by simp), ?_⟩
      split
      · trivial
      · simp only [segOk]
        refine ⟨s2, any_okBy _ _ _ _ ⟨true, to⟩ (by simp) l2 (covers_self _ _) (by simp), ?_⟩
        refine segOk_cpTail f _ from_ to _ _ ?_ s1 l2 s2 n2 ?_
        · simp
        · cases decide (lookup ex to = some Kind.dir) <;> simp

theorem segOk_save (f : String) (pol : Policy) (ex : List CStr) (a : CStr)
    (apps : List Approval) (hop : opOk f "save_object" = true) :
    segOk f apps (saveEfun pol ex a) := by
  unfold saveEfun ask
  simp only
  cases h : checkValidPath true (pol.verdict true (saveName a)) (saveName a) with
  | none => simp [segOk_askEv_nil, segOk_askEv, segOk, hop]
  | some P =>
    obtain ⟨a1, l1, s1, _⟩ := approved true _ _ _ h
    have st : safe (P.take 250 ++ str ".tmp") = true :=
      safe_prefix_tmp (P.take 250) (P.drop 250) (by rw [List.take_append_drop]; exact s1)
    have k1 : ∀ fn, fn = "fopen" ∨ fn = "rename" ∨ fn = "unlink" →
        (⟨true, P⟩ :: apps : List Approval).any (okBy fn true (P.take 250 ++ str ".tmp")) = true :=
      fun fn hfn => any_okBy _ _ _ _ ⟨true, P⟩ (by simp) l1 (covers_tmp fn P hfn) (by simp)
    have k1a := k1 "fopen" (Or.inl rfl)
    have k1b := k1 "rename" (Or.inr (Or.inl rfl))
    have k1c := k1 "unlink" (Or.inr (Or.inr rfl))
    have k2 : ∀ fn, (⟨true, P⟩ :: apps : List Approval).any (okBy fn true P) = true :=
      fun fn => any_okBy _ _ _ _ ⟨true, P⟩ (by simp) l1 (covers_self _ P) (by simp)
    simp only [List.singleton_append, segOk_askEv, segOk_askEv_nil, segOk, a1, Option.toList_some, hop, true_and, st, k1a]
    split
    · split <;> simp [segOk, st, s1, k1a, k1b, k1c, k2]
    · trivial

theorem edIo_false (r : Option CStr) (w : Bool) : edIo r false w = [] := by
  cases r <;> rfl

/-- what every file command of the editor does: ONE consultation of the kind of the access, then at most the
    `fopen` of exactly the approved path with that kind -/
theorem segOk_askIo (f : String) (pol : Policy) (w io : Bool) (file : CStr) (apps : List Approval)
    (hop : opOk f "ed_start" = true) :
    segOk f apps ((ask pol w file "ed_start").1 ++ edIo (ask pol w file "ed_start").2 io w) := by
  unfold ask edIo
  simp only
  cases h : checkValidPath true (pol.verdict w file) file with
  | none => simp [segOk_askEv_nil, segOk_askEv, segOk, hop]
  | some P =>
    obtain ⟨a1, l1, s1, _⟩ := approved w _ _ _ h
    simp only [List.singleton_append, segOk_askEv, segOk_askEv_nil, segOk, a1, Option.toList_some, hop, true_and]
    cases io with
    | false => simp [segOk]
    | true =>
      simp only [↓reduceIte, segOk_askEv, segOk_askEv_nil, segOk, s1, true_and, and_true]
      exact any_okBy _ _ _ _ ⟨w, P⟩ (by simp) l1 (covers_self _ P) (by cases w <;> simp)

theorem edIo_edFit (r : Option CStr) (io w : Bool) : edIo (edFit r) io w = [] ∨ edIo (edFit r) io w = edIo r io w := by
  cases r with
  | none => right; rfl
  | some P =>
    unfold edFit
    simp only
    split
    · left; rfl
    · right; rfl

theorem segOk_prefix (f : String) : ∀ (e1 e2 : List Ev) (apps : List Approval), segOk f apps (e1 ++ e2) → segOk f apps e1 := by
  intro e1
  induction e1 with
  | nil => intros; trivial
  | cons e rest ih =>
    intro e2 apps h
    cases e with
    | valid w path who op v => obtain ⟨a, b, c⟩ := h; exact ⟨a, b, ih e2 _ c⟩
    | fs fn w p => obtain ⟨a, b, c⟩ := h; exact ⟨a, b, ih e2 _ c⟩
    | note n => exact ih e2 _ h
    | nest g w' a' inner => exact ⟨h.1, ih e2 _ h.2⟩
    | edsave st' name => exact ⟨h.1, ih e2 _ h.2⟩
    | lp _ _ => exact absurd h (by simp [segOk])
    | il _ _ => exact absurd h (by simp [segOk])
    | cvp _ _ _ => exact absurd h (by simp [segOk])
    | sn _ _ => exact absurd h (by simp [segOk])
    | inc _ _ _ _ => exact absurd h (by simp [segOk])
    | call _ _ _ => exact absurd h (by simp [segOk])
    | mode _ => exact absurd h (by simp [segOk])

/-- the events of a command that got its name from `getfn`: nothing (name refused for its length), or ONE
    consultation followed by at most the `fopen` of exactly the approved path -/
theorem segOk_getfnIo (f : String) (pol : Policy) (st : EdSt) (w io : Bool) (arg : CStr) (apps : List Approval)
    (hop : opOk f "ed_start" = true) :
    segOk f apps ((edGetfn pol st w arg).1 ++ edIo (edGetfn pol st w arg).2 io w) := by
  unfold edGetfn
  split
  · simp [edIo, segOk]
  · split
    · simp [edIo, segOk]
    · simp only
      generalize (if (if arg = [] then '/' :: st.fname else arg).head? = some '/' then
        (if arg = [] then '/' :: st.fname else arg)
        else (str "/d/" ++ (if arg = [] then '/' :: st.fname else arg)).take (NV.Gen.C15.edMaxFname - 1)) = file
      have base := segOk_askIo f pol w io file apps hop
      rcases edIo_edFit (ask pol w file "ed_start").2 io w with h | h
      · rw [h, List.append_nil]; exact segOk_prefix f _ _ apps base
      · rw [h]; exact base

theorem segOk_edStep (f : String) (pol : Policy) (ex : List CStr) (st : EdSt) (c : EdCmd) (apps : List Approval)
    (hf : f = "ed") (hop : opOk f "ed_start" = true) : segOk f apps (edStep pol ex st c).1 := by
  cases c with
  | D name =>
    simp only [edStep, segOk]
    refine ⟨hf, ?_⟩
    split
    · rename_i hl
      have hs : safe (stripOneSlash name) = true := legal_path_safe _ hl
      have hl' : specLegal (stripOneSlash name) = true := by rw [← legalPath_eq_spec]; exact hl
      simp only [segOk, hs, true_and, and_true]
      exact any_okBy _ _ _ _ ⟨true, stripOneSlash name⟩ (by simp) hl' (covers_self _ _) (by simp)
    · trivial
  | start file => exact segOk_askIo f pol false true file apps hop
  | a t => simp [edStep, segOk]
  | e arg =>
    simp only [edStep]
    split
    · simp [segOk]
    · exact segOk_getfnIo f pol st false true _ apps hop
  | E arg => exact segOk_getfnIo f pol st false true _ apps hop
  | f arg =>
    have := segOk_getfnIo f pol st false false arg apps hop
    rw [edIo_false, List.append_nil] at this
    exact this
  | r arg => exact segOk_getfnIo f pol st false true _ apps hop
  | w arg => exact segOk_getfnIo f pol st true _ _ apps hop
  | W arg => exact segOk_getfnIo f pol st true _ _ apps hop
  | x => exact segOk_getfnIo f pol st true true _ apps hop
  | q => simp [edStep, segOk]
  | Q => simp [edStep, segOk]

/-- the file efuns of the system-style model (= the keys of the oracle's operation-name table) -/
def efunNames : List String :=
  ["read_file", "write_file", "rm", "mkdir", "rmdir", "file_size", "file_length", "tail", "read_bytes",
   "read_buffer", "write_bytes", "write_buffer", "restore_object", "dumpallobj", "dump_prog", "get_dir", "stat",
   "rename", "link", "cp", "save_object", "ed", "get_dir1", "stat1"]

example : efunNames.all (fun f => (opNames.map (·.1)).contains f) = true ∧
    (opNames.map (·.1)).all (fun f => efunNames.contains f) = true := by decide

theorem efun_segOk (pol : Policy) (ex : List CStr) (efun : String) (a b : CStr) (h : efun ∈ efunNames) :
    segOk efun [] (efunEvents pol ex efun a b) := by
  simp only [efunNames, List.mem_cons, List.not_mem_nil, or_false] at h
  rcases h with h | h | h | h | h | h | h | h | h | h | h | h | h | h | h | h | h | h | h | h | h | h | h | h <;> subst h <;>
    simp only [efunEvents]
  · exact segOk_single _ _ _ _ _ _ _ _ (by decide) (by decide)
  · exact segOk_single _ _ _ _ _ _ _ _ (by decide) (by decide)
  · exact segOk_single _ _ _ _ _ _ _ _ (by decide) (by decide)
  · exact segOk_single _ _ _ _ _ _ _ _ (by decide) (by decide)
  · exact segOk_single _ _ _ _ _ _ _ _ (by decide) (by decide)
  · exact segOk_single _ _ _ _ _ _ _ _ (by decide) (by decide)
  · exact segOk_single _ _ _ _ _ _ _ _ (by decide) (by decide)
  · exact segOk_single _ _ _ _ _ _ _ _ (by decide) (by decide)
  · exact segOk_single _ _ _ _ _ _ _ _ (by decide) (by decide)
  · exact segOk_single _ _ _ _ _ _ _ _ (by decide) (by decide)
  · exact segOk_single _ _ _ _ _ _ _ _ (by decide) (by decide)
  · exact segOk_single _ _ _ _ _ _ _ _ (by decide) (by decide)
  · exact segOk_single _ _ _ _ _ _ _ _ (by decide) (by decide)
  · exact segOk_single _ _ _ _ _ _ _ _ (by decide) (by decide)
  · exact segOk_single _ _ _ _ _ _ _ _ (by decide) (by decide)
  · exact segOk_getDir _ _ _ _ _ _ (by decide)
  · exact segOk_stat _ _ _ _ _ _ (by decide)
  · exact segOk_rename _ _ _ _ _ _ _ (by decide) (by decide)
  · exact segOk_rename _ _ _ _ _ _ _ (by decide) (by decide)
  · exact segOk_cp _ _ _ _ _ _ (by decide)
  · exact segOk_save _ _ _ _ _ (by decide)
  · exact segOk_edStep _ _ _ _ _ _ rfl (by decide)
  · exact segOk_getDir _ _ _ _ _ _ (by decide)
  · exact segOk_stat _ _ _ _ _ _ (by decide)

/-- **model_satisfies_spec**: for every file efun, every argument string(s), every master policy and every
    file-system content, the oracle finds nothing to object to in the model's trace. -/
theorem model_satisfies_spec (pol : Policy) (ex : List CStr) (efun : String) (args : List CStr) (a b : CStr)
    (h : efun ∈ efunNames) :
    judgeEv (.call efun whoObj args :: efunEvents pol ex efun a b) = [] := by
  apply judge_of_segOk _ _ _ _ (efun_segOk pol ex efun a b h)
  simp only [efunNames, List.mem_cons, List.not_mem_nil, or_false] at h
  rcases h with h | h | h | h | h | h | h | h | h | h | h | h | h | h | h | h | h | h | h | h | h | h | h | h <;> subst h <;> decide

/-! ### a master without valid_read / valid_write -/

theorem fold_absent (f : String) : ∀ (evs : List Ev) (apps : List Approval) (s : JState),
    s.absent = true → s.efun = f → segOk f apps evs →
    ∃ apps', (evs.filter (fun e => !e.isValid)).foldl judgeStep s = { s with approvals := apps' } := by
  intro evs
  induction evs with
  | nil => intro _ s _ _ _; exact ⟨s.approvals, rfl⟩
  | cons e rest ih =>
    intro apps s ha he hs
    cases e with
    | valid w path who op v =>
      obtain ⟨_, _, h3⟩ := hs
      simpa [Ev.isValid] using ih _ s ha he h3
    | fs fn w p =>
      obtain ⟨h1, _, h3⟩ := hs
      have hna : absolute p = false := by
        simp [safe] at h1; simpa [absolute] using h1.1
      have hstep : judgeStep s (.fs fn w p) = s := by
        simp [judgeStep, hna, h1, ha]
      simp only [Ev.isValid, Bool.not_false, List.filter_cons_of_pos, List.foldl_cons, hstep]
      exact ih apps s ha he h3
    | note n =>
      simp only [Ev.isValid, Bool.not_false, List.filter_cons_of_pos, List.foldl_cons]
      exact ih apps s ha he hs
    | nest g w' a' inner =>
      have hstep : judgeStep s (.nest g w' a' inner) = s := by simp [judgeStep, hs.1]
      simp only [Ev.isValid, Bool.not_false, List.filter_cons_of_pos, List.foldl_cons, hstep]
      exact ih apps s ha he hs.2
    | edsave st' name =>
      obtain ⟨h1, h2⟩ := hs
      subst h1
      have hstep : judgeStep s (.edsave st' name) = { s with approvals := ⟨true, stripOneSlash name⟩ :: s.approvals } := by
        simp [judgeStep, he]
      rw [List.filter_cons_of_pos (by rfl), List.foldl_cons, hstep]
      obtain ⟨apps', h⟩ := ih _ { s with approvals := ⟨true, stripOneSlash name⟩ :: s.approvals } ha he h2
      exact ⟨apps', by rw [h]⟩
    | lp _ _ => exact absurd hs (by simp [segOk])
    | il _ _ => exact absurd hs (by simp [segOk])
    | cvp _ _ _ => exact absurd hs (by simp [segOk])
    | sn _ _ => exact absurd hs (by simp [segOk])
    | inc _ _ _ _ => exact absurd hs (by simp [segOk])
    | call _ _ _ => exact absurd hs (by simp [segOk])
    | mode _ => exact absurd hs (by simp [segOk])

/-- **model_satisfies_spec, master without valid_read / valid_write** (as coded: everything is approved, nothing
    is logged): the oracle — which in this mode can only demand confinement — has no objection: every path the
    model touches is relative and free of "..", for every efun and every argument. -/
theorem model_satisfies_spec_absent (pol : Policy) (ex : List CStr) (efun : String) (args : List CStr) (a b : CStr)
    (h : efun ∈ efunNames) :
    judgeEv (.mode true :: .call efun whoObj args :: sysEvents true pol ex efun a b) = [] := by
  unfold judgeEv sysEvents
  simp only [↓reduceIte, List.foldl_cons]
  obtain ⟨apps', this⟩ := fold_absent efun _ [] (judgeStep (judgeStep {} (.mode true)) (.call efun whoObj args)) rfl rfl
    (efun_segOk .allow ex efun a b h)
  rw [this]; rfl

/-- with a master that has the functions the extended model is the mediated one -/
theorem model_satisfies_spec_present (pol : Policy) (ex : List CStr) (efun : String) (args : List CStr) (a b : CStr)
    (h : efun ∈ efunNames) :
    judgeEv (.call efun whoObj args :: sysEvents false pol ex efun a b) = [] := by
  simpa [sysEvents] using model_satisfies_spec pol ex efun args a b h

/-! ### editing sessions -/

theorem fold_session (pol : Policy) (ex : List CStr) : ∀ (cmds : List EdCmd) (st : EdSt) (s : JState),
    s.bad = [] → ((edSession pol ex st cmds).foldl judgeStep s).bad = [] := by
  intro cmds
  induction cmds with
  | nil => intro _ s h; simpa [edSession] using h
  | cons c cs ih =>
    intro st s hb
    unfold edSession
    by_cases hr : edRuns st c = true
    · simp only [hr, ↓reduceIte]
      rw [List.cons_append, List.foldl_cons, List.foldl_append]
      apply ih
      exact fold_ok "ed" (by decide) _ (judgeStep s (.call "ed" whoObj c.callArgs)) (by simpa [judgeStep] using hb)
        rfl rfl (segOk_edStep "ed" pol ex st c [] rfl (by decide))
    · simp only [hr, Bool.false_eq_true, ↓reduceIte]; exact ih st s hb

/-- **model_satisfies_spec for editing sessions**: for every sequence of editor commands (ed (file), text input,
    e / E / f / r / w / W with or without a file name, x, q, Q), every file name and every master policy — in
    particular masters that approve reads and deny writes — every `fopen` of the session is preceded, within the
    same command, by a consultation of the right kind (valid_write for w / W / x, valid_read for the others) that
    approved exactly that path. -/
theorem ed_session_satisfies_spec (pol : Policy) (ex : List CStr) (st : EdSt) (cmds : List EdCmd) :
    judgeEv (edSession pol ex st cmds) = [] := by
  unfold judgeEv
  rw [fold_session pol ex cmds st {} rfl]; rfl

theorem fold_session_absent (ex : List CStr) : ∀ (cmds : List EdCmd) (st : EdSt) (s : JState),
    s.bad = [] → s.absent = true →
    (((edSession .allow ex st cmds).filter (fun e => !e.isValid)).foldl judgeStep s).bad = [] := by
  intro cmds
  induction cmds with
  | nil => intro _ s h _; simpa [edSession] using h
  | cons c cs ih =>
    intro st s hb ha
    unfold edSession
    by_cases hr : edRuns st c = true
    · simp only [hr, ↓reduceIte]
      rw [List.cons_append, List.filter_cons_of_pos (by rfl), List.filter_append, List.foldl_cons, List.foldl_append]
      obtain ⟨apps', hfa⟩ := fold_absent "ed" _ [] (judgeStep s (.call "ed" whoObj c.callArgs))
        (by simpa [judgeStep] using ha) rfl (segOk_edStep "ed" .allow ex st c [] rfl (by decide))
      rw [hfa]
      exact ih _ _ (by simpa [judgeStep] using hb) (by simpa [judgeStep] using ha)
    · simp only [hr, Bool.false_eq_true, ↓reduceIte]; exact ih st s hb ha

theorem ed_session_satisfies_spec_absent (pol : Policy) (ex : List CStr) (cmds : List EdCmd) :
    judgeEv (.mode true :: sysSession true pol ex cmds) = [] := by
  unfold judgeEv sysSession
  simp only [↓reduceIte, List.foldl_cons]
  rw [fold_session_absent ex cmds {} _ rfl rfl]; rfl

/-! ### the compiler: load_object, #include, inherit (no master consultation; the oracle demands confinement) -/

/-- all events are libc calls on safe paths -/
def allSafeFs (evs : List Ev) : Prop := ∀ e ∈ evs, ∃ fn w p, e = Ev.fs fn w p ∧ safe p = true

theorem fold_compile (f : String) (hf : compileCalls.contains f = true) : ∀ (evs : List Ev) (s : JState),
    s.efun = f → allSafeFs evs → evs.foldl judgeStep s = s := by
  intro evs
  induction evs with
  | nil => intros; rfl
  | cons e rest ih =>
    intro s he h
    obtain ⟨fn, w, p, rfl, hs⟩ := h e (by simp)
    have hna : absolute p = false := by
      simp [safe] at hs; simpa [absolute] using hs.1
    have hf' : f ∈ compileCalls := by simpa using hf
    have hstep : judgeStep s (.fs fn w p) = s := by
      simp [judgeStep, hna, hs, he, hf']
    rw [List.foldl_cons, hstep]
    exact ih s he (fun e' he' => h e' (by simp [he']))

theorem judge_compile (f : String) (args : List CStr) (evs : List Ev) (hf : compileCalls.contains f = true)
    (h : allSafeFs evs) : judgeEv (.call f "-" args :: evs) = [] := by
  unfold judgeEv
  rw [List.foldl_cons, fold_compile f hf evs _ rfl h]; rfl

theorem allSafeFs_append {a b : List Ev} (ha : allSafeFs a) (hb : allSafeFs b) : allSafeFs (a ++ b) := by
  intro e he
  rcases List.mem_append.mp he with h | h
  · exact ha e h
  · exact hb e h

theorem loadEvents_safe (ex : List CStr) (name : CStr) : allSafeFs (loadEvents ex name).1 := by
  unfold loadEvents
  cases h : loadAccess name (fun p => (lookup ex p).isSome) with
  | none => intro e he; simp at he
  | some a =>
    simp only
    apply allSafeFs_append
    · cases hp : a.probe with
      | none => intro e he; simp at he
      | some p =>
        intro e he
        simp only [List.mem_singleton] at he
        exact ⟨_, _, _, he, load_probe_confined name _ a p h (Or.inl hp)⟩
    · cases hp : a.opened with
      | none => intro e he; simp at he
      | some p =>
        intro e he
        simp only [List.mem_singleton] at he
        exact ⟨_, _, _, he, load_probe_confined name _ a p h (Or.inr hp)⟩

theorem includeOpens_go_safe (ex : List CStr) : ∀ ts : List CStr, (∀ t ∈ ts, safe t = true) →
    allSafeFs (includeOpens.go ex ts) := by
  intro ts
  induction ts with
  | nil => intro _ e he; simp [includeOpens.go] at he
  | cons t rest ih =>
    intro h e he
    simp only [includeOpens.go, List.mem_cons] at he
    rcases he with rfl | he
    · exact ⟨_, _, _, rfl, h t (by simp)⟩
    · split at he
      · simp at he
      · exact ih (fun t' ht' => h t' (by simp [ht'])) e he

/-- **model_satisfies_spec, compiler part**: whatever object name is loaded, whatever `#include` / `inherit`
    name a source file contains, every path the loader model stats or opens is relative and free of "..". -/
theorem load_model_satisfies_spec (ex : List CStr) (name : CStr) :
    judgeEv (.call "load" "-" [name] :: (loadEvents ex name).1) = [] :=
  judge_compile "load" _ _ (by decide) (loadEvents_safe ex name)

/-- saved binaries (observation level): the model's trace has no libc line at all — the statement carried by the
    run is the oracle's: a libc call on an unsafe path printed by the harness in this mode is `fs-absolute` /
    `fs-dotdot` -/
theorem binary_model_satisfies_spec (name : CStr) :
    judgeEv (.call "binary" "-" [name] :: binaryEvents name) = [] := by
  simp [judgeEv, binaryEvents, judgeStep]

example : judgeEv [.call "binary" "-" [str "/d/b"], .fs "fopen" true (str "../bin/d/b.b")] ≠ [] := by decide
example : judgeEv [.call "binary" "-" [str "/d/b"], .fs "stat" false (str "/bin")] ≠ [] := by decide

theorem include_model_satisfies_spec (base name : CStr) :
    judgeEv (.call "include" "-" [base, name] :: includeEvents base name) = [] := by
  apply judge_compile "include" _ _ (by decide)
  unfold includeEvents
  simp only
  apply allSafeFs_append (loadEvents_safe _ _)
  split
  · unfold includeOpens
    apply includeOpens_go_safe
    intro t ht
    exact include_path_confined_config [str "/include", str "/"] base name t ht
  · intro e he; simp at he

theorem inherit_model_satisfies_spec (base name : CStr) :
    judgeEv (.call "inherit" "-" [base, name] :: inheritEvents base name) = [] := by
  apply judge_compile "inherit" _ _ (by decide)
  unfold inheritEvents
  split
  · exact loadEvents_safe _ _
  · apply allSafeFs_append (allSafeFs_append (loadEvents_safe _ _) (loadEvents_safe _ _))
    split
    · exact loadEvents_safe _ _
    · intro e he; simp at he

/-- non-vacuity: a session that writes, and the oracle's objection to a write nobody approved as a write -/
example : edSession .readOnly [] {} [.start (str "/d/f.txt"), .a (str "x"), .w [], .Q] =
    [.call "ed" whoObj [str "ed", str "/d/f.txt"], .valid false (str "/d/f.txt") whoObj "ed_start" .ok,
     .fs "fopen" false (str "d/f.txt"),
     .call "ed" whoObj [str "a", str "x"],
     .call "ed" whoObj [str "w", []], .valid true (str "/d/f.txt") whoObj "ed_start" .deny,
     .call "ed" whoObj [str "Q", []]] := by decide
example : judgeEv [.call "ed" whoObj [str "ed", str "/d/f.txt"], .valid false (str "/d/f.txt") whoObj "ed_start" .ok,
     .fs "fopen" false (str "d/f.txt"), .call "ed" whoObj [str "w", []], .fs "fopen" true (str "d/f.txt")] ≠ [] := by
  decide
example : judgeEv [.call "ed" whoObj [str "w", []], .valid false (str "/d/f.txt") whoObj "ed_start" .ok,
     .fs "fopen" true (str "d/f.txt")] ≠ [] := by decide

/-- non-vacuity: a trace with real events, and the oracle does object to an unmediated touch -/
example : (efunEvents .allow [] "rename" (str "/d/f.txt") (str "/d/sub")).length = 6 := by decide
example : efunEvents .raise [] "rename" (str "/d/f.txt") (str "/d/sub") =
    [.valid true (str "/d/f.txt") whoObj "rename" .raise] := by decide
example : efunEvents (.raiseOn (str "d/sub")) [] "rename" (str "/d/f.txt") (str "/d/sub") =
    [.valid true (str "/d/f.txt") whoObj "rename" .ok, .valid true (str "/d/sub") whoObj "rename" .ok,
     .valid false (str "d/sub") whoObj "file_size" .raise] := by decide
/-- fail open is an objection: the master raised an error and the file is touched all the same -/
example : judgeEv [.call "rm" whoObj [str "/d/f"], .valid true (str "/d/f") whoObj "remove_file" .raise,
                   .fs "unlink" true (str "d/f")] ≠ [] := by decide
example : judgeEv [.call "rm" whoObj [str "/d/f"], .fs "unlink" true (str "d/f")] ≠ [] := by decide
example : judgeEv [.call "rm" whoObj [str "/d/f"], .valid false (str "/d/f") whoObj "remove_file" .ok,
                   .fs "unlink" true (str "d/f")] ≠ [] := by decide

end NV.C15
