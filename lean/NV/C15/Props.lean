/-
C15 — property theorems.  All statements quantify over ALL strings (`CStr = List Char`), no length bound.

  legalPath_eq_spec        legal_path computes exactly the component specification `specLegal`
  legal_path_spec          the same as an iff with the conditions spelled out
  legal_path_secure        security corollary: accepted ⇒ not absolute ∧ no ".." component
  check_valid_path_sound   a returned path is safe and is the master's answer (or the argument) minus one
                           leading slash ("" ↦ "."); a denial returns none
  check_valid_path_eq_spec check_valid_path = its specification for every verdict and path
  strip_name_relative      strip_name never yields an absolute name
  load_open_confined       the source file load_object opens is safe; the earlier stat probe is relative
  include_path_confined    every path inc_open hands to open() is safe (repaired code)
  judge_unit_model         the oracle accepts every unit-style answer of the model
-/
import NV.C15.Lemmas
import NV.C15.LemmasInc

namespace NV.C15

/-! ### legal_path -/

theorem legalPath_eq_spec (s : CStr) : legalPath s = specLegal s := by
  unfold legalPath specLegal absolute
  by_cases h1 : s.head? = some '/'
  · simp [h1]
  · by_cases h2 : '#' ∈ s
    · simp [h1, h2]
    · simp only [h1, h2, ↓reduceIte, decide_false, Bool.not_false, Bool.true_and]
      exact legalLoop_eq _ s (by omega)

/-- `legal_path` accepts exactly the relative paths without '#', without a ".." component and with a "."
    component at most in the last position. -/
theorem legal_path_spec (s : CStr) :
    legalPath s = true ↔
      s.head? ≠ some '/' ∧ '#' ∉ s ∧ (∀ c ∈ comps s, c ≠ dotdot) ∧ (∀ c ∈ (comps s).dropLast, c ≠ dot) := by
  rw [legalPath_eq_spec]
  unfold specLegal absolute
  simp only [Bool.and_eq_true, Bool.not_eq_true', decide_eq_false_iff_not, okComps_iff]
  constructor
  · rintro ⟨⟨a, b⟩, c, d⟩; exact ⟨a, b, c, d⟩
  · rintro ⟨a, b, c, d⟩; exact ⟨⟨a, b⟩, c, d⟩

example : legalPath (str "a/.b/c..d/.") = true := by decide
example : legalPath (str "a/../b") = false := by decide
example : comps (str "a/b//c") = [str "a", str "b", str "", str "c"] := by decide

/-- SECURITY COROLLARY: whatever `legal_path` accepts is not absolute and has no ".." component. -/
theorem legal_path_secure (s : CStr) (h : legalPath s = true) :
    s.head? ≠ some '/' ∧ ∀ c ∈ comps s, c ≠ dotdot := by
  have := (legal_path_spec s).mp h
  exact ⟨this.1, this.2.2.1⟩

theorem legal_path_safe (s : CStr) (h : legalPath s = true) : safe s = true := by
  obtain ⟨h1, h2⟩ := legal_path_secure s h
  simp [safe, absolute, h1]
  exact h2

example : ∃ s, legalPath s = true ∧ s ≠ [] := ⟨str "room/a.c", by decide, by decide⟩

/-! ### check_valid_path -/

theorem check_valid_path_eq_spec (v : Verdict) (path : CStr) :
    checkValidPath true v path = specCheck v path := by
  cases v <;> simp [checkValidPath, cvpFinish, specCheck, specAnswer, legalPath_eq_spec, dot] <;> rfl

/-- `check_valid_path`: a destructed / missing caller and a denial give no path; a returned path `r`
    is relative, has no ".." component, and is the master's answer (the argument when the master just
    said yes) minus one leading slash, with "" read as ".". -/
theorem check_valid_path_sound (callerOk : Bool) (v : Verdict) (path r : CStr)
    (h : checkValidPath callerOk v path = some r) :
    callerOk = true ∧ v ≠ .deny ∧ v.raises = false ∧
    r.head? ≠ some '/' ∧ (∀ c ∈ comps r, c ≠ dotdot) ∧
    (∃ a, specAnswer v path = some a ∧ r = (if stripOneSlash a = [] then dot else stripOneSlash a)) := by
  cases callerOk with
  | false => simp [checkValidPath] at h
  | true =>
    rw [check_valid_path_eq_spec] at h
    unfold specCheck at h
    cases ha : specAnswer v path with
    | none => simp [ha] at h
    | some a =>
      simp only [ha] at h
      generalize hq : (if stripOneSlash a = [] then dot else stripOneSlash a) = q at h
      by_cases hl : specLegal q = true
      · simp only [hl, ↓reduceIte, Option.some.injEq] at h
        subst h
        rw [← legalPath_eq_spec] at hl
        obtain ⟨h1, h2⟩ := legal_path_secure _ hl
        refine ⟨rfl, ?_, ?_, h1, h2, a, rfl, hq.symm⟩
        · intro hv; subst hv; simp [specAnswer] at ha
        · cases v <;> simp [Verdict.raises, specAnswer] at ha ⊢
      · simp [hl] at h

/-- FAIL CLOSED: when the master function raises an error no path comes back (and, in the efun models, control
    does not come back either: `Sys.ask` / `renameEfun`) -/
theorem check_valid_path_error_fails_closed (callerOk : Bool) (v : Verdict) (path : CStr)
    (h : v.raises = true) : checkValidPath callerOk v path = none := by
  cases v <;> simp [Verdict.raises] at h
  cases callerOk <;> rfl

/-- as coded (made visible): a master that does not define valid_read / valid_write, or returns anything but the
    integer 0 or a string (negative int, float — even 0.0 —, array, object), approves the ORIGINAL path -/
theorem check_valid_path_absent_or_odd_approves (path : CStr) (w : String) :
    checkValidPath true .absent path = checkValidPath true .ok path ∧
    checkValidPath true (.odd w) path = checkValidPath true .ok path := ⟨rfl, rfl⟩

theorem check_valid_path_denied (callerOk : Bool) (path : CStr) :
    checkValidPath callerOk .deny path = none := by
  cases callerOk <;> rfl

example : checkValidPath true .ok (str "/d/f") = some (str "d/f") := by decide
example : checkValidPath true (.rewrite (str "/x/../y")) (str "/d/f") = none := by decide
example : checkValidPath true .ok (str "/") = some (str ".") := by decide

/-- `strip_name` never yields an absolute name (all leading slashes are removed). -/
theorem strip_name_relative (s r : CStr) (n : Nat) (h : stripName s n = some r) : absolute r = false := by
  unfold stripName at h
  cases hc : copyNoDbl (n - 1) '\x00' (s.dropWhile (· = '/')) with
  | none => simp [hc] at h
  | some d =>
    simp only [hc, Option.some.injEq] at h
    obtain ⟨k, hk⟩ := stripDotCRev_suffix d.reverse
    rw [hk, List.drop_reverse, List.reverse_reverse] at h
    subst h
    have hd := copyNoDbl_head _ _ _ _ hc
    have hs : (s.dropWhile (· = '/')).head? ≠ some '/' := by
      intro hx
      have := List.head?_dropWhile_not (fun c : Char => decide (c = '/')) s
      simp [hx] at this
    unfold absolute
    simp only [decide_eq_false_iff_not]
    intro hx
    cases hm : d.length - k with
    | zero => simp [hm] at hx
    | succ m =>
      rw [hm] at hx
      cases d with
      | nil => simp at hx
      | cons c d' =>
        simp at hx
        subst hx
        rcases hd with hd | hd
        · simp at hd
        · exact hs (by rw [← hd]; rfl)

example : stripName (str "//d/obj.c.c") = some (str "d/obj") := by decide
example : stripName (str "/a//b") = none := by decide

/-! ### load_object -/

/-- every path `load_object` (repaired: `legal_path` before `stat`) passes to the file system — the
    existence probe `stat (real_name)` and the `open` of the source — is relative and has no ".."
    component, for ALL object names. -/
theorem load_probe_confined (name : CStr) (ex : CStr → Bool) (a : LoadAccess) (p : CStr)
    (h : loadAccess name ex = some a) (hp : a.probe = some p ∨ a.opened = some p) : safe p = true := by
  unfold loadAccess at h
  cases hr : loadRealName name with
  | none => simp [hr] at h
  | some rn =>
    simp only [hr] at h
    by_cases hl : legalPath rn = true
    · simp only [hl, ↓reduceIte, Option.some.injEq] at h
      subst h
      rcases hp with hp | hp
      · simp only [Option.some.injEq] at hp; subst hp; exact legal_path_safe _ hl
      · simp only at hp
        split at hp
        · simp only [Option.some.injEq] at hp; subst hp; exact legal_path_safe _ hl
        · cases hp
    · simp only [hl, Bool.false_eq_true, ↓reduceIte, Option.some.injEq] at h
      subst h
      rcases hp with hp | hp <;> cases hp

theorem load_open_confined (name : CStr) (ex : CStr → Bool) (a : LoadAccess) (p : CStr)
    (h : loadAccess name ex = some a) (hp : a.opened = some p) : safe p = true :=
  load_probe_confined name ex a p h (Or.inr hp)

example : loadAccess (str "/d/obj.c") (fun _ => true) =
    some { probe := some (str "d/obj.c"), opened := some (str "d/obj.c") } := by decide
example : loadAccess (str "../x") (fun _ => true) = some { probe := none, opened := none } := by decide

/-! ### #include -/

/-- every path `inc_open` (repaired: the normalised name must pass `legal_path`) hands to `open()` is
    relative and has no ".." component, for ALL including files and include names, provided the
    include directories are non-empty legal paths — which `set_inc_list` guarantees, see `inc_dir_ok`. -/
theorem include_path_confined (dirs : List CStr) (base name p : CStr)
    (hd : ∀ d ∈ dirs, d ≠ [] ∧ legalPath d = true)
    (hp : p ∈ incTries true dirs base name) : safe p = true := by
  unfold incTries at hp
  split at hp
  · cases hp
  · rcases List.mem_append.mp hp with h | h
    · split at h
      · rename_i hl
        simp only [Bool.not_true, Bool.false_or] at hl
        simp only [List.mem_singleton] at h
        subst h
        exact legal_path_safe _ hl
      · cases h
    · split at h
      · cases h
      · rename_i hn
        obtain ⟨d, hdm, rfl⟩ := List.mem_map.mp h
        obtain ⟨h0, hl⟩ := hd d (List.mem_filter.mp hdm).1
        exact fallback_safe d name h0 (legal_path_secure d hl) (by simpa using hn)

/-- what `set_inc_list` stores for a configured entry is a non-empty legal path ("/" and "" become ".") -/
theorem inc_dir_ok (entry d : CStr) (h : incDirOf entry = some d) : d ≠ [] ∧ legalPath d = true := by
  unfold incDirOf at h
  simp only at h
  generalize hq : (if stripOneSlash entry = [] then ['.'] else stripOneSlash entry) = q at h
  have hne : q ≠ [] := by
    rw [← hq]; split
    · simp
    · assumption
  by_cases hl : legalPath q = true
  · simp only [hl, ↓reduceIte, Option.some.injEq] at h
    subst h
    exact ⟨hne, hl⟩
  · simp [hl] at h

/-- `include_path_confined` for ANY configured include search path -/
theorem include_path_confined_config (entries : List CStr) (base name p : CStr)
    (hp : p ∈ incTries true (entries.filterMap incDirOf) base name) : safe p = true :=
  include_path_confined _ base name p
    (fun d hd => by
      obtain ⟨e, _, he⟩ := List.mem_filterMap.mp hd
      exact inc_dir_ok e d he) hp

/-- the same for ANY configured `IncludeDir` string (`set_inc_list` splits it at ':'; dropped entries are skipped) -/
theorem include_path_confined_any_config (cfg base name p : CStr)
    (hp : p ∈ incTries true (((incListOf cfg).getD []).filterMap id) base name) : safe p = true := by
  apply include_path_confined _ base name p _ hp
  intro d hd
  unfold incListOf at hd
  split at hd
  · simp at hd
  · simp only [Option.getD_some, List.mem_filterMap, List.mem_map, id_eq, exists_eq_right] at hd
    obtain ⟨e, _, he⟩ := hd
    exact inc_dir_ok e d he

/-- the oracle accepts what the model of `set_inc_list` stores, for every configuration string: no stored entry is
    empty, absolute or has a ".." component -/
theorem judge_il_model (list : CStr) : judgeEv [.il list ((incListOf list).getD [])] = [] := by
  have h : ((incListOf list).getD []).find? badIncEntry = none := by
    rw [List.find?_eq_none]
    intro e he
    unfold incListOf at he
    split at he
    · simp at he
    · simp only [Option.getD_some, List.mem_map] at he
      obtain ⟨x, _, rfl⟩ := he
      cases hx : incDirOf x with
      | none => simp [badIncEntry]
      | some d =>
        obtain ⟨h1, h2⟩ := inc_dir_ok x d hx
        have := legal_path_safe d h2
        simp [badIncEntry, this, h1]
  unfold judgeEv
  simp only [List.foldl_cons, List.foldl_nil, judgeStep]
  rw [h]
  rfl

example : judgeEv [.il (str "/..") [some (str "..")]] ≠ [] := by decide
example : judgeEv [.il (str "//x") [some (str "/x")]] ≠ [] := by decide

example : [str "/include", str "/", str "/a/../b"].filterMap incDirOf = [str "include", str "."] := by decide
example : incListOf (str "/include:/:/a/../b::x") =
    some [some (str "include"), some (str "."), none, some (str "."), some (str "x")] := by decide

example : incTries true [str "include"] (str "room/x.c") (str "../std.h") = [str "std.h"] := by decide
example : incTries true [str "include"] (str "room/x.c") (str "std.h") = [str "room/std.h", str "include/std.h"] := by
  decide
example : incTries true [str "include"] (str "x.c") (str "..") = [] := by decide

/-! ### the oracle accepts every unit-style answer of the model -/

theorem judge_lp_model (s : CStr) : judgeEv [.lp s (legalPath s)] = [] := by
  simp [judgeEv, judgeStep, legalPath_eq_spec]

theorem judge_cvp_model (v : Verdict) (s : CStr) : judgeEv [.cvp v s (checkValidPath true v s)] = [] := by
  cases h : checkValidPath true v s with
  | none =>
    rw [check_valid_path_eq_spec] at h
    simp [judgeEv, judgeStep, h]
  | some q =>
    have hs := check_valid_path_sound true v s q h
    have hsafe : safe q = true := by
      simp [safe, absolute, hs.2.2.2.1]; exact hs.2.2.2.2.1
    rw [check_valid_path_eq_spec] at h
    simp [judgeEv, judgeStep, h, hsafe]

theorem judge_inc_model (dirs : List CStr) (base name : CStr)
    (hd : ∀ d ∈ dirs, d ≠ [] ∧ legalPath d = true) :
    judgeEv [.inc base name (incNormal base name) (incTries true dirs base name)] = [] := by
  have : (incTries true dirs base name).find? (fun t => !safe t) = none := by
    rw [List.find?_eq_none]
    intro t ht
    simp [include_path_confined dirs base name t hd ht]
  simp [judgeEv, judgeStep, this]

theorem judge_sn_model (s : CStr) (n : Nat) : judgeEv [.sn s (stripName s n)] = [] := by
  cases h : stripName s n with
  | none => simp [judgeEv, judgeStep]
  | some q => simp [judgeEv, judgeStep, strip_name_relative s q n h]

end NV.C15
