/-
C18 — (1) which compilation units `epilog()` accepts, and the round trip for EVERY accepted unit (the full statement
behind the former open finding C18-F3: with the refusal of units of more than 65535 lines no side condition on the
number of lines or of code bytes is left); (2) the scan of `A_FILE_INFO` in `program_file_id`, with its start index,
step, entry count (`sizeof` arithmetic) and cast transcribed from the source, equals the abstract test the file-id
model and `file_roundtrip` use.
-/
import NV.C18.PropsCompile

namespace NV.C18

open NV.Gen.C18

/-- the largest `unsigned short` is the last value of the 16 bit line fields -/
theorem ushrtMax_lineMod : ushrtMax + 1 = lineMod := by decide

/-- a unit the line test of `epilog` lets pass has all its absolute lines below 2^16 -/
theorem lines_accepted_fit (base cur : Int) (h : linesRefused base cur = false) : base + cur < (lineMod : Int) := by
  have hm : ((ushrtMax : Nat) : Int) + 1 = (lineMod : Int) := by decide
  have : ¬ (base + cur > (ushrtMax : Int)) := by
    intro hc
    simp [linesRefused, hc] at h
  omega

/-- a unit the code test of `epilog` lets pass has less than 2^16 bytes of code (function code + initialisers) -/
theorem code_accepted_fit (p i : Nat) (h : codeRefused p i = false) : p + i < lineMod := by
  have hm : ushrtMax + 1 = lineMod := ushrtMax_lineMod
  -- whatever slack the source adds to the two sizes (it is part of the transcribed test), acceptance bounds their sum
  unfold codeRefused at h
  have h' := of_decide_eq_false h
  omega

/-- **compile_roundtrip_accepted** (full statement; closes finding C18-F3).  For EVERY compilation unit that `epilog()`
ACCEPTS — the final lexer counters pass `current_line_base + current_line > USHRT_MAX` and the code size passes the
`Program too large` test, both transcribed from the source — and every code offset of the finished program, `find_line`
returns the file and the line the lexer was reading when the parse node of that byte was created.  No bound on lines,
code bytes, statement sizes, include layout or nesting is assumed any more; the only remaining hypothesis is that the
program string table has fewer than 2^16 entries (it is indexed by 16 bit file ids; every entry that is a file name costs
at least one line, every other entry at least three bytes of code). -/
theorem compile_roundtrip_accepted (main : Nat) (evs : List LexEvN) (ems : List (Nat × Nat)) (initBytes : Nat)
    (hlines : linesRefused (lexRunN (initN main) evs).lex.base (lexRunN (initN main) evs).lex.curLine = false)
    (hcode : codeRefused ((ems.map (·.2)).sum - initBytes) initBytes = false) (hinit : initBytes ≤ (ems.map (·.2)).sum)
    (htbl : (lexRunN (initN main) evs).tbl.length < lineMod)
    (off : Int) (h1 : 0 < off) (h2 : off ≤ ((ems.map (·.2)).sum : Nat)) :
    ∃ k, coverK ems (off - 1).toNat = some k ∧
      findLine (finalTab main evs ems) off = .ok (posAt main evs k).lex.fileId (posAt main evs k).lex.curLine ∧
      1 ≤ (posAt main evs k).lex.fileId ∧
      (lexRunN (initN main) evs).tbl[(posAt main evs k).lex.fileId - 1]? = some (posAt main evs k).curName := by
  have hfit : (lexRunN (initN main) evs).lex.abs < (lineMod : Int) := lines_accepted_fit _ _ hlines
  have hsize : (ems.map (·.2)).sum < lineMod := by
    have := code_accepted_fit _ _ hcode
    omega
  exact compile_roundtrip main evs ems hfit htbl hsize off h1 h2

/-- non-vacuity of the acceptance tests, relative to the regenerated limit: `USHRT_MAX` lines pass, one more does not
    (wherever the lines are: main file or includes); an empty program passes, `USHRT_MAX` bytes of code do not -/
example : linesRefused 0 ushrtMax = false ∧ linesRefused 40000 ((ushrtMax : Int) - 39999) = true ∧
    codeRefused 0 0 = false ∧ codeRefused ushrtMax 0 = true := by decide

/-! ## the scan of `A_FILE_INFO` in `program_file_id` -/

theorem flatFi_cons (s : Seg) (fi : List Seg) : flatFi (s :: fi) = s.count :: s.file :: flatFi fi := by
  simp [flatFi]

theorem flatFi_length (fi : List Seg) : (flatFi fi).length = 2 * fi.length := by
  induction fi with
  | nil => rfl
  | cons s r ih => rw [flatFi_cons]; simp [ih]; omega

/-- walking the flat array from an even index: only the odd positions (the file ids) are compared -/
theorem scanFlat_even (id : Nat) (hid : id < lineMod) : ∀ (fi : List Seg) (k n : Nat), 2 * k + 2 * fi.length ≤ n →
    scanFlat n id (flatFi fi) (2 * k) = fi.any (fun s => s.file == id) := by
  intro fi
  induction fi with
  | nil => intro k n _; rfl
  | cons s r ih =>
    intro k n h
    have hcm : id % fidCastMod = id := Nat.mod_eq_of_lt (by simpa [fidCastMod, szUShort, lineMod, shortBits] using hid)
    have e1 : fidScanStart = 1 := rfl
    have e2 : fidScanStep = 2 := rfl
    have e3 : fidScanIncl = false := rfl
    have hrec := ih (k + 1) n (by simp only [List.length_cons] at h; omega)
    have h2k : 2 * (k + 1) = 2 * k + 1 + 1 := by omega
    rw [h2k] at hrec
    rw [flatFi_cons]
    simp only [scanFlat, hrec, List.any_cons, e1, e2, e3, hcm]
    have hodd : ¬ ((2 * k - 1) % 2 = 0 ∧ 1 ≤ 2 * k) := by omega
    have hev : (2 * k + 1 - 1) % 2 = 0 := by omega
    have hlt : 2 * k + 1 < n := by simp only [List.length_cons] at h; omega
    by_cases hk : 1 ≤ 2 * k
    · have : ¬ ((2 * k - 1) % 2 = 0) := by omega
      simp [hk, this, hlt]
      congr 1
    · simp [hk, hlt]
      congr 1

/-- **file_id_scan_agrees** (bridging lemma for the transcribed scan).  With the start index, step, entry count
(`current_size / sizeof (unsigned short)`, the element size regenerated from the declaration) and cast found in the
source, the scan `program_file_id` performs over `A_FILE_INFO` answers exactly "some segment written so far has this
file id" — for every table and every id below 2^16 — which is the test the file-id model (`fileIdFor`) and the proofs
of `fresh_idsOf` / `file_roundtrip` use.  A scan that looks at fewer entries (`sizeof` of the pointer), starts at the
counts or uses another step does not satisfy this equation. -/
theorem file_id_scan_agrees (fi : List Seg) (id : Nat) (hid : id < lineMod) :
    fileIdInUse fi id = fi.any (fun s => s.file == id) := by
  unfold fileIdInUse
  have hn : fidEntries (fidElemBytes * (flatFi fi).length) = 2 * fi.length := by
    rw [flatFi_length]
    simp [fidEntries, fidElemBytes, szUShort]
  rw [hn]
  have := scanFlat_even id hid fi 0 (2 * fi.length) (by omega)
  simpa using this

/-- the model's choice of a file id, restated with the transcribed scan -/
theorem fileIdFor_uses_scan (fi : List Seg) (tbl : List Nat) (name : Nat) :
    fileIdFor fi tbl name =
      (if fileIdInUse fi (u16 (storeStr tbl name).1) then ((storeStr tbl name).2.length + 1, (storeStr tbl name).2 ++ [name])
       else storeStr tbl name) := by
  have hlt : u16 ((storeStr tbl name).1 : Int) < lineMod := by
    unfold u16
    have : (0 : Int) < (lineMod : Int) := by decide
    have := Int.emod_lt_of_pos ((storeStr tbl name).1 : Int) this
    have := Int.emod_nonneg ((storeStr tbl name).1 : Int) (by decide : (lineMod : Int) ≠ 0)
    omega
  rw [file_id_scan_agrees fi _ hlt]
  rfl

/-- non-vacuity: segments (3 lines, id 1), (2, id 2), (3, id 1): id 2 is in use, id 3 (a COUNT) is not -/
example : fileIdInUse [⟨3, 1⟩, ⟨2, 2⟩, ⟨3, 1⟩] 2 = true ∧ fileIdInUse [⟨3, 1⟩, ⟨2, 2⟩, ⟨3, 1⟩] 3 = false := by decide

end NV.C18
