/-
C18 — the code of global variable initialisers: the replay of the noted lines by `i_generate___INIT` is an ordinary
emission sequence, so the round trip theorem covers the initialiser bytes too.
-/
import NV.C18.Props

namespace NV.C18

open NV.Gen.C18

/-- `i_generate___INIT` on an explicit list of noted lines `(line, offset in A_INITIALIZER)`, oldest first -/
def placeNotes (st : Enc) (base : Int) (notes : List (Int × Int)) : Enc :=
  notes.foldl (fun st e => switchToLine st e.1 (base + e.2) aProgram) st

theorem placeInit_eq (st : Enc) (base : Int) : placeInit st base = placeNotes st base st.initRev.reverse := rfl

/-- the noted lines as emissions: line `l` noted at offset `o` covers the bytes up to the next noted offset (the last
    one up to the end of the block, `size`) -/
def initEms : List (Int × Int) → Int → List (Int × Nat)
  | [], _ => []
  | [(l, o)], size => [(l, (size - o).toNat)]
  | (l, o) :: (l', o') :: rest, size => (l, (o' - o).toNat) :: initEms ((l', o') :: rest) size

/-- offsets are noted in generation order and lie inside the block -/
def NotesMono : List (Int × Int) → Int → Prop
  | [], _ => True
  | [(_, o)], size => o ≤ size
  | (_, o) :: (l', o') :: rest, size => o ≤ o' ∧ NotesMono ((l', o') :: rest) size

/-- the replay followed by the closing `switch_to_line (-1)` of `i_generate_final_program` is the run of the encoder
    over the emission sequence `initEms`, started where the block was appended -/
theorem placeNotes_runFrom (base size : Int) : ∀ (notes : List (Int × Int)) (st : Enc) (l0 o0 : Int),
    NotesMono ((l0, o0) :: notes) size →
    switchToLine (placeNotes st base ((l0, o0) :: notes)) (-1) (base + size) aProgram =
      runFrom st (base + o0) (initEms ((l0, o0) :: notes) size) := by
  intro notes
  induction notes with
  | nil =>
    intro st l0 o0 h
    simp only [NotesMono] at h
    simp only [placeNotes, List.foldl_cons, List.foldl_nil, initEms, runFrom, emitStep]
    have : base + o0 + ((size - o0).toNat : Int) = base + size := by omega
    rw [this]
  | cons n rest ih =>
    intro st l0 o0 h
    obtain ⟨l1, o1⟩ := n
    simp only [NotesMono] at h
    have ih' := ih (switchToLine st l0 (base + o0) aProgram) l1 o1 h.2
    simp only [placeNotes, List.foldl_cons, initEms, runFrom, emitStep] at ih' ⊢
    have : base + o0 + ((o1 - o0).toNat : Int) = base + o1 := by omega
    rw [this]
    exact ih'

def lenSum (P : List Run) : Int := (P.map (fun r => (r.len : Int))).sum

/-- the scan of `find_line` walks over any prefix of runs that ends in front of the offset -/
theorem findRun_append_out : ∀ (P R : List Run) (off : Int), 0 < off →
    findRun (P ++ R) (lenSum P + off) = findRun R off := by
  intro P
  induction P with
  | nil => intro R off _; simp [lenSum]
  | cons r P' ih =>
    intro R off h
    have hnn : 0 ≤ lenSum P' := by
      unfold lenSum
      clear ih
      induction P' with
      | nil => simp
      | cons a t iht => simp only [List.map_cons, List.sum_cons]; omega
    have hs : lenSum (r :: P') = r.len + lenSum P' := by simp [lenSum]
    simp only [List.cons_append, findRun_cons, hs]
    have hgt : (r.len : Int) + lenSum P' + off > (r.len : Int) := by omega
    simp only [hgt, if_true]
    have : (r.len : Int) + lenSum P' + off - r.len = lenSum P' + off := by omega
    rw [this]
    exact ih R off h

/-- **init_block_roundtrip**.  Let the compiler be in ANY state `st` when `i_generate___INIT` appends the initialiser
block (`size` bytes) at address `base`, with ANY list of noted lines (first note at offset 0 — the first node of the
block notes its line —, offsets in generation order).  After the replay and the closing `switch_to_line (-1)`:
(1) `line_info` is what was there, the flush of the function code pending in front of the block, and then EXACTLY the
runs the ordinary encoder writes for the emissions "line noted at `o` covers the bytes up to the next noted offset";
(2) for EVERY offset `0 < off ≤ size` into the block, the scan of `find_line` — started behind any such prefix — stops
on a run whose stored line is the low 16 bits of the line noted for byte `off - 1`.  So an error in `mixed g = <expr>;`
is decoded to the initialiser's own line, wherever the block ends up in the program. -/
theorem init_block_roundtrip (st : Enc) (base size : Int) (l0 : Int) (notes : List (Int × Int))
    (hmono : NotesMono ((l0, 0) :: notes) size) :
    let fin := switchToLine (placeNotes st base ((l0, 0) :: notes)) (-1) (base + size) aProgram
    let pre := st.li ++ flush (base - st.lastSize) st.lineBeing
    fin.li = pre ++ encodeEms (initEms ((l0, 0) :: notes) size) ∧
    ∀ off : Int, 0 < off → off ≤ totalBytes (initEms ((l0, 0) :: notes) size) →
      (findRun fin.li (lenSum pre + off)).map (·.line) =
        (specLine (initEms ((l0, 0) :: notes) size) (off - 1).toNat).map u16 := by
  intro fin pre
  have hli : fin.li = pre ++ encodeEms (initEms ((l0, 0) :: notes) size) := by
    show (switchToLine (placeNotes st base ((l0, 0) :: notes)) (-1) (base + size) aProgram).li = _
    rw [placeNotes_runFrom base size notes st l0 0 hmono, runFrom_li]
    simp [pre]
  refine ⟨hli, ?_⟩
  intro off h1 h2
  rw [hli, findRun_append_out pre _ off h1]
  exact findRun_encodeEms _ off h1 h2

/-- non-vacuity: two initialisers, on lines 17 (bytes 0..5 of the block) and 19 (bytes 6..8), appended at address 34
behind function code whose last 4 bytes (line 10) are still pending: offset 34+3 decodes to line 17, 34+7 to 19 -/
example :
    let st : Enc := { lastSize := 30, lineBeing := 10, liRev := [⟨30, 9⟩] }
    let fin := switchToLine (placeNotes st 34 [(17, 0), (19, 6)]) (-1) (34 + 9) aProgram
    NotesMono [(17, 0), (19, 6)] 9 ∧ initEms [(17, 0), (19, 6)] 9 = [(17, 6), (19, 3)] ∧
    fin.li = [⟨30, 9⟩, ⟨4, 10⟩, ⟨6, 17⟩, ⟨3, 19⟩] ∧
    (findRun fin.li 37).map (·.line) = some 17 ∧ (findRun fin.li 41).map (·.line) = some 19 := by
  refine ⟨by simp [NotesMono], by simp [initEms], ?_⟩
  have h : (switchToLine (placeNotes { lastSize := 30, lineBeing := 10, liRev := [⟨30, 9⟩] } 34 [(17, 0), (19, 6)]) (-1) (34 + 9) aProgram).li
      = [⟨30, 9⟩, ⟨4, 10⟩, ⟨6, 17⟩, ⟨3, 19⟩] := by
    have hm : NotesMono [(17, 0), (19, 6)] 9 := by simp [NotesMono]
    have := (init_block_roundtrip { lastSize := 30, lineBeing := 10, liRev := [⟨30, 9⟩] } 34 9 17 [(19, 6)] hm).1
    rw [this]
    simp only [Enc.li, flush, initEms, encodeEms]
    rw [runsOf_le (n := (34 - 30 : Int).toNat) (by decide), runsOf_le (n := (6 - 0 : Int).toNat) (by decide),
      runsOf_le (n := (9 - 6 : Int).toNat) (by decide)]
    decide
  refine ⟨h, ?_, ?_⟩ <;> (rw [h]; decide)

end NV.C18
