/-
C18 — the two encoders and the two decoders composed: `find_line` is inverse to the compilation.

A compilation unit is seen by the line-number machinery as
  * the lexer's event sequence `evs` (ordinary lines, `#include`s of any file at any nesting, ends of included files,
    other program-string insertions) — it drives `save_file_info` / `add_program_file`, i.e. the `file_info` table;
  * the code generator's emission sequence `ems`: `(k, n)` = "`n` bytes of code were generated for a parse node that was
    created when the lexer had consumed the first `k` events" — the node carries the absolute line of that moment
    (`new_node`: `current_line_base + current_line`), `switch_to_line` is called with it, the bytes follow.  The
    emissions are in CODE order (functions in the order they were finished, the replayed initialiser block last), so
    `k` is NOT monotone: any interleaving of `save_file_info` calls and `switch_to_line` calls is covered.

`compile_roundtrip`: for every such unit and every code offset, the real decoder chain
`find_line` = scan of `line_info` ∘ `translate_absolute_line` (both passes) ∘ `strings[file_idx - 1]` on the FINISHED
tables returns the file name and the line the lexer was reading when the node was created.
-/
import NV.C18.Props

namespace NV.C18

open NV.Gen.C18

/-- lexer state after the first `k` events -/
def posAt (main : Nat) (evs : List LexEvN) (k : Nat) : LexN := lexRunN (initN main) (evs.take k)

/-- the emission sequence as `switch_to_line` sees it: (absolute line of the node, bytes) -/
def emsOf (main : Nat) (evs : List LexEvN) (ems : List (Nat × Nat)) : List (Int × Nat) :=
  ems.map fun e => ((posAt main evs e.1).lex.abs, e.2)

/-- which emission covers code byte `b` (its lexer position index) -/
def coverK : List (Nat × Nat) → Nat → Option Nat
  | [], _ => none
  | (k, n) :: rest, b => if b < n then some k else coverK rest (b - n)

/-- the tables of the finished program (`epilog`): `program_size` through its `unsigned short`, the `file_info`
    segments incl. the last one written by `i_generate_final_program`, the runs of `line_info` -/
def finalTab (main : Nat) (evs : List LexEvN) (ems : List (Nat × Nat)) : Tab :=
  { psize := u16 (totalBytes (emsOf main evs ems)),
    fi := (lexFinish (lexRunN (initN main) evs).lex).fi,
    li := (runEms (emsOf main evs ems)).li }

theorem totalBytes_emsOf (main : Nat) (evs : List LexEvN) (ems : List (Nat × Nat)) :
    totalBytes (emsOf main evs ems) = (ems.map (·.2)).sum := by
  simp [totalBytes, emsOf, List.map_map, Function.comp_def]

theorem specLine_emsOf (main : Nat) (evs : List LexEvN) (ems : List (Nat × Nat)) : ∀ b : Nat,
    specLine (emsOf main evs ems) b = (coverK ems b).map (fun k => (posAt main evs k).lex.abs) := by
  induction ems with
  | nil => intro b; simp [emsOf, specLine, coverK]
  | cons e rest ih =>
    intro b
    obtain ⟨k, n⟩ := e
    have ih' := ih (b - n)
    simp only [emsOf, List.map_cons, specLine, coverK] at ih' ⊢
    by_cases h : b < n
    · simp [h]
    · simp only [h, if_false]
      exact ih'

theorem coverK_some (ems : List (Nat × Nat)) : ∀ b : Nat, b < (ems.map (·.2)).sum → ∃ k, coverK ems b = some k := by
  induction ems with
  | nil => intro b h; simp at h
  | cons e rest ih =>
    intro b h
    obtain ⟨k, n⟩ := e
    simp only [List.map_cons, List.sum_cons] at h
    simp only [coverK]
    by_cases hb : b < n
    · exact ⟨k, by simp [hb]⟩
    · simp only [hb, if_false]
      exact ih (b - n) (by omega)

/-- the absolute line of every lexer position is at least 1 -/
theorem abs_pos (main : Nat) (p : List LexEvN) : 1 ≤ (lexRunN (initN main) p).lex.abs := by
  rw [run_lex]
  have h := abs_run (idsOf (initN main) p) (initN main).lex
  have h0 : (initN main).lex.abs = 1 := by simp [initN, Lex.abs]
  omega

/-- … and never decreases while the compilation goes on -/
theorem abs_mono (main : Nat) (p q : List LexEvN) :
    (lexRunN (initN main) p).lex.abs ≤ (lexRunN (initN main) (p ++ q)).lex.abs := by
  have hsplit : lexRunN (initN main) (p ++ q) = lexRunN (lexRunN (initN main) p) q := by
    simp [lexRunN, List.foldl_append]
  rw [hsplit, run_lex q]
  exact abs_run _ _

theorem lexFinish_fi_ne_nil (s : Lex) : (lexFinish s).fi ≠ [] := by
  simp [lexFinish, Lex.save]

/-- **compile_roundtrip** (the decoders are inverse to the encoders, end to end).  Take ANY compilation unit: any
lexer event sequence `evs` over the main file (lines, `#include` of any file at any nesting and any number of times,
ends of included files, other string-table insertions) and ANY emission sequence `ems` in code order, each emission
tagged with the lexer position `k ≤ evs.length` at which its parse node was created (so the `save_file_info` calls
and the `switch_to_line` calls interleave arbitrarily).  Let the finished program have the tables both encoders wrote.
Then for EVERY code offset `0 < off ≤ program size`, `find_line` on those tables — scan of the runs, first and second
pass of `translate_absolute_line` — answers `ok file line` where `line` is the line the lexer was reading at position
`k` of the emission that covers the byte in front of `off`, and the final program string table maps `file` to the
name of the file the lexer was reading then.  Size conditions only: fewer than 2^16 absolute lines, program strings
and code bytes (all three 16 bit in the C declarations, `widths_agree`). -/
theorem compile_roundtrip (main : Nat) (evs : List LexEvN) (ems : List (Nat × Nat))
    (hfit : (lexRunN (initN main) evs).lex.abs < (lineMod : Int))
    (htbl : (lexRunN (initN main) evs).tbl.length < lineMod)
    (hsize : (ems.map (·.2)).sum < lineMod)
    (off : Int) (h1 : 0 < off) (h2 : off ≤ ((ems.map (·.2)).sum : Nat)) :
    ∃ k, coverK ems (off - 1).toNat = some k ∧
      findLine (finalTab main evs ems) off = .ok (posAt main evs k).lex.fileId (posAt main evs k).lex.curLine ∧
      1 ≤ (posAt main evs k).lex.fileId ∧
      (lexRunN (initN main) evs).tbl[(posAt main evs k).lex.fileId - 1]? = some (posAt main evs k).curName := by
  obtain ⟨k, hk⟩ := coverK_some ems (off - 1).toNat (by omega)
  refine ⟨k, hk, ?_⟩
  have hevs : evs.take k ++ evs.drop k = evs := List.take_append_drop k evs
  have hfr := file_roundtrip main (evs.take k) (evs.drop k) (by rw [hevs]; exact hfit) (by rw [hevs]; exact htbl)
  rw [hevs] at hfr
  obtain ⟨htr, hid, hname⟩ := hfr
  refine ⟨?_, hid, hname⟩
  -- the scan of line_info
  have htot := totalBytes_emsOf main evs ems
  have hraw := line_roundtrip_raw (emsOf main evs ems) off h1 (by rw [htot]; exact h2)
  rw [specLine_emsOf, hk] at hraw
  simp only [Option.map_some] at hraw
  -- the absolute line fits 16 bits
  have hpos : 1 ≤ (posAt main evs k).lex.abs := abs_pos main (evs.take k)
  have hle : (posAt main evs k).lex.abs ≤ (lexRunN (initN main) evs).lex.abs := by
    have := abs_mono main (evs.take k) (evs.drop k)
    rw [hevs] at this
    exact this
  have hu : ((u16 (posAt main evs k).lex.abs : Nat) : Int) = (posAt main evs k).lex.abs :=
    u16_id _ (by omega) (by omega)
  have hps : u16 (totalBytes (emsOf main evs ems)) = (ems.map (·.2)).sum := by
    rw [htot]; exact u16_nat _ hsize
  cases hf : findRun (runEms (emsOf main evs ems)).li off with
  | none => rw [hf] at hraw; simp at hraw
  | some r =>
    rw [hf] at hraw
    simp only [Option.map_some, Option.some.injEq] at hraw
    unfold findLine finalTab
    simp only [hps]
    have hng : psizeRejects off (((ems.map (·.2)).sum : Nat) : Int) = false := by
      cases hx : psizeRejects off (((ems.map (·.2)).sum : Nat) : Int) with
      | false => rfl
      | true => have := (psizeRejects_iff _ _).1 hx; omega
    simp only [Bool.false_eq_true, if_false, hng, hf, scan_unbounded, Bool.false_and]
    cases hfi : (lexFinish (lexRunN (initN main) evs).lex).fi with
    | nil => exact absurd hfi (lexFinish_fi_ne_nil _)
    | cons s0 rest =>
      simp only
      rw [← hfi, hraw, hu]
      unfold posAt
      rw [htr]

/-- non-vacuity: main file 5 = 2 lines, `#include` 7 (2 lines, the function `f` is defined there), 1 more line with the
function `g`; the code generator finishes `g` first?  no — code order is `f` (node created at position 3 = line 1 of the
header) then `g` (position 6 = line 4 of the main file); 300 and 4 bytes.  Offset 256 (second run of `f`) decodes to
(header, line 1), offset 301 to (main file, line 4) -/
example :
    let evs : List LexEvN := [.nl, .nl, .incl 7, .nl, .nl, .eof, .nl]
    let ems : List (Nat × Nat) := [(3, 300), (6, 4)]
    (finalTab 5 evs ems).fi = [⟨3, 1⟩, ⟨3, 2⟩, ⟨2, 1⟩] ∧
    coverK ems 255 = some 3 ∧ (posAt 5 evs 3).curName = 7 ∧ (posAt 5 evs 3).lex.curLine = 1 ∧
    coverK ems 300 = some 6 ∧ (posAt 5 evs 6).curName = 5 ∧ (posAt 5 evs 6).lex.curLine = 4 := by
  decide

/-! ## GLOBAL_INCLUDE_FILE -/

/-- the lexer state after `start_new_file` has pushed the configured global include file `g` in front of the main
file: `handle_include (gi_file, 1)` runs with `current_line = 1` and WITHOUT the `current_line++` of an `#include`
directive (no newline has been consumed), so the include stack holds line 1 and the main file's first segment has
ZERO lines -/
def globalStart (main g : Nat) : Lex :=
  { curLine := 1, base := 0, saved := 0, fileId := g, stack := [(1, main)], fi := [⟨0, u16 main⟩] }

theorem inv_globalStart (main g : Nat) (hm : main < lineMod) (hg : g < lineMod) (hne : g ≠ main) :
    Inv (globalStart main g) := by
  have hu : u16 (main : Int) = main := u16_nat main hm
  constructor <;> simp [globalStart, segTotal, segOf, hu, hm, hg, hne, Ne.symm hne]

/-- **file_roundtrip_global_include**.  With a global include file `g` pushed in front of the main file (the
`GlobalInclude` option: every compilation unit then starts INSIDE `g`, the main file resumes at its line 1 when `g`
ends), for ANY further event sequence `p ++ q` (lines, `#include`s of files not used before at any nesting, ends of
files — the first unmatched one ends `g`) and ANY prefix `p`: the absolute line of the lexer position decodes against
the final `file_info` to (current file, current line) — in particular lines of the main file are not shifted by the
global include and the zero-length first segment is skipped correctly.  Fewer than 2^16 absolute lines. -/
theorem file_roundtrip_global_include (main g : Nat) (hm : main < lineMod) (hg : g < lineMod) (hne : g ≠ main)
    (p q : List LexEv) (hfresh : Fresh (globalStart main g) (p ++ q))
    (hfit : (lexRun (globalStart main g) (p ++ q)).abs < (lineMod : Int)) :
    translateAbs (lexRun (globalStart main g) p).abs (lexFinish (lexRun (globalStart main g) (p ++ q))).fi
      = some ((lexRun (globalStart main g) p).fileId, (lexRun (globalStart main g) p).curLine) := by
  have hsplit : lexRun (globalStart main g) (p ++ q) = lexRun (lexRun (globalStart main g) p) q := by
    simp [lexRun, List.foldl_append]
  obtain ⟨hf1, hf2⟩ := fresh_split p (globalStart main g) q hfresh
  rw [hsplit] at hfit ⊢
  have hbp : (lexRun (globalStart main g) p).abs < (lineMod : Int) := Int.lt_of_le_of_lt (abs_run q _) hfit
  have hinv := inv_run p (globalStart main g) (inv_globalStart main g hm hg hne) hf1 hbp
  exact roundtrip_from q _ hinv hf2 hfit

/-- non-vacuity: global include 2 (3 lines), main file 1: line 1, `#include` 3 on line 2 (2 lines), 2 more lines.
Main line 1 is absolute line 4 and decodes to (1, 1); the header's line 2 to (3, 2); main line 4 to (1, 4) -/
example :
    let evs : List LexEv := [.nl, .nl, .eof, .nl, .incl 3, .nl, .eof, .nl, .nl]
    (lexFinish (lexRun (globalStart 1 2) evs)).fi = [⟨0, 1⟩, ⟨3, 2⟩, ⟨2, 1⟩, ⟨2, 3⟩, ⟨3, 1⟩] ∧
    (lexRun (globalStart 1 2) (evs.take 3)).abs = 4 ∧
    translateAbs 4 (lexFinish (lexRun (globalStart 1 2) evs)).fi = some (1, 1) ∧
    translateAbs (lexRun (globalStart 1 2) (evs.take 6)).abs (lexFinish (lexRun (globalStart 1 2) evs)).fi = some (3, 2) ∧
    translateAbs (lexRun (globalStart 1 2) (evs.take 8)).abs (lexFinish (lexRun (globalStart 1 2) evs)).fi = some (1, 4) := by
  decide

end NV.C18
