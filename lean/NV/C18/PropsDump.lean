/-
C18 — theorems about the textual trace (`dump_trace`) and its relation to the mapping trace (`get_svalue_trace`).
-/
import NV.C18.Props

namespace NV.C18

open NV.Gen.C18

/-- **frame_kinds_exhaustive** (bridging lemma for the regenerated `FRAME_*` constants): the masked frame kind is always
one of the four kinds the `switch` statements of `dump_trace` / `get_svalue_trace` handle, and the four are distinct —
so no frame is silently skipped and no two cases collide. -/
theorem frame_kinds_exhaustive (k : Nat) :
    (k % (frameMask + 1) = frameFunction ∨ k % (frameMask + 1) = frameFunp ∨ k % (frameMask + 1) = frameFake ∨
      k % (frameMask + 1) = frameCatch) ∧
    [frameFunction, frameFunp, frameFake, frameCatch].Nodup := by
  refine ⟨?_, by decide⟩
  -- robust against a renumbering of the FRAME_* constants: decided over the residues, whatever their values
  have hall : ∀ j, j < frameMask + 1 → (j = frameFunction ∨ j = frameFunp ∨ j = frameFake ∨ j = frameCatch) := by decide
  exact hall _ (Nat.mod_lt _ (by decide))

theorem dtHead_isSome (w : World) (e : CsEntry) (r : Regs) : ∃ h, dtHead w e r = some h := by
  unfold dtHead
  rcases (frame_kinds_exhaustive e.kind).1 with h | h | h | h
  · exact ⟨w.fnName r.prog e.tableIndex ++ "()", by simp [h]⟩
  · refine ⟨"(function)", ?_⟩
    simp only [h]
    rfl
  · refine ⟨"(function)", ?_⟩
    simp only [h]
    rfl
  · refine ⟨"(catch)", ?_⟩
    simp only [h]
    rfl

/-- the text of a frame line (total: every frame kind prints a line) -/
def dtText (w : World) (inner : Bool) (e : CsEntry) (r : Regs) : String :=
  ((dtHead w e r).getD "") ++ dtTail w inner e r

theorem dtLine_eq (w : World) (inner : Bool) (e : CsEntry) (r : Regs) :
    dtLine w inner e r = some (dtText w inner e r) := by
  obtain ⟨h, hh⟩ := dtHead_isSome w e r
  simp [dtLine, dtText, hh]

/-- the lines for a frame list: the LAST frame is the innermost one -/
def dtTexts (w : World) : List (CsEntry × Regs) → List String
  | [] => []
  | [(e, r)] => [dtText w true e r]
  | (e, r) :: f :: rest => dtText w false e r :: dtTexts w (f :: rest)

theorem dtLines_eq (w : World) : ∀ (cs : List CsEntry) (cur : Regs), dtLines w cs cur = dtTexts w (framesOf cs cur)
  | [], _ => rfl
  | [e], cur => by simp [dtLines, framesOf, dtTexts, dtLine_eq]
  | e :: e' :: rest, cur => by
    have ih := dtLines_eq w (e' :: rest) cur
    cases rest with
    | nil =>
      simp only [dtLines, framesOf, dtTexts, dtLine_eq, Option.toList_some, List.cons_append, List.nil_append] at ih ⊢
    | cons e'' rest' =>
      simp only [dtLines, framesOf, dtTexts, dtLine_eq, Option.toList_some, List.cons_append, List.nil_append] at ih ⊢
      rw [ih]

theorem dtTexts_length (w : World) : ∀ fs : List (CsEntry × Regs), (dtTexts w fs).length = fs.length
  | [] => rfl
  | [_] => rfl
  | _ :: f :: rest => by
    have := dtTexts_length w (f :: rest)
    simp only [dtTexts, List.length_cons] at this ⊢
    omega

theorem dtTexts_get (w : World) : ∀ (fs : List (CsEntry × Regs)) (i : Nat) (e : CsEntry) (r : Regs),
    fs[i]? = some (e, r) → (dtTexts w fs)[i]? = some (dtText w (decide (i + 1 = fs.length)) e r)
  | [], i, e, r, h => by simp at h
  | [(e0, r0)], i, e, r, h => by
    cases i with
    | zero => simp at h; obtain ⟨rfl, rfl⟩ := h; simp [dtTexts]
    | succ n => simp at h
  | (e0, r0) :: f :: rest, i, e, r, h => by
    cases i with
    | zero =>
      simp at h; obtain ⟨rfl, rfl⟩ := h
      simp [dtTexts]
    | succ n =>
      have h' : (f :: rest)[n]? = some (e, r) := by simpa using h
      have ih := dtTexts_get w (f :: rest) n e r h'
      simp only [dtTexts, List.getElem?_cons_succ, List.length_cons] at ih ⊢
      rw [ih]
      congr 2
      simp

/-- when the decoder answers, the location text of `dump_trace` is `/<file>:<line>` with exactly the file and line
    `get_svalue_trace` puts into the mapping for the same frame -/
theorem locText_of_ok (w : World) (r : Regs) (t : Tab) (f : Nat) (l : Int)
    (ht : w.tab? r.prog = some t) (hd : findLine t r.pc = .ok f l) :
    locText w r = s!"/{(fileLine w r).1}:{(fileLine w r).2}" := by
  simp [locText, fileLine, ht, hd]

/-- **dump_trace_matches_svalue_trace**.  For EVERY control stack and register state with a current program, the log
text written by the modelled `dump_trace (0)` and the array built by the modelled `get_svalue_trace (0)` describe the
same frames in the same order: they have the same number of entries (one per control stack element — no frame kind is
skipped), and for every index `i` line `i` is
`<head> at <loc>, in program /<prog> (object <ob>)` where `<head>` is `name()` / `(function)` / `(catch)` for the
frame whose mapping has `"function"` = `name` / `<function>` / `CATCH`, `<prog>` is the mapping's `"program"`, `<ob>` the
mapping's `"object"` (innermost frame: `<none>` when there is no current object), and `<loc>` is `get_line_number` of the
same saved pc (`locText_of_ok`: equal to the mapping's `"file"`:`"line"` whenever the decoder answers).  With
`trace_order` this gives: the log lists the active calls outermost first, innermost last. -/
theorem dump_trace_matches_svalue_trace (w : World) (m : Machine) (hcur : m.cur.prog ≠ "-") :
    (dumpTrace w m).length = (svalueTrace w m).length ∧
    ∀ (i : Nat) (e : CsEntry) (r : Regs), (framesOf m.cs m.cur)[i]? = some (e, r) →
      (svalueTrace w m)[i]? = some ⟨fnOf w e r, r.prog, r.ob, (fileLine w r).1, (fileLine w r).2⟩ ∧
      (dumpTrace w m)[i]? = some (dtText w (decide (i + 1 = (framesOf m.cs m.cur).length)) e r) := by
  unfold dumpTrace svalueTrace
  simp only [hcur, if_false]
  rw [dtLines_eq]
  refine ⟨by simp [dtTexts_length], ?_⟩
  intro i e r h
  refine ⟨by simp [List.getElem?_map, h], dtTexts_get w _ i e r h⟩

/-- the head of a line is determined by the mapping's `"function"` value of the same frame, and the rest of the line by
    its program / object / saved pc: `dtText` spelled out -/
theorem dtText_spec (w : World) (inner : Bool) (e : CsEntry) (r : Regs) :
    dtText w inner e r =
      (if e.kind % (frameMask + 1) = frameFunction then fnOf w e r ++ "()"
       else if e.kind % (frameMask + 1) = frameCatch then "(catch)" else "(function)") ++
      s!"~at~{locText w r},~in~program~/{r.prog}~(object~{dtOb inner (e.kind % (frameMask + 1)) r})" := by
  unfold dtText dtHead dtTail fnOf
  rcases (frame_kinds_exhaustive e.kind).1 with h | h | h | h <;> simp only [h] <;> rfl

/-- the lines of one frame: "arguments:" for FUNCTION / FUNP frames whose count is not the `-1` marker, "local variables:"
    when it also has locals; `hidden` = the frame shows no variables at all -/
def dtaLine (hidden : Bool) (f : Nat × Int × Int) : String :=
  let k := f.1 % (frameMask + 1)
  if (k = frameFunction ∨ k = frameFunp) ∧ hidden = false then
    "F" ++ (if f.2.1 ≠ -1 then "A" else "") ++ (if f.2.2 > 0 ∧ f.2.1 ≠ -1 then "L" else "")
  else "F"

/-- what the specification says about a whole control stack: outer frames are never hidden, the innermost one (the
    last) is hidden exactly when it is a FUNCTION / FUNP frame that is still being set up (`innerUnbuilt`) -/
def dtaSpec (d : Int) : List (Nat × Int × Int) → List String
  | [] => []
  | [f] => [dtaLine (decide (f.2.1 ≠ -1) && innerUnbuilt f.2.1 f.2.2 d) f]
  | f :: g :: rest => dtaLine false f :: dtaSpec d (g :: rest)

/-- **dump_trace_args_lines**.  With `DUMP_WITH_ARGS | DUMP_WITH_LOCALVARS` every frame line is followed by an
"arguments:" line exactly for FRAME_FUNCTION and FRAME_FUNP frames whose argument count is not the `-1` marker, and
by a "local variables:" line exactly when that frame also has locals — except that the INNERMOST frame shows neither
while it is still being set up (`fp + num_arg + num_local - 1 > sp`, transcribed).  The counters left behind by an
EARLIER frame (they are variables of the whole function; FRAME_CATCH / FRAME_FAKE reset only `num_arg`) never leak into a
later frame's lines, whatever the start values. -/
theorem dump_trace_args_lines (d : Int) : ∀ (fs : List (Nat × Int × Int)) (st : Int × Int),
    dtaGo d fs st = dtaSpec d fs
  | [], _ => rfl
  | (kind, na, nl) :: rest, (pa, pl) => by
    have hk := (frame_kinds_exhaustive kind).1
    have ih := fun st' => dump_trace_args_lines d rest st'
    have h01 : ¬ frameFunp = frameFunction := by decide
    have h02 : ¬ frameFake = frameFunction := by decide
    have h03 : ¬ frameFake = frameFunp := by decide
    have h04 : ¬ frameCatch = frameFunction := by decide
    have h05 : ¬ frameCatch = frameFunp := by decide
    have h06 : ¬ frameCatch = frameFake := by decide
    cases rest with
    | nil =>
      rcases hk with h | h | h | h
      · by_cases ha : na = -1 <;> cases hu : innerUnbuilt na nl d <;>
          simp [dtaGo, dtaSpec, dtaLine, h, ha, hu]
      · by_cases ha : na = -1 <;> cases hu : innerUnbuilt na nl d <;>
          simp [dtaGo, dtaSpec, dtaLine, h, h01, ha, hu]
      · simp [dtaGo, dtaSpec, dtaLine, h, h02, h03]
      · simp [dtaGo, dtaSpec, dtaLine, h, h04, h05, h06]
    | cons g rest' =>
      have ih' := fun st' => ih st'
      rw [dtaGo, dtaSpec]
      rcases hk with h | h | h | h
      · simp only [dtaLine, h, List.isEmpty_cons, Bool.false_eq_true, false_and, if_false, true_or, and_self, if_true]
        rw [ih']
      · simp only [dtaLine, h, h01, List.isEmpty_cons, Bool.false_eq_true, false_and, if_false, or_true, and_self, if_true]
        rw [ih']
      · simp only [dtaLine, h, h02, h03, List.isEmpty_cons, Bool.false_eq_true, false_and, if_false, or_self]
        simp [ih']
      · simp only [dtaLine, h, h04, h05, h06, List.isEmpty_cons, Bool.false_eq_true, false_and, if_false, or_self]
        simp [ih']

/-- the innermost frame of a stack overflow during frame set-up: `go` (1 argument, 2 locals) has only 1 slot between
    `fp` and `sp` (d = 0): no variables are shown for it; with d = 2 they are -/
example : dtaGo 0 [(frameFunction, 1, 0), (frameFunction, 1, 2)] (-1, -1) = ["FA", "F"] ∧
    dtaGo 2 [(frameFunction, 1, 0), (frameFunction, 1, 2)] (-1, -1) = ["FA", "FAL"] := by decide

/-- **dump_trace_ret_heart_beat** — the return value of `dump_trace` (used by `fatal` for "in heart beat of").
When the driver itself calls `heart_beat` of object `ob` (outermost frame, opened from an empty control stack while no
object is current) and that function has called on (any frame `e'` whose saved registers are those of the `heart_beat`
frame), `dump_trace` returns the name of `ob`.  (Before the fix it read `p->ob`, the caller's object, and returned 0
here: `NV.C18.heart_beat_ret_before_fix`.) -/
theorem dump_trace_ret_heart_beat (w : World) (idx : Nat) (hbProg hbOb : String) (inner : Regs) (e' : CsEntry)
    (hname : w.fnName hbProg idx = "heart_beat") (hp : inner.prog ≠ "-")
    (he' : e'.prog = hbProg) (hob : e'.ob = hbOb) (hnn : hbOb ≠ "-") :
    dumpTraceRet w { cs := [⟨frameFunction, idx, "-", "-", -1⟩, e'], cur := inner } = hbOb := by
  have h0 : frameFunction % (frameMask + 1) = frameFunction := by decide
  simp [dumpTraceRet, hp, dtRetGo, h0, he', hob, hname, hnn]

/-- non-vacuity: `go` (slot 2 of m.c) calls `f1` through a function literal inside a catch; four lines, innermost
last; no table is known for these programs, so the location is `?` -/
example :
    let w : World := { fns := [("m.c", ["set_oid", "f1", "go"])] }
    let m : Machine := { cs := [⟨frameFunction, 2, "-", "-", -1⟩, ⟨frameCatch, 0, "m.c", "m", 7⟩, ⟨frameFunp, 0, "m.c", "m", 9⟩,
                                  ⟨frameFunction, 1, "m.c", "m", 30⟩],
                         cur := ⟨"m.c", "m", 44⟩ }
    dumpTrace w m = ["go()~at~?,~in~program~/m.c~(object~m)", "(catch)~at~?,~in~program~/m.c~(object~m)",
                     "(function)~at~?,~in~program~/m.c~(object~m)", "f1()~at~?,~in~program~/m.c~(object~m)"] ∧
    (svalueTrace w m).map (·.fn) = ["go", "CATCH", "<function>", "f1"] ∧
    dumpTraceArgs m [(1, 0), (-1, -1), (1, 0), (1, 2)] 5 = ["FA", "F", "FA", "FAL"] := by
  decide

end NV.C18
