/-
C18 — the source statements the model was written from (frozen copy).  `NV/Gen/C18.lean` carries the same regions as
they are in the source NOW (`src…`, regenerated on every run by props/c18.py `source_statements`); the obligation
`source_statements_agree` compares them, so an edited line in one of these regions breaks an obligation even where the
model mirrors the statement by hand (lexer arithmetic, pass 2, bounds check of find_line, frame walk of get_svalue_trace,
the mapping of mudlib_error_handler, push_control_stack, program_file_id, __INIT placement).
-/
import NV.Gen.C18

namespace NV.C18

open NV.Gen.C18

def expIncludeDirective : List String := [
  "current_line++",
  "handle_include (arg, 0)"]

def expHandleInclude : List String := [
  "is->line = current_line",
  "is->file_id = current_file_id",
  "current_line--",
  "save_file_info (current_file_id, current_line - current_line_saved)",
  "current_line_base += current_line",
  "current_line_saved = 0",
  "current_line = 1",
  "current_file_id = add_program_file (buf, 0)"]

def expIncludePop : List String := [
  "save_file_info (current_file_id, current_line - current_line_saved)",
  "current_line_saved = p->line - 1",
  "current_line_base += current_line - current_line_saved",
  "current_file_id = p->file_id",
  "current_line = p->line"]

def expFinalProgram : List String := [
  "save_file_info (current_file_id, current_line - current_line_saved)",
  "switch_to_line (-1)"]

def expNodeLine : List String := [
  "next_node->line = (short)(current_line_base + current_line)"]

def expInitParser : List String := [
  "line_being_generated = 0",
  "last_size_generated = 0",
  "init_line_being_generated = 0"]

def expSwitchToLine : List String := [
  "static void switch_to_line (int line) {",
  "ptrdiff_t sz = CURRENT_PROGRAM_SIZE - last_size_generated",
  "short s",
  "unsigned char *p",
  "if (current_block == A_INITIALIZER)",
  "if (line != init_line_being_generated)",
  "init_line_t il",
  "il.line = line",
  "il.offset = (int) CURRENT_PROGRAM_SIZE",
  "add_to_mem_block (A_INIT_LINES, (char *) &il, sizeof (il))",
  "init_line_being_generated = line",
  "return",
  "if (current_block != A_PROGRAM)",
  "return",
  "if (sz)",
  "s = (short)line_being_generated",
  "last_size_generated += sz",
  "while (sz > 255)",
  "p = (unsigned char *) allocate_in_mem_block (A_LINENUMBERS, 3)",
  "*p++ = 255",
  "STORE_SHORT (p, s)",
  "sz -= 255",
  "p = (unsigned char *) allocate_in_mem_block (A_LINENUMBERS, 3)",
  "*p++ = (unsigned char)sz",
  "STORE_SHORT (p, s)",
  "line_being_generated = line"]

def expGenerateNodeLine : List String := [
  "if (expr->line && expr->line != (current_block == A_INITIALIZER ? init_line_being_generated : line_being_generated))",
  "switch_to_line (expr->line)"]

def expPlaceInit : List String := [
  "i_generate___INIT ()",
  "size_t base = mem_block[A_PROGRAM].current_size",
  "size_t i, n = mem_block[A_INIT_LINES].current_size / sizeof (init_line_t)",
  "add_to_mem_block (A_PROGRAM, (char *) mem_block[A_INITIALIZER].block,",
  "mem_block[A_INITIALIZER].current_size)",
  "for (i = 0; i < n; i++)",
  "init_line_t *il = ((init_line_t *) mem_block[A_INIT_LINES].block) + i",
  "prog_code = mem_block[A_PROGRAM].block + base + il->offset",
  "switch_to_line (il->line)",
  "prog_code = mem_block[A_PROGRAM].block + mem_block[A_PROGRAM].current_size"]

def expSaveFileInfo : List String := [
  "short fi[2]",
  "fi[0] = (short)lines",
  "fi[1] = (short)file_id",
  "add_to_mem_block (A_FILE_INFO"]

def expProgramFileId : List String := [
  "static int program_file_id (const char *name, int top) {",
  "int file_id",
  "if (!mem_block[A_STRINGS].block)",
  "return 0",
  "file_id = store_prog_string (name) + 1",
  "if (!top && mem_block[A_FILE_INFO].block)",
  "unsigned short *fi = (unsigned short *) mem_block[A_FILE_INFO].block",
  "size_t i, n = mem_block[A_FILE_INFO].current_size / sizeof (unsigned short)",
  "for (i = 1; i < n; i += 2)",
  "if (fi[i] == (unsigned short) file_id)",
  "free_prog_string (file_id - 1)",
  "return store_prog_string_again (name) + 1",
  "return file_id"]

def expTranslate : List String := [
  "int translate_absolute_line (int abs_line, unsigned short *file_info, size_t block_size, int *ret_file, int *ret_line) {",
  "unsigned short *p1, *p2, *end = file_info + (block_size / sizeof(unsigned short))",
  "int file",
  "int line_tmp = abs_line",
  "p1 = file_info",
  "while (line_tmp > *p1)",
  "line_tmp -= *p1",
  "p1 += 2",
  "if (p1 >= end)",
  "return -1",
  "file = p1[1]",
  "p2 = file_info",
  "while (p2 < p1)",
  "if (p2[1] == file)",
  "line_tmp += *p2",
  "p2 += 2",
  "*ret_line = line_tmp",
  "*ret_file = file",
  "return 0"]

def expFindLine : List String := [
  "static int find_line (const char *p, const program_t * progp, char **ret_file, int *ret_line) {",
  "int offset",
  "unsigned char *lns",
  "unsigned short abs_line",
  "int file_idx",
  "*ret_file = \"\"",
  "*ret_line = 0",
  "if (!progp)",
  "return 1",
  "if (progp == &fake_prog)",
  "return 2",
  "if (!progp->line_info)",
  "return 4",
  "offset = (int)(p - progp->program)",
  "if (offset > (int) progp->program_size)",
  "opt_warn (1, \"illegal offset %+d in object /%s\", offset, progp->name)",
  "return 4",
  "lns = progp->line_info",
  "while (offset > *lns)",
  "offset -= *lns",
  "lns += 3",
  "COPY_SHORT (&abs_line, lns + 1)",
  "if (0 == translate_absolute_line (abs_line, &progp->file_info[2], (progp->file_info[1] - 2) * sizeof(short), &file_idx, ret_line))",
  "*ret_file = progp->strings[file_idx - 1]",
  "return 0",
  "return 4"]

def expTraceFrames : List String := [
  "v = allocate_empty_array ((csp - &control_stack[0]) + 1)",
  "for (p = &control_stack[0]; p < csp; p++)",
  "switch (p[0].framekind & FRAME_MASK)",
  "get_trace_details (p[1].prog, p[0].fr.table_index, &ftd)",
  "add_mapping_string (m, \"function\", ftd.name)",
  "add_mapping_string (m, \"function\", \"CATCH\")",
  "add_mapping_string (m, \"function\", \"<function>\")",
  "add_mapping_string (m, \"function\", \"<function>\")",
  "add_mapping_string (m, \"program\", p[1].prog->name)",
  "add_mapping_object (m, \"object\", p[1].ob)",
  "get_explicit_line_number_info (p[1].pc, p[1].prog, &file, &line)",
  "add_mapping_string (m, \"file\", file)",
  "add_mapping_pair (m, \"line\", line)",
  "switch (p[0].framekind & FRAME_MASK)",
  "get_trace_details (current_prog, p[0].fr.table_index, &ftd)",
  "add_mapping_string (m, \"function\", ftd.name)",
  "add_mapping_string (m, \"function\", \"CATCH\")",
  "add_mapping_string (m, \"function\", \"<function>\")",
  "add_mapping_string (m, \"function\", \"<function>\")",
  "add_mapping_string (m, \"program\", current_prog->name)",
  "add_mapping_object (m, \"object\", current_object)",
  "get_line_number_info (&file, &line)",
  "add_mapping_string (m, \"file\", file)",
  "add_mapping_pair (m, \"line\", line)"]

def expErrorMapping : List String := [
  "add_mapping_string (m, \"error\", err)",
  "if (current_prog)",
  "add_mapping_string (m, \"program\", current_prog->name)",
  "if (current_object)",
  "add_mapping_object (m, \"object\", current_object)",
  "add_mapping_array (m, \"trace\", get_svalue_trace (0))",
  "get_line_number_info (&file, &line)",
  "add_mapping_string (m, \"file\", file)",
  "add_mapping_pair (m, \"line\", line)"]

def expPushControl : List String := [
  "if (csp == &control_stack[CONFIG_INT (__MAX_CALL_DEPTH__) - 1])",
  "csp++",
  "csp->caller_type = caller_type",
  "csp->ob = current_object",
  "csp->framekind = frkind",
  "csp->prev_ob = previous_ob",
  "csp->fp = fp",
  "csp->prog = current_prog",
  "csp->pc = pc"]

/-- **source_statements_agree**: every hand-modelled region of the anchor code still reads as it did when the model was written -/
theorem source_statements_agree :
    srcIncludeDirective = expIncludeDirective ∧
    srcHandleInclude = expHandleInclude ∧
    srcIncludePop = expIncludePop ∧
    srcFinalProgram = expFinalProgram ∧
    srcNodeLine = expNodeLine ∧
    srcInitParser = expInitParser ∧
    srcSwitchToLine = expSwitchToLine ∧
    srcGenerateNodeLine = expGenerateNodeLine ∧
    srcPlaceInit = expPlaceInit ∧
    srcSaveFileInfo = expSaveFileInfo ∧
    srcProgramFileId = expProgramFileId ∧
    srcTranslate = expTranslate ∧
    srcFindLine = expFindLine ∧
    srcTraceFrames = expTraceFrames ∧
    srcErrorMapping = expErrorMapping ∧
    srcPushControl = expPushControl := by
  refine ⟨?_, ?_, ?_, ?_, ?_, ?_, ?_, ?_, ?_, ?_, ?_, ?_, ?_, ?_, ?_, ?_⟩ <;> rfl

end NV.C18
