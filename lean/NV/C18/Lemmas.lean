/-
C18 — helper lemmas: encoder/decoder of `line_info`.
-/
import NV.C18.Model
import NV.C18.Spec

namespace NV.C18

open NV.Gen.C18

/-! ## bridging lemmas for the guards transcribed from the source (NV/Gen/C18.lean) -/

/-- the scan of `find_line` goes on exactly while the offset is GREATER than the run length -/
theorem scanContinues_iff (off : Int) (n : Nat) : scanContinues off n = true ↔ off > (n : Int) := by
  simp [scanContinues]

/-- the run split of `switch_to_line` is `while (sz > 255) { *p++ = 255; …; sz -= 255; }` with 255 = the largest
    `unsigned char` -/
theorem split_agrees : splitOp = ">" ∧ splitBound = runMax ∧ splitLen = runMax ∧ splitDec = runMax := by decide

/-- `find_line` rejects exactly the offsets GREATER than the program size (offset = size, the pc behind the last
    instruction, is decoded) -/
theorem psizeRejects_iff (off : Int) (n : Nat) : psizeRejects off n = true ↔ off > (n : Int) := by
  simp [psizeRejects]

/-- the source has no end-pointer test in the walk of `find_line` (bridging lemma for `Gen.C18.scanBounded`): the scan
    depends on the runs only, never on the stored table size `file_info[0]` -/
theorem scan_unbounded : scanBounded = false := rfl

theorem findRun_cons (r : Run) (rest : List Run) (off : Int) :
    findRun (r :: rest) off = if off > (r.len : Int) then findRun rest (off - r.len) else some r := by
  simp [findRun, scanContinues]

/-! ## runsOf: the split of a statement into runs of at most 255 bytes -/

theorem runsOf_gt {n s : Nat} (h : n > runMax) : runsOf n s = ⟨runMax, s⟩ :: runsOf (n - runMax) s := by
  rw [runsOf]; simp [h]

theorem runsOf_le {n s : Nat} (h : ¬ n > runMax) : runsOf n s = [⟨n, s⟩] := by
  rw [runsOf]; simp [h]

/-- every run produced for one statement carries the statement's line -/
theorem runsOf_line (n s : Nat) : ∀ r ∈ runsOf n s, r.line = s := by
  induction n using Nat.strongRecOn with
  | _ n ih =>
    by_cases h : n > runMax
    · rw [runsOf_gt h]
      intro r hr
      cases hr with
      | head => rfl
      | tail _ hr => exact ih (n - runMax) (by have := runMax_eq; omega) r hr
    · rw [runsOf_le h]
      intro r hr
      cases hr with
      | head => rfl
      | tail _ hr => cases hr

/-- every run length fits the `unsigned char` -/
theorem runsOf_len_le (n s : Nat) : ∀ r ∈ runsOf n s, r.len ≤ runMax := by
  induction n using Nat.strongRecOn with
  | _ n ih =>
    by_cases h : n > runMax
    · rw [runsOf_gt h]
      intro r hr
      cases hr with
      | head => exact Nat.le_refl _
      | tail _ hr => exact ih (n - runMax) (by have := runMax_eq; omega) r hr
    · rw [runsOf_le h]
      intro r hr
      cases hr with
      | head => exact Nat.le_of_not_gt h
      | tail _ hr => cases hr

/-- the run lengths add up to the statement's size -/
theorem runsOf_sum (n s : Nat) : ((runsOf n s).map (·.len)).sum = n := by
  induction n using Nat.strongRecOn with
  | _ n ih =>
    by_cases h : n > runMax
    · rw [runsOf_gt h]
      simp only [List.map_cons, List.sum_cons]
      rw [ih (n - runMax) (by have := runMax_eq; omega)]
      omega
    · rw [runsOf_le h]; simp

/-- scanning into the runs of one statement: an offset inside the statement stops on one of its runs -/
theorem findRun_runsOf_in (n s : Nat) (rest : List Run) (off : Int) (h2 : off ≤ n) :
    ∃ k, findRun (runsOf n s ++ rest) off = some ⟨k, s⟩ := by
  induction n using Nat.strongRecOn generalizing off with
  | _ n ih =>
    by_cases h : n > runMax
    · rw [runsOf_gt h]
      simp only [List.cons_append, findRun_cons]
      by_cases hc : off > (runMax : Int)
      · simp only [hc, if_true]
        exact ih (n - runMax) (by have := runMax_eq; omega) (off - runMax) (by omega)
      · simp only [hc, if_false]
        exact ⟨runMax, rfl⟩
    · rw [runsOf_le h]
      simp only [List.cons_append, List.nil_append, findRun_cons]
      have : ¬ off > (n : Int) := by omega
      simp only [this, if_false]
      exact ⟨n, rfl⟩

/-- … and an offset behind the statement continues behind its runs -/
theorem findRun_runsOf_out (n s : Nat) (rest : List Run) (off : Int) (h2 : off > n) :
    findRun (runsOf n s ++ rest) off = findRun rest (off - n) := by
  induction n using Nat.strongRecOn generalizing off with
  | _ n ih =>
    by_cases h : n > runMax
    · rw [runsOf_gt h]
      simp only [List.cons_append, findRun_cons]
      have hc : off > (runMax : Int) := by omega
      simp only [hc, if_true]
      rw [ih (n - runMax) (by have := runMax_eq; omega) (off - runMax) (by omega)]
      congr 1
      omega
    · rw [runsOf_le h]
      simp only [List.cons_append, List.nil_append, findRun_cons]
      simp only [h2, if_true]

/-! ## the encoder as a pure function of the emission sequence -/

/-- runs written when `p` bytes are pending under line `line` (the `if (sz) { … }` block of `switch_to_line`) -/
def flush (p : Int) (line : Int) : List Run :=
  if p = 0 then [] else if p > 0 then runsOf p.toNat (u16 line) else [⟨u8 p, u16 line⟩]

theorem aProgram_ne_aInitializer : ¬ aProgram = aInitializer := by decide

theorem switchToLine_li (st : Enc) (l cur : Int) :
    (switchToLine st l cur aProgram).li = st.li ++ flush (cur - st.lastSize) st.lineBeing := by
  unfold switchToLine flush Enc.li
  simp only [aProgram_ne_aInitializer, ↓reduceIte]
  by_cases h0 : cur - st.lastSize = 0
  · simp [h0]
  · by_cases h1 : cur - st.lastSize > 0
    · simp [h0, h1]
    · simp [h0, h1]

theorem switchToLine_lastSize (st : Enc) (l cur : Int) :
    (switchToLine st l cur aProgram).lastSize = cur := by
  unfold switchToLine
  simp only [aProgram_ne_aInitializer, ↓reduceIte]
  by_cases h0 : cur - st.lastSize = 0
  · simp [h0]; omega
  · simp [h0]; omega

theorem switchToLine_lineBeing (st : Enc) (l cur : Int) :
    (switchToLine st l cur aProgram).lineBeing = l := by
  unfold switchToLine
  simp only [aProgram_ne_aInitializer, ↓reduceIte]
  by_cases h0 : cur - st.lastSize = 0 <;> simp [h0]

/-- drive the encoder with one emission: the code generator switches to line `e.1`, then generates `e.2` bytes -/
def emitStep (st : Enc × Int) (e : Int × Nat) : Enc × Int :=
  (switchToLine st.1 e.1 st.2 aProgram, st.2 + e.2)

/-- run a whole emission sequence from a given compiler state and close with `switch_to_line (-1)` -/
def runFrom (st : Enc) (cur : Int) (ems : List (Int × Nat)) : Enc :=
  let r := ems.foldl emitStep (st, cur)
  switchToLine r.1 (-1) r.2 aProgram

/-- a fresh compilation (`i_initialize_parser`) -/
def runEms (ems : List (Int × Nat)) : Enc := runFrom {} 0 ems

/-- what the encoder writes, as a pure function of the emission sequence -/
def encodeEms : List (Int × Nat) → List Run
  | [] => []
  | (l, n) :: rest => (if n = 0 then [] else runsOf n (u16 l)) ++ encodeEms rest

theorem flush_nat (n : Nat) (l : Int) : flush (n : Int) l = if n = 0 then [] else runsOf n (u16 l) := by
  unfold flush
  by_cases h : n = 0
  · simp [h]
  · have h1 : (n : Int) ≠ 0 := by omega
    have h2 : (n : Int) > 0 := by omega
    simp [h, h1, h2]

theorem runFrom_li (ems : List (Int × Nat)) : ∀ (st : Enc) (cur : Int),
    (runFrom st cur ems).li = st.li ++ flush (cur - st.lastSize) st.lineBeing ++ encodeEms ems := by
  induction ems with
  | nil =>
    intro st cur
    simp [runFrom, encodeEms, switchToLine_li]
  | cons e rest ih =>
    intro st cur
    obtain ⟨l, n⟩ := e
    have h := ih (switchToLine st l cur aProgram) (cur + n)
    simp only [runFrom, List.foldl_cons, emitStep] at h ⊢
    rw [h, switchToLine_li, switchToLine_lastSize, switchToLine_lineBeing]
    have : cur + (n : Int) - cur = (n : Int) := by omega
    rw [this, flush_nat]
    simp [encodeEms, List.append_assoc]

theorem runEms_li (ems : List (Int × Nat)) : (runEms ems).li = encodeEms ems := by
  unfold runEms
  rw [runFrom_li]
  simp [Enc.li, flush]

def totalBytes (ems : List (Int × Nat)) : Nat := (ems.map (·.2)).sum

/-- decoder on the encoder's output: the run found carries the line of the emission covering the byte in front of
    the offset -/
theorem findRun_encodeEms (ems : List (Int × Nat)) : ∀ (off : Int), 0 < off → off ≤ totalBytes ems →
    (findRun (encodeEms ems) off).map (·.line) = (specLine ems (off - 1).toNat).map u16 := by
  induction ems with
  | nil =>
    intro off h1 h2
    simp [totalBytes] at h2
    omega
  | cons e rest ih =>
    intro off h1 h2
    obtain ⟨l, n⟩ := e
    simp only [totalBytes, List.map_cons, List.sum_cons] at h2
    simp only [encodeEms, specLine]
    by_cases hn : n = 0
    · subst hn
      simp only [if_true, List.nil_append]
      have : ¬ (off - 1).toNat < 0 := by omega
      simp only [this, if_false, Nat.sub_zero]
      exact ih off h1 (by simpa [totalBytes] using h2)
    · simp only [hn, if_false]
      by_cases hin : off ≤ n
      · obtain ⟨k, hk⟩ := findRun_runsOf_in n (u16 l) (encodeEms rest) off hin
        rw [hk]
        have : (off - 1).toNat < n := by omega
        have this2 : off.toNat - 1 < n := by omega
        simp [this, this2]
      · have hout : off > (n : Int) := by omega
        rw [findRun_runsOf_out n (u16 l) (encodeEms rest) off hout]
        have : ¬ (off - 1).toNat < n := by omega
        simp only [this, if_false]
        have h3 := ih (off - n) (by omega) (by simp only [totalBytes]; omega)
        rw [h3]
        congr 2
        omega

end NV.C18
