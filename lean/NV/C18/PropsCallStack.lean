/-
C18 — the efun `call_stack ()`: it reads the same control stack as `get_svalue_trace`, innermost frame first.
-/
import NV.C18.Props

namespace NV.C18

open NV.Gen.C18

theorem callFrames_snoc (cs : List CsEntry) (e : CsEntry) (cur : Regs) :
    callFrames { cs := cs ++ [e], cur := cur } = (e, cur) :: callFrames { cs := cs, cur := ⟨e.prog, e.ob, e.pc⟩ } := by
  simp [callFrames]

/-- the (element, registers) pairs `call_stack` walks are those of `get_svalue_trace`, in the opposite order -/
theorem callFrames_eq_rev (rcs : List CsEntry) : ∀ cur : Regs,
    callFrames { cs := rcs.reverse, cur := cur } = (framesOf rcs.reverse cur).reverse := by
  induction rcs with
  | nil => intro cur; rfl
  | cons e rest ih =>
    intro cur
    rw [List.reverse_cons, callFrames_snoc, framesOf_snoc, ih]
    simp

theorem callFrames_eq (cs : List CsEntry) (cur : Regs) : callFrames { cs := cs, cur := cur } = (framesOf cs cur).reverse := by
  have := callFrames_eq_rev cs.reverse cur
  simpa using this

/-- **call_stack_is_reversed_trace**.  For EVERY control stack and register state with a current program, what the efun
`call_stack` returns — function names (`call_stack (2)`), programs (`call_stack (0)`), objects (`call_stack (1)`) — is, entry
by entry, the `"function"` / `"program"` / `"object"` of the trace `get_svalue_trace` builds for the same state, in the
opposite order: innermost frame FIRST.  (With `trace_order` and `apply_frame_named`: the names are those of the active
calls, also for frames opened through the apply cache.) -/
theorem call_stack_is_reversed_trace (w : World) (m : Machine) (hcur : m.cur.prog ≠ "-") :
    callStackFns w m = ((svalueTrace w m).map (·.fn)).reverse ∧
    callStackProgs m = ((svalueTrace w m).map (fun t => "/" ++ t.prog)).reverse ∧
    callStackObs m = ((svalueTrace w m).map (·.ob)).reverse := by
  have h : callFrames m = (framesOf m.cs m.cur).reverse := callFrames_eq m.cs m.cur
  unfold callStackFns callStackProgs callStackObs svalueTrace
  simp only [hcur, if_false, h, List.map_reverse, List.map_map]
  refine ⟨?_, ?_, ?_⟩ <;> congr 1

/-- non-vacuity: `go` calls `f1` inside a catch; `call_stack (2)` in `f1` = f1, CATCH, go -/
example :
    let w : World := { fns := [("m.c", ["set_oid", "f1", "go"])] }
    let m : Machine := { cs := [⟨frameFunction, 2, "-", "-", -1⟩, ⟨frameCatch, 0, "m.c", "m", 7⟩, ⟨frameFunction, 1, "m.c", "m", 9⟩],
                         cur := ⟨"m.c", "m", 44⟩ }
    callStackFns w m = ["f1", "CATCH", "go"] ∧ callStackProgs m = ["/m.c", "/m.c", "/m.c"] := by
  decide

end NV.C18
